// C35: declared output hashes are enforced exactly (end to end through the real plz binary, plus
// core.BuildTarget.UnprefixedHashes in process). Implementation side of the correspondence with
// Model/C35.v and the model-independent property oracle.
package main

import (
	"crypto/sha1"
	"crypto/sha256"
	"encoding/hex"
	"fmt"
	"hash"
	"hash/crc32"
	"hash/crc64"
	"os"
	"path/filepath"
	"regexp"
	"sort"
	"strings"
	"sync"
	"time"

	"github.com/cespare/xxhash/v2"
	"github.com/zeebo/blake3"

	"verifharness/e2e"
	"verifharness/lib"

	"github.com/thought-machine/please/src/core"
)

// ---------------------------------------------------------------------------------------------
// hash functions, computed here with Go's libraries (NOT through plz)

var allAlgos = []string{"sha1", "sha256", "blake3", "xxhash", "crc32", "crc64"}
var algoCtor = map[string]string{"sha1": "Sha1", "sha256": "Sha256", "blake3": "Blake3", "xxhash": "XXHash", "crc32": "Crc32", "crc64": "Crc64"}

func newHash(algo string) hash.Hash {
	switch algo {
	case "sha1":
		return sha1.New()
	case "sha256":
		return sha256.New()
	case "blake3":
		return blake3.New()
	case "xxhash":
		return xxhash.New()
	case "crc32":
		return crc32.NewIEEE()
	case "crc64":
		return crc64.New(crc64.MakeTable(crc64.ISO))
	}
	panic("algo " + algo)
}

func hashBytes(algo string, b []byte) []byte {
	h := newHash(algo)
	h.Write(b)
	return h.Sum(nil)
}

// an output of a target, as the property sees it: a file with its bytes, or a directory with the
// bytes of its regular files in walk order (sorted names, depth first)
type item struct {
	Name   string   `json:"name"`
	Dir    bool     `json:"dir,omitempty"`
	Data   string   `json:"data,omitempty"`
	Leaves []string `json:"leaves,omitempty"`
}

func (it item) bytes() []byte {
	if !it.Dir {
		return []byte(it.Data)
	}
	return []byte(strings.Join(it.Leaves, ""))
}

func direct(algo string, it item) []byte { return hashBytes(algo, it.bytes()) }

func combinedInput(algo string, items []item) []byte {
	var b []byte
	for _, it := range items {
		b = append(b, direct(algo, it)...)
	}
	return b
}

func combined(algo string, items []item) []byte { return hashBytes(algo, combinedInput(algo, items)) }

// the digest "of the outputs" under one algorithm: the hash of the single output, or the hash over the
// per-output hashes when there are several
func outputsDigest(algo string, items []item) []byte {
	if len(items) == 1 {
		return direct(algo, items[0])
	}
	return combined(algo, items)
}

type config struct {
	Fn       string   `json:"hashfunction"`
	Checkers []string `json:"hashcheckers"`
}

// legit: every hex value that counts as "the outputs hash to it under a configured algorithm".
// The configured algorithms are build.hashcheckers; the value of plz's own output hash
// (build.hashfunction) counts as well.
func legit(cfg config, items []item) map[string]string {
	out := map[string]string{}
	for _, a := range cfg.Checkers {
		out[hex.EncodeToString(outputsDigest(a, items))] = a
	}
	out[hex.EncodeToString(primaryDigest(cfg.Fn, items))] = cfg.Fn + " (plz's own output hash)"
	return out
}

// plz's own output hash (build.hashfunction): the file's hash for a single file output, otherwise
// the hash over the per-output hashes (also for a single directory)
func primaryDigest(algo string, items []item) []byte {
	if len(items) == 1 && !items[0].Dir {
		return direct(algo, items[0])
	}
	return combined(algo, items)
}

// "optional `algo:` prefixes aside"
func oracleStrip(h string) string {
	if i := strings.LastIndex(h, ":"); i >= 0 {
		return strings.TrimSpace(h[i+1:])
	}
	return h
}

func oracleMatches(cfg config, items []item, declared []string) bool {
	l := legit(cfg, items)
	for _, h := range declared {
		if _, ok := l[oracleStrip(h)]; ok {
			return true
		}
	}
	return false
}

// ---------------------------------------------------------------------------------------------
// Coq printers

type tableT struct {
	seen  map[string]bool
	items []string
}

func (t *tableT) add(algo string, input []byte) {
	k := algo + "\x00" + string(input)
	if t.seen[k] {
		return
	}
	t.seen[k] = true
	t.items = append(t.items, lib.Pair(lib.Pair(algoCtor[algo], lib.Str(string(input))), lib.Str(string(hashBytes(algo, input)))))
}

func (t *tableT) addSet(cfg config, items []item) {
	for _, a := range cfgAlgos(cfg) {
		for _, it := range items {
			t.add(a, it.bytes())
		}
		t.add(a, combinedInput(a, items))
	}
}

func cfgAlgos(cfg config) []string {
	out := append([]string{cfg.Fn}, cfg.Checkers...)
	return out
}

func coqCfg(cfg config) string {
	cs := []string{}
	for _, a := range cfg.Checkers {
		cs = append(cs, algoCtor[a])
	}
	return "{| hashfn := " + algoCtor[cfg.Fn] + "; checkers := " + lib.List(cs) + " |}"
}

func coqOut(it item) string {
	if it.Dir {
		return lib.App("ODir", lib.StrList(it.Leaves))
	}
	return lib.App("OFile", lib.Str(it.Data))
}

func coqOuts(items []item) string {
	xs := []string{}
	for _, it := range items {
		xs = append(xs, coqOut(it))
	}
	return lib.List(xs)
}

func coqKey(declared []string, rest int) string {
	return "{| k_hashes := " + lib.Str(strings.Join(declared, "")) + "; k_rest := " + lib.N(uint64(rest)) + " |}"
}

func coqDef(declared []string, rest int, items []item) string {
	return "{| d_declared := " + lib.StrList(declared) + "; d_rest := " + lib.N(uint64(rest)) + "; d_produce := " + coqOuts(items) + " |}"
}

// ---------------------------------------------------------------------------------------------
// targets under test

type shapeT struct {
	Name string
	Kind string // genrule | filegroup
}

var shapes = []shapeT{{"file1", "genrule"}, {"cat1", "genrule"}, {"cat2", "genrule"}, {"const3", "genrule"}, {"dir", "genrule"},
	{"dir", "genrule"}, {"outdir", "genrule"}, {"fg1", "filegroup"}, {"fg2", "filegroup"}, {"file1", "genrule"}}

var words = []string{"one", "two", "three", "alpha beta", "", "x"}
var fileContents = []string{"alpha\n", "beta\n", "gamma", "", "x", "line1\nline2\n"}

type tcase struct {
	Pkg      string            `json:"pkg"`
	Label    string            `json:"label"`
	Shape    string            `json:"shape"`
	Kind     string            `json:"kind"`
	Files    map[string]string `json:"files"` // current source files of the package
	Arg      string            `json:"arg,omitempty"`
	Srcs     []string          `json:"srcs,omitempty"`
	Declared []string          `json:"declared"`
	SrcVer   int               `json:"src_version"`
	Poison   string            `json:"poison,omitempty"`
	Edit     string            `json:"edit,omitempty"`

	steps               []string // Coq step terms
	obs                 []string // Coq obs terms
	trail               []map[string]any
	defs                [][]string // declared lists built so far
	sets                [][]item   // every output set its command was expected to produce
	lastOK, everBuilt   bool
	poisonLive          bool // the cache holds a tampered entry for the current definition
	rng                 *lib.Rng
	checkTerm, checkKey string
	checkJS             any
}

// eff: the hashes the build sees. The parser (asp addStrings) drops empty strings from every string
// list, so hashes = [""] declares nothing.
func (t *tcase) eff() []string {
	out := []string{}
	for _, h := range t.Declared {
		if h != "" {
			out = append(out, h)
		}
	}
	return out
}

func (t *tcase) target() *e2e.Target {
	switch t.Shape {
	case "file1":
		return &e2e.Target{Name: "t", Kind: "genrule", Outs: []string{"t.txt"}, Cmd: e2e.Cmd{Op: "const", Arg: t.Arg}, Hashes: t.Declared}
	case "const3":
		return &e2e.Target{Name: "t", Kind: "genrule", Outs: []string{"t_a.txt", "t_b.txt", "t_c.txt"}, Cmd: e2e.Cmd{Op: "const", Arg: t.Arg}, Hashes: t.Declared}
	case "cat1":
		return &e2e.Target{Name: "t", Kind: "genrule", Srcs: t.Srcs, Outs: []string{"t.txt"}, Cmd: e2e.Cmd{Op: "concat"}, Hashes: t.Declared}
	case "cat2":
		return &e2e.Target{Name: "t", Kind: "genrule", Srcs: t.Srcs, Outs: []string{"t_a.txt", "t_b.txt"}, Cmd: e2e.Cmd{Op: "concat"}, Hashes: t.Declared}
	case "dir":
		return &e2e.Target{Name: "t", Kind: "genrule", Srcs: t.Srcs, Outs: []string{"t_dir"}, Cmd: e2e.Cmd{Op: "copydir"}, OutIsDir: true, Hashes: t.Declared}
	case "outdir":
		return &e2e.Target{Name: "t", Kind: "genrule", Srcs: t.Srcs, Outs: []string{"t.marker"}, OutDirs: []string{"_o"}, Cmd: e2e.Cmd{Op: "outdir"}, Hashes: t.Declared}
	case "fg1", "fg2":
		x := &e2e.Target{Name: "t", Kind: "filegroup", Srcs: t.Srcs}
		if len(t.Declared) > 0 {
			x.Extra = "hashes = " + pyList(t.Declared) + ","
		}
		return x
	}
	panic(t.Shape)
}

func pyList(xs []string) string {
	out := []string{}
	for _, x := range xs {
		x = strings.ReplaceAll(strings.ReplaceAll(x, `\`, `\\`), `"`, `\"`)
		out = append(out, `"`+x+`"`)
	}
	return "[" + strings.Join(out, ", ") + "]"
}

// produce: what the (closed-language) command leaves as outputs, sorted by output name
func (t *tcase) produce() []item {
	var its []item
	switch t.Shape {
	case "file1":
		its = []item{{Name: "t.txt", Data: t.Arg + "\n"}}
	case "const3":
		for _, n := range []string{"t_a.txt", "t_b.txt", "t_c.txt"} {
			its = append(its, item{Name: n, Data: t.Arg + "\n"})
		}
	case "cat1", "cat2":
		c := ""
		for _, s := range t.Srcs {
			c += t.Files[s]
		}
		if t.Shape == "cat1" {
			its = []item{{Name: "t.txt", Data: c}}
		} else {
			its = []item{{Name: "t_a.txt", Data: c}, {Name: "t_b.txt", Data: fmt.Sprintf("%d\n", len(t.Srcs))}}
		}
	case "dir":
		names := append([]string{}, t.Srcs...)
		sort.Strings(names)
		it := item{Name: "t_dir", Dir: true, Leaves: []string{}}
		for _, n := range names {
			it.Leaves = append(it.Leaves, t.Files[n])
		}
		its = []item{it}
	case "outdir":
		for _, s := range t.Srcs {
			its = append(its, item{Name: s, Data: t.Files[s]})
		}
		its = append(its, item{Name: "t.marker", Data: "fixed\n"})
	case "fg1", "fg2":
		for _, s := range t.Srcs {
			its = append(its, item{Name: s, Data: t.Files[s]})
		}
	}
	sort.Slice(its, func(i, j int) bool { return its[i].Name < its[j].Name })
	return its
}

// readDisk reads the target's outputs from plz-out; nil if any is absent
func (t *tcase) readDisk(repo *e2e.Repo) []item {
	var out []item
	for _, it := range t.produce() {
		n := e2e.ReadTree(filepath.Join(repo.Dir, "plz-out", "gen", t.Pkg, it.Name))
		switch n.Kind {
		case "file":
			out = append(out, item{Name: it.Name, Data: n.Content})
		case "dir":
			out = append(out, item{Name: it.Name, Dir: true, Leaves: walkLeaves(n)})
		default:
			return nil
		}
	}
	return out
}

func walkLeaves(n *e2e.Node) []string {
	out := []string{}
	for _, k := range lib.SortedKeys(n.Entries) {
		switch e := n.Entries[k]; e.Kind {
		case "file":
			out = append(out, e.Content)
		case "dir":
			out = append(out, walkLeaves(e)...)
		}
	}
	return out
}

// ---------------------------------------------------------------------------------------------
// declared hash lists

func flipHex(r *lib.Rng, h string) string {
	if h == "" {
		return "0"
	}
	i := r.Intn(len(h))
	c := h[i]
	n := byte('0')
	if c == '0' {
		n = '1'
	} else if c == 'a' {
		n = 'b'
	} else if c >= 'b' && c <= 'f' {
		n = c - 1
	} else if c > '0' && c <= '9' {
		n = c - 1
	}
	return h[:i] + string(n) + h[i+1:]
}

var prefixes = []string{"sha1: ", "sha256: ", "blake3: ", "sha1:", "sha256:", "x:y: ", "md5:  ", ": ", ":", "sha256:\t", "crc32: ", "sha1: ", "blake3:  ", "xxhash: "}
var suffixes = []string{"", "", "", " ", "  ", "\t", " ", "　 "}

// entry returns one declared value and the kind of value it is
func genEntry(r *lib.Rng, cfg config, items []item, wantGood bool) (string, string) {
	good := func() string {
		a := lib.Pick(r, cfgAlgos(cfg))
		if a == cfg.Fn && (!contains(cfg.Checkers, a) || r.Bool()) {
			return hex.EncodeToString(primaryDigest(a, items))
		}
		return hex.EncodeToString(outputsDigest(a, items))
	}
	if wantGood {
		v := good()
		switch r.Intn(4) {
		case 0:
			return v, "correct"
		case 1:
			return lib.Pick(r, prefixes) + v, "correct-prefixed"
		case 2:
			return lib.Pick(r, prefixes) + v + lib.Pick(r, suffixes), "correct-prefixed-trailing-space"
		default:
			return lib.Pick(r, []string{":", " :", "a b: ", "sha1 : :"}) + " " + v, "correct-odd-prefix"
		}
	}
	switch k := lib.Pick(r, []string{"near-miss", "near-miss", "truncated", "extended", "upper", "space-no-colon", "empty", "unconfigured-algo",
		"other-form", "junk", "colon-after", "prefixed-near-miss", "named-form", "half"}); k {
	case "near-miss":
		return flipHex(r, good()), k
	case "prefixed-near-miss":
		return lib.Pick(r, prefixes) + flipHex(r, good()), k
	case "truncated":
		v := good()
		return v[:len(v)-1], k
	case "extended":
		return good() + lib.Pick(r, []string{"0", "00", "a"}), k
	case "upper":
		return strings.ToUpper(good()), k
	case "space-no-colon":
		if r.Bool() {
			return " " + good(), k
		}
		return good() + lib.Pick(r, []string{" ", "\t", " "}), k
	case "empty":
		return lib.Pick(r, []string{"", ":", "sha1:", "sha256: ", " "}), k
	case "unconfigured-algo":
		for _, a := range allAlgos {
			if !contains(cfgAlgos(cfg), a) {
				return lib.Pick(r, []string{"", a + ": "}) + hex.EncodeToString(outputsDigest(a, items)), k
			}
		}
		return flipHex(r, good()), "near-miss"
	case "other-form":
		a := lib.Pick(r, cfg.Checkers)
		if len(items) == 1 {
			return hex.EncodeToString(combined(a, items)), k
		}
		return hex.EncodeToString(direct(a, items[0])), k
	case "named-form": // the combined hash WITH file names (what plz uses when no hashes are declared)
		a := lib.Pick(r, cfgAlgos(cfg))
		var b []byte
		for _, it := range items {
			b = append(b, direct(a, it)...)
			b = append(b, []byte("plz-out/gen/p/"+it.Name)...)
		}
		return hex.EncodeToString(hashBytes(a, b)), k
	case "junk":
		a := lib.Pick(r, cfgAlgos(cfg))
		return hex.EncodeToString(hashBytes(a, []byte(fmt.Sprint("junk", r.Intn(1000))))), k
	case "colon-after":
		return good() + lib.Pick(r, []string{":", ": ", ":x"}), k
	case "half":
		v := good()
		return v[:len(v)/2], k
	}
	panic("unreachable")
}

func contains(xs []string, x string) bool {
	for _, y := range xs {
		if y == x {
			return true
		}
	}
	return false
}

func genDeclared(r *lib.Rng, cfg config, items []item, mode string) ([]string, []string) {
	// mode: good | bad | none
	if mode == "none" {
		return nil, nil
	}
	n := r.Range(1, 3)
	goodAt := -1
	if mode == "good" {
		goodAt = r.Intn(n)
	}
	var hs, kinds []string
	for i := 0; i < n; i++ {
		h, k := genEntry(r, cfg, items, i == goodAt)
		hs = append(hs, h)
		kinds = append(kinds, k)
	}
	return hs, kinds
}

var configs = []config{
	{"sha256", []string{"sha1", "sha256", "blake3"}}, // the defaults
	{"sha256", []string{"sha1", "sha256", "blake3"}},
	{"sha1", []string{"sha1", "sha256", "blake3"}},
	{"sha256", []string{"sha256"}},
	{"sha1", []string{"sha256"}},
	{"blake3", []string{"sha1", "crc32"}},
	{"sha256", []string{"xxhash", "crc64", "sha1"}},
	{"crc32", []string{"blake3", "sha256"}},
}

// ---------------------------------------------------------------------------------------------
// one repository = K independent targets, driven through five builds

var failedRe = regexp.MustCompile(`(?m)^    (//[^\s:]+:[^\s]+)$`)
var errorRe = regexp.MustCompile(`(?m)ERROR: (//[^\s:]+:[^\s]+) failed:`)

var dbgMu sync.Mutex
var dbgN int

type buildObs struct {
	failed map[string]bool
	ran    map[string]bool
	text   string
	exit   int
}

func runBuild(repo *e2e.Repo, labels []string) buildObs {
	res := repo.Run(120*time.Second, append([]string{"build", "--keep_going"}, labels...)...)
	o := buildObs{failed: map[string]bool{}, ran: map[string]bool{}, text: res.Stdout + "\n" + res.Stderr, exit: res.Exit}
	for _, m := range failedRe.FindAllStringSubmatch(o.text, -1) {
		o.failed[m[1]] = true
	}
	for _, m := range errorRe.FindAllStringSubmatch(o.text, -1) {
		o.failed[m[1]] = true
	}
	for _, l := range res.Executed {
		o.ran[l] = true
	}
	if d := os.Getenv("C35_DEBUG"); d != "" {
		dbgMu.Lock()
		dbgN++
		os.WriteFile(filepath.Join(d, fmt.Sprintf("%s-%03d.txt", filepath.Base(filepath.Dir(repo.Dir)), dbgN)), []byte(fmt.Sprintf("exit %d\nexecuted %v\n%s", res.Exit, res.Executed, o.text)), 0o644)
		dbgMu.Unlock()
	}
	return o
}

// butWas parses the "but was" lines of the hash failure of one label
func butWas(text, label string) []string {
	i := strings.Index(text, "Bad output hash for rule "+label+",")
	if i < 0 {
		return nil
	}
	rest := text[i:]
	j := strings.Index(rest, "but was")
	if j < 0 {
		return nil
	}
	lines := strings.Split(rest[j:], "\n")
	var out []string
	for _, l := range lines[1:] {
		if !strings.HasPrefix(l, "\t") {
			break
		}
		out = append(out, l[1:])
	}
	return out
}

type episode struct {
	Index      int      `json:"repo"`
	Cfg        config   `json:"config"`
	Cases      []*tcase `json:"targets"`
	notes      []string
	fatal      string
	fails      []lib.Failing
	nOracle    int
	unreported int
	hists      [][2]string
}

func (ep *episode) Fail(class, what string, in any) {
	ep.fails = append(ep.fails, lib.Failing{Class: class, What: what, Input: in})
}
func (ep *episode) Oracle()          { ep.nOracle++ }
func (ep *episode) Hist(a, b string) { ep.hists = append(ep.hists, [2]string{a, b}) }

func genEpisode(r *lib.Rng, idx, k int) *episode {
	ep := &episode{Index: idx, Cfg: configs[idx%len(configs)]}
	for i := 0; i < k; i++ {
		sh := shapes[(idx+i*3+r.Intn(2))%len(shapes)]
		t := &tcase{Pkg: fmt.Sprintf("p%d", i), Shape: sh.Name, Kind: sh.Kind, Files: map[string]string{}}
		t.Label = "//" + t.Pkg + ":t"
		for _, f := range []string{"a.txt", "b.txt", "c.txt"} {
			t.Files[f] = lib.Pick(r, fileContents) + fmt.Sprintf("%s%d", f[:1], i)
		}
		t.Arg = lib.Pick(r, words)
		switch sh.Name {
		case "cat1", "cat2", "outdir":
			t.Srcs = []string{"a.txt", "b.txt", "c.txt"}[:r.Range(1, 3)]
		case "dir":
			t.Srcs = []string{"a.txt", "b.txt", "c.txt"}[:r.Range(1, 3)]
			if r.Chance(1, 4) {
				t.Srcs = []string{"c.txt", "a.txt"}
			}
		case "fg1":
			t.Srcs = []string{"a.txt"}
		case "fg2":
			t.Srcs = []string{"a.txt", "b.txt"}
		}
		mode := lib.Pick(r, []string{"good", "good", "good", "bad", "bad", "none"})
		t.Declared, _ = genDeclared(r, ep.Cfg, t.produce(), mode)
		// what happens to it later
		t.Poison = lib.Pick(r, []string{"none", "replace", "replace", "inplace", "match"})
		t.Edit = lib.Pick(r, []string{"none", "resplit", "wrong", "fix", "src", "drop", "add-wrong", "reorder"})
		if t.Poison == "match" {
			if t.Shape == "file1" && len(t.eff()) > 0 {
				// also declare the hash of the content the cache entry will be poisoned with
				t.Declared = append(t.Declared, lib.Pick(r, []string{"", "sha256: "})+hex.EncodeToString(hashBytes(lib.Pick(r, cfgAlgosOf(ep.Cfg)), []byte(evil))))
			} else {
				t.Poison = "replace"
			}
		}
		t.rng = r.Fork()
		ep.Cases = append(ep.Cases, t)
	}
	return ep
}

func cfgAlgosOf(cfg config) []string { return cfgAlgos(cfg) }

const evil = "evil\n"

func (ep *episode) spec() *e2e.Spec {
	s := &e2e.Spec{Pkgs: map[string]*e2e.Pkg{}, Config: []string{"[build]", "hashfunction = " + ep.Cfg.Fn}}
	for _, a := range ep.Cfg.Checkers {
		s.Config = append(s.Config, "hashcheckers = "+a)
	}
	for _, t := range ep.Cases {
		p := &e2e.Pkg{Files: map[string]string{}, Targets: []*e2e.Target{t.target()}}
		for k, v := range t.Files {
			p.Files[k] = v
		}
		s.Pkgs[t.Pkg] = p
	}
	return s
}

// poisonCache replaces (a leaf of) the first output in every cache entry of the target; returns the
// entry's content afterwards as the model sees it
func poisonCache(repo *e2e.Repo, t *tcase, inplace bool) ([]item, bool) {
	its := t.produce()
	first := its[0]
	rel := first.Name
	if first.Dir {
		// the first leaf in walk order
		names := append([]string{}, t.Srcs...)
		sort.Strings(names)
		rel = filepath.Join(first.Name, names[0])
		first.Leaves = append([]string{evil}, first.Leaves[1:]...)
	} else {
		first.Data = evil
	}
	its[0] = first
	entries, _ := filepath.Glob(filepath.Join(repo.CacheDir, t.Pkg, "t", "*"))
	done := false
	for _, e := range entries {
		p := filepath.Join(e, rel)
		if _, err := os.Lstat(p); err != nil {
			continue
		}
		if inplace {
			f, err := os.OpenFile(p, os.O_WRONLY|os.O_TRUNC, 0)
			if err != nil {
				os.Chmod(p, 0o644)
				f, err = os.OpenFile(p, os.O_WRONLY|os.O_TRUNC, 0)
			}
			if err != nil {
				continue
			}
			f.WriteString(evil)
			f.Close()
		} else {
			os.Remove(p)
			if err := os.WriteFile(p, []byte(evil), 0o644); err != nil {
				continue
			}
		}
		done = true
	}
	return its, done
}

func (ep *episode) run(c *lib.Ctx, base string) {
	repo := e2e.NewRepo(base, "repo")
	repo.CacheDir = filepath.Join(base, "cache")
	repo.Threads = 4
	labels := []string{}
	for _, t := range ep.Cases {
		labels = append(labels, t.Label)
	}
	for step := 1; step <= 5; step++ {
		// --- the environment / the edit before this build
		switch step {
		case 3:
			repo.RemovePlzOut()
			for _, t := range ep.Cases {
				t.steps = append(t.steps, "SRmOut")
				if t.Kind == "genrule" && t.Shape != "outdir" && t.lastOK && len(t.eff()) > 0 && t.Poison != "match" {
					t.Poison = lib.Pick(t.rng, []string{"replace", "replace", "inplace", "none"})
				}
				if t.Kind == "genrule" && t.Shape != "outdir" && t.lastOK && t.Poison != "none" && len(t.eff()) > 0 {
					its, done := poisonCache(repo, t, t.Poison == "inplace")
					if !done {
						ep.notes = append(ep.notes, "no cache entry found to poison for "+t.Label)
						t.Poison = "none"
						continue
					}
					fs := []string{}
					for i, it := range its {
						rec := "Some " + coqKey(t.eff(), t.SrcVer)
						if i == 0 && t.Poison != "inplace" {
							rec = "None"
						}
						fs = append(fs, "{| f_out := "+coqOut(it)+"; f_rec := "+rec+" |}")
					}
					t.steps = append(t.steps, lib.App("SPoison", coqKey(t.eff(), t.SrcVer), lib.List(fs)))
					t.trail = append(t.trail, map[string]any{"poison": t.Poison, "entry": its})
					t.poisonLive = true
				} else {
					t.Poison = "none"
				}
			}
		case 4:
			for _, t := range ep.Cases {
				before := fmt.Sprint(strings.Join(t.eff(), ""), "#", t.SrcVer)
				ep.applyEdit(c, t)
				if t.Edit == "src" && t.SrcVer > 0 {
					// replace the source file (new inode) instead of rewriting it in place: a filegroup output is a hard
					// link to its source, so an in-place edit also edits plz-out (and the filegroup then counts as
					// unchanged and is not verified - one more instance of filegroup-unchanged-output-not-checked,
					// outside the model, which has no hard links between sources and outputs)
					os.Remove(filepath.Join(repo.Dir, t.Pkg, t.Srcs[0]))
				}
				if fmt.Sprint(strings.Join(t.eff(), ""), "#", t.SrcVer) != before {
					t.poisonLive = false // another rule hash, another cache key
				}
			}
		}
		repo.Write(ep.spec())
		o := runBuild(repo, labels)
		// With --keep_going plz sometimes stops ("Build stopped after ...") while a requested target is still
		// running its command: that target is neither reported failed nor built. This is a scheduling matter
		// (C04/C05), not a hash matter; the step is repeated (a repeated build of an unchanged tree is the same
		// step: success -> no-op, failure -> the same failure) and "ran" accumulates.
		for attempt := 0; attempt < 3 && (o.exit != 0 || len(o.failed) != 0); attempt++ {
			unreported := o.exit < 0 || len(o.failed) == 0 // timed out, or failed without naming a target
			for _, t := range ep.Cases {
				if !o.failed[t.Label] && t.readDisk(repo) == nil {
					unreported = true
				}
			}
			if !unreported {
				break
			}
			ep.unreported++
			o2 := runBuild(repo, labels)
			for l := range o.ran {
				o2.ran[l] = true
			}
			o = o2
		}
		if o.exit != 0 && len(o.failed) == 0 || o.exit == 0 && len(o.failed) != 0 || o.exit < 0 {
			ep.fatal = fmt.Sprintf("step %d: exit %d with %d failed targets listed: %s", step, o.exit, len(o.failed), tailStr(o.text, 1500))
			return
		}
		for _, t := range ep.Cases {
			ok, ran := !o.failed[t.Label], o.ran[t.Label]
			disk := t.readDisk(repo)
			t.steps = append(t.steps, lib.App("SBuild", coqDef(t.eff(), t.SrcVer, t.produce())))
			t.obs = append(t.obs, "{| o_ok := "+lib.Bool(ok)+"; o_ran := "+lib.Bool(ran)+"; o_disk := "+coqOuts(disk)+" |}")
			bw := []string(nil)
			if !ok {
				bw = butWas(o.text, t.Label)
			}
			t.trail = append(t.trail, map[string]any{"step": step, "declared": append([]string{}, t.Declared...), "effective": t.eff(), "src_version": t.SrcVer, "ok": ok, "ran": ran, "disk": disk, "but_was": bw})
			ep.oracle(c, t, step, ok, ran, disk, o, repo)
			if step == 1 {
				ep.checkCase(c, t, ok, bw)
			}
			t.defs = append(t.defs, t.eff())
			t.lastOK = ok
		}
	}
}

func tailStr(s string, n int) string {
	if len(s) > n {
		return s[len(s)-n:]
	}
	return s
}

func (ep *episode) applyEdit(c *lib.Ctx, t *tcase) {
	items := t.produce()
	r := t.rng
	// choose among the edits that apply to the state the target is in
	opts := []string{"none", "wrong", "fix"}
	if len(t.eff()) > 0 {
		opts = append(opts, "drop")
		if t.Kind == "genrule" && t.lastOK && len(t.Declared[0]) >= 2 && len(t.eff()) == len(t.Declared) {
			opts = append(opts, "resplit", "resplit")
		}
	} else {
		opts = append(opts, "add-wrong", "add-wrong")
	}
	if len(t.Declared) >= 2 {
		opts = append(opts, "reorder")
	}
	if len(t.Srcs) > 0 {
		opts = append(opts, "src")
	}
	t.Edit = lib.Pick(r, opts)
	switch t.Edit {
	case "resplit":
		if len(t.Declared) > 0 && len(t.Declared[0]) >= 2 && t.lastOK && t.Kind == "genrule" && len(t.eff()) == len(t.Declared) {
			h := t.Declared[0]
			t.Declared = append([]string{h[:len(h)/2], h[len(h)/2:]}, t.Declared[1:]...)
			return
		}
		t.Edit = "none"
	case "reorder":
		if len(t.Declared) >= 2 {
			t.Declared = append(append([]string{}, t.Declared[1:]...), t.Declared[0])
			return
		}
		t.Edit = "none"
	case "wrong":
		t.Declared, _ = genDeclared(r, ep.Cfg, items, "bad")
	case "add-wrong":
		if len(t.Declared) == 0 {
			t.Declared, _ = genDeclared(r, ep.Cfg, items, "bad")
			return
		}
		t.Edit = "none"
	case "fix":
		t.Declared, _ = genDeclared(r, ep.Cfg, items, "good")
	case "drop":
		t.Declared = nil
	case "src":
		if len(t.Srcs) > 0 {
			t.Files[t.Srcs[0]] = t.Files[t.Srcs[0]] + "+edited"
			t.SrcVer++
			return
		}
		t.Edit = "none"
	}
}

// checkCase emits the first (fresh, no cache entry, empty plz-out) build as a CCheck case
func (ep *episode) checkCase(c *lib.Ctx, t *tcase, ok bool, bw []string) {
	items := t.produce()
	tbl := &tableT{seen: map[string]bool{}}
	tbl.addSet(ep.Cfg, items)
	verdict := "Accept"
	if !ok {
		verdict = lib.App("Reject", lib.StrList(bw))
	}
	term := lib.App("CCheck", coqCfg(ep.Cfg), coqOuts(items), lib.StrList(t.eff()), lib.List(tbl.items), verdict)
	js := map[string]any{"kind": "check", "repo": ep.Index, "config": ep.Cfg, "target": t.Label, "shape": t.Shape, "outputs": items, "declared": t.Declared, "ok": ok, "but_was": bw}
	t.checkTerm, t.checkJS, t.checkKey = term, js, fmt.Sprint("chk", ep.Cfg, items, t.Declared)
}

func (ep *episode) histCase(c *lib.Ctx, t *tcase) {
	tbl := &tableT{seen: map[string]bool{}}
	// every output set that occurs: produced sets of both source versions, poisoned entries, disk states
	for _, tr := range t.trail {
		if d, ok := tr["disk"].([]item); ok && d != nil {
			tbl.addSet(ep.Cfg, d)
		}
		if e, ok := tr["entry"].([]item); ok {
			tbl.addSet(ep.Cfg, e)
		}
	}
	for _, set := range t.producedSets() {
		tbl.addSet(ep.Cfg, set)
	}
	kind := "Genrule"
	if t.Kind == "filegroup" {
		kind = "Filegroup"
	}
	term := lib.App("CHist", coqCfg(ep.Cfg), kind, lib.List(t.steps), lib.List(tbl.items), lib.List(t.obs))
	js := map[string]any{"kind": "history", "repo": ep.Index, "config": ep.Cfg, "target": t.Label, "shape": t.Shape, "poison": t.Poison, "edit": t.Edit, "trail": t.trail}
	c.Case(term, js, fmt.Sprint("hist", ep.Index, t.Label), true)
}

func (t *tcase) producedSets() [][]item { return t.sets }

// ---------------------------------------------------------------------------------------------
// the property oracle (no model involved)

func (ep *episode) oracle(_ *lib.Ctx, t *tcase, step int, ok, ran bool, disk []item, o buildObs, repo *e2e.Repo) {
	c := ep
	t.sets = append(t.sets, t.produce())
	in := map[string]any{"repo": ep.Index, "config": ep.Cfg, "target": t.Label, "shape": t.Shape, "kind": t.Kind, "step": step,
		"declared": t.Declared, "poison": t.Poison, "edit": t.Edit, "ok": ok, "ran": ran, "disk": disk, "history": append([]map[string]any{}, t.trail...)}
	declared := t.eff()
	c.Oracle()
	c.Hist("step_outcome", fmt.Sprintf("step%d/%s/ok=%v/ran=%v", step, t.Kind, ok, ran))
	if ok {
		// (1) success => the outputs now in plz-out hash to a declared value
		if disk == nil {
			in["output_text"] = tailStr(o.text, 3000)
			c.Fail("success-without-outputs", fmt.Sprintf("%s reported built but an output is missing in plz-out", t.Label), in)
		} else if len(declared) > 0 && !oracleMatches(ep.Cfg, disk, declared) {
			class := "success-without-matching-hash"
			what := fmt.Sprintf("%s (%s) built successfully at step %d although no declared hash %q matches its outputs under %v", t.Label, t.Shape, step, declared, cfgAlgos(ep.Cfg))
			sameKey := false
			for _, d := range t.defs {
				if strings.Join(d, "") == strings.Join(declared, "") && !equalLists(d, declared) {
					sameKey = true
				}
			}
			if t.Kind == "filegroup" && step > 1 {
				class = "filegroup-unchanged-output-not-checked"
				what = fmt.Sprintf("filegroup %s with hashes %q that match nothing built successfully: its output files were already in place, so the hash check was skipped", t.Label, declared)
			} else if sameKey && !ran {
				class = "hash-list-resplit-not-rebuilt"
				what = fmt.Sprintf("%s was not rebuilt nor re-verified after its hashes changed to %q: the rule hash writes the hashes back to back, so a list with the same concatenation has the same rule hash", t.Label, declared)
			}
			c.Fail(class, what, in)
		}
		// (2) a verified target does not depend on what a fresh command would give? only for fresh builds:
		if ran && disk != nil && !equalItems(disk, t.produce()) {
			c.Fail("outputs-differ-from-command", fmt.Sprintf("%s ran its command but plz-out holds something else", t.Label), in)
		}
	} else {
		// (3) failure only for a declared mismatch; and nothing is left behind
		if len(declared) == 0 {
			c.Fail("failed-without-hashes", fmt.Sprintf("%s failed although it declares no hashes: %s", t.Label, tailStr(o.text, 600)), in)
		} else if oracleMatches(ep.Cfg, t.produce(), declared) && step >= 3 && t.poisonLive {
			c.Fail("rebuild-after-rejected-restore-uses-stale-output-hash", fmt.Sprintf("%s: its tampered cache entry was rejected and the target rebuilt, but the rebuilt outputs were compared with the memoised output hash of the rejected artifacts; %q matches plz's own output hash of the real outputs and a clean build accepts it: %s", t.Label, declared, tailStr(o.text, 400)), in)
		} else if oracleMatches(ep.Cfg, t.produce(), declared) {
			c.Fail("rejected-matching-hash", fmt.Sprintf("%s failed although a declared hash matches what its command produces: %s", t.Label, tailStr(o.text, 600)), in)
		}
		for _, it := range t.produce() {
			if n := e2e.ReadTree(filepath.Join(repo.Dir, "plz-out", "gen", t.Pkg, it.Name)); n.Kind != "absent" {
				c.Fail("output-left-after-failed-verification", fmt.Sprintf("%s failed its hash verification but %s is still in plz-out", t.Label, it.Name), in)
			}
		}
		if t.Kind == "genrule" {
			if es, _ := filepath.Glob(filepath.Join(repo.CacheDir, t.Pkg, "t", "*", t.produce()[0].Name)); len(es) > 0 && !t.everBuilt {
				c.Fail("cache-entry-after-failed-verification", fmt.Sprintf("%s never verified but the cache holds an entry for it", t.Label), in)
			}
		}
	}
	if ok && t.Kind == "genrule" {
		t.everBuilt = true
		if ran {
			t.poisonLive = false // a successful build overwrites the cache entry
		}
	}
	// (4) fresh build (step 1): accept <=> some declared value matches
	if step == 1 && len(declared) > 0 {
		want := oracleMatches(ep.Cfg, t.produce(), declared)
		if ok && !want {
			// reported above as success-without-matching-hash
		} else if !ok && want {
			// reported above
		}
		if !ok {
			// the values plz prints are the real digests
			bw := butWas(o.text, t.Label)
			want := []string{}
			for _, a := range ep.Cfg.Checkers {
				want = append(want, a+": "+hex.EncodeToString(outputsDigest(a, t.produce())))
			}
			if !equalLists(bw, want) {
				c.Fail("reported-digests-differ", fmt.Sprintf("%s: plz reports %q, the outputs hash to %q", t.Label, bw, want), in)
			}
		}
	}
	// (5) repeat builds of an unchanged tree: success -> no-op success; failure -> fails again
	if step == 2 || step == 5 {
		if t.lastOK && (!ok || ran) {
			c.Fail("verified-target-not-reused", fmt.Sprintf("%s verified in the previous build; the next build of the unchanged tree gave ok=%v ran=%v: %s", t.Label, ok, ran, tailStr(o.text, 600)), in)
		}
		if !t.lastOK && ok {
			c.Fail("failure-not-repeated", fmt.Sprintf("%s failed verification, the next build of the unchanged tree succeeded", t.Label), in)
		}
		if !t.lastOK && !ok && t.Kind == "genrule" && !ran {
			c.Fail("failure-without-rebuild", fmt.Sprintf("%s failed again without running its command (trusted leftovers?)", t.Label), in)
		}
	}
	// (6) cache restore (step 3)
	if step == 3 && t.Kind == "genrule" && t.lastOK {
		switch t.Poison {
		case "none":
			if ran || !ok {
				c.Fail("clean-cache-entry-not-restored", fmt.Sprintf("%s: unpoisoned cache entry, ok=%v ran=%v", t.Label, ok, ran), in)
			}
		case "replace", "inplace":
			if ok && disk != nil && !equalItems(disk, t.produce()) {
				c.Fail("poisoned-cache-entry-accepted", fmt.Sprintf("%s: the tampered cache entry ended up in plz-out as a verified output", t.Label), in)
			}
			if ok && !ran {
				c.Fail("poisoned-cache-entry-accepted", fmt.Sprintf("%s: built without running although its cache entry does not match the declared hashes", t.Label), in)
			}
		case "match":
			if !ok {
				c.Fail("rejected-matching-hash", fmt.Sprintf("%s: the cache entry hashes to a declared value but the build failed", t.Label), in)
			}
		}
	}
}

func equalLists(a, b []string) bool {
	if len(a) != len(b) {
		return false
	}
	for i := range a {
		if a[i] != b[i] {
			return false
		}
	}
	return true
}

func equalItems(a, b []item) bool { return fmt.Sprint(a) == fmt.Sprint(b) }

// ---------------------------------------------------------------------------------------------
// filegroups of one package: over same-package generated targets that come back from the cache, and pairs
// of filegroups exporting the same file (Model: fg_hist). One repository = K packages, driven through
// five invocations: [gen-warm: build the generator alone | build], wipe plz-out + build, build, edit +
// build, wipe plz-out + build.

type fgcase struct {
	Pkg       string            `json:"pkg"`
	Kind      string            `json:"kind"`  // gen: genrule g + filegroup t over it | pair: filegroups u and t over the same source files
	Shape     string            `json:"shape"` // one | two | dir
	Arg       string            `json:"arg,omitempty"`
	Files     map[string]string `json:"files,omitempty"`
	Declared  []string          `json:"declared"`
	UDeclared []string          `json:"u_declared,omitempty"`
	Order     string            `json:"order,omitempty"` // pair: u-first (t depends on u) | t-first (u depends on t)
	Warm      bool              `json:"warm,omitempty"`  // gen: the first invocation builds the generator alone
	Relabel   int               `json:"relabel,omitempty"`
	Edit      string            `json:"edit,omitempty"`

	ver      int
	rng      *lib.Rng
	steps    []string
	obs      []string
	trail    []map[string]any
	sets     [][]item
	prevDisk []item
	lastOK   bool
	tried    bool // t has been attempted at least once
}

func (f *fgcase) tLabel() string { return "//" + f.Pkg + ":t" }
func (f *fgcase) gLabel() string { return "//" + f.Pkg + ":g" }

func (f *fgcase) eff(hs []string) []string {
	out := []string{}
	for _, h := range hs {
		if h != "" {
			out = append(out, h)
		}
	}
	return out
}

// items: the outputs of t (= of u, = of g), sorted by name, with the content their source has now
func (f *fgcase) items() []item {
	switch f.Kind + "/" + f.Shape {
	case "gen/one":
		return []item{{Name: "g.txt", Data: f.Arg + "\n"}}
	case "gen/two":
		return []item{{Name: "g_a.txt", Data: f.Arg + "\n"}, {Name: "g_b.txt", Data: f.Arg + "\n"}}
	case "gen/dir":
		return []item{{Name: "g_dir", Dir: true, Leaves: []string{f.Files["a.txt"], f.Files["b.txt"]}}}
	case "pair/one":
		return []item{{Name: "a.txt", Data: f.Files["a.txt"]}}
	case "pair/two":
		return []item{{Name: "a.txt", Data: f.Files["a.txt"]}, {Name: "b.txt", Data: f.Files["b.txt"]}}
	case "pair/dir":
		return []item{{Name: "d", Dir: true, Leaves: []string{f.Files["d/a.txt"], f.Files["d/b.txt"]}}}
	}
	panic(f.Kind + "/" + f.Shape)
}

func hashesExtra(hs []string) string {
	if len(hs) == 0 {
		return ""
	}
	return "hashes = " + pyList(hs) + ","
}

func (f *fgcase) pkg() *e2e.Pkg {
	p := &e2e.Pkg{Files: map[string]string{}}
	for k, v := range f.Files {
		p.Files[k] = v
	}
	if f.Kind == "gen" {
		g := &e2e.Target{Name: "g", Kind: "genrule"}
		switch f.Shape {
		case "one":
			g.Outs, g.Cmd = []string{"g.txt"}, e2e.Cmd{Op: "const", Arg: f.Arg}
		case "two":
			g.Outs, g.Cmd = []string{"g_a.txt", "g_b.txt"}, e2e.Cmd{Op: "const", Arg: f.Arg}
		case "dir":
			g.Srcs, g.Outs, g.Cmd, g.OutIsDir = []string{"a.txt", "b.txt"}, []string{"g_dir"}, e2e.Cmd{Op: "copydir"}, true
		}
		if f.Relabel > 0 {
			g.Labels = []string{fmt.Sprintf("v%d", f.Relabel)}
		}
		p.Targets = []*e2e.Target{g, {Name: "t", Kind: "filegroup", Srcs: []string{":g"}, Extra: hashesExtra(f.Declared)}}
		return p
	}
	srcs := []string{"a.txt"}
	switch f.Shape {
	case "two":
		srcs = []string{"a.txt", "b.txt"}
	case "dir":
		srcs = []string{"d"}
	}
	u := &e2e.Target{Name: "u", Kind: "filegroup", Srcs: srcs, Extra: hashesExtra(f.UDeclared)}
	tt := &e2e.Target{Name: "t", Kind: "filegroup", Srcs: srcs, Extra: hashesExtra(f.Declared)}
	if f.Order == "u-first" {
		tt.Deps = []string{":u"}
	} else {
		u.Deps = []string{":t"}
	}
	p.Targets = []*e2e.Target{u, tt}
	return p
}

// request: the label to ask plz for at this step ("" = nothing)
func (f *fgcase) request(step int) string {
	if f.Kind == "gen" {
		if step == 1 && f.Warm {
			return f.gLabel()
		}
		return f.tLabel()
	}
	if f.Order == "u-first" {
		return f.tLabel()
	}
	return "//" + f.Pkg + ":u"
}

func (f *fgcase) readDisk(repo *e2e.Repo) []item {
	var out []item
	for _, it := range f.items() {
		n := e2e.ReadTree(filepath.Join(repo.Dir, "plz-out", "gen", f.Pkg, it.Name))
		switch n.Kind {
		case "file":
			out = append(out, item{Name: it.Name, Data: n.Content})
		case "dir":
			out = append(out, item{Name: it.Name, Dir: true, Leaves: walkLeaves(n)})
		default:
			return nil
		}
	}
	return out
}

func coqFgDef(declared []string, items []item, origin string) string {
	srcs := []string{}
	for i, it := range items {
		srcs = append(srcs, "{| s_path := "+lib.N(uint64(i+1))+"; s_out := "+coqOut(it)+"; s_origin := "+origin+" |}")
	}
	return "{| g_declared := " + lib.StrList(declared) + "; g_srcs := " + lib.List(srcs) + " |}"
}

type fgEpisode struct {
	Index   int       `json:"repo"`
	Cfg     config    `json:"config"`
	Cases   []*fgcase `json:"packages"`
	skipped string
	reruns  int
	fatal   string
	fails   []lib.Failing
	nOracle int
	hists   [][2]string
}

func (ep *fgEpisode) Fail(class, what string, in any) {
	ep.fails = append(ep.fails, lib.Failing{Class: class, What: what, Input: in})
}

var fgKinds = []struct{ Kind, Shape, Order string }{
	{"gen", "one", ""}, {"pair", "one", "u-first"}, {"gen", "two", ""}, {"pair", "two", "u-first"}, {"gen", "dir", ""}, {"pair", "dir", "u-first"},
	{"pair", "one", "t-first"}, {"gen", "one", ""}, {"pair", "two", "t-first"}, {"gen", "two", ""}, {"pair", "one", "u-first"}, {"gen", "dir", ""},
}

func genFgEpisode(r *lib.Rng, idx, k int) *fgEpisode {
	ep := &fgEpisode{Index: idx, Cfg: configs[(idx*3+1)%len(configs)]}
	for i := 0; i < k; i++ {
		ks := fgKinds[(idx*5+i)%len(fgKinds)]
		f := &fgcase{Pkg: fmt.Sprintf("f%d", i), Kind: ks.Kind, Shape: ks.Shape, Order: ks.Order, Files: map[string]string{}}
		f.Arg = lib.Pick(r, words) + fmt.Sprintf(" g%d", i)
		if f.Kind == "pair" || f.Shape == "dir" {
			names := []string{"a.txt", "b.txt"}
			if f.Kind == "pair" && f.Shape == "dir" {
				names = []string{"d/a.txt", "d/b.txt"}
			}
			for _, n := range names {
				f.Files[n] = lib.Pick(r, fileContents) + fmt.Sprintf("%s%d", filepath.Base(n)[:1], i)
			}
		}
		f.Warm = f.Kind == "gen" && r.Chance(2, 3)
		// wrong lists are what the two shapes are about: half of the packages start with one
		mode := lib.Pick(r, []string{"good", "good", "bad", "bad", "bad", "none"})
		f.Declared, _ = genDeclared(r, ep.Cfg, f.items(), mode)
		if f.Kind == "pair" && r.Chance(1, 3) {
			f.UDeclared, _ = genDeclared(r, ep.Cfg, f.items(), "good")
		}
		f.rng = r.Fork()
		ep.Cases = append(ep.Cases, f)
	}
	return ep
}

func (ep *fgEpisode) spec() *e2e.Spec {
	s := &e2e.Spec{Pkgs: map[string]*e2e.Pkg{}, Config: []string{"[build]", "hashfunction = " + ep.Cfg.Fn}}
	for _, a := range ep.Cfg.Checkers {
		s.Config = append(s.Config, "hashcheckers = "+a)
	}
	for _, f := range ep.Cases {
		s.Pkgs[f.Pkg] = f.pkg()
	}
	return s
}

func (f *fgcase) applyEdit(cfg config, repo *e2e.Repo) {
	r := f.rng
	opts := []string{"none", "wrong", "wrong", "fix", "content", "content+fix"}
	if len(f.eff(f.Declared)) > 0 {
		opts = append(opts, "drop")
	}
	if f.Kind == "gen" {
		opts = append(opts, "relabel", "relabel+wrong")
	}
	f.Edit = lib.Pick(r, opts)
	if strings.HasPrefix(f.Edit, "content") {
		f.ver++
		if f.Kind == "gen" && f.Shape != "dir" {
			f.Arg = fmt.Sprintf("%s v%d", f.Arg, f.ver)
		} else {
			n := "a.txt"
			if f.Kind == "pair" && f.Shape == "dir" {
				n = "d/a.txt"
			}
			f.Files[n] = f.Files[n] + fmt.Sprintf("+v%d", f.ver)
			// a new inode: a filegroup output is a hard link to its source (see the note in episode.run)
			os.Remove(filepath.Join(repo.Dir, f.Pkg, n))
		}
		if len(f.UDeclared) > 0 {
			f.UDeclared, _ = genDeclared(r, cfg, f.items(), "good")
		}
	}
	if strings.HasPrefix(f.Edit, "relabel") {
		f.Relabel++
	}
	switch {
	case strings.HasSuffix(f.Edit, "wrong"):
		f.Declared, _ = genDeclared(r, cfg, f.items(), "bad")
	case strings.HasSuffix(f.Edit, "fix"):
		f.Declared, _ = genDeclared(r, cfg, f.items(), "good")
	case f.Edit == "drop":
		f.Declared = nil
	}
}

func (ep *fgEpisode) run(base string) {
	repo := e2e.NewRepo(base, "repo")
	repo.CacheDir = filepath.Join(base, "cache") // a private dir cache: the generators come back from it after a wipe
	repo.Threads = 4
	for step := 1; step <= 5; step++ {
		wiped := false
		switch step {
		case 2, 5:
			repo.RemovePlzOut()
			wiped = true
			for _, f := range ep.Cases {
				f.steps = append(f.steps, "HWipe")
				f.prevDisk = nil
			}
		case 4:
			for _, f := range ep.Cases {
				f.applyEdit(ep.Cfg, repo)
			}
		}
		repo.Write(ep.spec())
		labels := []string{}
		for _, f := range ep.Cases {
			labels = append(labels, f.request(step))
		}
		o := runBuild(repo, labels)
		if o.exit > 0 && len(o.failed) == 0 {
			// plz failed without naming a target: the --keep_going quirk the genrule repositories retry on (a scheduling
			// matter, C04/C05). A retry would change the generators' states, so the whole repository is run again instead.
			ep.skipped = fmt.Sprintf("step %d: exit %d without naming a failed target", step, o.exit)
			return
		}
		if o.exit == 0 && len(o.failed) != 0 || o.exit < 0 {
			ep.fatal = fmt.Sprintf("filegroup repo, step %d: exit %d with %d failed targets listed: %s", step, o.exit, len(o.failed), headTail(o.text, 1500))
			return
		}
		for l := range o.failed {
			if !strings.HasSuffix(l, ":t") {
				ep.fatal = fmt.Sprintf("filegroup repo, step %d: %s failed (only the pinned filegroups can): %s", step, l, tailStr(o.text, 1500))
				return
			}
		}
		for _, f := range ep.Cases {
			// a requested target that neither failed nor left its outputs: plz stopped early (--keep_going quirk, see episode.run)
			if !o.failed[f.tLabel()] && f.readDisk(repo) == nil {
				ep.skipped = fmt.Sprintf("step %d: %s neither built nor reported failed", step, f.request(step))
				return
			}
		}
		for _, f := range ep.Cases {
			ep.observe(f, step, wiped, o, repo)
		}
	}
}

func (ep *fgEpisode) observe(f *fgcase, step int, wiped bool, o buildObs, repo *e2e.Repo) {
	items := f.items()
	f.sets = append(f.sets, items)
	disk := f.readDisk(repo)
	if disk != nil {
		f.sets = append(f.sets, disk)
	}
	tRequested := !(f.Kind == "gen" && step == 1 && f.Warm)
	ok := !o.failed[f.tLabel()]
	declared := f.eff(f.Declared)
	inPlaceBefore := f.prevDisk != nil && equalItems(f.prevDisk, items)
	origin, gstate := "FromFile", ""
	if f.Kind == "gen" {
		// the state the generator ends in, from what was observed: did its command run, were its outputs there before
		ran := o.ran[f.gLabel()]
		switch {
		case ran && inPlaceBefore:
			gstate = "TUnchanged"
		case ran:
			gstate = "TBuilt"
		case f.prevDisk != nil:
			gstate = "TReused"
		default:
			gstate = "TCached"
		}
		origin = "(FromTarget " + gstate + ")"
		for i, it := range items {
			f.steps = append(f.steps, lib.App("HPut", lib.N(uint64(i+1)), coqOut(it)))
		}
		ep.hists = append(ep.hists, [2]string{"fg_generator_state", fmt.Sprintf("step%d/%s", step, gstate)})
	}
	tr := map[string]any{"step": step, "wiped": wiped, "edit": f.Edit, "declared": append([]string{}, f.Declared...), "u_declared": f.UDeclared, "requested": f.request(step),
		"generator_state": gstate, "t_ok": ok, "disk": disk, "in_place_before": inPlaceBefore}
	if tRequested {
		var defs []string
		var oks []string
		tdef := coqFgDef(declared, items, origin)
		udef := coqFgDef(f.eff(f.UDeclared), items, origin)
		switch {
		case f.Kind == "gen":
			defs, oks = []string{tdef}, []string{lib.Bool(ok)}
		case f.Order == "u-first":
			defs, oks = []string{udef, tdef}, []string{"true", lib.Bool(ok)}
		case ok:
			defs, oks = []string{tdef, udef}, []string{"true", "true"}
		default: // t failed, u (which depends on it) was not attempted
			defs, oks = []string{tdef}, []string{"false"}
		}
		f.steps = append(f.steps, lib.App("HRun", lib.List(defs)))
		dl := []string{}
		for i := range items {
			v := "None"
			if disk != nil {
				v = "Some " + coqOut(disk[i])
			}
			dl = append(dl, lib.Pair(lib.N(uint64(i+1)), "("+v+")"))
		}
		f.obs = append(f.obs, "{| ro_ok := "+lib.List(oks)+"; ro_disk := "+lib.List(dl)+" |}")
	}
	f.trail = append(f.trail, tr)
	if tRequested {
		ep.oracle(f, step, ok, disk, inPlaceBefore, gstate, o, repo)
		f.lastOK, f.tried = ok, true
	}
	f.prevDisk = disk
}

// the property oracle for the pinned filegroup t (no model involved)
func (ep *fgEpisode) oracle(f *fgcase, step int, ok bool, disk []item, inPlaceBefore bool, gstate string, o buildObs, repo *e2e.Repo) {
	ep.nOracle++
	declared := f.eff(f.Declared)
	items := f.items()
	in := map[string]any{"repo": ep.Index, "config": ep.Cfg, "package": f.Pkg, "kind": f.Kind, "shape": f.Shape, "order": f.Order, "step": step,
		"declared": f.Declared, "ok": ok, "disk": disk, "generator_state": gstate, "outputs_in_place_before_the_invocation": inPlaceBefore,
		"BUILD": renderPkg(f), "history": append([]map[string]any{}, f.trail...)}
	ep.hists = append(ep.hists, [2]string{"fg_step_outcome", fmt.Sprintf("step%d/%s/ok=%v/declared=%v/inplace=%v", step, f.Kind, ok, len(declared) > 0, inPlaceBefore)})
	if ok {
		if disk == nil {
			ep.Fail("success-without-outputs", fmt.Sprintf("filegroup %s reported built but an output is missing in plz-out", f.tLabel()), in)
		} else if len(declared) > 0 && !oracleMatches(ep.Cfg, disk, declared) {
			// the listed finding, kept narrow: every output was in plz-out, with the content it has now, BEFORE this
			// invocation, and (generated sources) the generator neither ran with a different result nor was restored
			if inPlaceBefore && (f.Kind == "pair" || gstate == "TReused" || gstate == "TUnchanged") {
				ep.Fail("filegroup-unchanged-output-not-checked", fmt.Sprintf("filegroup %s with hashes %q that match nothing built successfully: its output files were already in place, so the hash check was skipped", f.tLabel(), declared), in)
			} else if f.Kind == "gen" {
				ep.Fail("filegroup-over-"+strings.ToLower(gstate[1:])+"-source-not-verified", fmt.Sprintf("filegroup %s (%s) over a target of its own package that was %s in this invocation built successfully at step %d although no declared hash %q matches its outputs under %v; the outputs were not in plz-out before", f.tLabel(), f.Shape, gstate[1:], step, declared, cfgAlgos(ep.Cfg)), in)
			} else {
				ep.Fail("filegroup-sharing-a-file-not-verified", fmt.Sprintf("filegroup %s (%s, %s) shares its output file(s) with //%s:u; they were not in plz-out before this invocation, and it built successfully at step %d although no declared hash %q matches its outputs under %v", f.tLabel(), f.Shape, f.Order, f.Pkg, step, declared, cfgAlgos(ep.Cfg)), in)
			}
		}
		if disk != nil && !equalItems(disk, items) {
			ep.Fail("outputs-differ-from-sources", fmt.Sprintf("filegroup %s built but plz-out does not hold the content of its sources", f.tLabel()), in)
		}
	} else {
		if len(declared) == 0 {
			ep.Fail("failed-without-hashes", fmt.Sprintf("%s failed although it declares no hashes: %s", f.tLabel(), tailStr(o.text, 600)), in)
		} else if oracleMatches(ep.Cfg, items, declared) {
			ep.Fail("rejected-matching-hash", fmt.Sprintf("%s failed although a declared hash matches its sources: %s", f.tLabel(), tailStr(o.text, 600)), in)
		}
		for _, it := range items {
			if n := e2e.ReadTree(filepath.Join(repo.Dir, "plz-out", "gen", f.Pkg, it.Name)); n.Kind != "absent" {
				ep.Fail("output-left-after-failed-verification", fmt.Sprintf("%s failed its hash verification but %s is still in plz-out", f.tLabel(), it.Name), in)
			}
		}
	}
	// the repeat build of the unchanged tree (step 3); after a wipe (steps 2 and 5) a failure must come back as well
	if f.tried && (step == 3 || (step == 2 && !(f.Kind == "gen" && f.Warm))) {
		if f.lastOK && !ok {
			ep.Fail("verified-target-not-reused", fmt.Sprintf("%s verified in the previous build; the next build of the unchanged tree failed: %s", f.tLabel(), tailStr(o.text, 600)), in)
		}
		if !f.lastOK && ok {
			ep.Fail("failure-not-repeated", fmt.Sprintf("%s failed verification, the next build of the unchanged tree succeeded", f.tLabel()), in)
		}
	}
}

func headTail(s string, n int) string {
	if len(s) <= 2*n {
		return s
	}
	return s[:n] + "\n[...]\n" + s[len(s)-n:]
}

func renderPkg(f *fgcase) string {
	var b strings.Builder
	for _, t := range f.pkg().Targets {
		b.WriteString(t.Render(f.Pkg, "/dev/null"))
	}
	return b.String()
}

func (ep *fgEpisode) emit(c *lib.Ctx) {
	for _, f := range ep.Cases {
		tbl := &tableT{seen: map[string]bool{}}
		for _, set := range f.sets {
			tbl.addSet(ep.Cfg, set)
		}
		term := lib.App("CFg", coqCfg(ep.Cfg), lib.List(f.steps), lib.List(tbl.items), lib.List(f.obs))
		js := map[string]any{"kind": "filegroup-history", "repo": ep.Index, "config": ep.Cfg, "package": f.Pkg, "fg_kind": f.Kind, "shape": f.Shape, "order": f.Order, "warm": f.Warm, "edit": f.Edit, "trail": f.trail}
		c.Case(term, js, fmt.Sprint("fg", ep.Index, f.Pkg), true)
		c.Hist("fg_shape", f.Kind+"/"+f.Shape+"/"+f.Order)
		c.Hist("fg_edit", f.Edit)
	}
}

// fgEpisodes generates the filegroup repositories and starts running them in the background (they share the machine
// with the genrule repositories); the function returned waits for them and reports.
func fgEpisodes(c *lib.Ctx, base string) func() {
	n := c.Scale(4, 40)
	eps := make([]*fgEpisode, n)
	seeds := make([]lib.Rng, n)
	for i := range eps {
		r := c.Rng.Fork()
		seeds[i] = *r
		eps[i] = genFgEpisode(r, i, 9)
	}
	var wg sync.WaitGroup
	sem := make(chan struct{}, 4)
	for i := range eps {
		wg.Add(1)
		go func(i int) {
			defer wg.Done()
			sem <- struct{}{}
			defer func() { <-sem }()
			// a repository in which plz stopped early is run again from scratch (same generated repository), twice at most
			for attempt := 0; attempt < 3; attempt++ {
				if attempt > 0 {
					r := seeds[i]
					eps[i] = genFgEpisode(&r, i, 9)
					eps[i].reruns = attempt
				}
				dir := filepath.Join(base, fmt.Sprintf("fg%d_%d", i, attempt))
				os.MkdirAll(dir, 0o755)
				eps[i].run(dir)
				os.RemoveAll(dir)
				if eps[i].skipped == "" {
					break
				}
			}
		}(i)
	}
	return func() {
		wg.Wait()
		fgReport(c, eps)
	}
}

func fgReport(c *lib.Ctx, eps []*fgEpisode) {
	for _, ep := range eps {
		if ep.fatal != "" {
			panic(fmt.Sprintf("filegroup repository %d: %s", ep.Index, ep.fatal))
		}
		if ep.reruns > 0 {
			c.Note("filegroup repo %d: run again from scratch %d time(s) because plz stopped early (--keep_going)", ep.Index, ep.reruns)
			c.Hist("keep_going_unreported_target", "fg-repo-rerun")
		}
		if ep.skipped != "" { // three times in a row is not a scheduling accident
			panic(fmt.Sprintf("filegroup repository %d: in three runs from scratch plz stopped without building or reporting a requested target: %s", ep.Index, ep.skipped))
		}
		for i := 0; i < ep.nOracle; i++ {
			c.Oracle()
		}
		for _, h := range ep.hists {
			c.Hist(h[0], h[1])
		}
		for _, f := range ep.fails {
			c.Fail(f.Class, f.What, f.Input)
		}
		ep.emit(c)
	}
}

// ---------------------------------------------------------------------------------------------
// UnprefixedHashes in process

var alphabet = []string{":", ":", " ", " ", "\t", "\n", "a", "f", "0", "9", "sha1", "sha256", " ", " ", "　", "\u0085", "\xc2", "\x85", "\xa0", "\xe2\x80", "\x80", "​", "\v", "\f", "\r", " ", " ", " ", " ", "Z"}

func genHashString(r *lib.Rng) string {
	n := r.Range(0, 7)
	var b strings.Builder
	for i := 0; i < n; i++ {
		b.WriteString(lib.Pick(r, alphabet))
	}
	return b.String()
}

func unprefixCases(c *lib.Ctx) {
	n := c.Scale(600, 6000)
	for i := 0; i < n; i++ {
		r := c.Rng.Fork()
		k := r.Range(0, 3)
		hs := []string{}
		for j := 0; j < k; j++ {
			hs = append(hs, genHashString(r))
		}
		t := &core.BuildTarget{Hashes: append([]string{}, hs...)}
		got := t.UnprefixedHashes()
		again := t.UnprefixedHashes()
		in := map[string]any{"kind": "unprefix", "hashes": hs, "got": got}
		c.Oracle()
		if !equalLists(t.Hashes, hs) {
			c.Fail("unprefixed-hashes-mutates-target", fmt.Sprintf("UnprefixedHashes changed target.Hashes from %q to %q (the rule hash is taken over target.Hashes)", hs, t.Hashes), in)
		}
		if !equalLists(got, again) {
			c.Fail("unprefixed-hashes-not-stable", fmt.Sprintf("two calls give %q and %q", got, again), in)
		}
		for j, h := range hs {
			if j < len(got) && got[j] != oracleStrip(h) {
				c.Fail("unprefix-differs-from-documented", fmt.Sprintf("%q unprefixed to %q, expected %q", h, got[j], oracleStrip(h)), in)
			}
			// each entry alone gives the same value
			if one := (&core.BuildTarget{Hashes: []string{h}}).UnprefixedHashes(); j < len(got) && (len(one) != 1 || one[0] != got[j]) {
				c.Fail("unprefix-depends-on-other-entries", fmt.Sprintf("%q alone gives %q, in %q gives %q", h, one, hs, got[j]), in)
			}
		}
		nontrivial := false
		for _, h := range hs {
			if strings.Contains(h, ":") {
				nontrivial = true
			}
		}
		c.Case(lib.App("CUnprefix", lib.StrList(hs), lib.StrList(got)), in, fmt.Sprint("u", hs), nontrivial)
	}
}

// ---------------------------------------------------------------------------------------------
// corpus: the C03/C35 witness fixed in 72ca340 (prefixed hash + output_dirs: second build must be a no-op)

const corpusBuild = `genrule(
    name = "t",
    outs = ["o.txt"],
    output_dirs = ["_o"],
    cmd = "echo ran >> %s && echo hello > $OUT && mkdir _o && echo extra > _o/extra.txt",
    hashes = ["sha1: %s"],
)
`

func corpus(c *lib.Ctx, base string) {
	repo := e2e.NewRepo(base, "corpus")
	repo.CacheDir = filepath.Join(base, "corpus-cache")
	repo.Write(&e2e.Spec{Pkgs: map[string]*e2e.Pkg{}, Config: []string{"[build]", "hashfunction = sha1"}})
	os.MkdirAll(filepath.Join(repo.Dir, "p"), 0o755)
	want := hex.EncodeToString(combined("sha1", []item{{Name: "extra.txt", Data: "extra\n"}, {Name: "o.txt", Data: "hello\n"}}))
	text := fmt.Sprintf(corpusBuild, repo.LogPath, want)
	if data, err := os.ReadFile(filepath.Join(os.Getenv("VERIF_DIR"), "corpus", "C35", "prefixed_hashes_output_dirs.BUILD")); err == nil {
		if strings.Contains(string(data), "sha1: "+want) {
			c.Note("corpus witness corpus/C35/prefixed_hashes_output_dirs.BUILD replayed (hash %s)", want)
		} else {
			c.Note("corpus witness corpus/C35/prefixed_hashes_output_dirs.BUILD does not carry the hash %s", want)
		}
	}
	os.WriteFile(filepath.Join(repo.Dir, "p", "BUILD"), []byte(text), 0o644)
	first := repo.Run(120*time.Second, "build", "//p:t")
	second := repo.Run(120*time.Second, "build", "//p:t")
	in := map[string]any{"kind": "corpus", "build_file": text, "first_exit": first.Exit, "second_exit": second.Exit, "second_ran": len(second.Executed) > 0}
	c.Oracle()
	c.Eval(in, "corpus-72ca340", true)
	if first.Exit != 0 {
		c.Fail("corpus-prefixed-hash-rejected", "the corpus target with hashes=[\"sha1: <correct>\"] and output_dirs does not build: "+tailStr(first.Stdout+first.Stderr, 600), in)
	} else if second.Exit != 0 || len(second.Executed) > 0 {
		c.Fail("prefixed-hashes-second-build-not-noop", "second build of the unchanged tree re-ran/failed a target with output_dirs and a prefixed hash (the defect fixed in 72ca340 is back): "+tailStr(second.Stdout+second.Stderr, 600), in)
	}
}

func main() {
	lib.Main("C35", func(c *lib.Ctx) {
		c.Model("From PlzV Require Import Model.C35.", "C35.case", "C35.check")
		c.Rule("repositories of 8 independent targets (genrules with one file, several files, a directory output, output_dirs; filegroups of 1-2 files) under 7 settings of build.hashfunction/hashcheckers, " +
			"each with a declared hash list (correct value in a configured algorithm bare / with `algo:` prefixes and ASCII or Unicode spaces, near miss, truncated, extended, upper case, unconfigured algorithm, other form, empty, none), " +
			"driven through the real plz: build, build again, delete plz-out and tamper with the dir-cache entry (replace / in place / with content whose hash is declared), build, edit (re-split or reorder the list, wrong list, fixed list, source edit, drop, add a wrong list), build, build again; " +
			"plus repositories of 9 packages each holding a filegroup with declared hashes over a genrule of the SAME package (one file, two files, a directory; private dir cache; the first invocation builds the generator alone or everything) or a pair of filegroups exporting the same source file(s) (one pinned, one plain or pinned correctly; a dependency forces either order), driven through: build, delete plz-out and build (the generator comes back from the cache), build, edit (wrong / fixed / dropped list, new content, generator relabelled) and build, delete plz-out and build; " +
			"plus random strings through core.BuildTarget.UnprefixedHashes in process. distinct = distinct (config, outputs, declared list) resp. (repository, target) histories resp. hash strings; non-trivial = a hash list is declared / the string has a colon")
		unprefixCases(c)
		base := e2e.Scratch("c35")
		defer os.RemoveAll(base)
		corpus(c, base)
		fgWait := fgEpisodes(c, base)
		if os.Getenv("C35_ONLY_FG") != "" { // debugging aid: only the filegroup repositories
			fgWait()
			return
		}
		nrepos := c.Scale(9, 120)
		eps := make([]*episode, nrepos)
		for i := range eps {
			eps[i] = genEpisode(c.Rng.Fork(), i, 8)
		}
		var wg sync.WaitGroup
		sem := make(chan struct{}, 8)
		for i := range eps {
			wg.Add(1)
			sem <- struct{}{}
			go func(i int) {
				defer wg.Done()
				defer func() { <-sem }()
				dir := filepath.Join(base, fmt.Sprintf("e%d", i))
				os.MkdirAll(dir, 0o755)
				eps[i].run(c, dir)
				os.RemoveAll(dir)
			}(i)
		}
		wg.Wait()
		fgWait()
		for _, ep := range eps {
			if ep.fatal != "" {
				panic(fmt.Sprintf("repository %d: %s", ep.Index, ep.fatal))
			}
			if ep.unreported > 0 {
				c.Note("repo %d: %d build(s) stopped with a requested target neither built nor reported failed (--keep_going); step repeated", ep.Index, ep.unreported)
				c.Hist("keep_going_unreported_target", "seen")
			}
			for _, n := range ep.notes {
				c.Note("repo %d: %s", ep.Index, n)
			}
			c.Hist("config", ep.Cfg.Fn+"/"+strings.Join(ep.Cfg.Checkers, ","))
			for i := 0; i < ep.nOracle; i++ {
				c.Oracle()
			}
			for _, h := range ep.hists {
				c.Hist(h[0], h[1])
			}
			for _, f := range ep.fails {
				c.Fail(f.Class, f.What, f.Input)
			}
			for _, t := range ep.Cases {
				if t.checkTerm != "" {
					c.Case(t.checkTerm, t.checkJS, t.checkKey, len(t.defs) > 0 && len(t.defs[0]) > 0)
				}
				ep.histCase(c, t)
				c.Hist("shape", t.Shape)
				c.Hist("poison", t.Poison)
				c.Hist("edit", t.Edit)
			}
		}
	})
}
