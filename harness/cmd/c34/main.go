// C34: output trees are copied and linked faithfully.  Implementation side of the correspondence + property oracle.
//
// Every case materialises a small directory ("world") on disk that holds the source tree `src`, a few siblings and
// possibly an already existing destination, runs the real fs.RecursiveCopyOrLinkFile / RecursiveCopy / RecursiveLink
// from /repo on it, and reads the whole world back (names, kinds, contents, symlink targets, permission bits, inode
// identity).  The read-back goes to the Coq model as the observed outcome; the oracle compares destination and source
// directly.
package main

import (
	"bytes"
	"fmt"
	"os"
	"path/filepath"
	"sort"
	"strings"
	"sync"
	"sync/atomic"
	"syscall"
	"time"

	"verifharness/lib"

	"github.com/thought-machine/please/src/fs"
)

// ------------------------------------------------------------------------------------------- trees

type Node struct {
	K    string   `json:"k"`             // "file" | "dir" | "link"
	Ino  int      `json:"ino,omitempty"` // label of the inode: equal non-zero labels = hard links; 0 = created by the operation
	Perm uint32   `json:"perm"`          // files: mode & 07777
	C    []byte   `json:"c,omitempty"`   // files: content
	T    string   `json:"t,omitempty"`   // links: target
	Es   []*Entry `json:"es,omitempty"`  // dirs: entries, sorted by name
}

type Entry struct {
	Name string `json:"name"`
	N    *Node  `json:"n"`
}

type CaseIn struct {
	Mode     uint32   `json:"mode"`
	Link     bool     `json:"link"`
	Fallback bool     `json:"fallback"`
	XDev     bool     `json:"xdev"` // destination on another device: link(2) fails with EXDEV
	Via      string   `json:"via"`  // which entry point: RecursiveCopy | RecursiveLink | RecursiveCopyOrLinkFile
	World    []*Entry `json:"world"`
	A        string   `json:"a"`
	B        string   `json:"b"`
	Spelling string   `json:"spelling,omitempty"` // stream from-spelling: `from` relative to a scratch directory, spelled as given
	Conc     *ConcSpec `json:"conc,omitempty"`     // stream concurrent: this call ran WHILE the other workers of the group ran theirs
}

// ConcSpec describes a group of tree copies that run at the same time, each in its own goroutine on its own world
// (replay re-runs the whole group: a single call on its own is the sequential case).
type ConcSpec struct {
	Workers int `json:"workers"` // goroutines copying / linking, each its own source and destination
	Walkers int `json:"walkers"` // goroutines that only fs.Walk directories of their own (as input hashing does)
	Files   int `json:"files"`   // regular files per directory (two directories per tree)
	Reps    int `json:"reps"`    // how often each worker repeats its call within a round (destination removed in between)
	Rounds  int `json:"rounds"`
	Round   int `json:"round"` // which round / worker this input was
	Worker  int `json:"worker"`
}

func file(perm uint32, c string) *Node { return &Node{K: "file", Perm: perm, C: []byte(c)} }
func link(t string) *Node              { return &Node{K: "link", T: t} }
func dir(es ...*Entry) *Node           { return &Node{K: "dir", Es: es} }

func (n *Node) clone() *Node {
	if n == nil {
		return nil
	}
	m := *n
	m.C = append([]byte(nil), n.C...)
	m.Es = nil
	for _, e := range n.Es {
		m.Es = append(m.Es, &Entry{e.Name, e.N.clone()})
	}
	return &m
}

func (n *Node) size() int {
	s := 1
	for _, e := range n.Es {
		s += e.N.size()
	}
	return s
}

func (n *Node) count(k string) int {
	s := 0
	if n.K == k {
		s = 1
	}
	for _, e := range n.Es {
		s += e.N.count(k)
	}
	return s
}

func (n *Node) emptyDirs() int {
	s := 0
	if n.K == "dir" && len(n.Es) == 0 {
		s = 1
	}
	for _, e := range n.Es {
		s += e.N.emptyDirs()
	}
	return s
}

func (n *Node) depth() int {
	d := 0
	for _, e := range n.Es {
		d = max(d, e.N.depth())
	}
	return d + 1
}

func find(es []*Entry, name string) *Node {
	for _, e := range es {
		if e.Name == name {
			return e.N
		}
	}
	return nil
}

func sortEntries(es []*Entry) {
	sort.Slice(es, func(i, j int) bool { return es[i].Name < es[j].Name })
}

// key: a canonical text of the tree (for the distinct count)
func (n *Node) key() string {
	switch n.K {
	case "file":
		return fmt.Sprintf("F%d:%o:%q", n.Ino, n.Perm, n.C)
	case "link":
		return fmt.Sprintf("L%q", n.T)
	}
	parts := []string{}
	for _, e := range n.Es {
		parts = append(parts, fmt.Sprintf("%q=%s", e.Name, e.N.key()))
	}
	return "D[" + strings.Join(parts, ",") + "]"
}

// Coq terms
func coqNode(n *Node) string {
	switch n.K {
	case "file":
		return lib.App("File", lib.N(uint64(n.Ino)), lib.N(uint64(n.Perm)), lib.Str(string(n.C)))
	case "link":
		return lib.App("Link", lib.Str(n.T))
	}
	return lib.App("Dir", coqEntries(n.Es))
}

func coqEntries(es []*Entry) string {
	items := []string{}
	for _, e := range es {
		items = append(items, lib.Pair(lib.Str(e.Name), coqNode(e.N)))
	}
	return lib.List(items)
}

// ------------------------------------------------------------------------------------------- disk

type inoKey struct{ dev, ino uint64 }

type disk struct {
	root   string         // the world directory
	xroot  string         // where the destination lives when xdev
	pin    string         // hard links to every pre-existing file, so no inode number is reused during the case
	labels map[inoKey]int // real inode -> label
	first  map[int]string // label -> first path created with it
}

func must(err error) {
	if err != nil {
		panic(err)
	}
}

func (d *disk) pathOf(in *CaseIn, name string) string {
	if in.XDev && name == in.B {
		return filepath.Join(d.xroot, name)
	}
	return filepath.Join(d.root, name)
}

func (d *disk) create(p string, n *Node) {
	switch n.K {
	case "dir":
		must(os.Mkdir(p, 0o755))
		for _, e := range n.Es {
			d.create(filepath.Join(p, e.Name), e.N)
		}
	case "link":
		must(os.Symlink(n.T, p))
	case "file":
		if prev, ok := d.first[n.Ino]; ok && n.Ino != 0 {
			must(os.Link(prev, p))
			return
		}
		must(os.WriteFile(p, n.C, 0o600))
		must(os.Chmod(p, os.FileMode(n.Perm)))
		st, err := os.Lstat(p)
		must(err)
		k := keyOf(st)
		if n.Ino != 0 {
			d.labels[k] = n.Ino
			d.first[n.Ino] = p
		}
		must(os.Link(p, filepath.Join(d.pin, fmt.Sprintf("%d-%d", k.dev, k.ino))))
	}
}

func keyOf(st os.FileInfo) inoKey {
	s := st.Sys().(*syscall.Stat_t)
	return inoKey{uint64(s.Dev), uint64(s.Ino)}
}

// read returns the tree at p, or nil if nothing is there
func (d *disk) read(p string) *Node {
	st, err := os.Lstat(p)
	if err != nil {
		return nil
	}
	switch {
	case st.Mode()&os.ModeSymlink != 0:
		t, err := os.Readlink(p)
		must(err)
		return &Node{K: "link", T: t}
	case st.IsDir():
		ents, err := os.ReadDir(p) // sorted by name
		must(err)
		n := &Node{K: "dir"}
		for _, e := range ents {
			n.Es = append(n.Es, &Entry{e.Name(), d.read(filepath.Join(p, e.Name()))})
		}
		return n
	case st.Mode().IsRegular():
		c, err := os.ReadFile(p)
		must(err)
		return &Node{K: "file", Ino: d.labels[keyOf(st)], Perm: uint32(st.Mode().Perm()) | specialBits(st.Mode()), C: c}
	}
	return &Node{K: "other"}
}

func specialBits(m os.FileMode) uint32 {
	var o uint32
	if m&os.ModeSetuid != 0 {
		o |= 0o4000
	}
	if m&os.ModeSetgid != 0 {
		o |= 0o2000
	}
	if m&os.ModeSticky != 0 {
		o |= 0o1000
	}
	return o
}

// snapshot: everything the property calls "the source tree" (and the siblings), with the metadata that must not change
type meta struct {
	kind   string
	perm   os.FileMode
	data   string
	ino    inoKey
	mtime  time.Time
	hidden bool
}

func snapshot(p string, rel string, out map[string]meta) {
	st, err := os.Lstat(p)
	if err != nil {
		return
	}
	m := meta{perm: st.Mode(), ino: keyOf(st), mtime: st.ModTime()}
	switch {
	case st.Mode()&os.ModeSymlink != 0:
		m.kind = "link"
		m.data, _ = os.Readlink(p)
	case st.IsDir():
		m.kind = "dir"
		ents, _ := os.ReadDir(p)
		for _, e := range ents {
			snapshot(filepath.Join(p, e.Name()), rel+"/"+e.Name(), out)
		}
	default:
		m.kind = "file"
		c, _ := os.ReadFile(p)
		m.data = string(c)
	}
	out[rel] = m
}

func diffSnap(a, b map[string]meta) string {
	_, msg := diffSnapKey(a, b)
	return msg
}

// diffSnapKey: the first difference as (path, kind of difference + description); kind is the word before the colon
func diffSnapKey(a, b map[string]meta) (string, string) {
	keys := map[string]bool{}
	for k := range a {
		keys[k] = true
	}
	for k := range b {
		keys[k] = true
	}
	ks := []string{}
	for k := range keys {
		ks = append(ks, k)
	}
	sort.Strings(ks)
	for _, k := range ks {
		x, okx := a[k]
		y, oky := b[k]
		switch {
		case !okx:
			return k, "appeared: " + k
		case !oky:
			return k, "vanished: " + k
		case x.kind != y.kind:
			return k, fmt.Sprintf("%s: kind %s -> %s", k, x.kind, y.kind)
		case x.data != y.data:
			return k, fmt.Sprintf("%s: content/target %q -> %q", k, x.data, y.data)
		case x.perm != y.perm:
			return k, fmt.Sprintf("%s: mode %v -> %v", k, x.perm, y.perm)
		case x.ino != y.ino:
			return k, fmt.Sprintf("%s: replaced by another inode", k)
		case !x.mtime.Equal(y.mtime):
			return k, fmt.Sprintf("%s: modification time changed", k)
		}
	}
	return "", ""
}

// ------------------------------------------------------------------------------------------- comparing for the oracle

// sameShape compares what the property talks about: names, kinds, file contents, directories, symlink targets.
// It returns a defect class and a description of the first difference, or "".
func sameShape(src, dst *Node, at string) (string, string) {
	if dst == nil {
		if src.K == "dir" && len(src.Es) == 0 {
			return "empty-dir-lost", at + ": empty directory missing in the destination"
		}
		return "entry-missing", at + ": " + src.K + " missing in the destination"
	}
	if src.K != dst.K {
		return "kind-changed", fmt.Sprintf("%s: %s became %s", at, src.K, dst.K)
	}
	switch src.K {
	case "file":
		if !bytes.Equal(src.C, dst.C) {
			return "content-differs", fmt.Sprintf("%s: content %q became %q", at, src.C, dst.C)
		}
	case "link":
		if src.T != dst.T {
			return "symlink-target-changed", fmt.Sprintf("%s: target %q became %q", at, src.T, dst.T)
		}
	case "dir":
		for _, e := range src.Es {
			if c, w := sameShape(e.N, find(dst.Es, e.Name), at+"/"+e.Name); c != "" {
				// narrow classes: the entry that went wrong has a name DERIVED from a sibling's name (pre+NAME+suf):
				// what a temporary / backup / lock file of that sibling would be called
				if o := derivedFrom(src.Es, e.Name); o != "" && e.N.K != "dir" {
					switch c {
					case "entry-missing":
						return "sibling-with-derived-name-lost", w + " (its name is derived from its sibling " + o + ")"
					case "content-differs", "kind-changed":
						return "sibling-with-derived-name-overwritten", w + " (its name is derived from its sibling " + o + ")"
					}
				}
				return c, w
			}
		}
		for _, e := range dst.Es {
			if find(src.Es, e.Name) == nil {
				return "entry-extra", at + "/" + e.Name + ": not in the source"
			}
		}
	}
	return "", ""
}

// derivedFrom: the sibling whose name is properly contained in `name` ("" if there is none)
func derivedFrom(es []*Entry, name string) string {
	for _, o := range es {
		if o.Name != name && o.N.K == "file" && strings.Contains(name, o.Name) {
			return o.Name
		}
	}
	return ""
}

// covers: every entry of src is present in dst with the same kind, equal contents, equal symlink target (dst may hold
// more).  It returns a defect class and the first difference, or "".
func covers(src, dst *Node, at string) (string, string) {
	if dst == nil {
		return "merge-entry-missing", at + ": " + src.K + " of the source is missing in the destination after a successful call"
	}
	if src.K != dst.K {
		return "merge-kind-differs", fmt.Sprintf("%s: the source has a %s, the destination a %s after a successful call", at, src.K, dst.K)
	}
	switch src.K {
	case "file":
		if !bytes.Equal(src.C, dst.C) {
			return "merge-content-differs", fmt.Sprintf("%s: content %q of the source is %q in the destination", at, src.C, dst.C)
		}
	case "link":
		if src.T != dst.T {
			return "merge-symlink-target-differs", fmt.Sprintf("%s: target %q became %q", at, src.T, dst.T)
		}
	case "dir":
		for _, e := range src.Es {
			if c, w := covers(e.N, find(dst.Es, e.Name), at+"/"+e.Name); c != "" {
				return c, w
			}
		}
	}
	return "", ""
}

// lookup: the node of the tree at a relative path ("" = the root), nil if there is none
func lookup(n *Node, rel string) *Node {
	if rel == "" {
		return n
	}
	for _, part := range strings.Split(rel, "/") {
		if n == nil || n.K != "dir" {
			return nil
		}
		n = find(n.Es, part)
	}
	return n
}

func sharesInode(a, b *Node) bool {
	inos := map[int]bool{}
	var collect func(n *Node)
	collect = func(n *Node) {
		if n.K == "file" && n.Ino != 0 {
			inos[n.Ino] = true
		}
		for _, e := range n.Es {
			collect(e.N)
		}
	}
	collect(a)
	found := false
	var look func(n *Node)
	look = func(n *Node) {
		if n.K == "file" && inos[n.Ino] {
			found = true
		}
		for _, e := range n.Es {
			look(e.N)
		}
	}
	look(b)
	return found
}

// ------------------------------------------------------------------------------------------- one case

type runner struct {
	c     *lib.Ctx
	base  string // scratch on the main device
	xbase string // scratch on another device ("" if there is none)
	n     int
}

// prepared: one case between materialising its world and judging the outcome
type prepared struct {
	in        *CaseIn
	d         *disk
	from, to  string
	src       *Node
	fresh     bool
	followed  []byte
	followErr error
	before    map[string]meta
	beforeDst map[string]meta
	err       error
	reps      int    // > 1: the call is repeated (destination removed in between), stopping at the first failure
	prefix    string // prepended to every defect class the oracle reports for this case
	cleanup   func()
}

func (r *runner) run(in *CaseIn, stream string) {
	p := r.prepare(in)
	defer p.cleanup()
	p.call()
	r.finish(p, stream, true)
}

// prepare materialises the world of a case and snapshots it
func (r *runner) prepare(in *CaseIn) *prepared {
	r.n++
	d := &disk{root: filepath.Join(r.base, fmt.Sprintf("w%d", r.n)), pin: filepath.Join(r.base, fmt.Sprintf("p%d", r.n)),
		labels: map[inoKey]int{}, first: map[int]string{}}
	must(os.Mkdir(d.root, 0o755))
	must(os.Mkdir(d.pin, 0o755))
	if in.XDev {
		d.xroot = filepath.Join(r.xbase, fmt.Sprintf("w%d", r.n))
		must(os.Mkdir(d.xroot, 0o755))
	}
	p := &prepared{in: in, d: d, reps: 1}
	p.cleanup = func() {
		os.RemoveAll(d.root)
		os.RemoveAll(d.pin)
		if d.xroot != "" {
			os.RemoveAll(d.xroot)
		}
	}
	for _, e := range in.World {
		d.create(d.pathOf(in, e.Name), e.N)
	}
	p.from, p.to = d.pathOf(in, in.A), d.pathOf(in, in.B)
	p.src = find(in.World, in.A)
	p.fresh = find(in.World, in.B) == nil

	// what the OS says opening `from` gives (for a top-level symlink that is copied)
	if p.src != nil && p.src.K == "link" {
		p.followed, p.followErr = os.ReadFile(p.from)
	}
	p.before = map[string]meta{}
	for _, e := range in.World {
		if e.Name != in.B {
			snapshot(d.pathOf(in, e.Name), e.Name, p.before)
		}
	}
	p.beforeDst = map[string]meta{}
	snapshot(p.to, "", p.beforeDst)
	return p
}

// call runs the implementation (safe to run in a goroutine of its own: it touches nothing but p and its world)
func (p *prepared) call() {
	in := p.in
	once := func() (err error) {
		if p.reps > 1 {
			defer func() {
				if x := recover(); x != nil {
					err = fmt.Errorf("panic: %v", x)
				}
			}()
		}
		switch in.Via {
		case "RecursiveCopy":
			return fs.RecursiveCopy(p.from, p.to, os.FileMode(in.Mode))
		case "RecursiveLink":
			return fs.RecursiveLink(p.from, p.to)
		}
		return fs.RecursiveCopyOrLinkFile(p.from, p.to, os.FileMode(in.Mode), in.Link, in.Fallback)
	}
	for i := 0; i < p.reps; i++ {
		if i > 0 {
			must(os.RemoveAll(p.to))
		}
		if p.err = once(); p.err != nil {
			return
		}
		if p.reps > 1 && p.src != nil {
			if class, _ := sameShape(p.src, p.d.read(p.to), in.B); class != "" {
				return // leave the destination as it is: finish judges it
			}
		}
	}
}

// finish reads the world back, sends the case to the model side and judges the property
func (r *runner) finish(p *prepared, stream string, emit bool) {
	c := r.c
	in, d, src, fresh, err := p.in, p.d, p.src, p.fresh, p.err
	to, before, beforeDst, followed, followErr := p.to, p.before, p.beforeDst, p.followed, p.followErr

	// ---- read back
	after := []*Entry{}
	seen := map[string]bool{}
	for _, e := range in.World {
		seen[e.Name] = true
		if n := d.read(d.pathOf(in, e.Name)); n != nil {
			after = append(after, &Entry{e.Name, n})
		}
	}
	if !seen[in.B] {
		seen[in.B] = true
		if n := d.read(to); n != nil {
			after = append(after, &Entry{in.B, n})
		}
	}
	ents, _ := os.ReadDir(d.root)
	for _, e := range ents {
		if !seen[e.Name()] {
			after = append(after, &Entry{e.Name(), d.read(filepath.Join(d.root, e.Name()))})
		}
	}
	afterSnap := map[string]meta{}
	for _, e := range in.World {
		if e.Name != in.B {
			snapshot(d.pathOf(in, e.Name), e.Name, afterSnap)
		}
	}
	dst := find(after, in.B)
	afterDst := map[string]meta{}
	snapshot(to, "", afterDst)

	// ---- model side
	obs := "ObsErr"
	if err == nil {
		obs = lib.App("ObsOk", coqEntries(after))
	}
	cfg := lib.App("Cfg", lib.N(uint64(in.Mode)), lib.Bool(in.Link), lib.Bool(in.Fallback), lib.Bool(!in.XDev))
	js := map[string]any{"in": in, "error": fmt.Sprint(err), "after": after}
	nontrivial := src != nil && (src.size() >= 2 || src.K == "link")
	key := fmt.Sprintf("%s|%o %v %v %v|%s|%s", stream, in.Mode, in.Link, in.Fallback, in.XDev, in.A, (&Node{K: "dir", Es: in.World}).key())
	if emit {
		c.Case(lib.App("Case", cfg, coqEntries(in.World), lib.Str(in.A), lib.Str(in.B), obs), js, key, nontrivial)
	} else {
		c.Eval(js, key, nontrivial)
	}

	// ---- property oracle (no model involved)
	c.Oracle()
	fail := func(class, what string) { c.Fail(p.prefix+class, what, in) }
	under := func(m map[string]meta, inside bool) map[string]meta {
		out := map[string]meta{}
		for k, v := range m {
			if (k == in.A || strings.HasPrefix(k, in.A+"/")) == inside {
				out[k] = v
			}
		}
		return out
	}
	if k, diff := diffSnapKey(under(before, true), under(afterSnap, true)); diff != "" {
		class := "source-modified"
		if rel := strings.TrimPrefix(strings.TrimPrefix(k, in.A), "/"); rel != "" && src != nil {
			if parent := lookup(src, strings.TrimSuffix(strings.TrimSuffix(rel, filepath.Base(rel)), "/")); parent != nil && parent.K == "dir" {
				if o := derivedFrom(parent.Es, filepath.Base(rel)); o != "" {
					class = "source-sibling-with-derived-name-written"
					diff += " (its name is derived from its sibling " + o + ")"
				}
			}
		}
		fail(class, "the source tree was changed by the operation: "+diff)
	}
	if diff := diffSnap(under(before, false), under(afterSnap, false)); diff != "" {
		fail("sibling-modified", "something next to the source was changed by the operation: "+diff)
	}
	placeable := !in.Link || !in.XDev || in.Fallback
	switch {
	case src == nil:
	case !fresh:
		// A destination that exists already (C34_existing / C34_hardlinked).  Whether the call succeeds is part of the
		// characterisation (model side); the property judges a SUCCESSFUL call: every entry of the source must be there
		// with equal contents, and what the destination held at paths the source does not have must be exactly as it was
		// (same inode, mode, contents, modification time).  "never modifies the source" is judged above for every case.
		old := find(in.World, in.B)
		c.Hist("existing_destination", map[bool]string{true: "ok", false: "error"}[err == nil])
		c.Hist("destination_shares_inodes_with_source", lib.Bool(sharesInode(src, old)))
		if err == nil && !(src.K == "link" && !in.Link) {
			if class, what := covers(src, dst, in.B); class != "" {
				fail(class, what)
			}
			stale, staleAfter := map[string]meta{}, map[string]meta{}
			for k, v := range beforeDst {
				if lookup(src, strings.TrimPrefix(k, "/")) == nil {
					stale[k] = v
					if w, ok := afterDst[k]; ok {
						staleAfter[k] = w
					}
				}
			}
			if diff := diffSnap(stale, staleAfter); diff != "" {
				fail("stale-entry-changed", "an entry of the destination at a path the source does not have was changed: "+in.B+diff)
			}
		}
	case src.K == "link" && !in.Link:
		// a top-level symlink that is COPIED is opened, i.e. followed (the one case the code treats differently)
		c.Hist("top_level_symlink_copied", map[bool]string{true: "resolves", false: "does-not-resolve"}[followErr == nil])
		if followErr == nil {
			if err != nil {
				fail("toplink-copy-error", fmt.Sprintf("copying a symlink to a readable file failed: %v", err))
			} else if dst == nil || dst.K != "file" || !bytes.Equal(dst.C, followed) {
				fail("toplink-copy-wrong", fmt.Sprintf("copying a symlink to a file holding %q produced %s", followed, describe(dst)))
			}
		} else if err == nil {
			fail("toplink-copy-silent", fmt.Sprintf("copying a symlink that cannot be read (%v) reported success and produced %s", followErr, describe(dst)))
		}
	case !placeable && src.count("file") > 0:
		if err == nil {
			fail("link-impossible-but-ok", "hard-linking across devices without fallback reported success")
		}
	default:
		if err != nil {
			fail("copy-error", fmt.Sprintf("the operation failed on a fresh destination: %v", err))
		} else if class, what := sameShape(src, dst, in.B); class != "" {
			fail(class, what)
		}
	}

	// ---- distribution
	c.Hist("stream", stream)
	if src != nil {
		c.Hist("root_kind", src.K)
		c.HistN("nodes", min(src.size(), 12))
		c.HistN("depth", src.depth())
		c.Hist("has_empty_dir", lib.Bool(src.emptyDirs() > 0))
		c.Hist("has_symlink", lib.Bool(src.count("link") > 0))
	}
	c.Hist("config", fmt.Sprintf("link=%v fallback=%v xdev=%v", in.Link, in.Fallback, in.XDev))
	c.Hist("result", map[bool]string{true: "ok", false: "error"}[err == nil])
}

// spellings of `from`, relative to a scratch directory that holds d/s/file and d/s/sub/g (d/s a directory)
var spellings = []string{"d/s", "d//s", "d/./s", "d/s/", "./d/s", "d/x/../s", "d/s/.", "d//s/file", "d/./s/file", "d/s/file"}

// spelling runs RecursiveCopy / RecursiveLink with `from` = <scratch>/<spelling> exactly as spelled.  A panic of
// `name[len(from):]` (finding unclean-from-directory-panics, fixed in /repo by cleaning `from` first) is recovered and
// reported: a panic neither reproduces the tree nor is it an error return.
func (r *runner) spelling(in *CaseIn) {
	c := r.c
	r.n++
	root := filepath.Join(r.base, fmt.Sprintf("s%d", r.n))
	must(os.MkdirAll(filepath.Join(root, "d", "s", "sub"), 0o755))
	must(os.MkdirAll(filepath.Join(root, "d", "x"), 0o755))
	defer os.RemoveAll(root)
	must(os.WriteFile(filepath.Join(root, "d", "s", "file"), []byte("x"), 0o644))
	must(os.WriteFile(filepath.Join(root, "d", "s", "sub", "g"), []byte("g"), 0o644))
	from := root + "/" + in.Spelling // NOT filepath.Join: the spelling must survive
	to := filepath.Join(root, "dst")
	st, err := os.Stat(from)
	must(err)
	isDir := st.IsDir()
	panicked, perr := false, ""
	var callErr error
	func() {
		defer func() {
			if p := recover(); p != nil {
				panicked, perr = true, fmt.Sprint(p)
			}
		}()
		if in.Via == "RecursiveLink" {
			callErr = fs.RecursiveLink(from, to)
		} else {
			callErr = fs.RecursiveCopy(from, to, 0o644)
		}
	}()
	cleaned := filepath.Clean(from)
	// only the part below the scratch directory goes to the model (the prefix is clean and common to both)
	relFrom, relCleaned := strings.TrimPrefix(from, root+"/"), strings.TrimPrefix(cleaned, root+"/")
	js := map[string]any{"in": in, "cleaned": relCleaned, "is_dir": isDir, "panicked": panicked, "panic": perr, "error": fmt.Sprint(callErr)}
	c.Case(lib.App("CaseSpelling", lib.Str(relFrom), lib.Str(relCleaned), lib.Bool(isDir), lib.Bool(panicked)), js,
		"spelling|"+in.Via+"|"+in.Spelling, in.Spelling != relCleaned)
	c.Oracle()
	switch {
	case panicked:
		c.Fail("unclean-from-directory-panics", fmt.Sprintf("%s(from = \"<dir>/%s\", ...) panicked: %s (`name[len(from):]`, src/fs/copy.go:62: godirwalk reports the cleaned root %q)", in.Via, in.Spelling, perr, relCleaned), in)
	case callErr != nil:
		c.Fail("unclean-from-error", fmt.Sprintf("%s(from = \"<dir>/%s\", ...) failed: %v", in.Via, in.Spelling, callErr), in)
	default:
		// the copy of an unclean path is the copy of its Clean form: exactly d/s (file, sub/g) resp. the one file
		want := map[string]string{"": "x"}
		if isDir {
			want = map[string]string{"/file": "x", "/sub/g": "g"}
		}
		for rel, data := range want {
			if got, err := os.ReadFile(to + rel); err != nil || string(got) != data {
				c.Fail("unclean-from-wrong-copy", fmt.Sprintf("%s(from = \"<dir>/%s\", ...) returned nil but the destination does not hold %q at dst%s: %v %q", in.Via, in.Spelling, data, rel, err, got), in)
			}
		}
		n := 0
		filepath.Walk(to, func(string, os.FileInfo, error) error { n++; return nil })
		if (isDir && n != 4) || (!isDir && n != 1) {
			c.Fail("unclean-from-wrong-copy", fmt.Sprintf("%s(from = \"<dir>/%s\", ...) left %d entries at the destination", in.Via, in.Spelling, n), in)
		}
	}
	c.Hist("stream", "from-spelling")
	c.Hist("from_spelling", map[bool]string{true: "clean", false: "unclean"}[in.Spelling == relCleaned]+map[bool]string{true: " directory", false: " file"}[isDir])
}

func describe(n *Node) string {
	if n == nil {
		return "nothing"
	}
	switch n.K {
	case "file":
		return fmt.Sprintf("a file holding %q", n.C)
	case "link":
		return fmt.Sprintf("a symlink to %q", n.T)
	}
	return "a " + n.K
}

// ------------------------------------------------------------------------------------------- generators

// label gives every file of the world its own inode label (walk order), keeping labels that are already set
func label(es []*Entry) {
	next := 1
	var maxl func(n *Node)
	maxl = func(n *Node) {
		if n.K == "file" && n.Ino >= next {
			next = n.Ino + 1
		}
		for _, e := range n.Es {
			maxl(e.N)
		}
	}
	for _, e := range es {
		maxl(e.N)
	}
	var rec func(n *Node)
	rec = func(n *Node) {
		if n.K == "file" && n.Ino == 0 {
			n.Ino = next
			next++
		}
		for _, e := range n.Es {
			rec(e.N)
		}
	}
	for _, e := range es {
		rec(e.N)
	}
}

var leafNames = []string{"a", "b", "c", "d", "e", "f"}

// all trees with exactly n nodes; leaves: 2 kinds of file, 2 kinds of symlink, the empty directory
func treesOf(n int, memo map[int][]*Node) []*Node {
	if t, ok := memo[n]; ok {
		return t
	}
	var out []*Node
	if n == 1 {
		out = []*Node{file(0o644, "data"), file(0o755, ""), link("f"), link("../x/y"), dir()}
	} else {
		for _, f := range forestsOf(n-1, memo) {
			es := []*Entry{}
			for i, t := range f {
				es = append(es, &Entry{leafNames[i], t})
			}
			out = append(out, dir(es...))
		}
	}
	memo[n] = out
	return out
}

func forestsOf(m int, memo map[int][]*Node) [][]*Node {
	if m == 0 {
		return [][]*Node{{}}
	}
	var out [][]*Node
	for k := 1; k <= m; k++ {
		for _, t := range treesOf(k, memo) {
			for _, rest := range forestsOf(m-k, memo) {
				out = append(out, append([]*Node{t}, rest...))
			}
		}
	}
	return out
}

func siblings() []*Entry {
	return []*Entry{
		{"loop", link("loop")},
		{"tdir", dir(&Entry{"inner", file(0o644, "inner")})},
		{"tfile", file(0o640, "target file")},
		{"tlink", link("tfile")},
	}
}

func world(src *Node, extra ...*Entry) []*Entry {
	es := append([]*Entry{{"src", src.clone()}}, siblings()...)
	es = append(es, extra...)
	sortEntries(es)
	label(es)
	return es
}

var namePool = []string{"a", "b", "lib", "x.go", ".hidden", "a b", "München", "out-1", "BUILD", "z", "a.b.c", "-", "~", "$x", "'q'", "a\tb", "..a", "…"}
var permPool = []uint32{0o644, 0o755, 0o600, 0o444, 0o555, 0o664, 0o777, 0o700, 0o400, 0}
var modePool = []uint32{0, 0o444, 0o555, 0o644, 0o755, 0o600, 0o775}
var targetPool = []string{"f", "../x", "a/b", "./a", "..", ".", "/abs/olute", "a b", "x/../y", "lib", "../../../../etc/passwd", "München"}

func randContent(r *lib.Rng) string {
	switch r.Intn(5) {
	case 0:
		return ""
	case 1:
		b := make([]byte, r.Range(1, 12))
		for i := range b {
			b[i] = byte(r.Intn(256))
		}
		return string(b)
	case 2:
		return strings.Repeat("0123456789abcdef", r.Range(1, 8))
	}
	return lib.Pick(r, []string{"x", "hello\n", "#!/bin/sh\nexit 0\n", "a", "data"})
}

func randTree(r *lib.Rng, budget *int, depth int, files *[]*Node) *Node {
	*budget--
	k := r.Intn(10)
	if depth == 0 && k < 7 && !r.Chance(1, 6) {
		k = 9 // mostly a directory at the root
	}
	switch {
	case k < 4 || *budget <= 0 && k < 8 && depth > 0:
		if len(*files) > 0 && r.Chance(1, 6) {
			return lib.Pick(r, *files) // a second name for an existing inode (hard link inside the source)
		}
		n := file(lib.Pick(r, permPool), randContent(r))
		n.Ino = 100 + len(*files)
		*files = append(*files, n)
		return n
	case k < 6:
		return link(lib.Pick(r, targetPool))
	}
	n := dir()
	if depth >= 4 {
		return n
	}
	names := append([]string{}, namePool...)
	lib.Shuffle(r, names)
	want := r.Intn(5)
	if r.Chance(1, 5) {
		want = 0
	}
	for i := 0; i < want && *budget > 0; i++ {
		n.Es = append(n.Es, &Entry{names[i], randTree(r, budget, depth+1, files)})
	}
	sortEntries(n.Es)
	return n
}

func copyOf(src *Node, shareInodes bool) *Node {
	m := src.clone()
	if !shareInodes {
		var rec func(n *Node)
		rec = func(n *Node) {
			n.Ino = 0
			for _, e := range n.Es {
				rec(e.N)
			}
		}
		rec(m)
	}
	return m
}

// a destination that already exists: derived from the source so that the paths collide
func existingDest(r *lib.Rng, src *Node) *Node {
	switch r.Intn(6) {
	case 0:
		return dir()
	case 1:
		return file(0o644, "old")
	case 2:
		return copyOf(src, true) // the destination already IS a hard-linked copy (a previous RecursiveLink)
	}
	m := copyOf(src, r.Bool())
	var rec func(n *Node, top bool)
	rec = func(n *Node, top bool) {
		kept := []*Entry{}
		for _, e := range n.Es {
			switch r.Intn(7) {
			case 0: // absent
				continue
			case 1: // a file where the source has something else (or other content)
				e.N = file(0o600, "stale")
			case 2: // an empty directory in the way (never a symlink in place of a directory: not modelled)
				if e.N.K != "link" {
					e.N = dir()
				}
			case 3:
				if e.N.K == "file" {
					e.N = link("elsewhere")
				}
			default:
				rec(e.N, false)
			}
			kept = append(kept, e)
		}
		n.Es = kept
		if r.Chance(1, 4) && n.K == "dir" {
			n.Es = append(n.Es, &Entry{"only-in-dest", file(0o644, "keep")})
			sortEntries(n.Es)
		}
	}
	if m.K == "dir" {
		rec(m, true)
	}
	return m
}

type config struct {
	via      string
	mode     uint32
	link, fb bool
	xdev     bool
}

func (r *runner) cases(src *Node, extra []*Entry, cfgs []config, stream string) {
	for _, k := range cfgs {
		if k.xdev && r.xbase == "" {
			continue
		}
		in := &CaseIn{Mode: k.mode, Link: k.link, Fallback: k.fb, XDev: k.xdev, Via: k.via, World: world(src, extra...), A: "src", B: "dst"}
		r.run(in, stream)
	}
}

// ------------------------------------------------------------------------------------------- siblings with derived names

// names a temporary / backup / lock / editor file of NAME could have
func lookalikes(name string) []string {
	return []string{"." + name + ".tmp", name + ".tmp", "." + name, name + "~", "#" + name + "#", ".#" + name, name + ".swp",
		"." + name + ".swp", name + ".new", name + ".part", name + ".bak", name + ".lock", "tmp" + name, ".tmp" + name,
		name + "0", name + "000000000", "." + name + ".tmp~", name + ".tmp.tmp"}
}

// a tree that holds NAME and a sibling with a name derived from it, at the top and one level down
func lookalikeTree(name, other string) *Node {
	pair := func(tag string) []*Entry {
		es := []*Entry{{name, file(0o644, tag+" real output")}, {other, file(0o600, tag+" a different file that merely has a similar name")}}
		sortEntries(es)
		return es
	}
	es := append(pair("top"), &Entry{"d", dir(append(pair("nested"), &Entry{"unrelated.c", file(0o644, "int x;")})...)})
	sortEntries(es)
	sortEntries(find(es, "d").Es)
	return dir(es...)
}

// destinations the tree is copied onto: "" = fresh; older-name = an earlier build left NAME behind (both levels);
// hard-linked = an earlier RecursiveLink of the same tree; older-other = the derived name is there already
func lookalikeDest(kind, name, other string, src *Node) *Node {
	switch kind {
	case "older-name":
		return dir(&Entry{"d", dir(&Entry{name, file(0o644, "old")})}, &Entry{name, file(0o644, "old")})
	case "older-other":
		return dir(&Entry{other, file(0o644, "old lookalike")})
	case "hard-linked":
		return copyOf(src, true)
	}
	return nil
}

// ------------------------------------------------------------------------------------------- copies at the same time

// concTree: two directories of `files` regular files each, a symlink, an empty directory; names and contents are the worker's own
func concTree(id, round, files int) *Node {
	mk := func(dirTag string) []*Entry {
		es := []*Entry{}
		for i := 0; i < files; i++ {
			name := fmt.Sprintf("w%d%s%03d", id, dirTag, i) // short: the term that goes to the model side is large as it is
			es = append(es, &Entry{name, file(0o644, fmt.Sprintf("%d.%s", round, name))})
		}
		return es
	}
	sub := append(mk("s"), &Entry{"l", link(fmt.Sprintf("w%ds000", id))})
	sortEntries(sub)
	es := append(mk("t"), &Entry{"empty", dir()}, &Entry{"sub", dir(sub...)})
	sortEntries(es)
	return dir(es...)
}

// concurrent runs spec.Rounds groups of spec.Workers tree copies AT THE SAME TIME, each in its own goroutine on its own
// world (what a parallel build does when it collects outputs, builds filegroups, stores to and retrieves from the
// cache), while spec.Walkers goroutines walk directories of their own (input hashing).  Every call is then judged
// exactly like a sequential one: the model's (sequential) outcome for the first `emitRounds` rounds, the oracle for all.
func (r *runner) concurrent(spec ConcSpec, emitRounds int) {
	// the walkers' directories
	noise := []string{}
	for i := 0; i < spec.Walkers; i++ {
		nd := filepath.Join(r.base, fmt.Sprintf("noise%d", i))
		must(os.MkdirAll(filepath.Join(nd, "sub"), 0o755))
		for j := 0; j < spec.Files+20; j++ {
			must(os.WriteFile(filepath.Join(nd, fmt.Sprintf("n%d_%03d", i, j)), []byte("n"), 0o644))
			must(os.WriteFile(filepath.Join(nd, "sub", fmt.Sprintf("n%d_sub_%03d", i, j)), []byte("n"), 0o644))
		}
		noise = append(noise, nd)
		defer os.RemoveAll(nd)
	}
	for round := 0; round < spec.Rounds; round++ {
		ps := []*prepared{}
		for id := 0; id < spec.Workers; id++ {
			k := []config{{"RecursiveLink", 0, true, true, false}, {"RecursiveCopy", 0o644, false, false, false}}[(id+round)%2]
			sp := spec
			sp.Round, sp.Worker = round, id
			in := &CaseIn{Mode: k.mode, Link: k.link, Fallback: k.fb, Via: k.via, World: world(concTree(id, round, spec.Files)), A: "src", B: "dst", Conc: &sp}
			p := r.prepare(in)
			p.reps, p.prefix = spec.Reps, "concurrent-"
			ps = append(ps, p)
		}
		var stop atomic.Bool
		var walkers, workers sync.WaitGroup
		start := make(chan struct{})
		for _, nd := range noise {
			walkers.Add(1)
			go func(nd string) {
				defer walkers.Done()
				defer func() { recover() }() // the walkers are only there to read directories at the same time
				<-start
				for !stop.Load() {
					fs.Walk(nd, func(string, bool) error { return nil })
				}
			}(nd)
		}
		for _, p := range ps {
			workers.Add(1)
			go func(p *prepared) {
				defer workers.Done()
				<-start
				p.call()
			}(p)
		}
		close(start)
		workers.Wait()
		stop.Store(true)
		walkers.Wait()
		for id, p := range ps {
			r.finish(p, "concurrent", round < emitRounds && id < 4) // the model side gets four of the first group (large terms)
			p.cleanup()
		}
	}
}

func main() {
	lib.Main("C34", func(c *lib.Ctx) {
		c.Model("From PlzV Require Import Model.C34.", "C34.case", "C34.check")
		base, err := os.MkdirTemp("", "c34-")
		must(err)
		defer os.RemoveAll(base)
		r := &runner{c: c, base: base}
		// another device, so that link(2) fails with EXDEV and the fallback is exercised
		if st, err := os.Stat("/dev/shm"); err == nil && st.IsDir() {
			if xb, err := os.MkdirTemp("/dev/shm", "c34-"); err == nil {
				sb, _ := os.Stat(base)
				sx, _ := os.Stat(xb)
				if keyOf(sb).dev != keyOf(sx).dev {
					r.xbase = xb
					defer os.RemoveAll(xb)
				} else {
					os.RemoveAll(xb)
				}
			}
		}
		if r.xbase == "" {
			c.Note("no second device available: the cross-device (EXDEV fallback) cases were skipped")
		}

		var rp struct {
			CaseIn
			In *CaseIn `json:"in"` // a replay written from a correspondence mismatch wraps the input
		}
		if c.ReadReplay(&rp) {
			in := &rp.CaseIn
			if rp.In != nil {
				in = rp.In
			}
			if in.XDev && r.xbase == "" {
				in.XDev = false
			}
			if in.Spelling != "" {
				r.spelling(in)
				return
			}
			if in.Conc != nil { // a call that ran while others ran: re-run its whole group (a call alone is the sequential case)
				r.concurrent(*in.Conc, 1)
				return
			}
			r.run(in, "replay")
			return
		}

		maxNodes := c.Scale(4, 5)
		c.Rule(fmt.Sprintf("every tree with <= %d nodes (leaves: 2 files with different mode bits, 2 relative symlinks, the empty directory; any nesting) "+
			"run through RecursiveCopy(0555), RecursiveLink, link-without-fallback and RecursiveLink across devices; every kind of top-level symlink "+
			"(to a file, a directory, a symlink, itself, nothing) x 5 configurations; random larger trees (odd names, binary contents, many modes, absolute and "+
			"escaping symlink targets, hard links inside the source) x random configurations; destinations that already exist (stale files, directories in the way, "+
			"an earlier hard-linked copy); the call repeated over an earlier copy / hard-linked copy of the same tree x RecursiveLink, RecursiveCopy, link-without-fallback; `from` spelled in 10 ways (clean, //, /./, trailing /, ./, x/.., /. ; directory and file) x RecursiveCopy, RecursiveLink; trees that hold NAME next to a sibling whose name is derived from it (18 forms: .NAME.tmp, NAME~, NAME.lock, ...; two levels) x 4 configurations x fresh / older NAME / earlier hard-linked copy / older sibling at the destination; groups of 8 large trees copied and linked at the same time by 8 goroutines (plus 4 goroutines walking), each call judged as a sequential one. distinct = distinct (world, configuration); non-trivial = source with >= 2 nodes or a symlink root", maxNodes))

		std := []config{
			{"RecursiveCopy", 0o555, false, false, false},
			{"RecursiveLink", 0, true, true, false},
			{"", 0o644, true, false, false},
			{"RecursiveLink", 0, true, true, true},
		}

		// --- 1. exhaustive small trees
		memo := map[int][]*Node{}
		for n := 1; n <= maxNodes; n++ {
			for _, t := range treesOf(n, memo) {
				if t.K == "link" {
					continue // top-level symlinks: stream 2
				}
				r.cases(t, nil, std, "exhaustive")
			}
		}
		c.Exhaustive(true)
		c.Note("exhaustive: all %d-leaf-kind trees with <= %d nodes, %d configurations each", 5, maxNodes, len(std))

		// --- 2. top-level symlinks
		for _, t := range []string{"tfile", "tdir", "tlink", "loop", "src", "dst", "nothing", "tfile2"} {
			for _, k := range append(std, config{"RecursiveCopy", 0, false, false, false}, config{"", 0o600, false, true, true}) {
				extra := []*Entry{}
				if t == "tfile2" {
					extra = append(extra, &Entry{"tfile2", file(0, "mode zero")})
				}
				r.cases(link(t), extra, []config{k}, "top-level-symlink")
			}
		}

		// --- 3. random larger trees
		nrand := c.Scale(160, 3000)
		for i := 0; i < nrand; i++ {
			g := c.Rng.Fork()
			budget := g.Range(3, 24)
			files := []*Node{}
			t := randTree(g, &budget, 0, &files)
			if t.K == "link" {
				t.T = lib.Pick(g, []string{"tfile", "tlink", "nothing"})
			}
			k := config{"", lib.Pick(g, modePool), g.Bool(), g.Bool(), g.Chance(1, 4)}
			switch g.Intn(4) {
			case 0:
				k = config{"RecursiveCopy", k.mode, false, false, k.xdev}
			case 1:
				k = config{"RecursiveLink", 0, true, true, k.xdev}
			}
			r.cases(t, nil, []config{k}, "random")
		}

		// --- 6. how `from` is spelled (adversarial: the fixed finding unclean-from-directory-panics must not return)
		for _, sp := range spellings {
			for _, via := range []string{"RecursiveCopy", "RecursiveLink"} {
				r.spelling(&CaseIn{Spelling: sp, Via: via})
			}
		}

		t7 := time.Now()
		// --- 7. siblings whose names are derived from each other (NAME next to .NAME.tmp, NAME~, NAME.lock, ...): what a
		//        temporary, backup or lock file of NAME would be called is also a name an output can have
		for ni, name := range []string{"out", "x.go"} {
			for oi, other := range lookalikes(name) {
				if ni > 0 && oi >= 6 {
					break
				}
				t := lookalikeTree(name, other)
				kinds, cfgs := []string{"", "older-name", "hard-linked", "older-other"}, std
				if ni > 0 {
					kinds, cfgs = kinds[:2], std[:2]
				}
				for _, kind := range kinds {
					extra := []*Entry{}
					ks := cfgs
					if dn := lookalikeDest(kind, name, other, t); dn != nil {
						extra = append(extra, &Entry{"dst", dn})
						ks = nil
						for _, k := range cfgs { // an existing destination is materialised on the main device only
							if !k.xdev {
								ks = append(ks, k)
							}
						}
					}
					r.cases(t, extra, ks, "derived-sibling-names")
				}
			}
		}

		if os.Getenv("C34_TIMING") != "" {
			fmt.Fprintf(os.Stderr, "stream 7 took %v\n", time.Since(t7))
		}
		t8 := time.Now()
		// --- 8. copies running at the same time
		conc := ConcSpec{Workers: 8, Walkers: 4, Files: c.Scale(100, 150), Reps: c.Scale(3, 6), Rounds: c.Scale(3, 12)}
		r.concurrent(conc, 1)
		c.Note("concurrent: %d rounds x %d goroutines copying/linking trees of %d entries each (%d repetitions per round) + %d goroutines walking; every call judged as a sequential one",
			conc.Rounds, conc.Workers, 2*conc.Files+4, conc.Reps, conc.Walkers)
		if os.Getenv("C34_TIMING") != "" {
			fmt.Fprintf(os.Stderr, "stream 8 took %v\n", time.Since(t8))
		}

		// --- observation: a destination that holds a symlink to a directory OF THE SOURCE (outside the model: Unsupported)
		func() {
			d := filepath.Join(base, "probe2")
			must(os.MkdirAll(filepath.Join(d, "src", "sub"), 0o755))
			f := filepath.Join(d, "src", "sub", "file")
			must(os.WriteFile(f, []byte("x"), 0o644))
			must(os.Mkdir(filepath.Join(d, "dst"), 0o755))
			must(os.Symlink("../src/sub", filepath.Join(d, "dst", "sub")))
			defer os.RemoveAll(d)
			st0, _ := os.Lstat(f)
			err := fs.RecursiveCopy(filepath.Join(d, "src"), filepath.Join(d, "dst"), 0o444)
			st1, _ := os.Lstat(f)
			if st1 != nil && st0 != nil && (keyOf(st0) != keyOf(st1) || st0.Mode() != st1.Mode()) {
				c.Note("observation (outside the model, no caller known to set it up): RecursiveCopy into an existing destination whose entry `sub` is a symlink to the source's own directory `sub` returned %v and REPLACED the source file (inode changed: %v, mode %v -> %v): the temporary file is created and renamed through the symlink", err, keyOf(st0) != keyOf(st1), st0.Mode(), st1.Mode())
			} else {
				c.Note("observation (outside the model): RecursiveCopy into a destination holding a symlink to a source directory returned %v and left the source file as it was", err)
			}
		}()

		// --- 5. the call repeated: the destination is an earlier copy / an earlier hard-linked copy of the same tree
		nre := c.Scale(40, 500)
		for i := 0; i < nre; i++ {
			g := c.Rng.Fork()
			budget := g.Range(2, 10)
			files := []*Node{}
			t := randTree(g, &budget, 0, &files)
			if t.K == "link" {
				t.T = "tfile"
			}
			earlier := copyOf(t, i%2 == 0) // even: what RecursiveLink left (the source's inodes); odd: what RecursiveCopy left
			for _, k := range []config{{"RecursiveLink", 0, true, true, false}, {"RecursiveCopy", lib.Pick(g, modePool), false, false, false}, {"", 0o644, true, false, false}} {
				r.cases(t, []*Entry{{"dst", earlier.clone()}}, []config{k}, "repeated-call")
			}
		}

		// --- 4. destinations that already exist
		nadv := c.Scale(120, 1500)
		for i := 0; i < nadv; i++ {
			g := c.Rng.Fork()
			budget := g.Range(2, 8)
			files := []*Node{}
			t := randTree(g, &budget, 0, &files)
			if t.K == "link" {
				t.T = "tfile"
			}
			k := config{"", lib.Pick(g, modePool), g.Bool(), g.Chance(3, 4), false}
			r.cases(t, []*Entry{{"dst", existingDest(g, t)}}, []config{k}, "existing-destination")
		}
	})
}
