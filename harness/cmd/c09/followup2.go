// C09 follow-up 2 streams: (D) the hash recorded for a path over the life of a checkout - faults and their
// repair, in-place edits, mv / cp -a, stored xattrs, process restarts; (E) concurrent Hash calls on
// different paths through one PathHasher under a controlled, recorded interleaving.
package main

import (
	"bytes"
	"crypto/sha1"
	"fmt"
	"hash"
	"os"
	"path/filepath"
	"runtime"
	"sort"
	"strconv"
	"strings"
	"sync"
	"syscall"
	"time"

	"verifharness/lib"

	"github.com/thought-machine/please/src/fs"
)

func bad() *node { return &node{Kind: 'x'} }

const xattrName = "user.plz_hash" // NewPathHasher(.., "sha1"): no suffix

// ---------------------------------------------------------------------------------------------
// trees with unreadable entries

func (n *node) fcoq() string {
	switch n.Kind {
	case 'f':
		return lib.App("FFile", lib.Str(n.Content))
	case 'l':
		return lib.App("FLink", lib.Str(n.Target))
	case 'x':
		return "FBad"
	}
	items := []string{}
	for _, k := range n.Names {
		items = append(items, lib.Pair(lib.Str(k), n.Kids[k].fcoq()))
	}
	return lib.App("FDir", lib.List(items))
}

func (n *node) readable() bool {
	if n.Kind == 'x' {
		return false
	}
	for _, k := range n.Kids {
		if !k.readable() {
			return false
		}
	}
	return true
}

func getXattr(path string) ([]byte, bool) {
	buf := make([]byte, 256)
	n, err := syscall.Getxattr(path, xattrName, buf)
	if err != nil || n < 0 {
		return nil, false
	}
	return buf[:n], true
}

// copyTreeA is `cp -a`: new inodes, same content, the user.plz_hash xattr of every entry copied
func copyTreeA(src, dst string) {
	info, err := os.Lstat(src)
	must(err)
	switch {
	case info.Mode()&os.ModeSymlink != 0:
		t, err := os.Readlink(src)
		must(err)
		must(os.Symlink(t, dst))
		return // no user xattrs on symlinks
	case info.Mode()&os.ModeSocket != 0:
		must(syscall.Mknod(dst, syscall.S_IFSOCK|0o644, 0))
		return
	case info.IsDir():
		must(os.Mkdir(dst, 0o755))
		es, err := os.ReadDir(src)
		must(err)
		for i := len(es) - 1; i >= 0; i-- {
			copyTreeA(filepath.Join(src, es[i].Name()), filepath.Join(dst, es[i].Name()))
		}
	default:
		b, err := os.ReadFile(src)
		must(err)
		must(os.WriteFile(dst, b, 0o644))
	}
	if v, ok := getXattr(src); ok {
		must(syscall.Setxattr(dst, xattrName, v, 0))
	}
}

// editInPlace changes what is at path into t WITHOUT replacing the inode of path itself
func editInPlace(path string, old, t *node) {
	switch {
	case old.Kind == 'f' && t.Kind == 'f':
		f, err := os.OpenFile(path, os.O_WRONLY|os.O_TRUNC, 0o644)
		must(err)
		_, err = f.WriteString(t.Content)
		must(err)
		must(f.Close())
	case old.Kind == 'd' && t.Kind == 'd':
		es, err := os.ReadDir(path)
		must(err)
		for _, e := range es {
			must(os.RemoveAll(filepath.Join(path, e.Name())))
		}
		for i := len(t.Names) - 1; i >= 0; i-- {
			materialise(filepath.Join(path, t.Names[i]), t.Kids[t.Names[i]])
		}
	default:
		panic(fmt.Sprintf("edit in place from kind %c to kind %c", old.Kind, t.Kind))
	}
}

// ---------------------------------------------------------------------------------------------
// (D) recorded hashes

type rop struct {
	Op     string `json:"op"` // write edit remove move copya newproc hash
	P      string `json:"p,omitempty"`
	Q      string `json:"q,omitempty"`
	PAbs   bool   `json:"pabs,omitempty"` // hash: spell the path as an absolute path under the root
	Tree   any    `json:"tree,omitempty"`
	X      bool   `json:"x,omitempty"`   // newproc: xattrs enabled
	Via    string `json:"via,omitempty"` // move: "" = rename(2), "link" = link(2) + unlink(2) (regular files)
	Recalc bool   `json:"recalc,omitempty"`
	Store  bool   `json:"store,omitempty"`
}

var recKeys = []string{"plz-out/gen/p/o1", "plz-out/gen/p/o2", "plz-out/bin/q/o", "src/s1", "src/s2", "src/g/s3"}
var xattrsWork bool

type recRun struct {
	h       *fs.PathHasher
	xf      bool
	recs    []*recorder
	streams map[string]string // digest -> stream, over all processes of the sequence
	shadow  map[string]*node  // what the harness put at each key
	gm      map[string]string // absent|valid|stale   (protocol tracker; does not use the model)
	gx      map[string]string // none|valid|stale
	failed  map[string]bool   // the last Hash of the key by the current process failed
	edits   int               // in-place edits, faults seen, restarts: for the non-triviality rule
}

func newRecRun() *recRun {
	m := &recRun{streams: map[string]string{}, shadow: map[string]*node{}, gm: map[string]string{}, gx: map[string]string{}, failed: map[string]bool{}}
	m.proc(false)
	return m
}
func (m *recRun) proc(x bool) {
	m.xf = x
	m.h = fs.NewPathHasher(root, x, func() hash.Hash { r := &recorder{}; m.recs = append(m.recs, r); return r }, "sha1")
	m.gm = map[string]string{}
	m.failed = map[string]bool{}
}
func (m *recRun) mget(k string) string {
	if s, ok := m.gm[k]; ok {
		return s
	}
	return "absent"
}
func (m *recRun) xget(k string) string {
	if s, ok := m.gx[k]; ok {
		return s
	}
	return "none"
}
func (m *recRun) mdemote(k string) {
	if m.mget(k) == "valid" {
		m.gm[k] = "stale"
	}
}

type rres struct {
	coq      string
	isHash   bool
	allowed  bool
	ok       bool   // Hash returned a value
	val      string // the stream whose digest it returned
	computed bool
	fromMemo bool // the tracker knew a memo entry for the key
}

func underOutputs(k string) bool { return strings.HasPrefix(k, "plz-out/") }

func (m *recRun) do(o rop) rres {
	res := rres{allowed: true}
	obs := "RNone"
	var term string
	abs := func(k string) string { return filepath.Join(root, k) }
	switch o.Op {
	case "write":
		t := fromJS(o.Tree)
		must(os.RemoveAll(abs(o.P)))
		must(os.MkdirAll(filepath.Dir(abs(o.P)), 0o755))
		materialise(abs(o.P), t)
		m.shadow[o.P] = t
		m.mdemote(o.P)
		m.gx[o.P] = "none"
		term = lib.App("RWrite", lib.Str(o.P), t.fcoq())
	case "edit":
		t := fromJS(o.Tree)
		if old := m.shadow[o.P]; old != nil {
			editInPlace(abs(o.P), old, t)
			m.shadow[o.P] = t
			m.mdemote(o.P)
			if m.xget(o.P) == "valid" {
				m.gx[o.P] = "stale"
			}
			m.edits++
		}
		term = lib.App("REdit", lib.Str(o.P), t.fcoq())
	case "remove":
		must(os.RemoveAll(abs(o.P)))
		delete(m.shadow, o.P)
		m.mdemote(o.P)
		m.gx[o.P] = "none"
		term = lib.App("RRemove", lib.Str(o.P))
	case "move":
		if t := m.shadow[o.P]; t != nil && o.P != o.Q {
			must(os.RemoveAll(abs(o.Q)))
			must(os.MkdirAll(filepath.Dir(abs(o.Q)), 0o755))
			if o.Via == "link" && t.Kind == 'f' {
				must(os.Link(abs(o.P), abs(o.Q)))
				must(os.Remove(abs(o.P)))
			} else {
				must(os.Rename(abs(o.P), abs(o.Q)))
			}
			m.shadow[o.Q] = t
			delete(m.shadow, o.P)
			m.mdemote(o.P)
			m.mdemote(o.Q)
			m.gx[o.Q] = m.xget(o.P)
			m.gx[o.P] = "none"
		}
		term = lib.App("RMove", lib.Str(o.P), lib.Str(o.Q))
	case "copya":
		if t := m.shadow[o.P]; t != nil && o.P != o.Q {
			must(os.RemoveAll(abs(o.Q)))
			must(os.MkdirAll(filepath.Dir(abs(o.Q)), 0o755))
			copyTreeA(abs(o.P), abs(o.Q))
			m.shadow[o.Q] = t.clone()
			m.mdemote(o.Q)
			m.gx[o.Q] = m.xget(o.P)
		}
		term = lib.App("RCopyA", lib.Str(o.P), lib.Str(o.Q))
	case "newproc":
		m.proc(o.X && xattrsWork)
		m.edits++
		term = lib.App("RNewProc", lib.Bool(o.X && xattrsWork))
	case "hash":
		k := o.P
		res.isHash = true
		res.fromMemo = m.mget(k) != "absent"
		switch {
		case o.Recalc:
		case m.mget(k) == "stale":
			res.allowed = false
		case m.mget(k) == "absent" && m.xf && underOutputs(k) && m.xget(k) == "stale":
			res.allowed = false
		}
		arg := k
		if o.PAbs {
			arg = abs(k)
		}
		n := len(m.recs)
		digest, err := m.h.Hash(arg, o.Recalc, o.Store, false)
		if len(m.recs) > n+1 {
			panic("Hash created more than one hash")
		}
		res.computed = len(m.recs) > n
		written := ""
		if res.computed {
			last := m.recs[len(m.recs)-1]
			written = string(last.buf)
			d := sha1.Sum(last.buf)
			m.streams[string(d[:])] = written
		}
		switch {
		case err == nil:
			st, known := m.streams[string(digest)]
			if !known {
				panic(fmt.Sprintf("Hash(%s) returned a digest no hasher of this history computed: %x", arg, digest))
			}
			res.ok, res.val = true, st
			obs = lib.App("RVal", lib.Str(st), lib.Bool(res.computed))
		case res.computed:
			obs = lib.App("RErr", lib.Str(written))
			m.edits++
		default:
			obs = "RMissing"
		}
		// the tracker (mirrors the protocol of Model/C09_Rec.v; knows only what the harness did)
		t := m.shadow[k]
		switch {
		case !o.Recalc && m.mget(k) != "absent": // answered from the memo
		case t == nil:
		case !o.Recalc && m.xf && underOutputs(k) && m.xget(k) != "none": // answered from the stored xattr
			if m.xget(k) == "valid" {
				m.gm[k] = "valid"
			} else {
				m.gm[k] = "stale"
			}
		case t.readable():
			m.gm[k] = "valid"
			if o.Store && m.xf && underOutputs(k) && t.Kind != 'l' {
				m.gx[k] = "valid"
			}
		}
		m.failed[k] = err != nil && res.computed
		term = lib.App("RHash", lib.Str(arg), lib.Bool(o.Recalc), lib.Bool(o.Store))
	default:
		panic("unknown rec op " + o.Op)
	}
	res.coq = "(" + term + ", " + obs + ", " + lib.Bool(res.allowed) + ")"
	return res
}

const (
	clsFailedMemo  = "failed-hash-memoised"
	clsXattrSource = "stored-xattr-hash-believed-outside-plz-out"
	clsXattrOutput = "stale-xattr-hash-inside-protocol"
	clsStaleMemo   = "stale-memoised-hash-inside-protocol"
	clsComputed    = "computed-hash-not-of-current-tree"
	clsUnrecorded  = "hash-answered-without-computing-or-record"
)

type recFailure struct {
	at    int
	class string
	what  string
}

func cleanRec() {
	for _, k := range []string{"plz-out", "src"} {
		os.RemoveAll(filepath.Join(root, k))
	}
}

// runRecSeq executes one history; returns the Coq trace, whether the protocol was followed throughout,
// the first oracle failure and the number of "interesting" events
func runRecSeq(c *lib.Ctx, ops []rop) (trace []string, followed bool, fail *recFailure, events int) {
	cleanRec()
	defer cleanRec()
	m := newRecRun()
	followed = true
	for i, o := range ops {
		wasFailed := m.failed[o.P]
		r := m.do(o)
		trace = append(trace, r.coq)
		if c != nil {
			c.Hist("rec_op", o.Op)
		}
		if !r.isHash {
			continue
		}
		if !r.allowed {
			followed = false
		}
		if !followed || fail != nil {
			continue
		}
		if c != nil {
			c.Oracle()
		}
		want, wok := fresh(o.P) // a new hasher without xattrs: the hash of what is there now
		if r.ok == wok && (!r.ok || r.val == want) {
			if c != nil {
				c.Hist("rec_hash", map[bool]string{true: "value", false: "error"}[r.ok])
			}
			continue
		}
		cls := clsComputed
		switch {
		case r.computed:
		case wasFailed: // nothing was computed, and the last thing this process did with the path was a Hash that failed
			cls = clsFailedMemo
		case r.fromMemo:
			cls = clsStaleMemo
		case !m.xf:
			cls = clsUnrecorded
		case underOutputs(o.P):
			cls = clsXattrOutput
		default:
			cls = clsXattrSource
		}
		what := fmt.Sprintf("operation %d: Hash(%s, recalc=%v) returned the hash of %q (computed=%v), the path now holds %q", i, o.P, o.Recalc, clip(r.val), r.computed, clip(want))
		if !wok {
			what = fmt.Sprintf("operation %d: Hash(%s, recalc=%v) returned the hash of %q (computed=%v), the path cannot be hashed now (missing or unreadable entry)", i, o.P, o.Recalc, clip(r.val), r.computed)
		} else if !r.ok {
			what = fmt.Sprintf("operation %d: Hash(%s, recalc=%v) failed, a fresh hasher returns the hash of %q", i, o.P, o.Recalc, clip(want))
		}
		fail = &recFailure{i, cls, what}
	}
	return trace, followed, fail, m.edits
}

func shrinkRec(ops []rop, f *recFailure) ([]rop, *recFailure) {
	cur, curF := append([]rop{}, ops[:f.at+1]...), f
	for i := len(cur) - 2; i >= 0; i-- {
		cand := append(append([]rop{}, cur[:i]...), cur[i+1:]...)
		if _, fol, g, _ := runRecSeq(nil, cand); g != nil && fol && g.class == f.class {
			cur, curF = cand[:g.at+1], g
			if i > len(cur)-1 {
				i = len(cur) - 1
			}
		}
	}
	return cur, curF
}

func reportRec(c *lib.Ctx, ops []rop, f *recFailure) {
	if f == nil {
		return
	}
	small, g := shrinkRec(ops, f)
	c.Fail(g.class, g.what, map[string]any{"kind": "rec", "rops": small})
}

var recFiles = []*node{file("v1"), file("v2"), file(""), file("one\n"), file("one\ntwo\n")}
var recDirs = []*node{dir("a", file("v1")), dir("a", file("v1"), "b", bad()), dir("a", file("v1"), "b", file("v2")), dir("a", bad()),
	dir("a", file("v1"), "d", dir("x", bad()), "e", file("z")), dir("a", file("v1"), "d", dir("x", file("y")), "e", file("z")),
	dir(), dir("l", link("a"), "m", file("x"), "z", bad()), dir("l", link("a"), "m", file("x"), "z", file("q"))}
var recOthers = []*node{link("a"), bad()}

func recTree(r *lib.Rng) *node {
	switch k := r.Intn(10); {
	case k < 4:
		return lib.Pick(r, recFiles)
	case k < 9:
		return lib.Pick(r, recDirs)
	}
	return lib.Pick(r, recOthers)
}
func sameKindTree(r *lib.Rng, t *node) *node {
	if t.Kind == 'f' {
		return lib.Pick(r, recFiles)
	}
	return lib.Pick(r, recDirs)
}

func genRecSeq(r *lib.Rng) []rop {
	ops := []rop{{Op: "newproc", X: r.Chance(4, 5)}}
	have := map[string]*node{}
	pk := func() string { return lib.Pick(r, recKeys) }
	existing := func() string {
		ks := lib.SortedKeys(have)
		if len(ks) == 0 {
			return ""
		}
		return lib.Pick(r, ks)
	}
	n := r.Range(8, 24)
	for len(ops) < n {
		switch k := r.Intn(22); {
		case k < 4:
			p, t := pk(), recTree(r)
			have[p] = t
			ops = append(ops, rop{Op: "write", P: p, Tree: t.js()})
			if underOutputs(p) && r.Chance(2, 3) { // a build step: OutputHash after writing the output
				ops = append(ops, rop{Op: "hash", P: p, Recalc: true, Store: true, PAbs: r.Chance(1, 4)})
			}
		case k < 7:
			if p := existing(); p != "" && (have[p].Kind == 'f' || have[p].Kind == 'd') {
				t := sameKindTree(r, have[p])
				have[p] = t
				ops = append(ops, rop{Op: "edit", P: p, Tree: t.js()})
			}
		case k < 14:
			p := pk()
			if q := existing(); q != "" && r.Chance(5, 6) {
				p = q
			}
			ops = append(ops, rop{Op: "hash", P: p, Recalc: r.Chance(1, 5), Store: r.Bool(), PAbs: r.Chance(1, 4)})
		case k < 16:
			if p := existing(); p != "" {
				q := pk()
				if underOutputs(p) && r.Chance(2, 3) {
					q = lib.Pick(r, recKeys[3:]) // a generated file is checked in
				}
				via := ""
				if r.Bool() {
					via = "link"
				}
				ops = append(ops, rop{Op: "move", P: p, Q: q, Via: via})
				if p != q {
					have[q] = have[p]
					delete(have, p)
				}
			}
		case k < 18:
			if p := existing(); p != "" {
				q := pk()
				ops = append(ops, rop{Op: "copya", P: p, Q: q})
				if p != q {
					have[q] = have[p]
				}
			}
		case k < 21:
			ops = append(ops, rop{Op: "newproc", X: r.Chance(4, 5)})
		default:
			p := pk()
			delete(have, p)
			ops = append(ops, rop{Op: "remove", P: p})
		}
	}
	return ops
}

// directed histories: the shapes of the two seeded changes, with random variation
func directedRecSeq(r *lib.Rng, i int) []rop {
	x := r.Chance(3, 4)
	if i%2 == 0 {
		// a hash that fails on an unreadable entry, the entry is repaired, the same process asks again
		k := pk2(r)
		var broken, fixed *node
		switch r.Intn(4) {
		case 0:
			broken, fixed = dir("a.txt", file("aaa\n"), "b.txt", bad()), dir("a.txt", file("aaa\n"), "b.txt", file("bbb\n"))
		case 1:
			broken, fixed = bad(), file("now a file")
		case 2:
			broken, fixed = dir("a", file("1"), "d", dir("x", bad(), "y", file("3")), "e", file("4")), dir("a", file("1"), "d", dir("x", file("2"), "y", file("3")), "e", file("4"))
		default:
			broken, fixed = dir("a", bad(), "b", file("late")), dir("b", file("late"))
		}
		ops := []rop{{Op: "newproc", X: x}, {Op: "write", P: k, Tree: broken.js()}}
		if r.Bool() {
			ops[0], ops[1] = ops[1], ops[0]
		}
		ops = append(ops, rop{Op: "hash", P: k, Recalc: r.Chance(1, 3), Store: r.Bool(), PAbs: r.Chance(1, 4)})
		if broken.Kind == 'd' && r.Chance(2, 3) {
			ops = append(ops, rop{Op: "edit", P: k, Tree: fixed.js()})
		} else {
			ops = append(ops, rop{Op: "write", P: k, Tree: fixed.js()})
		}
		ops = append(ops, rop{Op: "hash", P: k, Store: r.Bool(), PAbs: r.Chance(1, 4)})
		if r.Bool() {
			ops = append(ops, rop{Op: "hash", P: k, Store: r.Bool()})
		}
		return ops
	}
	// an output whose hash was stored becomes a source, is edited in place, a new process hashes it
	out, src := lib.Pick(r, recKeys[:3]), lib.Pick(r, recKeys[3:])
	t1, t2 := file("one\n"), file("one\ntwo\n")
	if r.Chance(1, 3) {
		t1, t2 = dir("a", file("v1"), "b", file("v2")), dir("a", file("v1"), "b", file("v2 edited"))
	}
	ops := []rop{{Op: "write", P: out, Tree: t1.js()}, {Op: "newproc", X: true},
		{Op: "hash", P: out, Recalc: r.Chance(2, 3), Store: true}}
	switch r.Intn(3) {
	case 0:
		ops = append(ops, rop{Op: "move", P: out, Q: src})
	case 1:
		ops = append(ops, rop{Op: "move", P: out, Q: src, Via: "link"})
	default:
		ops = append(ops, rop{Op: "copya", P: out, Q: src})
	}
	if r.Chance(1, 3) {
		ops = append(ops, rop{Op: "newproc", X: true}, rop{Op: "hash", P: src, Store: r.Bool()})
	}
	ops = append(ops, rop{Op: "edit", P: src, Tree: t2.js()})
	if r.Chance(3, 4) {
		ops = append(ops, rop{Op: "newproc", X: x})
	}
	ops = append(ops, rop{Op: "hash", P: src, Store: r.Bool(), PAbs: r.Chance(1, 4)})
	return ops
}

func clip(x string) string {
	if len(x) > 80 {
		return x[:80] + fmt.Sprintf("...(%d bytes)", len(x))
	}
	return x
}

func pk2(r *lib.Rng) string { return lib.Pick(r, recKeys) }

// keepRecInProtocol rewrites Hash(p, recalc=false) the tracker forbids into recalc=true, by a dry run
func keepRecInProtocol(ops []rop) []rop {
	cleanRec()
	defer cleanRec()
	m := newRecRun()
	out := make([]rop, 0, len(ops))
	for _, o := range ops {
		if o.Op == "hash" && !o.Recalc {
			if m.mget(o.P) == "stale" || (m.mget(o.P) == "absent" && m.xf && underOutputs(o.P) && m.xget(o.P) == "stale") {
				o.Recalc = true
			}
		}
		m.do(o)
		out = append(out, o)
	}
	return out
}

func probeXattrs() bool {
	p := filepath.Join(root, "xattr-probe")
	if err := os.WriteFile(p, []byte("x"), 0o644); err != nil {
		return false
	}
	defer os.Remove(p)
	if err := syscall.Setxattr(p, xattrName, []byte("probe"), 0); err != nil {
		return false
	}
	_, ok := getXattr(p)
	return ok
}

func recCase(c *lib.Ctx, ops []rop, key string) {
	trace, followed, fail, events := runRecSeq(c, ops)
	reportRec(c, ops, fail)
	c.Case(lib.App("CRec", lib.Str(root), lib.List(trace)), map[string]any{"kind": "rec", "rops": ops}, key, followed && events > 0)
	if followed {
		c.Hist("rec_protocol", "followed")
	} else {
		c.Hist("rec_protocol", "left")
	}
}

func runRec(c *lib.Ctx) {
	xattrsWork = probeXattrs()
	if !xattrsWork {
		c.Note("recorded hashes: NO user xattrs on %s - every process runs with xattrs off, the stored-hash short-cut is not exercised", root)
	}
	nRand, nDir := c.Scale(120, 1500), c.Scale(40, 400)
	nOps := 0
	for i := 0; i < nRand; i++ {
		r := c.Rng.Fork()
		ops := genRecSeq(r)
		if i%5 != 0 {
			ops = keepRecInProtocol(ops)
		}
		nOps += len(ops)
		recCase(c, ops, fmt.Sprintf("r%d", i))
	}
	for i := 0; i < nDir; i++ {
		ops := directedRecSeq(c.Rng.Fork(), i)
		nOps += len(ops)
		recCase(c, ops, fmt.Sprintf("rd%d", i))
	}
	c.Note("recorded hashes: %d random + %d directed histories (%d operations), user xattrs on the scratch file system: %v", nRand, nDir, nOps, xattrsWork)
}

// ---------------------------------------------------------------------------------------------
// (E) concurrent Hash calls under a controlled interleaving

func goid() int {
	var buf [64]byte
	n := runtime.Stack(buf[:], false)
	f := strings.Fields(string(buf[:n]))
	if len(f) < 2 {
		panic("cannot read the goroutine id")
	}
	id, err := strconv.Atoi(f[1])
	must(err)
	return id
}

type concEvent struct {
	id   int
	done bool
	dig  []byte
	err  error
}

// parkHash records like recorder, but every Write first reports to the controller and waits for its turn
type parkHash struct {
	recorder
	id     int
	events chan concEvent
	gate   chan struct{}
}

func (p *parkHash) Write(b []byte) (int, error) {
	p.events <- concEvent{id: p.id}
	<-p.gate
	return p.recorder.Write(b) // copies b only now: whatever the caller's buffer holds at its turn
}

type citem struct {
	copy bool // true: file content through the copy buffer; false: bytes the call owns
}

// itemsOf: what a Hash call on the tree writes, in order (mirrors items_of; empty files write nothing)
func itemsOf(n *node, top bool, out []citem) []citem {
	switch n.Kind {
	case 'f':
		if n.Content != "" {
			out = append(out, citem{true})
		}
	case 'l':
		out = append(out, citem{false})
		if top {
			out = append(out, citem{false})
		}
	case 'd':
		for _, k := range n.Names {
			out = itemsOf(n.Kids[k], false, out)
		}
	}
	return out
}

const clsConc = "concurrent-hash-differs-from-sequential"

// runConcRound hashes the trees at once through one PathHasher; choices drives the release order
// (index into the sorted list of parked calls; exhausted or out of range: the first)
func runConcRound(c *lib.Ctx, trees []*node, choose func(nParked int) int, key string) {
	cdir := filepath.Join(root, "conc")
	must(os.RemoveAll(cdir))
	must(os.Mkdir(cdir, 0o755))
	defer os.RemoveAll(cdir)
	k := len(trees)
	paths := make([]string, k)
	seq := make([]string, k)
	for i, t := range trees {
		paths[i] = fmt.Sprintf("conc/c%d", i)
		materialise(filepath.Join(root, paths[i]), t)
		st, err := hashOnce(root, paths[i])
		must(err)
		seq[i] = st
	}
	events := make(chan concEvent, 4*k)
	var mu sync.Mutex
	ids := map[int]int{} // goroutine id -> call
	hs := make([]*parkHash, k)
	h := fs.NewPathHasher(root, false, func() hash.Hash {
		mu.Lock()
		defer mu.Unlock()
		i, ok := ids[goid()]
		if !ok || hs[i] != nil {
			panic("hash created outside a registered call, or twice by one call")
		}
		hs[i] = &parkHash{id: i, events: events, gate: make(chan struct{})}
		return hs[i]
	}, "sha1")
	start := make(chan struct{})
	for i := 0; i < k; i++ {
		reg := make(chan struct{})
		go func(i int) {
			mu.Lock()
			ids[goid()] = i
			mu.Unlock()
			close(reg)
			<-start
			d, err := h.Hash(paths[i], false, false, false)
			events <- concEvent{id: i, done: true, dig: d, err: err}
		}(i)
		<-reg
	}
	close(start)
	// the model's micro-step schedule: a Read for every call that starts with a file, then per release
	// the Write and, if the next item is a file, its Read
	items := make([][]citem, k)
	ptr := make([]int, k)
	var sched, choices []int
	for i, t := range trees {
		items[i] = itemsOf(t, true, nil)
		if len(items[i]) > 0 && items[i][0].copy {
			sched = append(sched, i)
		}
	}
	running, parked, digests := k, map[int]bool{}, make([][]byte, k)
	stuck := false
	for finished := 0; finished < k && !stuck; {
		for running > 0 && !stuck {
			select {
			case ev := <-events:
				running--
				if ev.done {
					finished++
					must(ev.err)
					digests[ev.id] = ev.dig
				} else {
					parked[ev.id] = true
				}
			case <-time.After(20 * time.Second):
				stuck = true
			}
		}
		if stuck || len(parked) == 0 {
			break
		}
		ps := []int{}
		for i := range parked {
			ps = append(ps, i)
		}
		sort.Ints(ps)
		ch := choose(len(ps))
		if ch < 0 || ch >= len(ps) {
			ch = 0
		}
		choices = append(choices, ch)
		j := ps[ch]
		delete(parked, j)
		sched = append(sched, j)
		ptr[j]++
		if ptr[j] < len(items[j]) && items[j][ptr[j]].copy {
			sched = append(sched, j)
		}
		running = 1
		hs[j].gate <- struct{}{}
	}
	treesJS := []any{}
	nodes := []string{}
	for _, t := range trees {
		treesJS = append(treesJS, t.js())
		nodes = append(nodes, t.coq(nil))
	}
	input := map[string]any{"kind": "conc", "trees": treesJS, "choices": choices}
	c.Oracle()
	if stuck {
		c.Fail("concurrent-hash-stuck", "concurrent Hash calls on different paths did not all finish within 20 s", input)
		return
	}
	obs := make([]string, k)
	distinct := map[string]bool{}
	for i := range trees {
		if hs[i] != nil {
			obs[i] = string(hs[i].buf)
		}
		distinct[seq[i]] = true
		want := sha1.Sum([]byte(obs[i]))
		if !bytes.Equal(digests[i], want[:]) {
			panic("concurrent Hash did not return the digest of the bytes its hash received")
		}
	}
	for i := range trees {
		if obs[i] != seq[i] {
			other := ""
			for j := range trees {
				if j != i && obs[i] == seq[j] {
					other = fmt.Sprintf(" - exactly the hash input of the different path %s", paths[j])
				}
			}
			c.Fail(clsConc, fmt.Sprintf("%d paths hashed at once through one PathHasher: %s was recorded with the hash of %q, hashed alone it is %q%s",
				k, paths[i], clip(obs[i]), clip(seq[i]), other), input)
			break
		}
	}
	c.Case(lib.App("CConc", lib.List(nodes), "["+joinInts(sched)+"]%nat", lib.StrList(obs)), input, key, k >= 2 && len(distinct) >= 2)
	c.HistN("conc_calls", k)
	c.HistN("conc_releases", min(len(choices), 12))
}

func joinInts(xs []int) string {
	out := make([]string, len(xs))
	for i, x := range xs {
		out[i] = strconv.Itoa(x)
	}
	return strings.Join(out, "; ")
}

var concTrees = []*node{file("aaaa"), file("bbbb"), file("cc"), file("dddddd"), file(""), link("t"), link("uu"),
	dir("a", file("1111"), "b", file("2222")), dir("k", link("q"), "z", file("zzzz")), dir("a", file("xx"), "d", dir("e", file("yyyy"), "f", file("")), "g", file("ww")),
	dir("a", file("3333"), "b", file("4444"), "c", file("5555")), dir(), dir("only", file("same")), file("same")}

func runConc(c *lib.Ctx) {
	n := c.Scale(60, 600)
	for i := 0; i < n; i++ {
		r := c.Rng.Fork()
		k := r.Range(2, 5)
		trees := make([]*node, k)
		for j := range trees {
			trees[j] = lib.Pick(r, concTrees)
			if r.Chance(1, 6) { // a bigger file: still one Read, one Write (below io.Copy's 32k buffer)
				trees[j] = file(strings.Repeat(string(rune('A'+j)), r.Range(100, 1500)))
			}
		}
		runConcRound(c, trees, func(np int) int { return r.Intn(np) }, fmt.Sprintf("cc%d", i))
	}
	c.Note("concurrency: %d rounds of 2-5 Hash calls on different paths through one PathHasher, every h.Write released one at a time in a random order", n)
}

// ---------------------------------------------------------------------------------------------

func replayFollowup2(c *lib.Ctx, kind string, ops []rop, trees []any, choices []int) {
	switch kind {
	case "rec":
		xattrsWork = probeXattrs()
		recCase(c, ops, "r")
	case "conc":
		ts := []*node{}
		for _, t := range trees {
			ts = append(ts, fromJS(t))
		}
		i := 0
		runConcRound(c, ts, func(int) int {
			if i < len(choices) {
				i++
				return choices[i-1]
			}
			return 0
		}, "cc")
	}
}
