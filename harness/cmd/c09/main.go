// C09: path hashes distinguish every difference in a file tree.
// Implementation side of the correspondence (the exact byte stream fs.PathHasher feeds to its hash,
// observed through a recording hash.Hash) and the property oracle (pairwise: distinct trees whose
// real streams - hence hashes - are equal, classified into narrow defect classes).
package main

import (
	"bytes"
	"crypto/sha1"
	"encoding/json"
	"fmt"
	"hash"
	"os"
	"path/filepath"
	"sort"
	"strings"
	"syscall"

	"verifharness/lib"

	"github.com/thought-machine/please/src/fs"
)

// ---------------------------------------------------------------------------------------------
// trees

type node struct {
	Kind    byte // 'f' file, 'l' symlink, 'd' directory, 'x' an entry that cannot be opened (a socket; follow-up 2 only)
	Content string
	Target  string
	Names   []string // sorted (byte order)
	Kids    map[string]*node
}

func file(c string) *node { return &node{Kind: 'f', Content: c} }
func link(t string) *node { return &node{Kind: 'l', Target: t} }
func dir(kv ...any) *node {
	n := &node{Kind: 'd', Kids: map[string]*node{}}
	for i := 0; i+1 < len(kv); i += 2 {
		n.set(kv[i].(string), kv[i+1].(*node))
	}
	return n
}
func (n *node) set(name string, k *node) {
	if _, ok := n.Kids[name]; !ok {
		n.Names = append(n.Names, name)
		sort.Strings(n.Names)
	}
	n.Kids[name] = k
}
func (n *node) del(name string) {
	delete(n.Kids, name)
	out := n.Names[:0:0]
	for _, x := range n.Names {
		if x != name {
			out = append(out, x)
		}
	}
	n.Names = out
}
func (n *node) clone() *node {
	c := &node{Kind: n.Kind, Content: n.Content, Target: n.Target}
	if n.Kind == 'd' {
		c.Kids = map[string]*node{}
		c.Names = append([]string{}, n.Names...)
		for k, v := range n.Kids {
			c.Kids[k] = v.clone()
		}
	}
	return c
}
func (n *node) size() int {
	s := 1
	for _, k := range n.Kids {
		s += k.size()
	}
	return s
}
func (n *node) depth() int {
	d := 0
	for _, k := range n.Kids {
		d = max(d, k.depth())
	}
	return d + 1
}

// JSON form: {"file":c} | {"link":t} | {"dir":{name:tree}}  (bytes >= 0x80 never generated)
func (n *node) js() any {
	switch n.Kind {
	case 'f':
		return map[string]any{"file": n.Content}
	case 'l':
		return map[string]any{"link": n.Target}
	case 'x':
		return map[string]any{"bad": true}
	}
	m := map[string]any{}
	for k, v := range n.Kids {
		m[k] = v.js()
	}
	return map[string]any{"dir": m}
}
func fromJS(v any) *node {
	m := v.(map[string]any)
	if c, ok := m["file"]; ok {
		return file(c.(string))
	}
	if t, ok := m["link"]; ok {
		return link(t.(string))
	}
	if _, ok := m["bad"]; ok {
		return bad()
	}
	d := dir()
	for k, x := range m["dir"].(map[string]any) {
		d.set(k, fromJS(x))
	}
	return d
}
func (n *node) key() string { b, _ := json.Marshal(n.js()); return string(b) }

// Coq term of type C09.node; entries in the given order of names (nil = sorted)
func (n *node) coq(shuffle *lib.Rng) string {
	switch n.Kind {
	case 'f':
		return lib.App("File", lib.Str(n.Content))
	case 'l':
		return lib.App("Link", lib.Str(n.Target))
	}
	names := append([]string{}, n.Names...)
	if shuffle != nil {
		lib.Shuffle(shuffle, names)
	}
	items := []string{}
	for _, k := range names {
		items = append(items, lib.Pair(lib.Str(k), n.Kids[k].coq(shuffle)))
	}
	return lib.App("Dir", lib.List(items))
}

func materialise(path string, n *node) {
	var err error
	switch n.Kind {
	case 'f':
		err = os.WriteFile(path, []byte(n.Content), 0o644)
	case 'l':
		err = os.Symlink(n.Target, path)
	case 'x':
		err = syscall.Mknod(path, syscall.S_IFSOCK|0o644, 0) // os.Open on it fails with ENXIO, also for root
	case 'd':
		err = os.Mkdir(path, 0o755)
		// creation order deliberately not sorted: the walk has to do the sorting
		for i := len(n.Names) - 1; i >= 0 && err == nil; i-- {
			materialise(filepath.Join(path, n.Names[i]), n.Kids[n.Names[i]])
		}
	}
	if err != nil {
		panic(err)
	}
}

// ---------------------------------------------------------------------------------------------
// the real hasher, observed

type recorder struct{ buf []byte }

func (r *recorder) Write(p []byte) (int, error) { r.buf = append(r.buf, p...); return len(p), nil }
func (r *recorder) Sum(b []byte) []byte         { s := sha1.Sum(r.buf); return append(b, s[:]...) }
func (r *recorder) Reset()                      { r.buf = nil }
func (r *recorder) Size() int                   { return sha1.Size }
func (r *recorder) BlockSize() int              { return sha1.BlockSize }

var root string
var counter int

// realStream materialises the tree under the repo root and returns the bytes PathHasher wrote to
// its hash, having checked that the digest it returned is the hash of exactly those bytes.
// A fresh PathHasher per tree: no memoisation, xattrs off, timestamp off.
func realStream(n *node) string {
	counter++
	rel := fmt.Sprintf("n%d", counter)
	materialise(filepath.Join(root, rel), n)
	defer os.RemoveAll(filepath.Join(root, rel))
	var recs []*recorder
	h := fs.NewPathHasher(root, false, func() hash.Hash { r := &recorder{}; recs = append(recs, r); return r }, "sha1")
	arg := rel
	if counter%2 == 1 {
		arg = filepath.Join(root, rel) // absolute spelling of the same path: ensureRelative
	}
	digest, err := h.Hash(arg, false, false, false)
	if err != nil {
		panic(fmt.Sprintf("PathHasher.Hash(%s) on %s: %v", arg, n.key(), err))
	}
	if len(recs) != 1 {
		panic(fmt.Sprintf("PathHasher.Hash created %d hashes for one path", len(recs)))
	}
	want := sha1.Sum(recs[0].buf)
	if !bytes.Equal(digest, want[:]) {
		panic("PathHasher.Hash did not return the digest of the bytes it wrote")
	}
	// memoised second call must agree (and must not re-hash)
	again, err := h.Hash(arg, false, false, false)
	if err != nil || !bytes.Equal(again, digest) || len(recs) != 1 {
		panic("memoised PathHasher.Hash differs from the first call")
	}
	return string(recs[0].buf)
}

// ---------------------------------------------------------------------------------------------
// the oracle's classifier: works on the two trees only (no model involved)

const (
	clsNames      = "dir-entry-names-not-hashed"
	clsLinkTarget = "dir-symlink-target-not-hashed"
	clsRootKind   = "root-kind-not-hashed"
	clsNesting    = "dir-nesting-not-hashed"
	clsBoundaries = "dir-file-boundaries-not-hashed"
	clsAlias      = "symlink-marker-aliases-file-content"
	clsUnknown    = "unclassified-path-hash-collision"
)

var coqClass = map[string]string{clsNames: "DirNames", clsLinkTarget: "DirLinkTarget", clsRootKind: "RootKind",
	clsNesting: "DirNesting", clsBoundaries: "FileBoundaries", clsAlias: "MarkerAlias"}

func eqNameless(cmpT bool, a, b *node) bool {
	if a.Kind != b.Kind {
		return false
	}
	switch a.Kind {
	case 'f':
		return a.Content == b.Content
	case 'l':
		return !cmpT || a.Target == b.Target
	}
	if len(a.Names) != len(b.Names) {
		return false
	}
	for i := range a.Names {
		if !eqNameless(cmpT, a.Kids[a.Names[i]], b.Kids[b.Names[i]]) {
			return false
		}
	}
	return true
}

type leaf struct {
	link bool
	c    string
}

func dleaves(n *node, out []leaf) []leaf {
	switch n.Kind {
	case 'f':
		return append(out, leaf{false, n.Content})
	case 'l':
		return append(out, leaf{true, ""})
	}
	for _, k := range n.Names {
		out = dleaves(n.Kids[k], out)
	}
	return out
}
func tleaves(n *node) []leaf {
	if n.Kind == 'l' {
		return []leaf{{true, ""}, {false, n.Target}}
	}
	return dleaves(n, nil)
}
func leavesEq(a, b []leaf) bool {
	if len(a) != len(b) {
		return false
	}
	for i := range a {
		if a[i] != b[i] {
			return false
		}
	}
	return true
}
func segs(ls []leaf) []string {
	out := []string{""}
	for _, l := range ls {
		if l.link {
			out = append(out, "")
		} else {
			out[len(out)-1] += l.c
		}
	}
	return out
}
func has2(ls []leaf) bool {
	for _, l := range ls {
		if !l.link && strings.Contains(l.c, "\x02") {
			return true
		}
	}
	return false
}

// classify names the known defect class of a pair of distinct trees, "" if none applies.
// collide says whether the real streams were equal (only the last class needs to be told).
func classify(a, b *node, collide bool) string {
	switch {
	case a.Kind == 'f' && b.Kind == 'f', a.Kind == 'l' && b.Kind == 'l':
		return ""
	case a.Kind == 'f' && b.Kind == 'l':
		if a.Content == "\x02"+b.Target {
			return clsAlias
		}
		return ""
	case a.Kind == 'l' && b.Kind == 'f':
		return classify(b, a, collide)
	}
	both := a.Kind == 'd' && b.Kind == 'd'
	la, lb := tleaves(a), tleaves(b)
	sa, sb := segs(la), segs(lb)
	segsEq := len(sa) == len(sb)
	for i := 0; segsEq && i < len(sa); i++ {
		segsEq = sa[i] == sb[i]
	}
	switch {
	case both && eqNameless(true, a, b):
		return clsNames
	case both && eqNameless(false, a, b):
		return clsLinkTarget
	case !both && segsEq:
		return clsRootKind
	case leavesEq(la, lb):
		return clsNesting
	case segsEq:
		return clsBoundaries
	case (has2(la) || has2(lb)) && collide:
		return clsAlias
	}
	return ""
}

// ---------------------------------------------------------------------------------------------
// generators

// all trees with exactly n nodes over names {a,b}, contents {"",x,xy}, link targets {a,b}
func enumerate(n int, memo map[int][]*node) []*node {
	if t, ok := memo[n]; ok {
		return t
	}
	var out []*node
	if n == 1 {
		for _, c := range []string{"", "x", "xy"} {
			out = append(out, file(c))
		}
		for _, t := range []string{"a", "b"} {
			out = append(out, link(t))
		}
		out = append(out, dir())
	} else if n > 1 {
		for _, name := range []string{"a", "b"} {
			for _, k := range enumerate(n-1, memo) {
				out = append(out, dir(name, k))
			}
		}
		for i := 1; i <= n-2; i++ {
			for _, ka := range enumerate(i, memo) {
				for _, kb := range enumerate(n-1-i, memo) {
					out = append(out, dir("a", ka, "b", kb))
				}
			}
		}
	}
	memo[n] = out
	return out
}

var namePool = []string{"a", "b", "c", "ab", "a.b", "B", "b c", "-x", "\xc3\xa9", ".h", "~", "a\n"}
var contentPool = []string{"", "x", "y", "xy", "yx", "a", "\x02", "\x02a", "x\x02", "\x02\x02", "line\n", "\x00\x7f"}
var targetPool = []string{"a", "b", "x", "a/b", "../a", "./b", "\x02"}

func randTree(r *lib.Rng, depth int) *node {
	switch k := r.Intn(10); {
	case depth <= 0 && k < 7, k < 3:
		return file(lib.Pick(r, contentPool))
	case depth <= 0 || k < 5:
		return link(lib.Pick(r, targetPool))
	}
	d := dir()
	for i, n := 0, r.Range(0, 4); i < n; i++ {
		d.set(lib.Pick(r, namePool), randTree(r, depth-1))
	}
	return d
}

// all directory nodes of a tree
func dirsOf(n *node, out []*node) []*node {
	if n.Kind == 'd' {
		out = append(out, n)
		for _, k := range n.Names {
			out = dirsOf(n.Kids[k], out)
		}
	}
	return out
}

func freshName(r *lib.Rng, d *node) string {
	for i := 0; i < 20; i++ {
		if n := lib.Pick(r, namePool); d.Kids[n] == nil {
			return n
		}
	}
	return fmt.Sprintf("z%d", len(d.Names))
}

// mutate returns a tree that differs from t in one of the ways the statement lists
// (aimed at the boundary: most of these are invisible to a contents-only stream)
func mutate(r *lib.Rng, t *node) (*node, string) {
	m := t.clone()
	ds := dirsOf(m, nil)
	if len(ds) == 0 {
		switch r.Intn(4) {
		case 0:
			return dir(lib.Pick(r, namePool), m), "wrap-root"
		case 1:
			if m.Kind == 'l' {
				return file("\x02" + m.Target), "link-to-marker-file"
			}
			return file(m.Content + lib.Pick(r, []string{"x", "\x02", "y"})), "edit-file"
		case 2:
			if m.Kind == 'f' && len(m.Content) >= 2 {
				return dir("a", file(m.Content[:1]), "b", file(m.Content[1:])), "split-root"
			}
			return link(lib.Pick(r, targetPool)), "retarget-or-relink"
		}
		return dir(lib.Pick(r, namePool), m, lib.Pick(r, []string{"zz", "0"}), dir()), "wrap-root-plus-empty"
	}
	d := lib.Pick(r, ds)
	op := r.Intn(9)
	if len(d.Names) == 0 {
		op = 6 + r.Intn(2)
	}
	switch op {
	case 0: // rename an entry
		old := lib.Pick(r, d.Names)
		k := d.Kids[old]
		d.del(old)
		d.set(freshName(r, d), k)
		return m, "rename"
	case 1: // retarget a link, or edit a file
		name := lib.Pick(r, d.Names)
		switch k := d.Kids[name]; k.Kind {
		case 'l':
			k.Target = lib.Pick(r, targetPool)
			return m, "retarget"
		case 'f':
			k.Content = lib.Pick(r, contentPool)
			return m, "edit"
		}
		d.Kids[name] = dir("a", d.Kids[name])
		return m, "wrap"
	case 2: // wrap an entry into a directory of the same name
		name := lib.Pick(r, d.Names)
		d.Kids[name] = dir(lib.Pick(r, namePool), d.Kids[name])
		return m, "wrap"
	case 3: // split a file in two
		name := lib.Pick(r, d.Names)
		if k := d.Kids[name]; k.Kind == 'f' && len(k.Content) >= 1 {
			i := r.Range(0, len(k.Content))
			d.Kids[name] = dir("a", file(k.Content[:i]), "b", file(k.Content[i:]))
			return m, "split"
		}
		d.Kids[name] = file(lib.Pick(r, contentPool))
		return m, "replace-by-file"
	case 4: // change the kind of an entry
		name := lib.Pick(r, d.Names)
		switch k := d.Kids[name]; k.Kind {
		case 'l':
			d.Kids[name] = file("\x02")
		case 'f':
			if k.Content == "\x02" {
				d.Kids[name] = link("a")
			} else {
				d.Kids[name] = dir("a", file(k.Content))
			}
		default:
			if len(k.Names) == 0 {
				d.Kids[name] = file("")
			} else {
				d.Kids[name] = link("a")
			}
		}
		return m, "change-kind"
	case 5: // swap two entries' names
		if len(d.Names) >= 2 {
			i := r.Intn(len(d.Names) - 1)
			a, b := d.Names[i], d.Names[i+1]
			d.Kids[a], d.Kids[b] = d.Kids[b], d.Kids[a]
			return m, "swap"
		}
		d.set(freshName(r, d), link("a"))
		return m, "add-link"
	case 6: // add an empty directory or an empty file
		if r.Bool() {
			d.set(freshName(r, d), dir())
		} else {
			d.set(freshName(r, d), file(""))
		}
		return m, "add-empty"
	case 7: // add a symlink or a non-empty file
		if r.Bool() {
			d.set(freshName(r, d), link(lib.Pick(r, targetPool)))
		} else {
			d.set(freshName(r, d), file("x"))
		}
		return m, "add-entry"
	}
	// delete an entry
	d.del(lib.Pick(r, d.Names))
	return m, "delete"
}

// ---------------------------------------------------------------------------------------------

type item struct {
	t      *node
	stream string
}

func pairJS(a, b *node) map[string]any { return map[string]any{"a": a.js(), "b": b.js()} }

func main() {
	lib.Main("C09", func(c *lib.Ctx) {
		c.Model("From PlzV Require Import Model.C09 Model.C09_Rec.", "C09_Rec.case", "C09_Rec.check")
		c.Rule("every tree is created on disk under a scratch repo root and hashed by a fresh fs.NewPathHasher(root,false,recorder,\"sha1\") " +
			"whose hash.Hash records the bytes written (digest checked = sha1 of them); the model must reproduce the bytes exactly. " +
			"Exhaustive: all trees with <= N nodes over names {a,b}, contents {\"\",x,xy}, link targets {a,b}; random: trees of depth <= 3 over larger pools " +
			"(incl. \\x02 bytes, odd names) each with mutants that differ in exactly one listed way. Oracle: ALL pairs of distinct trees with equal real streams, classified. " +
			"distinct = distinct trees / unordered pairs; non-trivial = a directory with >= 1 entry (stream cases), a colliding pair (class cases). " +
			"Follow-up streams: (A) paths that are symlinks with absolute targets inside/outside the root (incl. the root itself, doubled slashes, a sibling directory sharing the root as textual prefix, dangling and directory pointees) " +
			"and symlinks hashed through absolute paths outside the root, next to regular files / relative links / directories with matching bytes: every stream against the model, every pair classified (non-trivial = a symlink path); " +
			"(B) the same tree created in ascending/descending/shuffled order on /dev/shm and on disk must give one stream, trees whose contents are permuted relative to name order (same and other names) never one stream; " +
			"(C) random operation sequences (write, remove, copy, Hash with/without recalc, MoveHash, CopyHash, SetHash right/wrong/absolute, build.moveOutput incl. rebuilding the same temporary path) on ONE long-lived hasher per sequence, " +
			"4 in 5 kept inside the protocol: every returned stream, whether it was recomputed and the protocol tracker's verdict against the memo model (non-trivial = protocol followed throughout); oracle: inside the protocol the stream returned equals what a fresh hasher computes at that moment; " +
			"follow-up 2: (D) histories of one checkout on a file system with user xattrs: new files, in-place edits (same inode), removals, mv (rename or hard link + unlink), cp -a (xattrs copied), directory entries and top-level paths that cannot be opened (sockets) and their repair, " +
			"process restarts (a new PathHasher, xattrs on 4 in 5) and Hash with/without recalc/store on outputs under plz-out/ and on sources; random sequences (4 in 5 kept inside the protocol) plus directed ones " +
			"(hash fails on an unreadable entry -> repaired -> hashed again by the same process; output hashed with store -> becomes a source via mv/link/cp -a -> edited in place -> hashed by a new process): every answer incl. the bytes written before a failure and the tracker's verdict against the Coq state machine; " +
			"oracle: inside the protocol the answer equals what a fresh xattr-less hasher computes at that moment (non-trivial = protocol followed and >= 1 in-place edit, fault or restart); " +
			"(E) 2-5 Hash calls on different paths at once through ONE PathHasher, every h.Write parked by the recording hash and released one at a time in a random order (the file Read of the next item runs before the next park): the recorded schedule and every call's bytes against the Coq interleaving model; " +
			"oracle: every call's bytes and digest equal those of a sequential fresh hasher (non-trivial = >= 2 calls with different contents)")

		base := "/dev/shm"
		if st, err := os.Stat(base); err != nil || !st.IsDir() {
			base = ""
		}
		var err error
		root, err = os.MkdirTemp(base, "c09-")
		if err != nil {
			panic(err)
		}
		defer os.RemoveAll(root)
		if r, err := filepath.EvalSymlinks(root); err == nil {
			root = r
		}
		if err := os.Chdir(root); err != nil { // Please runs with the repo root as working directory
			panic(err)
		}
		defer os.Chdir("/")

		// --- replay of one stored input
		var rp struct {
			Kind     string    `json:"kind"`
			A        any       `json:"a"`
			B        any       `json:"b"`
			Tree     any       `json:"tree"`
			Variants []variant `json:"variants"`
			VA       variant   `json:"va"`
			VB       variant   `json:"vb"`
			Ops      []mop     `json:"ops"`
			Top      any       `json:"top"`
			Rops     []rop     `json:"rops"`
			Trees    []any     `json:"trees"`
			Choices  []int     `json:"choices"`
		}
		if c.ReadReplay(&rp) && (rp.Kind == "rec" || rp.Kind == "conc") {
			replayFollowup2(c, rp.Kind, rp.Rops, rp.Trees, rp.Choices)
			return
		}
		if c.ReadReplay(&rp) && rp.Kind != "" {
			if rp.Kind == "top1" { // a single top-level path (a correspondence case): replay it against itself
				rp.Kind, rp.A, rp.B = "top", rp.Top, rp.Top
			}
			replayFollowup(c, rp.Kind, rp.A, rp.B, rp.Tree, rp.Variants, rp.VA, rp.VB, rp.Ops)
			return
		}
		if c.Replay != "" && rp.A != nil && rp.B != nil {
			a, b := fromJS(rp.A), fromJS(rp.B)
			sa, sb := realStream(a), realStream(b)
			oldCase(c, lib.App("CStream", a.coq(nil), lib.Str(sa)), a.js(), a.key(), true)
			oldCase(c, lib.App("CStream", b.coq(nil), lib.Str(sb)), b.js(), b.key(), true)
			c.Oracle()
			if a.key() != b.key() && sa == sb {
				cls := classify(a, b, true)
				if cls == "" {
					cls = clsUnknown
				}
				c.Fail(cls, fmt.Sprintf("distinct trees, equal hash input %q", sa), pairJS(a, b))
			}
			return
		}

		var pool []item
		seen := map[string]bool{}
		add := func(t *node, shuffle *lib.Rng, how string) {
			k := t.key()
			if seen[k] {
				return
			}
			seen[k] = true
			st := realStream(t)
			pool = append(pool, item{t, st})
			oldCase(c, lib.App("CStream", t.coq(shuffle), lib.Str(st)), map[string]any{"tree": t.js(), "stream": st}, k, t.Kind == 'd' && len(t.Names) > 0)
			c.HistN("nodes", min(t.size(), 12))
			c.HistN("depth", t.depth())
			c.Hist("root_kind", string(t.Kind))
			c.Hist("source", how)
		}

		// --- 1. exhaustive small domain
		maxNodes := c.Scale(4, 5)
		memo := map[int][]*node{}
		for n := 1; n <= maxNodes; n++ {
			for _, t := range enumerate(n, memo) {
				add(t, nil, "exhaustive")
			}
		}
		nExh := len(pool)
		c.Note("exhaustive: %d trees with <= %d nodes over names {a,b}, contents {\"\",x,xy}, link targets {a,b}", nExh, maxNodes)

		// --- 2. witnesses of the Coq refutation, replayed on the implementation
		for _, w := range [][2]*node{
			{dir("a", file("x")), dir("b", file("x"))},
			{dir("a", file("xy")), dir("a", file("x"), "b", file("y"))},
			{dir("l", link("p")), dir("l", link("q"))},
			{dir(), dir("d", dir())},
			{dir(), dir("e", file(""))},
			{link("t"), file("\x02t")},
			{file("x"), dir("a", file("x"))},
			{link("x"), dir("a", link("q"), "b", file("x"))},
			{dir("a", dir("b", file("x"))), dir("a", file("x"))},
			{dir("a", link("t")), dir("a", file("\x02"))},
		} {
			add(w[0], nil, "witness")
			add(w[1], nil, "witness")
		}

		// --- 2b. every unusual name once, with two contents, a link and a nested file (hidden files, odd bytes)
		for _, name := range namePool {
			add(dir(name, file("x")), nil, "names")
			add(dir(name, file("y")), nil, "names")
			add(dir(name, link("a")), nil, "names")
			add(dir(name, dir(name, file("y"))), nil, "names")
		}

		// --- 3. random larger trees, each with one-step mutants
		nBase, nMut := c.Scale(120, 2500), c.Scale(4, 6)
		for i := 0; i < nBase; i++ {
			r := c.Rng.Fork()
			t := randTree(r, r.Range(1, 3))
			for try := 0; try < 3 && t.Kind != 'd' && r.Chance(4, 5); try++ {
				t = randTree(r, r.Range(1, 3)) // mostly directories at the root
			}
			add(t, r, "random")
			cur := t
			for j := 0; j < nMut; j++ {
				m, how := mutate(r, cur)
				c.Hist("mutation", how)
				add(m, r, "mutant")
				if r.Chance(1, 3) {
					cur = m // chains: two or three differences at once
				}
			}
		}

		// --- 4. the oracle: every pair of distinct trees with equal real streams
		groups := map[string][]int{}
		for i, it := range pool {
			groups[it.stream] = append(groups[it.stream], i)
		}
		keys := lib.SortedKeys(groups)
		type pr struct{ a, b int }
		var colliding []pr
		for _, k := range keys {
			g := groups[k]
			for x := 0; x < len(g); x++ {
				for y := x + 1; y < len(g); y++ {
					colliding = append(colliding, pr{g[x], g[y]})
				}
			}
		}
		total := len(pool) * (len(pool) - 1) / 2
		for i := 0; i < total-len(colliding); i++ {
			c.Oracle() // pairs with different streams: the property holds on them
		}
		// smallest pairs first: lib keeps the first three failing inputs per class
		w1 := make([]int, len(pool))
		for i, it := range pool {
			w1[i] = 1000*it.t.size() + len(it.t.key())
		}
		sort.SliceStable(colliding, func(i, j int) bool {
			return w1[colliding[i].a]+w1[colliding[i].b] < w1[colliding[j].a]+w1[colliding[j].b]
		})
		classes := make([]string, len(colliding))
		classTotal := map[string]int{}
		for i, p := range colliding {
			cls := classify(pool[p.a].t, pool[p.b].t, true)
			if cls == "" {
				cls = clsUnknown
			}
			classes[i] = cls
			classTotal[cls]++
		}
		// classifier tie (Go classify = Coq defect_class): an evenly spread sample of every class
		capCases := c.Scale(60, 400)
		seenOfClass := map[string]int{}
		for i, p := range colliding {
			a, b, cls := pool[p.a].t, pool[p.b].t, classes[i]
			c.Oracle()
			if seenOfClass[cls] < 3 {
				c.Fail(cls, fmt.Sprintf("distinct trees, equal hash input %q", pool[p.a].stream), pairJS(a, b))
			} else {
				c.Fail(cls, "", nil) // counted; lib keeps the first three (the smallest) per class
			}
			c.Hist("collision_class", cls)
			stride := max(1, classTotal[cls]/capCases)
			if k := seenOfClass[cls]; cls != clsUnknown && k%stride == 0 && k/stride < capCases {
				oldCase(c, lib.App("CClass", a.coq(nil), b.coq(nil), lib.Some(coqClass[cls])), map[string]any{"pair": pairJS(a, b), "class": cls},
					"p"+a.key()+b.key(), true)
			}
			seenOfClass[cls]++
		}
		c.Note("pairs: %d trees, %d unordered pairs, %d with equal streams", len(pool), total, len(colliding))

		// --- 5. classifier tie on non-colliding pairs: the Go classifier and the Coq defect_class must both say "no class"
		nNeg := c.Scale(150, 1500)
		for i := 0; i < nNeg; i++ {
			r := c.Rng.Fork()
			x, y := r.Intn(len(pool)), r.Intn(len(pool))
			if i%2 == 0 && x+1 < len(pool) {
				y = x + 1 // neighbours: a tree and its mutant
			}
			if pool[x].stream == pool[y].stream {
				continue
			}
			a, b := pool[x].t, pool[y].t
			if cls := classify(a, b, false); cls != "" {
				// the classifier's classes are collisions of the UNCHANGED code by construction (Coq: classified_collides);
				// a pair in a class whose real streams differ means the implementation hashes something else now.
				// Not a failure of C09 by itself: leave it to the correspondence, which must disagree on one of the two trees.
				c.Hist("classified_but_distinct_streams", cls)
				continue
			}
			oldCase(c, lib.App("CClass", a.coq(nil), b.coq(nil), "None"), map[string]any{"pair": pairJS(a, b), "class": nil}, "n"+a.key()+b.key(), false)
		}
		// --- 6. follow-up streams: top-level symlinks with absolute targets, creation order, the memo
		setupExt()
		defer os.RemoveAll(ext)
		runTops(c)
		runOrder(c, add)
		runMemo(c)
		runRec(c)
		runConc(c)
		c.Exhaustive(true)
	})
}

// oldCase records a case of the original case type (Model/C09.v) inside the follow-up-2 wrapper type
func oldCase(c *lib.Ctx, coq string, js any, key string, nontrivial bool) {
	c.Case("(COld "+coq+")", js, key, nontrivial)
}
