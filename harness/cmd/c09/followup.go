// C09 follow-up streams: (A) top-level symlinks with absolute targets, (B) creation order /
// permuted contents, (C) the memo of one long-lived PathHasher as a state machine.
package main

import (
	"bytes"
	"crypto/sha1"
	"fmt"
	"hash"
	"os"
	"path/filepath"
	"sort"
	"strings"

	"verifharness/lib"

	"github.com/thought-machine/please/src/fs"
)

// ---------------------------------------------------------------------------------------------
// (A) top-level symlinks

const (
	clsExtTarget    = "external-symlink-target-not-hashed"
	clsExtContent   = "external-symlink-content-aliases-link-target"
	clsRootStripped = "absolute-in-repo-symlink-target-relativised"
	clsSibling      = "symlink-target-sibling-of-root-prefix-stripped"
)

var coqTopClass = map[string]string{clsExtTarget: "TExtTarget", clsExtContent: "TExtContentAsTarget",
	clsRootStripped: "TRootStripped", clsSibling: "TSiblingStripped"}

var ext string // a directory outside the repo root ("system tools")

// fixed content of the outside directory: regular files ...
var extFiles = map[string]string{"f1": "tool v1\n", "f2": "tool v1\n", "f3": "a", "f4": "\x02a", "f5": "2/x", "e": "", "g": "tool v2\n"}

// ... and symlinks that are hashed through their absolute path outside the repo (name -> symbolic target)
var extLinks = map[string]string{"l": "f1", "o1": "f1", "o2": "${EXT}/f2", "o3": "${ROOT}/a", "o4": "g", "o5": "missing", "o6": "d"}

func expand(sym string) string {
	return strings.ReplaceAll(strings.ReplaceAll(sym, "${ROOT}", root), "${EXT}", ext)
}

func setupExt() {
	var err error
	ext, err = os.MkdirTemp(filepath.Dir(root), "c09ext-")
	if err != nil {
		panic(err)
	}
	if r, err := filepath.EvalSymlinks(ext); err == nil {
		ext = r
	}
	for _, k := range lib.SortedKeys(extFiles) {
		must(os.WriteFile(filepath.Join(ext, k), []byte(extFiles[k]), 0o644))
	}
	must(os.Mkdir(filepath.Join(ext, "d"), 0o755))
	for _, k := range lib.SortedKeys(extLinks) {
		must(os.Symlink(expand(extLinks[k]), filepath.Join(ext, k)))
	}
	must(os.WriteFile(filepath.Join(root, "a"), []byte("inrepo\n"), 0o644))
}

func must(err error) {
	if err != nil {
		panic(err)
	}
}

// a path given to Hash
type top struct {
	Kind string // "node" | "abs" (symlink inside the repo, absolute target) | "out" (symlink outside the repo, hashed by absolute path)
	N    *node
	Sym  string // abs: symbolic target with ${ROOT}/${EXT};  out: name in extLinks
}

func (x top) js() any {
	switch x.Kind {
	case "abs":
		return map[string]any{"abslink": x.Sym}
	case "out":
		return map[string]any{"outlink": x.Sym}
	}
	return x.N.js()
}
func topFromJS(v any) top {
	m := v.(map[string]any)
	if t, ok := m["abslink"]; ok {
		return top{Kind: "abs", Sym: t.(string)}
	}
	if t, ok := m["outlink"]; ok {
		return top{Kind: "out", Sym: t.(string)}
	}
	return top{Kind: "node", N: fromJS(v)}
}
func (x top) key() string {
	return x.Kind + ":" + x.Sym + ":" + func() string {
		if x.N != nil {
			return x.N.key()
		}
		return ""
	}()
}
func (x top) target() string {
	switch x.Kind {
	case "abs":
		return expand(x.Sym)
	case "out":
		return expand(extLinks[x.Sym])
	}
	return x.N.Target
}

type topObs struct {
	stream  string
	ok      bool    // Hash returned no error
	pointee *string // bytes of the regular file the link resolves to (nil: none)
}

// hashOnce runs a fresh hasher on one path and returns the recorded bytes
func hashOnce(rootDir, arg string) (string, error) {
	var recs []*recorder
	h := fs.NewPathHasher(rootDir, false, func() hash.Hash { r := &recorder{}; recs = append(recs, r); return r }, "sha1")
	digest, err := h.Hash(arg, false, false, false)
	if err != nil {
		return "", err
	}
	if len(recs) != 1 {
		panic(fmt.Sprintf("PathHasher.Hash created %d hashes for one path", len(recs)))
	}
	want := sha1.Sum(recs[0].buf)
	if !bytes.Equal(digest, want[:]) {
		panic("PathHasher.Hash did not return the digest of the bytes it wrote")
	}
	return string(recs[0].buf), nil
}

func observeTop(x top) topObs {
	if x.Kind == "node" {
		return topObs{stream: realStream(x.N), ok: true}
	}
	var p, arg string
	if x.Kind == "abs" {
		counter++
		arg = fmt.Sprintf("n%d", counter)
		p = filepath.Join(root, arg)
		must(os.Symlink(expand(x.Sym), p))
		defer os.Remove(p)
		if counter%2 == 1 {
			arg = p
		}
	} else {
		p = filepath.Join(ext, x.Sym)
		arg = p
	}
	var o topObs
	if st, err := os.Stat(p); err == nil && st.Mode().IsRegular() {
		if b, err := os.ReadFile(p); err == nil {
			c := string(b)
			o.pointee = &c
		}
	}
	st, err := hashOnce(root, arg)
	o.stream, o.ok = st, err == nil
	return o
}

func ensureRelative(rootDir, p string) string {
	if strings.HasPrefix(p, rootDir) {
		return strings.TrimLeft(strings.TrimPrefix(p, rootDir), "/")
	}
	return p
}

func (x top) coq(o topObs) string {
	pt := "None"
	if o.pointee != nil {
		pt = lib.Some(lib.Str(*o.pointee))
	}
	switch x.Kind {
	case "abs":
		return lib.App("TAbsLink", lib.Str(x.target()), pt)
	case "out":
		return lib.App("TOutLink", lib.Str(x.target()), pt)
	}
	return lib.App("TNode", x.N.coq(nil))
}

// the oracle's view of a top-level path, computed from the tree/link alone (no model):
// kind of target and the in-repo node that denotes the same hash input
func (x top) kindAndEff(o topObs) (string, *node) {
	switch x.Kind {
	case "node":
		return "node", x.N
	case "abs":
		t := x.target()
		if rel := ensureRelative(root, t); rel != t {
			if rest := strings.TrimPrefix(t, root); rest != "" && rest[0] != '/' {
				return "sibling", link(rel)
			}
			return "inrepo", link(rel)
		}
	}
	if o.pointee == nil {
		return "external", nil
	}
	return "external", link(*o.pointee)
}

func topsDiffer(x, y top) bool {
	if x.Kind == "node" && y.Kind == "node" {
		return x.N.key() != y.N.key()
	}
	if (x.Kind == "node" && x.N.Kind != 'l') || (y.Kind == "node" && y.N.Kind != 'l') {
		return true
	}
	return x.target() != y.target()
}

// classifyTops: class of a pair of different top-level paths ("" = none); inherited = one of the six tree classes
func classifyTops(x, y top, ox, oy topObs, collide bool) (cls string, inherited bool) {
	kx, a := x.kindAndEff(ox)
	ky, b := y.kindAndEff(oy)
	if a == nil || b == nil {
		return "", false
	}
	if (kx != "node" || ky != "node") && a.Kind == 'l' && b.Kind == 'l' && a.Target == b.Target {
		switch {
		case kx == "external" && ky == "external":
			return clsExtTarget, false
		case kx == "external" || ky == "external":
			return clsExtContent, false
		case kx == "sibling" || ky == "sibling":
			return clsSibling, false
		}
		return clsRootStripped, false
	}
	return classify(a, b, collide), true
}

func coqTClass(cls string, inherited bool) string {
	if cls == "" {
		return "None"
	}
	if inherited {
		return lib.Some(lib.App("TInherited", coqClass[cls]))
	}
	return lib.Some(coqTopClass[cls])
}

func topPairJS(x, y top) map[string]any {
	return map[string]any{"kind": "top", "a": x.js(), "b": y.js()}
}

func runTops(c *lib.Ctx) {
	var tops []top
	for _, t := range []string{"${ROOT}/a", "${ROOT}//a", "${ROOT}/sub/x", "${ROOT}", "${ROOT}/", "${ROOT}2/x", "${ROOT}2", "${ROOT}/2/x",
		"${ROOT}/\x02", "${ROOT}/tool v1\n", "${EXT}/f1", "${EXT}/f2", "${EXT}/f3", "${EXT}/f4", "${EXT}/f5", "${EXT}/e", "${EXT}/g", "${EXT}/l",
		"${EXT}/d", "${EXT}/missing", "${EXT}/o2", "/"} {
		tops = append(tops, top{Kind: "abs", Sym: t})
	}
	for _, k := range lib.SortedKeys(extLinks) {
		tops = append(tops, top{Kind: "out", Sym: k})
	}
	nodes := []*node{link("a"), link("sub/x"), link("2/x"), link("2"), link("\x02"), link("tool v1\n"), link("tool v2\n"), link("inrepo\n"),
		file("\x02"), file("\x02a"), file("\x02\x02a"), file("a"), file("2/x"), file("\x022/x"), file(""),
		dir("k", link("q"), "z", file("a")), dir("k", link("q")), dir("k", link("q"), "z", file("tool v1\n"))}
	for _, k := range lib.SortedKeys(extFiles) {
		nodes = append(nodes, file(extFiles[k]), file("\x02"+extFiles[k]))
	}
	seen := map[string]bool{}
	for _, n := range nodes {
		if !seen[n.key()] {
			seen[n.key()] = true
			tops = append(tops, top{Kind: "node", N: n})
		}
	}
	obs := make([]topObs, len(tops))
	for i, x := range tops {
		obs[i] = observeTop(x)
		o := "None"
		if obs[i].ok {
			o = lib.Some(lib.Str(obs[i].stream))
		}
		oldCase(c, lib.App("CTop", lib.Str(root), x.coq(obs[i]), o), map[string]any{"kind": "top1", "top": x.js(), "stream": obs[i].stream, "ok": obs[i].ok}, "t"+x.key(), x.Kind != "node")
		c.Hist("top_kind", x.Kind)
		if !obs[i].ok {
			c.Hist("top_hash_error", x.Sym)
		}
	}
	checkTopPairs(c, tops, obs, 120)
}

func checkTopPairs(c *lib.Ctx, tops []top, obs []topObs, negCap int) {
	type pr struct{ i, j int }
	var coll, rest []pr
	for i := range tops {
		for j := i + 1; j < len(tops); j++ {
			if !obs[i].ok || !obs[j].ok || !topsDiffer(tops[i], tops[j]) {
				continue
			}
			c.Oracle()
			if obs[i].stream == obs[j].stream {
				coll = append(coll, pr{i, j})
			} else {
				rest = append(rest, pr{i, j})
			}
		}
	}
	isFile := func(x top) bool { return x.Kind == "node" && x.N.Kind == 'f' }
	w := func(p pr) int { // a link next to a regular file first, then the shortest
		n := len(tops[p.i].key()) + len(tops[p.j].key())
		if !isFile(tops[p.i]) && !isFile(tops[p.j]) {
			n += 100000
		}
		return n
	}
	sort.SliceStable(coll, func(a, b int) bool { return w(coll[a]) < w(coll[b]) })
	seenOf := map[string]int{}
	for _, p := range coll {
		x, y := tops[p.i], tops[p.j]
		cls, inh := classifyTops(x, y, obs[p.i], obs[p.j], true)
		name := cls
		if cls == "" {
			name = clsUnknown
		}
		if seenOf[name] < 3 {
			c.Fail(name, fmt.Sprintf("different top-level paths, equal hash input %q", obs[p.i].stream), topPairJS(x, y))
		} else {
			c.Fail(name, "", nil)
		}
		seenOf[name]++
		c.Hist("top_collision_class", name)
		if cls != "" {
			oldCase(c, lib.App("CTopClass", lib.Str(root), x.coq(obs[p.i]), y.coq(obs[p.j]), coqTClass(cls, inh)),
				map[string]any{"pair": topPairJS(x, y), "class": cls}, "tp"+x.key()+y.key(), true)
		}
	}
	stride := max(1, len(rest)/max(1, negCap))
	for k := 0; k < len(rest); k += stride {
		x, y := tops[rest[k].i], tops[rest[k].j]
		if cls, _ := classifyTops(x, y, obs[rest[k].i], obs[rest[k].j], false); cls != "" {
			c.Hist("top_classified_but_distinct_streams", cls)
			continue
		}
		oldCase(c, lib.App("CTopClass", lib.Str(root), x.coq(obs[rest[k].i]), y.coq(obs[rest[k].j]), "None"),
			map[string]any{"pair": topPairJS(x, y), "class": nil}, "tn"+x.key()+y.key(), false)
	}
	c.Note("top-level symlinks: %d paths, %d pairs with equal streams, %d with different streams", len(tops), len(coll), len(rest))
}

// ---------------------------------------------------------------------------------------------
// (B) creation order and permuted contents

var diskRoot string // a second repo root on the disk file system (readdir order = hash order there)

func orderOf(names []string, ord string) []string {
	out := append([]string{}, names...)
	sort.Strings(out)
	switch {
	case ord == "desc":
		for i, j := 0, len(out)-1; i < j; i, j = i+1, j-1 {
			out[i], out[j] = out[j], out[i]
		}
	case strings.HasPrefix(ord, "shuf"):
		var seed uint64
		fmt.Sscanf(ord[4:], "%d", &seed)
		lib.Shuffle(lib.NewRng(seed*2654435761+uint64(len(out))), out)
	}
	return out
}

func materialiseOrd(path string, n *node, ord string) {
	switch n.Kind {
	case 'f':
		must(os.WriteFile(path, []byte(n.Content), 0o644))
	case 'l':
		must(os.Symlink(n.Target, path))
	case 'd':
		must(os.Mkdir(path, 0o755))
		for _, k := range orderOf(n.Names, ord) {
			materialiseOrd(filepath.Join(path, k), n.Kids[k], ord)
		}
	}
}

type variant struct {
	Base string `json:"base"` // "shm" | "disk"
	Ord  string `json:"ord"`
}

func streamVariant(n *node, v variant) string {
	r := root
	if v.Base == "disk" {
		r = diskRoot
	}
	counter++
	rel := fmt.Sprintf("v%d", counter)
	materialiseOrd(filepath.Join(r, rel), n, v.Ord)
	defer os.RemoveAll(filepath.Join(r, rel))
	must(os.Chdir(r))
	defer os.Chdir(root)
	st, err := hashOnce(r, rel)
	if err != nil {
		panic(err)
	}
	return st
}

func variants(r *lib.Rng) []variant {
	out := []variant{}
	for _, b := range []string{"shm", "disk"} {
		if b == "disk" && diskRoot == "" {
			continue
		}
		out = append(out, variant{b, "asc"}, variant{b, "desc"}, variant{b, fmt.Sprintf("shuf%d", r.Intn(1000))})
	}
	return out
}

const (
	clsOrder    = "dir-hash-depends-on-creation-order"
	clsPermuted = "dir-contents-permuted-same-hash"
)

// (a) one tree, several creation orders / file systems: one stream
func checkSameTree(c *lib.Ctx, t *node, vs []variant) {
	first := ""
	for i, v := range vs {
		st := streamVariant(t, v)
		c.Oracle()
		if i == 0 {
			first = st
		} else if st != first {
			c.Fail(clsOrder, fmt.Sprintf("the same tree hashes %q created %v and %q created %v", first, vs[0], st, v),
				map[string]any{"kind": "order", "tree": t.js(), "variants": []variant{vs[0], v}})
			return
		}
	}
}

// (b) two trees whose contents are permuted relative to name order: never one stream
func checkPermuted(c *lib.Ctx, a, b *node, vs []variant) {
	sa := map[string]variant{}
	for _, v := range vs {
		sa[streamVariant(a, v)] = v
	}
	for _, v := range vs {
		st := streamVariant(b, v)
		c.Oracle()
		if va, ok := sa[st]; ok {
			c.Fail(clsPermuted, fmt.Sprintf("trees with permuted file contents share the hash input %q", st),
				map[string]any{"kind": "order-pair", "a": a.js(), "b": b.js(), "va": va, "vb": v})
			return
		}
	}
}

var orderNames = []string{"a", "b", "c", "d", "e", "f", "aa", "ab", "ba", "zz", "m1", "m2", "k", "q", "x.txt", "y.txt", "lib.a", "main.go", "BUILD", "README", "0", "9", "_", "Z"}

func runOrder(c *lib.Ctx, add func(t *node, shuffle *lib.Rng, how string)) {
	d, err := os.MkdirTemp("", "c09disk-")
	if err == nil {
		if r, err := filepath.EvalSymlinks(d); err == nil {
			d = r
		}
		diskRoot = d
		defer os.RemoveAll(d)
	}
	nSame, nPerm := c.Scale(40, 400), c.Scale(60, 600)
	for i := 0; i < nSame; i++ {
		r := c.Rng.Fork()
		t := dir()
		for len(t.Names) < 2 {
			t = randTree(r, r.Range(1, 2))
			if t.Kind != 'd' {
				t = dir()
			}
		}
		add(t, r, "order")
		checkSameTree(c, t, variants(r))
		c.HistN("order_entries", len(t.Names))
	}
	for i := 0; i < nPerm; i++ {
		r := c.Rng.Fork()
		k := r.Range(2, 4)
		names := append([]string{}, orderNames...)
		lib.Shuffle(r, names)
		na := append([]string{}, names[:k]...)
		nb := na
		if i%2 == 1 {
			nb = append([]string{}, names[k:2*k]...) // other names: on a hash-ordered directory the two read orders are independent
		}
		sort.Strings(na)
		sort.Strings(nb)
		perm := r.Range(1, k-1) // rotate contents by perm positions: a permutation without being the identity
		a, b := dir(), dir()
		for j := 0; j < k; j++ {
			a.set(na[j], file(fmt.Sprintf("%d", j+1)))
			b.set(nb[j], file(fmt.Sprintf("%d", (j+perm)%k+1)))
		}
		add(a, nil, "permuted")
		add(b, nil, "permuted")
		checkPermuted(c, a, b, variants(r))
		c.HistN("permuted_entries", k)
	}
	c.Note("creation order: %d trees x up to 6 (file system, creation order) variants; %d pairs with permuted contents (disk root %q)", nSame, nPerm, diskRoot)
}

// ---------------------------------------------------------------------------------------------
// (C) the memo: one long-lived hasher, random operation sequences

type mop struct {
	Op     string `json:"op"` // write remove copyfs hash movehash copyhash sethash moveoutput
	P      string `json:"p"`  // key (path relative to the root)
	Q      string `json:"q,omitempty"`
	PAbs   bool   `json:"pabs,omitempty"` // spell P / Q as absolute paths under the root
	QAbs   bool   `json:"qabs,omitempty"`
	Tree   any    `json:"tree,omitempty"`
	Recalc bool   `json:"recalc,omitempty"`
	Store  bool   `json:"store,omitempty"`
	Val    string `json:"val,omitempty"` // sethash: the stream whose digest is set
}

var memoKeys = []string{"plz-out/tmp/t/o1", "plz-out/tmp/t/o2", "plz-out/gen/p/o1", "plz-out/gen/p/o2", "plz-out/tmpx/o", "src/s1", "src/s2"}

type memoRun struct {
	h       *fs.PathHasher
	recs    []*recorder
	streams map[string]string // digest -> stream
	ghost   map[string]string // memo key -> absent|nil|valid|stale   (the protocol tracker; does not use the model)
	last    map[string]string // memo key -> last event that touched its entry
}

func newMemoRun() *memoRun {
	m := &memoRun{streams: map[string]string{}, ghost: map[string]string{}, last: map[string]string{}}
	m.h = fs.NewPathHasher(root, false, func() hash.Hash { r := &recorder{}; m.recs = append(m.recs, r); return r }, "sha1")
	return m
}

func spell(key string, abs bool) string {
	if abs {
		return filepath.Join(root, key)
	}
	return key
}

func (m *memoRun) g(k string) string {
	if s, ok := m.ghost[k]; ok {
		return s
	}
	return "absent"
}
func (m *memoRun) demote(k string) {
	if m.g(k) == "valid" {
		m.ghost[k] = "stale"
	}
}

func copyTree(src, dst string) {
	info, err := os.Lstat(src)
	must(err)
	switch {
	case info.Mode()&os.ModeSymlink != 0:
		t, err := os.Readlink(src)
		must(err)
		must(os.Symlink(t, dst))
	case info.IsDir():
		must(os.Mkdir(dst, 0o755))
		es, err := os.ReadDir(src)
		must(err)
		for i := len(es) - 1; i >= 0; i-- {
			copyTree(filepath.Join(src, es[i].Name()), filepath.Join(dst, es[i].Name()))
		}
	default:
		b, err := os.ReadFile(src)
		must(err)
		must(os.WriteFile(dst, b, 0o644))
	}
}

// fresh: what a brand-new hasher says about the path right now
func fresh(key string) (string, bool) {
	st, err := hashOnce(root, key)
	return st, err == nil
}
func exists(key string) bool { _, err := os.Lstat(filepath.Join(root, key)); return err == nil }

func (m *memoRun) ghostMove(ko, kn string, copy bool) {
	forget := func() {
		if !copy && strings.HasPrefix(ko, "plz-out/tmp") {
			m.ghost[ko] = "absent"
		}
	}
	switch m.g(ko) {
	case "valid":
		so, oko := fresh(ko)
		sn, okn := fresh(kn)
		if oko && okn && so == sn {
			m.ghost[kn] = "valid"
		} else {
			m.ghost[kn] = "stale"
		}
		forget()
	case "stale":
		m.ghost[kn] = "stale"
		forget()
	case "nil":
		m.ghost[kn] = "nil"
		forget()
	default:
		if copy {
			m.ghost[kn] = "nil"
		}
	}
}

type mres struct {
	coq     string // (op, obs, allowed)
	val     string
	isHash  bool
	ok      bool // Hash returned a value
	allowed bool
}

// do performs one operation on the real hasher / file system and advances the protocol tracker
func (m *memoRun) do(o mop) mres {
	kp, kq := o.P, o.Q
	ap, aq := spell(o.P, o.PAbs), spell(o.Q, o.QAbs)
	res := mres{allowed: true}
	obs := "ObsNone"
	var term string
	switch o.Op {
	case "write":
		t := fromJS(o.Tree)
		must(os.RemoveAll(filepath.Join(root, kp)))
		must(os.MkdirAll(filepath.Dir(filepath.Join(root, kp)), 0o755))
		materialise(filepath.Join(root, kp), t)
		m.demote(kp)
		term = lib.App("OWrite", lib.Str(ap), t.coq(nil))
	case "remove":
		must(os.RemoveAll(filepath.Join(root, kp)))
		m.demote(kp)
		term = lib.App("ORemove", lib.Str(ap))
	case "copyfs":
		if exists(kp) {
			if kp != kq {
				must(os.RemoveAll(filepath.Join(root, kq)))
				must(os.MkdirAll(filepath.Dir(filepath.Join(root, kq)), 0o755))
				copyTree(filepath.Join(root, kp), filepath.Join(root, kq))
			}
			m.demote(kq)
		}
		term = lib.App("OCopyFs", lib.Str(ap), lib.Str(aq))
	case "hash":
		res.isHash = true
		res.allowed = o.Recalc || m.g(kp) != "stale"
		n := len(m.recs)
		digest, err := m.h.Hash(ap, o.Recalc, o.Store, false)
		re := len(m.recs) > n
		if re {
			last := m.recs[len(m.recs)-1]
			d := sha1.Sum(last.buf)
			m.streams[string(d[:])] = string(last.buf)
			if len(m.recs) != n+1 {
				panic("Hash created more than one hash")
			}
		}
		if err != nil {
			obs = "ObsErr"
		} else {
			st, known := m.streams[string(digest)]
			if !known {
				panic(fmt.Sprintf("Hash(%s) returned a digest that is neither computed by this hasher nor set: %x", ap, digest))
			}
			res.ok, res.val = true, st
			obs = lib.App("ObsVal", lib.Str(st), lib.Bool(re))
		}
		if exists(kp) {
			m.ghost[kp] = "valid"
		}
		term = lib.App("OHash", lib.Str(ap), lib.Bool(o.Recalc))
	case "movehash":
		m.ghostMove(kp, kq, false)
		m.h.MoveHash(ap, aq)
		term = lib.App("OMoveHash", lib.Str(ap), lib.Str(aq))
	case "copyhash":
		m.ghostMove(kp, kq, true)
		m.h.CopyHash(ap, aq)
		term = lib.App("OCopyHash", lib.Str(ap), lib.Str(aq))
	case "sethash":
		d := sha1.Sum([]byte(o.Val))
		m.streams[string(d[:])] = o.Val
		status := "stale"
		if !o.PAbs { // SetHash does not normalise its path: an absolute spelling is another memo key
			if st, ok := fresh(kp); ok && st == o.Val {
				status = "valid"
			}
		}
		m.h.SetHash(ap, d[:])
		m.ghost[ap] = status
		term = lib.App("OSetHash", lib.Str(ap), lib.Str(o.Val))
	case "moveoutput":
		if exists(kp) && kp != kq {
			away := func(x string) string {
				if strings.HasPrefix(kp, "plz-out/tmp") {
					return "absent"
				}
				return x
			}
			switch m.g(kp) {
			case "valid":
				m.ghost[kq], m.ghost[kp] = "valid", away("stale")
			case "stale":
				m.ghost[kq], m.ghost[kp] = "stale", away("stale")
			case "nil":
				m.ghost[kq], m.ghost[kp] = "nil", away("nil")
			default:
				m.demote(kq)
			}
			// build.moveOutput
			m.h.MoveHash(ap, aq)
			must(os.RemoveAll(filepath.Join(root, kq)))
			must(os.MkdirAll(filepath.Dir(filepath.Join(root, kq)), 0o755))
			must(os.Rename(filepath.Join(root, kp), filepath.Join(root, kq)))
		}
		term = lib.App("OMoveOutput", lib.Str(ap), lib.Str(aq))
	default:
		panic("unknown memo op " + o.Op)
	}
	switch o.Op { // the last memo operation (other than Hash) that touched the entry of a key
	case "movehash", "copyhash", "moveoutput":
		m.last[kp], m.last[kq] = o.Op, o.Op
	case "sethash":
		m.last[kp] = o.Op
	}
	res.coq = "(" + term + ", " + obs + ", " + lib.Bool(res.allowed) + ")"
	return res
}

// memoFailure: the first Hash (inside the protocol) whose answer is not the hash of what is at the path now
type memoFailure struct {
	at    int
	class string
	what  string
}

// runMemoSeq executes a sequence on one fresh long-lived hasher; returns the Coq trace, whether the
// protocol was followed throughout, and the first oracle failure (nil if none)
func runMemoSeq(c *lib.Ctx, ops []mop) (trace []string, followed bool, fail *memoFailure) {
	clean := func() {
		for _, k := range []string{"plz-out", "src"} {
			os.RemoveAll(filepath.Join(root, k))
		}
	}
	clean()
	defer clean()
	m := newMemoRun()
	followed = true
	for i, o := range ops {
		lastEv := m.last[o.P]
		r := m.do(o)
		trace = append(trace, r.coq)
		if c != nil {
			c.Hist("memo_op", o.Op)
		}
		if !r.isHash {
			continue
		}
		if !r.allowed {
			followed = false
		}
		if !followed || fail != nil {
			if c != nil {
				c.Hist("memo_hash", "outside-protocol")
			}
			continue
		}
		// the oracle: the protocol was followed so far, so the recorded hash must be the hash of what is there now
		if c != nil {
			c.Oracle()
		}
		want, wok := fresh(o.P)
		if lastEv == "" {
			lastEv = "rewrite"
		}
		switch {
		case r.ok && wok && r.val != want:
			fail = &memoFailure{i, "stale-memoised-hash-after-" + lastEv,
				fmt.Sprintf("operation %d: Hash(%s, recalc=%v) returned the hash of %q, the path now holds %q", i, o.P, o.Recalc, r.val, want)}
		case r.ok != wok:
			fail = &memoFailure{i, "memoised-hash-for-missing-path-after-" + lastEv,
				fmt.Sprintf("operation %d: Hash(%s, recalc=%v) ok=%v, a fresh hasher ok=%v", i, o.P, o.Recalc, r.ok, wok)}
		default:
			if c != nil {
				c.Hist("memo_hash", map[bool]string{true: "value", false: "error"}[r.ok])
			}
		}
	}
	return trace, followed, fail
}

// shrinkMemo: greedy one-pass removal of operations that are not needed for a failure of the same class
func shrinkMemo(ops []mop, f *memoFailure) ([]mop, *memoFailure) {
	cur, curF := append([]mop{}, ops[:f.at+1]...), f
	for i := len(cur) - 2; i >= 0; i-- {
		cand := append(append([]mop{}, cur[:i]...), cur[i+1:]...)
		if _, _, g := runMemoSeq(nil, cand); g != nil && g.class == f.class {
			cur, curF = cand[:g.at+1], g
			if i > len(cur)-1 {
				i = len(cur) - 1
			}
		}
	}
	return cur, curF
}

func reportMemo(c *lib.Ctx, ops []mop, f *memoFailure) {
	if f == nil {
		return
	}
	small, g := shrinkMemo(ops, f)
	c.Fail(g.class, g.what, map[string]any{"kind": "memo", "ops": small})
}

var memoTrees = []*node{file("v1"), file("v2"), file(""), file("\x02a"), link("a"), link("b"), dir("a", file("v1")), dir("a", file("v2")),
	dir("a", file("v"), "b", file("1")), dir(), dir("l", link("a"), "f", file("x"))}

func genMemoSeq(r *lib.Rng) []mop {
	var ops []mop
	// shadow of what exists and a private copy of the protocol status, so that most sequences stay inside the protocol
	have := map[string]*node{}
	pk := func() string { return lib.Pick(r, memoKeys) }
	abs := func() bool { return r.Chance(1, 4) }
	tree := func() *node { return lib.Pick(r, memoTrees) }
	n := r.Range(8, 30)
	for len(ops) < n {
		switch k := r.Intn(20); {
		case k < 4: // build writes its temporary outputs / a source is edited
			p, t := pk(), tree()
			have[p] = t
			ops = append(ops, mop{Op: "write", P: p, PAbs: abs(), Tree: t.js()})
		case k < 9:
			ops = append(ops, mop{Op: "hash", P: pk(), PAbs: abs(), Recalc: r.Chance(1, 4), Store: r.Bool()})
		case k < 13: // moveOutput as build_step.go does it: Hash(tmp); [Hash(real)]; MoveHash; Rename
			o, q := lib.Pick(r, memoKeys[:2]), lib.Pick(r, memoKeys[2:4])
			if r.Chance(1, 5) {
				o, q = pk(), pk()
			}
			if have[o] == nil {
				t := tree()
				have[o] = t
				ops = append(ops, mop{Op: "write", P: o, Tree: t.js()})
			}
			ops = append(ops, mop{Op: "hash", P: o, PAbs: abs(), Store: true})
			if have[q] != nil && r.Bool() {
				ops = append(ops, mop{Op: "hash", P: q, PAbs: abs(), Store: true})
			}
			if o != q {
				ops = append(ops, mop{Op: "moveoutput", P: o, Q: q, PAbs: abs(), QAbs: abs()})
				have[q], have[o] = have[o], nil
				if r.Chance(2, 3) { // the target is built again in the same process: same temporary path, other content
					t := tree()
					have[o] = t
					ops = append(ops, mop{Op: "write", P: o, Tree: t.js()}, mop{Op: "hash", P: o, PAbs: abs(), Store: true})
				}
			}
		case k < 14:
			ops = append(ops, mop{Op: "movehash", P: pk(), Q: pk(), PAbs: abs(), QAbs: abs()})
		case k < 16: // filegroup: copy the file, then CopyHash
			o, q := pk(), pk()
			if r.Bool() && have[o] != nil {
				have[q] = have[o]
				ops = append(ops, mop{Op: "copyfs", P: o, Q: q})
			}
			ops = append(ops, mop{Op: "copyhash", P: o, Q: q, PAbs: abs(), QAbs: abs()})
		case k < 18: // remote file: SetHash with the digest of what was downloaded (sometimes of something else)
			p := pk()
			t := have[p]
			if t == nil || r.Chance(1, 3) {
				t = tree()
				if r.Bool() {
					have[p] = t
					ops = append(ops, mop{Op: "write", P: p, Tree: t.js()})
				}
			}
			ops = append(ops, mop{Op: "sethash", P: p, PAbs: r.Chance(1, 6), Val: modelFreeStream(t)})
		case k < 19:
			p := pk()
			have[p] = nil
			ops = append(ops, mop{Op: "remove", P: p, PAbs: abs()})
		default:
			ops = append(ops, mop{Op: "hash", P: pk(), Recalc: true})
		}
	}
	return ops
}

// the stream of a tree as a fresh hasher computes it (used to choose SetHash values)
var streamCache = map[string]string{}

func modelFreeStream(t *node) string {
	if s, ok := streamCache[t.key()]; ok {
		return s
	}
	s := realStream(t)
	streamCache[t.key()] = s
	return s
}

func runMemo(c *lib.Ctx) {
	n := c.Scale(160, 2500)
	nFollowed, nOps := 0, 0
	for i := 0; i < n; i++ {
		r := c.Rng.Fork()
		ops := genMemoSeq(r)
		if i%5 != 0 {
			ops = keepInProtocol(ops)
		}
		trace, followed, fail := runMemoSeq(c, ops)
		reportMemo(c, ops, fail)
		if followed {
			nFollowed++
		}
		nOps += len(ops)
		oldCase(c, lib.App("CMemo", lib.Str(root), lib.List(trace)), map[string]any{"kind": "memo", "ops": ops}, fmt.Sprintf("m%d", i), followed)
	}
	c.Note("memo: %d operation sequences (%d operations) on one long-lived hasher each, %d inside the protocol throughout", n, nOps, nFollowed)
}

// keepInProtocol rewrites Hash(p, recalc=false) on a stale path into recalc=true, by a dry run of the tracker
func keepInProtocol(ops []mop) []mop {
	for _, k := range []string{"plz-out", "src"} {
		os.RemoveAll(filepath.Join(root, k))
	}
	m := newMemoRun()
	out := make([]mop, 0, len(ops))
	for _, o := range ops {
		if o.Op == "hash" && !o.Recalc && m.g(o.P) == "stale" {
			o.Recalc = true
		}
		m.do(o)
		out = append(out, o)
	}
	return out
}

// ---------------------------------------------------------------------------------------------
// replay of one stored follow-up input

func replayFollowup(c *lib.Ctx, kind string, a, b, tree any, vs []variant, va, vb variant, ops []mop) {
	switch kind {
	case "top":
		setupExt()
		defer os.RemoveAll(ext)
		tops := []top{topFromJS(a), topFromJS(b)}
		obs := []topObs{observeTop(tops[0]), observeTop(tops[1])}
		for i, x := range tops {
			o := "None"
			if obs[i].ok {
				o = lib.Some(lib.Str(obs[i].stream))
			}
			oldCase(c, lib.App("CTop", lib.Str(root), x.coq(obs[i]), o), x.js(), "t"+x.key(), true)
		}
		checkTopPairs(c, tops, obs, 1)
	case "order", "order-pair":
		if d, err := os.MkdirTemp("", "c09disk-"); err == nil {
			if r, err := filepath.EvalSymlinks(d); err == nil {
				d = r
			}
			diskRoot = d
			defer os.RemoveAll(d)
		}
		if kind == "order" {
			checkSameTree(c, fromJS(tree), vs)
		} else {
			ta, tb := fromJS(a), fromJS(b)
			sa, sb := streamVariant(ta, va), streamVariant(tb, vb)
			c.Oracle()
			if sa == sb {
				c.Fail(clsPermuted, fmt.Sprintf("trees with permuted file contents share the hash input %q", sa),
					map[string]any{"kind": "order-pair", "a": ta.js(), "b": tb.js(), "va": va, "vb": vb})
			}
		}
	case "memo":
		trace, followed, fail := runMemoSeq(c, ops)
		reportMemo(c, ops, fail)
		oldCase(c, lib.App("CMemo", lib.Str(root), lib.List(trace)), map[string]any{"kind": "memo", "ops": ops}, "m", followed)
	default:
		panic("unknown replay kind " + kind)
	}
}
