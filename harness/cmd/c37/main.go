// C37: command location expansions. Implementation side of the correspondence + property oracle.
//
// In-process: generated worlds (a current target with sources, tools and deps over a small graph of targets with
// one or several outputs, named outputs, entry points, binaries; package and file names over an alphabet that
// includes shell metacharacters) are built as real core.BuildTarget/BuildGraph values; core.ReplaceSequences /
// core.ReplaceTestSequences expand commands and core.IterSources lays out the build directory.  The oracle does
// not use the model: the world is materialised on disk the way IterSources says, and bash itself is asked, in the
// build directory, whether the expansion is the expected number of words and whether each word exists.
// End-to-end (needs the plz binary): a repository of genrules whose commands test their own expansions.
package main

import (
	"encoding/json"
	"fmt"
	"os"
	"os/exec"
	"path/filepath"
	"sort"
	"strings"
	"time"

	"verifharness/lib"

	"github.com/thought-machine/please/src/cli"
	"github.com/thought-machine/please/src/core"
)

// ---------------------------------------------------------------------------------------------------------------
// world description (also the JSON of a case / the child-process protocol)

type Tgt struct {
	Pkg    string              `json:"pkg"`
	Name   string              `json:"name"`
	Outs   []string            `json:"outs,omitempty"`  // unnamed declared outputs
	Named  map[string][]string `json:"named,omitempty"` // named outputs
	Eps    map[string]string   `json:"eps,omitempty"`   // entry points
	Binary bool                `json:"binary,omitempty"`
	Sub    string              `json:"sub,omitempty"` // subrepo ("" = the main repository)
	// Provides: language -> labels (package, name, subrepo); nil = no provides at all
	Provides map[string][][3]string `json:"provides,omitempty"`
}

type Input struct {
	Kind string `json:"kind"` // file | label | annot | syspath | sysfile
	Pkg  string `json:"pkg,omitempty"`
	Name string `json:"name,omitempty"`
	Ann  string `json:"ann,omitempty"`
	Path string `json:"path,omitempty"` // file name, system path or tool name
	Sub  string `json:"sub,omitempty"`  // subrepo of a label
}

type World struct {
	Self  Tgt         `json:"self"`
	Srcs  []Input     `json:"srcs,omitempty"`
	Tools []Input     `json:"tools,omitempty"`
	Deps  [][3]string `json:"deps,omitempty"` // package, name, subrepo
	Graph []Tgt       `json:"graph"`
	Root  string      `json:"root"`
	// require/provide (the extension): Requires of the current target and its data labels (each also a tool or a dep)
	Requires []string    `json:"requires,omitempty"`
	Data     [][3]string `json:"data,omitempty"`
}

func (t Tgt) label() string { return mkLabel(t.Sub, t.Pkg, t.Name).String() }

func mkLabel(sub, pkg, name string) core.BuildLabel {
	return core.BuildLabel{Subrepo: sub, PackageName: pkg, Name: name}
}

type built struct {
	state  *core.BuildState
	target *core.BuildTarget
	byLbl  map[string]*core.BuildTarget
}

func mkTarget(t Tgt) *core.BuildTarget {
	bt := core.NewBuildTarget(mkLabel(t.Sub, t.Pkg, t.Name))
	bt.IsBinary = t.Binary
	for _, o := range t.Outs {
		bt.AddOutput(o)
	}
	for _, n := range lib.SortedKeys(t.Named) {
		for _, o := range t.Named[n] {
			bt.AddNamedOutput(n, o)
		}
	}
	for _, n := range lib.SortedKeys(t.Eps) {
		bt.AddEntryPoint(n, t.Eps[n])
	}
	for _, lang := range lib.SortedKeys(t.Provides) {
		ls := []core.BuildLabel{}
		for _, l := range t.Provides[lang] {
			ls = append(ls, mkLabel(l[2], l[0], l[1]))
		}
		bt.AddProvide(lang, ls)
	}
	return bt
}

func mkInput(in Input, pkg string) core.BuildInput {
	switch in.Kind {
	case "file":
		return core.FileLabel{File: in.Path, Package: pkg}
	case "label":
		return mkLabel(in.Sub, in.Pkg, in.Name)
	case "annot":
		return core.AnnotatedOutputLabel{BuildLabel: mkLabel(in.Sub, in.Pkg, in.Name), Annotation: in.Ann}
	case "syspath":
		return core.SystemPathLabel{Name: in.Path, Path: []string{"/usr/local/bin", "/usr/bin", "/bin"}}
	case "sysfile":
		return core.SystemFileLabel{Path: in.Path}
	}
	panic("bad input kind " + in.Kind)
}

// build constructs the real graph the way the BUILD parser does: srcs, tools, outs, deps (populateTarget order).
func build(w *World) *built {
	state := core.NewDefaultBuildState()
	b := &built{state: state, byLbl: map[string]*core.BuildTarget{}}
	pkgs := map[string]*core.Package{}
	addPkg := func(t *core.BuildTarget) {
		key := t.Label.Subrepo + "\x00" + t.Label.PackageName
		p := pkgs[key]
		if p == nil {
			p = core.NewPackageSubrepo(t.Label.PackageName, t.Label.Subrepo)
			pkgs[key] = p
		}
		p.AddTarget(t)
	}
	for _, g := range w.Graph {
		t := mkTarget(g)
		state.Graph.AddTarget(t)
		addPkg(t)
		b.byLbl[g.label()] = t
	}
	self := core.NewBuildTarget(core.NewBuildLabel(w.Self.Pkg, w.Self.Name))
	for _, in := range w.Srcs {
		self.AddSource(mkInput(in, w.Self.Pkg))
	}
	for _, in := range w.Tools {
		self.AddTool(mkInput(in, w.Self.Pkg))
	}
	for _, d := range w.Data { // populateTarget: srcs, tools, data, ..., deps
		self.AddDatum(mkLabel(d[2], d[0], d[1]))
	}
	self.Requires = w.Requires
	self.IsBinary = w.Self.Binary
	for _, o := range w.Self.Outs {
		self.AddOutput(o)
	}
	for _, n := range lib.SortedKeys(w.Self.Eps) {
		self.AddEntryPoint(n, w.Self.Eps[n])
	}
	for _, d := range w.Deps {
		self.AddDependency(mkLabel(d[2], d[0], d[1]))
	}
	state.Graph.AddTarget(self)
	addPkg(self)
	for _, p := range pkgs {
		state.Graph.AddPackage(p)
	}
	if err := self.ResolveDependencies(state.Graph); err != nil {
		panic(err)
	}
	b.target = self
	b.byLbl[w.Self.label()] = self
	return b
}

type outcome struct {
	Kind string `json:"kind"` // text | err | fatal
	Text string `json:"text,omitempty"`
}

func (o outcome) coq() string {
	switch o.Kind {
	case "text":
		return lib.App("OText", lib.Str(o.Text))
	case "err":
		return "OErr"
	}
	return "OFatal"
}

func expand(b *built, test bool, cmd string) outcome {
	var text string
	var err error
	if test {
		text, err = core.ReplaceTestSequences(b.state, b.target, cmd)
	} else {
		text, err = core.ReplaceSequences(b.state, b.target, cmd)
	}
	if err != nil {
		return outcome{Kind: "err"}
	}
	return outcome{Kind: "text", Text: text}
}

type childReq struct {
	W    World  `json:"w"`
	Test bool   `json:"test"`
	Cmd  string `json:"cmd"`
}

// expandInChild runs the expansion in a fresh process: log.Fatalf (unknown entry point) ends the process.
func expandInChild(w *World, test bool, cmd string) outcome {
	req, _ := json.Marshal(childReq{W: *w, Test: test, Cmd: cmd})
	c := exec.Command(os.Args[0])
	c.Env = append(os.Environ(), "C37_CHILD="+string(req))
	c.Dir = w.Root
	out, err := c.Output()
	var o outcome
	if json.Unmarshal(out, &o) == nil && o.Kind != "" {
		return o
	}
	if err != nil {
		return outcome{Kind: "fatal"}
	}
	panic("child gave no answer: " + string(out))
}

func childMain(req string) {
	var r childReq
	if err := json.Unmarshal([]byte(req), &r); err != nil {
		panic(err)
	}
	o := expand(build(&r.W), r.Test, r.Cmd)
	data, _ := json.Marshal(o)
	os.Stdout.Write(data)
}

// ---------------------------------------------------------------------------------------------------------------
// Coq printers

func coqLbl(pkg, name, sub string) string {
	return "(" + lib.Str(pkg) + ", " + lib.Str(name) + ", " + lib.Str(sub) + ")"
}

func coqTgt(t Tgt, outs []string) string {
	named := []string{}
	for _, n := range lib.SortedKeys(t.Named) {
		named = append(named, lib.Pair(lib.Str(n), lib.StrList(t.Named[n])))
	}
	eps := []string{}
	for _, n := range lib.SortedKeys(t.Eps) {
		eps = append(eps, lib.Pair(lib.Str(n), lib.Str(t.Eps[n])))
	}
	return lib.App("T", coqLbl(t.Pkg, t.Name, t.Sub), lib.StrList(outs), lib.List(named), lib.List(eps), lib.Bool(t.Binary))
}

func coqInput(in Input) string {
	switch in.Kind {
	case "file":
		return lib.App("IFile", lib.Str(in.Path))
	case "label":
		return lib.App("ILabel", coqLbl(in.Pkg, in.Name, in.Sub))
	case "annot":
		return lib.App("IAnnot", coqLbl(in.Pkg, in.Name, in.Sub), lib.Str(in.Ann))
	}
	return lib.App("ISys", lib.Str(in.Path))
}

func coqWorld(w *World, b *built) string {
	ins := func(xs []Input) string {
		out := []string{}
		for _, x := range xs {
			out = append(out, coqInput(x))
		}
		return lib.List(out)
	}
	deps := []string{}
	for _, d := range w.Deps {
		deps = append(deps, coqLbl(d[0], d[1], d[2]))
	}
	graph := []string{}
	for _, g := range w.Graph {
		graph = append(graph, coqTgt(g, b.byLbl[g.label()].Outputs())) // Outputs(): observed (sorted, named included)
	}
	return lib.App("mk_world", coqTgt(w.Self, b.target.Outputs()), ins(w.Srcs), ins(w.Tools), lib.List(deps), lib.List(graph), lib.Str(w.Root))
}

// ---------------------------------------------------------------------------------------------------------------
// generator

var pkgPool = []string{"p", "q/r", "", "a b", "s;t", "m<n>", "p", "q/r", "lib/x"}
var basePool = []string{"o.txt", "sub/o2.txt", "a b.txt", "a;b.txt", "x$y", "q'q", "w\"w", "l<r>", "s*r", "h#h", "e=e", "b\\s",
	"t\tt", "o3", "dir/in/o4.bin", "u&v", "p|q", "(x)", "o5.txt", "o6", "bq`c", "~t", "y.x"}
var filePool = []string{"f.txt", "d/g.txt", "a b.c", "h;i.c", "j$k.c", "l.c"}

// the characters the task calls shell metacharacters, and the set `quote` is documented to handle
const shellSpecial = " \t\n|&;()<>$`\\\"'*?[#~=%{}"
const documentedQuoteSet = "|&;()<>"

// subrepo names: a vendored tree, an architecture (the cross-compile case of the TODO in replaceSequenceLabel), a short one
var subPool = []string{"third_party/sub", "freebsd_amd64", "vend"}

// name modes of a world: every pool entry / plain names only / plain names and the operators quote is documented to handle
const (
	namesAll = iota
	namesPlain
	namesOperators
)

func genWorld(r *lib.Rng, root string, mode int, subrepos bool) *World {
	pick := func(pool []string) string {
		for {
			x := lib.Pick(r, pool)
			switch {
			case mode == namesPlain && strings.ContainsAny(x, shellSpecial):
			case mode == namesOperators && hasUnhandledSpecial([]string{x}):
			case mode == namesOperators && !strings.ContainsAny(x, documentedQuoteSet) && r.Chance(1, 2): // lean towards operators
			default:
				return x
			}
		}
	}
	w := &World{Root: root}
	w.Self = Tgt{Pkg: pick(pkgPool), Name: "gen", Outs: []string{"gen.out"}}
	if r.Chance(1, 4) {
		w.Self.Binary = true
	}
	n := r.Range(3, 6)
	for i := 0; i < n; i++ {
		t := Tgt{Name: fmt.Sprintf("d%d", i)}
		if r.Chance(1, 3) {
			t.Pkg = w.Self.Pkg
		} else {
			t.Pkg = pick(pkgPool)
		}
		if subrepos && r.Chance(1, 3) {
			t.Sub = lib.Pick(r, subPool)
		}
		nout := r.Range(1, 3)
		if r.Chance(1, 2) && mode != namesOperators {
			nout = 1
		}
		all := []string{}
		for k := 0; k < nout; k++ {
			o := fmt.Sprintf("%s_%d_", t.Name, k) + pick(basePool)
			all = append(all, o)
		}
		if nout >= 2 && r.Chance(1, 2) {
			t.Named = map[string][]string{"n1": {all[0]}, "n2": all[1:]}
			if r.Chance(1, 2) {
				t.Outs = []string{t.Name + "_plain.o"}
				all = append(all, t.Outs[0])
			}
		} else {
			t.Outs = all
		}
		t.Binary = r.Chance(1, 2)
		if r.Chance(1, 2) {
			t.Eps = map[string]string{"main": lib.Pick(r, all)}
		}
		w.Graph = append(w.Graph, t)
	}
	if subrepos {
		// twins: the same package:name in another repository (main repository <-> subrepo, subrepo <-> subrepo), with
		// outputs of its own; whether either of them is a dependency is decided independently below
		n0 := len(w.Graph)
		for i := 0; i < n0; i++ {
			if !r.Chance(2, 3) {
				continue
			}
			tw := w.Graph[i]
			for tw.Sub == w.Graph[i].Sub {
				tw.Sub = lib.Pick(r, append([]string{"", ""}, subPool...))
			}
			tw.Outs, tw.Named, tw.Eps = []string{tw.Name + "_twin.o"}, nil, nil
			if r.Chance(1, 3) {
				tw.Outs = append(tw.Outs, tw.Name+"_twin2.o")
			}
			w.Graph = append(w.Graph, tw)
		}
	}
	// roles
	for _, t := range w.Graph {
		switch r.Intn(9) {
		case 0, 1:
			w.Srcs = append(w.Srcs, Input{Kind: "label", Pkg: t.Pkg, Name: t.Name, Sub: t.Sub})
		case 2:
			if t.Named != nil {
				w.Srcs = append(w.Srcs, Input{Kind: "annot", Pkg: t.Pkg, Name: t.Name, Sub: t.Sub, Ann: lib.Pick(r, []string{"n1", "n2"})})
			} else if t.Eps != nil {
				w.Srcs = append(w.Srcs, Input{Kind: "annot", Pkg: t.Pkg, Name: t.Name, Sub: t.Sub, Ann: "main"})
			} else {
				w.Srcs = append(w.Srcs, Input{Kind: "label", Pkg: t.Pkg, Name: t.Name, Sub: t.Sub})
			}
		case 3, 4:
			if t.Eps != nil && r.Bool() {
				w.Tools = append(w.Tools, Input{Kind: "annot", Pkg: t.Pkg, Name: t.Name, Sub: t.Sub, Ann: "main"})
			} else {
				w.Tools = append(w.Tools, Input{Kind: "label", Pkg: t.Pkg, Name: t.Name, Sub: t.Sub})
			}
		case 5:
			w.Deps = append(w.Deps, [3]string{t.Pkg, t.Name, t.Sub})
		case 6:
			w.Deps = append(w.Deps, [3]string{t.Pkg, t.Name, t.Sub})
			w.Srcs = append(w.Srcs, Input{Kind: "label", Pkg: t.Pkg, Name: t.Name, Sub: t.Sub})
		case 7:
			w.Deps = append(w.Deps, [3]string{t.Pkg, t.Name, t.Sub})
			w.Tools = append(w.Tools, Input{Kind: "label", Pkg: t.Pkg, Name: t.Name, Sub: t.Sub})
		case 8: // not a dependency at all
		}
	}
	for k := r.Intn(3); k > 0; k-- {
		f := pick(filePool)
		dup := false
		for _, s := range w.Srcs {
			dup = dup || (s.Kind == "file" && s.Path == f)
		}
		if !dup {
			w.Srcs = append(w.Srcs, Input{Kind: "file", Path: f})
		}
	}
	if r.Chance(1, 2) {
		w.Tools = append(w.Tools, Input{Kind: "syspath", Path: "bash"})
	}
	if r.Chance(1, 4) {
		w.Tools = append(w.Tools, Input{Kind: "sysfile", Path: "/usr/bin/env"})
	}
	return w
}

var kinds = []string{"location", "locations", "exe", "out_location", "out_locations", "out_exe", "dir", "out_dir"}

type seq struct {
	Kind string `json:"kind"`
	Arg  string `json:"arg"`
}

func (s seq) text() string { return "$(" + s.Kind + " " + s.Arg + ")" }

func labelArg(r *lib.Rng, w *World, t Tgt) string {
	a := t.label()
	if t.Sub != "" && r.Bool() {
		a = "@" + t.Sub + "//" + t.Pkg + ":" + t.Name
	}
	if t.Sub == "" && t.Pkg == w.Self.Pkg && r.Bool() {
		a = ":" + t.Name
	}
	switch r.Intn(14) {
	case 0, 1:
		a += "|main"
	case 2:
		if t.Named != nil {
			a += "|n1"
		} else {
			a += "|nosuch"
		}
	}
	return a
}

func genSeqs(r *lib.Rng, w *World, n int) []seq {
	out := []seq{}
	for i := 0; i < n; i++ {
		k := lib.Pick(r, kinds)
		switch c := r.Intn(20); {
		case c < 3 && w.hasSubrepos():
			// the same package:name under another repository: the twin if there is one, else a label that names nothing
			t := lib.Pick(r, w.Graph)
			for s0 := t.Sub; t.Sub == s0; {
				t.Sub = lib.Pick(r, append([]string{"", "", "elsewhere"}, subPool...))
			}
			t.Named, t.Eps = nil, nil
			out = append(out, seq{k, labelArg(r, w, t)})
		case c < 13:
			out = append(out, seq{k, labelArg(r, w, lib.Pick(r, w.Graph))})
		case c < 15:
			out = append(out, seq{k, lib.Pick(r, filePool)})
		case c == 15:
			out = append(out, seq{k, lib.Pick(r, []string{":gen", w.Self.label()})})
		case c == 16:
			out = append(out, seq{k, lib.Pick(r, []string{"bash", "/usr/bin/env", "/abs/path"})})
		case c == 17:
			out = append(out, seq{k, lib.Pick(r, []string{"//nosuch:target", ":missing", "//p:d0|", "@sub//p:d0", "///sub//p:d0", "//bad|pkg:x", ":", "//", "//p:..."})})
		default:
			// every declared thing once more, with the kind most likely to be valid
			t := lib.Pick(r, w.Graph)
			out = append(out, seq{lib.Pick(r, []string{"locations", "out_locations", "dir"}), t.label()})
		}
	}
	return out
}

// ---------------------------------------------------------------------------------------------------------------
// the specification side of the oracle (what SHOULD happen), written against the world description only

type roles struct{ plainSrc, namedSrc, epSrc, tool, dep bool }

func (w *World) find(sub, pkg, name string) *Tgt {
	for i := range w.Graph {
		if w.Graph[i].Sub == sub && w.Graph[i].Pkg == pkg && w.Graph[i].Name == name {
			return &w.Graph[i]
		}
	}
	return nil
}

// namedAnywhere: some target of the world has the package and name of the label in arg, in whatever repository.
func (w *World) namedAnywhere(arg string) bool {
	l, err := core.TryParseBuildLabel(strings.SplitN(arg, "|", 2)[0], w.Self.Pkg, "")
	if err != nil {
		return false
	}
	for _, t := range w.Graph {
		if t.Pkg == l.PackageName && t.Name == l.Name && t.Sub != l.Subrepo {
			return true
		}
	}
	return false
}

func (w *World) hasSubrepos() bool {
	for _, t := range w.Graph {
		if t.Sub != "" {
			return true
		}
	}
	return false
}

func (w *World) rolesOf(t *Tgt) roles {
	var ro roles
	for _, s := range w.Srcs {
		if s.Sub == t.Sub && s.Pkg == t.Pkg && s.Name == t.Name {
			switch {
			case s.Kind == "label":
				ro.plainSrc = true
			case s.Kind == "annot" && t.Eps[s.Ann] != "":
				ro.epSrc = true
			case s.Kind == "annot":
				ro.namedSrc = true
			}
		}
	}
	for _, s := range w.Tools {
		if (s.Kind == "label" || s.Kind == "annot") && s.Sub == t.Sub && s.Pkg == t.Pkg && s.Name == t.Name {
			ro.tool = true
		}
	}
	for _, d := range w.Deps {
		if d[0] == t.Pkg && d[1] == t.Name && d[2] == t.Sub {
			ro.dep = true
		}
	}
	return ro
}

func (ro roles) declared() bool { return ro.plainSrc || ro.namedSrc || ro.epSrc || ro.tool || ro.dep }

type expectation struct {
	valid  bool   // the sequence names a dependency with the right shape: it must expand
	skip   bool   // not a claim about dependency outputs (system tools, absolute paths)
	words  int    // number of paths
	inRepo bool   // paths are relative to the repository root (out_ forms) rather than to the build directory
	dirOf  string // for dir forms: a file that must exist below the directory
	names  []string
	paths  []string // the exact words the expansion must split into (only where no known finding applies)
	shape  string   // the known-finding shape this sequence has, if any
	why    string
	provided         bool // the dependency is replaced by the target it provides for the rule
	toolWithProvides bool // a tool that carries provides: must expand to the tool itself
}

// providedFor: what the declared dependency t is replaced by for the current rule (require/provide), if anything.
func (w *World) providedFor(t *Tgt, ro roles) ([][3]string, bool) {
	if t.Provides == nil || len(w.Requires) == 0 || ro.tool {
		return nil, false
	}
	for _, d := range w.Data {
		if d[0] == t.Pkg && d[1] == t.Name && d[2] == t.Sub {
			return nil, false
		}
	}
	out, found := [][3]string{}, false
	for _, req := range w.Requires {
		if ls, ok := t.Provides[req]; ok {
			out, found = append(out, ls...), true
		}
	}
	return out, found
}

func allOuts(b *built, t *Tgt) []string { return b.byLbl[t.label()].Outputs() }

func expect(w *World, b *built, s seq) expectation {
	runnable := s.Kind == "exe" || s.Kind == "out_exe"
	multiple := s.Kind == "locations" || s.Kind == "out_locations" || s.Kind == "dir" || s.Kind == "out_dir"
	dir := s.Kind == "dir" || s.Kind == "out_dir"
	outp := strings.HasPrefix(s.Kind, "out_")
	e := expectation{inRepo: outp}
	arg := s.Arg
	if core.LooksLikeABuildLabel(arg) {
		ep := ""
		if i := strings.IndexByte(arg, '|'); i >= 0 {
			ep = arg[i+1:]
			arg = arg[:i]
			if j := strings.IndexByte(ep, '|'); j >= 0 {
				ep = ep[:j]
			}
		}
		l, err := core.TryParseBuildLabel(arg, w.Self.Pkg, "")
		if err != nil {
			e.why = "not a label"
			return e
		}
		// label identity is (subrepo, package, name): nothing below may match across repositories
		if l.Subrepo == "" && l.PackageName == w.Self.Pkg && l.Name == w.Self.Name {
			// the rule's own outputs do not exist while its build command runs
			e.shape, e.why = "self-reference-in-build-command", "names the rule itself"
			return e
		}
		t := w.find(l.Subrepo, l.PackageName, l.Name)
		if t == nil {
			e.why = "no such target in that repository"
			return e
		}
		ro := w.rolesOf(t)
		if !ro.declared() {
			e.why = "not a dependency under that exact label (subrepo included)"
			return e
		}
		if sub, fired := w.providedFor(t, ro); fired {
			// the dependency is replaced by what it provides for the rule: that is what is built and linked into the
			// build directory. Tools and data are never replaced (the spec side of provideFor, from the world alone).
			if len(sub) == 0 {
				e.valid, e.skip, e.why = true, true, "a dependency that provides nothing for this rule"
				return e
			}
			if t = w.find(sub[0][2], sub[0][0], sub[0][1]); t == nil {
				panic("provided target missing from the world")
			}
			e.provided = true
		}
		if t.Provides != nil && ro.tool {
			e.toolWithProvides = true
		}
		outs := allOuts(b, t)
		e.names = append([]string{t.Pkg, t.Sub}, outs...)
		// where the outputs of t are: the build directory holds them under the package name (no subrepo), plz-out
		// under gen|bin/<subrepo>/<package>; tools are named by their absolute plz-out path
		kindDir := "gen"
		if t.Binary {
			kindDir = "bin"
		}
		base := t.Pkg
		if outp {
			base = filepath.Join("plz-out", kindDir, t.Sub, t.Pkg)
		}
		pathsOf := func(rel []string) []string {
			if dir {
				return []string{base}
			}
			ps := []string{}
			for _, o := range rel {
				ps = append(ps, filepath.Join(base, o))
			}
			return ps
		}
		if ep != "" {
			o, ok := t.Eps[ep]
			if !ok {
				e.why = "unknown entry point"
				return e
			}
			if runnable && !t.Binary {
				e.why = "not a binary"
				return e
			}
			e.valid, e.words = true, 1
			if dir {
				e.dirOf = o
			}
			if ro.tool && !outp {
				e.shape = "tool-entry-point-relative-path"
			} else if !outp && !ro.tool && !ro.plainSrc && !ro.epSrc && !ro.dep {
				e.shape = "named-output-source-lists-all-outputs"
			} else if !outp && dir && t.Pkg == "" {
				e.shape = "dir-of-root-package-empty"
			} else {
				e.paths = pathsOf([]string{o})
			}
			return e
		}
		if runnable && !t.Binary {
			e.why = "not a binary"
			return e
		}
		if !multiple && len(outs) != 1 {
			e.why = "wrong number of outputs"
			return e
		}
		e.valid, e.words = true, len(outs)
		if dir {
			e.words, e.dirOf = 1, outs[0]
		}
		if ro.tool {
			base = filepath.Join(w.Root, "plz-out", kindDir, t.Sub, t.Pkg)
		}
		if !ro.tool && !outp {
			if !ro.plainSrc && !ro.epSrc && !ro.dep {
				e.shape = "named-output-source-lists-all-outputs"
			} else if dir && t.Pkg == "" {
				e.shape = "dir-of-root-package-empty"
			}
		}
		if e.shape == "" {
			e.paths = pathsOf(outs)
		}
		return e
	}
	if runnable {
		for _, tl := range w.Tools {
			if (tl.Kind == "syspath" || tl.Kind == "sysfile") && tl.Path == arg {
				e.valid, e.skip = true, true
				return e
			}
		}
	}
	if strings.HasPrefix(arg, "/") {
		e.valid, e.skip = true, true
		return e
	}
	e.names = []string{w.Self.Pkg, arg}
	for _, sr := range w.Srcs {
		if sr.Kind == "file" && sr.Path == arg {
			e.valid, e.words = true, 1
			e.paths = []string{filepath.Join(w.Self.Pkg, arg)}
			return e
		}
	}
	e.shape, e.why = "undeclared-file-not-rejected", "a file that is not a source"
	return e
}

// hasUnhandledSpecial: some name involved contains a shell-special character that `quote` is not documented to handle.
func hasUnhandledSpecial(names []string) bool {
	for _, n := range names {
		for i := 0; i < len(n); i++ {
			if strings.IndexByte(shellSpecial, n[i]) >= 0 && strings.IndexByte(documentedQuoteSet, n[i]) < 0 {
				return true
			}
		}
	}
	return false
}

// ---------------------------------------------------------------------------------------------------------------
// materialising the world and asking bash

func writeFile(path string) {
	if err := os.MkdirAll(filepath.Dir(path), 0o755); err != nil {
		panic(err)
	}
	if err := os.WriteFile(path, []byte("x\n"), 0o644); err != nil {
		panic(err)
	}
}

// materialise writes the outputs of every target into plz-out, the source files into their package, and then links
// into the build directory exactly what core.IterSources yields. Returns the build directory and the tmp paths
// relative to it.
func materialise(w *World, b *built) (string, []string) {
	for _, g := range w.Graph {
		for _, o := range b.byLbl[g.label()].FullOutputs() {
			writeFile(filepath.Join(w.Root, o))
		}
	}
	for _, s := range w.Srcs {
		if s.Kind == "file" {
			writeFile(filepath.Join(w.Root, w.Self.Pkg, s.Path))
		}
	}
	tmpDir := b.target.TmpDir()
	if err := os.MkdirAll(filepath.Join(w.Root, tmpDir), 0o755); err != nil {
		panic(err)
	}
	rel := []string{}
	for src, tmp := range core.IterSources(b.state, b.state.Graph, b.target, false) {
		r, err := filepath.Rel(tmpDir, tmp)
		if err != nil {
			panic(err)
		}
		rel = append(rel, r)
		if filepath.IsAbs(src) {
			continue
		}
		from, to := filepath.Join(w.Root, src), filepath.Join(w.Root, tmp)
		if _, err := os.Stat(from); err != nil {
			continue
		}
		if err := os.MkdirAll(filepath.Dir(to), 0o755); err != nil {
			panic(err)
		}
		if err := os.Link(from, to); err != nil && !os.IsExist(err) {
			panic(err)
		}
	}
	sort.Strings(rel)
	return filepath.Join(w.Root, tmpDir), rel
}

type bashResult struct {
	ok      bool
	words   []string
	missing []string
	note    string
}

type bashQuery struct {
	dir, text, below string
	e                expectation
	cmd              string
	js               any
}

// askBashAll: for every query, `eval "set -- <text>"` in its directory; reports the words and which of them do not
// exist (for dir forms: under which `below` does not exist). One bash process; a syntax error stays inside its eval.
func askBashAll(scratch string, qs []bashQuery) []bashResult {
	res := make([]bashResult, len(qs))
	if len(qs) == 0 {
		return res
	}
	if err := os.MkdirAll(scratch, 0o755); err != nil {
		panic(err)
	}
	for k, q := range qs {
		for name, val := range map[string]string{"e": q.text, "d": q.dir, "b": q.below} {
			if err := os.WriteFile(filepath.Join(scratch, fmt.Sprintf("%s%d", name, k)), []byte(val), 0o644); err != nil {
				panic(err)
			}
		}
	}
	script := `k=0
while [ $k -lt $NQ ]; do
  IFS= read -r -d '' E < "$Q/e$k"; IFS= read -r -d '' D < "$Q/d$k"; IFS= read -r -d '' BELOW < "$Q/b$k"
  cd "$D" || exit 9
  printf 'Q %d\n' $k
  if eval "set -- $E" 2>"$Q/err"; then
    printf 'N %d\n' $#
    for f; do printf 'W %s\n' "$f"
      if [ -n "$BELOW" ]; then [ -e "$f/$BELOW" ] || printf 'M %s\n' "$f"; else [ -e "$f" ] || printf 'M %s\n' "$f"; fi
    done
  else
    IFS= read -r -d '' X < "$Q/err"; printf 'X %s\n' "${X//$'\n'/ }"
  fi
  k=$((k+1))
done
`
	c := exec.Command("/bin/bash", "--norc", "--noprofile", "-c", script)
	c.Dir = scratch
	c.Env = []string{"PATH=/usr/bin:/bin", "HOME=/nonexistent-verif-home", "LANG=C", "Q=" + scratch, fmt.Sprint("NQ=", len(qs))}
	out, err := c.Output()
	if err != nil {
		panic(fmt.Sprintf("bash oracle failed: %v\n%s", err, out))
	}
	k := -1
	for _, line := range strings.Split(string(out), "\n") {
		switch {
		case strings.HasPrefix(line, "Q "):
			fmt.Sscanf(line, "Q %d", &k)
		case k < 0:
		case strings.HasPrefix(line, "N "):
			res[k].ok = true
		case strings.HasPrefix(line, "W "):
			res[k].words = append(res[k].words, line[2:])
		case strings.HasPrefix(line, "M "):
			res[k].missing = append(res[k].missing, line[2:])
		case strings.HasPrefix(line, "X "):
			res[k].note = "bash: " + line[2:]
		}
	}
	return res
}

// bashWordsAll: the words bash makes of each text (for the tie of the model's splitter); ok=false when bash reports
// an error. One bash process, in an empty scratch directory (random texts may contain redirections).
func bashWordsAll(scratch string, texts []string) ([][]string, []bool) {
	words, oks := make([][]string, len(texts)), make([]bool, len(texts))
	if err := os.MkdirAll(filepath.Join(scratch, "cwd"), 0o755); err != nil {
		panic(err)
	}
	for k, x := range texts {
		if err := os.WriteFile(filepath.Join(scratch, fmt.Sprintf("e%d", k)), []byte(x), 0o644); err != nil {
			panic(err)
		}
	}
	script := `k=0
while [ $k -lt $NQ ]; do
  IFS= read -r -d '' E < "$Q/e$k"
  if eval "set -- $E" 2>/dev/null </dev/null; then printf 'N\0'; for f; do printf 'W%s\0' "$f"; done; else printf 'X\0'; fi
  k=$((k+1))
done
`
	c := exec.Command("/bin/bash", "--norc", "--noprofile", "-c", script)
	c.Dir = filepath.Join(scratch, "cwd")
	c.Env = []string{"PATH=/nonexistent-verif-path", "HOME=/nonexistent-verif-home", "LANG=C", "Q=" + scratch, fmt.Sprint("NQ=", len(texts))}
	out, _ := c.Output()
	k := -1
	for _, rec := range strings.Split(string(out), "\x00") {
		switch {
		case rec == "N":
			k++
			oks[k] = true
		case rec == "X":
			k++
		case strings.HasPrefix(rec, "W") && k >= 0:
			words[k] = append(words[k], rec[1:])
		}
	}
	if k != len(texts)-1 {
		panic(fmt.Sprintf("bash splitter oracle answered %d of %d texts", k+1, len(texts)))
	}
	os.RemoveAll(scratch)
	return words, oks
}

// ---------------------------------------------------------------------------------------------------------------

func main() {
	cli.InitLogging(cli.MinVerbosity - 1) // CRITICAL only: replaceSequencesInternal logs a stack trace for every rejected sequence
	if req := os.Getenv("C37_CHILD"); req != "" {
		childMain(req)
		return
	}
	lib.Main("C37", func(c *lib.Ctx) {
		c.Model("From PlzV Require Import Model.C37 Model.C37_Ext.", "C37_Ext.case", "C37_Ext.check")
		c.Rule("worlds: a current target with sources (files, labels, //x:y|named-output, //x:y|entry-point), tools (labels, |entry point, system tools) and deps " +
			"over 3-6 targets with 1-3 outputs, named output groups, entry points and the binary flag, package and file names over an alphabet with shell metacharacters (a third of the worlds: plain names only; a third: plain names and the operators |&;()<> only, several outputs per target, $(locations)/$(out_locations) of every declared multi-output source, dep and tool); " +
			"half of the worlds put a third of the targets into subrepos (a vendored tree, an architecture, a short name) and add twins: the same package:name in another repository, each declared or not independently, with sequences naming the undeclared side (///sub//p:n, @sub//p:n, //p:n, an unknown subrepo); " +
			"per world 10 single sequences (every keyword x label / :local / |entry point / file / self / system tool / malformed or foreign label) through core.ReplaceSequences, " +
			"2 composite commands, 1 test command through core.ReplaceTestSequences, and the core.IterSources layout; unknown entry points run in a child process (log.Fatalf). " +
			"oracle: the world is materialised on disk as IterSources says and bash, in the build directory (or the repo root for out_ forms), must make the expected number of words, each existing and (outside the known-finding shapes) each equal to the path computed from the world description (<pkg>/<out>, plz-out/gen|bin/<subrepo>/<pkg>/<out>, absolute for tools); a label is a dependency only under its exact (subrepo, package, name); " +
			"sequences that must be rejected must not expand. distinct = distinct (world, command); non-trivial = the sequence names a declared dependency or file and expands. " +
			"extension stream: worlds whose current target has requires (go / py,go / go,py / none) and whose tools and deps carry provides (a matching language, two, a non-matching one, an empty list) naming library targets of their own, a quarter of them also listed as data; every keyword on every such tool and dep through core.ReplaceSequences (a tool or data dependency must expand to itself, a plain dep to what it provides for the rule; same bash oracle); " +
			"and, on these and on plain worlds, $(worker W) ARGS [&& LOCAL] commands (W a binary tool, a system tool name, rarely a non-tool; ARGS and LOCAL built from valid and invalid sequences; spacing variants, a single &, text before the worker) through core.WorkerCommandAndArgs, core.TestWorkerCommand and core.ReplaceTestSequences: a command with an invalid sequence in either half must be rejected, a valid one must give exactly what core.ReplaceSequences gives for each half and the absolute path of the tool")

		if os.Getenv("C37_SKIP_INPROC") == "" {
			inProcess(c)
			if os.Getenv("C37_SKIP_EXT") == "" {
				extStream(c)
			}
		}
		splitterTie(c)
		if plz := os.Getenv("VERIF_PLZ"); plz != "" {
			endToEnd(c, plz)
		} else {
			c.Note("VERIF_PLZ not set: end-to-end part skipped")
		}
	})
}

func sameWords(a, b []string) bool {
	if len(a) != len(b) {
		return false
	}
	for i := range a {
		if a[i] != b[i] {
			return false
		}
	}
	return true
}

// pluralSeqs: $(locations) / $(out_locations) of declared targets with several outputs (sources, deps and tools).
func pluralSeqs(r *lib.Rng, w *World, n int) []seq {
	out := []seq{}
	for _, t := range w.Graph {
		if len(out) < n && len(t.Outs)+len(t.Named) >= 2 && w.rolesOf(&t).declared() {
			out = append(out, seq{lib.Pick(r, []string{"locations", "out_locations"}), t.label()})
		}
	}
	return out
}

type corpusWorld struct {
	w    func(root string) *World
	seqs []seq
}

// corpus: one world per known finding (DESIGN.md: the corpus is always run first), with valid neighbours.
var corpus = []corpusWorld{
	{func(root string) *World {
		return &World{Root: root, Self: Tgt{Pkg: "p", Name: "gen", Outs: []string{"gen.out"}},
			Srcs:  []Input{{Kind: "label", Pkg: "p", Name: "sp"}, {Kind: "annot", Pkg: "p", Name: "named", Ann: "n1"}, {Kind: "file", Path: "real.txt"}, {Kind: "label", Pkg: "p", Name: "semi"}},
			Tools: []Input{{Kind: "label", Pkg: "p", Name: "tool"}, {Kind: "syspath", Path: "bash"}},
			Deps:  [][3]string{{"q/r", "far", ""}},
			Graph: []Tgt{{Pkg: "p", Name: "sp", Outs: []string{"a b.txt"}}, {Pkg: "p", Name: "semi", Outs: []string{"se;mi.txt"}},
				{Pkg: "p", Name: "named", Named: map[string][]string{"n1": {"n1.txt"}, "n2": {"n2.txt"}}},
				{Pkg: "p", Name: "tool", Outs: []string{"bin/t.sh"}, Eps: map[string]string{"main": "bin/t.sh"}, Binary: true},
				{Pkg: "q/r", Name: "far", Outs: []string{"far1.txt", "far2.txt"}},
				{Pkg: "p", Name: "other", Outs: []string{"other.txt"}}}}
	}, []seq{{"location", ":sp"}, {"location", ":semi"}, {"locations", ":named"}, {"location", "real.txt"}, {"location", "unreal.txt"},
		{"exe", ":tool|main"}, {"exe", ":tool"}, {"out_exe", ":tool|main"}, {"locations", "//q/r:far"}, {"location", "//q/r:far"},
		{"location", ":other"}, {"location", ":gen"}, {"exe", "bash"}, {"dir", "//q/r:far"}}},
	{func(root string) *World {
		return &World{Root: root, Self: Tgt{Pkg: "", Name: "gen", Outs: []string{"gen.out"}},
			Srcs:  []Input{{Kind: "label", Pkg: "", Name: "rootdep"}, {Kind: "label", Pkg: "p", Name: "lib"}},
			Graph: []Tgt{{Pkg: "", Name: "rootdep", Outs: []string{"r.txt"}}, {Pkg: "p", Name: "lib", Outs: []string{"libdir/inner.txt"}, Eps: map[string]string{"main": "libdir/inner.txt"}}}}
	}, []seq{{"dir", ":rootdep"}, {"location", ":rootdep"}, {"out_dir", ":rootdep"}, {"location", "//p:lib|main"}, {"dir", "//p:lib|main"}, {"location", "//p:lib|nosuch"}}},
	// several outputs of which some need quotes (sources, deps and tools): one word per output, each quoted on its own
	{func(root string) *World {
		return &World{Root: root, Self: Tgt{Pkg: "path/to", Name: "gen", Outs: []string{"gen.out"}},
			Srcs:  []Input{{Kind: "label", Pkg: "path/to", Name: "amp"}, {Kind: "label", Pkg: "s;t", Name: "pk"}},
			Tools: []Input{{Kind: "label", Pkg: "path/to", Name: "tool2"}},
			Deps:  [][3]string{{"q/r", "par", ""}},
			Graph: []Tgt{{Pkg: "path/to", Name: "amp", Outs: []string{"b&b.txt", "plain.txt"}},
				{Pkg: "s;t", Name: "pk", Outs: []string{"one.txt", "two.txt", "th(r)ee.txt"}},
				{Pkg: "path/to", Name: "tool2", Outs: []string{"t;1.sh", "t2.sh"}, Binary: true},
				{Pkg: "q/r", Name: "par", Outs: []string{"x|y", "z<w>"}}}}
	}, []seq{{"locations", ":amp"}, {"out_locations", ":amp"}, {"locations", "//s;t:pk"}, {"out_locations", "//s;t:pk"},
		{"locations", ":tool2"}, {"out_locations", ":tool2"}, {"locations", "//q/r:par"}, {"out_locations", "//q/r:par"},
		{"dir", "//s;t:pk"}, {"location", ":amp"}}},
	// the same package:name in the main repository and in subrepos: only the exact label (subrepo included) is a dependency
	{func(root string) *World {
		return &World{Root: root, Self: Tgt{Pkg: "path/to", Name: "gen", Outs: []string{"gen.out"}},
			Srcs:  []Input{{Kind: "label", Pkg: "path/to", Name: "target2"}, {Kind: "label", Pkg: "q", Name: "lib", Sub: "vend"}},
			Tools: []Input{{Kind: "label", Pkg: "tools", Name: "tool"}, {Kind: "label", Pkg: "tools", Name: "xtool", Sub: "freebsd_amd64"}},
			Deps:  [][3]string{{"path/to", "dep3", "third_party/sub"}},
			Graph: []Tgt{{Pkg: "path/to", Name: "target2", Outs: []string{"t2.txt"}},
				{Pkg: "path/to", Name: "target2", Sub: "third_party/sub", Outs: []string{"t2sub.txt"}},
				{Pkg: "q", Name: "lib", Sub: "vend", Outs: []string{"l&1.a", "l2.a"}},
				{Pkg: "q", Name: "lib", Outs: []string{"l1.a"}},
				{Pkg: "tools", Name: "tool", Outs: []string{"tool.sh"}, Binary: true},
				{Pkg: "tools", Name: "tool", Sub: "freebsd_amd64", Outs: []string{"tool.sh"}, Binary: true},
				{Pkg: "tools", Name: "xtool", Sub: "freebsd_amd64", Outs: []string{"xtool.sh"}, Binary: true},
				{Pkg: "tools", Name: "xtool", Outs: []string{"xtool.sh"}, Binary: true},
				{Pkg: "path/to", Name: "dep3", Sub: "third_party/sub", Outs: []string{"d3.txt"}},
				{Pkg: "path/to", Name: "dep3", Outs: []string{"d3main.txt"}}}}
	}, []seq{{"location", "//path/to:target2"}, {"location", "///third_party/sub//path/to:target2"}, {"out_location", "@third_party/sub//path/to:target2"},
		{"locations", "///vend//q:lib"}, {"out_locations", "@vend//q:lib"}, {"locations", "//q:lib"},
		{"exe", "//tools:tool"}, {"exe", "///freebsd_amd64//tools:tool"}, {"exe", "///freebsd_amd64//tools:xtool"}, {"exe", "//tools:xtool"},
		{"location", "///third_party/sub//path/to:dep3"}, {"dir", ":dep3"}, {"out_dir", "///other//path/to:target2"}, {"dir", "///vend//q:lib"}}},
}

func inProcess(c *lib.Ctx) {
	nworlds := c.Scale(36, 900)
	cwd, _ := os.Getwd()
	defer os.Chdir(cwd)
	for i := 0; i < nworlds; i++ {
		r := c.Rng.Fork()
		root := filepath.Join(c.Out, fmt.Sprintf("w%d", i))
		if err := os.MkdirAll(root, 0o755); err != nil {
			panic(err)
		}
		if rr, err := filepath.EvalSymlinks(root); err == nil {
			root = rr
		}
		if err := os.Chdir(root); err != nil { // filepath.Abs in checkAndReplaceSequence uses the working directory
			panic(err)
		}
		mode, subrepos := []int{namesAll, namesPlain, namesOperators}[i%3], i%2 == 1
		w := genWorld(r, root, mode, subrepos)
		var fixed []seq
		if i < len(corpus) { // the witnesses of the known findings and their valid neighbours, always run first
			w, fixed = corpus[i].w(root), corpus[i].seqs
			mode = namesAll
		} else if mode == namesOperators {
			fixed = pluralSeqs(r, w, 4)
		}
		b := build(w)
		tmpAbs, layout := materialise(w, b)
		cw := coqWorld(w, b)
		c.Hist("world_names", []string{"with-metacharacters", "plain", "plain-and-operators"}[mode])
		c.Hist("world_repos", map[bool]string{true: "with-subrepos", false: "main-repository-only"}[w.hasSubrepos()])
		c.Case(lib.App("COld", lib.App("CLayout", cw, lib.StrList(layout))), map[string]any{"world": w, "layout": layout}, fmt.Sprint("L", i), len(layout) > 0)

		pending := []bashQuery{}
		for _, s := range append(fixed, genSeqs(r, w, max(10, len(fixed))-len(fixed))...) {
			cmd := s.text()
			e := expect(w, b, s)
			var o outcome
			if strings.Contains(s.Arg, "|") && !e.valid && (e.why == "unknown entry point" || w.namedAnywhere(s.Arg)) {
				// log.Fatalf on an unknown entry point ends the process; a sequence that should be rejected because the
				// label is a dependency only in another repository runs in a child too, so that a regression which
				// resolves it anyway is reported, not a crash
				o = expandInChild(w, false, cmd)
			} else {
				o = expand(b, false, cmd)
			}
			js := map[string]any{"world": w, "seq": s, "cmd": cmd, "outcome": o}
			c.Case(lib.App("COld", lib.App("CCmd", cw, "false", lib.Str(cmd), o.coq())), js, fmt.Sprint(i, cmd), e.valid && o.Kind == "text")
			c.Hist("sequence", s.Kind)
			c.Hist("outcome", o.Kind)
			judge(c, e, o, cmd, js, tmpAbs, root, &pending)
		}
		settle(c, root, pending)
		// composite commands: several sequences, text around them, escaped dollars
		for k := 0; k < 2; k++ {
			parts := []string{"cat"}
			for _, s := range genSeqs(r, w, r.Range(2, 4)) {
				if strings.Contains(s.Arg, "|") && !expect(w, b, s).valid {
					continue
				}
				parts = append(parts, s.text())
			}
			parts = append(parts, lib.Pick(r, []string{"> $OUT", "\\$HOME $(echo x)", "&& echo \\\\$ok", "$(location )", "$(dirs x) $(exe", "$(out_dir :gen"}))
			cmd := strings.Join(parts, " ")
			o := expand(b, false, cmd)
			c.Case(lib.App("COld", lib.App("CCmd", cw, "false", lib.Str(cmd), o.coq())), map[string]any{"world": w, "cmd": cmd, "outcome": o}, fmt.Sprint(i, cmd), o.Kind == "text")
		}
		// a test command (and the empty test command = $(exe :self))
		{
			cmd := ""
			if r.Chance(2, 3) {
				s := genSeqs(r, w, 1)[0]
				if !(strings.Contains(s.Arg, "|") && !expect(w, b, s).valid) {
					cmd = "run " + s.text()
				}
			}
			o := expand(b, true, cmd)
			c.Case(lib.App("COld", lib.App("CCmd", cw, "true", lib.Str(cmd), o.coq())), map[string]any{"world": w, "test": true, "cmd": cmd, "outcome": o}, fmt.Sprint(i, "T", cmd), o.Kind == "text")
		}
		os.Chdir(cwd)
		os.RemoveAll(root)
	}
}

// judge: the property oracle on one sequence (what can be decided without bash); the rest is queued for bash.
func judge(c *lib.Ctx, e expectation, o outcome, cmd string, js any, tmpAbs, root string, pending *[]bashQuery) {
	c.Oracle()
	switch {
	case e.skip:
	case !e.valid && o.Kind == "text":
		cls := e.shape
		if cls == "" {
			cls = "invalid-sequence-accepted"
		}
		c.Fail(cls, fmt.Sprintf("%s (%s) is not rejected: it expands to %q", cmd, e.why, o.Text), js)
	case e.valid && o.Kind != "text":
		cls := "valid-sequence-rejected"
		if e.toolWithProvides {
			cls = "tool-with-provides-substituted"
		}
		c.Fail(cls, fmt.Sprintf("%s names a dependency of the right shape but is rejected (%s)", cmd, o.Kind), js)
	case e.valid:
		dir := tmpAbs
		if e.inRepo {
			dir = root
		}
		*pending = append(*pending, bashQuery{dir: dir, text: o.Text, below: e.dirOf, e: e, cmd: cmd, js: js})
	}
}

// settle: one bash process per world answers all the queries (each text is parsed by `eval`, as `bash -c` would).
func settle(c *lib.Ctx, root string, pending []bashQuery) {
	for k, br := range askBashAll(filepath.Join(root, ".queries"), pending) {
		q := pending[k]
		if q.e.paths != nil && br.ok && len(br.missing) == 0 && len(br.words) == q.e.words && !sameWords(br.words, q.e.paths) {
			// model-independent: the words must be the paths at which the dependency's outputs are, one each
			cls := "expansion-words-are-not-the-output-paths"
			if hasUnhandledSpecial(q.e.names) {
				cls = "name-with-shell-char-outside-quote-set"
			} else if q.e.toolWithProvides {
				cls = "tool-with-provides-substituted"
			}
			c.Fail(cls, fmt.Sprintf("%s expands to %q: bash makes the words %q, the outputs are at %q", q.cmd, q.text, br.words, q.e.paths), q.js)
			c.Hist("oracle", "fails:"+cls)
		} else if !br.ok || len(br.words) != q.e.words || len(br.missing) > 0 {
			cls := q.e.shape
			if cls == "" && hasUnhandledSpecial(q.e.names) {
				cls = "name-with-shell-char-outside-quote-set"
			}
			if cls == "" && q.e.toolWithProvides {
				cls = "tool-with-provides-substituted"
			}
			if cls == "" {
				cls = "expansion-not-the-dependency-outputs"
			}
			c.Fail(cls, fmt.Sprintf("%s expands to %q: bash makes %d words %q (expected %d), missing %q %s", q.cmd, q.text, len(br.words), br.words, q.e.words, br.missing, br.note), q.js)
			c.Hist("oracle", "fails:"+cls)
		} else {
			c.Hist("oracle", "holds")
		}
	}
}

// ---------------------------------------------------------------------------------------------------------------
// extension: require/provide and $(worker ...) commands

func coqPx(w *World) string {
	provs := []string{}
	for _, g := range w.Graph {
		if g.Provides == nil {
			continue
		}
		langs := []string{}
		for _, lang := range lib.SortedKeys(g.Provides) {
			ls := []string{}
			for _, l := range g.Provides[lang] {
				ls = append(ls, coqLbl(l[0], l[1], l[2]))
			}
			langs = append(langs, lib.Pair(lib.Str(lang), lib.List(ls)))
		}
		provs = append(provs, lib.Pair(coqLbl(g.Pkg, g.Name, g.Sub), lib.List(langs)))
	}
	data := []string{}
	for _, d := range w.Data {
		data = append(data, coqLbl(d[0], d[1], d[2]))
	}
	return lib.App("mk_px", lib.StrList(w.Requires), lib.List(provs), lib.List(data))
}

// addProvides decorates a generated world: the current target requires languages, tools and deps (never sources)
// carry provides naming library targets of their own, some of them are also data.
func addProvides(r *lib.Rng, w *World) {
	w.Requires = lib.Pick(r, [][]string{{"go"}, {"go"}, {"py", "go"}, {"go", "py"}, nil})
	n0 := len(w.Graph)
	for i := 0; i < n0; i++ {
		t := &w.Graph[i]
		ro := w.rolesOf(t)
		if ro.plainSrc || ro.namedSrc || ro.epSrc || !r.Chance(2, 3) {
			continue
		}
		mkLib := func(tag string, nout int, binary bool) [3]string {
			l := Tgt{Pkg: t.Pkg, Name: t.Name + "_" + tag, Sub: t.Sub, Binary: binary}
			for k := 0; k < nout; k++ {
				l.Outs = append(l.Outs, fmt.Sprintf("%s_%s%d.a", t.Name, tag, k))
			}
			w.Graph = append(w.Graph, l)
			t = &w.Graph[i]
			return [3]string{l.Pkg, l.Name, l.Sub}
		}
		switch r.Intn(8) {
		case 0, 1, 2:
			t.Provides = map[string][][3]string{"go": {mkLib("golib", r.Range(1, 2), false)}}
		case 3:
			t.Provides = map[string][][3]string{"go": {mkLib("golib", 1, r.Bool())}, "py": {mkLib("pylib", r.Range(1, 2), false)}}
		case 4:
			t.Provides = map[string][][3]string{"py": {mkLib("pylib", 1, false)}}
		case 5:
			t.Provides = map[string][][3]string{"java": {mkLib("jlib", 1, false)}}
		case 6:
			t.Provides = map[string][][3]string{"go": {mkLib("golib", 1, false), mkLib("golib2", 1, false)}}
		case 7:
			t.Provides = map[string][][3]string{"go": {}}
		}
		if ro.declared() && r.Chance(1, 4) {
			w.Data = append(w.Data, [3]string{t.Pkg, t.Name, t.Sub})
		}
	}
}

type woutcome struct {
	Kind   string `json:"kind"` // ok | err | panic
	Worker string `json:"worker,omitempty"`
	Args   string `json:"args,omitempty"`
	Local  string `json:"local,omitempty"`
}

func (o woutcome) coq() string {
	switch o.Kind {
	case "ok":
		return lib.App("WOOk", lib.Str(o.Worker), lib.Str(o.Args), lib.Str(o.Local))
	case "err":
		return "WOErr"
	}
	return "WOPanic"
}

// runWorker: via = build (WorkerCommandAndArgs) | test (TestWorkerCommand) | testseq (ReplaceTestSequences)
func runWorker(b *built, via, cmd string) (o woutcome) {
	defer func() {
		if r := recover(); r != nil {
			o = woutcome{Kind: "panic"}
		}
	}()
	var worker, args, local string
	var err error
	switch via {
	case "build":
		b.target.Command = cmd
		worker, args, local, err = core.WorkerCommandAndArgs(b.state, b.target)
	case "test":
		b.target.Test = &core.TestFields{Command: cmd}
		worker, args, local, err = core.TestWorkerCommand(b.state, b.target)
		b.target.Test = nil
	default:
		local, err = core.ReplaceTestSequences(b.state, b.target, cmd)
	}
	if err != nil {
		return woutcome{Kind: "err"}
	}
	return woutcome{Kind: "ok", Worker: worker, Args: args, Local: local}
}

func quoteDoc(x string) string {
	if strings.ContainsAny(x, documentedQuoteSet) {
		return "\"" + x + "\""
	}
	return x
}

// usable sequences for worker commands: nothing that ends the process, no known-finding shape, no system tool
func workerSeqs(r *lib.Rng, w *World, b *built, wantValid bool) (seq, bool) {
	for try := 0; try < 60; try++ {
		s := genSeqs(r, w, 1)[0]
		e := expect(w, b, s)
		if e.skip || e.shape != "" || (strings.Contains(s.Arg, "|") && (!e.valid || e.toolWithProvides || e.provided)) || e.valid != wantValid {
			continue
		}
		return s, true
	}
	return seq{}, false
}

func workerCommands(c *lib.Ctx, r *lib.Rng, i int, w *World, b *built, cw, cpx string, n int) {
	// candidate workers
	type wk struct {
		text, want string
		valid      bool
	}
	cands := []wk{{"bash", "bash", true}, {"/usr/bin/env", "/usr/bin/env", true}}
	for _, g := range w.Graph {
		g := g
		ro := w.rolesOf(&g)
		outs := allOuts(b, &g)
		switch {
		case ro.tool && g.Binary && len(outs) == 1:
			cands = append(cands, wk{g.label(), quoteDoc(filepath.Join(w.Root, "plz-out/bin", g.Sub, g.Pkg, outs[0])), true}, wk{g.label(), quoteDoc(filepath.Join(w.Root, "plz-out/bin", g.Sub, g.Pkg, outs[0])), true})
		case !ro.declared() && r.Chance(1, 6):
			cands = append(cands, wk{g.label(), "", false})
		}
	}
	for k := 0; k < n; k++ {
		wkr := lib.Pick(r, cands)
		type half struct {
			text  string
			valid bool
		}
		mkHalf := func(lead string, invalidOdds int) half {
			h := half{text: lead, valid: true}
			for j := r.Range(1, 2); j > 0; j-- {
				want := !r.Chance(1, invalidOdds)
				s, ok := workerSeqs(r, w, b, want)
				if !ok {
					continue
				}
				h.text += " " + s.text()
				h.valid = h.valid && want
			}
			return h
		}
		args := mkHalf(lib.Pick(r, []string{"--in", "-o x", "\\$X"}), 3)
		local := half{valid: true}
		hasLocal := r.Chance(3, 4)
		if hasLocal {
			if r.Chance(1, 3) {
				local.text = "echo ok"
			} else {
				local = mkHalf("echo", 5)
			}
		}
		sp := func() string { return lib.Pick(r, []string{" ", " ", "  ", ""}) }
		cmd := "$(worker " + wkr.text + ")" + sp() + args.text
		shape := "worker"
		if hasLocal {
			cmd += sp() + "&&" + sp() + local.text
		}
		switch r.Intn(16) {
		case 0: // a single & is not the separator: the regular expression does not match, the command is an ordinary one
			cmd = "$(worker " + wkr.text + ") " + args.text + " & " + local.text
			shape = "single-ampersand"
		case 1: // something before the worker
			cmd = "x " + cmd
			shape = "preceded"
		case 2:
			cmd = "$(worker" + wkr.text + ") " + args.text // no space: HasPrefix in ReplaceTestSequences fires, the regex does not match
			shape = "no-space"
		}
		via := lib.Pick(r, []string{"build", "build", "test", "testseq"})
		o := runWorker(b, via, cmd)
		mode := "MWorker"
		if via == "testseq" {
			mode = "MTestSeq"
		}
		js := map[string]any{"world": w, "via": via, "cmd": cmd, "outcome": o, "args_valid": args.valid, "local_valid": local.valid, "worker_valid": wkr.valid}
		c.Case(lib.App("CWorker", cw, cpx, mode, lib.Str(cmd), o.coq()), js, fmt.Sprint(i, "K", via, cmd), o.Kind == "ok" && shape == "worker")
		c.Hist("worker_shape", shape)
		c.Hist("worker_via", via)
		c.Hist("worker_outcome", o.Kind)
		c.Hist("worker_halves", fmt.Sprintf("args-valid=%v,local-valid=%v", args.valid, local.valid))
		if shape != "worker" || !wkr.valid {
			continue
		}
		// ---- the property oracle on worker commands (no model involved)
		c.Oracle()
		switch {
		case (!args.valid || !local.valid) && o.Kind == "ok":
			which := "after"
			if !args.valid {
				which = "before"
			}
			c.Fail("worker-command-invalid-sequence-accepted", fmt.Sprintf("%s has an invalid sequence %s && but is accepted: worker %q args %q local %q", cmd, which, o.Worker, o.Args, o.Local), js)
		case args.valid && local.valid && o.Kind != "ok":
			c.Fail("worker-command-valid-rejected", fmt.Sprintf("%s has only valid sequences but is rejected (%s)", cmd, o.Kind), js)
		case o.Kind == "ok":
			wantArgs, err1 := core.ReplaceSequences(b.state, b.target, strings.TrimSpace(args.text))
			wantLocal, err2 := core.ReplaceSequences(b.state, b.target, local.text)
			if via == "testseq" {
				if err2 != nil || o.Local != wantLocal {
					c.Fail("worker-halves-differ-from-plain-expansion", fmt.Sprintf("%s: local part %q, the same text as an ordinary command gives %q", cmd, o.Local, wantLocal), js)
				}
			} else if err1 != nil || err2 != nil || o.Args != wantArgs || o.Local != wantLocal {
				c.Fail("worker-halves-differ-from-plain-expansion", fmt.Sprintf("%s: args %q local %q, the same texts as ordinary commands give %q and %q", cmd, o.Args, o.Local, wantArgs, wantLocal), js)
			} else if o.Worker != wkr.want {
				c.Fail("worker-not-the-tool-output", fmt.Sprintf("%s: worker %q, the tool is at %q", cmd, o.Worker, wkr.want), js)
			}
			for _, kw := range kinds {
				if strings.Contains(o.Args+" "+o.Local, "$("+kw+" ") {
					c.Fail("worker-command-unexpanded-sequence", fmt.Sprintf("%s leaves a sequence unexpanded: args %q local %q", cmd, o.Args, o.Local), js)
					break
				}
			}
		}
	}
}

// the witness of the tool guard of provideFor and its neighbours (always run first)
func provideCorpus(root string) (*World, []seq) {
	w := &World{Root: root, Self: Tgt{Pkg: "path/to", Name: "gen", Outs: []string{"gen.out"}}, Requires: []string{"go"},
		Tools: []Input{{Kind: "label", Pkg: "tools", Name: "gen"}, {Kind: "label", Pkg: "tools", Name: "plain"}},
		Deps:  [][3]string{{"lib", "dep", ""}, {"lib", "ddep", ""}, {"lib", "other", ""}},
		Data:  [][3]string{{"lib", "ddep", ""}},
		Graph: []Tgt{
			{Pkg: "tools", Name: "gen", Outs: []string{"gen.sh"}, Binary: true, Provides: map[string][][3]string{"go": {{"tools", "gen_lib", ""}}}},
			{Pkg: "tools", Name: "gen_lib", Outs: []string{"gen_lib.a"}},
			{Pkg: "tools", Name: "plain", Outs: []string{"plain.sh"}, Binary: true},
			{Pkg: "lib", Name: "dep", Outs: []string{"dep.txt"}, Provides: map[string][][3]string{"go": {{"lib", "dep_go", ""}}, "py": {{"lib", "dep_py", ""}}}},
			{Pkg: "lib", Name: "dep_go", Outs: []string{"dep_go.a", "dep_go.b"}},
			{Pkg: "lib", Name: "dep_py", Outs: []string{"dep.py"}},
			{Pkg: "lib", Name: "ddep", Outs: []string{"ddep.txt"}, Provides: map[string][][3]string{"go": {{"lib", "dep_go", ""}}}},
			{Pkg: "lib", Name: "other", Outs: []string{"other.txt"}, Provides: map[string][][3]string{"java": {{"lib", "dep_py", ""}}}},
		}}
	return w, []seq{{"location", "//tools:gen"}, {"locations", "//tools:gen"}, {"exe", "//tools:gen"}, {"out_dir", "//tools:gen"}, {"out_exe", "//tools:gen"},
		{"exe", "//tools:plain"}, {"locations", "//lib:dep"}, {"location", "//lib:dep"}, {"out_locations", "//lib:dep"}, {"dir", "//lib:dep"},
		{"location", "//lib:ddep"}, {"location", "//lib:other"}, {"location", "//lib:dep_go"}, {"location", "//tools:gen_lib"}}
}

func extStream(c *lib.Ctx) {
	nworlds := c.Scale(24, 500)
	cwd, _ := os.Getwd()
	defer os.Chdir(cwd)
	for i := 0; i < nworlds; i++ {
		r := c.Rng.Fork()
		root := filepath.Join(c.Out, fmt.Sprintf("x%d", i))
		if err := os.MkdirAll(root, 0o755); err != nil {
			panic(err)
		}
		if rr, err := filepath.EvalSymlinks(root); err == nil {
			root = rr
		}
		if err := os.Chdir(root); err != nil {
			panic(err)
		}
		mode := []int{namesPlain, namesOperators}[i%2]
		w := genWorld(r, root, mode, false)
		var fixed []seq
		withProvides := i%3 != 2
		if i == 0 {
			w, fixed = provideCorpus(root)
		} else if withProvides {
			addProvides(r, w)
		}
		b := build(w)
		tmpAbs, _ := materialise(w, b)
		cw, cpx := coqWorld(w, b), coqPx(w)
		c.Hist("ext_world", map[bool]string{true: "requires-and-provides", false: "plain"}[withProvides])
		if withProvides {
			// every keyword on every tool and dep that carries provides, then random sequences
			for _, g := range w.Graph {
				if g.Provides != nil && w.rolesOf(&g).declared() && len(fixed) < 12 && i > 0 {
					fixed = append(fixed, seq{lib.Pick(r, kinds), g.label()}, seq{lib.Pick(r, []string{"locations", "out_locations", "exe"}), g.label()})
				}
			}
			pending := []bashQuery{}
			for _, s := range append(fixed, genSeqs(r, w, 4)...) {
				cmd := s.text()
				e := expect(w, b, s)
				var o outcome
				if strings.Contains(s.Arg, "|") && (!e.valid || e.toolWithProvides || e.provided) {
					// log.Fatalf territory (also under a regression that substitutes a tool by what it provides)
					o = expandInChild(w, false, cmd)
				} else {
					o = expand(b, false, cmd)
				}
				js := map[string]any{"world": w, "seq": s, "cmd": cmd, "outcome": o}
				c.Case(lib.App("CCmdP", cw, cpx, lib.Str(cmd), o.coq()), js, fmt.Sprint(i, "P", cmd), e.valid && o.Kind == "text")
				c.Hist("provide_sequence", fmt.Sprintf("%s:provided=%v,tool-with-provides=%v", o.Kind, e.provided, e.toolWithProvides))
				judge(c, e, o, cmd, js, tmpAbs, root, &pending)
			}
			settle(c, root, pending)
		}
		workerCommands(c, r, i, w, b, cw, cpx, 5)
		os.Chdir(cwd)
		os.RemoveAll(root)
	}
}

// splitterTie: the model's conservative shell_words against bash itself.
func splitterTie(c *lib.Ctx) {
	n := c.Scale(60, 600)
	texts, safes := []string{}, []bool{}
	alphabet := []string{"a", "b", "/", ".", "-", "_", " ", " ", "\t", "\"", "\"", ";", "|", "<", "$", "'", "*", "\\", "#", "=", "~", "x1", "\n", "(", ")", "&", "{", "}", "%", "?", "[", "`", ":", "@", "+", ",", "!", "]", "^"}
	for i := 0; i < n; i++ {
		r := c.Rng.Fork()
		var text string
		safe := false
		if i%2 == 0 {
			// built from words the way checkAndReplaceSequence does: quoted when they hold a character of the quote set
			safe = true
			ws := []string{}
			for k := r.Range(1, 4); k > 0; k-- {
				w := ""
				for j := r.Range(1, 6); j > 0; j-- {
					w += lib.Pick(r, []string{"a", "b/", ".c", "-", "_", ";", "|", "<", ">", "(", ")", "&", "x"})
				}
				if strings.ContainsAny(w, documentedQuoteSet) {
					w = "\"" + w + "\""
				}
				ws = append(ws, w)
			}
			text = strings.Join(ws, " ")
		} else {
			for j := r.Range(1, 8); j > 0; j-- {
				text += lib.Pick(r, alphabet)
			}
		}
		texts, safes = append(texts, text), append(safes, safe)
	}
	allWords, oks := bashWordsAll(filepath.Join(c.Out, "split"), texts)
	for i, text := range texts {
		words, ok, safe := allWords[i], oks[i], safes[i]
		if words == nil {
			words = []string{}
		}
		if !ok {
			words = []string{"<bash: error>"}
			safe = false
		}
		c.Case(lib.App("COld", lib.App("CWords", lib.Str(text), lib.Bool(safe), lib.StrList(words))), map[string]any{"text": text, "words": words, "bash_ok": ok}, "W"+text, safe)
		c.Hist("splitter_text", map[bool]string{true: "quoted-words", false: "random"}[i%2 == 0])
	}
}

// ---------------------------------------------------------------------------------------------------------------
// end to end

type e2eTarget struct {
	pkg, name string
	decl      string // extra arguments of the genrule (srcs/tools/deps)
	seq       string
	words     int
	inRepo    bool
	expect    string // ok | rejected | fatal | a finding class
}

func endToEnd(c *lib.Ctx, plz string) {
	repo := filepath.Join(c.Out, "e2e")
	cache := filepath.Join(c.Out, "e2e-cache")
	os.MkdirAll(filepath.Join(repo, "p"), 0o755)
	os.MkdirAll(filepath.Join(repo, "q", "r"), 0o755)
	must := func(err error) {
		if err != nil {
			panic(err)
		}
	}
	must(os.WriteFile(filepath.Join(repo, ".plzconfig"), []byte("[build]\npath = /usr/local/bin:/usr/bin:/bin\n[cache]\ndir = "+cache+"\n[display]\nupdatetitle = false\n"), 0o644))
	must(os.WriteFile(filepath.Join(repo, "p", "real.txt"), []byte("hello\n"), 0o644))
	must(os.WriteFile(filepath.Join(repo, "p", "semi;colon.txt"), []byte("hello\n"), 0o644))
	producers := `
genrule(name="one", outs=["one.txt"], cmd='echo x > $OUT')
genrule(name="semi", outs=["se;mi.txt"], cmd='echo x > "$OUT"')
genrule(name="sp", outs=["a b.txt"], cmd='echo x > "$OUT"')
genrule(name="dl", outs=["a$HOME.txt"], cmd='echo x > "$OUTS"')
genrule(name="multi", outs=["m1.txt","m2.txt"], cmd='for o in $OUTS; do echo x > $o; done')
genrule(name="mamp", outs=["m&1.txt","m2p.txt","m(3).txt"], cmd='for o in $OUTS; do echo x > "$o"; done')
genrule(name="tool2", outs=["t;1.sh","t2.sh"], binary=True, cmd='for o in $OUTS; do echo x > "$o"; done')
genrule(name="named", outs={"n1":["n1.txt"],"n2":["n2.txt"]}, cmd='for o in $OUTS; do echo x > $o; done')
genrule(name="tool", outs=["bin/t.sh"], binary=True, entry_points={"main":"bin/t.sh"}, cmd='mkdir -p bin; printf "#!/bin/sh\\necho ran\\n" > $OUT; chmod +x $OUT')
genrule(name="lib", outs=["libdir"], entry_points={"main":"libdir/inner.txt"}, cmd='mkdir $OUT; echo x > $OUT/inner.txt')
`
	must(os.WriteFile(filepath.Join(repo, "q", "r", "BUILD"), []byte(`genrule(name="far", outs=["far1.txt","far2.txt"], cmd='for o in $OUTS; do echo x > $o; done', visibility=["PUBLIC"])`+"\n"), 0o644))
	// a subrepo with a package q of its own, next to a package q of the main repository: the same package:name twice
	os.MkdirAll(filepath.Join(repo, "q"), 0o755)
	os.MkdirAll(filepath.Join(repo, "vendor", "x", "q"), 0o755)
	must(os.WriteFile(filepath.Join(repo, "q", "BUILD"), []byte(`genrule(name="lib", outs=["l1.a"], cmd='echo x > $OUT', visibility=["PUBLIC"])`+"\n"), 0o644))
	must(os.WriteFile(filepath.Join(repo, "vendor", "x", "q", "BUILD"), []byte(`genrule(name="lib", outs=["l&1.a","l2.a"], cmd='for o in $OUTS; do echo x > "$o"; done', visibility=["PUBLIC"])`+"\n"), 0o644))
	must(os.WriteFile(filepath.Join(repo, "BUILD"), []byte(`genrule(name="rootdep", outs=["r.txt"], cmd='echo x > $OUT', visibility=["PUBLIC"])`+"\n"+
		`subrepo(name="vend", path="vendor/x")`+"\n"+
		e2eRule(e2eTarget{"", "use_rootdir", `srcs=[":rootdep"]`, "$(dir :rootdep)", 1, false, "dir-of-root-package-empty"}, "r.txt")), 0o644))
	ts := []e2eTarget{
		{"p", "ok_location", `srcs=[":one"]`, "$(location :one)", 1, false, "ok"},
		{"p", "ok_locations", `srcs=["//q/r:far"]`, "$(locations //q/r:far)", 2, false, "ok"},
		{"p", "ok_dep_locations", `deps=[":multi"]`, "$(locations :multi)", 2, false, "ok"},
		{"p", "ok_semi", `srcs=[":semi"]`, "$(location :semi)", 1, false, "ok"},
		{"p", "ok_file", `srcs=["real.txt"]`, "$(location real.txt)", 1, false, "ok"},
		{"p", "ok_file_semi", `srcs=["semi;colon.txt"]`, "$(location semi;colon.txt)", 1, false, "ok"},
		{"p", "ok_dir", `srcs=["//q/r:far"]`, "$(dir //q/r:far)", 1, false, "ok"},
		{"p", "ok_exe_tool", `tools=[":tool"]`, "$(exe :tool)", 1, false, "ok"},
		{"p", "ok_location_tool", `tools=[":tool"]`, "$(location :tool)", 1, false, "ok"},
		{"p", "ok_ep_src", `srcs=[":lib"]`, "$(location :lib|main)", 1, false, "ok"},
		{"p", "ok_named_all", `srcs=[":named"]`, "$(locations :named)", 2, false, "ok"},
		{"p", "ok_out_location", `srcs=[":one"]`, "$(out_location :one)", 1, true, "ok"},
		{"p", "ok_out_exe", `tools=[":tool"]`, "$(out_exe :tool|main)", 1, true, "ok"},
		{"p", "ok_multi_amp", `srcs=[":mamp"]`, "$(locations :mamp)", 3, false, "ok"},
		{"p", "ok_out_multi_amp", `deps=[":mamp"]`, "$(out_locations :mamp)", 3, true, "ok"},
		{"p", "ok_tool_multi", `tools=[":tool2"]`, "$(locations :tool2)", 2, false, "ok"},
		{"p", "ok_sub_locations", `srcs=["///vend//q:lib"]`, "$(locations ///vend//q:lib)", 2, false, "ok"},
		{"p", "ok_sub_out_locations", `srcs=["@vend//q:lib"]`, "$(out_locations @vend//q:lib)", 2, true, "ok"},
		{"p", "ok_main_next_to_sub", `srcs=["//q:lib"]`, "$(location //q:lib)", 1, false, "ok"},
		{"p", "bad_sub_nodep", `srcs=["//q:lib"]`, "$(locations ///vend//q:lib)", 2, false, "rejected"},
		{"p", "bad_main_nodep", `srcs=["///vend//q:lib"]`, "$(locations //q:lib)", 1, false, "rejected"},
		{"p", "bad_nodep", ``, "$(location :multi)", 1, false, "rejected"},
		{"p", "bad_multi", `srcs=[":multi"]`, "$(location :multi)", 1, false, "rejected"},
		{"p", "bad_notbinary", `srcs=[":one"]`, "$(exe :one)", 1, false, "rejected"},
		{"p", "bad_nosuch", ``, "$(location //nosuch:thing)", 1, false, "rejected"},
		{"p", "f_space", `srcs=[":sp"]`, "$(location :sp)", 1, false, "name-with-shell-char-outside-quote-set"},
		{"p", "f_dollar", `srcs=[":dl"]`, "$(location :dl)", 1, false, "name-with-shell-char-outside-quote-set"},
		{"p", "f_undeclared", ``, "$(location real.txt)", 1, false, "undeclared-file-not-rejected"},
		{"p", "f_named", `srcs=[":named|n1"]`, "$(locations :named)", 2, false, "named-output-source-lists-all-outputs"},
		{"p", "f_toolep", `tools=[":tool"]`, "$(exe :tool|main)", 1, false, "tool-entry-point-relative-path"},
		{"p", "f_self", ``, "$(location :f_self)", 1, false, "self-reference-in-build-command"},
	}
	var bf strings.Builder
	bf.WriteString(producers)
	for _, t := range ts {
		bf.WriteString(e2eRule(t, ""))
	}
	fatal := e2eTarget{"p", "bad_unknown_ep", `srcs=[":lib"]`, "$(location :lib|nosuch)", 1, false, "fatal"}
	bf.WriteString(e2eRule(fatal, ""))
	must(os.WriteFile(filepath.Join(repo, "p", "BUILD"), []byte(bf.String()), 0o644))
	ts = append(ts, e2eTarget{"", "use_rootdir", "", "$(dir :rootdep)", 1, false, "dir-of-root-package-empty"})

	run := func(args ...string) (string, int) {
		cmd := exec.Command(plz, append([]string{"--plain_output", "-v", "1"}, args...)...)
		cmd.Dir = repo
		cmd.Env = []string{"PATH=/usr/local/bin:/usr/bin:/bin", "HOME=/nonexistent-verif-home", "LANG=C", "USER=verif"}
		done := make(chan struct{})
		var out []byte
		var err error
		go func() { out, err = cmd.CombinedOutput(); close(done) }()
		select {
		case <-done:
		case <-time.After(8 * time.Minute):
			cmd.Process.Kill()
			<-done
		}
		code := 0
		if err != nil {
			code = 1
		}
		return string(out), code
	}
	labels := []string{"build", "--keep_going"}
	for _, t := range ts {
		labels = append(labels, "//"+t.pkg+":"+t.name)
	}
	out, _ := run(labels...)
	for _, t := range ts {
		c.Oracle()
		built := false
		if _, err := os.Stat(filepath.Join(repo, "plz-out", "gen", t.pkg, t.name+".out")); err == nil {
			built = true
		}
		ran := strings.Contains(out, "RAN-"+t.name+";")
		js := map[string]any{"e2e": t.name, "decl": t.decl, "seq": t.seq, "expect": t.expect, "built": built, "command_ran": ran}
		c.Eval(js, "e2e"+t.name, t.expect == "ok")
		c.Hist("e2e", t.expect)
		switch t.expect {
		case "ok":
			if !built {
				c.Fail("e2e-valid-sequence-unusable", fmt.Sprintf("genrule //%s:%s (%s; %s) did not build: the real command could not use the expansion", t.pkg, t.name, t.decl, t.seq), js)
			}
		case "rejected":
			if built || ran {
				c.Fail("invalid-sequence-accepted", fmt.Sprintf("genrule //%s:%s (%s; %s): the sequence was not rejected (command ran: %v, built: %v)", t.pkg, t.name, t.decl, t.seq, ran, built), js)
			}
		default:
			if !built {
				c.Fail(t.expect, fmt.Sprintf("genrule //%s:%s (%s; %s): the real command cannot use the expansion", t.pkg, t.name, t.decl, t.seq), js)
			} else {
				c.Note("e2e: finding %s not reproduced by //%s:%s", t.expect, t.pkg, t.name)
			}
		}
	}
	// unknown entry point: log.Fatalf ends plz
	{
		c.Oracle()
		out, code := run("build", "//p:"+fatal.name)
		_, err := os.Stat(filepath.Join(repo, "plz-out", "gen", "p", fatal.name+".out"))
		js := map[string]any{"e2e": fatal.name, "seq": fatal.seq, "exit": code}
		c.Eval(js, "e2e"+fatal.name, false)
		if code == 0 || err == nil || strings.Contains(out, "RAN-"+fatal.name+";") {
			c.Fail("invalid-sequence-accepted", "an unknown entry point was not rejected", js)
		}
	}
	os.RemoveAll(repo)
	os.RemoveAll(cache)
}

// e2eRule renders a genrule whose command tests its own expansion: the number of words and that each exists
// (for dir forms: that `below` exists under it).
func e2eRule(t e2eTarget, below string) string {
	check := `test -e "$f"`
	if strings.HasPrefix(t.seq, "$(dir ") {
		if below == "" {
			below = "far1.txt"
		}
		check = `test -e "$f/` + below + `"`
	}
	cd := ""
	if t.inRepo {
		cd = `cd "${TMP_DIR%%/plz-out/*}"; `
	}
	cmd := fmt.Sprintf(`echo "RAN-%s;" >&2; out="$(cd "$(dirname "$OUT")" && pwd)/$(basename "$OUT")"; %sset -- %s; test $# -eq %d || { echo "COUNT $#" >&2; exit 3; }; for f; do %s || { echo "MISSING $f" >&2; exit 4; }; done; echo ok > "$out"`,
		t.name, cd, t.seq, t.words, check)
	decl := t.decl
	if decl != "" {
		decl += ", "
	}
	return fmt.Sprintf("genrule(name=%q, %souts=[%q], cmd=%s)\n", t.name, decl, t.name+".out", pyQuote(cmd))
}

func pyQuote(x string) string {
	return "'" + strings.NewReplacer(`\`, `\\`, `'`, `\'`, "\n", `\n`).Replace(x) + "'"
}
