// C25: `plz gc` never removes anything still needed.
// Implementation side of the correspondence (gc.targetsToRemove, publicDependencies, gcSibling through
// the hook src/gc/verif_c25.go, on graphs built with the real core API) and the property oracle: an
// independent least-fixpoint reference of "kept" written from the property text.
package main

import (
	"encoding/json"
	"fmt"
	"os"
	"sort"
	"strings"
	"time"

	"verifharness/lib"

	"github.com/thought-machine/please/src/core"
	"github.com/thought-machine/please/src/gc"
	gologging "gopkg.in/op/go-logging.v1"
)

// ---------------------------------------------------------------------------------------------
// input description (JSON: this is what a replay file holds)

type Lbl struct {
	Sub  string `json:"sub,omitempty"`
	Pkg  string `json:"pkg"`
	Name string `json:"name"`
}

func (l Lbl) core() core.BuildLabel {
	return core.BuildLabel{Subrepo: l.Sub, PackageName: l.Pkg, Name: l.Name}
}
func fromCore(l core.BuildLabel) Lbl { return Lbl{l.Subrepo, l.PackageName, l.Name} }
func (l Lbl) String() string         { return l.core().String() }

type TSpec struct {
	L         Lbl                 `json:"label"`
	Binary    bool                `json:"binary,omitempty"`
	Test      bool                `json:"test,omitempty"`
	TestOnly  bool                `json:"test_only,omitempty"`
	Labels    []string            `json:"labels,omitempty"`
	Deps      []Lbl               `json:"deps,omitempty"`
	SrcDeps   []Lbl               `json:"src_labels,omitempty"` // build labels used as sources
	Requires  []string            `json:"requires,omitempty"`
	Provides  map[string][]Lbl    `json:"provides,omitempty"`
	Srcs      []string            `json:"srcs,omitempty"` // files, relative to the package
	NamedSrcs map[string][]string `json:"named_srcs,omitempty"`
	Data      []string            `json:"data,omitempty"`
	SubTarget *Lbl                `json:"subrepo_target,omitempty"` // target.Subrepo.Target
	NoResolve bool                `json:"no_resolve,omitempty"`     // leave Dependencies() empty (as gc_test.go does)
}

type PSpec struct {
	Sub         string `json:"sub,omitempty"`
	Name        string `json:"name"`
	Subincludes []Lbl  `json:"subincludes,omitempty"`
}

type ASpec struct {
	Filter       []Lbl    `json:"filter,omitempty"`
	Targets      []Lbl    `json:"targets,omitempty"`
	Keep         []Lbl    `json:"keep,omitempty"`
	KeepLabels   []string `json:"keep_labels,omitempty"`
	Conservative bool     `json:"conservative,omitempty"`
}

type Input struct {
	Targets []TSpec `json:"graph"`
	Pkgs    []PSpec `json:"packages"`
	A       ASpec   `json:"args"`

	chains []string // generator statistics (not part of the input): the hidden chains that were built
}

// ---------------------------------------------------------------------------------------------
// building the real graph

type built struct {
	graph *core.BuildGraph
	pkgs  map[string]*core.Package
}

func pkgKey(sub, name string) string { return sub + "\x00" + name }

// allPkgs: every package this harness added to the graph with AddPackage, from its OWN record - not from
// BuildGraph.PackageMap(), which is the copy gc.go ranges over and therefore part of what is being checked.
func (b *built) allPkgs() []*core.Package {
	out := make([]*core.Package, 0, len(b.pkgs))
	for _, k := range lib.SortedKeys(b.pkgs) {
		out = append(out, b.pkgs[k])
	}
	return out
}

// visiblePkgs: the packages the real PackageMap() hands out.
func (b *built) visiblePkgs() []*core.Package {
	pm := b.graph.PackageMap()
	out := make([]*core.Package, 0, len(pm))
	for _, k := range lib.SortedKeys(pm) {
		out = append(out, pm[k])
	}
	return out
}

func build(in *Input) *built {
	b := &built{graph: core.NewGraph(), pkgs: map[string]*core.Package{}}
	subrepos := map[string]*core.Subrepo{}
	addPkg := func(sub, name string) *core.Package {
		if p, ok := b.pkgs[pkgKey(sub, name)]; ok {
			return p
		}
		p := core.NewPackageSubrepo(name, sub)
		if sub != "" {
			sr, ok := subrepos[sub]
			if !ok {
				sr = &core.Subrepo{Name: sub, Root: "plz-out/subrepos/" + sub, PackageRoot: "plz-out/gen/" + sub}
				subrepos[sub] = sr
			}
			p.Subrepo = sr
		}
		b.graph.AddPackage(p)
		b.pkgs[pkgKey(sub, name)] = p
		return p
	}
	for _, p := range in.Pkgs {
		addPkg(p.Sub, p.Name)
	}
	// every label that is mentioned gets its package registered, so that resolving a dependency on a
	// target that does not exist ends ("no such target") instead of waiting for the package
	for _, t := range in.Targets {
		addPkg(t.L.Sub, t.L.Pkg)
		for _, d := range append(append([]Lbl{}, t.Deps...), t.SrcDeps...) {
			addPkg(d.Sub, d.Pkg)
		}
		for _, ls := range t.Provides {
			for _, d := range ls {
				addPkg(d.Sub, d.Pkg)
			}
		}
	}
	targets := map[Lbl]*core.BuildTarget{}
	for i := range in.Targets {
		ts := &in.Targets[i]
		p := b.pkgs[pkgKey(ts.L.Sub, ts.L.Pkg)]
		t := core.NewBuildTarget(ts.L.core())
		t.IsBinary, t.TestOnly = ts.Binary, ts.TestOnly
		if ts.Test {
			t.Test = new(core.TestFields)
		}
		if p.Subrepo != nil {
			t.Subrepo = p.Subrepo
		}
		for _, l := range ts.Labels {
			t.AddLabel(l)
		}
		for _, r := range ts.Requires {
			t.AddRequire(r)
		}
		for lang, ls := range ts.Provides {
			out := []core.BuildLabel{}
			for _, l := range ls {
				out = append(out, l.core())
			}
			t.AddProvide(lang, out)
		}
		for _, s := range ts.Srcs {
			t.AddSource(core.NewFileLabel(s, p))
		}
		for _, name := range lib.SortedKeys(ts.NamedSrcs) {
			for _, s := range ts.NamedSrcs[name] {
				t.AddNamedSource(name, core.NewFileLabel(s, p))
			}
		}
		for _, l := range ts.SrcDeps {
			t.AddSource(l.core())
		}
		for _, s := range ts.Data {
			t.AddDatum(core.NewFileLabel(s, p))
		}
		for _, d := range ts.Deps {
			t.AddDependency(d.core())
		}
		b.graph.AddTarget(t)
		p.AddTarget(t)
		targets[ts.L] = t
	}
	for _, ts := range in.Targets {
		if ts.SubTarget != nil {
			// the subrepo of this target is produced by that target
			t := targets[ts.L]
			sr := &core.Subrepo{Name: ts.L.Sub, Root: "plz-out/subrepos/" + ts.L.Sub, PackageRoot: "plz-out/gen/" + ts.L.Sub, Target: targets[*ts.SubTarget]}
			t.Subrepo = sr
		}
	}
	for _, p := range in.Pkgs {
		pk := b.pkgs[pkgKey(p.Sub, p.Name)]
		for _, l := range p.Subincludes {
			pk.RegisterSubinclude(l.core())
		}
	}
	for _, ts := range in.Targets {
		if !ts.NoResolve {
			done := make(chan struct{})
			go func() { _ = targets[ts.L].ResolveDependencies(b.graph); close(done) }()
			select {
			case <-done:
			case <-time.After(20 * time.Second):
				panic("ResolveDependencies blocked on " + ts.L.String())
			}
		}
	}
	return b
}

func labelsOf(ls []Lbl) []core.BuildLabel {
	out := make([]core.BuildLabel, len(ls))
	for i, l := range ls {
		out[i] = l.core()
	}
	return out
}

// ---------------------------------------------------------------------------------------------
// wire format of a case (decoded by Model/C25.v `dec`): one string, five separator bytes

const seps = "^!|;,"

func clean(x string) string {
	if strings.ContainsAny(x, seps+"\"") {
		panic("C25 harness: the string " + x + " contains a separator of the wire format")
	}
	for i := 0; i < len(x); i++ {
		if x[i] < 0x20 || x[i] > 0x7e {
			panic("C25 harness: non-printable byte in " + x)
		}
	}
	return x
}

func wLabel(l core.BuildLabel) string {
	return clean(l.Subrepo) + "," + clean(l.PackageName) + "," + clean(l.Name)
}
func wLabels(ls []core.BuildLabel) string {
	out := make([]string, len(ls))
	for i, l := range ls {
		out[i] = wLabel(l)
	}
	return strings.Join(out, ";")
}
func wStrs(xs []string) string {
	out := make([]string, len(xs))
	for i, x := range xs {
		if x == "" {
			panic("C25 harness: empty string in a list")
		}
		out[i] = clean(x)
	}
	return strings.Join(out, ";")
}
func wBool(b bool) string {
	if b {
		return "1"
	}
	return "0"
}

func dataPaths(t *core.BuildTarget) []string {
	out := []string{}
	for _, d := range t.AllData() {
		if f, ok := d.(core.FileLabel); ok {
			out = append(out, f.Paths(nil)[0])
		}
	}
	return out
}

func wGraph(b *built) string {
	ts := []string{}
	for _, t := range b.graph.AllTargets() {
		res := []core.BuildLabel{}
		for _, d := range t.Dependencies() {
			res = append(res, d.Label)
		}
		sub := ""
		if t.Subrepo != nil && t.Subrepo.Target != nil {
			sub = wLabel(t.Subrepo.Target.Label)
		}
		ts = append(ts, strings.Join([]string{wLabel(t.Label), wBool(t.IsBinary) + wBool(t.IsTest()) + wBool(t.TestOnly),
			wStrs(t.Labels), wLabels(t.DeclaredDependencies()), wLabels(res), sub,
			wStrs(t.AllLocalSourcePaths()), wStrs(dataPaths(t))}, "|"))
	}
	// the packages: the STORE (every package added), not PackageMap() - the model copies it itself
	ps := []string{}
	for _, p := range b.allPkgs() {
		names := []core.BuildLabel{}
		for _, t := range p.AllTargets() {
			names = append(names, t.Label)
		}
		sort.Slice(names, func(i, j int) bool { return names[i].Less(names[j]) })
		ps = append(ps, strings.Join([]string{clean(p.SubrepoName), clean(p.Name), wLabels(p.Subincludes), wLabels(names)}, "|"))
	}
	return strings.Join(ts, "!") + "^" + strings.Join(ps, "!")
}

func wArgs(a *ASpec) string {
	return strings.Join([]string{wLabels(labelsOf(a.Filter)), wLabels(labelsOf(a.Targets)), wLabels(labelsOf(a.Keep)),
		wStrs(a.KeepLabels), wBool(a.Conservative)}, "|")
}

// wPackageMap: the real BuildGraph.PackageMap(), entries sorted by key: key|subrepo|name of the value
func wPackageMap(b *built) string {
	pm := b.graph.PackageMap()
	out := []string{}
	for _, k := range lib.SortedKeys(pm) {
		out = append(out, clean(k)+"|"+clean(pm[k].SubrepoName)+"|"+clean(pm[k].Name))
	}
	return strings.Join(out, "!")
}

// wCase: graph ^ packages (the store) ^ args ^ removed ^ removed sources ^ publicDependencies observations ^
// gcSibling observations ^ PackageMap() observation
func wCase(b *built, a *ASpec, out outcome, pubs, sibs []string) string {
	return `(dec "` + strings.Join([]string{wGraph(b), wArgs(a), wLabels(out.removed), wStrs(out.srcs),
		strings.Join(pubs, "!"), strings.Join(sibs, "!"), wPackageMap(b)}, "^") + `")`
}

// ---------------------------------------------------------------------------------------------
// the property oracle: an independent reference, written from the property text
//
//   Kept = least set containing the roots (non-test binaries - every binary in conservative mode -,
//          targets with a kept label, named targets, subincludes), closed under "depends on"
//          (declared and resolved dependencies, the target that produces its subrepo) and under
//          "is a test of a kept target that is not test_only".
//   A test is "of" the targets it declares a dependency on, looking through the hidden
//   sub-targets of its own rule.

type tset map[*core.BuildTarget]bool

func depsOf(g *core.BuildGraph, t *core.BuildTarget) []*core.BuildTarget {
	out := []*core.BuildTarget{}
	for _, l := range t.DeclaredDependencies() {
		if d := g.Target(l); d != nil {
			out = append(out, d)
		}
	}
	out = append(out, t.Dependencies()...)
	if t.Subrepo != nil && t.Subrepo.Target != nil {
		out = append(out, t.Subrepo.Target)
	}
	return out
}

// ruleOf strips the hidden-sub-target decoration: _name#tag -> name (same package, same subrepo).
func ruleOf(l core.BuildLabel) core.BuildLabel {
	if i := strings.IndexByte(l.Name, '#'); i >= 0 && strings.HasPrefix(l.Name, "_") {
		n := l.Name[:i]
		for strings.HasPrefix(n, "_") {
			n = n[1:]
		}
		l.Name = n
	}
	return l
}

// subjects: what a test is a test of (iterative; the implementation recurses).
func subjects(g *core.BuildGraph, t *core.BuildTarget) []*core.BuildTarget {
	out := []*core.BuildTarget{}
	rule := ruleOf(t.Label)
	work := []*core.BuildTarget{t}
	for steps := 0; len(work) > 0; steps++ {
		if steps > 100000 {
			panic("subjects: cyclic hidden sub-targets")
		}
		x := work[0]
		work = work[1:]
		for _, l := range x.DeclaredDependencies() {
			d := g.Target(l)
			if d == nil {
				continue
			}
			if ruleOf(d.Label) == rule {
				work = append(work, d)
			} else {
				out = append(out, d)
			}
		}
		if x.Subrepo != nil && x.Subrepo.Target != nil {
			out = append(out, x.Subrepo.Target)
		}
	}
	return out
}

func named(pkgs []*core.Package, a *ASpec, t *core.BuildTarget) bool {
	for _, k := range a.Keep {
		if k.core().Includes(t.Label) {
			return true
		}
	}
	for _, k := range a.Targets {
		l := k.core()
		if l == t.Label {
			return true
		}
		if l.Name == "..." {
			// what a `...` entry of the expanded list names is Package.IsIncludedIn (the production caller never passes one),
			// over ALL packages of the graph
			for _, p := range pkgs {
				if p.IsIncludedIn(l) && p.Target(t.Label.Name) == t {
					return true
				}
			}
		}
	}
	return false
}

func isRoot(pkgs []*core.Package, a *ASpec, t *core.BuildTarget) bool {
	if t.IsBinary && (!t.IsTest() || a.Conservative) {
		return true
	}
	return t.HasAnyLabel(a.KeepLabels) || named(pkgs, a, t)
}

// reference computes the least fixpoint.  testRounds < 0: tests rule applied to a fixpoint (the
// property); testRounds = 0: no tests rule; testRounds = 1: tests of what the roots alone keep.
//
// pkgs = the packages whose subincludes are roots and that a named `...` ranges over: ALL packages of the
// graph for the property (b.allPkgs(), the harness's own record); the packages PackageMap() hands out only
// to tell whether a violation comes from a package that copy lost.
func reference(b *built, pkgs []*core.Package, a *ASpec, testRounds int) tset {
	g := b.graph
	kept := tset{}
	var work []*core.BuildTarget
	add := func(t *core.BuildTarget) {
		if t != nil && !kept[t] {
			kept[t] = true
			work = append(work, t)
		}
	}
	closeDeps := func() {
		for len(work) > 0 {
			t := work[len(work)-1]
			work = work[:len(work)-1]
			for _, d := range depsOf(g, t) {
				add(d)
			}
		}
	}
	all := g.AllTargets()
	for _, t := range all {
		if isRoot(pkgs, a, t) {
			add(t)
		}
	}
	for _, p := range pkgs {
		for _, l := range p.Subincludes {
			add(g.Target(l))
		}
	}
	closeDeps()
	for round := 0; testRounds < 0 || round < testRounds; round++ {
		snapshot := tset{}
		for t := range kept {
			snapshot[t] = true
		}
		changed := false
		for _, t := range all {
			if !t.IsTest() || kept[t] {
				continue
			}
			for _, d := range subjects(g, t) {
				if snapshot[d] && !d.TestOnly {
					add(t)
					changed = true
					break
				}
			}
		}
		closeDeps()
		if !changed {
			break
		}
	}
	return kept
}

// sibling: the first gc_sibling:<name> label that names an existing target of the same package.
func sibling(g *core.BuildGraph, t *core.BuildTarget) *core.BuildTarget {
	for _, l := range t.Labels {
		if n, ok := strings.CutPrefix(l, "gc_sibling:"); ok {
			if s := g.Target(core.BuildLabel{PackageName: t.Label.PackageName, Name: n}); s != nil {
				return s
			}
		}
	}
	return t
}

type useKind int

const (
	useNone useKind = iota
	useDir
	useData
	useSrc
)

func inputPaths(t *core.BuildTarget) (srcs, data []string) {
	for _, s := range t.AllSources() {
		if f, ok := s.(core.FileLabel); ok {
			srcs = append(srcs, f.Paths(nil)[0])
		}
	}
	return srcs, dataPaths(t)
}

// uses: does target t use the file? as a source, as data, or as a file inside a directory it lists.
func uses(t *core.BuildTarget, file string) useKind {
	srcs, data := inputPaths(t)
	best := useNone
	for _, s := range srcs {
		if s == file {
			return useSrc
		}
		if strings.HasPrefix(file, s+"/") {
			best = max(best, useDir)
		}
	}
	for _, s := range data {
		if s == file {
			best = max(best, useData)
		} else if strings.HasPrefix(file, s+"/") {
			best = max(best, useDir)
		}
	}
	return best
}

const (
	clsSibling      = "kept-target-removed-with-unneeded-gc-sibling"
	clsTestOrder    = "test-of-target-kept-only-through-another-test"
	clsConservative = "nonbinary-test-of-kept-target-in-conservative-mode"
	clsData         = "source-that-is-data-of-kept-target"
	clsDir          = "source-inside-directory-input-of-kept-target"
	clsPkgLost      = "root-of-package-missing-from-packagemap"
	clsTarget       = "needed-target-removed"
	clsSource       = "needed-source-removed"
	clsMalformed    = "malformed-removal-list"
)

func samePkgs(a, b []*core.Package) bool {
	if len(a) != len(b) {
		return false
	}
	in := map[*core.Package]bool{}
	for _, p := range a {
		in[p] = true
	}
	for _, p := range b {
		if !in[p] {
			return false
		}
	}
	return true
}

type outcome struct {
	removed []core.BuildLabel
	srcs    []string
}

func run(b *built, a *ASpec) outcome {
	ls, srcs := gc.VerifTargetsToRemove(b.graph, labelsOf(a.Filter), labelsOf(a.Targets), labelsOf(a.Keep), a.KeepLabels, a.Conservative)
	return outcome{append([]core.BuildLabel{}, ls...), append([]string{}, srcs...)}
}

// oracle evaluates the property on one run of the implementation.
func oracle(c *lib.Ctx, b *built, in *Input, out outcome) (violations int) {
	c.Oracle()
	g := b.graph
	all := b.allPkgs()
	kept := reference(b, all, &in.A, -1)
	rounds := 1
	if in.A.Conservative {
		rounds = 0
	}
	weak := reference(b, all, &in.A, rounds)
	// the packages PackageMap() hands out must be the packages of the graph; when they are not, what is
	// kept only because of a package that the copy lost gets its own class
	visible := b.visiblePkgs()
	keptVisible := kept
	if !samePkgs(all, visible) {
		c.Hist("observations", "packagemap-differs-from-the-packages-added")
		keptVisible = reference(b, visible, &in.A, -1)
	}
	fail := func(class, what string) {
		violations++
		c.Fail(class, what, in)
	}
	testClass := clsTestOrder
	if in.A.Conservative {
		testClass = clsConservative
	}
	seen := map[core.BuildLabel]bool{}
	removed := tset{}
	for _, r := range out.removed {
		t := g.Target(r)
		if t == nil || seen[r] {
			fail(clsMalformed, fmt.Sprintf("%s is listed for removal but is not a target of the graph, or is listed twice", r))
			continue
		}
		seen[r] = true
		removed[t] = true
		if !kept[t] {
			continue
		}
		sib := sibling(g, t)
		switch {
		case !keptVisible[t]:
			fail(clsPkgLost, fmt.Sprintf("%s is a root (subincluded by / named through) of a package that BuildGraph.PackageMap() does not hand out, or is needed by one, and is proposed for removal (%d packages added, %d in PackageMap())", r, len(all), len(visible)))
		case sib != t && !kept[sib]:
			fail(clsSibling, fmt.Sprintf("%s is needed by a kept root but is proposed for removal because its gc_sibling %s is not needed", r, sib.Label))
		case !weak[sib]:
			fail(testClass, fmt.Sprintf("%s is proposed for removal although it is (needed by) a test of a kept target", r))
		default:
			fail(clsTarget, fmt.Sprintf("%s is proposed for removal although a kept root needs it", r))
		}
	}
	for _, s := range out.srcs {
		worst, who := useNone, (*core.BuildTarget)(nil)
		cls := ""
		for _, k := range g.AllTargets() {
			if !kept[k] {
				continue
			}
			u := uses(k, s)
			if u == useNone {
				continue
			}
			kc := ""
			switch {
			case u == useSrc && !keptVisible[k]:
				kc = clsPkgLost
			case u == useSrc && weak[k]:
				kc = clsSource
			case u == useSrc:
				kc = testClass
			case u == useData:
				kc = clsData
			default:
				kc = clsDir
			}
			// report the most alarming explanation
			rank := map[string]int{clsDir: 1, clsData: 2, clsTestOrder: 3, clsConservative: 3, clsSource: 4, clsPkgLost: 5}
			if cls == "" || rank[kc] > rank[cls] {
				cls, who, worst = kc, k, u
			}
		}
		_ = worst
		if cls != "" {
			fail(cls, fmt.Sprintf("source %s is proposed for deletion but the kept target %s uses it", s, who.Label))
		}
	}
	// not part of the property as stated (the list only names rules): a hidden sub-target that is needed
	// while the rule that generates it is removed
	for t := range kept {
		if t.Label.HasParent() {
			if p := g.Target(t.Label.Parent()); p != nil && removed[p] {
				c.Hist("observations", "needed-hidden-sub-target-of-removed-rule")
			}
		}
	}
	return violations
}

// ---------------------------------------------------------------------------------------------
// generators

var pkgPool = []string{"", "a", "a/b", "ab", "c", "lib/x"}
var filePool = []string{"f0.go", "f1.go", "f2.py", "b/f0.go", "dir", "dir/x.txt", "dir/sub/y.txt", "data.json"}
var plainLabels = []string{"go", "py", "manual", "keep", "test", "golang"}
var keepLabelPool = [][]string{{"py"}, {"go"}, {"g*"}, {"keep"}, {"test"}, {"te*"}, {"manual", "keep"}, {"*"}, {"nothing"}}

type gen struct {
	r     *lib.Rng
	in    *Input
	names map[string]bool
	adv   bool // adversarial stream: flags need not be what the parser produces
}

func (g *gen) fresh(pkg Lbl, stem string) string {
	for {
		n := fmt.Sprintf("%s%c%d", stem, 'a'+rune(g.r.Intn(6)), g.r.Intn(10))
		if !g.names[pkgKey(pkg.Sub, pkg.Pkg)+":"+n] {
			g.names[pkgKey(pkg.Sub, pkg.Pkg)+":"+n] = true
			return n
		}
	}
}

func (g *gen) files(n int) []string {
	out := []string{}
	seen := map[string]bool{}
	for i := 0; i < n; i++ {
		f := lib.Pick(g.r, filePool)
		if !seen[f] {
			seen[f] = true
			out = append(out, f)
		}
	}
	return out
}

func (g *gen) someDeps(lo, hi int, pred func(*TSpec) bool) []Lbl {
	cands := []Lbl{}
	for i := range g.in.Targets {
		if pred == nil || pred(&g.in.Targets[i]) {
			cands = append(cands, g.in.Targets[i].L)
		}
	}
	lib.Shuffle(g.r, cands)
	n := min(g.r.Range(lo, hi), len(cands))
	return cands[:n]
}

func isHidden(n string) bool { return strings.HasPrefix(n, "_") && strings.Contains(n, "#") }

func (g *gen) addTarget(t TSpec) { g.in.Targets = append(g.in.Targets, t) }

func (g *gen) decorate(t *TSpec) {
	r := g.r
	t.Srcs = g.files(r.Range(0, 3))
	if r.Chance(1, 6) {
		t.NamedSrcs = map[string][]string{"hdrs": g.files(1)}
	}
	if r.Chance(1, 4) {
		t.Data = g.files(r.Range(1, 2))
	}
	for i := r.Intn(3); i > 0; i-- {
		if r.Chance(1, 2) {
			t.Labels = append(t.Labels, lib.Pick(r, plainLabels))
		}
	}
	if r.Chance(1, 7) && len(g.in.Targets) > 0 {
		// gc_sibling: another target of the same package (or, rarely, a name that does not exist)
		same := []string{}
		for _, o := range g.in.Targets {
			if o.L.Pkg == t.L.Pkg && o.L.Name != t.L.Name {
				same = append(same, o.L.Name)
			}
		}
		if r.Chance(1, 5) || len(same) == 0 {
			t.Labels = append(t.Labels, "gc_sibling:nope")
		}
		if len(same) > 0 {
			t.Labels = append(t.Labels, "gc_sibling:"+lib.Pick(r, same))
		}
	}
	if r.Chance(1, 12) {
		t.Deps = append(t.Deps, Lbl{"", t.L.Pkg, "missing"})
	}
}

// ---- chains of hidden sub-targets between a test and what it tests ------------------------------
// publicDependencies looks through the hidden sub-targets of the test's OWN rule, at any depth
// (k_test -> _k_test#main -> _k_test#lib -> k), and through nothing else.

const (
	chainOwn             = iota // every link is _<test>#<tag>: all are looked through
	chainForeignRule            // one link is _<other>#<tag>: a hidden sub-target of ANOTHER rule - a public dependency itself
	chainOtherPackage           // one link is //<other package>:_<test>#<tag>: same name, other package - not a sibling
	chainManyUnderscores        // one link is ___<test>#<tag>: Parent() trims every underscore - still a sibling
	chainNoUnderscore           // one link is <test>#<tag>: no leading underscore - Parent() is the label itself
	nChainVariants
)

var chainVariantNames = []string{"own", "foreign-rule", "other-package", "many-underscores", "no-underscore"}
var chainTags = []string{"lib", "main", "srcs"}

func (g *gen) claim(pkg Lbl, name string) bool {
	k := pkgKey(pkg.Sub, pkg.Pkg) + ":" + name
	if g.names[k] {
		return false
	}
	g.names[k] = true
	return true
}

// chain creates `depth` hidden targets between the test `test` of package p and the subjects and
// returns what the test itself must declare.  Link `depth` is the one next to the subjects.
func (g *gen) chain(p Lbl, pks []Lbl, test string, subj []Lbl, depth, variant int) []Lbl {
	r := g.r
	deps := subj
	odd := 0
	if variant != chainOwn && depth > 0 {
		odd = r.Range(1, depth)
	}
	realised := chainOwn
	for i := depth; i >= 1; i-- {
		tag := chainTags[i-1]
		hp, name := p, "_"+test+"#"+tag
		if i == odd {
			switch variant {
			case chainForeignRule:
				other := "zz"
				cands := []string{}
				for _, o := range g.in.Targets {
					if o.L.Sub == p.Sub && o.L.Pkg == p.Pkg && !isHidden(o.L.Name) && o.L.Name != test {
						cands = append(cands, o.L.Name)
					}
				}
				if len(cands) > 0 && r.Chance(3, 4) {
					other = lib.Pick(r, cands)
				}
				name = "_" + other + "#" + tag
			case chainOtherPackage:
				for _, q := range pks {
					if q != p && q.Sub == p.Sub {
						hp = q
					}
				}
			case chainManyUnderscores:
				name = "___" + test + "#" + tag
			case chainNoUnderscore:
				name = test + "#" + tag
			}
			if (hp != p || name != "_"+test+"#"+tag) && g.claim(hp, name) {
				realised = variant
			} else {
				hp, name = p, "_"+test+"#"+tag
			}
		}
		if hp == p && name == "_"+test+"#"+tag {
			// (an other-package link of a test with the same name elsewhere may have taken the name)
			for n := 2; !g.claim(p, name); n++ {
				name = fmt.Sprintf("_%s#%s%d", test, tag, n)
			}
		}
		h := TSpec{L: Lbl{hp.Sub, hp.Pkg, name}, TestOnly: !r.Chance(1, 5), Deps: deps}
		g.decorate(&h)
		if r.Chance(1, 5) {
			// something the test also tests, found at this depth
			h.Deps = append(h.Deps, g.someDeps(1, 1, func(x *TSpec) bool { return !x.Test && !isHidden(x.L.Name) })...)
		}
		g.addTarget(h)
		deps = []Lbl{h.L}
	}
	if depth > 0 {
		g.in.chains = append(g.in.chains, fmt.Sprintf("depth%d-%s", depth, chainVariantNames[realised]))
	}
	return deps
}

// generateChain: the focused stream.  A library k that is (mostly) kept by something else, a test that
// reaches it through 0-3 hidden links (two and three are the common case), the adversarial links,
// and a few bystanders; the names make the test sort before, between and after the other targets.
func generateChain(r *lib.Rng) *Input {
	g := &gen{r: r, in: &Input{}, names: map[string]bool{}}
	p := Lbl{Pkg: lib.Pick(r, []string{"p", "lib", "a/b"})}
	q := Lbl{Pkg: lib.Pick(r, []string{"q", "a", "lib/x"})}
	pks := []Lbl{p, q}
	g.in.Pkgs = []PSpec{{Name: p.Pkg}, {Name: q.Pkg}}
	k := TSpec{L: Lbl{"", p.Pkg, "k"}, Srcs: []string{"k.go"}, TestOnly: r.Chance(1, 10)}
	g.claim(p, "k")
	g.addTarget(k)
	a := &g.in.A
	switch r.Intn(8) {
	case 0: // nothing keeps k: the test is not a root either
	case 1:
		g.in.Targets[0].Labels = []string{"keep"}
		a.KeepLabels = []string{"keep"}
	case 2:
		a.Keep = []Lbl{k.L}
	default:
		bp := lib.Pick(r, pks)
		bn := lib.Pick(r, []string{"bin", "a_bin", "zz_bin"})
		g.claim(bp, bn)
		b := TSpec{L: Lbl{"", bp.Pkg, bn}, Binary: true, Deps: []Lbl{k.L}, Srcs: []string{bn + ".go"}}
		if r.Chance(1, 3) {
			g.claim(q, "mid")
			g.addTarget(TSpec{L: Lbl{"", q.Pkg, "mid"}, Deps: []Lbl{k.L}, Srcs: []string{"mid.go"}})
			b.Deps = []Lbl{{"", q.Pkg, "mid"}}
		}
		g.addTarget(b)
	}
	if r.Chance(1, 2) {
		g.claim(q, "helper")
		g.addTarget(TSpec{L: Lbl{"", q.Pkg, "helper"}, Srcs: []string{"helper.go"}})
	}
	if r.Chance(1, 2) {
		g.claim(p, "old")
		g.addTarget(TSpec{L: Lbl{"", p.Pkg, "old"}, Srcs: lib.Pick(r, [][]string{{"old.go"}, {"old.go", "k.go"}, {"k_test.go"}})})
	}
	tests := []string{"k_test", "a_test", "zz_test"}
	lib.Shuffle(r, tests)
	for _, tn := range tests[:r.Range(1, 2)] {
		g.claim(p, tn)
		depth := []int{0, 1, 2, 2, 2, 3, 3, 3}[r.Intn(8)]
		variant := chainOwn
		if depth > 0 && r.Chance(1, 3) {
			variant = r.Range(1, nChainVariants-1)
		}
		subj := []Lbl{k.L}
		if r.Chance(1, 3) {
			subj = append(subj, g.someDeps(1, 1, func(x *TSpec) bool { return x.L != k.L && !x.Test && !isHidden(x.L.Name) })...)
		}
		t := TSpec{L: Lbl{"", p.Pkg, tn}, Test: true, Binary: true, TestOnly: true, Srcs: []string{tn + ".go"}}
		t.Deps = g.chain(p, pks, tn, subj, depth, variant)
		if r.Chance(1, 6) {
			t.Binary = false
		}
		g.addTarget(t)
	}
	a.Conservative = r.Chance(1, 10)
	if len(a.Targets) == 0 {
		a.Targets = expand(g.in, a.Keep)
	}
	if r.Chance(1, 8) {
		a.Filter = []Lbl{{"", p.Pkg, lib.Pick(r, []string{"all", "..."})}}
	}
	return g.in
}

// ---- packages of a subrepo that share their name with a package of the host repository -----------
// gc.go finds every package's subincludes, and the targets a named //pkg/... stands for, by ranging over
// BuildGraph.PackageMap() - a copy of the graph's packages keyed by a string.  Two packages of the same name
// (lib, src, cmd, the root package ... of the host repository and of a third-party subrepo) must both be
// in it.  Which of two colliding entries would survive depends on the order the graph's shards are listed
// in, i.e. on a hash of (subrepo, name): the subrepo's name is drawn from a pool.

var shadowPkgPool = []string{"lib", "src", "cmd", "", "lib/x", "a/b", "third_party/go"}
var shadowSubrepoPool = func() []string {
	out := []string{"sr", "tp", "third_party/go", "third_party/go_x", "pleasings", "vendor"}
	for i := 0; i < 16; i++ {
		out = append(out, fmt.Sprintf("third_party_%d", i))
	}
	return out
}()

// generateShadow: a host repository with 3-5 packages, one or two of which (S) also exist in a subrepo.
// What only S keeps: a build_defs target that S alone subincludes (with a dependency, a source, sometimes a
// test), and/or the targets of S itself under a named //S/... (or //...).  Controls: the same subinclude
// also registered by a package that is not shadowed, the subrepo without the shadowing package.
func generateShadow(r *lib.Rng) *Input {
	g := &gen{r: r, in: &Input{}, names: map[string]bool{}}
	names := append([]string{}, shadowPkgPool...)
	lib.Shuffle(r, names)
	S := Lbl{Pkg: names[0]}
	D := Lbl{Pkg: "build_defs"}
	host := []Lbl{S, D, {Pkg: "app"}, {Pkg: "old"}}
	if r.Chance(1, 2) {
		host = append(host, Lbl{Pkg: names[1]})
	}
	sub := lib.Pick(r, shadowSubrepoPool)
	subPkgs := []Lbl{}
	if !r.Chance(1, 8) { // control: no package of that name in the subrepo
		subPkgs = append(subPkgs, Lbl{Sub: sub, Pkg: S.Pkg})
	}
	if r.Chance(1, 3) {
		subPkgs = append(subPkgs, Lbl{Sub: sub, Pkg: lib.Pick(r, []string{"app", "build_defs", names[1], "other"})})
	}
	if r.Chance(1, 6) { // a second subrepo with the same package again
		subPkgs = append(subPkgs, Lbl{Sub: sub + "_2", Pkg: S.Pkg})
	}
	add := func(t TSpec) Lbl {
		g.claim(Lbl{t.L.Sub, t.L.Pkg, ""}, t.L.Name)
		g.addTarget(t)
		return t.L
	}
	// the host repository
	util := add(TSpec{L: Lbl{"", "app", "util"}, Srcs: []string{"util.go"}})
	add(TSpec{L: Lbl{"", "app", "main"}, Binary: true, Deps: []Lbl{util}, Srcs: []string{"main.go"}})
	helpers := add(TSpec{L: Lbl{"", D.Pkg, "helpers"}, Srcs: []string{"helpers.build_defs"}})
	defs := add(TSpec{L: Lbl{"", D.Pkg, "defs"}, Deps: []Lbl{helpers}, Srcs: []string{"defs.build_defs"}})
	defs2 := add(TSpec{L: Lbl{"", D.Pkg, "more_defs"}, Srcs: []string{"more.build_defs"}})
	codec := add(TSpec{L: Lbl{"", S.Pkg, "codec"}, Srcs: []string{"codec.go"}})
	api := add(TSpec{L: Lbl{"", S.Pkg, "api"}, Deps: []Lbl{codec}, Srcs: []string{"api.go"}})
	add(TSpec{L: Lbl{"", "old", "junk"}, Srcs: lib.Pick(r, [][]string{{"junk.go"}, {"junk.go", "../build_defs/helpers.build_defs"}})})
	if r.Chance(1, 3) {
		// a test of the helpers: stays exactly when the helpers do
		add(TSpec{L: Lbl{"", D.Pkg, "helpers_test"}, Test: true, Binary: true, TestOnly: true, Deps: []Lbl{helpers}, Srcs: []string{"helpers_test.go"}})
	}
	if r.Chance(1, 4) {
		add(TSpec{L: Lbl{"", S.Pkg, "api_test"}, Test: true, Binary: true, TestOnly: true, Deps: []Lbl{api}, Srcs: []string{"api_test.go"}})
	}
	if len(host) > 4 {
		x := add(TSpec{L: Lbl{"", host[4].Pkg, "extra"}, Srcs: []string{"extra.go"}})
		if r.Chance(1, 3) {
			g.in.Targets[1].Deps = append(g.in.Targets[1].Deps, x)
		}
	}
	// the subrepo(s): every target of a subrepo is a root for gc.go anyway
	var vendored []Lbl
	for _, sp := range subPkgs {
		v := add(TSpec{L: Lbl{sp.Sub, sp.Pkg, "vendored"}, Srcs: []string{"vendored.go"}})
		vendored = append(vendored, v)
		if r.Chance(1, 3) {
			add(TSpec{L: Lbl{sp.Sub, sp.Pkg, "vendored_test"}, Test: true, Binary: true, TestOnly: true, Deps: []Lbl{v}})
		}
	}
	for _, p := range host {
		g.in.Pkgs = append(g.in.Pkgs, PSpec{Name: p.Pkg})
	}
	for _, sp := range subPkgs {
		ps := PSpec{Sub: sp.Sub, Name: sp.Pkg}
		if r.Chance(1, 4) {
			// the subrepo's package subincludes something too (one of its own targets, or the host's other defs)
			ps.Subincludes = []Lbl{lib.Pick(r, append(append([]Lbl{}, vendored...), defs2))}
		}
		g.in.Pkgs = append(g.in.Pkgs, ps)
	}
	a := &g.in.A
	mode := r.Intn(8)
	if mode <= 4 || mode == 7 { // S - and mostly S alone - subincludes //build_defs:defs
		g.in.Pkgs[0].Subincludes = []Lbl{defs}
		if r.Chance(1, 4) {
			g.in.Pkgs[0].Subincludes = append(g.in.Pkgs[0].Subincludes, defs2)
		}
		if r.Chance(1, 8) { // control: a package that is not shadowed registers it as well
			g.in.Pkgs[2].Subincludes = []Lbl{defs}
		}
	}
	if mode >= 5 { // a direct caller names //S/... (or //...): the targets of the host package S are roots
		l := Lbl{"", S.Pkg, "..."}
		if r.Chance(1, 5) {
			l = Lbl{"", "", "..."}
		}
		a.Targets = []Lbl{l}
		if r.Chance(1, 3) {
			a.Targets = append(a.Targets, defs2)
		}
	}
	if r.Chance(1, 6) {
		a.KeepLabels = []string{"keep"}
		g.in.Targets[4].Labels = []string{"keep"}
	}
	a.Conservative = r.Chance(1, 8)
	if r.Chance(1, 10) {
		a.Filter = []Lbl{{"", lib.Pick(r, []string{D.Pkg, S.Pkg}), "..."}}
	}
	g.in.chains = nil
	return g.in
}

// generate builds one graph in creation order; dependencies only point at targets created earlier
// (acyclic), while the label order - the order the implementation iterates in - is unrelated.
func generate(r *lib.Rng, adv bool) *Input {
	g := &gen{r: r, in: &Input{}, names: map[string]bool{}, adv: adv}
	npk := r.Range(1, 4)
	pk := []Lbl{}
	perm := append([]string{}, pkgPool...)
	lib.Shuffle(r, perm)
	for _, p := range perm[:npk] {
		pk = append(pk, Lbl{Pkg: p})
	}
	if r.Chance(1, 6) {
		pk = append(pk, Lbl{Sub: "sr", Pkg: lib.Pick(r, []string{"", "p"})})
	}
	for _, p := range pk {
		g.in.Pkgs = append(g.in.Pkgs, PSpec{Sub: p.Sub, Name: p.Pkg})
	}
	n := r.Range(2, 9)
	if adv {
		n = r.Range(2, 5)
	}
	nonTest := func(t *TSpec) bool { return !t.Test }
	for i := 0; i < n; i++ {
		p := lib.Pick(r, pk)
		k := r.Intn(100)
		t := TSpec{L: Lbl{p.Sub, p.Pkg, ""}}
		switch {
		case k < 34: // library
			t.L.Name = g.fresh(p, "l")
			t.Deps = g.someDeps(0, 2, nonTest)
		case k < 46: // binary
			t.L.Name = g.fresh(p, "b")
			t.Binary = true
			t.Deps = g.someDeps(0, 3, nonTest)
		case k < 56: // test_only library
			t.L.Name = g.fresh(p, "o")
			t.TestOnly = true
			t.Deps = g.someDeps(0, 2, nonTest)
		case k < 84: // test, possibly with a hidden library of its own in between
			t.L.Name = g.fresh(p, "t")
			t.Test, t.Binary, t.TestOnly = true, true, true
			subj := g.someDeps(1, 3, nil)
			// the way to the subjects: direct, or through a chain of 1-3 hidden sub-targets (of the test's own
			// rule, or - adversarial - with one link that only looks like one)
			depth := []int{0, 0, 0, 0, 0, 1, 1, 1, 2, 2, 3, 3}[r.Intn(12)]
			variant := chainOwn
			if depth > 0 && r.Chance(1, 4) {
				variant = r.Range(1, nChainVariants-1)
			}
			t.Deps = g.chain(p, pk, t.L.Name, subj, depth, variant)
			if depth > 0 && r.Chance(1, 3) {
				t.Deps = append(t.Deps, g.someDeps(1, 1, nonTest)...)
			}
			if adv {
				if r.Chance(1, 4) {
					t.Binary = false
				}
				if r.Chance(1, 4) {
					t.TestOnly = false
				}
			}
		default: // a rule with hidden sub-targets: name -> _name#a -> deps
			t.L.Name = g.fresh(p, "r")
			h := TSpec{L: Lbl{p.Sub, p.Pkg, "_" + t.L.Name + "#a"}, Deps: g.someDeps(0, 2, nonTest)}
			g.decorate(&h)
			g.addTarget(h)
			t.Deps = []Lbl{h.L}
			t.Binary = r.Chance(1, 4)
		}
		g.decorate(&t)
		if r.Chance(1, 10) && len(g.in.Targets) > 0 {
			// require/provide: the dependency resolves to something else than what was declared
			for j := range g.in.Targets {
				o := &g.in.Targets[j]
				if len(t.Deps) > 0 && o.L == t.Deps[0] && o.Provides == nil {
					alt := g.someDeps(1, 1, func(x *TSpec) bool { return x.L != o.L && !x.Test })
					if len(alt) == 1 {
						o.Provides = map[string][]Lbl{"lang": alt}
						t.Requires = append(t.Requires, "lang")
					}
				}
			}
		}
		if r.Chance(1, 14) && len(g.in.Targets) > 0 {
			t.SrcDeps = g.someDeps(1, 1, nonTest)
		}
		if r.Chance(1, 25) {
			t.NoResolve = true
		}
		if p.Sub != "" && r.Chance(1, 2) {
			st := g.someDeps(1, 1, func(x *TSpec) bool { return x.L.Sub == "" && !x.Test })
			if len(st) == 1 {
				t.SubTarget = &st[0]
			}
		}
		g.addTarget(t)
	}
	// subincludes
	if r.Chance(1, 4) {
		for i := range g.in.Pkgs {
			if r.Chance(1, 2) {
				g.in.Pkgs[i].Subincludes = g.someDeps(1, 2, nonTest)
			}
		}
	}
	g.args()
	return g.in
}

func (g *gen) pseudo() Lbl {
	r := g.r
	p := lib.Pick(r, pkgPool)
	switch r.Intn(3) {
	case 0:
		return Lbl{"", p, "all"}
	case 1:
		return Lbl{"", p, "..."}
	}
	if len(g.in.Targets) > 0 && r.Chance(4, 5) {
		return lib.Pick(r, g.in.Targets).L
	}
	return Lbl{"", p, "missing"}
}

// expand is what BuildState.ExpandLabels does to gc.keep before it is passed as `targets`.
func expand(in *Input, keep []Lbl) []Lbl {
	out := []Lbl{}
	for _, k := range keep {
		if k.Name != "all" && k.Name != "..." {
			out = append(out, k)
			continue
		}
		ls := []core.BuildLabel{}
		for _, t := range in.Targets {
			if k.core().Includes(t.L.core()) {
				ls = append(ls, t.L.core())
			}
		}
		sort.Slice(ls, func(i, j int) bool { return ls[i].Less(ls[j]) })
		for _, l := range ls {
			out = append(out, fromCore(l))
		}
	}
	return out
}

func (g *gen) args() {
	r := g.r
	a := &g.in.A
	a.Conservative = r.Chance(1, 4)
	if r.Chance(1, 4) {
		a.KeepLabels = lib.Pick(r, keepLabelPool)
	}
	if r.Chance(1, 3) {
		for i := r.Range(1, 2); i > 0; i-- {
			a.Keep = append(a.Keep, g.pseudo())
		}
	}
	if g.adv && r.Chance(1, 2) {
		// direct callers of targetsToRemove: `targets` unrelated to gc.keep, pseudo-labels not expanded
		for i := r.Range(1, 2); i > 0; i-- {
			a.Targets = append(a.Targets, g.pseudo())
		}
	} else {
		a.Targets = expand(g.in, a.Keep)
	}
	if r.Chance(1, 5) {
		for i := r.Range(1, 2); i > 0; i-- {
			a.Filter = append(a.Filter, g.pseudo())
		}
	}
}

// fixed witnesses of the known defect classes (and of their fixed-order twins that behave)
func witnesses() []*Input {
	l := func(pkg, name string) Lbl { return Lbl{"", pkg, name} }
	pk := func(names ...string) []PSpec {
		out := []PSpec{}
		for _, n := range names {
			out = append(out, PSpec{Name: n})
		}
		return out
	}
	test := func(lb Lbl, deps ...Lbl) TSpec {
		return TSpec{L: lb, Test: true, Binary: true, TestOnly: true, Deps: deps, Srcs: []string{lb.Name + ".go"}}
	}
	ws := []*Input{}
	// 1. single pass over the tests: //p:a_test (visited first) tests //p:helper, which only becomes kept when
	//    //p:z_test - a test of the kept //p:lib that also uses helper - is visited later
	for _, first := range []string{"a_test", "zz_test"} {
		ws = append(ws, &Input{Pkgs: pk("p"), Targets: []TSpec{
			{L: l("p", "bin"), Binary: true, Deps: []Lbl{l("p", "lib")}},
			{L: l("p", "lib"), Srcs: []string{"lib.go"}},
			{L: l("p", "helper"), Srcs: []string{"helper.go"}},
			test(l("p", "z_test"), l("p", "lib"), l("p", "helper")),
			test(l("p", first), l("p", "helper")),
		}})
	}
	// 2. gc_sibling: //p:gen_go is needed by the binary, its sibling //p:gen is not
	ws = append(ws, &Input{Pkgs: pk("p"), Targets: []TSpec{
		{L: l("p", "bin"), Binary: true, Deps: []Lbl{l("p", "gen_go")}},
		{L: l("p", "gen"), Srcs: []string{"x.proto"}},
		{L: l("p", "gen_go"), Labels: []string{"gc_sibling:gen"}, Srcs: []string{"x.proto"}},
	}})
	// 3. conservative mode: a test that is not a binary is not looked at
	ws = append(ws, &Input{Pkgs: pk("p"), A: ASpec{Conservative: true}, Targets: []TSpec{
		{L: l("p", "bin"), Binary: true, Deps: []Lbl{l("p", "lib")}},
		{L: l("p", "lib"), Srcs: []string{"lib.go"}},
		{L: l("p", "lib_test"), Test: true, TestOnly: true, Deps: []Lbl{l("p", "lib")}, Srcs: []string{"lib_test.go"}},
	}})
	// 4. data of a kept target / a file inside a directory a kept target lists
	ws = append(ws, &Input{Pkgs: pk("p"), Targets: []TSpec{
		{L: l("p", "bin"), Binary: true, Data: []string{"golden.txt"}},
		{L: l("p", "old"), Srcs: []string{"golden.txt"}},
	}})
	ws = append(ws, &Input{Pkgs: pk("p"), Targets: []TSpec{
		{L: l("p", "bin"), Binary: true, Srcs: []string{"assets"}},
		{L: l("p", "old"), Srcs: []string{"assets/logo.png"}},
	}})
	// 5. the fixed graph of gc_test.go
	ws = append(ws, &Input{Pkgs: pk("src", "src/core", "src/gc", "src/parse", "src/cli"), Targets: []TSpec{
		{L: l("src/core", "core")},
		{L: l("src/gc", "gc"), Deps: []Lbl{l("src/core", "core")}},
		{L: l("src/core", "core_test"), Test: true, Binary: true, Deps: []Lbl{l("src/core", "core")}},
		{L: l("src", "please"), Binary: true, Deps: []Lbl{l("src/core", "core"), l("src/gc", "gc")}},
		{L: l("src/gc", "test_lib"), TestOnly: true, Deps: []Lbl{l("src/core", "core")}},
		{L: l("src/gc", "gc_test"), Test: true, Binary: true, Deps: []Lbl{l("src/gc", "test_lib"), l("src/gc", "gc")}},
		{L: l("src/parse", "parse"), Deps: []Lbl{l("src/core", "core")}},
		{L: l("src/cli", "cli")},
	}})
	// 6. a test behind a chain of two / three hidden sub-targets of its own rule (multi-stage test rules):
	//    it is a test of the kept //lib:k and must stay, with the helper only it uses
	for depth := 2; depth <= 3; depth++ {
		ts := []TSpec{
			{L: l("lib", "k"), Srcs: []string{"k.go"}},
			{L: l("app", "bin"), Binary: true, Deps: []Lbl{l("lib", "k")}},
			{L: l("testing", "helper"), Srcs: []string{"helper.go"}},
			{L: l("junk", "junk"), Srcs: []string{"junk.go"}},
		}
		deps := []Lbl{l("lib", "k"), l("testing", "helper")}
		for i := depth; i >= 1; i-- {
			h := l("lib", "_k_test#"+chainTags[i-1])
			ts = append(ts, TSpec{L: h, TestOnly: true, Deps: deps})
			deps = []Lbl{h}
		}
		ts = append(ts, test(l("lib", "k_test"), deps...))
		ws = append(ws, &Input{Pkgs: pk("lib", "app", "testing", "junk"), Targets: ts})
	}
	// 7. the links that only look like one: a hidden sub-target of another rule, the same name in another
	//    package, a name without the underscore - what is behind them is NOT what the test tests (the test goes,
	//    unless the link itself is kept) - and many underscores, which Parent() trims (the test stays)
	for _, link := range []Lbl{l("lib", "_other#lib"), l("app", "_k_test#lib"), l("lib", "k_test#lib"), l("lib", "___k_test#lib")} {
		for _, linkKept := range []bool{false, true} {
			ts := []TSpec{
				{L: l("lib", "k"), Srcs: []string{"k.go"}},
				{L: l("app", "bin"), Binary: true, Deps: []Lbl{l("lib", "k")}},
				{L: l("lib", "other"), Srcs: []string{"other.go"}},
				{L: link, Deps: []Lbl{l("lib", "k")}},
				{L: l("lib", "_k_test#main"), TestOnly: true, Deps: []Lbl{link}},
				test(l("lib", "k_test"), l("lib", "_k_test#main")),
			}
			if linkKept {
				ts[1].Deps = append(ts[1].Deps, link)
			}
			ws = append(ws, &Input{Pkgs: pk("lib", "app"), Targets: ts})
		}
	}
	// 8. a subrepo with a package of the same name as a host package (the graph of the round-2 demonstration):
	//    only lib/BUILD subincludes //build_defs:defs; or //lib/... is named.  Sixteen subrepo names, because
	//    which of two entries of a map keyed by the bare name would survive depends on a hash of the subrepo's name
	for i := 0; i < 16; i++ {
		sub := fmt.Sprintf("third_party_%d", i)
		for _, namedRoot := range []bool{false, true} {
			in := &Input{
				Pkgs: []PSpec{{Name: "app"}, {Name: "lib"}, {Name: "build_defs"}, {Name: "old"}, {Sub: sub, Name: "lib"}},
				Targets: []TSpec{
					{L: l("app", "util")},
					{L: l("app", "main"), Binary: true, Deps: []Lbl{l("app", "util")}},
					{L: l("build_defs", "helpers"), Srcs: []string{"helpers.build_defs"}},
					{L: l("build_defs", "defs"), Deps: []Lbl{l("build_defs", "helpers")}, Srcs: []string{"defs.build_defs"}},
					{L: l("lib", "codec"), Srcs: []string{"codec.go"}},
					{L: l("lib", "api"), Deps: []Lbl{l("lib", "codec")}, Srcs: []string{"api.go"}},
					{L: l("old", "junk"), Srcs: []string{"junk.go"}},
					{L: Lbl{sub, "lib", "vendored"}},
				}}
			if namedRoot {
				in.A.Targets = []Lbl{l("lib", "...")}
			} else {
				in.Pkgs[1].Subincludes = []Lbl{l("build_defs", "defs")}
			}
			ws = append(ws, in)
		}
	}
	return ws
}

// ---------------------------------------------------------------------------------------------

// sameNameStat: are there packages of the same name in different (sub)repositories, and does one of them
// register a subinclude?
func sameNameStat(b *built) string {
	byName := map[string][]*core.Package{}
	for _, p := range b.allPkgs() {
		byName[p.Name] = append(byName[p.Name], p)
	}
	stat := "none"
	for _, ps := range byName {
		if len(ps) < 2 {
			continue
		}
		if stat == "none" {
			stat = "yes"
		}
		for _, p := range ps {
			if len(p.Subincludes) > 0 && p.SubrepoName == "" {
				stat = "yes-host-one-subincludes"
			}
		}
	}
	return stat
}

func jsLabels(ls []core.BuildLabel) []string {
	out := []string{}
	for _, l := range ls {
		out = append(out, l.String())
	}
	return out
}

func main() {
	gologging.SetLevel(gologging.CRITICAL, "plz") // gc.go logs every decision at debug/notice level
	lib.Main("C25", func(c *lib.Ctx) {
		c.Model("From PlzV Require Import Model.C25.", "C25.case", "C25.check")
		c.Rule("graphs of 2-12 targets built with the real core API (NewBuildTarget, AddDependency, ResolveDependencies, AddSource, AddDatum, " +
			"AddProvide/AddRequire, Package.RegisterSubinclude, Subrepo.Target) in a creation order unrelated to the label order: libraries, binaries, " +
			"tests (binary, test_only, some with a hidden _t#lib in between), test_only libraries, rules with hidden sub-targets, sources shared between " +
			"targets and packages (a: b/f0.go = a/b: f0.go), directories as sources, data files, gc_sibling labels, missing dependencies, require/provide, " +
			"subincludes, a subrepo; arguments: gc.keep with //p:all and //p/... entries (targets = its expansion, as please.go does), keep labels with " +
			"wildcards, a command-line filter, conservative mode. An adversarial stream uses small graphs, non-binary or non-test_only tests and " +
			"unexpanded pseudo-labels as targets; fixed witnesses of every listed defect class are always included. " +
			"Tests reach what they test directly or through a chain of 1-3 hidden sub-targets of their own rule (_t#main -> _t#lib -> ...), with adversarial " +
			"links that only look like one (hidden sub-target of another rule, same name in another package, no underscore) or still are one (___t#lib); a " +
			"focused stream builds small graphs around one such test of a library kept by a binary / keep label / gc.keep entry / nothing, and " +
			"publicDependencies is also observed on the hidden sub-targets themselves. " +
			"A third stream builds host repositories one or two of whose packages (lib, src, cmd, the root package ...) also exist in a subrepo " +
			"(name from a pool of 22: the order the graph lists its packages in depends on a hash of it), where the host package alone subincludes a " +
			"build_defs target (with a dependency, a source, sometimes a test) and/or a direct caller names //pkg/... or //...; controls without the " +
			"shadowing package or with a second subincluder. The packages sent to the model and used by the oracle are the ones the harness ADDED " +
			"(its own record), never BuildGraph.PackageMap(); the real PackageMap() is observed separately (key -> package) and compared with the model's copy. " +
			"distinct = distinct graph+arguments; non-trivial = at least one target kept, one removed and one test in the graph")

		var replay Input
		if c.ReadReplay(&replay) {
			b := build(&replay)
			out := run(b, &replay.A)
			c.Case(wCase(b, &replay.A, out, nil, nil), &replay, "replay", true)
			oracle(c, b, &replay, out)
			return
		}

		one := func(in *Input, withModel bool, stream string) {
			b := build(in)
			out := run(b, &in.A)
			nTests := 0
			for _, t := range in.Targets {
				if t.Test {
					nTests++
				}
			}
			kb, _ := json.Marshal(in)
			key := string(kb)
			nontrivial := len(out.removed) > 0 && len(out.removed) < len(in.Targets) && nTests > 0
			js := map[string]any{"graph": in.Targets, "packages": in.Pkgs, "args": in.A, "removed": jsLabels(out.removed), "removed_srcs": out.srcs}
			if withModel {
				// the two helper functions on their own, on a few targets of the same graph
				pubs, sibs := []string{}, []string{}
				pubsJS, sibsJS := map[string][]string{}, map[string]string{}
				nHiddenObs := 0
				for _, t := range b.graph.AllTargets() {
					// every test (the first three), and two hidden sub-targets: the recursive calls on their own
					obsHidden := !t.IsTest() && t.Label.HasParent() && nHiddenObs < 2
					if obsHidden {
						nHiddenObs++
					}
					if (t.IsTest() && len(pubs)-nHiddenObs < 3) || obsHidden {
						deps := []core.BuildLabel{}
						for _, d := range gc.VerifPublicDependencies(b.graph, t) {
							deps = append(deps, d.Label)
						}
						pubs = append(pubs, wLabel(t.Label)+"|"+wLabels(deps))
						pubsJS[t.Label.String()] = jsLabels(deps)
					}
					if len(t.PrefixedLabels("gc_sibling:")) > 0 {
						sb := gc.VerifGcSibling(b.graph, t)
						sibs = append(sibs, wLabel(t.Label)+"|"+wLabel(sb.Label))
						sibsJS[t.Label.String()] = sb.Label.String()
					}
				}
				js["public_dependencies"], js["gc_sibling"] = pubsJS, sibsJS
				c.Case(wCase(b, &in.A, out, pubs, sibs), js, key, nontrivial)
				c.HistN("model_pubdeps_checked", len(pubs))
				c.HistN("model_siblings_checked", min(len(sibs), 4))
			} else {
				c.Eval(js, key, nontrivial)
			}
			v := oracle(c, b, in, out)
			for _, ch := range in.chains {
				c.Hist(stream+"_hidden_chain", ch)
			}
			if len(in.chains) == 0 {
				c.Hist(stream+"_hidden_chain", "none")
			}
			c.Hist(stream+"_same_name_packages", sameNameStat(b))
			c.HistN(stream+"_targets", len(in.Targets))
			c.HistN(stream+"_removed", len(out.removed))
			c.HistN(stream+"_removed_srcs", min(len(out.srcs), 6))
			c.Hist(stream+"_mode", map[bool]string{true: "conservative", false: "default"}[in.A.Conservative])
			c.Hist(stream+"_violating", map[bool]string{true: "yes", false: "no"}[v > 0])
		}

		for _, w := range witnesses() {
			if len(w.A.Targets) == 0 {
				w.A.Targets = expand(w, w.A.Keep)
			}
			one(w, true, "witness")
		}
		nModel, nOracle := c.Scale(390, 7990), c.Scale(24000, 300000)
		nChainModel, nChainOracle := c.Scale(110, 2000), c.Scale(6000, 80000)
		for i := 0; i < nModel; i++ {
			one(generate(c.Rng.Fork(), i%3 == 2), true, "model")
		}
		for i := 0; i < nChainModel; i++ {
			one(generateChain(c.Rng.Fork()), true, "chainmodel")
		}
		for i := 0; i < nChainOracle; i++ {
			one(generateChain(c.Rng.Fork()), false, "chain")
		}
		nShadowModel, nShadowOracle := c.Scale(70, 1500), c.Scale(3000, 50000)
		for i := 0; i < nShadowModel; i++ {
			one(generateShadow(c.Rng.Fork()), true, "shadowmodel")
		}
		for i := 0; i < nShadowOracle; i++ {
			one(generateShadow(c.Rng.Fork()), false, "shadow")
		}
		for i := 0; i < nOracle; i++ {
			one(generate(c.Rng.Fork(), i%3 == 2), false, "oracle")
		}
		if os.Getenv("VERIF_C25_DEBUG") != "" {
			fmt.Fprintln(os.Stderr, "done")
		}
	})
}
