// C14: cleaning of the directory cache. Implementation side of the correspondence + property oracle.
//
// Every case builds a real cache directory under a temporary directory (partly through the real
// Store/Retrieve, partly by writing entries with chosen sizes and access times), runs the real
// dirCache.clean through the verif hook and lists what survived.
package main

import (
	"encoding/base64"
	"fmt"
	"math"
	"os"
	"path/filepath"
	"runtime"
	"sort"
	"strings"
	"syscall"
	"time"

	"verifharness/lib"

	gologging "gopkg.in/op/go-logging.v1"

	"github.com/thought-machine/please/src/cache"
	"github.com/thought-machine/please/src/core"
)

// ---------------------------------------------------------------------------------------------
// the input of one case (JSON, replayable)

type FileSpec struct {
	Rel  string `json:"rel"`
	Size int    `json:"size"`
}

// Op is one step of the history that produces the cache contents.
//
//	disk     an entry already in the cache (written by an earlier process), unmarked
//	retrieve an entry already in the cache that the current process retrieves (real Retrieve)
//	store    an entry the current process stores (real Store)
//	begin    a Store in progress: entry marked, previous version removed, files partly written
//	storing  the REAL dirCache.Store of the current process, running in its own goroutine and stopped inside the
//	         RecursiveLink of output number Gate (that output is a FIFO and the cache lies on another file
//	         system than the outputs, so the Store blocks copying it until the harness feeds the FIFO);
//	         Old: a previous version of the entry, written by an earlier process, is there when it starts
//	stray    any other file or directory inside the cache directory
type Op struct {
	How   string     `json:"how"`
	Pkg   string     `json:"pkg,omitempty"`
	Name  string     `json:"name,omitempty"`
	Key   []byte     `json:"key,omitempty"`
	Tmp   bool       `json:"tmp,omitempty"` // disk only: a left-over temporary entry (<key>=)
	Files []FileSpec `json:"files,omitempty"`
	Atime int64      `json:"atime"` // seconds relative to the start of the run
	Rel   string     `json:"rel,omitempty"`
	Dir   bool       `json:"dir,omitempty"`
	Size  int        `json:"size,omitempty"`
	Gate  int        `json:"gate,omitempty"`
	Old   bool       `json:"old_version,omitempty"`
}

type Spec struct {
	Kind     string `json:"kind"`
	Compress bool   `json:"compress"`
	Root     string `json:"root"` // base name of the cache directory
	Ops      []Op   `json:"ops"`
	High     uint64 `json:"high"`
	Low      uint64 `json:"low"`
	Marks    string `json:"water_marks,omitempty"` // how high/low were chosen
	Race     *Race  `json:"race,omitempty"`        // kind "race": clean runs concurrently with one Retrieve/Store
}

// Race describes a cache in which clean has a long queue: Victims old entries of one target (queue
// positions 0..Victims-1 by access time, 2000 s apart) and one more old entry ("precious") that Pos
// victims precede.  clean(1, 0) runs in a goroutine; as soon as the first victim has disappeared (the
// walk is over, the eviction loop is running) the process uses the precious entry.
type Race struct {
	Victims  int    `json:"victims"`
	Files    int    `json:"files"`     // files per entry (uncompressed)
	FileSize int    `json:"file_size"` // bytes per file
	Pos      int    `json:"pos"`       // 1..Victims
	How      string `json:"how"`       // retrieve | retrieve-outs | store
	KeySeed  uint64 `json:"key_seed"`
}

// RaceObs is what was seen of the schedule.
type RaceObs struct {
	Attempts int  `json:"attempts"`
	Started  bool `json:"eviction_observed"`  // the first victim disappeared while clean was running
	OpOK     bool `json:"operation_succeeded"` // Retrieve returned true / Store left the entry in place
	Hit      bool `json:"window_hit"`          // after the operation returned, the victim queued just before the precious entry was still there
	KLo      int  `json:"iterations_started_at_least"`
	KHi      int  `json:"iterations_started_at_most"`
	Survived bool `json:"precious_survived"`
}

type Item struct {
	Path  []string `json:"path"`
	Dir   bool     `json:"dir"`
	Size  uint64   `json:"size"`
	Atime int64    `json:"atime"`
}

type Call struct {
	Path []string `json:"path"`
	Size uint64   `json:"size"`
}

type Obs struct {
	Spec      Spec       `json:"spec"`
	Items     []Item     `json:"items,omitempty"`
	Calls     []Call     `json:"calls,omitempty"`
	Total0    uint64     `json:"total_before"`
	Total     uint64     `json:"total_returned"`
	Survivors [][]string `json:"survivors,omitempty"`
	Removed   []string   `json:"removed"`
	Race      *RaceObs   `json:"race_observed,omitempty"`
	Storing   []StoringObs `json:"stores_in_progress,omitempty"`
}

// StoringObs: one real Store that was in progress while clean ran, and what it left when it was let go.
type StoringObs struct {
	Entry    string     `json:"entry"`
	Marked   bool       `json:"entry_marked_when_clean_started"`
	Missing  []string   `json:"files_missing_from_the_stored_entry"`
	pre      []lst      // the cache directory before the Store started
	preCalls []Call     // the markDir calls before the Store started
	afterAll [][]string // the cache directory after the Store finished
	tmpRel   string
	files    []FileSpec
	gate     int
}

// ---------------------------------------------------------------------------------------------

var start = time.Now().Unix()

func target(pkg, name string) *core.BuildTarget {
	return core.NewBuildTarget(core.BuildLabel{PackageName: pkg, Name: name})
}

func writeFile(path string, size int) {
	must(os.MkdirAll(filepath.Dir(path), 0o755))
	os.Remove(path) // never write through a hard link into the cache
	b := make([]byte, size)
	for i := range b {
		b[i] = byte('a' + i%23)
	}
	must(os.WriteFile(path, b, 0o644))
}

func must(err error) {
	if err != nil {
		panic(err)
	}
}

type lst struct {
	rel   string // path relative to the parent of the cache directory
	dir   bool
	size  uint64
	atime int64
}

// list returns the cache directory in godirwalk's order: parents first, siblings by name.
func list(parent, rel string, out *[]lst) {
	full := filepath.Join(parent, rel)
	info, err := os.Lstat(full)
	if err != nil && os.IsNotExist(err) && !strings.Contains(rel, "/") {
		return // the cache directory itself is gone
	}
	must(err)
	st := info.Sys().(*syscall.Stat_t)
	*out = append(*out, lst{rel: rel, dir: info.IsDir(), size: uint64(info.Size()), atime: st.Atim.Sec})
	if info.IsDir() {
		ents, err := os.ReadDir(full) // sorted by name
		must(err)
		for _, e := range ents {
			list(parent, filepath.Join(rel, e.Name()), out)
		}
	}
}

func comps(rel string) []string { return strings.Split(rel, "/") }

func under(p, q string) bool { return q == p || strings.HasPrefix(q, p+"/") }

// entryName is the harness's own reading of "this name is that of a cache entry": the padded
// base64 of a 20- or 32-byte key (28 or 44 characters, the last one "="), possibly followed by one
// more character (the "=" of a temporary entry), plus the suffix of a compressed cache.
func entryName(name string, compress bool) bool {
	if compress {
		if !strings.HasSuffix(name, ".tar.gz") {
			return false
		}
		name = strings.TrimSuffix(name, ".tar.gz")
	}
	for _, n := range []int{28, 44} {
		if (len(name) == n || len(name) == n+1) && name[n-1] == '=' {
			return true
		}
	}
	return false
}

type run struct {
	spec    Spec
	obs     Obs
	before  []lst
	after   map[string]bool
	prot    []string // paths (relative to the parent of the cache dir) that the current process stored or retrieved
	protTmp []string // temporary locations of stores in progress
	unprot  []string // entries of earlier processes
	ok      bool
	why     string
}

// execute builds the cache described by the spec, runs clean and records the observation.
// If chooseMarks is non-nil it picks the water marks once the size the code computes is known.
func execute(spec Spec, chooseMarks func(total uint64, sizes []uint64) (uint64, uint64, string)) *run {
	r := &run{spec: spec, after: map[string]bool{}}
	repo, err := os.MkdirTemp("", "c14-")
	must(err)
	defer os.RemoveAll(repo)
	must(os.Chdir(repo))
	core.RepoRoot = repo
	parent := repo // the directory the cache directory lies in
	for _, op := range spec.Ops {
		if op.How == "storing" && parent == repo {
			// on another file system than the outputs: os.Link fails with EXDEV and RecursiveLink copies
			parent, err = os.MkdirTemp("/dev/shm", "c14-")
			must(err)
			defer os.RemoveAll(parent)
		}
	}
	var pending []*pendingStore
	defer func() {
		for _, ps := range pending {
			ps.release()
		}
	}()
	cacheDir := filepath.Join(parent, spec.Root)
	dc := cache.VerifNewDirCache(cacheDir, spec.Compress)
	rel := func(p string) string {
		x, err := filepath.Rel(parent, p)
		must(err)
		return x
	}
	type timed struct {
		path  string
		atime int64
	}
	var times []timed
	var calls []string
	for _, op := range spec.Ops {
		switch op.How {
		case "stray":
			p := filepath.Join(cacheDir, op.Rel)
			if op.Dir {
				must(os.MkdirAll(p, 0o755))
			} else {
				writeFile(p, op.Size)
			}
			times = append(times, timed{p, op.Atime})
		case "disk", "retrieve":
			t := target(op.Pkg, op.Name)
			p := dc.Path(t, op.Key)
			if op.Tmp {
				p = dc.TmpPath(t, op.Key)
			}
			if spec.Compress {
				writeFile(p, op.Files[0].Size)
			} else {
				must(os.MkdirAll(p, 0o755))
				for _, f := range op.Files {
					writeFile(filepath.Join(p, f.Rel), f.Size)
				}
			}
			times = append(times, timed{p, op.Atime})
			if op.How == "retrieve" {
				if !dc.Retrieve(t, op.Key, nil) {
					r.why = "Retrieve of an existing entry returned false"
					return r
				}
				r.prot = append(r.prot, rel(p))
				calls = append(calls, p)
			} else if beingStored := func() bool {
				for _, o := range spec.Ops {
					if o.How == "storing" && op.Tmp && o.Pkg == op.Pkg && o.Name == op.Name && string(o.Key) == string(op.Key) {
						return true
					}
				}
				return false
			}(); !beingStored { // what lies at the temporary location of an entry this process is storing becomes part of that entry
				r.unprot = append(r.unprot, rel(p))
			}
		case "store":
			t := target(op.Pkg, op.Name)
			files := []string{}
			for _, f := range op.Files {
				writeFile(filepath.Join(repo, t.OutDir(), f.Rel), f.Size)
				t.AddOutput(f.Rel)
				files = append(files, f.Rel)
			}
			dc.Store(t, op.Key, files)
			p := dc.Path(t, op.Key)
			if _, err := os.Lstat(p); err != nil {
				r.why = "Store did not create the entry: " + err.Error()
				return r
			}
			r.prot = append(r.prot, rel(p))
			calls = append(calls, p)
		case "begin":
			t := target(op.Pkg, op.Name)
			p, tmp, err := dc.BeginStore(t, op.Key)
			must(err)
			if spec.Compress {
				writeFile(tmp, op.Files[0].Size)
			} else {
				must(os.MkdirAll(tmp, 0o755))
				for _, f := range op.Files {
					writeFile(filepath.Join(tmp, f.Rel), f.Size)
				}
			}
			r.protTmp = append(r.protTmp, rel(tmp))
			calls = append(calls, p)
		case "storing":
			if spec.Compress {
				panic("storing: uncompressed caches only")
			}
			if op.Old { // the previous version of the entry, left by an earlier process
				p := dc.Path(target(op.Pkg, op.Name), op.Key)
				writeFile(filepath.Join(p, "old.a"), 77)
				times = append(times, timed{p, op.Atime})
			}
		default:
			panic("unknown op " + op.How)
		}
	}
	for _, t := range times {
		at := time.Unix(start+t.atime, 0)
		if err := os.Chtimes(t.path, at, time.Unix(start-5_000_000, 0)); err != nil && !os.IsNotExist(err) {
			panic(err)
		}
	}
	// the real Stores of the current process: each runs up to its gate and stays there while clean runs
	for _, op := range spec.Ops {
		if op.How != "storing" {
			continue
		}
		so := StoringObs{files: op.Files, gate: op.Gate}
		var tmp []lst
		list(parent, spec.Root, &tmp)
		list(parent, spec.Root, &so.pre)
		marks := dc.Marks()
		for _, p := range calls {
			so.preCalls = append(so.preCalls, Call{Path: comps(rel(p)), Size: marks[p]})
		}
		t := target(op.Pkg, op.Name)
		ps := startStore(dc, repo, t, op)
		pending = append(pending, ps)
		so.Entry, so.tmpRel = rel(ps.path), rel(ps.tmp)
		_, so.Marked = dc.Marks()[ps.path]
		r.protTmp = append(r.protTmp, so.tmpRel)
		if so.Marked { // the model is told what the code did
			calls = append(calls, ps.path)
		}
		r.obs.Storing = append(r.obs.Storing, so)
	}
	// the first listing reads every directory, which settles the access times (relatime); the
	// second one is the input of the model
	var tmp []lst
	list(parent, spec.Root, &tmp)
	list(parent, spec.Root, &r.before)
	marks := dc.Marks()
	for _, p := range calls {
		r.obs.Calls = append(r.obs.Calls, Call{Path: comps(rel(p)), Size: marks[p]})
	}
	for _, it := range r.before {
		r.obs.Items = append(r.obs.Items, Item{Path: comps(it.rel), Dir: it.dir, Size: it.size, Atime: it.atime})
	}
	// the size the code computes, by a run of clean that cannot remove anything
	r.obs.Total0 = dc.Clean(math.MaxUint64, 0)
	var check []lst
	list(parent, spec.Root, &check)
	if len(check) != len(r.before) {
		r.why = "clean(MaxUint64, 0) changed the cache directory"
		return r
	}
	if chooseMarks != nil {
		sizes := []uint64{}
		for _, u := range r.unprot {
			sizes = append(sizes, r.sizeOf(u))
		}
		r.spec.High, r.spec.Low, r.spec.Marks = chooseMarks(r.obs.Total0, sizes)
	}
	r.obs.Spec = r.spec
	r.obs.Total = dc.Clean(r.spec.High, r.spec.Low)
	var after []lst
	list(parent, spec.Root, &after)
	for _, it := range after {
		r.after[it.rel] = true
		r.obs.Survivors = append(r.obs.Survivors, comps(it.rel))
	}
	for _, it := range r.before {
		if !r.after[it.rel] {
			r.obs.Removed = append(r.obs.Removed, it.rel)
		}
	}
	if r.obs.Removed == nil {
		r.obs.Removed = []string{}
	}
	for _, it := range after {
		found := false
		for _, b := range r.before {
			if b.rel == it.rel {
				found = true
			}
		}
		if !found {
			r.why = "clean created " + it.rel
			return r
		}
	}
	// let the Stores go on to their end and look at what they have stored
	for i, ps := range pending {
		ps.release()
		so := &r.obs.Storing[i]
		so.Missing = []string{}
		for _, f := range so.files {
			if info, err := os.Lstat(filepath.Join(ps.path, f.Rel)); err != nil || info.Size() != int64(f.Size) {
				so.Missing = append(so.Missing, f.Rel)
			}
		}
		var all []lst
		list(parent, spec.Root, &all)
		for _, it := range all {
			so.afterAll = append(so.afterAll, comps(it.rel))
		}
	}
	r.ok = true
	return r
}

// pendingStore is a real dirCache.Store running in a goroutine, blocked on the FIFO that is one of its outputs.
type pendingStore struct {
	path, tmp string
	fifo      *os.File
	size      int
	done      chan struct{}
	released  bool
}

func startStore(dc *cache.VerifDirCache, repo string, t *core.BuildTarget, op Op) *pendingStore {
	ps := &pendingStore{path: dc.Path(t, op.Key), tmp: dc.TmpPath(t, op.Key), done: make(chan struct{}), size: op.Files[op.Gate].Size}
	files := []string{}
	for i, f := range op.Files {
		full := filepath.Join(repo, t.OutDir(), f.Rel)
		if i == op.Gate {
			must(os.MkdirAll(filepath.Dir(full), 0o755))
			os.Remove(full)
			must(syscall.Mkfifo(full, 0o644))
		} else {
			writeFile(full, f.Size)
		}
		t.AddOutput(f.Rel)
		files = append(files, f.Rel)
	}
	go func() {
		dc.Store(t, op.Key, files)
		close(ps.done)
	}()
	// opening the FIFO for writing returns when the Store has opened it for reading (fs.CopyFile)
	opened := make(chan *os.File, 1)
	go func() {
		w, err := os.OpenFile(filepath.Join(repo, t.OutDir(), op.Files[op.Gate].Rel), os.O_WRONLY, 0)
		must(err)
		opened <- w
	}()
	select {
	case ps.fifo = <-opened:
	case <-ps.done:
		panic("storing: the Store returned without reading the FIFO output (is the cache on the same file system as the outputs?)")
	case <-time.After(30 * time.Second):
		panic("storing: the Store did not reach its gate within 30 s")
	}
	// ... and has created the file it copies into (fs.WriteFile: os.CreateTemp next to the destination);
	// from here on it sits in io.Copy until the FIFO is fed
	deadline := time.Now().Add(30 * time.Second)
	for {
		ents, _ := os.ReadDir(ps.tmp)
		found := false
		for _, e := range ents {
			if n := op.Files[op.Gate].Rel; e.Name() != n && strings.HasPrefix(e.Name(), n) {
				found = true
			}
		}
		if found {
			break
		}
		if time.Now().After(deadline) {
			panic("storing: the Store did not start copying the FIFO output within 30 s")
		}
		time.Sleep(200 * time.Microsecond)
	}
	return ps
}

// release feeds the FIFO and waits for the Store to return.
func (ps *pendingStore) release() {
	if ps.released {
		return
	}
	ps.released = true
	b := make([]byte, ps.size)
	for i := range b {
		b[i] = byte('A' + i%25)
	}
	ps.fifo.Write(b)
	ps.fifo.Close()
	select {
	case <-ps.done:
	case <-time.After(30 * time.Second):
		panic("storing: the Store did not finish within 30 s after the FIFO was fed")
	}
}

// sizeOf is the total size of everything at or below the path, before clean.
func (r *run) sizeOf(p string) uint64 {
	var n uint64
	for _, it := range r.before {
		if under(p, it.rel) {
			n += it.size
		}
	}
	return n
}

func (r *run) existedBefore(p string) (bool, bool) {
	for _, it := range r.before {
		if it.rel == p {
			return true, it.dir
		}
	}
	return false, false
}

// keyShapedAncestor: some directory strictly above p (the cache directory included) has the name of an entry.
func (r *run) keyShapedAncestor(p string) string {
	c := comps(p)
	for i := 0; i < len(c)-1; i++ {
		if entryName(c[i], false) {
			return strings.Join(c[:i+1], "/")
		}
	}
	return ""
}

// oracle tests the three guarantees of the property directly on the observation.
func (r *run) oracle(c *lib.Ctx) {
	c.Oracle()
	js := r.obs.slim()
	compress := r.spec.Compress
	// (1) nothing stored or retrieved by the current process is removed
	for _, p := range append(append([]string{}, r.prot...), r.protTmp...) {
		for _, it := range r.before {
			if !under(p, it.rel) || r.after[it.rel] {
				continue
			}
			switch a := r.keyShapedAncestor(p); {
			case !compress && a != "":
				c.Fail("marked-entry-below-key-shaped-directory",
					fmt.Sprintf("%s of the protected entry %s was removed: the directory %s above it is named like an entry and was evicted as one", it.rel, p, a), js)
			case compress && contains(r.protTmp, p):
				c.Fail("compressed-store-in-progress-not-marked",
					fmt.Sprintf("the file %s that a Store of the current process is writing was removed (markDir marks <key>.tar.gz=, Store writes <key>=.tar.gz)", p), js)
			case r.obs.Race != nil:
				c.Fail("entry-marked-during-clean-removed",
					fmt.Sprintf("%s of the entry %s was removed although the process had used it (%s) before the eviction loop reached it: "+
						"when the call returned, the entry queued just before it was still in the cache", it.rel, p, r.spec.Race.How), js)
			default:
				c.Fail("protected-entry-removed", fmt.Sprintf("%s of the protected entry %s was removed", it.rel, p), js)
			}
			break
		}
	}
	// (1b) an entry the current process was storing while clean ran comes out whole
	for _, so := range r.obs.Storing {
		if len(so.Missing) > 0 && r.keyShapedAncestor(so.Entry) == "" {
			c.Fail("store-in-progress-damaged-by-clean",
				fmt.Sprintf("the current process was storing %s (real Store, stopped while copying output %d) when clean ran; after the Store returned %d of its %d files are missing: %v (entry marked when clean started: %v)",
					so.Entry, so.gate, len(so.Missing), len(so.files), so.Missing, so.Marked), js)
		}
	}
	// (2) only whole entries are removed
	all := append(append(append([]string{}, r.prot...), r.protTmp...), r.unprot...)
	for _, p := range all {
		gone, kept := 0, 0
		for _, it := range r.before {
			if under(p, it.rel) {
				if r.after[it.rel] {
					kept++
				} else {
					gone++
				}
			}
		}
		if gone > 0 && kept > 0 {
			c.Fail("part-of-entry-removed", fmt.Sprintf("%d of %d files of the entry %s were removed", gone, gone+kept, p), js)
		}
	}
	var roots []string // top-most removed paths
	for _, p := range r.obs.Removed {
		if parent := filepath.Dir(p); !r.after[parent] && parent != "." {
			continue
		}
		roots = append(roots, p)
	}
	var rootSize uint64
	for _, p := range roots {
		_, isDir := r.existedBefore(p)
		if compress && !isDir && strings.HasSuffix(p, "=") && contains(roots, strings.TrimSuffix(p, "=")) {
			continue // the file that os.Rename(<entry>, <entry>=) replaced
		}
		if !(entryName(filepath.Base(p), compress) && isDir != compress) {
			c.Fail("non-entry-removed", fmt.Sprintf("%s was removed but is not a cache entry", p), js)
		}
		rootSize += r.sizeOf(p)
	}
	// (3) the bound
	if r.obs.Total0 < r.spec.High {
		if len(r.obs.Removed) > 0 {
			c.Fail("removed-below-high-water-mark", fmt.Sprintf("cache size %d is below the high water mark %d but %v were removed", r.obs.Total0, r.spec.High, r.obs.Removed), js)
		}
		if r.obs.Total != r.obs.Total0 {
			c.Fail("returned-total-wrong", fmt.Sprintf("nothing to clean, returned %d, computed size %d", r.obs.Total, r.obs.Total0), js)
		}
		return
	}
	var left uint64
	var survivors []string
	for _, p := range r.unprot {
		if r.after[p] {
			left += r.sizeOf(p)
			survivors = append(survivors, p)
		}
	}
	if left >= r.spec.Low && len(survivors) > 0 {
		occupied := ""
		for _, p := range survivors {
			if ex, isDir := r.existedBefore(p + "="); ex && (!compress || isDir) {
				occupied = p
			}
		}
		if occupied != "" {
			c.Fail("rename-target-occupied",
				fmt.Sprintf("unprotected entries of total size %d >= low water mark %d survive: %s= existed, so os.Rename failed and the entry was skipped", left, r.spec.Low, occupied), js)
		} else {
			c.Fail("bound-not-met", fmt.Sprintf("unprotected entries %v of total size %d >= low water mark %d survive", survivors, left, r.spec.Low), js)
		}
	}
	if r.obs.Total > r.obs.Total0 || r.obs.Total0-r.obs.Total != rootSize {
		c.Fail("returned-total-wrong", fmt.Sprintf("size before %d, removed %d in total, returned %d", r.obs.Total0, rootSize, r.obs.Total), js)
	}
	if left > r.obs.Total {
		c.Fail("returned-total-wrong", fmt.Sprintf("returned %d but unprotected entries of size %d are still there", r.obs.Total, left), js)
	}
}

func contains(xs []string, x string) bool {
	for _, y := range xs {
		if x == y {
			return true
		}
	}
	return false
}

// slim drops the listings from the JSON kept in reports (the spec reproduces them).
func (o Obs) slim() Obs {
	o.Items, o.Survivors, o.Calls = nil, nil, nil
	return o
}

// ---------------------------------------------------------------------------------------------
// clean concurrent with the process

func genRace(r *lib.Rng, big bool) Spec {
	sp := Spec{Kind: "race", Compress: r.Chance(1, 3), Root: "cache", High: 1, Low: 0, Marks: "high=1 low=0"}
	// the window is as long as the loop takes to get from the first entry to the precious one: many entries
	// (a compressed entry is one file and goes quickly) and, in the larger half, more than the model side can take
	var v int
	switch {
	case sp.Compress && big:
		v = r.Range(300, 700)
	case sp.Compress:
		v = r.Range(60, 130)
	case big:
		v = r.Range(120, 350)
	default:
		v = r.Range(16, 32)
	}
	rc := &Race{Victims: v, Files: r.Range(2, 3), FileSize: pick3(r, 0, 100, 3000), Pos: r.Range(v/2, v), KeySeed: r.U64()}
	rc.How = lib.Pick(r, []string{"retrieve", "retrieve", "retrieve-outs", "store"})
	if sp.Compress {
		rc.Files = 1
		rc.FileSize = max(rc.FileSize, 1) // an empty cache is below every high water mark
		if rc.How == "retrieve-outs" {
			rc.How = "retrieve" // retrieving outputs from a compressed entry needs a real tarball
		}
	}
	sp.Race = rc
	return sp
}

func exists(p string) bool {
	_, err := os.Lstat(p)
	return err == nil
}

// executeRace builds the cache, starts the real clean in a goroutine and uses the precious entry as
// soon as the first eviction is seen.  What it reports about the schedule is conservative: Hit is
// only set when the entry queued immediately before the precious one still existed AFTER the
// operation had returned, so the loop had not reached the precious entry when it was marked.
func executeRace(spec Spec) *run {
	rs := spec.Race
	r := &run{spec: spec, after: map[string]bool{}}
	r.obs.Race = &RaceObs{}
	t0 := time.Now()
	phase := func(name string) {
		if os.Getenv("VERIF_C14_DEBUG") != "" {
			fmt.Fprintf(os.Stderr, "  %s at %v\n", name, time.Since(t0))
		}
	}
	defer phase("end")
	parent, err := os.MkdirTemp("", "c14-race-")
	must(err)
	defer os.RemoveAll(parent)
	must(os.Chdir(parent))
	core.RepoRoot = parent
	cacheDir := filepath.Join(parent, spec.Root)
	dc := cache.VerifNewDirCache(cacheDir, spec.Compress)
	rel := func(p string) string {
		x, err := filepath.Rel(parent, p)
		must(err)
		return x
	}
	kr := lib.NewRng(rs.KeySeed)
	files := []string{}
	for j := 0; j < rs.Files; j++ {
		files = append(files, fmt.Sprintf("out%d.a", j))
	}
	writeEntry := func(p string) {
		if spec.Compress {
			writeFile(p, rs.FileSize)
			return
		}
		must(os.MkdirAll(p, 0o755))
		for _, f := range files {
			writeFile(filepath.Join(p, f), rs.FileSize)
		}
	}
	const base, step = 200_000, 2000
	vt, pt := target("race", "victim"), target("race", "precious")
	victims := make([]string, rs.Victims) // in queue order
	for i := range victims {
		victims[i] = dc.Path(vt, randKey(kr, 20))
		writeEntry(victims[i])
	}
	pkey := randKey(kr, 20)
	precious := dc.Path(pt, pkey)
	writeEntry(precious)
	for _, f := range files { // the outputs of the target, for Store and for Retrieve with outputs
		writeFile(filepath.Join(parent, pt.OutDir(), f), rs.FileSize+1)
		pt.AddOutput(f)
	}
	phase("written")
	old := time.Unix(start-5_000_000, 0)
	for i, p := range victims {
		must(os.Chtimes(p, time.Unix(start+base+int64(i)*step, 0), old))
	}
	must(os.Chtimes(precious, time.Unix(start+base+int64(rs.Pos)*step-step/2, 0), old))
	var tmp []lst
	list(parent, spec.Root, &tmp)
	list(parent, spec.Root, &r.before)
	for _, it := range r.before {
		r.obs.Items = append(r.obs.Items, Item{Path: comps(it.rel), Dir: it.dir, Size: it.size, Atime: it.atime})
	}
	r.obs.Total0 = dc.Clean(math.MaxUint64, 0)
	var check []lst
	list(parent, spec.Root, &check)
	if len(check) != len(r.before) {
		r.why = "clean(MaxUint64, 0) changed the cache directory"
		return r
	}
	for i := range check { // the access times decide the queue order: they must be what was set
		if check[i] != r.before[i] {
			r.why = fmt.Sprintf("listing not stable: %+v became %+v", r.before[i], check[i])
			return r
		}
	}
	r.obs.Spec = r.spec
	phase("listed")

	done := make(chan uint64, 1)
	go func() { done <- dc.Clean(spec.High, spec.Low) }()
	ro := r.obs.Race
	deadline := time.Now().Add(60 * time.Second)
	finished := false
	for exists(victims[0]) && !finished {
		select {
		case r.obs.Total = <-done:
			finished = true // clean returned without evicting the first entry of its queue
		default:
			if time.Now().After(deadline) {
				r.why = "clean neither evicted the first entry nor returned within 60 s"
				return r
			}
			runtime.Gosched()
		}
	}
	ro.Started = !exists(victims[0])
	if os.Getenv("VERIF_C14_DEBUG") != "" {
		fmt.Fprintf(os.Stderr, "race: started=%v after %v (victims %d, pos %d, %s, compress %v)\n", ro.Started, time.Since(deadline.Add(-60*time.Second)), rs.Victims, rs.Pos, rs.How, spec.Compress)
	}
	ro.KLo = 1
	switch rs.How {
	case "retrieve":
		ro.OpOK = dc.Retrieve(pt, pkey, nil)
	case "retrieve-outs":
		ro.OpOK = dc.Retrieve(pt, pkey, files)
	case "store":
		dc.Store(pt, pkey, files)
		ro.OpOK = true
	default:
		panic("unknown race operation " + rs.How)
	}
	ro.Hit = ro.Started && ro.OpOK && exists(victims[rs.Pos-1])
	phase("op done")
	gone := 0
	for gone < len(victims) && !exists(victims[gone]) {
		gone++
	}
	ro.KHi = gone + 1 // the iteration after the last completed one may have passed its isMarked test
	if ro.Hit {
		ro.KHi = min(ro.KHi, rs.Pos)
	}
	if !finished {
		select {
		case r.obs.Total = <-done:
		case <-time.After(120 * time.Second):
			r.why = "clean did not finish within 120 s"
			return r
		}
	}
	phase("clean done")
	var after []lst
	list(parent, spec.Root, &after)
	for _, it := range after {
		r.after[it.rel] = true
		r.obs.Survivors = append(r.obs.Survivors, comps(it.rel))
	}
	r.obs.Removed = []string{}
	for _, it := range r.before {
		if !r.after[it.rel] {
			r.obs.Removed = append(r.obs.Removed, it.rel)
		}
	}
	for _, it := range after {
		if ex, _ := r.existedBefore(it.rel); !ex {
			r.why = "clean created " + it.rel
			return r
		}
	}
	for _, p := range victims {
		r.unprot = append(r.unprot, rel(p))
	}
	if ro.Hit {
		r.prot = append(r.prot, rel(precious))
		r.obs.Calls = []Call{{Path: comps(rel(precious)), Size: 0}}
	}
	ro.Survived = r.after[rel(precious)]
	r.ok = true
	return r
}

func coqRace(o *Obs) string {
	items := make([]string, len(o.Items))
	for i, it := range o.Items {
		items[i] = lib.App("mkItem", coqPath(it.Path), lib.Bool(it.Dir), lib.N(it.Size), lib.Z(it.Atime))
	}
	surv := make([]string, len(o.Survivors))
	for i, p := range o.Survivors {
		surv[i] = coqPath(p)
	}
	st := lib.App("mkState", lib.Bool(o.Spec.Compress), lib.List(items), "[]", lib.N(o.Spec.High), lib.N(o.Spec.Low))
	return lib.App("CRace", st, lib.Nat(o.Race.KLo), lib.Nat(o.Race.KHi), coqPath(o.Calls[0].Path), lib.N(o.Calls[0].Size), lib.N(o.Total), lib.List(surv))
}

// runRaces: schedule-dependent.  A run that misses the window (the loop was faster than the process)
// proves nothing about the re-check and is only judged by the general oracle; hits are counted.
func runRaces(c *lib.Ctx) {
	n := c.Scale(36, 400)
	hits, tries, modelCases := 0, 0, 0
	for i := 0; i < n; i++ {
		rg := c.Rng.Fork()
		sp := genRace(rg, i%2 == 1)
		var res *run
		for attempt := 1; attempt <= 3; attempt++ {
			res = executeRace(sp)
			if !res.ok {
				panic(fmt.Sprintf("race %d: %s (%+v)", i, res.why, *sp.Race))
			}
			res.obs.Race.Attempts = attempt
			tries++
			if res.obs.Race.Hit || sp.Race.How != "store" {
				res.oracle(c)
			} else {
				// a Store that raced with the eviction of its own entry re-creates it: before/after listings
				// say nothing about clean's accounting; only the other entries can be judged
				c.Oracle()
				for _, u := range res.unprot {
					if res.after[u] {
						c.Fail("bound-not-met", fmt.Sprintf("low water mark 0 but the unprotected entry %s survives", u), res.obs.slim())
					}
				}
			}
			if res.obs.Race.Hit {
				break
			}
		}
		ro := res.obs.Race
		key := fmt.Sprint("race", *sp.Race, sp.Compress)
		// the model side: a Retrieve is one markDir call; sort.Slice agrees with the model's insertion sort
		// because the access times are all more than the grace period apart
		// (the walk of the model is quadratic in the number of items: 0.3-1.5 s per case, so only some of them)
		if ro.Hit && sp.Race.How != "store" && len(res.obs.Items) <= 140 && modelCases < c.Scale(10, 80) {
			modelCases++
			c.Case(coqRace(&res.obs), res.obs.slim(), key, true)
		} else {
			c.Eval(res.obs.slim(), key, ro.Hit)
		}
		if ro.Hit {
			hits++
			c.Hist("race_window", "hit ("+sp.Race.How+")")
			c.HistN("race_iterations_started_at_most", min(ro.KHi, 20))
		} else if !ro.Started {
			c.Hist("race_window", "no eviction observed")
		} else if !ro.OpOK {
			c.Hist("race_window", "missed: the entry was already gone")
		} else {
			c.Hist("race_window", "missed: the loop had passed the preceding entry when the call returned")
		}
		c.Hist("kind", sp.Kind)
	}
	c.Note("concurrent stream: %d of %d scenarios (%d executions) marked the entry after the first eviction and before the loop reached it", hits, n, tries)
}

// ---------------------------------------------------------------------------------------------
// Coq printers

func coqPath(p []string) string { return lib.StrList(p) }

func coqCase(o *Obs) string {
	items := make([]string, len(o.Items))
	for i, it := range o.Items {
		items[i] = lib.App("mkItem", coqPath(it.Path), lib.Bool(it.Dir), lib.N(it.Size), lib.Z(it.Atime))
	}
	calls := make([]string, len(o.Calls))
	for i, cl := range o.Calls {
		calls[i] = lib.Pair(coqPath(cl.Path), lib.N(cl.Size))
	}
	surv := make([]string, len(o.Survivors))
	for i, p := range o.Survivors {
		surv[i] = coqPath(p)
	}
	st := lib.App("mkState", lib.Bool(o.Spec.Compress), lib.List(items), lib.List(calls), lib.N(o.Spec.High), lib.N(o.Spec.Low))
	return lib.App("CClean", st, lib.N(o.Total), lib.List(surv))
}

// coqStoring: the Store of a spec with exactly one "storing" op as a run of the model (see CStoring).
func coqStoring(o *Obs) string {
	so := o.Storing[0]
	items := make([]string, len(so.pre))
	for i, it := range so.pre {
		items[i] = lib.App("mkItem", coqPath(comps(it.rel)), lib.Bool(it.dir), lib.N(it.size), lib.Z(it.atime))
	}
	calls := make([]string, len(so.preCalls))
	for i, cl := range so.preCalls {
		calls[i] = lib.Pair(coqPath(cl.Path), lib.N(cl.Size))
	}
	files := make([]string, len(so.files))
	for i, f := range so.files {
		files[i] = lib.Pair(lib.Str(f.Rel), lib.N(uint64(f.Size)))
	}
	var l1, l2 []string
	for _, p := range o.Survivors {
		// the file the Store is copying into (os.CreateTemp) is not in the model, whose RecursiveLink is one step
		if rel, g := strings.Join(p, "/"), so.files[so.gate].Rel; filepath.Dir(rel) == so.tmpRel && filepath.Base(rel) != g && strings.HasPrefix(filepath.Base(rel), g) {
			continue
		}
		l1 = append(l1, coqPath(p))
	}
	for _, p := range so.afterAll {
		l2 = append(l2, coqPath(p))
	}
	st := lib.App("mkState", lib.Bool(false), lib.List(items), lib.List(calls), lib.N(o.Spec.High), lib.N(o.Spec.Low))
	return lib.App("CStoring", st, coqPath(comps(so.Entry)), lib.List(files), lib.Nat(so.gate), lib.N(o.Total), lib.List(l1), lib.List(l2))
}

// ---------------------------------------------------------------------------------------------
// generators

// genStoring: an uncompressed cache with old entries of earlier processes, entries this process has used, and
// one real Store of this process in progress (stopped while it copies output number Gate) when clean runs.
func genStoring(r *lib.Rng) Spec {
	sp := Spec{Kind: "real-store-in-progress", Compress: false, Root: "cache"}
	cluster := []int64{int64(r.Range(5000, 2_000_000))}
	pkg, name := lib.Pick(r, pkgs), lib.Pick(r, names)
	n := r.Range(1, 5)
	for i := 0; i < n; i++ {
		op := Op{How: "disk", Pkg: lib.Pick(r, pkgs), Name: lib.Pick(r, names), Key: randKey(r, pick3(r, 20, 20, 32)), Atime: randAtime(r, cluster), Files: randFiles(r, false)}
		if r.Chance(1, 2) {
			op.Pkg, op.Name = pkg, name // other keys of the target that is being stored
		}
		switch r.Intn(8) {
		case 0:
			op.How = "retrieve"
		case 1:
			op.How = "store"
			if len(op.Files) == 0 {
				op.Files = []FileSpec{{Rel: "out.a", Size: r.Intn(3000)}}
			}
		case 2:
			op.Tmp = true
		}
		sp.Ops = append(sp.Ops, op)
	}
	st := Op{How: "storing", Pkg: pkg, Name: name, Key: randKey(r, pick3(r, 20, 20, 32)), Atime: randAtime(r, cluster), Old: r.Chance(1, 3)}
	for i, k := 0, r.Range(1, 6); i < k; i++ {
		st.Files = append(st.Files, FileSpec{Rel: fmt.Sprintf("f%d.o", i), Size: pick3(r, 0, r.Intn(300), r.Intn(90000))})
	}
	st.Gate = r.Intn(len(st.Files))
	if r.Chance(1, 6) { // what an earlier process left at the temporary location of the same entry
		sp.Ops = append(sp.Ops, Op{How: "disk", Tmp: true, Pkg: pkg, Name: name, Key: st.Key, Atime: randAtime(r, cluster), Files: []FileSpec{{Rel: "stale.a", Size: r.Intn(500)}}})
	}
	sp.Ops = append(sp.Ops, st)
	return sp
}

// storingChooser: water marks that make clean evict in most cases.
func storingChooser(r *lib.Rng) func(uint64, []uint64) (uint64, uint64, string) {
	return func(total uint64, sizes []uint64) (uint64, uint64, string) {
		var some uint64
		if len(sizes) > 0 {
			some = sizes[r.Intn(len(sizes))]
		}
		hi := r.Intn(5)
		high := []uint64{0, 1, total / 2, total, total + 1}[hi]
		lo := r.Intn(5)
		low := []uint64{0, 0, 1, total / 4, some}[lo]
		return high, low, "high=" + []string{"0", "1", "total/2", "total", "total+1"}[hi] + " low=" + []string{"0", "0", "1", "total/4", "entry"}[lo]
	}
}

const b64 = "ABCDEFGHIJKLMNOPQRSTUVWXYZabcdefghijklmnopqrstuvwxyz0123456789-_"

func randKey(r *lib.Rng, n int) []byte {
	k := make([]byte, n)
	for i := range k {
		k[i] = byte(r.Intn(256))
	}
	return k
}

// keyName is a name that has the shape of an entry: n-1 base64 characters and "=".
func keyName(r *lib.Rng, n int) string {
	b := make([]byte, n-1)
	for i := range b {
		b[i] = b64[r.Intn(64)]
	}
	return string(b) + "="
}

var pkgs = []string{"", "pkg", "a/b", "third_party/go", "src/core"}
var names = []string{"lib", "t1", "go_default_library", "_t#srcs", "x=y"}

func randFiles(r *lib.Rng, compress bool) []FileSpec {
	if compress {
		return []FileSpec{{Rel: "-", Size: pick3(r, 0, r.Intn(300), r.Intn(20000))}}
	}
	n := r.Range(0, 3)
	fs := []FileSpec{}
	pool := []string{"out.a", "bin/tool", "gen/x.go", "lib.so", "deep/er/f.txt"}
	for _, i := range subset(r, len(pool), n) {
		fs = append(fs, FileSpec{Rel: pool[i], Size: pick3(r, 0, r.Intn(300), r.Intn(20000))})
	}
	return fs
}

func pick3(r *lib.Rng, a, b, c int) int { return []int{a, b, c}[r.Intn(3)] }

func subset(r *lib.Rng, n, k int) []int {
	p := make([]int, n)
	for i := range p {
		p[i] = i
	}
	lib.Shuffle(r, p)
	p = p[:min(k, n)]
	sort.Ints(p)
	return p
}

// atimes: stable access times lie in the future (see the model's header); clusters exercise the
// grace period (differences 0, 599, 600, 601) and the size tie-break.
func randAtime(r *lib.Rng, cluster []int64) int64 {
	switch r.Intn(10) {
	case 0:
		return -int64(r.Range(1000, 4_000_000)) // past: a directory's atime becomes "now" when it is read
	case 1, 2, 3, 4:
		c := cluster[r.Intn(len(cluster))]
		return c + lib.Pick(r, []int64{0, 0, 1, 599, 600, 601, -599, -600, 300, 1200})
	default:
		return int64(r.Range(3000, 3_000_000))
	}
}

func genStructured(r *lib.Rng) Spec {
	sp := Spec{Kind: "structured", Compress: r.Chance(2, 5), Root: "cache"}
	cluster := []int64{int64(r.Range(5000, 2_000_000)), int64(r.Range(5000, 2_000_000))}
	n := r.Range(1, 9)
	used := map[string]bool{}
	for i := 0; i < n; i++ {
		op := Op{Pkg: lib.Pick(r, pkgs), Name: lib.Pick(r, names), Key: randKey(r, pick3(r, 20, 20, 32)), Atime: randAtime(r, cluster)}
		if r.Chance(1, 4) && i > 0 { // another key of a target that is already there
			prev := sp.Ops[r.Intn(len(sp.Ops))]
			op.Pkg, op.Name = prev.Pkg, prev.Name
		}
		switch x := r.Intn(20); {
		case x < 12:
			op.How = "disk"
			op.Tmp = r.Chance(1, 8)
		case x < 15:
			op.How = "retrieve"
		case x < 18:
			op.How = "store"
		default:
			op.How = "begin"
		}
		op.Files = randFiles(r, sp.Compress)
		if (op.How == "store" || op.How == "begin") && len(op.Files) == 0 {
			op.Files = []FileSpec{{Rel: "out.a", Size: r.Intn(3000)}}
		}
		id := op.Pkg + ":" + op.Name + ":" + string(op.Key)
		if used[id] {
			continue
		}
		used[id] = true
		sp.Ops = append(sp.Ops, op)
	}
	for i := r.Intn(3); i > 0; i-- {
		sp.Ops = append(sp.Ops, randStray(r, sp.Compress, cluster))
	}
	return sp
}

func sfx(compress bool) string {
	if compress {
		return ".tar.gz"
	}
	return ""
}

func randStray(r *lib.Rng, compress bool, cluster []int64) Op {
	op := Op{How: "stray", Atime: randAtime(r, cluster), Size: r.Intn(500)}
	dirs := []string{"", "pkg", "pkg/lib", "a/b/t1", "misc"}
	d := lib.Pick(r, dirs)
	var name string
	switch r.Intn(8) {
	case 0:
		name = "README"
	case 1:
		name = keyName(r, 28) + sfx(compress) // looks exactly like an entry
		op.Dir = !compress
	case 2:
		name = keyName(r, 28) + sfx(compress) // right name, wrong kind
		op.Dir = compress
	case 3:
		name = keyName(r, lib.Pick(r, []int{27, 29, 30, 43, 44, 45, 46})) + sfx(compress)
		op.Dir = !compress
	case 4:
		name = keyName(r, 28) + "x" + sfx(compress) // 29 characters, '=' at index 27
		op.Dir = !compress
	case 5:
		name = keyName(r, 28) + sfx(!compress)
		op.Dir = !compress
	case 6:
		name = strings.Repeat("k", lib.Pick(r, []int{28, 29, 44})) + sfx(compress) // right length, no padding
		op.Dir = !compress
	default:
		name = keyName(r, 28) + sfx(compress) + "="
		op.Dir = r.Bool()
	}
	op.Rel = filepath.Join(d, name)
	return op
}

// genAdversarial aims at the boundary of the property.
func genAdversarial(r *lib.Rng, which int) Spec {
	sp := Spec{Compress: r.Chance(1, 3), Root: "cache"}
	cluster := []int64{int64(r.Range(5000, 2_000_000))}
	entry := func(how, pkg, name string) Op {
		op := Op{How: how, Pkg: pkg, Name: name, Key: randKey(r, 20), Atime: randAtime(r, cluster), Files: randFiles(r, sp.Compress)}
		if len(op.Files) == 0 {
			op.Files = []FileSpec{{Rel: "out.a", Size: r.Range(1, 3000)}}
		}
		return op
	}
	protect := func() string { return lib.Pick(r, []string{"retrieve", "store", "begin"}) }
	switch which % 8 {
	case 0: // a target whose name has the shape of an entry
		sp.Kind = "key-shaped-target-name"
		name := keyName(r, lib.Pick(r, []int{28, 44}))
		sp.Ops = append(sp.Ops, entry(protect(), "pkg", name), entry("disk", "pkg", name), entry("disk", "pkg", "lib"))
	case 1: // a package component with the shape of an entry
		sp.Kind = "key-shaped-package-name"
		pkg := lib.Pick(r, []string{keyName(r, 28), "a/" + keyName(r, 28), keyName(r, 28) + "/b", "a/" + keyName(r, 28) + "x/c"})
		sp.Ops = append(sp.Ops, entry(protect(), pkg, "lib"), entry("disk", pkg, "t1"), entry("disk", "other", "lib"))
	case 2: // the cache directory itself
		sp.Kind = "key-shaped-cache-directory"
		sp.Root = keyName(r, 28)
		sp.Ops = append(sp.Ops, entry(protect(), "pkg", "lib"), entry("disk", "pkg", "t1"))
	case 3: // the rename target of an unprotected entry exists
		sp.Kind = "rename-target-exists"
		a := entry("disk", "pkg", "lib")
		b := a
		b.Tmp = true
		b.Files = randFiles(r, sp.Compress)
		if sp.Compress {
			// <key>.tar.gz= as a file or a directory
			nm := base64.URLEncoding.EncodeToString(a.Key) + ".tar.gz="
			sp.Ops = append(sp.Ops, a, Op{How: "stray", Rel: filepath.Join(a.Pkg, a.Name, nm), Dir: r.Bool(), Size: r.Intn(100), Atime: randAtime(r, cluster)}, entry("disk", "pkg", "t1"))
		} else {
			b.Atime = a.Atime + lib.Pick(r, []int64{-5000, 5000, 0})
			sp.Ops = append(sp.Ops, a, b, entry("disk", "pkg", "t1"))
		}
	case 4: // a store in progress, with old entries around it
		sp.Kind = "store-in-progress"
		sp.Ops = append(sp.Ops, entry("begin", "pkg", "lib"), entry("disk", "pkg", "lib"), entry("disk", "pkg", "t1"))
	case 5: // entry-shaped names inside entries, and wrong kinds
		sp.Kind = "entry-shaped-content"
		a, b := entry("disk", "pkg", "lib"), entry(protect(), "pkg", "lib")
		if !sp.Compress {
			a.Files = append(a.Files, FileSpec{Rel: keyName(r, 28) + "/inner.txt", Size: r.Intn(900)}, FileSpec{Rel: keyName(r, 28), Size: 5})
			b.Files = append(b.Files, FileSpec{Rel: keyName(r, 44) + "/inner.txt", Size: r.Intn(900)})
		}
		sp.Ops = append(sp.Ops, a, b, randStray(r, sp.Compress, cluster), randStray(r, sp.Compress, cluster))
	case 6: // equal access times and sizes
		sp.Kind = "ties"
		size := r.Range(1, 2000)
		for i := r.Range(2, 6); i > 0; i-- {
			e := entry("disk", lib.Pick(r, pkgs), lib.Pick(r, names))
			e.Atime = cluster[0] + lib.Pick(r, []int64{0, 0, 599, 600, 1199, 1200})
			if r.Bool() {
				e.Files = []FileSpec{{Rel: "out.a", Size: size}}
			}
			sp.Ops = append(sp.Ops, e)
		}
		sp.Ops = append(sp.Ops, entry(protect(), "pkg", "lib"))
	default: // everything protected, or nothing
		sp.Kind = "all-or-nothing"
		how := lib.Pick(r, []string{"disk", "retrieve", "store"})
		for i := r.Range(1, 4); i > 0; i-- {
			sp.Ops = append(sp.Ops, entry(how, lib.Pick(r, pkgs), lib.Pick(r, names)))
		}
	}
	// no two ops at the same place
	seen := map[string]bool{}
	ops := sp.Ops[:0]
	for _, op := range sp.Ops {
		id := fmt.Sprint(op.How == "stray", op.Pkg, ":", op.Name, ":", string(op.Key), op.Tmp, op.Rel)
		if !seen[id] {
			seen[id] = true
			ops = append(ops, op)
		}
	}
	sp.Ops = ops
	return sp
}

// water marks at and around the size the code computes and the sizes of the entries
func chooser(r *lib.Rng) func(uint64, []uint64) (uint64, uint64, string) {
	return func(total uint64, sizes []uint64) (uint64, uint64, string) {
		var high, low uint64
		var hs, ls string
		switch r.Intn(8) {
		case 0:
			high, hs = total+1, "total+1"
		case 1:
			high, hs = total, "total"
		case 2:
			high, hs = total-min(total, 1), "total-1"
		case 3:
			high, hs = 0, "0"
		case 4:
			high, hs = total*2+10, "2*total"
		default:
			high, hs = total/2, "total/2"
		}
		var some uint64
		if len(sizes) > 0 {
			some = sizes[r.Intn(len(sizes))]
		}
		switch r.Intn(9) {
		case 0:
			low, ls = 0, "0"
		case 1:
			low, ls = 1, "1"
		case 2:
			low, ls = total, "total"
		case 3:
			low, ls = total+1, "total+1"
		case 4:
			low, ls = total-min(total, some), "total-entry"
		case 5:
			low, ls = total-min(total, some)+1, "total-entry+1"
		case 6:
			low, ls = some, "entry"
		case 7:
			low, ls = total/4, "total/4"
		default:
			low, ls = total/2, "total/2"
		}
		return high, low, "high=" + hs + " low=" + ls
	}
}

// ---------------------------------------------------------------------------------------------

func runNames(c *lib.Ctx) {
	dcs := map[bool]*cache.VerifDirCache{}
	tmp, err := os.MkdirTemp("", "c14-names-")
	must(err)
	defer os.RemoveAll(tmp)
	for _, compress := range []bool{false, true} {
		dcs[compress] = cache.VerifNewDirCache(filepath.Join(tmp, fmt.Sprint(compress)), compress)
	}
	emit := func(compress bool, name string, isDir bool) {
		got := dcs[compress].ShouldClean(name, isDir)
		js := map[string]any{"compress": compress, "name": name, "dir": isDir, "should_clean": got}
		c.Case(lib.App("CName", lib.Bool(compress), lib.Str(name), lib.Bool(isDir), lib.Bool(got)), js,
			fmt.Sprint("n", compress, name, isDir), got || len(name) >= 27)
		// the property's reading of an entry name must be accepted by the code, with the right kind only
		c.Oracle()
		if entryName(name, compress) && isDir != compress && !got {
			c.Fail("entry-name-not-recognised", fmt.Sprintf("%q is the name of an entry but shouldClean rejects it", name), js)
		}
		if got && !entryName(name, compress) {
			c.Fail("non-entry-name-recognised", fmt.Sprintf("shouldClean accepts %q", name), js)
		}
		if got && isDir == compress {
			c.Fail("wrong-kind-recognised", fmt.Sprintf("%q is recognised although it is a %s", name, map[bool]string{true: "directory", false: "file"}[isDir]), js)
		}
		c.Hist("names", fmt.Sprintf("compress=%v recognised=%v", compress, got))
	}
	// all lengths around the constants, padding at / next to the tested index
	for _, compress := range []bool{false, true} {
		for n := 0; n <= 48; n++ {
			for _, pos := range []int{-1, 26, 27, 28, 42, 43, 44} {
				b := []byte(strings.Repeat("A", n))
				if pos >= 0 && pos < n {
					b[pos] = '='
				} else if pos >= 0 {
					continue
				}
				for _, suf := range []string{"", ".tar.gz", ".tar.gz=", "=.tar.gz"} {
					for _, isDir := range []bool{false, true} {
						if n < 24 && !(isDir != compress && suf == sfx(compress)) {
							continue
						}
						emit(compress, string(b)+suf, isDir)
					}
				}
			}
		}
	}
	n := c.Scale(200, 3000)
	for i := 0; i < n; i++ {
		r := c.Rng.Fork()
		compress := r.Bool()
		name := keyName(r, lib.Pick(r, []int{20, 27, 28, 28, 29, 30, 43, 44, 44, 45, 46}))
		if r.Chance(1, 3) {
			name += lib.Pick(r, []string{"=", "x", "==", "=x"})
		}
		if r.Chance(1, 2) {
			name += lib.Pick(r, []string{".tar.gz", ".tar.gz", ".tar", ".tar.gz=", ".tgz"})
		}
		emit(compress, name, r.Chance(1, 2))
	}
}

func main() {
	gologging.SetLevel(gologging.CRITICAL, "plz")
	lib.Main("C14", func(c *lib.Ctx) {
		c.Model("From PlzV Require Import Model.C14.", "C14.case", "C14.check")
		c.Rule("real cache directories under a temporary directory, 1-9 entries (disk = left by an earlier process, retrieve/store = real Retrieve/Store of this process, " +
			"begin = Store in progress), 0-3 files each, sizes 0-20000, access times set with Chtimes in clusters around the 600 s grace period, compressed and uncompressed, " +
			"stray files and directories with entry-shaped names, water marks at and around the size the code computes; an adversarial stream of 8 boundary layouts " +
			"(entry-shaped target / package / cache-directory names, occupied rename target, store in progress, entry-shaped content, ties, all-or-nothing); " +
			"plus shouldClean on all name lengths 0-48 with the padding at and next to the tested index; " +
			"plus a concurrent stream: 16-700 old entries 2000 s apart and one more entry queued behind at least half of them, the real clean(1, 0) in a goroutine, " +
			"Retrieve (with and without outputs) or Store of that entry fired when the first eviction is observed, counted as a hit only if the entry queued just before it " +
			"still exists when the call has returned; on a hit the entry must survive and (Retrieve) the model's interleaved run must give the same directory. " +
			"distinct = distinct layouts+marks; non-trivial = at least one unprotected and one protected entry and size >= high water mark")

		var replay Obs
		if c.ReadReplay(&replay) && replay.Spec.Race != nil {
			// schedule-dependent: repeat until the window is hit (or give up; the oracle then has nothing to say)
			var r *run
			for attempt := 1; attempt <= 20; attempt++ {
				r = executeRace(replay.Spec)
				if !r.ok {
					panic("replay: " + r.why)
				}
				r.obs.Race.Attempts = attempt
				if r.obs.Race.Hit {
					break
				}
			}
			if r.obs.Race.Hit && replay.Spec.Race.How != "store" {
				c.Case(coqRace(&r.obs), r.obs.slim(), "replay", true)
			} else {
				c.Eval(r.obs.slim(), "replay", r.obs.Race.Hit)
			}
			r.oracle(c)
			return
		}
		if c.ReadReplay(&replay) {
			r := execute(replay.Spec, nil)
			if !r.ok {
				panic("replay: " + r.why)
			}
			c.Case(coqCase(&r.obs), r.obs, "replay", true)
			if len(r.obs.Storing) == 1 {
				c.Case(coqStoring(&r.obs), r.obs.slim(), "replay-storing", true)
			}
			r.oracle(c)
			return
		}

		only := os.Getenv("VERIF_C14_ONLY") // debugging aid: names | races | clean
		if only == "" || only == "names" {
			runNames(c)
		}
		if only == "" || only == "races" {
			runRaces(c)
		}
		if only == "" || only == "storing" {
			runStoring(c)
		}
		if only != "" && only != "clean" {
			return
		}

		n := c.Scale(420, 9000)
		skipped := 0
		for i := 0; i < n; i++ {
			r := c.Rng.Fork()
			var sp Spec
			if i%10 < 7 {
				sp = genStructured(r)
			} else {
				sp = genAdversarial(r, r.Intn(8))
			}
			res := execute(sp, chooser(r))
			if !res.ok {
				panic(fmt.Sprintf("case %d: %s (%+v)", i, res.why, sp))
			}
			nontrivial := len(res.unprot) > 0 && len(res.prot)+len(res.protTmp) > 0 && res.obs.Total0 >= res.spec.High
			key := fmt.Sprint(res.obs.Items, res.obs.Calls, res.spec.High, res.spec.Low)
			// sort.Slice is insertion sort up to 12 elements only: the executable model covers those
			cand := 0
			for _, it := range res.before {
				if entryName(filepath.Base(it.rel), sp.Compress) && it.dir != sp.Compress {
					cand++
				}
			}
			if cand <= 12 {
				c.Case(coqCase(&res.obs), res.obs.slim(), key, nontrivial)
			} else {
				skipped++
				c.Eval(res.obs.slim(), key, nontrivial)
			}
			res.oracle(c)
			c.Hist("kind", sp.Kind)
			c.Hist("compress", fmt.Sprint(sp.Compress))
			c.Hist("water_marks", res.spec.Marks)
			c.HistN("entries", len(res.prot)+len(res.protTmp)+len(res.unprot))
			c.HistN("removed_roots", countRoots(res))
			if res.obs.Total0 >= res.spec.High {
				c.Hist("cleaning", "ran")
			} else {
				c.Hist("cleaning", "below high water mark")
			}
		}
		if skipped > 0 {
			c.Note("%d layouts with more than 12 candidate names were checked by the oracle only", skipped)
		}
	})
}

// runStoring: the real Store of the current process is in progress (deterministically: it is blocked on a
// FIFO output) while the real clean runs from its walk to its end; then the Store is let go.
func runStoring(c *lib.Ctx) {
	n := c.Scale(40, 600)
	evicting, damaged := 0, 0
	for i := 0; i < n; i++ {
		r := c.Rng.Fork()
		sp := genStoring(r)
		res := execute(sp, storingChooser(r))
		if !res.ok {
			panic(fmt.Sprintf("storing case %d: %s (%+v)", i, res.why, sp))
		}
		ran := res.obs.Total0 >= res.spec.High
		key := fmt.Sprint("storing", res.obs.Items, res.obs.Calls, res.spec.High, res.spec.Low)
		cand := 0
		for _, it := range res.before {
			if entryName(filepath.Base(it.rel), false) && it.dir {
				cand++
			}
		}
		if cand <= 12 {
			// (CStoring contains the run of clean at the gate: no separate CClean case)
			c.Case(coqStoring(&res.obs), res.obs.slim(), key, ran)
		} else {
			c.Eval(res.obs.slim(), key, ran)
		}
		res.oracle(c)
		so := res.obs.Storing[0]
		if ran {
			evicting++
		}
		if len(so.Missing) > 0 {
			damaged++
		}
		c.Hist("kind", sp.Kind)
		c.Hist("storing_water_marks", res.spec.Marks)
		c.HistN("storing_gate", so.gate)
		c.HistN("storing_files", len(so.files))
		c.Hist("storing_entry_marked_at_gate", fmt.Sprint(so.Marked))
		c.HistN("removed_roots", countRoots(res))
	}
	c.Note("real-Store stream: %d layouts, clean had to evict in %d of them while the Store was stopped inside RecursiveLink; %d stored entries came out incomplete", n, evicting, damaged)
}

func countRoots(r *run) int {
	n := 0
	for _, p := range r.obs.Removed {
		if parent := filepath.Dir(p); r.after[parent] || parent == "." {
			n++
		}
	}
	return n
}
