// C26: test outcomes are parsed and summarised faithfully.
// Implementation side of the correspondence + the model-independent property oracle.
//
// Streams
//
//	dispatch  byte prefixes through looksLikeJUnitXMLTestResults
//	count     explicit core.TestSuite values through Tests/Passes/FlakyPasses/Failures/Errors/Skips/AllSucceeded
//	add       TestSuite.Add on explicit suites
//	parse     intended outcome sets rendered to JUnit XML / `go test -v` text, parsed by parseTestResultDatum
//	flake     scenarios (flakiness, attempts with exit status and result files) through the real parseTestOutput,
//	          TestSuite.Add, AllSucceeded and BuildTarget.AddTestResults, folded in the order doFlakeRun uses
//	e2e       the same kind of scenario as gentest targets run by the real `plz test` (real doFlakeRun, summary lines)
//	collide   (inside add / flake / e2e) cases whose different (classname, name) pairs have the same joined form
//	          classname + "." + name, empty names and classnames included
//	stored    parseTestResultsFile / readTestResultsDir on a file or directory at the real target.TestResultsFile() path
//	twice     the e2e targets run by a SECOND `plz test` of the unchanged repository (cached path), totals and result
//	          XML of both invocations compared with each other and with the model
//	empty     (inside flake / e2e / stored) attempts that leave a results file of length zero - alone, or as one shard of
//	          a results directory next to passing shards - with exit status 0
//	args      gentest targets whose runner executes a SUBSET of the cases when given an argument, run by four consecutive
//	          invocations of the real binary: `plz test //a:all sub`, `plz test //a:all`, then both again
package main

import (
	"encoding/xml"
	"errors"
	"fmt"
	"os"
	"os/exec"
	"path/filepath"
	"regexp"
	"sort"
	"strconv"
	"strings"

	"verifharness/lib"

	"github.com/thought-machine/please/src/core"
	"github.com/thought-machine/please/src/test"
)

// ------------------------------------------------------------------------------------------------
// observed data

type Exec struct{ F, E, S bool }
type Case struct {
	Class, Name string
	Execs       []Exec
}

func fromCore(cs core.TestCases) []Case {
	out := []Case{}
	for _, c := range cs {
		k := Case{Class: c.ClassName, Name: c.Name, Execs: []Exec{}}
		for _, e := range c.Executions {
			k.Execs = append(k.Execs, Exec{e.Failure != nil, e.Error != nil, e.Skip != nil})
		}
		out = append(out, k)
	}
	return out
}

func toCoreExec(e Exec) core.TestExecution {
	x := core.TestExecution{}
	if e.F {
		x.Failure = &core.TestResultFailure{Message: "f"}
	}
	if e.E {
		x.Error = &core.TestResultFailure{Message: "e"}
	}
	if e.S {
		x.Skip = &core.TestResultSkip{Message: "s"}
	}
	return x
}

func toCore(cs []Case) core.TestCases {
	out := core.TestCases{}
	for _, c := range cs {
		k := core.TestCase{ClassName: c.Class, Name: c.Name}
		for _, e := range c.Execs {
			k.Executions = append(k.Executions, toCoreExec(e))
		}
		out = append(out, k)
	}
	return out
}

type counts [6]int // tests passes flaky failures errors skips

func countsOf(s *core.TestSuite) counts {
	return counts{s.Tests(), s.Passes(), s.FlakyPasses(), s.Failures(), s.Errors(), s.Skips()}
}

// ------------------------------------------------------------------------------------------------
// Coq printers

func coqExec(e Exec) string {
	return lib.App("mkExec", lib.Bool(e.F), lib.Bool(e.E), lib.Bool(e.S))
}
func coqCase(c Case) string {
	es := []string{}
	for _, e := range c.Execs {
		es = append(es, coqExec(e))
	}
	return lib.App("mkCase", lib.Str(c.Class), lib.Str(c.Name), lib.List(es))
}
func coqSuite(cs []Case) string {
	out := []string{}
	for _, c := range cs {
		out = append(out, coqCase(c))
	}
	return lib.List(out)
}
func coqCounts(c counts) string {
	out := []string{}
	for _, x := range c {
		out = append(out, strconv.Itoa(x))
	}
	return "[" + strings.Join(out, ";") + "]%N"
}
func coqXCase(x XCase) string {
	return lib.App("mkX", lib.Str(x.Class), lib.Str(x.Name), lib.Bool(x.Fail), lib.Bool(x.Err), lib.Bool(x.Skip),
		lib.Nat(x.FlakyF), lib.Nat(x.FlakyE), lib.Nat(x.RerunF), lib.Nat(x.RerunE))
}
func coqXSuite(x XSuite) string {
	cs, ns := []string{}, []string{}
	for _, c := range x.Cases {
		cs = append(cs, coqXCase(c))
	}
	for _, n := range x.Nested {
		ns = append(ns, coqXSuite(n))
	}
	return lib.App("XS", lib.List(cs), lib.List(ns))
}
func coqDatum(d Datum) string {
	switch d.Kind {
	case "xml":
		tops := []string{}
		for _, t := range d.Tops {
			switch t.Kind {
			case "suites":
				ss := []string{}
				for _, x := range t.Suites {
					ss = append(ss, coqXSuite(x))
				}
				tops = append(tops, lib.App("XSuites", lib.List(ss)))
			case "suite":
				tops = append(tops, lib.App("XSuite", coqXSuite(t.Suites[0])))
			default:
				tops = append(tops, lib.App("XCase", coqXCase(*t.Case)))
			}
		}
		return lib.App("DXml", lib.List(tops))
	case "go":
		ts := []string{}
		for _, g := range d.Go {
			r := map[string]string{"pass": "GPass", "fail": "GFail", "skip": "GSkip", "unknown": "GUnknown"}[g.Res]
			ts = append(ts, lib.Pair(lib.Str(g.Name), r))
		}
		return lib.App("DGo", lib.List(ts))
	}
	if d.Text == "" {
		return "DEmpty" // a results file of length zero
	}
	return "DBad"
}
func coqAttempts(as []Attempt) string {
	out := []string{}
	for _, a := range as {
		ds := []string{}
		for _, d := range a.Data {
			ds = append(ds, coqDatum(d))
		}
		out = append(out, lib.App("mkAttempt", lib.Bool(a.ExitNonzero), lib.List(ds)))
	}
	return lib.List(out)
}

// ------------------------------------------------------------------------------------------------
// intended outcome sets

type XCase struct {
	Class, Name                    string
	Fail, Err, Skip                bool // <failure>, <error>, <skipped> present
	FlakyF, FlakyE, RerunF, RerunE int
}
type XSuite struct {
	Name   string
	Cases  []XCase
	Nested []XSuite
}
type XTop struct {
	Kind   string // suites | suite | case
	Suites []XSuite
	Case   *XCase `json:",omitempty"`
}
type GoCase struct {
	Name string
	Res  string // pass | fail | skip | unknown (=== RUN without a result line)
}
type Datum struct {
	Kind  string // xml | go | bad
	Tops  []XTop   `json:",omitempty"`
	Go    []GoCase `json:",omitempty"`
	Style int
	Text  string // the rendered bytes
}
type Attempt struct {
	ExitNonzero bool
	Data        []Datum
}
type Scenario struct {
	Name     string
	NoOutput bool
	Flaky    int
	Attempts []Attempt
	Domain   bool // inside the property's domain (the oracle applies)
}

// an intended case with the outcomes of its executions in one attempt
type ICase struct {
	Class, Name string
	Outs        []string // pass fail error skip
	nested      bool
	bare        bool
}

func wellMarked(x XCase) bool {
	n := 0
	for _, b := range []bool{x.Fail, x.Err, x.Skip} {
		if b {
			n++
		}
	}
	if n > 1 {
		return false
	}
	pass := n == 0
	if (x.FlakyF > 0 || x.FlakyE > 0) && !pass {
		return false // flaky* elements document a case that finally passed
	}
	if (x.RerunF > 0 || x.RerunE > 0) && !(x.Fail || x.Err) {
		return false // rerun* elements document a case that never passed
	}
	return true
}

func xOuts(x XCase) []string {
	outs := []string{}
	switch {
	case x.Fail:
		outs = append(outs, "fail")
	case x.Err:
		outs = append(outs, "error")
	case x.Skip:
		outs = append(outs, "skip")
	default:
		outs = append(outs, "pass")
	}
	for i := 0; i < x.FlakyF+x.RerunF; i++ {
		outs = append(outs, "fail")
	}
	for i := 0; i < x.FlakyE+x.RerunE; i++ {
		outs = append(outs, "error")
	}
	return outs
}

func suiteICases(x XSuite, nested bool, out *[]ICase) {
	for _, c := range x.Cases {
		*out = append(*out, ICase{Class: c.Class, Name: c.Name, Outs: xOuts(c), nested: nested})
	}
	for _, n := range x.Nested {
		suiteICases(n, true, out)
	}
}

// every test case written in the document, in document order
func intended(d Datum) []ICase {
	out := []ICase{}
	switch d.Kind {
	case "xml":
		for _, t := range d.Tops {
			if t.Kind == "case" {
				out = append(out, ICase{Class: t.Case.Class, Name: t.Case.Name, Outs: xOuts(*t.Case), bare: true})
			} else {
				for _, x := range t.Suites {
					suiteICases(x, false, &out)
				}
			}
		}
	case "go":
		for _, g := range d.Go {
			out = append(out, ICase{Name: g.Name, Outs: []string{g.Res}})
		}
	}
	return out
}

func inDomain(d Datum) bool {
	ok := true
	var walk func(x XSuite)
	walk = func(x XSuite) {
		for _, c := range x.Cases {
			ok = ok && wellMarked(c)
		}
		for _, n := range x.Nested {
			walk(n)
		}
	}
	switch d.Kind {
	case "xml":
		for _, t := range d.Tops {
			if t.Kind == "case" {
				ok = ok && wellMarked(*t.Case)
			}
			for _, x := range t.Suites {
				walk(x)
			}
		}
	case "go":
		for _, g := range d.Go {
			ok = ok && g.Res != "unknown"
		}
	default:
		return false
	}
	return ok
}

func has(outs []string, o string) bool {
	for _, x := range outs {
		if x == o {
			return true
		}
	}
	return false
}

// the outcome category of a case from the outcomes of all its executions (the property's five kinds)
func category(outs []string) string {
	switch {
	case has(outs, "pass"):
		if has(outs, "fail") || has(outs, "error") || has(outs, "skip") {
			return "flaky"
		}
		return "pass"
	case has(outs, "skip"):
		return "skip"
	case has(outs, "error"):
		return "error"
	default:
		return "fail"
	}
}

func execOuts(es []Exec) ([]string, bool) {
	outs := []string{}
	for _, e := range es {
		n := 0
		for _, b := range []bool{e.F, e.E, e.S} {
			if b {
				n++
			}
		}
		switch {
		case n > 1:
			return nil, false
		case e.F:
			outs = append(outs, "fail")
		case e.E:
			outs = append(outs, "error")
		case e.S:
			outs = append(outs, "skip")
		default:
			outs = append(outs, "pass")
		}
	}
	return outs, len(es) > 0
}

func sameMultiset(a, b []string) bool {
	if len(a) != len(b) {
		return false
	}
	m := map[string]int{}
	for _, x := range a {
		m[x]++
	}
	for _, x := range b {
		m[x]--
	}
	for _, v := range m {
		if v != 0 {
			return false
		}
	}
	return true
}

// do the parsed cases equal the intended ones (names, class names, outcomes of the executions)?
func sameCases(parsed []Case, want []ICase) bool {
	if len(parsed) != len(want) {
		return false
	}
	for i := range want {
		outs, ok := execOuts(parsed[i].Execs)
		if !ok || parsed[i].Class != want[i].Class || parsed[i].Name != want[i].Name || !sameMultiset(outs, want[i].Outs) {
			return false
		}
	}
	return true
}

// ------------------------------------------------------------------------------------------------
// the summary the property demands for a scenario, and the same with known deviations switched on
// (the latter is used ONLY to name the class of an input on which the plain specification already failed)

type dev struct{ mergeKeys, synthetic, doubleCount bool }

type ident struct {
	class, name string
	outs        []string
}

func attemptCases(a Attempt) []ICase {
	out := []ICase{}
	for _, d := range a.Data {
		out = append(out, intended(d)...)
	}
	return out
}

func caseOK(outs []string) bool { return has(outs, "pass") || has(outs, "skip") }

func summarise(sc Scenario, d dev) (counts, bool, []ident) {
	ids := []*ident{}
	index := map[string]*ident{}
	for i := 0; i < sc.Flaky && i < len(sc.Attempts); i++ {
		cs := attemptCases(sc.Attempts[i])
		if d.synthetic {
			nf := 0
			for _, c := range cs {
				if !caseOK(c.Outs) && !has(c.Outs, "error") && has(c.Outs, "fail") {
					nf++
				}
			}
			if sc.Attempts[i].ExitNonzero == (nf == 0) {
				cs = append(cs, ICase{Name: sc.Name, Outs: []string{"error"}})
			}
		}
		occ := map[string]int{}
		allOK := true
		for _, c := range cs {
			allOK = allOK && caseOK(c.Outs)
			key := c.Class + "\x00" + c.Name
			if !d.mergeKeys {
				occ[key]++
				key += "\x00" + strconv.Itoa(occ[key])
			}
			id := index[key]
			if id == nil {
				id = &ident{class: c.Class, name: c.Name}
				index[key] = id
				ids = append(ids, id)
			}
			id.outs = append(id.outs, c.Outs...)
		}
		if allOK {
			break
		}
	}
	var n counts
	passed := true
	out := []ident{}
	for _, id := range ids {
		out = append(out, *id)
		n[0]++
		passed = passed && caseOK(id.outs)
		if d.doubleCount {
			p, f, e, s := has(id.outs, "pass"), has(id.outs, "fail"), has(id.outs, "error"), has(id.outs, "skip")
			if !f && !e && !s {
				n[1]++
			}
			if p && len(id.outs) > 1 {
				n[2]++
			}
			if !p && !s && !e && f {
				n[3]++
			}
			if !p && !s && e {
				n[4]++
			}
			if s {
				n[5]++
			}
			continue
		}
		switch category(id.outs) {
		case "pass":
			n[1]++
		case "flaky":
			n[2]++
		case "fail":
			n[3]++
		case "error":
			n[4]++
		case "skip":
			n[5]++
		}
	}
	return n, passed, out
}

// judge compares what the implementation reported for a scenario with the property; on a failure it names the
// narrowest known class whose (input-shape) precondition holds and whose predicted deviation is exactly what
// was observed, else the catch-all class.
func judge(c *lib.Ctx, where string, sc Scenario, got counts, passed bool) {
	c.Oracle()
	want, wantPass, _ := summarise(sc, dev{})
	if got == want && passed == wantPass {
		return
	}
	what := fmt.Sprintf("%s: target %s flaky=%d reported tests/passed/flakes/failed/errored/skipped=%v passing=%v, the outcome set written is %v passing=%v",
		where, sc.Name, sc.Flaky, got, passed, want, wantPass)
	if !classify(c, what, sc, got, passed) {
		c.Fail("summary-mismatch", what, sc.js())
	}
}

// classify names the known classes (by input shape and exact predicted deviation) of a report that differs from
// the outcome set written; false = none fits
func classify(c *lib.Ctx, what string, sc Scenario, got counts, passed bool) bool {
	classes := [3]string{"repeated-case-name-merged-as-retry", "exit-status-check-adds-synthetic-case", "retried-case-counted-twice"}
	for mask := 1; mask < 8; mask++ {
		d := dev{mask&1 != 0, mask&2 != 0, mask&4 != 0}
		n, p, ids := summarise(sc, d)
		if n != got || p != passed || !shapesPresent(sc, d, ids) {
			continue
		}
		for i, cl := range classes {
			if mask&(1<<i) != 0 {
				c.Fail(cl, what, sc.js())
			}
		}
		return true
	}
	return false
}

// the number of attempts the retry loop executes on a scenario of the domain (exit status consistent with the cases)
func executedCount(sc Scenario) int {
	n := 0
	for i := 0; i < sc.Flaky && i < len(sc.Attempts); i++ {
		n++
		ok := true
		for _, k := range attemptCases(sc.Attempts[i]) {
			ok = ok && caseOK(k.Outs)
		}
		if ok {
			break
		}
	}
	return n
}

// judgeSecond: the report of a second invocation of the unchanged target.  Nothing was re-run (or the same attempts
// were), so the property demands the outcome counts of the first report.  Known deviation: the cached path re-reads
// the stored file of the LAST attempt only.
func judgeSecond(c *lib.Ctx, sc Scenario, got counts, passed, cached bool, js any) {
	c.Oracle()
	want, wantPass, _ := summarise(sc, dev{})
	if got == want && passed == wantPass {
		return
	}
	what := fmt.Sprintf("second `plz test` of the unchanged target %s flaky=%d (cached=%v) reported tests/passed/flakes/failed/errored/skipped=%v passing=%v, the outcome set written is %v passing=%v",
		sc.Name, sc.Flaky, cached, got, passed, want, wantPass)
	if k := executedCount(sc); cached && k > 1 {
		last := Scenario{Name: sc.Name, Flaky: 1, Attempts: []Attempt{sc.Attempts[k-1]}}
		if n, p, _ := summarise(last, dev{}); n == got && p == passed {
			c.Fail("cached-report-forgets-retries", what, js)
			return
		}
	}
	if !cached && classify(c, what, sc, got, passed) {
		return
	}
	c.Fail("summary-mismatch", what, js)
}

// a case of the domain that neither passed nor was skipped in any executed attempt must be reported, under its own
// (classname, name), as a case without a passing or skipped execution: never as a pass or a flake of another case
func judgeFailedCases(c *lib.Ctx, where string, sc Scenario, got []Case) {
	c.Oracle()
	_, _, ids := summarise(sc, dev{})
	occ := map[[2]string]int{}
	for _, id := range ids {
		occ[[2]string{id.class, id.name}]++
	}
	for _, id := range ids {
		if caseOK(id.outs) || occ[[2]string{id.class, id.name}] > 1 {
			continue // repeated pairs inside one attempt: class repeated-case-name-merged-as-retry, judged by judge()
		}
		found := false
		for _, g := range got {
			if g.Class == id.class && g.Name == id.name {
				outs, _ := execOuts(g.Execs)
				found = !caseOK(outs)
			}
		}
		if !found {
			c.Fail("failed-case-not-reported-as-failed", fmt.Sprintf("%s: case classname=%q name=%q has outcomes %v (never passed, never skipped) but the report %v has no failed/errored case with that classname and name",
				where, id.class, id.name, id.outs, got), sc.js())
			return
		}
	}
}

// the input-shape precondition of each known class
func shapesPresent(sc Scenario, d dev, ids []ident) bool {
	if d.mergeKeys {
		dup := false
		for i := 0; i < sc.Flaky && i < len(sc.Attempts); i++ {
			seen := map[string]bool{}
			for _, k := range attemptCases(sc.Attempts[i]) {
				key := k.Class + "\x00" + k.Name
				dup = dup || seen[key]
				seen[key] = true
			}
		}
		if !dup {
			return false
		}
	}
	if d.synthetic {
		// an attempt whose exit status is non-zero although it reports no failed (only errored) case
		syn := false
		for i := 0; i < sc.Flaky && i < len(sc.Attempts); i++ {
			nf := 0
			for _, k := range attemptCases(sc.Attempts[i]) {
				if !caseOK(k.Outs) && !has(k.Outs, "error") && has(k.Outs, "fail") {
					nf++
				}
			}
			syn = syn || (sc.Attempts[i].ExitNonzero && nf == 0)
		}
		if !syn {
			return false
		}
	}
	if d.doubleCount {
		// a case that ran more than once, passed at least once and either never failed/errored or was also skipped
		dc := false
		for _, id := range ids {
			if has(id.outs, "pass") && len(id.outs) > 1 && (has(id.outs, "skip") || (!has(id.outs, "fail") && !has(id.outs, "error"))) {
				dc = true
			}
		}
		if !dc {
			return false
		}
	}
	return true
}

// hasEmpty: the attempt left a results file of length zero
func hasEmpty(a Attempt) bool {
	for _, d := range a.Data {
		if d.Kind == "bad" && d.Text == "" {
			return true
		}
	}
	return false
}

// judgeEmpty: an empty results file says nothing about the cases of the shard that should have written it.  When
// every attempt inside the allowance left one, no executed attempt vouches for the target: it must not be reported
// as passing, whatever the exit status and whatever the other shards say.
func judgeEmpty(c *lib.Ctx, where string, sc Scenario, got counts, passed bool) {
	k := min(engineFlaky(sc), len(sc.Attempts))
	if k == 0 {
		return
	}
	for i := 0; i < k; i++ {
		if !hasEmpty(sc.Attempts[i]) {
			return
		}
	}
	c.Oracle()
	if passed {
		c.Fail("empty-results-file-ignored", fmt.Sprintf("%s: every attempt of target %s (flaky=%d) left an empty results file, yet it is reported as passing with tests/passed/flakes/failed/errored/skipped=%v",
			where, sc.Name, sc.Flaky, got), sc.js())
	}
}

// genEmptyScenario: every attempt writes 0-3 shards of passing / skipped cases and one empty file, mostly with exit status 0
func genEmptyScenario(r *lib.Rng, name string) Scenario {
	sc := Scenario{Name: name, Flaky: lib.Pick(r, []int{1, 1, 1, 2})}
	for a := 0; a < sc.Flaky; a++ {
		at := Attempt{ExitNonzero: r.Chance(1, 6)}
		nsh := lib.Pick(r, []int{0, 1, 2, 2, 3})
		pos := r.Intn(nsh + 1)
		for j := 0; j <= nsh; j++ {
			if j == pos {
				at.Data = append(at.Data, Datum{Kind: "bad", Text: ""})
			}
			if j == nsh {
				break
			}
			if r.Bool() {
				cs := []GoCase{{Name: fmt.Sprintf("TestS%dA", j), Res: "pass"}}
				if r.Bool() {
					cs = append(cs, GoCase{Name: fmt.Sprintf("TestS%dB", j), Res: lib.Pick(r, []string{"pass", "skip"})})
				}
				d := Datum{Kind: "go", Go: cs, Style: r.Intn(16)}
				render(&d)
				at.Data = append(at.Data, d)
			} else {
				at.Data = append(at.Data, xmlDatum(r.Intn(4096), XCase{Class: lib.Pick(r, classPool), Name: fmt.Sprintf("s%d %s", j, lib.Pick(r, namePool))},
					XCase{Class: "c", Name: fmt.Sprintf("s%d_b", j), Skip: r.Chance(1, 3)}))
			}
		}
		sc.Attempts = append(sc.Attempts, at)
	}
	return sc
}

// restrict: the scenario a test runner executes when told to run only the cases in keep (the exit status follows
// the cases that ran)
func restrict(sc Scenario, keep map[[2]string]bool) Scenario {
	out := Scenario{Name: sc.Name, NoOutput: sc.NoOutput, Flaky: sc.Flaky, Domain: sc.Domain}
	for _, a := range sc.Attempts {
		na := Attempt{}
		for _, d := range a.Data {
			nd := Datum{Kind: d.Kind, Style: d.Style}
			for _, g := range d.Go {
				if keep[[2]string{"", g.Name}] {
					nd.Go = append(nd.Go, g)
					na.ExitNonzero = na.ExitNonzero || g.Res == "fail"
				}
			}
			for _, t := range d.Tops {
				nt := XTop{Kind: t.Kind}
				for _, x := range t.Suites {
					nx := XSuite{Name: x.Name}
					for _, k := range x.Cases {
						if keep[[2]string{k.Class, k.Name}] {
							nx.Cases = append(nx.Cases, k)
							na.ExitNonzero = na.ExitNonzero || k.Fail || k.Err
						}
					}
					nt.Suites = append(nt.Suites, nx)
				}
				nd.Tops = append(nd.Tops, nt)
			}
			render(&nd)
			na.Data = append(na.Data, nd)
		}
		out.Attempts = append(out.Attempts, na)
	}
	return out
}

// an argument pair: the complete scenario of a target and what its runner executes when given an argument
type argPair struct{ Full, Sub Scenario }

func genArgPair(r *lib.Rng, name string) argPair {
	for {
		full := genScenarioC(r, name, false)
		ids := [][2]string{}
		seen := map[[2]string]bool{}
		for _, k := range attemptCases(full.Attempts[0]) {
			id := [2]string{k.Class, k.Name}
			if !seen[id] {
				seen[id] = true
				ids = append(ids, id)
			}
		}
		if len(ids) < 2 {
			continue
		}
		// keep a non-empty proper subset; two times in three the cases that pass in the first attempt (the restricted
		// run then passes and would be worth storing)
		keep := map[[2]string]bool{}
		if r.Chance(2, 3) {
			for _, k := range attemptCases(full.Attempts[0]) {
				if len(k.Outs) == 1 && k.Outs[0] == "pass" {
					keep[[2]string{k.Class, k.Name}] = true
				}
			}
		}
		if len(keep) == 0 || len(keep) == len(ids) {
			keep = map[[2]string]bool{}
			lib.Shuffle(r, ids)
			for _, id := range ids[:r.Range(1, len(ids)-1)] {
				keep[id] = true
			}
		}
		return argPair{full, restrict(full, keep)}
	}
}

func forcedArgPairs() []argPair {
	mk := func(name string, flaky int, keep []string, atts ...[]GoCase) argPair {
		full := Scenario{Name: name, Flaky: flaky, Domain: true}
		for _, cs := range atts {
			bad := false
			for _, k := range cs {
				bad = bad || k.Res == "fail"
			}
			full.Attempts = append(full.Attempts, Attempt{ExitNonzero: bad, Data: []Datum{goDatum(cs...)}})
		}
		km := map[[2]string]bool{}
		for _, k := range keep {
			km[[2]string{"", k}] = true
		}
		return argPair{full, restrict(full, km)}
	}
	return []argPair{
		// the literal sequence: TestA passes, TestB fails; `-- TestA` first
		mk("gab", 1, []string{"TestA"}, []GoCase{{Name: "TestA", Res: "pass"}, {Name: "TestB", Res: "fail"}}),
		// every case passes: the complete run is stored and later re-read; the restricted run in between must not replace it
		mk("gok", 1, []string{"TestB"}, []GoCase{{Name: "TestA", Res: "pass"}, {Name: "TestB", Res: "pass"}, {Name: "TestC", Res: "skip"}}),
		// the selected case passes at once, the complete test needs its retry
		mk("gfl", 2, []string{"TestA"}, []GoCase{{Name: "TestA", Res: "pass"}, {Name: "TestB", Res: "fail"}},
			[]GoCase{{Name: "TestA", Res: "pass"}, {Name: "TestB", Res: "pass"}}),
	}
}

var summaryLineA = regexp.MustCompile(`^//a:(\S+) (\d+) tests? run[^;]*; (\d+) passed(?:, (\d+) errored)?(?:, (\d+) failed)?(?:, (\d+) skipped)?(?:, (\d+) flakes?)?`)
var failLineA = regexp.MustCompile(`^Fail: //a:(\S+) `)

// the invocations of the args stream: true = `plz test //a:all sub`, false = `plz test //a:all`
var argHistory = []bool{true, false, true, false}

// runArgsE2E writes the pairs as gentest targets of package a whose runner copies the results of the complete scenario,
// or of the restricted one when it is given an argument, and runs the invocations of argHistory in one repository.
func runArgsE2E(c *lib.Ctx, plz string, pairs []argPair) ([]map[string]*e2eResult, error) {
	root := filepath.Join(c.Out, "e2e-args-repo")
	os.RemoveAll(root)
	defer os.RemoveAll(root)
	state := filepath.Join(root, "state")
	if err := os.MkdirAll(filepath.Join(root, "a"), 0o755); err != nil {
		return nil, err
	}
	cfg := "[build]\npath = /usr/local/bin:/usr/bin:/bin\n[cache]\ndir = " + filepath.Join(root, "cache") + "\n[test]\ntimeout = 120\n"
	os.WriteFile(filepath.Join(root, ".plzconfig"), []byte(cfg), 0o644)
	var b strings.Builder
	for _, p := range pairs {
		for v, sc := range map[string]Scenario{"f": p.Full, "s": p.Sub} {
			for i, a := range sc.Attempts {
				if len(a.Data) != 1 {
					return nil, fmt.Errorf("args stream: attempt with %d result files", len(a.Data))
				}
				os.WriteFile(filepath.Join(root, "a", fmt.Sprintf("%s_%s_%d.res", sc.Name, v, i+1)), []byte(a.Data[0].Text), 0o644)
				code := "0"
				if a.ExitNonzero {
					code = "1"
				}
				os.WriteFile(filepath.Join(root, "a", fmt.Sprintf("%s_%s_%d.exit", sc.Name, v, i+1)), []byte(code+"\n"), 0o644)
			}
		}
		name := p.Full.Name
		cnt := filepath.Join(state, name)
		// test arguments are appended to the command: they become the arguments of run
		cmd := fmt.Sprintf(`run() { n=$(cat %s 2>/dev/null || echo 0); n=$((n+1)); echo $n > %s; v=f; if [ -n "${1:-}" ]; then v=s; fi; `, cnt, cnt) +
			fmt.Sprintf(`cp a/%s_${v}_${n}.res $RESULTS_FILE; exit $(cat a/%s_${v}_${n}.exit); }; run`, name, name)
		fmt.Fprintf(&b, "gentest(\n    name = %q,\n    test_cmd = %q,\n    data = glob([%q]),\n    flaky = %d,\n)\n", name, cmd, name+"_*", p.Full.Flaky)
	}
	os.WriteFile(filepath.Join(root, "a", "BUILD"), []byte(b.String()), 0o644)
	atoi := func(s string) int { n, _ := strconv.Atoi(s); return n }
	all := []map[string]*e2eResult{}
	for inv, withArgs := range argHistory {
		os.RemoveAll(state)
		os.MkdirAll(state, 0o755)
		args := []string{"300", plz, "test", "--plain_output", "--detailed", "--keep_going", "//a:all"}
		if withArgs {
			args = append(args, "sub")
		}
		cmd := exec.Command("timeout", args...)
		cmd.Dir = root
		cmd.Env = append(os.Environ(), "HOME="+root)
		out, _ := cmd.CombinedOutput()
		res := map[string]*e2eResult{}
		for _, p := range pairs {
			res[p.Full.Name] = &e2eResult{passed: true}
		}
		for _, line := range strings.Split(ansi.ReplaceAllString(string(out), ""), "\n") {
			if m := failLineA.FindStringSubmatch(line); m != nil && res[m[1]] != nil {
				res[m[1]].passed = false
			}
			if m := summaryLineA.FindStringSubmatch(line); m != nil && res[m[1]] != nil {
				r := res[m[1]]
				r.seen = true
				r.cached = strings.Contains(line, "[cached]")
				r.n = counts{atoi(m[2]), atoi(m[3]), atoi(m[7]), atoi(m[5]), atoi(m[4]), atoi(m[6])}
			}
		}
		if !strings.Contains(string(out), "test target") {
			return nil, fmt.Errorf("args stream, invocation %d: no summary in the output of plz test:\n%s", inv+1, tail(string(out), 3000))
		}
		for name, r := range res {
			if !r.seen {
				return nil, fmt.Errorf("args stream, invocation %d: no summary line for target %s:\n%s", inv+1, name, tail(string(out), 3000))
			}
		}
		all = append(all, res)
	}
	return all, nil
}

func (sc Scenario) js() any {
	return map[string]any{"name": sc.Name, "flaky": sc.Flaky, "no_output": sc.NoOutput, "attempts": sc.Attempts}
}

// ------------------------------------------------------------------------------------------------
// renderers

var namePool = []string{"a&b", "<init>", "x>y", `say "hi"`, "it's", "ünïcödé", "日本語テスト", "snow☃man", `mix&<>"'é`,
	"plain_test", "Test With Space", "TestAlpha", "TestBeta", "test_gamma", "a]]>b", "&amp;", "&#38;lt;"}
var classPool = []string{"", "pkg.Cls", "a&b.C<d>", `q"uo'te`, "Ünï.Cls"}

// strings with at least two dots: splitting one at different dots gives different (classname, name) pairs whose
// joined form classname + "." + name is the same string
var dottedPool = []string{"pkg.Outer.Inner.test_ok", "a.b.c", ".x.y", "a..b", "x.y.", "..", "com.ex.Cls$In.m.n", "T.a&b.<c>"}

func collidingPairs(r *lib.Rng) [][2]string {
	w := lib.Pick(r, dottedPool)
	dots := []int{}
	for i := range w {
		if w[i] == '.' {
			dots = append(dots, i)
		}
	}
	lib.Shuffle(r, dots)
	out := [][2]string{}
	for _, i := range dots[:r.Range(2, min(3, len(dots)))] {
		out = append(out, [2]string{w[:i], w[i+1:]})
	}
	return out
}

func escAttr(s string, style int) string {
	var b strings.Builder
	for _, r := range s {
		switch r {
		case '&':
			if style&1 != 0 {
				b.WriteString("&#38;")
			} else {
				b.WriteString("&amp;")
			}
		case '<':
			if style&1 != 0 {
				b.WriteString("&#x3C;")
			} else {
				b.WriteString("&lt;")
			}
		case '>':
			if style&2 != 0 {
				b.WriteString(">")
			} else {
				b.WriteString("&gt;")
			}
		case '"':
			b.WriteString("&quot;")
		case '\'':
			b.WriteString("&apos;")
		default:
			if r > 0x7f && style&4 != 0 {
				fmt.Fprintf(&b, "&#x%X;", r)
			} else {
				b.WriteRune(r)
			}
		}
	}
	return b.String()
}

func attr(k, v string, style int) string {
	q := `"`
	if style&8 != 0 {
		q = "'"
	}
	return " " + k + "=" + q + escAttr(v, style) + q
}

func text(s string, style int) string {
	if style&16 != 0 && !strings.Contains(s, "]]>") {
		return "<![CDATA[" + s + "]]>"
	}
	return escAttr(s, style&^2)
}

func renderXCase(b *strings.Builder, x XCase, style int, ind string) {
	nl := "\n"
	if style&32 != 0 {
		nl, ind = "", ""
	}
	b.WriteString(ind + "<testcase" + attr("name", x.Name, style))
	if x.Class != "" || style&64 != 0 {
		b.WriteString(attr("classname", x.Class, style))
	}
	b.WriteString(attr("time", "0.012", style))
	kids := []string{}
	msg := `boom & <bang> "x"`
	if x.Fail {
		kids = append(kids, "<failure"+attr("type", "AssertionError", style)+attr("message", msg, style)+">"+text("trace <1> & 2", style)+"</failure>")
	}
	if x.Err {
		kids = append(kids, "<error"+attr("type", "IOError", style)+">"+text("tb", style)+"</error>")
	}
	if x.Skip {
		if style&128 != 0 {
			kids = append(kids, "<skipped"+attr("message", "not today", style)+"></skipped>")
		} else {
			kids = append(kids, "<skipped"+attr("message", "not today", style)+"/>")
		}
	}
	for i := 0; i < x.FlakyF; i++ {
		kids = append(kids, "<flakyFailure"+attr("type", "T", style)+">"+text("f", style)+"<system-out>o</system-out></flakyFailure>")
	}
	for i := 0; i < x.FlakyE; i++ {
		kids = append(kids, "<flakyError"+attr("type", "T", style)+">"+text("e", style)+"</flakyError>")
	}
	for i := 0; i < x.RerunF; i++ {
		kids = append(kids, "<rerunFailure"+attr("type", "T", style)+attr("time", "0.5", style)+">"+text("f", style)+"</rerunFailure>")
	}
	for i := 0; i < x.RerunE; i++ {
		kids = append(kids, "<rerunError"+attr("type", "T", style)+">"+text("e", style)+"</rerunError>")
	}
	if style&256 != 0 {
		kids = append([]string{"<system-out>" + text("out <a> &", style) + "</system-out>"}, kids...)
	}
	if style&512 != 0 && len(kids) > 1 {
		kids[0], kids[len(kids)-1] = kids[len(kids)-1], kids[0]
	}
	if len(kids) == 0 {
		b.WriteString("/>" + nl)
		return
	}
	b.WriteString(">" + nl)
	for _, k := range kids {
		b.WriteString(ind + "  " + k + nl)
	}
	b.WriteString(ind + "</testcase>" + nl)
}

func renderXSuite(b *strings.Builder, x XSuite, style int, ind string) {
	nl := "\n"
	if style&32 != 0 {
		nl = ""
	}
	nf, ne, ns := 0, 0, 0
	for _, c := range x.Cases {
		if c.Fail {
			nf++
		}
		if c.Err {
			ne++
		}
		if c.Skip {
			ns++
		}
	}
	b.WriteString(ind + "<testsuite" + attr("name", x.Name, style) + attr("tests", strconv.Itoa(len(x.Cases)), style) +
		attr("failures", strconv.Itoa(nf), style) + attr("errors", strconv.Itoa(ne), style) + attr("skipped", strconv.Itoa(ns), style) +
		attr("time", "1.5", style) + ">" + nl)
	if style&1024 != 0 {
		b.WriteString(ind + "  <properties><property" + attr("name", "k&", style) + attr("value", "v<", style) + "/></properties>" + nl)
	}
	for _, c := range x.Cases {
		renderXCase(b, c, style, ind+"  ")
	}
	for _, n := range x.Nested {
		renderXSuite(b, n, style, ind+"  ")
	}
	b.WriteString(ind + "</testsuite>" + nl)
}

func renderXML(d Datum) string {
	var b strings.Builder
	style := d.Style
	// a document written by a JUnit-style reporter starts with the declaration or with its root element
	if style&2048 != 0 {
		b.WriteString(`<?xml version="1.0" encoding="UTF-8"?>` + "\n")
	}
	for _, t := range d.Tops {
		switch t.Kind {
		case "suites":
			b.WriteString("<testsuites" + attr("name", "all", style) + ">\n")
			for _, x := range t.Suites {
				renderXSuite(&b, x, style, "  ")
			}
			b.WriteString("</testsuites>\n")
		case "suite":
			renderXSuite(&b, t.Suites[0], style, "")
		default:
			renderXCase(&b, *t.Case, style, "")
		}
	}
	return b.String()
}

func renderGo(d Datum) string {
	var b strings.Builder
	failed := false
	// tests are listed in RUN order; a name containing '/' is a subtest, reported after its parent's result line
	i := 0
	for i < len(d.Go) {
		g := d.Go[i]
		j := i + 1
		for j < len(d.Go) && strings.HasPrefix(d.Go[j].Name, g.Name+"/") {
			j++
		}
		for k := i; k < j; k++ {
			b.WriteString("=== RUN   " + d.Go[k].Name + "\n")
			if d.Style&1 != 0 {
				b.WriteString("    x_test.go:12: log <line> & more\n")
			}
		}
		for k := i; k < j; k++ {
			ind := ""
			if k > i {
				ind = "    "
			}
			switch d.Go[k].Res {
			case "pass":
				b.WriteString(ind + "--- PASS: " + d.Go[k].Name + " (0.00s)\n")
			case "fail":
				failed = true
				if d.Style&2 != 0 {
					b.WriteString(ind + "    x_test.go:20: expected 1, got 2\n")
				}
				b.WriteString(ind + "--- FAIL: " + d.Go[k].Name + " (0.01s)\n")
			case "skip":
				b.WriteString(ind + "--- SKIP: " + d.Go[k].Name + " (0.00s)\n")
				if d.Style&4 != 0 {
					b.WriteString(ind + "    x_test.go:9: skipping in short mode\n")
				}
			default:
				failed = true
			}
		}
		i = j
	}
	if failed {
		b.WriteString("FAIL\n")
	} else {
		b.WriteString("PASS\n")
	}
	if d.Style&8 != 0 {
		b.WriteString("coverage: 42.0% of statements\n")
	}
	return b.String()
}

func render(d *Datum) {
	switch d.Kind {
	case "xml":
		d.Text = renderXML(*d)
	case "go":
		d.Text = renderGo(*d)
	}
}

// ------------------------------------------------------------------------------------------------
// generators

func genXCase(r *lib.Rng, class, name, out string, adversarial bool) XCase {
	x := XCase{Class: class, Name: name}
	switch out {
	case "fail":
		x.Fail = true
		if r.Chance(1, 6) {
			x.RerunF = r.Range(1, 2)
		}
		if r.Chance(1, 12) {
			x.RerunE = 1
		}
	case "error":
		x.Err = true
		if r.Chance(1, 6) {
			x.RerunE = r.Range(1, 2)
		}
	case "skip":
		x.Skip = true
	case "flaky":
		x.FlakyF = r.Range(0, 2)
		x.FlakyE = r.Range(0, 1)
		if x.FlakyF+x.FlakyE == 0 {
			x.FlakyF = 1
		}
	}
	if adversarial && r.Chance(1, 3) {
		// contradictory markers: outside the property's domain, the model must still follow the code
		switch r.Intn(4) {
		case 0:
			x.Fail, x.Skip = true, true
		case 1:
			x.Err, x.Skip = true, true
		case 2:
			x.Fail, x.Err = true, true
		default:
			x.Skip, x.FlakyF = true, 1
		}
	}
	return x
}

var outcomes = []string{"pass", "pass", "pass", "fail", "error", "skip", "flaky"}

func genSuite(r *lib.Rng, depth int, adversarial bool, dupOK bool) XSuite {
	x := XSuite{Name: lib.Pick(r, namePool)}
	n := r.Range(0, 4)
	for i := 0; i < n; i++ {
		c := genXCase(r, lib.Pick(r, classPool), lib.Pick(r, namePool), lib.Pick(r, outcomes), adversarial)
		if dupOK && len(x.Cases) > 0 && r.Chance(1, 5) {
			p := lib.Pick(r, x.Cases)
			c.Class, c.Name = p.Class, p.Name
		}
		x.Cases = append(x.Cases, c)
	}
	if depth > 0 && r.Chance(1, 2) {
		for i := r.Range(1, 2); i > 0; i-- {
			x.Nested = append(x.Nested, genSuite(r, depth-1, adversarial, dupOK))
		}
	}
	return x
}

// an XML document; shape: 0 plain (testsuites or one testsuite), 1 with nested suites, 2 bare testcases
func genXMLDatum(r *lib.Rng, shape int, adversarial bool) Datum {
	d := Datum{Kind: "xml", Style: r.Intn(4096)}
	switch shape {
	case 2:
		for i := r.Range(1, 3); i > 0; i-- {
			c := genXCase(r, lib.Pick(r, classPool), lib.Pick(r, namePool), lib.Pick(r, outcomes), adversarial)
			d.Tops = append(d.Tops, XTop{Kind: "case", Case: &c})
		}
	default:
		depth := 0
		if shape == 1 {
			depth = 2
		}
		if r.Bool() {
			t := XTop{Kind: "suites"}
			for i := r.Range(1, 3); i > 0; i-- {
				t.Suites = append(t.Suites, genSuite(r, depth, adversarial, true))
			}
			d.Tops = append(d.Tops, t)
		} else {
			d.Tops = append(d.Tops, XTop{Kind: "suite", Suites: []XSuite{genSuite(r, depth, adversarial, true)}})
		}
	}
	render(&d)
	return d
}

func goName(s string) string { return strings.ReplaceAll(s, " ", "_") }

func genGoDatum(r *lib.Rng, unknown bool) Datum {
	d := Datum{Kind: "go", Style: r.Intn(16)}
	n := r.Range(1, 5)
	for i := 0; i < n; i++ {
		name := "Test" + goName(lib.Pick(r, namePool))
		if r.Chance(1, 5) && len(d.Go) > 0 {
			name = d.Go[r.Intn(len(d.Go))].Name // repeated case (go test -count=2)
			if strings.Contains(name, "/") {
				name = name[:strings.Index(name, "/")]
			}
		}
		res := lib.Pick(r, []string{"pass", "pass", "fail", "skip"})
		if r.Chance(1, 4) {
			// a test with subtests: the parent fails iff a subtest fails
			subs := []GoCase{}
			parent := "pass"
			for k := r.Range(1, 3); k > 0; k-- {
				sr := lib.Pick(r, []string{"pass", "pass", "fail", "skip"})
				if sr == "fail" {
					parent = "fail"
				}
				subs = append(subs, GoCase{Name: name + "/" + goName(lib.Pick(r, namePool)) + "#" + strconv.Itoa(k), Res: sr})
			}
			d.Go = append(d.Go, GoCase{Name: name, Res: parent})
			d.Go = append(d.Go, subs...)
			continue
		}
		d.Go = append(d.Go, GoCase{Name: name, Res: res})
	}
	if unknown && r.Chance(1, 2) {
		d.Go = append(d.Go, GoCase{Name: "TestNeverFinished", Res: "unknown"})
	}
	render(&d)
	return d
}

// a scenario inside the property's domain: the same cases in every attempt, outcomes drawn per attempt, exit
// status non-zero exactly when some case of the attempt neither passed nor was skipped
func genScenario(r *lib.Rng, name string, e2e bool) Scenario {
	return genScenarioC(r, name, r.Chance(1, 6))
}

// collide: the cases are (XML only) two or three colliding pairs, sometimes with an ordinary case next to them
func genScenarioC(r *lib.Rng, name string, collide bool) Scenario {
	sc := Scenario{Name: name, Flaky: lib.Pick(r, []int{1, 1, 2, 2, 3}), Domain: true}
	goFmt := !collide && r.Chance(1, 3)
	type id struct{ class, name string }
	ids := []id{}
	n := r.Range(1, 5)
	if collide {
		for _, p := range collidingPairs(r) {
			ids = append(ids, id{p[0], p[1]})
		}
		n = r.Range(0, 1)
	}
	for i := 0; i < n; i++ {
		k := id{lib.Pick(r, classPool), lib.Pick(r, namePool)}
		if goFmt {
			k = id{"", "Test" + goName(lib.Pick(r, namePool))}
		}
		if len(ids) > 0 && r.Chance(1, 8) {
			k = lib.Pick(r, ids) // repeated case
		}
		ids = append(ids, k)
	}
	mode := r.Intn(4) // 0 mostly green, 1 one flaky case, 2 mixed, 3 errors only
	if collide {
		mode = lib.Pick(r, []int{0, 2, 2, 4}) // 4: one colliding case fails every time, the others pass
	}
	for a := 0; a < sc.Flaky; a++ {
		at := Attempt{}
		var d Datum
		if goFmt {
			d = Datum{Kind: "go", Style: r.Intn(16)}
		} else {
			d = Datum{Kind: "xml", Style: r.Intn(4096)}
		}
		suite := XSuite{Name: lib.Pick(r, namePool)}
		bad := false
		for i, k := range ids {
			out := "pass"
			switch mode {
			case 0:
				if r.Chance(1, 10) {
					out = lib.Pick(r, []string{"fail", "skip", "error"})
				}
			case 1:
				if i == 0 && a+1 < sc.Flaky {
					out = lib.Pick(r, []string{"fail", "error", "fail"})
				} else if r.Chance(1, 8) {
					out = "skip"
				}
			case 2:
				out = lib.Pick(r, outcomes)
				if a > 0 && r.Bool() {
					out = "pass"
				}
			case 4:
				if i == 0 {
					out = lib.Pick(r, []string{"fail", "fail", "error"})
				}
			default:
				if r.Chance(1, 2) && a+1 < max(sc.Flaky, 2) {
					out = "error"
				}
			}
			if goFmt {
				if out == "error" || out == "flaky" {
					out = "fail"
				}
				d.Go = append(d.Go, GoCase{Name: k.name, Res: out})
				bad = bad || out == "fail"
			} else {
				suite.Cases = append(suite.Cases, genXCase(r, k.class, k.name, out, false))
				bad = bad || out == "fail" || out == "error"
			}
		}
		if !goFmt {
			if r.Bool() {
				d.Tops = []XTop{{Kind: "suites", Suites: []XSuite{suite}}}
				if len(suite.Cases) > 1 && r.Chance(1, 3) {
					h := len(suite.Cases) / 2
					d.Tops[0].Suites = []XSuite{{Name: suite.Name, Cases: suite.Cases[:h]}, {Name: "second", Cases: suite.Cases[h:]}}
				}
			} else {
				d.Tops = []XTop{{Kind: "suite", Suites: []XSuite{suite}}}
			}
		}
		render(&d)
		at.Data = []Datum{d}
		at.ExitNonzero = bad
		sc.Attempts = append(sc.Attempts, at)
	}
	return sc
}

// scenarios outside the domain (inconsistent exit status, missing or unparseable results, no_test_output
// targets, several result files): correspondence only
func genWildScenario(r *lib.Rng, name string) Scenario {
	sc := genScenario(r, name, false)
	sc.Domain = false
	sc.NoOutput = r.Chance(1, 4)
	for i := range sc.Attempts {
		a := &sc.Attempts[i]
		switch r.Intn(6) {
		case 0:
			a.ExitNonzero = !a.ExitNonzero
		case 1:
			a.Data = nil
		case 2:
			a.Data = append(a.Data, Datum{Kind: "bad", Text: ""})
		case 3:
			a.Data = append(a.Data, Datum{Kind: "bad", Text: "<testsuites><testsuite><testcase name=\"a\"></testsuite>"})
		case 4:
			a.Data = append(a.Data, genGoDatum(r, true))
		case 5:
			a.Data = append(a.Data, genXMLDatum(r, r.Intn(3), true))
		}
	}
	return sc
}

// ------------------------------------------------------------------------------------------------
// running the implementation

func newTarget(name string, noOutput bool) *core.BuildTarget {
	t := core.NewBuildTarget(core.NewBuildLabel("t", name))
	t.Test = new(core.TestFields)
	t.Test.NoOutput = noOutput
	t.StartTestSuite()
	return t
}

// the body of doFlakeRun with doTest replaced by the real parseTestOutput on the attempt's files, followed by
// the real BuildTarget.AddTestResults
func runInProcess(sc Scenario) *core.TestSuite {
	target := newTarget(sc.Name, sc.NoOutput)
	results := core.TestSuite{}
	for flakes := 1; flakes <= sc.Flaky && flakes <= len(sc.Attempts); flakes++ {
		a := sc.Attempts[flakes-1]
		var runErr error
		if a.ExitNonzero {
			runErr = errors.New("exit status 1")
		}
		var data [][]byte
		for _, d := range a.Data {
			data = append(data, []byte(d.Text))
		}
		testSuite := test.VerifC26ParseOutput(runErr, target, data)
		results.Add(testSuite.TestCases...)
		if testSuite.TestCases.AllSucceeded() {
			break
		}
	}
	target.AddTestResults(results)
	return target.Test.Results
}

var ansi = regexp.MustCompile("\x1b\\[[0-9;]*m")
var summaryLine = regexp.MustCompile(`^//t:(\S+) (\d+) tests? run[^;]*; (\d+) passed(?:, (\d+) errored)?(?:, (\d+) failed)?(?:, (\d+) skipped)?(?:, (\d+) flakes?)?`)
var failLine = regexp.MustCompile(`^Fail: //t:(\S+) `)

type e2eResult struct {
	n      counts
	passed bool
	seen   bool
	cached bool        // the summary line carries [cached]
	xml    [][2]string // (classname, name) of the <testcase> elements of this target in --test_results_file, sorted
	xmlOK  bool
}

type resultsXML struct {
	Suites []struct {
		Name  string `xml:"name,attr"`
		Cases []struct {
			Name  string `xml:"name,attr"`
			Class string `xml:"classname,attr"`
		} `xml:"testcase"`
	} `xml:"testsuite"`
}

// runE2E writes the scenarios as gentest targets and runs `plz test //t:all` TWICE in the same repository: the
// second invocation finds every target unchanged, so targets whose results were stored take the cached path of
// test() (parseTestResultsFile on .test_results_<name>); the others are run again on the same attempts (the attempt
// counters are reset in between).
func runE2E(c *lib.Ctx, plz string, scs []Scenario) ([2]map[string]*e2eResult, error) {
	var both [2]map[string]*e2eResult
	root := filepath.Join(c.Out, "e2e-repo")
	os.RemoveAll(root)
	state := filepath.Join(root, "state")
	if err := os.MkdirAll(filepath.Join(root, "t"), 0o755); err != nil {
		return both, err
	}
	os.MkdirAll(state, 0o755)
	cfg := "[build]\npath = /usr/local/bin:/usr/bin:/bin\n[cache]\ndir = " + filepath.Join(root, "cache") + "\n[test]\ntimeout = 120\n"
	os.WriteFile(filepath.Join(root, ".plzconfig"), []byte(cfg), 0o644)
	var b strings.Builder
	for _, sc := range scs {
		for i, a := range sc.Attempts {
			for j, d := range a.Data {
				os.WriteFile(filepath.Join(root, "t", fmt.Sprintf("%s_%d_%d.res", sc.Name, i+1, j)), []byte(d.Text), 0o644)
			}
			code := "0"
			if a.ExitNonzero {
				code = "1"
			}
			os.WriteFile(filepath.Join(root, "t", fmt.Sprintf("%s_%d.exit", sc.Name, i+1)), []byte(code+"\n"), 0o644)
		}
		cnt := filepath.Join(state, sc.Name)
		cmd := fmt.Sprintf(`n=$(cat %s 2>/dev/null || echo 0); n=$((n+1)); echo $n > %s; `, cnt, cnt) +
			fmt.Sprintf(`if [ -e t/%s_${n}_1.res ]; then mkdir $RESULTS_FILE; cp t/%s_${n}_*.res $RESULTS_FILE/; `, sc.Name, sc.Name) +
			fmt.Sprintf(`elif [ -e t/%s_${n}_0.res ]; then cp t/%s_${n}_0.res $RESULTS_FILE; fi; exit $(cat t/%s_${n}.exit)`, sc.Name, sc.Name, sc.Name)
		noOut := "False"
		if sc.NoOutput {
			noOut = "True"
		}
		fmt.Fprintf(&b, "gentest(\n    name = %q,\n    test_cmd = %q,\n    data = glob([%q]),\n    flaky = %d,\n    no_test_output = %s,\n)\n",
			sc.Name, cmd, sc.Name+"_*", sc.Flaky, noOut)
	}
	os.WriteFile(filepath.Join(root, "t", "BUILD"), []byte(b.String()), 0o644)
	atoi := func(s string) int { n, _ := strconv.Atoi(s); return n }
	for inv := 0; inv < 2; inv++ {
		// every attempt counter starts again: a target that is run again executes the same attempts
		os.RemoveAll(state)
		os.MkdirAll(state, 0o755)
		xmlPath := filepath.Join(root, fmt.Sprintf("results%d.xml", inv+1))
		cmd := exec.Command("timeout", "300", plz, "test", "//t:all", "--plain_output", "--detailed", "--keep_going", "--test_results_file", xmlPath)
		cmd.Dir = root
		cmd.Env = append(os.Environ(), "HOME="+root)
		out, _ := cmd.CombinedOutput()
		res := map[string]*e2eResult{}
		for _, sc := range scs {
			res[sc.Name] = &e2eResult{passed: true}
		}
		for _, line := range strings.Split(ansi.ReplaceAllString(string(out), ""), "\n") {
			if m := failLine.FindStringSubmatch(line); m != nil && res[m[1]] != nil {
				res[m[1]].passed = false
			}
			if m := summaryLine.FindStringSubmatch(line); m != nil && res[m[1]] != nil {
				r := res[m[1]]
				r.seen = true
				r.cached = strings.Contains(line, "[cached]")
				r.n = counts{atoi(m[2]), atoi(m[3]), atoi(m[7]), atoi(m[5]), atoi(m[4]), atoi(m[6])}
			}
		}
		// a target for which nothing at all is printed has no per-target line (plz prints none for 0 tests): its
		// counters stay zero.  Only an invocation that printed no summary at all is an error of the harness.
		if !strings.Contains(string(out), "test target") {
			return both, fmt.Errorf("invocation %d: no summary in the output of plz test:\n%s", inv+1, tail(string(out), 3000))
		}
		if data, err := os.ReadFile(xmlPath); err == nil {
			var doc resultsXML
			if xml.Unmarshal(data, &doc) == nil {
				for _, s := range doc.Suites {
					if r := res[s.Name]; r != nil {
						r.xmlOK = true
						for _, k := range s.Cases {
							r.xml = append(r.xml, [2]string{k.Class, k.Name})
						}
						sort.Slice(r.xml, func(i, j int) bool {
							return r.xml[i][0] < r.xml[j][0] || (r.xml[i][0] == r.xml[j][0] && r.xml[i][1] < r.xml[j][1])
						})
					}
				}
			}
		}
		both[inv] = res
	}
	os.RemoveAll(root)
	return both, nil
}

// hand-made documents for the forced scenarios
func xmlDatum(style int, cases ...XCase) Datum {
	d := Datum{Kind: "xml", Style: style, Tops: []XTop{{Kind: "suite", Suites: []XSuite{{Name: "s", Cases: cases}}}}}
	render(&d)
	return d
}
func goDatum(cases ...GoCase) Datum {
	d := Datum{Kind: "go", Go: cases}
	render(&d)
	return d
}

// scenarios every run must contain: colliding pairs (one failing; all succeeding, hence stored and re-read), a
// retried target, a target without results file, go output, a results directory
func forcedScenarios(thorough bool) []Scenario {
	a, b := [2]string{"pkg.Outer", "Inner.test_ok"}, [2]string{"pkg.Outer.Inner", "test_ok"}
	out := []Scenario{
		// regression for the fixed finding flaky-allowance-wraps-mod-256 (flaky = 256 used to become an allowance of 0:
		// the test command never ran and the target was reported as passing): the command must run, fail, be retried
		{Name: "f256", Flaky: 256, Domain: true, Attempts: []Attempt{
			{ExitNonzero: true, Data: []Datum{xmlDatum(0, XCase{Class: "c", Name: "x", Fail: true})}},
			{Data: []Datum{xmlDatum(0, XCase{Class: "c", Name: "x"})}}}},
		// a go test case with a RUN line and no result line (gtr.Unknown) next to a passing one, exit status 0
		{Name: "fgounk", Flaky: 1, Attempts: []Attempt{{Data: []Datum{goDatum(
			GoCase{Name: "TestA", Res: "pass"}, GoCase{Name: "TestNeverFinished", Res: "unknown"})}}}},
		{Name: "fcol1", Flaky: 1, Domain: true, Attempts: []Attempt{{ExitNonzero: true, Data: []Datum{xmlDatum(0,
			XCase{Class: a[0], Name: a[1]}, XCase{Class: b[0], Name: b[1], Fail: true})}}}},
		{Name: "fcol2", Flaky: 1, Domain: true, Attempts: []Attempt{{Data: []Datum{xmlDatum(64,
			XCase{Class: a[0], Name: a[1]}, XCase{Class: b[0], Name: b[1], Skip: true}, XCase{Class: "", Name: "x.y"}, XCase{Class: ".x", Name: "y"},
			XCase{Class: "x.y", Name: ""})}}}},
		{Name: "fretry", Flaky: 2, Domain: true, Attempts: []Attempt{
			{ExitNonzero: true, Data: []Datum{xmlDatum(0, XCase{Class: "c", Name: "x", Fail: true}, XCase{Class: "c", Name: "y"})}},
			{Data: []Datum{xmlDatum(0, XCase{Class: "c", Name: "x"}, XCase{Class: "c", Name: "y"})}}}},
		{Name: "fnoout", Flaky: 1, NoOutput: true, Attempts: []Attempt{{}}},
		{Name: "fgo", Flaky: 1, Domain: true, Attempts: []Attempt{{Data: []Datum{goDatum(
			GoCase{Name: "TestA", Res: "pass"}, GoCase{Name: "TestB", Res: "skip"}, GoCase{Name: "TestC", Res: "pass"})}}}},
		{Name: "fdir", Flaky: 1, Domain: true, Attempts: []Attempt{{Data: []Datum{
			xmlDatum(2048, XCase{Class: "c", Name: "one"}, XCase{Class: "c", Name: "two", Skip: true}),
			goDatum(GoCase{Name: "TestD", Res: "pass"})}}}},
	}
	empty := Datum{Kind: "bad", Text: ""}
	out = append(out,
		// a single empty results file, exit status 0
		Scenario{Name: "fempty", Flaky: 1, Attempts: []Attempt{{Data: []Datum{empty}}}},
		// three shards, the middle one died right after creating its file, exit status 0
		Scenario{Name: "fshard", Flaky: 1, Attempts: []Attempt{{Data: []Datum{
			goDatum(GoCase{Name: "TestA", Res: "pass"}), empty, goDatum(GoCase{Name: "TestC", Res: "pass"})}}}},
		// the same on both attempts of a flaky target, the empty shard first / last
		Scenario{Name: "fshard2", Flaky: 2, Attempts: []Attempt{
			{Data: []Datum{empty, xmlDatum(0, XCase{Class: "c", Name: "x"})}},
			{Data: []Datum{xmlDatum(0, XCase{Class: "c", Name: "x"}), empty}}}})
	if thorough {
		// the literal regression: `exit 1` on every attempt, no results file; 255 attempts (about 20 s per invocation)
		sc := Scenario{Name: "f256x", Flaky: 256}
		for i := 0; i < 255; i++ {
			sc.Attempts = append(sc.Attempts, Attempt{ExitNonzero: true})
		}
		out = append(out, sc)
	}
	return out
}

// the allowance the engine sees: src/parse/asp/targets.go clamps `flaky` to uint8
func engineFlaky(sc Scenario) int { return min(sc.Flaky, 255) }

// forced scenarios only: a case written without an outcome must not be counted as passed
func judgeUnfinished(c *lib.Ctx, where string, sc Scenario, got counts, passed bool) {
	npass, nunk := 0, 0
	for _, a := range sc.Attempts {
		for _, k := range attemptCases(a) {
			if len(k.Outs) == 1 && k.Outs[0] == "pass" {
				npass++
			}
			if len(k.Outs) == 1 && k.Outs[0] == "unknown" {
				nunk++
			}
		}
	}
	if nunk == 0 {
		return
	}
	c.Oracle()
	if got[1] > npass {
		c.Fail("go-test-unfinished-case-counted-as-passed", fmt.Sprintf("%s: target %s wrote %d passed cases and %d cases with a `=== RUN` line but no result line; reported tests/passed/flakes/failed/errored/skipped=%v passing=%v",
			where, sc.Name, npass, nunk, got, passed), sc.js())
	}
}

func tail(s string, n int) string {
	if len(s) > n {
		return s[len(s)-n:]
	}
	return s
}

// ------------------------------------------------------------------------------------------------

func main() {
	lib.Main("C26", func(c *lib.Ctx) {
		c.Model("From PlzV Require Import Model.C26.", "C26.case", "C26.check")
		c.Rule("outcome sets (1-5 cases per suite; names and class names with & < > \" ' ]]> entity look-alikes and non-ASCII text; " +
			"testsuites/testsuite/nested testsuite/bare testcase documents; repeated names; pass/fail/error/skip and flaky/rerun elements) " +
			"rendered in 4096 XML styles and 16 `go test -v` styles and parsed by the real parseTestResultDatum; scenarios (flakiness 1-3, " +
			"per-attempt outcomes and exit status) through the real parseTestOutput + TestSuite.Add + AllSucceeded + AddTestResults and, " +
			"for a subset, as gentest targets through the real `plz test`; explicit suites through the counters (all single cases with <= 3 " +
			"executions exhaustively) and Add. Adversarial: in every third Add input, every eighth in-process scenario, a sixth of the other scenarios " +
			"and two forced e2e targets the cases are different (classname, name) pairs with the same joined form classname.name (one dotted string " +
			"split at different dots; empty names and classnames). Stored results: a file or a directory of 0-4 files (dotfile names included) at the " +
			"real target.TestResultsFile() path through parseTestResultsFile / readTestResultsDir. Every e2e target is run by two consecutive " +
			"`plz test` invocations of the unchanged repository (second = cached path or the same attempts again); totals, [cached] marker and " +
			"the <testcase> elements of --test_results_file of both are compared with each other and with the model. " +
			"Empty files: every eighth in-process scenario, three forced and some random e2e targets and an eighth of the stored entries have a results file of length zero " +
			"(alone or as one shard among passing shards, exit status mostly 0). Arguments: 12 (thorough 63) further gentest targets whose runner executes a subset of the " +
			"cases when given an argument, run by `plz test //a:all sub`, `plz test //a:all` and both again in one repository, each report compared with the model of the history. " +
			"distinct = distinct inputs; non-trivial = at least two cases or two executions, not all passing")

		// --- 1. dispatch
		fixed := []string{"", "<", "<?xml", "<?xm", "<test", "<tes", "<testsuites>", "<testcase", "<test name=", " <?xml", "\n<testsuite>",
			"\xef\xbb\xbf<?xml", "<!-- c --><testsuite>", "=== RUN   TestA", "<?XML", "<Test", "PASS", "<t", "<?xml version", "<testsuite"}
		for i := 0; i < c.Scale(60, 600); i++ {
			b := []byte{}
			if i < len(fixed) {
				b = []byte(fixed[i])
			} else {
				r := c.Rng.Fork()
				base := []byte(lib.Pick(r, fixed))
				b = append(b, base...)
				if len(b) > 0 && r.Bool() {
					b[r.Intn(len(b))] = byte(r.Intn(256))
				}
				if r.Chance(1, 3) {
					b = b[:r.Intn(len(b)+1)]
				}
			}
			got := test.VerifC26LooksLikeJUnit(b)
			c.Case(lib.App("CDispatch", lib.Str(string(b)), lib.Bool(got)), map[string]any{"dispatch": string(b), "xml": got}, "d"+string(b), len(b) > 0)
		}

		// --- 2. counters on explicit suites
		kinds := []Exec{{}, {F: true}, {E: true}, {S: true}}
		countCase := func(cs []Case, domain bool, key string) {
			s := &core.TestSuite{TestCases: toCore(cs)}
			n, ok := countsOf(s), s.TestCases.AllSucceeded()
			js := map[string]any{"suite": cs, "counts": n, "all_succeeded": ok}
			c.Case(lib.App("CCount", coqSuite(cs), coqCounts(n), lib.Bool(ok)), js, key, len(cs) > 0)
			if !domain {
				return
			}
			// oracle: the five outcome kinds partition the cases, each counter counts its kind, and the suite
			// succeeds exactly when no case is failed or errored
			c.Oracle()
			var want counts
			wantOK := true
			double := false
			for _, k := range cs {
				outs, _ := execOuts(k.Execs)
				want[0]++
				wantOK = wantOK && caseOK(outs)
				switch category(outs) {
				case "pass":
					want[1]++
					double = double || len(outs) > 1
				case "flaky":
					want[2]++
					double = double || has(outs, "skip")
				case "fail":
					want[3]++
				case "error":
					want[4]++
				case "skip":
					want[5]++
				}
			}
			if n != want || ok != wantOK {
				what := fmt.Sprintf("counters tests/passed/flakes/failed/errored/skipped=%v all_succeeded=%v, outcome kinds of the cases give %v %v", n, ok, want, wantOK)
				// predicted deviation of the known class: only flakes / skipped over-count, by the number of such cases
				var pred counts = want
				for _, k := range cs {
					outs, _ := execOuts(k.Execs)
					if category(outs) == "pass" && len(outs) > 1 {
						pred[2]++ // passed every time, still counted as a flake
					} else if category(outs) == "flaky" && has(outs, "skip") {
						pred[5]++ // passed on a retry, still counted as skipped
					}
				}
				if double && n == pred && ok == wantOK {
					c.Fail("retried-case-counted-twice", what, js)
				} else {
					c.Fail("counter-mismatch", what, js)
				}
			}
		}
		var enum func(prefix []Exec, depth int)
		enum = func(prefix []Exec, depth int) {
			if len(prefix) > 0 {
				countCase([]Case{{Class: "c", Name: "n", Execs: append([]Exec{}, prefix...)}}, true, fmt.Sprint("c1", prefix))
			}
			if depth == 0 {
				return
			}
			for _, k := range kinds {
				enum(append(prefix, k), depth-1)
			}
		}
		enum(nil, 3)
		c.Note("counters: every single case with 1-3 executions over pass/fail/error/skip enumerated (84 cases)")
		for i := 0; i < c.Scale(150, 4000); i++ {
			r := c.Rng.Fork()
			cs := []Case{}
			domain := true
			for k := r.Range(0, 5); k > 0; k-- {
				k := Case{Class: lib.Pick(r, classPool), Name: lib.Pick(r, namePool), Execs: []Exec{}}
				ne := r.Range(1, 4)
				if r.Chance(1, 12) {
					ne, domain = 0, false
				}
				for j := 0; j < ne; j++ {
					if r.Chance(1, 10) {
						k.Execs = append(k.Execs, Exec{r.Bool(), r.Bool(), r.Bool()})
					} else {
						k.Execs = append(k.Execs, lib.Pick(r, append(kinds, Exec{})))
					}
				}
				if _, ok := execOuts(k.Execs); !ok {
					domain = false
				}
				cs = append(cs, k)
			}
			countCase(cs, domain, fmt.Sprint("c", cs))
			c.HistN("count_suite_cases", len(cs))
		}

		// --- 3. Add
		for i := 0; i < c.Scale(120, 3000); i++ {
			r := c.Rng.Fork()
			names := []string{lib.Pick(r, namePool), lib.Pick(r, namePool), lib.Pick(r, namePool)}
			classes := []string{lib.Pick(r, classPool), lib.Pick(r, classPool)}
			pairs := [][2]string{}
			for _, cl := range classes {
				for _, nm := range names {
					pairs = append(pairs, [2]string{cl, nm})
				}
			}
			collide := i%3 == 2
			if collide {
				// adversarial: different pairs with the same joined form, empty names / classnames included
				pairs = collidingPairs(r)
				if r.Chance(1, 3) {
					pairs = append(pairs, [2]string{lib.Pick(r, classes), lib.Pick(r, names)})
				}
			}
			c.Hist("add_pairs", map[bool]string{false: "ordinary", true: "colliding-joined-form"}[collide])
			mk := func(n int) []Case {
				out := []Case{}
				for ; n > 0; n-- {
					p := lib.Pick(r, pairs)
					k := Case{Class: p[0], Name: p[1], Execs: []Exec{}}
					for j := r.Range(0, 2); j > 0; j-- {
						k.Execs = append(k.Execs, lib.Pick(r, kinds))
					}
					out = append(out, k)
				}
				return out
			}
			a, cs := mk(r.Range(0, 4)), mk(r.Range(0, 4))
			s := core.TestSuite{TestCases: toCore(a)}
			s.Add(toCore(cs)...)
			got := fromCore(s.TestCases)
			js := map[string]any{"suite": a, "add": cs, "result": got}
			c.Case(lib.App("CAdd", coqSuite(a), coqSuite(cs), coqSuite(got)), js, fmt.Sprint("a", a, cs), len(a) > 0 && len(cs) > 0)
			// oracle: Add keeps, for every (class, name), exactly the executions recorded under that key
			c.Oracle()
			per := func(l []Case) map[string][4]int {
				m := map[string][4]int{}
				for _, k := range l {
					v := m[k.Class+"\x00"+k.Name]
					for _, e := range k.Execs {
						switch {
						case e.F:
							v[1]++
						case e.E:
							v[2]++
						case e.S:
							v[3]++
						default:
							v[0]++
						}
					}
					m[k.Class+"\x00"+k.Name] = v
				}
				return m
			}
			w, g := per(append(append([]Case{}, a...), cs...)), per(got)
			if fmt.Sprint(w) != fmt.Sprint(g) {
				c.Fail("add-loses-executions", fmt.Sprintf("Add(%v, %v) = %v does not keep the executions per (class, name)", a, cs, got), js)
			}
		}

		// --- 4. parse: rendered documents through parseTestResultDatum
		parseCase := func(d Datum, key string) {
			s, err := test.VerifC26ParseDatum([]byte(d.Text))
			got := fromCore(s.TestCases)
			obs := "None"
			if err == nil {
				obs = lib.Some(coqSuite(got))
			}
			js := map[string]any{"datum": d, "parsed": got, "error": fmt.Sprint(err)}
			want := intended(d)
			c.Case(lib.App("CParse", coqDatum(d), obs), js, key, len(want) > 1)
			c.Hist("parse_format", d.Kind)
			if !inDomain(d) {
				return
			}
			c.Oracle()
			if err == nil && sameCases(got, want) {
				// the same cases: then the counters must give the same outcome counts
				sc := Scenario{Name: "-", Flaky: 1, Attempts: []Attempt{{Data: []Datum{d}}}}
				n, _, _ := summarise(sc, dev{})
				if cn := countsOf(&s); cn != n {
					c.Fail("counter-mismatch", fmt.Sprintf("parsed cases equal the written ones but counters are %v, outcome kinds give %v", cn, n), js)
				}
				return
			}
			what := fmt.Sprintf("%s document with %d cases parsed as %d cases (err=%v): %v", d.Kind, len(want), len(got), err, got)
			// known deviations by input shape: nested <testsuite> elements, bare <testcase> elements
			hasNested, hasBare := false, false
			pred := []ICase{}
			for _, k := range want {
				hasNested = hasNested || k.nested
				hasBare = hasBare || k.bare
				if k.nested {
					continue
				}
				if k.bare {
					k.Class, k.Name = "", ""
				}
				pred = append(pred, k)
			}
			if err == nil && (hasNested || hasBare) && sameCases(got, pred) {
				if hasNested {
					c.Fail("nested-testsuite-cases-dropped", what, js)
				}
				if hasBare {
					c.Fail("bare-testcase-name-dropped", what, js)
				}
				return
			}
			c.Fail("parse-mismatch", what, js)
		}
		for i := 0; i < c.Scale(160, 5000); i++ {
			r := c.Rng.Fork()
			shape := lib.Pick(r, []int{0, 0, 0, 0, 1, 2})
			d := genXMLDatum(r, shape, r.Chance(1, 5))
			c.HistN("xml_shape", shape)
			parseCase(d, "x"+d.Text)
		}
		for i := 0; i < c.Scale(90, 3000); i++ {
			r := c.Rng.Fork()
			parseCase(genGoDatum(r, r.Chance(1, 6)), "g"+fmt.Sprint(i))
		}
		parseCase(Datum{Kind: "bad", Text: ""}, "bad-empty")
		parseCase(Datum{Kind: "bad", Text: "<testsuites><testsuite><testcase name=\"a\"></testsuite>"}, "bad-xml")
		parseCase(Datum{Kind: "go", Text: "no test output at all\n"}, "go-empty")

		// --- 5. scenarios in process
		flakeCase := func(sc Scenario) {
			res := runInProcess(sc)
			got, n, ok := fromCore(res.TestCases), countsOf(res), res.TestCases.AllSucceeded()
			js := map[string]any{"scenario": sc.js(), "result": got, "counts": n, "passed": ok}
			nontrivial := len(got) > 1 && !(n[1] == n[0])
			c.Case(lib.App("CFlake", lib.Str(sc.Name), lib.Bool(sc.NoOutput), lib.Nat(sc.Flaky), coqAttempts(sc.Attempts), coqSuite(got), coqCounts(n), lib.Bool(ok)),
				js, fmt.Sprint("f", js), nontrivial)
			c.HistN("flakiness", sc.Flaky)
			if sc.Domain {
				judge(c, "in-process", sc, n, ok)
				judgeFailedCases(c, "in-process", sc, got)
			}
			judgeEmpty(c, "in-process", sc, n, ok)
		}
		for _, sc := range forcedScenarios(false) {
			if sc.Flaky <= 255 {
				flakeCase(sc)
				res := runInProcess(sc)
				judgeUnfinished(c, "in-process", sc, countsOf(res), res.TestCases.AllSucceeded())
			}
		}
		for i := 0; i < c.Scale(160, 6000); i++ {
			r := c.Rng.Fork()
			if i%8 == 7 {
				flakeCase(genScenarioC(r, "col"+strconv.Itoa(i), true))
				c.Hist("flake_scenario", "colliding-joined-form")
			} else if i%8 == 3 {
				flakeCase(genEmptyScenario(r, "emp"+strconv.Itoa(i)))
				c.Hist("flake_scenario", "empty-results-file")
			} else if r.Chance(1, 4) {
				flakeCase(genWildScenario(r, "wild"+strconv.Itoa(i)))
			} else {
				flakeCase(genScenario(r, "sc"+strconv.Itoa(i), false))
			}
		}

		// --- 5b. the reader of stored results, on the path the cached branch of test() reads
		storedCase := func(i int) {
			r := c.Rng.Fork()
			root, err := os.MkdirTemp(c.Out, "stored")
			if err != nil {
				panic(err)
			}
			defer os.RemoveAll(root)
			target := newTarget("st"+strconv.Itoa(i), false)
			path := filepath.Join(root, target.TestResultsFile()) // plz-out/bin/t/.test_results_<name>
			genD := func() Datum {
				switch r.Intn(8) {
				case 0:
					return genGoDatum(r, false)
				case 1:
					return Datum{Kind: "bad", Text: ""}
				case 2:
					return genXMLDatum(r, 0, false)
				default:
					sc := genScenarioC(r, "x", r.Chance(1, 3))
					return sc.Attempts[0].Data[0]
				}
			}
			type entry struct {
				Name string
				D    Datum
			}
			entries := []entry{}
			isDir := i%3 == 2
			if err := os.MkdirAll(filepath.Dir(path), 0o755); err != nil {
				panic(err)
			}
			if isDir {
				names := []string{"0.xml", "1.xml", "b.res", "a.res", ".hidden.xml", "z", "test.results", ".test_results_x", "A.xml", "10.xml"}
				lib.Shuffle(r, names)
				os.MkdirAll(path, 0o755)
				for _, nm := range names[:r.Range(0, 4)] {
					e := entry{nm, genD()}
					entries = append(entries, e)
					if err := os.WriteFile(filepath.Join(path, nm), []byte(e.D.Text), 0o644); err != nil {
						panic(err)
					}
				}
			} else {
				entries = append(entries, entry{filepath.Base(path), genD()})
				if err := os.WriteFile(path, []byte(entries[0].D.Text), 0o644); err != nil {
					panic(err)
				}
			}
			s, perr := test.VerifC26ParseResultsFile(path)
			got := fromCore(s.TestCases)
			obs := "None"
			if perr == nil {
				obs = lib.Some(coqSuite(got))
			}
			tree := ""
			if isDir {
				es := []string{}
				for _, e := range entries {
					es = append(es, lib.Pair(lib.Str(e.Name), coqDatum(e.D)))
				}
				tree = lib.App("RDir", lib.List(es))
			} else {
				tree = lib.App("RFile", coqDatum(entries[0].D))
			}
			js := map[string]any{"stored_path": target.TestResultsFile(), "is_dir": isDir, "entries": entries, "parsed": got, "error": fmt.Sprint(perr)}
			c.Case(lib.App("CStored", tree, obs), js, fmt.Sprint("st", isDir, entries), len(got) > 1)
			c.Hist("stored_shape", map[bool]string{false: "file .test_results_<name>", true: "directory"}[isDir])
			// oracle: the reader returns exactly the bytes of the files written, a directory in name order
			c.Oracle()
			sorted := append([]entry{}, entries...)
			sort.Slice(sorted, func(a, b int) bool { return sorted[a].Name < sorted[b].Name })
			data, rerr := test.VerifC26ReadResultsDir(path)
			same := rerr == nil && len(data) == len(sorted)
			for k := 0; same && k < len(sorted); k++ {
				same = string(data[k]) == sorted[k].D.Text
			}
			if !same {
				c.Fail("stored-results-not-read", fmt.Sprintf("readTestResultsDir(%s) returned %d files (err=%v), %d were written", target.TestResultsFile(), len(data), rerr, len(sorted)), js)
				return
			}
			// ... an empty file among them is never skipped: the stored results do not parse
			for _, e := range sorted {
				if e.D.Kind == "bad" && e.D.Text == "" {
					c.Oracle()
					if perr == nil {
						c.Fail("empty-results-file-ignored", fmt.Sprintf("parseTestResultsFile(%s): entry %s is empty, yet the results parse as %v", target.TestResultsFile(), e.Name, got), js)
					}
					break
				}
			}
			// ... and the cases reported from them are the cases written (flat, well-marked documents only)
			want, dom := []ICase{}, true
			for _, e := range sorted {
				dom = dom && inDomain(e.D)
				for _, k := range intended(e.D) {
					dom = dom && !k.nested && !k.bare
					want = append(want, k)
				}
			}
			if dom && (perr != nil || !sameCases(got, want)) {
				c.Fail("stored-results-misreported", fmt.Sprintf("parseTestResultsFile(%s): %d cases written, reported %v (err=%v)", target.TestResultsFile(), len(want), got, perr), js)
			}
		}
		for i := 0; i < c.Scale(60, 1500); i++ {
			storedCase(i)
		}

		// --- 6. the same through the real binary
		if plz := os.Getenv("VERIF_PLZ"); plz != "" {
			scs := forcedScenarios(c.Scale(0, 1) == 1)
			for i := 0; i < c.Scale(24, 300); i++ {
				r := c.Rng.Fork()
				if i%12 == 7 {
					scs = append(scs, genEmptyScenario(r, "m"+strconv.Itoa(i)))
				} else if i%5 == 4 {
					sc := genWildScenario(r, "w"+strconv.Itoa(i))
					sc.NoOutput = false
					scs = append(scs, sc)
				} else {
					scs = append(scs, genScenario(r, "e"+strconv.Itoa(i), true))
				}
			}
			both, err := runE2E(c, plz, scs)
			if err != nil {
				panic(err)
			}
			res, res2 := both[0], both[1]
			ncached := 0
			for _, sc := range scs {
				r, r2 := res[sc.Name], res2[sc.Name]
				js := map[string]any{"scenario": sc.js(), "counts": r.n, "passed": r.passed, "via": "plz test"}
				if !sc.NoOutput {
					c.Case(lib.App("CE2E", lib.Str(sc.Name), lib.Nat(engineFlaky(sc)), coqAttempts(sc.Attempts), coqCounts(r.n), lib.Bool(r.passed)),
						js, fmt.Sprint("e", js), r.n[0] > 1 && r.n[1] != r.n[0])
				}
				c.Hist("e2e", "targets")
				if sc.Flaky > 255 {
					// the test command must have been executed
					c.Oracle()
					if r.n[0] == 0 || (sc.Name == "f256x" && r.passed) {
						c.Fail("flaky-allowance-wraps-mod-256", fmt.Sprintf("target %s has flaky = %d and a failing first attempt, but `plz test` reported tests/passed/flakes/failed/errored/skipped=%v passing=%v: the test command was not run",
							sc.Name, sc.Flaky, r.n, r.passed), js)
					}
				}
				if sc.Domain {
					judge(c, "plz test", sc, r.n, r.passed)
				}
				judgeUnfinished(c, "plz test", sc, r.n, r.passed)
				judgeEmpty(c, "plz test", sc, r.n, r.passed)
				judgeEmpty(c, "plz test, second invocation", sc, r2.n, r2.passed)
				// the second invocation of the unchanged repository
				js2 := map[string]any{"scenario": sc.js(), "first": map[string]any{"counts": r.n, "passed": r.passed, "cases": r.xml},
					"second": map[string]any{"counts": r2.n, "passed": r2.passed, "cached": r2.cached, "cases": r2.xml}, "via": "plz test, twice"}
				c.Case(lib.App("CTwice", lib.Str(sc.Name), lib.Bool(sc.NoOutput), lib.Nat(engineFlaky(sc)), coqAttempts(sc.Attempts),
					coqCounts(r.n), lib.Bool(r.passed), coqCounts(r2.n), lib.Bool(r2.passed), lib.Bool(r2.cached)),
					js2, fmt.Sprint("t", js2), r2.cached && r2.n[0] > 1)
				c.Hist("e2e_second", map[bool]string{false: "run again", true: "cached"}[r2.cached])
				if r2.cached {
					ncached++
				}
				c.Oracle()
				if r.cached {
					c.Fail("first-run-cached", fmt.Sprintf("target %s was reported [cached] by the first invocation in a fresh repository", sc.Name), js2)
				}
				// what is written to --test_results_file agrees with the summary line of the same invocation
				for k, x := range []*e2eResult{r, r2} {
					c.Oracle()
					if len(x.xml) != x.n[0] {
						c.Fail("result-xml-disagrees-with-summary", fmt.Sprintf("invocation %d, target %s: summary line says %d tests, the results file has %d <testcase> elements (found=%v)",
							k+1, sc.Name, x.n[0], len(x.xml), x.xmlOK), js2)
					}
				}
				if sc.Domain {
					judgeSecond(c, sc, r2.n, r2.passed, r2.cached, js2)
					// one attempt, distinct pairs: the very same cases, by name, in both result files
					pairs := map[[2]string]bool{}
					dup := false
					for _, k := range attemptCases(sc.Attempts[0]) {
						dup = dup || pairs[[2]string{k.Class, k.Name}]
						pairs[[2]string{k.Class, k.Name}] = true
					}
					if r2.cached && executedCount(sc) == 1 && !dup {
						c.Oracle()
						if fmt.Sprint(r.xml) != fmt.Sprint(r2.xml) {
							c.Fail("cached-report-changes-cases", fmt.Sprintf("target %s: first invocation wrote the cases %v, the second (cached) %v", sc.Name, r.xml, r2.xml), js2)
						}
					}
				}
			}
			// --- 7. invocations with and without test arguments
			pairs := forcedArgPairs()
			for i := 0; i < c.Scale(9, 60); i++ {
				pairs = append(pairs, genArgPair(c.Rng.Fork(), "p"+strconv.Itoa(i)))
			}
			hist, err := runArgsE2E(c, plz, pairs)
			if err != nil {
				panic(err)
			}
			nargCached := 0
			for _, p := range pairs {
				invs, obs, jobs := []string{}, []string{}, []any{}
				for k, withArgs := range argHistory {
					r := hist[k][p.Full.Name]
					sc := p.Full
					if withArgs {
						sc = p.Sub
					}
					invs = append(invs, lib.App("mkInv", lib.Bool(withArgs), coqAttempts(sc.Attempts)))
					obs = append(obs, lib.Pair(lib.Pair(coqCounts(r.n), lib.Bool(r.passed)), lib.Bool(r.cached)))
					jobs = append(jobs, map[string]any{"with_arguments": withArgs, "counts": r.n, "passed": r.passed, "cached": r.cached})
				}
				js := map[string]any{"complete": p.Full.js(), "with_argument": p.Sub.js(), "invocations": jobs, "via": "plz test //a:all [sub], four invocations"}
				c.Case(lib.App("CHist", lib.Str(p.Full.Name), "false", lib.Nat(engineFlaky(p.Full)), lib.List(invs), lib.List(obs)),
					js, fmt.Sprint("h", js), true)
				c.Hist("e2e", "argument targets")
				wantSub, wantSubPass, _ := summarise(p.Sub, dev{})
				wantFull, wantFullPass, _ := summarise(p.Full, dev{})
				for k, withArgs := range argHistory {
					r := hist[k][p.Full.Name]
					where := fmt.Sprintf("invocation %d of %v (true = with an argument)", k+1, argHistory)
					if withArgs {
						// a run restricted by arguments reports the selected cases, and is never answered from stored results
						c.Oracle()
						if r.cached {
							c.Fail("argument-run-served-from-stored-results", fmt.Sprintf("%s: target %s was reported [cached] although arguments were given", where, p.Full.Name), js)
						}
						judge(c, where, p.Sub, r.n, r.passed)
						continue
					}
					// without arguments: the complete test, whatever was run with arguments before
					c.Oracle()
					if r.cached {
						nargCached++
					}
					if r.n == wantFull && r.passed == wantFullPass {
						continue
					}
					if r.n == wantSub && r.passed == wantSubPass {
						c.Fail("argument-run-results-reported-for-complete-test", fmt.Sprintf("%s: target %s run WITHOUT arguments reported tests/passed/flakes/failed/errored/skipped=%v passing=%v cached=%v: that is the outcome set of the earlier run restricted by an argument; the complete test writes %v passing=%v",
							where, p.Full.Name, r.n, r.passed, r.cached, wantFull, wantFullPass), js)
						continue
					}
					judgeSecond(c, p.Full, r.n, r.passed, r.cached, js)
				}
			}
			c.Note("args: %d gentest targets (3 forced) run by `plz test //a:all sub`, `plz test //a:all`, and both again; %d reports without arguments came from stored results",
				len(pairs), nargCached)
			c.Note("e2e: %d gentest targets (11 forced: colliding pairs, retry, no results file, go output, results directory, flaky = 256, unfinished go case, empty results file / empty shard) run by `plz test //t:all --detailed` TWICE in one repository; %d were reported [cached] by the second invocation",
				len(scs), ncached)
		} else {
			c.Note("e2e: VERIF_PLZ not set, skipped")
		}
	})
}
