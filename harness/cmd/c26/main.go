package main

import (
	"fmt"
	"os"

	"github.com/thought-machine/please/src/core"
	"github.com/thought-machine/please/src/test"
)

func show(s core.TestSuite, err error) {
	fmt.Printf("  err=%v tests=%d P=%d F=%d E=%d S=%d Fl=%d all=%v\n", err, s.Tests(), s.Passes(), s.Failures(), s.Errors(), s.Skips(), s.FlakyPasses(), s.TestCases.AllSucceeded())
	for _, c := range s.TestCases {
		fmt.Printf("    %q %q:", c.ClassName, c.Name)
		for _, e := range c.Executions {
			fmt.Printf(" [f=%v e=%v s=%v]", e.Failure != nil, e.Error != nil, e.Skip != nil)
		}
		fmt.Println()
	}
}

func main() {
	for _, f := range os.Args[1:] {
		b, _ := os.ReadFile(f)
		fmt.Println(f)
		show(test.VerifC26ParseResults([][]byte{b}))
	}
}
