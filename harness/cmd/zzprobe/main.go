// temporary probe (removed after use): many histories of the shape `tool` through the real plz, oracle incremental = clean,
// and a Coq file replaying each history in Model/Engine.v
package main

import (
	"fmt"
	"os"
	"strconv"
	"strings"

	"verifharness/e2e"
	"verifharness/lib"
)

func main() {
	n, _ := strconv.Atoi(os.Args[1])
	seed, _ := strconv.Atoi(os.Args[2])
	out := os.Args[3]
	base, _ := os.MkdirTemp("", "zzprobe")
	defer os.RemoveAll(base)
	r := lib.NewRng(uint64(seed))
	var terms []string
	edits := map[string]int{}
	bad := 0
	for i := 0; i < n; i++ {
		dir := fmt.Sprintf("%s/h%d", base, i)
		os.MkdirAll(dir, 0o755)
		h := e2e.EngRunShape(r.Fork(), dir, "tool", 6)
		os.RemoveAll(dir)
		skip := false
		for k := range h {
			st := &h[k]
			edits[st.Edit.Kind]++
			if st.TimedOut || st.Exit == -9 || st.CleanExit == -9 {
				skip = true
				break
			}
			if (st.Exit == 0) != (st.CleanExit == 0) {
				fmt.Println("EXIT DIFFERS", i, k, st.Edit, st.Stderr)
				bad++
			}
			if st.Exit != 0 {
				continue
			}
			for l := range st.Outputs {
				if ok, why := e2e.OutputsEqual(st.Outputs[l], st.Clean[l]); !ok {
					fmt.Println("STALE", i, k, l, st.Edit, why, "known-class:", e2e.ToolRenameStale(h, k, l))
					bad++
				}
			}
			if k > 0 && h[k-1].Exit == 0 {
				for _, l := range st.Executed {
					if why := e2e.EngAllowed(&h[k-1], st, l); why == "" {
						fmt.Println("UNNEEDED RERUN", i, k, l, st.Edit)
						bad++
					}
				}
			}
		}
		if skip {
			edits["timed-out"]++
			continue
		}
		ops := []string{}
		for _, t := range h[0].Spec.Pkgs["p"].Targets {
			ops = append(ops, t.Name+":"+t.Cmd.Op)
		}
		edits["users "+strings.Join(ops, ",")]++
		terms = append(terms, e2e.EngCaseTerm(h))
	}
	f, _ := os.Create(out)
	fmt.Fprintln(f, "From PlzV Require Import Base.Harness Model.Engine.")
	fmt.Fprintln(f, "Definition cs : list Engine.case := [")
	fmt.Fprintln(f, strings.Join(terms, ";\n"))
	fmt.Fprintln(f, "].")
	fmt.Fprintln(f, "Eval vm_compute in (length cs, map Engine.check cs).")
	f.Close()
	for k, v := range edits {
		fmt.Println(v, k)
	}
	fmt.Println("histories", len(terms), "oracle failures", bad)
}
