// C12: directory cache - faithful, atomic store and retrieve.
// Implementation side of the correspondence + property oracle.
//
// The real dirCache is obtained through the exported cache.NewCache (a configuration with only a
// directory cache returns the *dirCache itself), so no source hook is needed.
//
//   - round trips run in this process: materialise an output tree, Store, wipe the output
//     directory, Retrieve, compare trees (names, contents, exec bits, symlink targets);
//   - crash points: the store runs in a helper process (this binary re-executed with `c12-child`)
//     on one locked OS thread under `strace -e inject=<mutating syscalls>:signal=SIGKILL:when=N`;
//     the parent then lists the cache directory and retrieves;
//   - races: a helper process stores the same key again and again from one repository while this
//     process retrieves it into another repository;
//   - dirty retrieves: nested outputs ("sub/n") and a Retrieve into an out directory that still holds
//     another version of the outputs (runDirty).
package main

import (
	"archive/tar"
	"bytes"
	"compress/gzip"
	"encoding/base64"
	"encoding/hex"
	"encoding/json"
	"fmt"
	"io"
	"os"
	"os/exec"
	"path/filepath"
	"runtime"
	"sort"
	"strconv"
	"strings"
	"sync"
	"syscall"
	"time"
	"unicode/utf8"

	"verifharness/lib"

	gologging "gopkg.in/op/go-logging.v1"

	"github.com/thought-machine/please/src/cache"
	"github.com/thought-machine/please/src/core"
)

func init() {
	// strace's when=N counter is per thread: keep main (and so the store) on the initial thread.
	if len(os.Args) > 1 && os.Args[1] == "c12-child" {
		runtime.LockOSThread()
	}
}

// ---------------------------------------------------------------------------------------------
// trees

// BStr is a byte string that survives JSON: text stays text, anything else is written as hex.
type BStr string

func (b BStr) MarshalJSON() ([]byte, error) {
	if utf8.ValidString(string(b)) {
		return json.Marshal(string(b))
	}
	return json.Marshal(map[string]string{"hex": hex.EncodeToString([]byte(b))})
}

func (b *BStr) UnmarshalJSON(d []byte) error {
	var s string
	if err := json.Unmarshal(d, &s); err == nil {
		*b = BStr(s)
		return nil
	}
	var m map[string]string
	if err := json.Unmarshal(d, &m); err != nil {
		return err
	}
	x, err := hex.DecodeString(m["hex"])
	*b = BStr(x)
	return err
}

type Node struct {
	Name    string `json:"name"`
	Kind    string `json:"kind"` // f file, l symlink, d directory
	Content BStr   `json:"content,omitempty"`
	Exec    bool   `json:"exec,omitempty"`
	Target  string `json:"target,omitempty"`
	Kids    []Node `json:"kids,omitempty"`
}

// Ent is one entry of a flat listing in walk order (directory first, children sorted by name).
type Ent struct {
	Path    []string `json:"path"`
	Kind    string   `json:"kind"` // f l d, and for the cache listing: t (readable tarball), j (unreadable file)
	Content BStr     `json:"content,omitempty"`
	Exec    bool     `json:"exec,omitempty"`
	Target  string   `json:"target,omitempty"`
	Tar     []Ent    `json:"tar,omitempty"`
}

func countNodes(ns []Node) int {
	n := 0
	for _, x := range ns {
		n += 1 + countNodes(x.Kids)
	}
	return n
}

func materialise(dir string, ns []Node) {
	must(os.MkdirAll(dir, 0o775))
	for _, n := range ns {
		p := filepath.Join(dir, n.Name)
		switch n.Kind {
		case "f":
			mode := os.FileMode(0o644)
			if n.Exec {
				mode = 0o755
			}
			must(os.MkdirAll(filepath.Dir(p), 0o775))
			must(os.WriteFile(p, []byte(n.Content), mode))
			must(os.Chmod(p, mode))
		case "l":
			must(os.MkdirAll(filepath.Dir(p), 0o775))
			must(os.Symlink(n.Target, p))
		case "d":
			must(os.MkdirAll(p, 0o775))
			materialise(p, n.Kids)
		case "s": // a unix socket: something neither archive/tar nor a file copy can store
			must(os.MkdirAll(filepath.Dir(p), 0o775))
			must(syscall.Mknod(p, syscall.S_IFSOCK|0o644, 0))
		case "m": // a declared output that does not exist
		}
	}
}

// listTree lists everything below dir in walk order. A path that does not exist lists as nil.
func listTree(dir string, prefix []string, out *[]Ent) {
	des, err := os.ReadDir(dir) // sorted by name, as godirwalk does
	if err != nil {
		return
	}
	for _, de := range des {
		p := filepath.Join(dir, de.Name())
		path := append(append([]string{}, prefix...), de.Name())
		info, err := os.Lstat(p)
		if err != nil {
			continue
		}
		switch {
		case info.Mode()&os.ModeSymlink != 0:
			t, _ := os.Readlink(p)
			*out = append(*out, Ent{Path: path, Kind: "l", Target: t})
		case info.IsDir():
			*out = append(*out, Ent{Path: path, Kind: "d"})
			listTree(p, path, out)
		default:
			b, _ := os.ReadFile(p)
			*out = append(*out, Ent{Path: path, Kind: "f", Content: BStr(b), Exec: info.Mode()&0o100 != 0})
		}
	}
}

func flat(ns []Node, prefix []string, out *[]Ent) {
	sorted := append([]Node{}, ns...)
	sort.Slice(sorted, func(i, j int) bool { return sorted[i].Name < sorted[j].Name })
	for _, n := range sorted {
		path := append(append([]string{}, prefix...), strings.Split(n.Name, "/")...)
		switch n.Kind {
		case "f":
			*out = append(*out, Ent{Path: path, Kind: "f", Content: n.Content, Exec: n.Exec})
		case "l":
			*out = append(*out, Ent{Path: path, Kind: "l", Target: n.Target})
		case "d":
			*out = append(*out, Ent{Path: path, Kind: "d"})
			flat(n.Kids, path, out)
		}
	}
}

func entKey(e Ent) string {
	return strings.Join(e.Path, "/") + "\x00" + e.Kind + "\x00" + string(e.Content) + "\x00" + strconv.FormatBool(e.Exec) + "\x00" + e.Target
}

// sameTree compares two listings as sets of entries.
func sameTree(a, b []Ent) bool {
	if len(a) != len(b) {
		return false
	}
	m := map[string]int{}
	for _, e := range a {
		m[entKey(e)]++
	}
	for _, e := range b {
		if m[entKey(e)] == 0 {
			return false
		}
		m[entKey(e)]--
	}
	return true
}

// ---------------------------------------------------------------------------------------------
// the cache under test

var pkgName, targetName = "pkg", "tgt"

func newTarget() *core.BuildTarget {
	return core.NewBuildTarget(core.NewBuildLabel(pkgName, targetName))
}

func newCache(dir string, compress bool) core.Cache {
	config := core.DefaultConfiguration()
	config.Cache.Dir = dir
	config.Cache.DirClean = false
	config.Cache.DirCompress = compress
	config.Cache.Workers = 0
	config.Cache.HTTPURL = ""
	config.Cache.RetrieveCommand = ""
	config.Cache.StoreCommand = ""
	return cache.NewCache(&core.BuildState{Config: config})
}

// enter makes `repo` the repository the cache code works in (core.RepoRoot and, for the
// compressed store which uses relative paths, the working directory).
func enter(repo string) {
	must(os.MkdirAll(repo, 0o775))
	must(os.Chdir(repo))
	core.RepoRoot = repo
}

func outDir(repo string) string { return filepath.Join(repo, newTarget().OutDir()) }

func entryNames(key []byte, compress bool) (final, tmp string) {
	b := base64.URLEncoding.EncodeToString(key)
	if compress {
		return b + ".tar.gz", b + "=.tar.gz"
	}
	return b, b + "="
}

func targetCacheDir(cacheDir string) string { return filepath.Join(cacheDir, pkgName, targetName) }

// readTarball decodes a cache tarball into entries; ok=false when it is not a complete archive.
func readTarball(p string) ([]Ent, bool) {
	f, err := os.Open(p)
	if err != nil {
		return nil, false
	}
	defer f.Close()
	gr, err := gzip.NewReader(f)
	if err != nil {
		return nil, false
	}
	tr := tar.NewReader(gr)
	var out []Ent
	for {
		hdr, err := tr.Next()
		if err == io.EOF {
			break
		} else if err != nil {
			return nil, false
		}
		path := strings.Split(strings.TrimSuffix(hdr.Name, "/"), "/")
		switch hdr.Typeflag {
		case tar.TypeDir:
			out = append(out, Ent{Path: path, Kind: "d"})
		case tar.TypeSymlink:
			out = append(out, Ent{Path: path, Kind: "l", Target: hdr.Linkname})
		default:
			var b bytes.Buffer
			if _, err := io.Copy(&b, tr); err != nil {
				return nil, false
			}
			out = append(out, Ent{Path: path, Kind: "f", Content: BStr(b.String()), Exec: hdr.Mode&0o100 != 0})
		}
	}
	// the gzip trailer must be intact too
	if _, err := io.Copy(io.Discard, gr); err != nil {
		return nil, false
	}
	return out, true
}

// listCache lists the target's cache directory with the entry of `key` renamed to K and its
// temporary twin to K= ; in a compressed cache regular files are decoded as tarballs.
func listCache(cacheDir string, key []byte, compress bool) []Ent {
	final, tmp := entryNames(key, compress)
	var raw []Ent
	listTree(targetCacheDir(cacheDir), nil, &raw)
	out := []Ent{}
	for _, e := range raw {
		real0 := e.Path[0]
		switch e.Path[0] {
		case final:
			e.Path[0] = "K"
		case tmp:
			e.Path[0] = "K="
		default:
			e.Path[0] = "other-" + e.Path[0]
		}
		if compress && e.Kind == "f" && len(e.Path) == 1 {
			if ents, ok := readTarball(filepath.Join(targetCacheDir(cacheDir), real0)); ok {
				e = Ent{Path: e.Path, Kind: "t", Tar: ents}
			} else {
				e = Ent{Path: e.Path, Kind: "j"}
			}
		}
		out = append(out, e)
	}
	return out
}

// removalOrder replays os.RemoveAll's recursion (unsorted Readdirnames, children before the
// directory) on the target's cache directory: the order in which entries WOULD be unlinked.
func removalOrder(cacheDir string, key []byte, compress bool) [][]string {
	final, tmp := entryNames(key, compress)
	var out [][]string
	var rec func(dir string, prefix []string)
	rec = func(dir string, prefix []string) {
		f, err := os.Open(dir)
		if err != nil {
			return
		}
		names, _ := f.Readdirnames(-1)
		f.Close()
		for _, n := range names {
			p := filepath.Join(dir, n)
			name := n
			if len(prefix) == 0 {
				switch n {
				case final:
					name = "K"
				case tmp:
					name = "K="
				default:
					name = "other-" + n
				}
			}
			path := append(append([]string{}, prefix...), name)
			if info, err := os.Lstat(p); err == nil && info.IsDir() {
				rec(p, path)
			}
			out = append(out, path)
		}
	}
	rec(targetCacheDir(cacheDir), nil)
	return out
}

// ---------------------------------------------------------------------------------------------
// the helper process

type ChildSpec struct {
	Root     string   `json:"root"` // holds repo/ and cache/
	Compress bool     `json:"compress"`
	Key      []byte   `json:"key"`
	Old      []Node   `json:"old,omitempty"`      // tree of an earlier, completed store of the same key
	OldOuts  []string `json:"old_outs,omitempty"` //   (nil: the key is absent)
	Tmp      []Node   `json:"tmp,omitempty"`      // tree left in the temporary entry by an earlier crashed store
	TmpOuts  []string `json:"tmp_outs,omitempty"`
	New      []Node   `json:"new"`
	Outs     []string `json:"outs"`
	Loops    int      `json:"loops,omitempty"` // >0: race mode, store `Loops` times
}

type Prior struct {
	State []Ent      `json:"state"`
	Order [][]string `json:"order"`
}

const marker = "/c12-marker-does-not-exist/x"

func childMain(specPath string) {
	gologging.SetLevel(gologging.CRITICAL, "plz")
	var sp ChildSpec
	data, err := os.ReadFile(specPath)
	must(err)
	must(json.Unmarshal(data, &sp))
	repo, cdir := filepath.Join(sp.Root, "repo"), filepath.Join(sp.Root, "cache")
	enter(repo)
	tgt := newTarget()
	c := newCache(cdir, sp.Compress)
	final, tmp := entryNames(sp.Key, sp.Compress)
	tdir := targetCacheDir(cdir)
	if sp.Loops > 0 {
		materialise(outDir(repo), sp.New)
		must(os.WriteFile(filepath.Join(sp.Root, "started"), nil, 0o644))
		for i := 0; i < sp.Loops; i++ {
			c.Store(tgt, sp.Key, sp.Outs)
			time.Sleep(time.Duration(i%4) * 300 * time.Microsecond) // let the entry exist for a moment
			if _, err := os.Stat(filepath.Join(sp.Root, "stop")); err == nil {
				break
			}
		}
		return
	}
	if sp.TmpOuts != nil {
		// a left-over temporary entry: exactly the state a store killed just before its final
		// rename leaves behind
		materialise(outDir(repo), sp.Tmp)
		c.Store(tgt, sp.Key, sp.TmpOuts)
		must(os.Rename(filepath.Join(tdir, final), filepath.Join(tdir, tmp)))
		must(os.RemoveAll(outDir(repo)))
	}
	if sp.OldOuts != nil {
		if sp.TmpOuts != nil {
			must(os.Rename(filepath.Join(tdir, tmp), filepath.Join(tdir, "aside")))
		}
		materialise(outDir(repo), sp.Old)
		c.Store(tgt, sp.Key, sp.OldOuts)
		must(os.RemoveAll(outDir(repo)))
		if sp.TmpOuts != nil {
			must(os.Rename(filepath.Join(tdir, "aside"), filepath.Join(tdir, tmp)))
		}
	}
	materialise(outDir(repo), sp.New)
	pr := Prior{State: listCache(cdir, sp.Key, sp.Compress), Order: removalOrder(cdir, sp.Key, sp.Compress)}
	pd, _ := json.Marshal(pr)
	must(os.WriteFile(filepath.Join(sp.Root, "prior.json"), pd, 0o644))
	c = newCache(cdir, sp.Compress)
	os.Mkdir(marker, 0o755) // fails; marks the start of the store in the syscall log
	c.Store(tgt, sp.Key, sp.Outs)
	os.Mkdir(marker, 0o755)
	must(os.WriteFile(filepath.Join(sp.Root, "done"), nil, 0o644))
}

// syscalls that change the file system (and, for a compressed cache, create and fill the tarball)
func injectList(compress bool) string {
	l := "mkdir,mkdirat,unlink,unlinkat,rmdir,rename,renameat,renameat2,link,linkat,symlink,symlinkat"
	if compress {
		l += ",openat,write"
	}
	return l
}

var self string

// runChild runs the helper; when=0: plain (no strace); when<0: under strace, log only; when>0:
// kill at the when-th traced syscall of a thread. Returns whether the helper finished its store.
func runChild(sp ChildSpec, when int, logPath string, at ...callPoint) (finished bool, killed bool, output string) {
	os.Remove(filepath.Join(sp.Root, "done"))
	specPath := filepath.Join(sp.Root, "spec.json")
	d, _ := json.Marshal(sp)
	must(os.WriteFile(specPath, d, 0o644))
	var cmd *exec.Cmd
	if when == 0 {
		cmd = exec.Command(self, "c12-child", specPath)
	} else {
		l := injectList(sp.Compress)
		args := []string{"-f", "-o", logPath, "-e", "trace=" + l}
		if when > 0 {
			args = append(args, "-e", fmt.Sprintf("inject=%s:signal=SIGKILL:when=%d", at[0].Name, at[0].Ordinal))
		}
		args = append(args, self, "c12-child", specPath)
		cmd = exec.Command("strace", args...)
	}
	cmd.Env = append(os.Environ(), "GOMAXPROCS=1", "GOGC=off")
	cmd.Dir = sp.Root
	out, err := cmd.CombinedOutput()
	_, derr := os.Stat(filepath.Join(sp.Root, "done"))
	killed = false
	if ee, ok := err.(*exec.ExitError); ok {
		if ws, ok := ee.Sys().(syscall.WaitStatus); ok && (ws.Signaled() || ws.ExitStatus() == 137) {
			killed = true
		}
	}
	return derr == nil, killed, string(out)
}

// markerRange parses a strace log: the traced syscalls of the first (main) thread are numbered
// from 1; returns the indices of the first store syscall and of the last one (the calls between
// the two markers).
// strace keeps one when= counter per thread AND per syscall number, so a crash point is addressed
// as (syscall name, ordinal of that syscall on the thread).
type callPoint struct {
	Name    string
	Ordinal int
	Text    string
}

func markerRange(logPath string) (first, last int, names []callPoint, err error) {
	perName := map[string]int{}
	data, e := os.ReadFile(logPath)
	if e != nil {
		return 0, 0, nil, e
	}
	lines := strings.Split(string(data), "\n")
	mainPid := ""
	for _, ln := range lines { // the thread that issues the marker call is the one running the store
		if strings.Contains(ln, marker) {
			mainPid = strings.Fields(ln)[0]
			break
		}
	}
	n := 0
	seen := 0
	for _, ln := range lines {
		f := strings.Fields(ln)
		if len(f) < 2 {
			continue
		}
		if f[0] != mainPid {
			continue
		}
		rest := strings.TrimSpace(strings.TrimPrefix(ln, f[0]))
		if strings.HasPrefix(rest, "<...") || strings.HasPrefix(rest, "+++") || strings.HasPrefix(rest, "---") {
			continue
		}
		n++
		scName := rest
		if i := strings.Index(rest, "("); i > 0 {
			scName = rest[:i]
		}
		perName[scName]++
		if strings.Contains(rest, marker) {
			seen++
			if seen == 1 {
				first = n + 1
			} else if seen == 2 {
				last = n - 1
				names = append(names, callPoint{scName, perName[scName], "(store complete)"})
			}
			continue
		}
		if seen == 1 {
			names = append(names, callPoint{scName, perName[scName], rest})
		}
	}
	if seen != 2 {
		return 0, 0, nil, fmt.Errorf("markers not found in strace log (%d)", seen)
	}
	return first, last, names, nil
}

// ---------------------------------------------------------------------------------------------
// Coq printing

func coqPath(p []string) string { return lib.StrList(p) }

func coqEnt(e Ent) string {
	switch e.Kind {
	case "f":
		return lib.App("F", lib.Str(string(e.Content)), lib.Bool(e.Exec))
	case "l":
		return lib.App("L", lib.Str(e.Target))
	default:
		return "D"
	}
}

func coqTree(es []Ent) string {
	items := make([]string, len(es))
	for i, e := range es {
		items[i] = lib.Pair(coqPath(e.Path), coqEnt(e))
	}
	return lib.List(items)
}

func coqFs(es []Ent) string {
	items := make([]string, len(es))
	for i, e := range es {
		var n string
		switch e.Kind {
		case "t":
			n = lib.App("Tar", coqTree(e.Tar))
		case "j":
			n = "Junk"
		default:
			n = lib.App("E", coqEnt(e))
		}
		items[i] = lib.Pair(coqPath(e.Path), n)
	}
	return lib.List(items)
}

func coqPaths(ps [][]string) string {
	items := make([]string, len(ps))
	for i, p := range ps {
		items[i] = coqPath(p)
	}
	return lib.List(items)
}

func coqResult(hit bool, tree []Ent) string {
	if !hit {
		return "Miss"
	}
	return lib.App("Hit", coqTree(tree))
}

// ---------------------------------------------------------------------------------------------
// generators

// shapes enumerates every forest with exactly n nodes over the kinds file, executable file,
// symlink, directory. Names are assigned so that sort order and creation order differ.
func shapes(n int) [][]Node {
	type proto struct {
		kind string
		kids []proto
	}
	var forests func(n int) [][]proto
	memo := map[int][][]proto{}
	forests = func(n int) [][]proto {
		if n == 0 {
			return [][]proto{nil}
		}
		if m, ok := memo[n]; ok {
			return m
		}
		var out [][]proto
		for _, k := range []string{"f", "x", "l", "d"} {
			maxKids := 0
			if k == "d" {
				maxKids = n - 1
			}
			for m := 0; m <= maxKids; m++ {
				for _, kids := range forests(m) {
					for _, rest := range forests(n - 1 - m) {
						p := proto{kind: k, kids: kids}
						out = append(out, append([]proto{p}, rest...))
					}
				}
			}
		}
		memo[n] = out
		return out
	}
	var res [][]Node
	for _, f := range forests(n) {
		idx := 0
		var conv func(ps []proto) []Node
		conv = func(ps []proto) []Node {
			var ns []Node
			for i, p := range ps {
				name := string(rune('c'-i)) + strconv.Itoa(idx) // c0, b1, a2: reverse alphabetical among siblings
				idx++
				nd := Node{Name: name}
				switch p.kind {
				case "f":
					nd.Kind, nd.Content = "f", BStr("data-"+name)
				case "x":
					nd.Kind, nd.Content, nd.Exec = "f", BStr("#!"+name), true
				case "l":
					nd.Kind = "l"
					// targets are kept exactly as written: none of these is in normal form
					if i > 0 {
						nd.Target = "./" + ns[i-1].Name
					} else {
						nd.Target = "../dangling/./x//y"
					}
				case "d":
					nd.Kind = "d"
					nd.Kids = conv(p.kids)
				}
				ns = append(ns, nd)
			}
			return ns
		}
		res = append(res, conv(f))
	}
	return res
}

var nameParts = []string{"a", "b", "lib", "x.go", "out", "Z", "a=", "K", "K=", "0", "data.bin", "a b", "é"}

func randName(r *lib.Rng, used map[string]bool) string {
	for {
		n := lib.Pick(r, nameParts)
		if r.Chance(1, 3) {
			n += strconv.Itoa(r.Intn(4))
		}
		if !used[n] {
			used[n] = true
			return n
		}
	}
}

func randContent(r *lib.Rng, big bool) BStr {
	n := r.Intn(24)
	if big && r.Chance(1, 3) {
		n = 3000 + r.Intn(9000) // crosses the 4096-byte bufio buffer of the compressed store
	}
	if r.Chance(1, 8) {
		n = 0
	}
	b := make([]byte, n)
	for i := range b {
		if r.Chance(1, 4) {
			b[i] = byte(r.Intn(256))
		} else {
			b[i] = byte('a' + r.Intn(26))
		}
	}
	return BStr(b)
}

func randForest(r *lib.Rng, budget *int, depth int, big bool) []Node {
	used := map[string]bool{}
	var ns []Node
	n := 1 + r.Intn(4)
	for i := 0; i < n && *budget > 0; i++ {
		*budget--
		nd := Node{Name: randName(r, used)}
		switch k := r.Intn(10); {
		case k < 4:
			nd.Kind, nd.Content, nd.Exec = "f", randContent(r, big), r.Chance(1, 3)
		case k < 6:
			nd.Kind = "l"
			nd.Target = lib.Pick(r, []string{"a", "../b", "./x/y", "nowhere", ".."})
			if len(ns) > 0 && r.Bool() {
				nd.Target = ns[r.Intn(len(ns))].Name
			}
		default:
			nd.Kind = "d"
			if depth < 3 {
				nd.Kids = randForest(r, budget, depth+1, big)
			}
		}
		ns = append(ns, nd)
	}
	return ns
}

func rootNames(ns []Node) []string {
	out := make([]string, len(ns))
	for i, n := range ns {
		out[i] = n.Name
	}
	return out
}

// ---------------------------------------------------------------------------------------------
// cases

type RoundTrip struct {
	Kind     string   `json:"kind"` // roundtrip
	Compress bool     `json:"compress"`
	Tree     []Node   `json:"tree"`
	Outs     []string `json:"outs"`
	Old      []Node   `json:"old,omitempty"`
	OldOuts  []string `json:"old_outs,omitempty"`
	Stored   bool     `json:"stored"` // false: the key was never stored
	Hit      bool     `json:"hit"`
	Restored []Ent    `json:"restored,omitempty"`
}

type CrashCase struct {
	Kind     string    `json:"kind"` // crash
	Spec     ChildSpec `json:"spec"`
	When     int       `json:"when"`    // index of the killed syscall, counted from the first syscall of the store
	Syscall  string    `json:"syscall"` // the call that was about to run
	Prior    []Ent     `json:"prior"`
	Post     []Ent     `json:"post"`
	Hit      bool      `json:"hit"`
	Restored []Ent     `json:"restored,omitempty"`
	Class    string    `json:"class"`
}

var scratch string
var gmu sync.Mutex // guards chdir / core.RepoRoot in this process
var keyCounter uint64

func freshKey(r *lib.Rng) []byte {
	k := make([]byte, 20)
	for i := range k {
		k[i] = byte(r.Intn(256))
	}
	return k
}

// retrieveInto wipes the repository's output directory, retrieves and lists what arrived.
func retrieveInto(repo, cdir string, compress bool, key []byte, outs []string) (bool, []Ent) {
	gmu.Lock()
	defer gmu.Unlock()
	must(os.RemoveAll(filepath.Join(repo, "plz-out")))
	enter(repo)
	must(os.MkdirAll(outDir(repo), 0o775))
	hit := newCache(cdir, compress).Retrieve(newTarget(), key, outs)
	got := []Ent{}
	listTree(outDir(repo), nil, &got)
	return hit, got
}

func storeHere(repo, cdir string, compress bool, key []byte, tree []Node, outs []string) {
	gmu.Lock()
	defer gmu.Unlock()
	must(os.RemoveAll(filepath.Join(repo, "plz-out")))
	enter(repo)
	materialise(outDir(repo), tree)
	newCache(cdir, compress).Store(newTarget(), key, outs)
}

func expectedTree(tree []Node) []Ent {
	out := []Ent{}
	flat(tree, nil, &out)
	return out
}

// modelable: the Coq model covers outs that are single path components.
func modelable(outs []string) bool {
	for _, o := range outs {
		if strings.Contains(o, "/") {
			return false
		}
	}
	return true
}

func smallEnough(es []Ent) bool {
	for _, e := range es {
		if len(e.Content) > 64 {
			return false
		}
		for _, t := range e.Tar {
			if len(t.Content) > 64 {
				return false
			}
		}
	}
	return len(es) <= 40
}

func runRoundTrip(c *lib.Ctx, r *lib.Rng, compress bool, tree []Node, outs []string, old []Node, oldOuts []string, src string) {
	root := filepath.Join(scratch, "rt")
	repo, cdir := filepath.Join(root, "repo"), filepath.Join(root, "cache")
	key := freshKey(r)
	rt := RoundTrip{Kind: "roundtrip", Compress: compress, Tree: tree, Outs: outs, Old: old, OldOuts: oldOuts, Stored: true}
	var prior []Ent
	var order [][]string
	if oldOuts != nil {
		storeHere(repo, cdir, compress, key, old, oldOuts)
	}
	prior = listCache(cdir, key, compress)
	order = removalOrder(cdir, key, compress)
	storeHere(repo, cdir, compress, key, tree, outs)
	post := listCache(cdir, key, compress)
	rt.Hit, rt.Restored = retrieveInto(repo, cdir, compress, key, outs)
	want := expectedTree(tree)
	// oracle 1: retrieving a stored key restores byte-identical trees
	c.Oracle()
	if len(outs) > 0 {
		if !rt.Hit {
			c.Fail("roundtrip-miss", "Retrieve after a completed Store of the same key returned false", rt)
		} else if !sameTree(rt.Restored, want) {
			c.Fail("roundtrip-tree-differs", "the restored tree differs from the stored one", rt)
		}
	}
	// oracle 2: a key that was never stored is a miss
	other := freshKey(r)
	c.Oracle()
	hit2, _ := retrieveInto(repo, cdir, compress, other, outs)
	if hit2 {
		c.Fail("unstored-key-hit", "Retrieve of a key that was never stored returned true", rt)
	}
	if modelable(outs) && smallEnough(want) && smallEnough(prior) {
		term := lib.App("CStore", lib.Bool(compress), coqPaths(order), coqFs(prior), lib.StrList(outs), coqTree(want),
			"false", coqFs(post), coqResult(rt.Hit, rt.Restored))
		c.Case(term, rt, fmt.Sprintf("rt|%v|%v|%v|%v", compress, tree, outs, old), countNodes(tree) > 0)
		c.Case(lib.App("CMissing", lib.Bool(compress), coqFs(listCache(cdir, other, compress)), lib.StrList(outs), lib.Bool(hit2)), rt, "", false)
	} else {
		c.Eval(rt, fmt.Sprintf("rt|%v|%v|%v|%v", compress, tree, outs, old), true)
	}
	c.Hist("roundtrip-source", src)
	c.HistN("tree-nodes", min(countNodes(tree), 12))
	c.Hist("compress", strconv.FormatBool(compress))
	must(os.RemoveAll(root))
}

type crashJob struct {
	id       int
	compress bool
	old      []Node
	oldOuts  []string
	tmp      []Node
	tmpOuts  []string
	tree     []Node
	outs     []string
	key      []byte
	label    string
	all      bool // also kill at syscalls that failed without changing anything
}

type crashResult struct {
	cases   []CrashCase
	terms   []string
	err     string
	first   int
	last    int
	killed  int
	skipped int
}

func runCrashJob(j crashJob) crashResult {
	var res crashResult
	root := filepath.Join(scratch, fmt.Sprintf("crash-%d", j.id))
	must(os.MkdirAll(root, 0o775))
	defer os.RemoveAll(root)
	sp := ChildSpec{Compress: j.compress, Key: j.key, Old: j.old, OldOuts: j.oldOuts, Tmp: j.tmp, TmpOuts: j.tmpOuts, New: j.tree, Outs: j.outs}
	// 1. a logging run finds which syscalls belong to the store
	sp.Root = filepath.Join(root, "log")
	must(os.MkdirAll(sp.Root, 0o775))
	logPath := filepath.Join(root, "strace.log")
	fin, _, out := runChild(sp, -1, logPath)
	if !fin {
		res.err = "logging run of the helper did not finish: " + out
		return res
	}
	first, last, names, err := markerRange(logPath)
	if err != nil {
		res.err = err.Error()
		return res
	}
	res.first, res.last = first, last
	want := expectedTree(j.tree)
	oldWant := expectedTree(j.old)
	// 2. one run per syscall of the store, killed on entry to it; the run after the last one survives
	for n := first; n <= last+1; n++ {
		if !j.all && n <= last && strings.Contains(names[n-first].Text, "= -1 E") {
			// quick tier: a syscall that failed (RemoveAll of something absent) changed nothing, so
			// dying before it is the same crash state as dying before the next call
			res.skipped++
			continue
		}
		sp.Root = filepath.Join(root, fmt.Sprintf("n%d", n))
		must(os.MkdirAll(sp.Root, 0o775))
		runLog := filepath.Join(sp.Root, "strace.log")
		fin, killed, out := runChild(sp, n, runLog, names[n-first])
		if n <= last && (fin || !killed) {
			res.err = fmt.Sprintf("the helper was not killed at syscall %d (finished=%v): %s", n, fin, out)
			return res
		}
		// the kill must fall inside the store: exactly one marker call precedes it in this run's log
		if ld, err := os.ReadFile(runLog); err == nil && n <= last {
			if k := strings.Count(string(ld), marker); k != 1 {
				res.err = fmt.Sprintf("kill at syscall %d fell outside the store (%d markers in the log)", n, k)
				return res
			}
		}
		if n == last+1 && !fin {
			// the second marker mkdir is the (last+1)-th call: the store itself has completed
			if _, err := os.Stat(filepath.Join(sp.Root, "prior.json")); err != nil {
				res.err = "helper died before the store: " + out
				return res
			}
		}
		if killed {
			res.killed++
		}
		var pr Prior
		pd, err := os.ReadFile(filepath.Join(sp.Root, "prior.json"))
		if err != nil {
			res.err = fmt.Sprintf("no prior state at syscall %d: %s", n, out)
			return res
		}
		must(json.Unmarshal(pd, &pr))
		repo, cdir := filepath.Join(sp.Root, "repo"), filepath.Join(sp.Root, "cache")
		post := listCache(cdir, j.key, j.compress)
		hit, got := retrieveInto(repo, cdir, j.compress, j.key, j.outs)
		cc := CrashCase{Kind: "crash", Spec: sp, When: n - first, Prior: pr.State, Post: post, Hit: hit, Restored: got}
		cc.Spec.Root = ""
		cc.Syscall = names[n-first].Text
		if i := strings.Index(cc.Syscall, "/cache/pkg/tgt/"); i > 0 { // drop the scratch directory from the text
			cc.Syscall = names[n-first].Name + "(..." + cc.Syscall[i+len("/cache/pkg/tgt"):]
		}
		switch {
		case !hit:
			cc.Class = "miss"
		case sameTree(got, want):
			cc.Class = "complete"
		case j.oldOuts != nil && sameTree(got, oldWant):
			cc.Class = "complete-old"
		default:
			cc.Class = "PARTIAL"
		}
		if n == last+1 && cc.Class != "complete" && len(j.outs) > 0 {
			cc.Class = "NOT-STORED"
		}
		res.cases = append(res.cases, cc)
		if modelable(j.outs) && smallEnough(want) && smallEnough(pr.State) && smallEnough(post) {
			res.terms = append(res.terms, lib.App("CStore", lib.Bool(j.compress), coqPaths(pr.Order), coqFs(pr.State), lib.StrList(j.outs),
				coqTree(want), lib.Bool(n <= last), coqFs(post), coqResult(hit, got)))
		} else {
			res.terms = append(res.terms, "")
		}
		os.RemoveAll(sp.Root)
	}
	return res
}

func hasDirWithKids(ns []Node) bool {
	for _, n := range ns {
		if n.Kind == "d" && len(n.Kids) > 0 {
			return true
		}
	}
	return false
}

// ---------------------------------------------------------------------------------------------
// races: a helper stores one key repeatedly from repository A, this process retrieves it into B

type RaceCase struct {
	Kind      string   `json:"kind"` // race
	Compress  bool     `json:"compress"`
	Tree      []Node   `json:"tree"`
	Outs      []string `json:"outs"`
	Overwrite bool     `json:"overwrite"`
	Retrieves int      `json:"retrieves"`
	Hits      int      `json:"hits"`
	Misses    int      `json:"misses"`
	Bad       int      `json:"bad"`
	BadTree   []Ent    `json:"bad_tree,omitempty"`
}

func runRace(c *lib.Ctx, r *lib.Rng, compress bool, tree []Node, loops, maxRetrieves int) {
	root := filepath.Join(scratch, "race")
	must(os.MkdirAll(root, 0o775))
	defer os.RemoveAll(root)
	key := freshKey(r)
	outs := rootNames(tree)
	sp := ChildSpec{Root: root, Compress: compress, Key: key, New: tree, Outs: outs, Loops: loops}
	specPath := filepath.Join(root, "spec.json")
	d, _ := json.Marshal(sp)
	must(os.WriteFile(specPath, d, 0o644))
	cmd := exec.Command(self, "c12-child", specPath)
	cmd.Dir = root
	must(cmd.Start())
	done := make(chan struct{})
	go func() { cmd.Wait(); close(done) }()
	for i := 0; i < 2000; i++ {
		if _, err := os.Stat(filepath.Join(root, "started")); err == nil {
			break
		}
		time.Sleep(5 * time.Millisecond)
	}
	repoB, cdir := filepath.Join(root, "repoB"), filepath.Join(root, "cache")
	want := expectedTree(tree)
	rc := RaceCase{Kind: "race", Compress: compress, Tree: tree, Outs: outs, Overwrite: loops > 1}
	running := true
	for running && rc.Retrieves < maxRetrieves {
		select {
		case <-done:
			running = false
		default:
		}
		hit, got := retrieveInto(repoB, cdir, compress, key, outs)
		rc.Retrieves++
		c.Oracle()
		switch {
		case !hit:
			rc.Misses++
		case sameTree(got, want):
			rc.Hits++
		default:
			rc.Bad++
			if rc.BadTree == nil {
				rc.BadTree = got
			}
		}
	}
	os.WriteFile(filepath.Join(root, "stop"), nil, 0o644)
	<-done
	c.Eval(rc, fmt.Sprintf("race|%v|%v|%d", compress, tree, loops), true)
	c.Hist("race-outcome", fmt.Sprintf("compress=%v hits", compress))
	if rc.Bad > 0 {
		class := "race-overwrite-partial-hit"
		what := "a Retrieve running while the same key is stored again returned true with an incomplete tree (Store removes the old entry file by file before the new one is renamed into place)"
		if compress {
			class = "race-compressed-notexist-hit"
			what = "a compressed Retrieve running while the same key is stored again returned true without restoring the tree (the tarball vanished between the existence check and the open; retrieve treats a not-exist error after found=true as a hit)"
		}
		c.Fail(class, what, rc)
	}
	c.Note("race compress=%v overwrite=%v: %d retrieves, %d complete hits, %d misses, %d incomplete hits", compress, loops > 1, rc.Retrieves, rc.Hits, rc.Misses, rc.Bad)
}

// ---------------------------------------------------------------------------------------------
// read faults: an output tree holds an entry the store cannot archive / copy (a unix socket) or a
// declared output does not exist; Store returns normally (it only logs), then Retrieve.

type FaultCase struct {
	Kind     string   `json:"kind"` // fault
	Compress bool     `json:"compress"`
	CrossFS  bool     `json:"cross_fs"` // cache directory on another file system (links fall back to copies)
	Tree     []Node   `json:"tree"`     // kinds f l d, s = unix socket, m = missing output
	Outs     []string `json:"outs"`
	Old      []Node   `json:"old,omitempty"`
	OldOuts  []string `json:"old_outs,omitempty"`
	FaultOut string   `json:"fault_out"` // the output whose walk fails
	FaultAt  int      `json:"fault_at"`  // entries of that output walked before the failing one
	FaultLen int      `json:"fault_len"` // storable entries of that output
	Post     []Ent    `json:"post"`
	Hit      bool     `json:"hit"`
	Restored []Ent    `json:"restored,omitempty"`
	Class    string   `json:"class"`
}

// otherFS returns a scratch directory on a file system other than the one of `scratch` ("" if none).
func otherFS() string {
	for _, base := range []string{"/dev/shm", "/run/shm", "/run"} {
		d, err := os.MkdirTemp(base, "c12x-")
		if err != nil {
			continue
		}
		a, b := filepath.Join(scratch, "xdev-probe"), filepath.Join(d, "xdev-probe")
		os.WriteFile(a, nil, 0o644)
		err = os.Link(a, b)
		os.Remove(a)
		if le, ok := err.(*os.LinkError); ok && le.Err == syscall.EXDEV {
			return d
		}
		os.RemoveAll(d)
	}
	return ""
}

// storable drops sockets and missing outputs from a forest.
func storable(ns []Node) []Node {
	var out []Node
	for _, n := range ns {
		if n.Kind == "s" || n.Kind == "m" {
			continue
		}
		n.Kids = storable(n.Kids)
		out = append(out, n)
	}
	return out
}

// faultPoint finds the unstorable entry: the output it lies in, how many entries of that output the
// sorted walk meets before it, and how many storable entries the output has.
func faultPoint(tree []Node) (out string, at, total int, found bool) {
	for _, top := range tree {
		var all []Ent
		flatAll([]Node{top}, nil, &all)
		for i, e := range all {
			if e.Kind == "s" || e.Kind == "m" {
				return top.Name, i, len(all) - 1, true
			}
		}
	}
	return "", 0, 0, false
}

// flatAll is flat() that keeps sockets / missing outputs as entries of their own kind.
func flatAll(ns []Node, prefix []string, out *[]Ent) {
	sorted := append([]Node{}, ns...)
	sort.Slice(sorted, func(i, j int) bool { return sorted[i].Name < sorted[j].Name })
	for _, n := range sorted {
		path := append(append([]string{}, prefix...), n.Name)
		*out = append(*out, Ent{Path: path, Kind: n.Kind, Content: n.Content, Exec: n.Exec, Target: n.Target})
		if n.Kind == "d" {
			flatAll(n.Kids, path, out)
		}
	}
}

func runFault(c *lib.Ctx, r *lib.Rng, compress bool, xroot string, tree []Node, outs []string, old []Node, oldOuts []string, label string) {
	root := filepath.Join(scratch, "fault")
	repo, cdir := filepath.Join(root, "repo"), filepath.Join(root, "cache")
	if xroot != "" {
		cdir = filepath.Join(xroot, "cache")
	}
	defer os.RemoveAll(root)
	defer os.RemoveAll(cdir)
	key := freshKey(r)
	fc := FaultCase{Kind: "fault", Compress: compress, CrossFS: xroot != "", Tree: tree, Outs: outs, Old: old, OldOuts: oldOuts}
	var found bool
	fc.FaultOut, fc.FaultAt, fc.FaultLen, found = faultPoint(tree)
	if !found {
		panic("fault case without an unstorable entry")
	}
	if oldOuts != nil {
		storeHere(repo, cdir, compress, key, old, oldOuts)
	}
	prior := listCache(cdir, key, compress)
	order := removalOrder(cdir, key, compress)
	storeHere(repo, cdir, compress, key, tree, outs)
	fc.Post = listCache(cdir, key, compress)
	fc.Hit, fc.Restored = retrieveInto(repo, cdir, compress, key, outs)
	want := expectedTree(storable(tree))
	switch {
	case !fc.Hit:
		fc.Class = "miss"
	case sameTree(fc.Restored, want):
		fc.Class = "complete"
	case oldOuts != nil && sameTree(fc.Restored, expectedTree(old)):
		fc.Class = "complete-old"
	default:
		fc.Class = "PARTIAL"
	}
	// oracle: a store that met an error must leave a miss or a complete tree (every storable entry)
	c.Oracle()
	if fc.Class == "PARTIAL" {
		if compress {
			c.Fail("store-error-partial-hit", "a compressed Store whose tarball walk returned an error part-way ("+label+") left an entry: Retrieve returns true and restores only what had been archived before the error", fc)
		} else if fc.CrossFS && fc.FaultAt > 0 && fc.FaultAt < fc.FaultLen {
			c.Fail("plain-store-walk-error-partial-hit", "uncompressed cache on another file system than the repository: RecursiveLink's copy fallback fails on an entry inside a directory output ("+label+"), storeFile only logs the error and Store still renames the temporary entry into place: Retrieve returns true and restores the directory without the entries that sort after the failing one", fc)
		} else {
			c.Fail("store-error-partial-hit-plain", "an uncompressed Store that met an error ("+label+") left an entry that Retrieve restores incompletely", fc)
		}
	}
	// model side: the storable tree, the fault position inside a directory output (an output whose
	// root is unstorable or missing is just absent from the model's source tree)
	f := "None"
	if fc.FaultAt > 0 {
		f = lib.Some(lib.Pair(lib.Str(fc.FaultOut), lib.Nat(fc.FaultAt)))
	}
	if smallEnough(want) && smallEnough(prior) && smallEnough(fc.Post) {
		term := lib.App("CFault", lib.Bool(compress), coqPaths(order), coqFs(prior), lib.StrList(outs), coqTree(want), f,
			coqFs(fc.Post), coqResult(fc.Hit, fc.Restored))
		c.Case(term, fc, fmt.Sprintf("fault|%v|%v|%v|%v|%v", compress, xroot != "", tree, outs, old), true)
	} else {
		c.Eval(fc, fmt.Sprintf("fault|%v|%v|%v|%v|%v", compress, xroot != "", tree, outs, old), true)
	}
	c.Hist("fault-outcome", fmt.Sprintf("compress=%v crossfs=%v %s:%s", compress, xroot != "", label, fc.Class))
	c.HistN("fault-position", min(fc.FaultAt, 12))
}

// faultVariants returns every way of putting one unstorable entry into `tree`: a socket in each
// slot of the sorted children of each directory (so the walk fails at every position), a socket or
// a missing output at each index of the output list.
type faultVariant struct {
	tree  []Node
	outs  []string
	label string
}

func faultVariants(tree []Node) []faultVariant {
	var out []faultVariant
	outs := rootNames(tree)
	// top level: the output list is walked in list order
	for _, kind := range []string{"s", "m"} {
		for i := 0; i <= len(tree); i++ {
			bad := Node{Name: "zz-bad", Kind: kind}
			t2 := append(append(append([]Node{}, tree[:i]...), bad), tree[i:]...)
			label := "socket-output"
			if kind == "m" {
				label = "missing-output"
			}
			out = append(out, faultVariant{t2, rootNames(t2), label})
		}
	}
	// inside directories: every slot among the sorted children
	var rec func(ns []Node, rebuild func([]Node) []Node)
	rec = func(ns []Node, rebuild func([]Node) []Node) {
		for i, n := range ns {
			if n.Kind != "d" {
				continue
			}
			i, n := i, n
			inner := func(kids []Node) []Node {
				ns2 := append([]Node{}, ns...)
				ns2[i].Kids = kids
				return rebuild(ns2)
			}
			names := []string{}
			for _, k := range n.Kids {
				names = append(names, k.Name)
			}
			sort.Strings(names)
			for slot := 0; slot <= len(names); slot++ {
				var name string
				switch {
				case slot == 0:
					name = "!sock"
				default:
					name = names[slot-1] + "\x01sock"
				}
				if (slot > 0 && !(names[slot-1] < name)) || (slot < len(names) && !(name < names[slot])) {
					continue
				}
				kids := append(append([]Node{}, n.Kids...), Node{Name: name, Kind: "s"})
				out = append(out, faultVariant{inner(kids), outs, "socket-in-directory"})
			}
			rec(n.Kids, inner)
		}
	}
	rec(tree, func(ns []Node) []Node { return ns })
	return out
}

// ---------------------------------------------------------------------------------------------
// dirty retrieves: outputs declared inside sub-directories of the out directory ("sub/n", "a/b/c"),
// and a Retrieve into an out directory that still holds ANOTHER version of those outputs (build v1,
// store K1, build v2 over it, [store K2,] retrieve K1, [retrieve K2]).

type DirtyCase struct {
	Kind     string   `json:"kind"` // dirty
	Compress bool     `json:"compress"`
	Outs     []string `json:"outs"`
	V1       []Node   `json:"v1"`     // one node per output, named by the output's path
	Extra1   []Node   `json:"extra1"` // files of the v1 build that are not outputs (never stored)
	V2       []Node   `json:"v2"`     // what the out directory holds when K1 is retrieved
	StoreK2  bool     `json:"store_k2"`
	Label    string   `json:"label"`
	Step     string   `json:"step"` // which retrieve failed: K1-over-v2, K2-over-v1
	Hit      bool     `json:"hit"`
	Before   []Ent    `json:"before,omitempty"`
	After    []Ent    `json:"after,omitempty"`
	Want     []Ent    `json:"want,omitempty"`
	BadOut   string   `json:"bad_out,omitempty"`
}

func splitOuts(outs []string) [][]string {
	ps := make([][]string, len(outs))
	for i, o := range outs {
		ps[i] = strings.Split(o, "/")
	}
	return ps
}

func under(p []string, e Ent) bool {
	if len(e.Path) < len(p) {
		return false
	}
	for i := range p {
		if e.Path[i] != p[i] {
			return false
		}
	}
	return true
}

func subtreeOf(es []Ent, p []string) []Ent {
	out := []Ent{}
	for _, e := range es {
		if under(p, e) {
			out = append(out, e)
		}
	}
	return out
}

func nodeNamed(ns []Node, name string) (Node, bool) {
	for _, n := range ns {
		if n.Name == name {
			return n, true
		}
	}
	return Node{}, false
}

// retrieveOver retrieves WITHOUT cleaning the out directory first.
func retrieveOver(repo, cdir string, compress bool, key []byte, outs []string) (bool, []Ent, []Ent) {
	gmu.Lock()
	defer gmu.Unlock()
	enter(repo)
	must(os.MkdirAll(outDir(repo), 0o775))
	before, after := []Ent{}, []Ent{}
	listTree(outDir(repo), nil, &before)
	hit := newCache(cdir, compress).Retrieve(newTarget(), key, outs)
	listTree(outDir(repo), nil, &after)
	return hit, before, after
}

func buildHere(repo string, tree []Node) {
	gmu.Lock()
	defer gmu.Unlock()
	must(os.RemoveAll(filepath.Join(repo, "plz-out")))
	enter(repo)
	materialise(outDir(repo), tree)
}

func coqPathList(ps [][]string) string { return coqPaths(ps) }

func runDirty(c *lib.Ctx, r *lib.Rng, dc DirtyCase) {
	root := filepath.Join(scratch, "dirty")
	repo, cdir := filepath.Join(root, "repo"), filepath.Join(root, "cache")
	defer os.RemoveAll(root)
	k1, k2 := freshKey(r), freshKey(r)
	dc.Kind = "dirty"
	// build v1, store it as K1
	storeHere(repo, cdir, dc.Compress, k1, append(append([]Node{}, dc.V1...), dc.Extra1...), dc.Outs)
	st1 := listCache(cdir, k1, dc.Compress)
	// build v2 over it (a clean rebuild: what is left is v2 only)
	if dc.StoreK2 {
		storeHere(repo, cdir, dc.Compress, k2, dc.V2, dc.Outs)
	} else {
		buildHere(repo, dc.V2)
	}
	check := func(step string, key []byte, st []Ent, version []Node) {
		hit, before, after := retrieveOver(repo, cdir, dc.Compress, key, dc.Outs)
		x := dc
		x.Step, x.Hit, x.Before, x.After = step, hit, before, after
		// oracle: a hit, and below every output exactly the stored tree of that output
		c.Oracle()
		if !hit {
			c.Fail("dirty-retrieve-miss", "Retrieve of a stored key into an out directory that holds another version of the outputs ("+dc.Label+", "+step+") returned false", x)
		} else {
			for _, o := range dc.Outs {
				n, _ := nodeNamed(version, o)
				want := expectedTree([]Node{n})
				got := subtreeOf(after, strings.Split(o, "/"))
				if !sameTree(got, want) {
					x.Want, x.BadOut = want, o
					c.Fail("dirty-retrieve-tree-differs", "Retrieve into an out directory that holds another version of the outputs ("+dc.Label+", "+step+") returned true but output "+o+" is not the stored tree (stale entries or bytes of the old version survive)", x)
					break
				}
			}
		}
		key2 := fmt.Sprintf("dirty|%v|%v|%v|%v|%v|%s", dc.Compress, dc.Outs, dc.V1, dc.V2, dc.StoreK2, step)
		if smallEnough(st) && smallEnough(before) && smallEnough(after) {
			term := lib.App("CDirty", lib.Bool(dc.Compress), coqFs(st), coqPathList(splitOuts(dc.Outs)), coqTree(before), lib.Bool(hit), coqTree(after))
			c.Case(term, x, key2, len(before) > 0)
		} else {
			c.Eval(x, key2, true)
		}
		c.Hist("dirty-outcome", fmt.Sprintf("compress=%v %s hit=%v", dc.Compress, step, hit))
	}
	check("K1-over-v2", k1, st1, dc.V1)
	if dc.StoreK2 {
		check("K2-over-v1", k2, listCache(cdir, k2, dc.Compress), dc.V2)
	}
	c.Hist("dirty-shape", dc.Label)
}

// dirtyNode builds one version of an output (or of a stale occupant of its path).
func dirtyNode(name, kind string) (Node, bool) {
	f := func(n, content string, x bool) Node { return Node{Name: n, Kind: "f", Content: BStr(content), Exec: x} }
	switch kind {
	case "absent":
		return Node{}, false
	case "file":
		return f(name, "short v1", false), true
	case "xfile":
		return f(name, "#!v1", true), true
	case "longer-file":
		return f(name, "a considerably longer second version", true), true
	case "empty-file":
		return f(name, "", false), true
	case "link":
		return Node{Name: name, Kind: "l", Target: "./nowhere/v1"}, true
	case "other-link":
		return Node{Name: name, Kind: "l", Target: "elsewhere"}, true
	case "emptydir":
		return Node{Name: name, Kind: "d"}, true
	case "dir":
		return Node{Name: name, Kind: "d", Kids: []Node{f("a", "A1", false), {Name: "e", Kind: "d", Kids: []Node{f("c", "C1", true)}}, {Name: "l", Kind: "l", Target: "a"}}}, true
	case "bigger-dir": // same names with other kinds and longer contents, plus entries v1 does not have
		return Node{Name: name, Kind: "d", Kids: []Node{f("a", "A2 is longer", true), {Name: "e", Kind: "d", Kids: []Node{f("c", "C2 longer", false), f("stale", "S", false)}},
			f("l", "was a link", false), {Name: "zdir", Kind: "d", Kids: []Node{f("deep", "D", false)}}}}, true
	case "smaller-dir":
		return Node{Name: name, Kind: "d", Kids: []Node{{Name: "e", Kind: "l", Target: "a"}}}, true
	}
	panic("dirtyNode: " + kind)
}

var dirtyV1Kinds = []string{"file", "xfile", "link", "dir", "emptydir"}
var dirtyV2Kinds = []string{"absent", "same", "longer-file", "empty-file", "other-link", "bigger-dir", "smaller-dir"}
var dirtyPositions = []string{"t", "sub/n", "a/b/c"}

func dirtyMatrix() []DirtyCase {
	var out []DirtyCase
	for _, k1 := range dirtyV1Kinds {
		for _, k2 := range dirtyV2Kinds {
			for _, compress := range []bool{false, true} {
				dc := DirtyCase{Compress: compress, Outs: dirtyPositions, Label: k1 + "<-" + k2}
				all2 := true
				for _, pos := range dirtyPositions {
					n1, _ := dirtyNode(pos, k1)
					dc.V1 = append(dc.V1, n1)
					kk := k2
					if kk == "same" {
						kk = k1
					}
					if n2, ok := dirtyNode(pos, kk); ok {
						dc.V2 = append(dc.V2, n2)
					} else {
						all2 = false
					}
				}
				dc.Extra1 = []Node{{Name: "sub/undeclared", Kind: "f", Content: "not an output"}}
				dc.V2 = append(dc.V2, Node{Name: "sub/other", Kind: "f", Content: "next to an output"}, Node{Name: "junk.txt", Kind: "f", Content: "junk"})
				dc.StoreK2 = all2
				out = append(out, dc)
			}
		}
	}
	return out
}

var dirtyOutPool = [][]string{
	{"m"}, {"bin", "sub/x"}, {"sub/x", "sub/y"}, {"d", "sub/deep/z"}, {"o/p/q/r", "m"}, {"é/a b", "sub/x", "K"}, {"sub/deep/z", "sub/x", "top"}, {"x/y"},
}

func randDirtyNode(r *lib.Rng, name string) Node {
	switch k := r.Intn(10); {
	case k < 4:
		return Node{Name: name, Kind: "f", Content: randContent(r, false), Exec: r.Chance(1, 3)}
	case k < 6:
		return Node{Name: name, Kind: "l", Target: lib.Pick(r, []string{"a", "../b", "./x/y", "nowhere", ".."})}
	default:
		b := 1 + r.Intn(5)
		return Node{Name: name, Kind: "d", Kids: randForest(r, &b, 2, false)}
	}
}

func randDirty(r *lib.Rng) DirtyCase {
	outs := append([]string{}, lib.Pick(r, dirtyOutPool)...)
	lib.Shuffle(r, outs)
	dc := DirtyCase{Compress: r.Bool(), Outs: outs, Label: "random", StoreK2: true}
	for _, o := range outs {
		n1 := randDirtyNode(r, o)
		dc.V1 = append(dc.V1, n1)
		switch r.Intn(5) {
		case 0:
			dc.StoreK2 = false // the path is free in the stale directory
		case 1:
			dc.V2 = append(dc.V2, n1)
		default:
			dc.V2 = append(dc.V2, randDirtyNode(r, o))
		}
	}
	if r.Bool() {
		dc.V2 = append(dc.V2, Node{Name: "sub/other", Kind: "f", Content: "x"})
	}
	if r.Chance(1, 3) {
		dc.V2 = append(dc.V2, Node{Name: "zz", Kind: "d", Kids: []Node{{Name: "k", Kind: "l", Target: "../m"}}})
	}
	if r.Chance(1, 3) {
		dc.StoreK2 = false
	}
	return dc
}

func must(err error) {
	if err != nil {
		panic(err)
	}
}

func main() {
	if len(os.Args) > 2 && os.Args[1] == "c12-child" {
		childMain(os.Args[2])
		return
	}
	var err error
	self, err = os.Executable()
	must(err)
	gologging.SetLevel(gologging.CRITICAL, "plz")
	lib.Main("C12", func(c *lib.Ctx) {
		c.Model("From PlzV Require Import Model.C12.", "C12.case", "C12.check")
		c.Rule("a case = (compressed?, prior cache state of the key, output forest, crash point); distinct by the whole input; non-trivial when the forest has at least one node. " +
			"Round trips: every forest shape up to 3 (quick) / 4 (thorough) nodes over {file, executable, symlink, directory}, x compressed/uncompressed, plus random larger forests and overwriting stores; " +
			"crash points: the store runs in a helper process under strace and is killed on entry to each of its mutating syscalls in turn; races: a helper stores one key repeatedly while this process retrieves it; " +
			"dirty retrieves: outputs declared at the top level and inside sub-directories (t, sub/n, a/b/c), build v1 / store K1 / build v2 / [store K2] / retrieve K1 / [retrieve K2] WITHOUT cleaning the out directory in between, every v1 kind x every stale kind x {plain, compressed} plus random ones; the case carries the cache listing, the out directory before and after")
		only := os.Getenv("C12_ONLY") // development aid: run one section only
		if _, err := exec.LookPath("strace"); err != nil {
			panic("strace is required for the crash-point runs: " + err.Error())
		}
		wd, _ := os.Getwd()
		defer os.Chdir(wd)
		out, err := filepath.Abs(c.Out)
		must(err)
		c.Out = out
		scratch, err = os.MkdirTemp("", "c12-")
		must(err)
		defer os.RemoveAll(scratch)

		var replay json.RawMessage
		if c.ReadReplay(&replay) {
			runReplay(c, replay)
			return
		}

		// ---- 1. round trips -------------------------------------------------------------------
		maxNodes := c.Scale(3, 4)
		if only != "" && only != "rt" {
			maxNodes = -1
		}
		exh := 0
		for n := 0; n <= maxNodes; n++ {
			for _, tree := range shapes(n) {
				for _, compress := range []bool{false, true} {
					runRoundTrip(c, c.Rng.Fork(), compress, tree, rootNames(tree), nil, nil, "exhaustive-shape")
					exh++
				}
			}
		}
		c.Note("exhaustive shapes up to %d nodes x {plain, compressed}: %d round trips", maxNodes, exh)
		nr := c.Scale(60, 600)
		if only != "" && only != "rt" {
			nr = 0
		}
		for i := 0; i < nr; i++ {
			r := c.Rng.Fork()
			budget := 3 + r.Intn(10)
			tree := randForest(r, &budget, 0, true)
			outs := rootNames(tree)
			lib.Shuffle(r, outs)
			var old []Node
			var oldOuts []string
			src := "random"
			if r.Chance(1, 3) { // overwrite an earlier entry of the same key
				b2 := 1 + r.Intn(6)
				old = randForest(r, &b2, 0, false)
				oldOuts = rootNames(old)
				src = "random-overwrite"
			}
			if r.Chance(1, 6) && len(tree) > 0 { // an output in a sub-directory: oracle only
				tree = append(tree, Node{Name: "sub", Kind: "d", Kids: []Node{{Name: "deep.txt", Kind: "f", Content: "deep"}, {Name: "other", Kind: "f", Content: "not an output"}}})
				outs = append(outs, "sub/deep.txt")
				// only the declared output comes back
				runNested(c, r, r.Bool(), tree, outs)
				continue
			}
			runRoundTrip(c, r, r.Bool(), tree, outs, old, oldOuts, src)
		}
		// the empty output list (never used by the callers, which always add the metadata file)
		runRoundTrip(c, c.Rng.Fork(), false, nil, []string{}, nil, nil, "empty-outs")
		runRoundTrip(c, c.Rng.Fork(), true, nil, []string{}, nil, nil, "empty-outs")

		// ---- 1b. read faults (error return, no kill) ---------------------------------------------
		f := func(name, content string) Node { return Node{Name: name, Kind: "f", Content: BStr(content)} }
		dir := func(name string, kids ...Node) Node { return Node{Name: name, Kind: "d", Kids: kids} }
		treeA := []Node{dir("d", f("a", "1"), f("b", "2")), f("m", "meta")}
		treeD := []Node{dir("d", f("a", "1"), f("b", "2"))}
		treeB := []Node{f("m", "meta"), {Name: "x", Kind: "f", Content: "#!", Exec: true}, {Name: "l", Kind: "l", Target: "x"}}
		treeC := []Node{dir("d", f("a", "1"), dir("e", f("c", "3")), Node{Name: "s", Kind: "l", Target: "a"}), dir("empty")}
		if only == "" || only == "fault" {
			xroot := otherFS()
			if xroot == "" {
				c.Note("read faults: no second file system found (tried /dev/shm, /run/shm, /run): the uncompressed copy-fallback faults were NOT exercised")
			} else {
				defer os.RemoveAll(xroot)
			}
			bases := [][]Node{treeA, treeC, {f("m", "meta"), dir("z", f("k", "v"), dir("y", f("j", "w"), Node{Name: "l", Kind: "l", Target: "../k"}))}}
			nf := c.Scale(4, 60)
			for i := 0; i < nf; i++ {
				r := c.Rng.Fork()
				budget := 3 + r.Intn(6)
				t := randForest(r, &budget, 1, false)
				if len(t) > 0 {
					bases = append(bases, t)
				}
			}
			nfault := 0
			for bi, base := range bases {
				for _, v := range faultVariants(base) {
					for _, compress := range []bool{true, false} {
						xr := ""
						if !compress && v.label != "missing-output" {
							if xroot == "" {
								continue // on one file system a socket is hard-linked like any file: no fault
							}
							xr = xroot
						}
						r := c.Rng.Fork()
						var old []Node
						var oldOuts []string
						if bi%2 == 1 || r.Chance(1, 4) { // over an existing entry of the same key
							old, oldOuts = treeB, rootNames(treeB)
						}
						runFault(c, r, compress, xr, v.tree, v.outs, old, oldOuts, v.label)
						nfault++
						if !compress && v.label == "missing-output" && xroot != "" && bi < 3 {
							runFault(c, c.Rng.Fork(), false, xroot, v.tree, v.outs, nil, nil, v.label)
							nfault++
						}
					}
				}
			}
			c.Note("read faults: %d base trees, %d faulted stores (a unix socket in every slot of every directory and of the output list, a missing output at every index; compressed on one file system, uncompressed with the cache on another one)", len(bases), nfault)
		}

		// ---- 2. crash points ------------------------------------------------------------------
		var jobs []crashJob
		add := func(label string, compress bool, old []Node, tmp []Node, tree []Node) {
			j := crashJob{id: len(jobs), compress: compress, tree: tree, outs: rootNames(tree), key: freshKey(c.Rng), label: label, all: c.Thor}
			if old != nil {
				j.old, j.oldOuts = old, rootNames(old)
			}
			if tmp != nil {
				j.tmp, j.tmpOuts = tmp, rootNames(tmp)
			}
			jobs = append(jobs, j)
		}
		// the corpus: absent key, overwrite of files only, overwrite of a directory (DESIGN.md's
		// predicted defect), left-over temporary entry; each plain and compressed
		add("absent", false, nil, nil, treeA)
		add("absent", true, nil, nil, treeA)
		add("overwrite-files", false, treeB, nil, treeB)
		add("overwrite-dir-only", false, treeD, nil, treeD)
		add("overwrite-dir", true, treeA, nil, treeA)
		add("leftover-tmp", false, nil, treeC, treeA)
		if c.Thor {
			add("overwrite-dir", false, treeA, nil, treeA)
			add("absent", false, nil, nil, treeC)
			add("absent", true, nil, nil, treeC)
			add("overwrite-dir", false, treeC, nil, treeB)
			add("overwrite-files", true, treeB, nil, treeB)
			add("leftover-tmp", true, nil, treeC, treeA)
			add("overwrite+leftover", false, treeB, treeA, treeC)
		}
		nc := c.Scale(2, 40)
		for i := 0; i < nc; i++ {
			r := c.Rng.Fork()
			budget := 2 + r.Intn(5)
			tree := randForest(r, &budget, 1, false)
			var old, tmp []Node
			label := "random-absent"
			switch r.Intn(4) {
			case 1:
				b2 := 1 + r.Intn(4)
				old = randForest(r, &b2, 1, false)
				label = "random-overwrite"
			case 2:
				old = tree
				label = "random-overwrite-same"
			case 3:
				b2 := 1 + r.Intn(4)
				tmp = randForest(r, &b2, 1, false)
				label = "random-leftover"
			}
			add(label, r.Chance(1, 3), old, tmp, tree)
		}
		// exactly ONE output, a directory, absent key, uncompressed: the walk of the directory must stay
		// invisible until the final rename (added after the random jobs so that their PRNG stream is unchanged)
		add("absent-single-dir", false, nil, nil, treeD)
		if only != "" && only != "crash" {
			jobs = nil
		}
		results := make([]crashResult, len(jobs))
		var wg sync.WaitGroup
		sem := make(chan struct{}, 12)
		for i := range jobs {
			wg.Add(1)
			go func(i int) {
				defer wg.Done()
				sem <- struct{}{}
				results[i] = runCrashJob(jobs[i])
				<-sem
			}(i)
		}
		wg.Wait()
		totalKills := 0
		for i, res := range results {
			j := jobs[i]
			if res.err != "" {
				panic(fmt.Sprintf("crash job %d (%s): %s", i, j.label, res.err))
			}
			totalKills += res.killed
			classes := map[string]int{}
			for k, cc := range res.cases {
				c.Oracle()
				classes[cc.Class]++
				key := fmt.Sprintf("crash|%d|%d", i, k)
				if res.terms[k] != "" {
					c.Case(res.terms[k], cc, key, true)
				} else {
					c.Eval(cc, key, true)
				}
				c.Hist("crash-outcome", j.label+":"+cc.Class)
				switch cc.Class {
				case "PARTIAL":
					switch {
					case j.oldOuts == nil:
						c.Fail("crash-partial-hit-absent-key", "a store to an absent key killed at "+cc.Syscall+" left an entry that Retrieve restores incompletely", cc)
					case j.compress:
						c.Fail("crash-partial-hit-compressed", "a compressed overwriting store killed at "+cc.Syscall+" left an entry that Retrieve restores incompletely", cc)
					case hasDirWithKids(j.old):
						c.Fail("crash-overwrite-dir-partial-hit", "Store removes the previous entry of the key with a non-atomic RemoveAll: killed inside it, a directory output of the old entry is left partly deleted and Retrieve restores it as a hit", cc)
					default:
						c.Fail("crash-overwrite-partial-hit", "an overwriting store (no directory output in the old entry) killed at "+cc.Syscall+" left an entry that Retrieve restores incompletely", cc)
					}
				case "NOT-STORED":
					c.Fail("roundtrip-miss", "Retrieve after a completed Store (helper process) did not restore the tree", cc)
				}
			}
			c.Note("crash job %d %s compress=%v: store syscalls %d..%d (%d no-op failures not used as crash points), outcomes %v", i, j.label, j.compress, res.first, res.last, res.skipped, classes)
		}
		c.Note("crash points: %d jobs, %d helper runs killed by strace injection (each verified: helper died by SIGKILL before writing its completion file)", len(jobs), totalKills)

		// ---- 3. races -------------------------------------------------------------------------
		loops, retr := c.Scale(150, 1500), c.Scale(300, 3000)
		if only == "" || only == "race" {
			runRace(c, c.Rng.Fork(), false, treeA, 1, 50) // first store of an absent key
			runRace(c, c.Rng.Fork(), true, treeA, 1, 50)
			wide := dir("w")
			for i := 0; i < 24; i++ {
				wide.Kids = append(wide.Kids, f(fmt.Sprintf("f%02d", i), strconv.Itoa(i)))
			}
			treeW := []Node{wide, f("m", "meta")}
			runRace(c, c.Rng.Fork(), false, treeW, loops, retr) // repeated (overwriting) stores
			runRace(c, c.Rng.Fork(), true, treeW, loops, retr)
		}

		// ---- 4. nested outputs, retrieve into a directory that holds another version -----------
		if only == "" || only == "dirty" {
			nd := 0
			for _, dc := range dirtyMatrix() {
				runDirty(c, c.Rng.Fork(), dc)
				nd++
			}
			nrd := c.Scale(40, 500)
			for i := 0; i < nrd; i++ {
				r := c.Rng.Fork()
				runDirty(c, r, randDirty(r))
				nd++
			}
			c.Note("dirty retrieves: %d sequences (build v1, store K1, build v2, [store K2,] retrieve K1 [, retrieve K2]); matrix = every v1 kind %v x stale kind %v x {plain, compressed}, each with the outputs %v at once; %d random ones", nd, dirtyV1Kinds, dirtyV2Kinds, dirtyPositions, nrd)
		}
	})
}

// runNested: outputs that live in a sub-directory ("sub/deep.txt"); not covered by the Coq model,
// checked by the oracle only.
func runNested(c *lib.Ctx, r *lib.Rng, compress bool, tree []Node, outs []string) {
	root := filepath.Join(scratch, "rt")
	repo, cdir := filepath.Join(root, "repo"), filepath.Join(root, "cache")
	key := freshKey(r)
	storeHere(repo, cdir, compress, key, tree, outs)
	hit, got := retrieveInto(repo, cdir, compress, key, outs)
	// expected: the declared outputs only (sub/other is not one)
	var want []Ent
	for _, e := range expectedTree(tree) {
		if e.Path[0] != "sub" || len(e.Path) == 1 || e.Path[1] == "deep.txt" {
			want = append(want, e)
		}
	}
	rt := RoundTrip{Kind: "roundtrip", Compress: compress, Tree: tree, Outs: outs, Stored: true, Hit: hit, Restored: got}
	c.Oracle()
	if !hit {
		c.Fail("roundtrip-miss", "Retrieve after a completed Store of the same key returned false", rt)
	} else if !sameTree(got, want) {
		c.Fail("roundtrip-tree-differs", "the restored tree differs from the stored one (nested output)", rt)
	}
	c.Eval(rt, fmt.Sprintf("nested|%v|%v", compress, tree), true)
	c.Hist("roundtrip-source", "nested-out")
	must(os.RemoveAll(root))
}

// runReplay re-runs one recorded case (round trip or crash) from its JSON.
func runReplay(c *lib.Ctx, raw json.RawMessage) {
	var k struct {
		Kind string `json:"kind"`
	}
	must(json.Unmarshal(raw, &k))
	switch k.Kind {
	case "roundtrip":
		var rt RoundTrip
		must(json.Unmarshal(raw, &rt))
		runRoundTrip(c, c.Rng.Fork(), rt.Compress, rt.Tree, rt.Outs, rt.Old, rt.OldOuts, "replay")
	case "crash":
		var cc CrashCase
		must(json.Unmarshal(raw, &cc))
		j := crashJob{compress: cc.Spec.Compress, old: cc.Spec.Old, oldOuts: cc.Spec.OldOuts, tmp: cc.Spec.Tmp, tmpOuts: cc.Spec.TmpOuts,
			tree: cc.Spec.New, outs: cc.Spec.Outs, key: cc.Spec.Key, label: "replay", all: true}
		res := runCrashJob(j)
		if res.err != "" {
			panic(res.err)
		}
		for i, x := range res.cases {
			c.Oracle()
			if res.terms[i] != "" {
				c.Case(res.terms[i], x, fmt.Sprint(i), true)
			}
			if x.Class == "PARTIAL" {
				class := "crash-partial-hit-absent-key"
				if j.oldOuts != nil && j.compress {
					class = "crash-partial-hit-compressed"
				} else if j.oldOuts != nil && hasDirWithKids(j.old) {
					class = "crash-overwrite-dir-partial-hit"
				} else if j.oldOuts != nil {
					class = "crash-overwrite-partial-hit"
				}
				c.Fail(class, "replayed crash point "+x.Syscall, x)
			}
		}
	case "fault":
		var fc FaultCase
		must(json.Unmarshal(raw, &fc))
		xr := ""
		if fc.CrossFS {
			if xr = otherFS(); xr == "" {
				panic("replay needs a second file system")
			}
			defer os.RemoveAll(xr)
		}
		runFault(c, c.Rng.Fork(), fc.Compress, xr, fc.Tree, fc.Outs, fc.Old, fc.OldOuts, "replay")
	case "dirty":
		var dc DirtyCase
		must(json.Unmarshal(raw, &dc))
		dc.Label = "replay " + dc.Label
		runDirty(c, c.Rng.Fork(), dc)
	case "race":
		var rc RaceCase
		must(json.Unmarshal(raw, &rc))
		loops := 1
		if rc.Overwrite {
			loops = 300
		}
		runRace(c, c.Rng.Fork(), rc.Compress, rc.Tree, loops, 600)
	}
}
