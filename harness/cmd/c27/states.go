// C27, streams 3 and 4: the overall coverage lives in BuildState.Coverage, and BuildState is copied
// (ForSubrepo / ForArch) - a test of a subrepo target is logged on the copy (state.ForTarget). Every run,
// logged on whatever copy, in whatever order and however many at a time, has to reach the one overall report.
package main

import (
	"bytes"
	"encoding/json"
	"fmt"
	"os"
	"os/exec"
	"reflect"
	"strings"
	"sync"
	"time"

	"verifharness/lib"

	gologging "gopkg.in/op/go-logging.v1"

	"github.com/thought-machine/please/src/cli"
	"github.com/thought-machine/please/src/core"
)

// one step of a history: copy a state, or log the finished run `run` on state `st`
type event struct {
	Copy bool `json:"copy,omitempty"`
	Arch bool `json:"for_arch,omitempty"` // the copy is made by ForArch instead of ForSubrepo
	St   int  `json:"state"`              // the state copied / logged on (0 = the root)
	Run  int  `json:"run"`
}

var sharedConfig *core.Configuration

func newRoot() *core.BuildState {
	if sharedConfig == nil {
		sharedConfig = core.DefaultConfiguration()
		sharedConfig.Build.Path = []string{"/usr/local/bin", "/usr/bin", "/bin"}
		gologging.SetLevel(gologging.CRITICAL, "plz") // once: the level table is a plain map
	}
	state := core.NewBuildState(sharedConfig)
	// Every BuildState owns a goroutine that, whenever no target is active for 5 s, runs cycle detection and dumps
	// all goroutine stacks; with thousands of short-lived states that is quadratic. One target that stays
	// "testing" parks that goroutine for good.
	state.LogTestRunning(testTarget("//c27:never_finishes"), 1, core.TargetTesting, "")
	return state
}

// retire lets a root state (and its copies) be garbage collected - each holds about a megabyte of channel buffers,
// kept alive by its result-forwarding goroutine. That goroutine ends when it forwards to a closed results channel.
func retire(state *core.BuildState) {
	state.Results()
	state.CloseResults()
	state.LogTestRunning(testTarget("//c27:retired"), 1, core.TargetTesting, "")
}

func testTarget(label string) *core.BuildTarget {
	t := core.NewBuildTarget(core.ParseBuildLabel(label, ""))
	t.Test = new(core.TestFields)
	return t
}

// covObject builds what the result parsers hand to LogTestResult: Tests[label] IS the Files map.
func covObject(label string, files run) *core.TestCoverage {
	cov := core.NewTestCoverage()
	for k, v := range files {
		cov.Files[k] = append(lines{}, v...)
	}
	cov.Tests[core.ParseBuildLabel(label, "")] = cov.Files
	return cov
}

// play runs a history on real BuildStates and returns them (index = the model's state number).
func play(evs []event, runs []run, labels []string) []*core.BuildState {
	states := []*core.BuildState{newRoot()}
	for _, e := range evs {
		if e.Copy {
			n := len(states)
			if e.Arch {
				states = append(states, states[e.St].ForArch(cli.NewArch(fmt.Sprintf("c27os%d", n), "amd64")))
			} else {
				states = append(states, states[e.St].ForSubrepo(fmt.Sprintf("c27sub%d", n), false))
			}
			if len(states) != n+1 || states[n] == states[e.St] {
				panic("harness: ForSubrepo/ForArch did not make a new state")
			}
			continue
		}
		states[e.St].LogTestResult(testTarget(labels[e.Run]), 1, core.TargetTested, &core.TestSuite{}, covObject(labels[e.Run], runs[e.Run]), nil, "1 test passed.")
	}
	return states
}

func bestOf(runs []run) map[string][]int {
	want := map[string]lines{}
	for _, ru := range runs {
		for f, l := range ru {
			want[f] = maxLines(want[f], l)
		}
	}
	return normalise(want)
}

func coqCovObj(tests map[string]map[string]lines, files map[string]lines) string {
	ts := []string{}
	for _, l := range lib.SortedKeys(tests) {
		ts = append(ts, lib.Pair(lib.Str(l), coqRun(tests[l], lib.SortedKeys(tests[l]))))
	}
	return lib.Pair(lib.List(ts), coqRun(files, lib.SortedKeys(files)))
}

func testsByName(cov *core.TestCoverage) map[string]map[string]lines {
	out := map[string]map[string]lines{}
	for l, m := range cov.Tests {
		out[l.String()] = m
	}
	return out
}

func statesStream(c *lib.Ctx) {
	names := []string{"src/a.go", "src/b.go", "c.py"}
	nhist := c.Scale(140, 2500)
	t0, nplayed := time.Now(), 0
	defer func() {
		c.Note("state copies: %d histories, %d executions on fresh BuildStates in %v", nhist, nplayed, time.Since(t0).Round(time.Millisecond))
	}()
	for i := 0; i < nhist; i++ {
		r := c.Rng.Fork()
		nruns, ncopies := r.Range(1, 4), r.Range(0, 3)
		runs, labels := make([]run, nruns), make([]string, nruns)
		for j := range runs {
			labels[j] = fmt.Sprintf("//p:t%d", j)
			runs[j] = run{}
			for _, idx := range pickSubset(r, len(names), r.Range(1, 2)) {
				l := make(lines, r.Range(0, 5))
				for k := range l {
					l[k] = core.LineCoverage(r.Intn(4))
				}
				runs[j][names[idx]] = l
			}
		}
		// the history: copies and logs interleaved; two thirds of the histories make all copies before the first
		// result, as a real build does (subrepo states are made at parse time)
		copiesFirst := r.Chance(2, 3)
		evs, nstates, made, logged := []event{}, 1, 0, 0
		home := make([]int, nruns) // the state each run is logged on
		for made < ncopies || logged < nruns {
			if made < ncopies && (copiesFirst || logged == nruns || r.Bool()) {
				evs = append(evs, event{Copy: true, Arch: r.Chance(1, 3), St: r.Intn(nstates)})
				nstates++
				made++
			} else {
				home[logged] = r.Intn(nstates)
				if nstates > 1 && r.Chance(1, 2) {
					home[logged] = 1 + r.Intn(nstates-1) // favour the copies
				}
				evs = append(evs, event{St: home[logged], Run: logged})
				logged++
			}
		}
		c.HistN("state_copies", ncopies)
		c.Hist("copies_made", map[bool]string{true: "before the first result", false: "interleaved"}[copiesFirst || ncopies == 0])
		onCopy := false
		for _, h := range home {
			onCopy = onCopy || h > 0
		}
		want := bestOf(runs)
		js := func(evs []event) map[string]any {
			return map[string]any{"stream": "state-copies", "runs": jsRuns(runs), "labels": labels, "history": evs}
		}

		// the oracle on one history: every state reports the best state any run saw, wherever the run was logged
		oracle := func(evs []event, states []*core.BuildState) {
			c.Oracle()
			nplayed++
			for s, st := range states {
				got := normalise(st.Coverage.Files)
				if reflect.DeepEqual(got, want) {
					continue
				}
				if s == 0 {
					c.Fail("overall-coverage-misses-runs-logged-on-state-copies",
						fmt.Sprintf("the root state reports %v after the history, the best state per line over all logged runs is %v", got, want), js(evs))
				} else {
					c.Fail("state-copies-report-different-coverage",
						fmt.Sprintf("state %d (a copy) reports %v, the best state per line over all logged runs is %v", s, got, want), js(evs))
				}
			}
			// per-test breakdown of the root: one entry per logged test. Regression scenario: a NewBuildState that does
			// not create the Tests map (as it once did not) gives every state copied before its source's first Aggregate
			// a private Tests map; what the root would then hold is predicted here by following the references, so that
			// exactly this defect gets its own class.
			ref, next := []int{0}, 1 // 0 = nil
			at := map[int][]int{}    // reference -> runs recorded in that map
			for _, e := range evs {
				if e.Copy {
					ref = append(ref, ref[e.St])
					continue
				}
				if ref[e.St] == 0 {
					ref[e.St] = next
					next++
				}
				at[ref[e.St]] = append(at[ref[e.St]], e.Run)
			}
			got := testsOf(&states[0].Coverage)
			all, private := map[string]map[string][]int{}, map[string]map[string][]int{}
			for j := range runs {
				all[labels[j]] = jsRun(runs[j])
			}
			for _, j := range at[ref[0]] {
				private[labels[j]] = jsRun(runs[j])
			}
			if !reflect.DeepEqual(got, all) {
				if reflect.DeepEqual(got, private) {
					c.Fail("per-test-breakdown-private-to-state-copy",
						fmt.Sprintf("the root state's per-test coverage has %d of the %d logged tests: a state copied before its first Aggregate has its own Tests map", len(got), len(all)), js(evs))
				} else {
					c.Fail("per-test-coverage-wrong", fmt.Sprintf("the root state's per-test coverage is %v, the tests reported %v", got, all), js(evs))
				}
			}
		}

		states := play(evs, runs, labels)
		oracle(evs, states)
		obs := []string{}
		jsObs := []any{}
		for _, st := range states {
			obs = append(obs, coqCovObj(testsByName(&st.Coverage), st.Coverage.Files))
			jsObs = append(jsObs, map[string]any{"tests": testsOf(&st.Coverage), "files": normalise(st.Coverage.Files)})
		}
		coqEvs := []string{}
		for _, e := range evs {
			if e.Copy {
				coqEvs = append(coqEvs, lib.App("ECopy", lib.Nat(e.St)))
			} else {
				coqEvs = append(coqEvs, lib.App("ELog", lib.Nat(e.St),
					coqCovObj(map[string]map[string]lines{labels[e.Run]: runs[e.Run]}, runs[e.Run])))
			}
		}
		in := js(evs)
		in["observed"] = jsObs
		c.Case(lib.App("CStates", lib.List(coqEvs), lib.List(obs)), in, fmt.Sprint("s", jsRuns(runs), evs), onCopy && nruns >= 2)
		retire(states[0])

		// the same runs on the same states in other completion orders (all copies made first): all orders up to 3
		// runs, sampled ones for 4
		var copies, logs []event
		for _, e := range evs {
			if e.Copy {
				copies = append(copies, e)
			} else {
				logs = append(logs, e)
			}
		}
		orders := [][]int{}
		if nruns <= 3 {
			lib.Perms(nruns, func(p []int) { orders = append(orders, append([]int{}, p...)) })
		} else {
			for k := 0; k < c.Scale(6, 12); k++ {
				p := make([]int, nruns)
				for x := range p {
					p[x] = x
				}
				lib.Shuffle(r, p)
				orders = append(orders, p)
			}
		}
		for _, o := range orders {
			h := append([]event{}, copies...)
			for _, idx := range o {
				h = append(h, logs[idx])
			}
			replayed := play(h, runs, labels)
			oracle(h, replayed)
			retire(replayed[0])
			c.Eval(js(h), fmt.Sprint("s", jsRuns(runs), h), onCopy && nruns >= 2)
		}
	}
}

// ---- stream 4: many runs finishing at once on the root state and its copies ----

type stressSpec struct {
	States, Runs, Files, Lines, Rounds int
}

// run r covers exactly the lines i < Lines with i % Runs == r and reports the rest Uncovered; vectors differ in
// length by up to two trailing Uncovered lines. The merge of all runs is Lines x Covered, then 2 x Uncovered.
func stressCov(sp stressSpec, r int) *core.TestCoverage {
	files := run{}
	for f := 0; f < sp.Files; f++ {
		l := make(lines, sp.Lines+(r+f)%3)
		for i := range l {
			l[i] = core.Uncovered
			if i < sp.Lines && i%sp.Runs == r {
				l[i] = core.Covered
			}
		}
		files[fmt.Sprintf("src/lib/file_%03d.go", f)] = l
	}
	return covObject(fmt.Sprintf("//src/lib:test_%d", r), files)
}

// stressChild runs in a process of its own: an unserialised aggregation ends in the runtime's unrecoverable
// "concurrent map writes" as often as in lost lines. Prints one JSON line.
func stressChild(arg string) {
	var sp stressSpec
	if err := json.Unmarshal([]byte(arg), &sp); err != nil {
		panic(err)
	}
	for round := 0; round < sp.Rounds; round++ {
		root := newRoot()
		states := []*core.BuildState{root}
		for i := 1; i < sp.States; i++ {
			if i%2 == 1 {
				states = append(states, states[(i-1)/2].ForSubrepo(fmt.Sprintf("c27sub%d", i), false))
			} else {
				states = append(states, states[(i-1)/2].ForArch(cli.NewArch(fmt.Sprintf("c27os%d", i), "amd64")))
			}
		}
		var wg sync.WaitGroup
		start := make(chan struct{})
		for r := 0; r < sp.Runs; r++ {
			wg.Add(1)
			go func(r int) {
				defer wg.Done()
				state, target, cov := states[r%len(states)], testTarget(fmt.Sprintf("//src/lib:test_%d", r)), stressCov(sp, r)
				<-start
				state.LogTestResult(target, 1, core.TargetTested, &core.TestSuite{}, cov, nil, "1 test passed.")
			}(r)
		}
		close(start)
		wg.Wait()
		retire(root)
		if len(root.Coverage.Files) != sp.Files {
			fmt.Printf(`{"round": %d, "what": "the overall report has %d files, the runs reported %d"}`+"\n", round, len(root.Coverage.Files), sp.Files)
			return
		}
		for f, l := range root.Coverage.Files {
			ok := len(l) == sp.Lines+2
			for i := 0; ok && i < len(l); i++ {
				ok = l[i] == core.Covered && i < sp.Lines || l[i] == core.Uncovered && i >= sp.Lines
			}
			if !ok {
				fmt.Printf(`{"round": %d, "what": "%s is reported as %v; every one of its first %d lines was Covered by exactly one run"}`+"\n", round, f, toInts(l), sp.Lines)
				return
			}
		}
	}
	fmt.Println(`{"round": -1, "what": "ok"}`)
}

func stressStream(c *lib.Ctx) {
	specs := []stressSpec{
		{States: 4, Runs: 48, Files: 64, Lines: 96, Rounds: c.Scale(20, 120)},
		{States: 2, Runs: 16, Files: 24, Lines: 32, Rounds: c.Scale(40, 300)},
		{States: 7, Runs: 32, Files: 8, Lines: 64, Rounds: c.Scale(40, 300)},
	}
	for _, sp := range specs {
		arg, _ := json.Marshal(sp)
		in := map[string]any{"stream": "concurrent-completion", "spec": sp,
			"reading": "per round: a root state and States-1 copies (ForSubrepo / ForArch of earlier ones); Runs goroutines each log one run on state r mod States at the same moment; run r covers the lines i with i mod Runs = r of every file"}
		cmd := exec.Command(os.Args[0])
		cmd.Env = append(os.Environ(), "C27_STRESS_CHILD="+string(arg))
		var stdout, stderr bytes.Buffer
		cmd.Stdout, cmd.Stderr = &stdout, &stderr
		t0 := time.Now()
		err := cmd.Run()
		c.Oracle()
		c.Eval(in, "stress"+string(arg), true)
		c.Hist("stress_rounds", fmt.Sprintf("%d states x %d runs", sp.States, sp.Runs))
		var res struct {
			Round int
			What  string
		}
		switch {
		case err != nil:
			first := strings.SplitN(strings.TrimSpace(stderr.String()), "\n", 2)[0]
			c.Fail("concurrent-aggregation-on-state-copies-not-serialised",
				fmt.Sprintf("runs finishing at the same time on a state and its copies crashed the process (%v): %s", err, first), in)
		case json.Unmarshal(bytes.TrimSpace(stdout.Bytes()), &res) != nil:
			panic("harness: stress child printed " + stdout.String())
		case res.Round >= 0:
			in["round"] = res.Round
			c.Fail("concurrent-aggregation-on-state-copies-not-serialised",
				fmt.Sprintf("runs finishing at the same time on a state and its copies lose lines (round %d): %s", res.Round, res.What), in)
		}
		c.Note("concurrent completion: %d rounds of %d runs over %d states x %d files in %v", sp.Rounds, sp.Runs, sp.States, sp.Files, time.Since(t0).Round(time.Millisecond))
	}
}
