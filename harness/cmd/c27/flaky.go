// C27, stream 5: flaky targets under `plz cover`, end to end through test.Test (in process): the attempts of
// one target are real shell commands that write different coverage files; the coverage the build reports for
// the target must be the line-wise best over ALL attempts that ran (doFlakeRun + LogTestResult + Aggregate).
package main

import (
	"fmt"
	"os"
	"path/filepath"
	"reflect"
	"strings"
	"time"

	"verifharness/lib"

	"github.com/thought-machine/please/src/core"
	"github.com/thought-machine/please/src/test"
)

type attempt struct {
	Pass  bool             `json:"pass"`
	Files map[string][]int `json:"files"`
}

// goCoverProfile renders line vectors in `go tool cover` format (one block per executable line). Only
// NotExecutable (no block), Uncovered (count 0) and Covered exist in that format; every vector ends in an
// executable line, so the parser recovers its length.
func goCoverProfile(files run) string {
	b := strings.Builder{}
	b.WriteString("mode: set\n")
	for _, f := range lib.SortedKeys(files) {
		for i, l := range files[f] {
			switch l {
			case core.Uncovered:
				fmt.Fprintf(&b, "%s:%d.1,%d.9 1 0\n", f, i+1, i+1)
			case core.Covered:
				fmt.Fprintf(&b, "%s:%d.1,%d.9 1 1\n", f, i+1, i+1)
			}
		}
	}
	return b.String()
}

const passXML = `<testsuite name="s" tests="1"><testcase name="t" classname="c" time="0.01"/></testsuite>`
const failXML = `<testsuite name="s" tests="1" failures="1"><testcase name="t" classname="c" time="0.01"><failure type="flake" message="this attempt fails">boom</failure></testcase></testsuite>`

func flakyStream(c *lib.Ctx) {
	root, err := os.MkdirTemp("", "c27-flaky")
	if err != nil {
		panic(err)
	}
	root, _ = filepath.EvalSymlinks(root)
	defer os.RemoveAll(root)
	cwd, _ := os.Getwd()
	defer os.Chdir(cwd)
	if err := os.Chdir(root); err != nil {
		panic(err)
	}
	oldRoot := core.RepoRoot
	core.RepoRoot = root
	defer func() { core.RepoRoot = oldRoot }()

	names := []string{"src/a.go", "lib.py"}
	states3 := []core.LineCoverage{core.NotExecutable, core.Uncovered, core.Covered}
	n := c.Scale(30, 300)
	t0 := time.Now()
	for i := 0; i < n; i++ {
		r := c.Rng.Fork()
		flakiness := r.Range(1, 4)
		inSubrepo := r.Chance(1, 3)
		atts := make([]run, flakiness)
		pass := make([]bool, flakiness)
		for a := range atts {
			pass[a] = r.Chance(1, 3) || (a == flakiness-1 && r.Chance(1, 2))
			atts[a] = run{}
			for _, idx := range pickSubset(r, len(names), r.Range(1, 2)) {
				l := make(lines, r.Range(1, 5))
				for k := range l {
					l[k] = lib.Pick(r, states3)
				}
				l[len(l)-1] = states3[1+r.Intn(2)]
				atts[a][names[idx]] = l
			}
		}
		// the attempts that run: up to the first one that passes
		ran := flakiness
		for a := range atts {
			if pass[a] {
				ran = a + 1
				break
			}
		}

		// the target: attempt k (counted in a file) writes att_k.cov / att_k.res and exits with att_k.rc
		dir := filepath.Join(root, fmt.Sprintf("case%d", i))
		os.MkdirAll(dir, 0o755)
		for a := range atts {
			res, rc := failXML, "1"
			if pass[a] {
				res, rc = passXML, "0"
			}
			os.WriteFile(filepath.Join(dir, fmt.Sprintf("att_%d.cov", a)), []byte(goCoverProfile(atts[a])), 0o644)
			os.WriteFile(filepath.Join(dir, fmt.Sprintf("att_%d.res", a)), []byte(res), 0o644)
			os.WriteFile(filepath.Join(dir, fmt.Sprintf("att_%d.rc", a)), []byte(rc+"\n"), 0o644)
		}
		os.WriteFile(filepath.Join(dir, "counter"), []byte("0\n"), 0o644)
		state := newRoot()
		state.NeedCoverage, state.NeedTests, state.NumTestRuns = true, true, 1
		label := fmt.Sprintf("//case%d:flaky_test", i)
		if inSubrepo {
			label = fmt.Sprintf("///c27sub//case%d:flaky_test", i)
		}
		target := testTarget(label)
		if inSubrepo {
			// as in a real build: the subrepo's state is made (at parse time) before any test has finished
			target.Subrepo = &core.Subrepo{Name: "c27sub", Root: "c27sub", State: state.ForSubrepo("c27sub", false)}
		}
		target.Test.Flakiness = uint8(flakiness)
		target.Test.Timeout = 20 * time.Second
		// (bash builtins only: no process but the shell itself is spawned per attempt)
		target.Test.Command = fmt.Sprintf(`read n < %[1]s/counter; echo $((n+1)) > %[1]s/counter; echo "$(<%[1]s/att_$n.cov)" > "$COVERAGE_FILE"; echo "$(<%[1]s/att_$n.res)" > "$RESULTS_FILE"; read rc < %[1]s/att_$n.rc; exit $rc`, dir)
		target.SetState(core.Built)
		state.Graph.AddTarget(target)

		test.Test(state, target, false, 1)

		counter, _ := os.ReadFile(filepath.Join(dir, "counter"))
		got := normalise(state.Coverage.Files)
		jsAtts := []attempt{}
		for a := range atts {
			jsAtts = append(jsAtts, attempt{Pass: pass[a], Files: jsRun(atts[a])})
		}
		in := map[string]any{"stream": "flaky-target", "label": label, "flaky": flakiness, "in_subrepo": inSubrepo, "attempts": jsAtts,
			"attempts_run": strings.TrimSpace(string(counter)), "files": got, "tests": testsOf(&state.Coverage)}
		c.Oracle()
		if strings.TrimSpace(string(counter)) != fmt.Sprint(ran) {
			c.Fail("flaky-attempts-run-unexpected", fmt.Sprintf("%s attempts ran, expected %d (flaky = %d, first passing attempt decides)", counter, ran, flakiness), in)
		}
		if want := bestOf(atts[:ran]); !reflect.DeepEqual(got, want) {
			c.Fail("flaky-attempts-coverage-not-merged",
				fmt.Sprintf("after %d attempts of %s the build reports %v, the best state per line over the attempts is %v", ran, label, got, want), in)
		}
		if _, present := testsOf(&state.Coverage)[label]; !present {
			if inSubrepo {
				c.Fail("per-test-breakdown-private-to-state-copy", "the root state's per-test coverage lacks the test of the subrepo target", in)
			} else {
				c.Fail("per-test-coverage-wrong", "the root state's per-test coverage lacks the test", in)
			}
		}
		c.HistN("flaky", flakiness)
		c.HistN("attempts_run", ran)
		coqAtts := []string{}
		for a := range atts {
			coqAtts = append(coqAtts, lib.Pair(lib.Bool(pass[a]), coqCovObj(map[string]map[string]lines{label: atts[a]}, atts[a])))
		}
		differ := false
		for a := 1; a < ran; a++ {
			differ = differ || !reflect.DeepEqual(jsRun(atts[a]), jsRun(atts[0]))
		}
		c.Case(lib.App("CFlake", lib.Bool(inSubrepo), lib.Nat(flakiness), lib.List(coqAtts),
			coqCovObj(testsByName(&state.Coverage), state.Coverage.Files)), in, fmt.Sprint("f", jsAtts, inSubrepo), ran >= 2 && differ)
		os.RemoveAll(dir)
		retire(state)
	}
	c.Note("flaky targets: %d targets through test.Test in %v", n, time.Since(t0).Round(time.Millisecond))
}
