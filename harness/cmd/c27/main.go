// C27: coverage aggregation. Implementation side of the correspondence + property oracle.
package main

import (
	"fmt"
	"os"
	"reflect"
	"sort"

	"verifharness/lib"

	"github.com/thought-machine/please/src/core"
)

type lines = []core.LineCoverage

func toInts(l lines) []int {
	out := make([]int, len(l))
	for i, x := range l {
		out[i] = int(x)
	}
	return out
}

func coqLines(l lines) string { return lib.NList(l) }

type run = map[string]lines

func coqRun(r run, order []string) string {
	items := []string{}
	for _, k := range order {
		items = append(items, lib.Pair(lib.Str(k), coqLines(r[k])))
	}
	return lib.List(items)
}

func allVectors(maxLen int) []lines {
	out := []lines{{}}
	prev := []lines{{}}
	for l := 1; l <= maxLen; l++ {
		next := []lines{}
		for _, p := range prev {
			for s := 0; s < 4; s++ {
				v := append(append(lines{}, p...), core.LineCoverage(s))
				next = append(next, v)
			}
		}
		out = append(out, next...)
		prev = next
	}
	return out
}

func maxLines(a, b lines) lines {
	n := max(len(a), len(b))
	out := make(lines, n)
	for i := range out {
		var x, y core.LineCoverage
		if i < len(a) {
			x = a[i]
		}
		if i < len(b) {
			y = b[i]
		}
		out[i] = max(x, y)
	}
	return out
}

func eq(a, b lines) bool {
	if len(a) != len(b) {
		return false
	}
	for i := range a {
		if a[i] != b[i] {
			return false
		}
	}
	return true
}

// aggregate feeds the runs to one accumulator in the given order, the way the test step does: every run is its
// own TestCoverage whose Tests[label] is the SAME map as its Files (as the result parsers build it).
// It returns the accumulator and the run objects (to check afterwards that they were not modified).
func aggregate(runs []run, labels []string, order []int) (*core.TestCoverage, []*core.TestCoverage) {
	acc := core.NewTestCoverage()
	objs := make([]*core.TestCoverage, len(runs))
	for i := range runs {
		cov := core.NewTestCoverage()
		for k, v := range runs[i] {
			cov.Files[k] = append(lines{}, v...)
		}
		if labels != nil {
			cov.Tests[core.ParseBuildLabel(labels[i], "")] = cov.Files
		}
		objs[i] = cov
	}
	for _, i := range order {
		acc.Aggregate(objs[i])
	}
	return acc, objs
}

func testsOf(acc *core.TestCoverage) map[string]map[string][]int {
	out := map[string]map[string][]int{}
	for l, m := range acc.Tests {
		out[l.String()] = normalise(m)
	}
	return out
}

func main() {
	if spec := os.Getenv("C27_STRESS_CHILD"); spec != "" {
		stressChild(spec) // stream 4 runs its goroutines in a process of its own (states.go)
		return
	}
	lib.Main("C27", func(c *lib.Ctx) {
		// Model/C27.v is the model of the merge itself (streams 1, 2: its cases are wrapped in CBase);
		// Model/C27_states.v adds state copies, concurrency and flaky retries (streams 3-5).
		c.Model("From PlzV Require Import Model.C27 Model.C27_states.", "C27_states.case", "C27_states.check")
		c.Rule("exhaustive pairs of coverage vectors up to a length bound over the 4 line states through core.MergeCoverageLines; " +
			"random multisets of labelled runs (1-5 runs, 1-3 files from a pool of 4 names, vectors of length 0-6, one third with a repeated test label; each run object's Tests[label] aliases its Files map as the result parsers build it) through TestCoverage.Aggregate in all (<=4 runs) or 24 sampled orders, checking order independence, best state, idempotence, the per-test breakdown and that merged-in objects are not modified. " +
			"histories on real BuildStates (1-4 runs, 0-3 copies made by ForSubrepo/ForArch of any earlier state, two thirds with all copies made before the first result, runs logged by LogTestResult on any state), replayed in all (<=3 runs) or 6-12 sampled completion orders: every state must report the best state per line over all runs; " +
			"three shapes of many runs finishing at the same moment on a state and its copies (own process; lost lines or a runtime abort fail); " +
			"flaky targets (flaky 1-4, attempts = shell commands writing different go-cover profiles and failing/passing, one third in a subrepo) through test.Test in process: the reported coverage must be the best over all attempts that ran. " +
			"distinct = distinct inputs; non-trivial = both vectors non-empty and different (pairs), >=2 runs sharing a file (multisets), >=2 runs with one logged on a copy (histories), >=2 differing attempts run (flaky)")

		// --- 1. pairs, exhaustive: correspondence up to lenCorr, oracle laws up to lenOracle
		lenCorr, lenOracle := c.Scale(2, 3), c.Scale(3, 4)
		vs := allVectors(lenOracle)
		for _, a := range vs {
			for _, b := range vs {
				ab := core.MergeCoverageLines(a, b)
				c.Oracle()
				want := maxLines(a, b)
				in := map[string]any{"a": toInts(a), "b": toInts(b), "out": toInts(ab)}
				if !eq(ab, want) {
					c.Fail("merge-not-best", fmt.Sprintf("merge(%v,%v)=%v, best state per line is %v", a, b, ab, want), in)
				}
				if ba := core.MergeCoverageLines(b, a); !eq(ab, ba) {
					c.Fail("merge-not-commutative", fmt.Sprintf("merge(%v,%v)=%v but merge(b,a)=%v", a, b, ab, ba), in)
				}
				if aab := core.MergeCoverageLines(ab, b); !eq(aab, ab) {
					c.Fail("merge-not-idempotent", fmt.Sprintf("merging %v twice into %v changes the result: %v then %v", b, a, ab, aab), in)
				}
				if len(a) <= lenCorr && len(b) <= lenCorr {
					c.Case(lib.App("CBase", lib.App("CMerge", coqLines(a), coqLines(b), coqLines(ab))), in,
						fmt.Sprint("m", a, b), len(a) > 0 && len(b) > 0 && !eq(a, b))
				} else {
					c.Eval(in, fmt.Sprint("m", a, b), len(a) > 0 && len(b) > 0 && !eq(a, b))
				}
			}
		}
		c.Exhaustive(true)
		c.Note("pairs: exhaustive over vectors of length <= %d (oracle laws on the implementation) and <= %d (model correspondence)", lenOracle, lenCorr)

		// --- 2. multisets of labelled runs through Aggregate, in several orders
		names := []string{"src/a.go", "src/b.go", "c.py", "d/e.java"}
		labelPool := []string{"//p:t1", "//p:t2", "//q:t", "//q/r:u_test", "//s:v"}
		nsets := c.Scale(150, 4000)
		for i := 0; i < nsets; i++ {
			r := c.Rng.Fork()
			nruns := r.Range(1, 5)
			runs := make([]run, nruns)
			labels := make([]string, nruns)
			// one third of the multisets repeat a label (retries / several runs of one test)
			repeat := r.Chance(1, 3)
			perm := pickSubset(r, len(labelPool), len(labelPool))
			lib.Shuffle(r, perm)
			distinctLabels := true
			shared := false
			seen := map[string]int{}
			for j := range runs {
				if repeat && j > 0 && r.Chance(1, 2) {
					labels[j] = labels[r.Intn(j)]
					distinctLabels = false
				} else {
					labels[j] = labelPool[perm[j]]
				}
				runs[j] = run{}
				for _, idx := range pickSubset(r, len(names), r.Range(1, 3)) {
					l := make(lines, r.Range(0, 6))
					for k := range l {
						l[k] = core.LineCoverage(r.Intn(4))
					}
					runs[j][names[idx]] = l
					seen[names[idx]]++
					if seen[names[idx]] > 1 {
						shared = true
					}
				}
			}
			c.HistN("runs_per_multiset", nruns)
			c.Hist("labels", map[bool]string{true: "distinct", false: "repeated"}[distinctLabels])
			orders := [][]int{}
			if nruns <= 4 {
				lib.Perms(nruns, func(p []int) { orders = append(orders, append([]int{}, p...)) })
			} else {
				for k := 0; k < 24; k++ {
					p := make([]int, nruns)
					for x := range p {
						p[x] = x
					}
					lib.Shuffle(r, p)
					orders = append(orders, p)
				}
			}
			in := func(o1, o2 []int) map[string]any {
				return map[string]any{"runs": jsRuns(runs), "labels": labels, "order1": o1, "order2": o2}
			}
			firstAcc, _ := aggregate(runs, labels, orders[0])
			first := firstAcc.Files
			for _, o := range orders {
				c.Oracle()
				acc, objs := aggregate(runs, labels, o)
				if !reflect.DeepEqual(normalise(first), normalise(acc.Files)) {
					c.Fail("aggregate-order-dependent", fmt.Sprintf("order %v gives %v, order %v gives %v", orders[0], first, o, acc.Files), in(orders[0], o))
				}
				// best state per line, computed independently
				want := map[string]lines{}
				for _, ru := range runs {
					for f, l := range ru {
						want[f] = maxLines(want[f], l)
					}
				}
				if !reflect.DeepEqual(normalise(want), normalise(acc.Files)) {
					c.Fail("aggregate-not-best", fmt.Sprintf("order %v gives %v, the best state per line is %v", o, acc.Files, want), in(o, o))
				}
				// the merged-in run objects must not be modified
				for j, obj := range objs {
					if !reflect.DeepEqual(normalise(obj.Files), jsRun(runs[j])) {
						c.Fail("aggregate-modifies-its-input", fmt.Sprintf("after aggregating in order %v, run %d holds %v instead of %v", o, j, obj.Files, runs[j]), in(o, o))
					}
				}
				// with one run per test label the per-test breakdown holds exactly what each test reported
				if distinctLabels {
					ts := testsOf(acc)
					for j := range runs {
						if !reflect.DeepEqual(ts[labels[j]], jsRun(runs[j])) {
							c.Fail("per-test-coverage-wrong", fmt.Sprintf("after order %v the entry of test %s is %v, the test reported %v", o, labels[j], ts[labels[j]], runs[j]), in(o, o))
						}
					}
					if len(ts) != len(runs) {
						c.Fail("per-test-coverage-wrong", fmt.Sprintf("after order %v there are %d per-test entries for %d tests", o, len(ts), len(runs)), in(o, o))
					}
				}
			}
			// aggregating everything a second time changes nothing
			{
				c.Oracle()
				acc, objs := aggregate(runs, labels, orders[0])
				for _, idx := range orders[0] {
					acc.Aggregate(objs[idx])
				}
				if !reflect.DeepEqual(normalise(first), normalise(acc.Files)) {
					c.Fail("aggregate-not-idempotent", fmt.Sprintf("aggregating the same runs twice gives %v instead of %v", acc.Files, first), in(orders[0], orders[0]))
				}
			}
			// correspondence: the last sampled order; each run's files listed in sorted order (any order is allowed by the theorem)
			o := orders[len(orders)-1]
			acc, _ := aggregate(runs, labels, o)
			coqRuns := []string{}
			for _, idx := range o {
				coqRuns = append(coqRuns, lib.Pair(lib.Str(labels[idx]), coqRun(runs[idx], lib.SortedKeys(runs[idx]))))
			}
			ts := testsOf(acc)
			coqTests := []string{}
			for _, l := range lib.SortedKeys(ts) {
				m := run{}
				for f, v := range acc.Tests[core.ParseBuildLabel(l, "")] {
					m[f] = v
				}
				coqTests = append(coqTests, lib.Pair(lib.Str(l), coqRun(m, lib.SortedKeys(m))))
			}
			c.Case(lib.App("CBase", lib.App("CAggT", lib.List(coqRuns), coqRun(acc.Files, lib.SortedKeys(acc.Files)), lib.List(coqTests))),
				map[string]any{"runs": jsRuns(runs), "labels": labels, "order": o, "files": jsRun(acc.Files), "tests": ts},
				fmt.Sprint("a", jsRuns(runs), labels, o), shared && nruns >= 2)
		}

		statesStream(c) // --- 3. the same through real BuildStates and their copies, in several orders (states.go)
		stressStream(c) // --- 4. many runs finishing at once on a state and its copies (states.go)
		flakyStream(c)  // --- 5. flaky targets whose attempts cover different lines, through test.Test (flaky.go)
	})
}

func normalise(m map[string]lines) map[string][]int {
	out := map[string][]int{}
	for k, v := range m {
		out[k] = toInts(v)
	}
	return out
}

func jsRun(r run) map[string][]int { return normalise(r) }
func jsRuns(rs []run) []map[string][]int {
	out := []map[string][]int{}
	for _, r := range rs {
		out = append(out, jsRun(r))
	}
	return out
}

func pickSubset(r *lib.Rng, n, k int) []int {
	p := make([]int, n)
	for i := range p {
		p[i] = i
	}
	lib.Shuffle(r, p)
	p = p[:min(k, n)]
	sort.Ints(p)
	return p
}
