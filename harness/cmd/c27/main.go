// C27: coverage aggregation. Implementation side of the correspondence + property oracle.
package main

import (
	"fmt"
	"reflect"
	"sort"

	"verifharness/lib"

	"github.com/thought-machine/please/src/core"
)

type lines = []core.LineCoverage

func toInts(l lines) []int {
	out := make([]int, len(l))
	for i, x := range l {
		out[i] = int(x)
	}
	return out
}

func coqLines(l lines) string { return lib.NList(l) }

type run = map[string]lines

func coqRun(r run, order []string) string {
	items := []string{}
	for _, k := range order {
		items = append(items, lib.Pair(lib.Str(k), coqLines(r[k])))
	}
	return lib.List(items)
}

func allVectors(maxLen int) []lines {
	out := []lines{{}}
	prev := []lines{{}}
	for l := 1; l <= maxLen; l++ {
		next := []lines{}
		for _, p := range prev {
			for s := 0; s < 4; s++ {
				v := append(append(lines{}, p...), core.LineCoverage(s))
				next = append(next, v)
			}
		}
		out = append(out, next...)
		prev = next
	}
	return out
}

func maxLines(a, b lines) lines {
	n := max(len(a), len(b))
	out := make(lines, n)
	for i := range out {
		var x, y core.LineCoverage
		if i < len(a) {
			x = a[i]
		}
		if i < len(b) {
			y = b[i]
		}
		out[i] = max(x, y)
	}
	return out
}

func eq(a, b lines) bool {
	if len(a) != len(b) {
		return false
	}
	for i := range a {
		if a[i] != b[i] {
			return false
		}
	}
	return true
}

func aggregate(runs []run, order []int) map[string]lines {
	acc := core.NewTestCoverage()
	for _, i := range order {
		cov := core.NewTestCoverage()
		for k, v := range runs[i] {
			cov.Files[k] = append(lines{}, v...)
		}
		acc.Aggregate(cov)
	}
	return acc.Files
}

func main() {
	lib.Main("C27", func(c *lib.Ctx) {
		c.Model("From PlzV Require Import Model.C27.", "C27.case", "C27.check")
		c.Rule("exhaustive pairs of coverage vectors up to a length bound over the 4 line states through core.MergeCoverageLines; " +
			"random multisets of runs (1-5 runs, 1-3 files from a pool of 4 names, vectors of length 0-6) through TestCoverage.Aggregate in all (<=4 runs) or 24 sampled orders. " +
			"distinct = distinct inputs; non-trivial = both vectors non-empty and different (pairs) or >=2 runs sharing a file (multisets)")

		// --- 1. pairs, exhaustive: correspondence up to lenCorr, oracle laws up to lenOracle
		lenCorr, lenOracle := c.Scale(2, 3), c.Scale(3, 4)
		vs := allVectors(lenOracle)
		for _, a := range vs {
			for _, b := range vs {
				ab := core.MergeCoverageLines(a, b)
				c.Oracle()
				want := maxLines(a, b)
				in := map[string]any{"a": toInts(a), "b": toInts(b), "out": toInts(ab)}
				if !eq(ab, want) {
					c.Fail("merge-not-best", fmt.Sprintf("merge(%v,%v)=%v, best state per line is %v", a, b, ab, want), in)
				}
				if ba := core.MergeCoverageLines(b, a); !eq(ab, ba) {
					c.Fail("merge-not-commutative", fmt.Sprintf("merge(%v,%v)=%v but merge(b,a)=%v", a, b, ab, ba), in)
				}
				if aab := core.MergeCoverageLines(ab, b); !eq(aab, ab) {
					c.Fail("merge-not-idempotent", fmt.Sprintf("merging %v twice into %v changes the result: %v then %v", b, a, ab, aab), in)
				}
				if len(a) <= lenCorr && len(b) <= lenCorr {
					c.Case(lib.App("CMerge", coqLines(a), coqLines(b), coqLines(ab)), in,
						fmt.Sprint("m", a, b), len(a) > 0 && len(b) > 0 && !eq(a, b))
				} else {
					c.Eval(in, fmt.Sprint("m", a, b), len(a) > 0 && len(b) > 0 && !eq(a, b))
				}
			}
		}
		c.Exhaustive(true)
		c.Note("pairs: exhaustive over vectors of length <= %d (oracle laws on the implementation) and <= %d (model correspondence)", lenOracle, lenCorr)

		// --- 2. multisets of runs through Aggregate, in several orders
		names := []string{"src/a.go", "src/b.go", "c.py", "d/e.java"}
		nsets := c.Scale(150, 4000)
		for i := 0; i < nsets; i++ {
			r := c.Rng.Fork()
			nruns := r.Range(1, 5)
			runs := make([]run, nruns)
			shared := false
			seen := map[string]int{}
			for j := range runs {
				runs[j] = run{}
				for _, idx := range pickSubset(r, len(names), r.Range(1, 3)) {
					l := make(lines, r.Range(0, 6))
					for k := range l {
						l[k] = core.LineCoverage(r.Intn(4))
					}
					runs[j][names[idx]] = l
					seen[names[idx]]++
					if seen[names[idx]] > 1 {
						shared = true
					}
				}
			}
			c.HistN("runs_per_multiset", nruns)
			// orders
			orders := [][]int{}
			if nruns <= 4 {
				lib.Perms(nruns, func(p []int) { orders = append(orders, append([]int{}, p...)) })
			} else {
				for k := 0; k < 24; k++ {
					p := make([]int, nruns)
					for x := range p {
						p[x] = x
					}
					lib.Shuffle(r, p)
					orders = append(orders, p)
				}
			}
			first := aggregate(runs, orders[0])
			for _, o := range orders[1:] {
				c.Oracle()
				got := aggregate(runs, o)
				if !reflect.DeepEqual(normalise(first), normalise(got)) {
					c.Fail("aggregate-order-dependent", fmt.Sprintf("order %v gives %v, order %v gives %v", orders[0], first, o, got),
						map[string]any{"runs": jsRuns(runs), "order1": orders[0], "order2": o})
				}
			}
			// correspondence: one order (the last sampled), the model gets the runs in that order with each
			// run's files in sorted order (any order is allowed by the theorem)
			o := orders[len(orders)-1]
			got := aggregate(runs, o)
			coqRuns := []string{}
			for _, idx := range o {
				coqRuns = append(coqRuns, coqRun(runs[idx], lib.SortedKeys(runs[idx])))
			}
			c.Case(lib.App("CAgg", lib.List(coqRuns), coqRun(got, lib.SortedKeys(got))),
				map[string]any{"runs": jsRuns(runs), "order": o, "files": jsRun(got)}, fmt.Sprint("a", jsRuns(runs), o), shared && nruns >= 2)
		}
	})
}

func normalise(m map[string]lines) map[string][]int {
	out := map[string][]int{}
	for k, v := range m {
		out[k] = toInts(v)
	}
	return out
}

func jsRun(r run) map[string][]int { return normalise(r) }
func jsRuns(rs []run) []map[string][]int {
	out := []map[string][]int{}
	for _, r := range rs {
		out = append(out, jsRun(r))
	}
	return out
}

func pickSubset(r *lib.Rng, n, k int) []int {
	p := make([]int, n)
	for i := range p {
		p[i] = i
	}
	lib.Shuffle(r, p)
	p = p[:min(k, n)]
	sort.Ints(p)
	return p
}
