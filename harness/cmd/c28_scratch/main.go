package main

import (
	"fmt"
	"os"
	"path/filepath"

	pb "github.com/bazelbuild/remote-apis/build/bazel/remote/execution/v2"

	"github.com/thought-machine/please/src/core"
	"github.com/thought-machine/please/src/remote"
)

func must(err error) {
	if err != nil {
		panic(err)
	}
}

func main() {
	dir, _ := os.MkdirTemp("", "c28x")
	defer os.RemoveAll(dir)
	must(os.Chdir(dir))
	must(os.MkdirAll("pkg/sub", 0o755))
	must(os.WriteFile("pkg/a.txt", []byte("A"), 0o644))
	must(os.WriteFile("pkg/sub/b.txt", []byte("B"), 0o755))
	must(os.Symlink("a.txt", "pkg/sub/l"))
	cfg := core.DefaultConfiguration()
	cfg.Build.HashFunction = "sha256"
	cfg.Remote.Platform = []string{"OSFamily=linux", "arch=x"}
	state := core.NewBuildState(cfg)
	state.LogTestRunning(core.NewBuildTarget(core.BuildLabel{PackageName: "verif", Name: "park"}), 1, core.TargetTesting, "")

	run := func(srcOrder []int, outDirs []string, labels []string, depOrder []int) {
		state.Graph = core.NewGraph()
		v := remote.VerifNewClient(state, "/home/u")
		d1 := core.NewBuildTarget(core.BuildLabel{PackageName: "dep", Name: "d1"})
		d1.AddOutput("x/o1")
		d2 := core.NewBuildTarget(core.BuildLabel{PackageName: "dep", Name: "d2"})
		d2.AddOutput("o2")
		state.Graph.AddTarget(d1)
		state.Graph.AddTarget(d2)
		v.SetOutputs(d1.Label, &pb.Directory{Files: []*pb.FileNode{{Name: "x/o1", Digest: &pb.Digest{Hash: "h1", SizeBytes: 1}}}})
		v.SetOutputs(d2.Label, &pb.Directory{Files: []*pb.FileNode{{Name: "o2", Digest: &pb.Digest{Hash: "h2", SizeBytes: 2}}},
			Directories: []*pb.DirectoryNode{{Name: "od", Digest: &pb.Digest{Hash: "hd", SizeBytes: 80}}}})
		t := core.NewBuildTarget(core.BuildLabel{PackageName: "pkg", Name: "t"})
		srcs := []core.BuildInput{core.FileLabel{File: "a.txt", Package: "pkg"}, core.FileLabel{File: "sub", Package: "pkg"}, d1.Label}
		for _, i := range srcOrder {
			t.AddSource(srcs[i])
		}
		deps := []core.BuildLabel{d1.Label, d2.Label}
		for _, i := range depOrder {
			t.AddDependency(deps[i])
		}
		t.AddOutput("zz")
		t.AddOutput("out1")
		for _, o := range outDirs {
			t.AddOutputDirectory(o)
		}
		t.Labels = labels
		t.Command = "echo hi"
		t.Env = map[string]string{"B": "2", "A": "x y"}
		state.Graph.AddTarget(t)
		must(t.ResolveDependencies(state.Graph))
		root, sent, err := v.UploadInputs(t, false)
		must(err)
		fmt.Println("root:", root)
		fmt.Println("sent:", len(sent))
		cmd, dg, err := v.BuildAction(t, false, false, 0)
		must(err)
		fmt.Println("outs:", cmd.OutputPaths, "plat:", cmd.Platform, "args:", cmd.Arguments[len(cmd.Arguments)-1])
		for _, e := range cmd.EnvironmentVariables {
			fmt.Printf("  %s=%s\n", e.Name, e.Value)
		}
		fmt.Println("action:", dg.Hash[:12], dg.SizeBytes)
		t.Test = new(core.TestFields); t.Test.Command = "echo test"
		t.AddTestOutput("x.out")
		t.AddTestOutput("a.out")
		tc, err := v.BuildCommand(t, root, true, false, false, 1)
		must(err)
		fmt.Println("test outs:", tc.OutputPaths, tc.Platform)
	}
	run([]int{0, 1, 2}, []string{"b_dir", "a_dir"}, []string{"remote-platform-property:size=big", "remote-platform-property:arch=y"}, []int{0, 1})
	run([]int{2, 1, 0}, []string{"a_dir", "b_dir"}, []string{"remote-platform-property:arch=y", "remote-platform-property:size=big"}, []int{1, 0})
	_ = filepath.Join
}
