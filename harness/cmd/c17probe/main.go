package main

import (
	"fmt"
	"os"

	"verifharness/aspgen"

	gologging "gopkg.in/op/go-logging.v1"
)

func main() {
	gologging.SetLevel(gologging.CRITICAL, "plz")
	defs := os.Args[1]
	a := os.Args[2]
	b := os.Args[3]
	files := []aspgen.File{{Name: "//defs:d", Src: defs, Defs: true}, {Name: "a", Src: a}, {Name: "b", Src: b}}
	for _, r := range aspgen.Eval(files, false) {
		fmt.Printf("%s err=%q\n after=%v\n final=%v\n", r.Name, r.Err, r.After, r.Final)
	}
}
