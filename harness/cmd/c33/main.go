// C33: visibility and test_only restrictions. Implementation side of the correspondence
// (core.BuildTarget.CheckDependencyVisibility, BuildLabel.CanSee / Includes / Parent on real
// BuildTarget / BuildState values) and a property oracle written from the documented rules
// (structural: package paths as segment lists, packages identified by (subrepo, name)); the
// oracle shares no code with the model or with the implementation.
package main

import (
	"crypto/sha1"
	"encoding/hex"
	"encoding/json"
	"fmt"
	"sort"
	"strings"

	"verifharness/lib"

	"github.com/thought-machine/please/src/cli"
	"github.com/thought-machine/please/src/core"
)

// ------------------------------------------------------------------------------------------
// plain-data input

type L struct {
	Sub  string `json:"sub"`
	Pkg  string `json:"pkg"`
	Name string `json:"name"`
}

type T struct {
	Label    L    `json:"label"`
	Vis      []L  `json:"vis"`
	Test     bool `json:"test"`
	TestOnly bool `json:"test_only"`
	Deps     []L  `json:"deps"`
}

// Input is one generated input: kind "check" (graph + target) or "cansee" (label + dep).
type Input struct {
	Kind   string   `json:"kind"`
	Exp    []string `json:"experimental_dirs"`
	Graph  []T      `json:"graph,omitempty"`
	Target *T       `json:"target,omitempty"`
	Lab    *L       `json:"label,omitempty"`
	Dep    *T       `json:"dep,omitempty"`
	Out    string   `json:"observed,omitempty"`
}

func (l L) core() core.BuildLabel {
	return core.BuildLabel{PackageName: l.Pkg, Name: l.Name, Subrepo: l.Sub}
}
func (l L) String() string { return l.core().String() }

func coqL(l L) string { return lib.App("mkLabel", lib.Str(l.Sub), lib.Str(l.Pkg), lib.Str(l.Name)) }
func coqLs(ls []L) string {
	out := make([]string, len(ls))
	for i, l := range ls {
		out[i] = coqL(l)
	}
	return lib.List(out)
}
func coqT(t T) string {
	return lib.App("mkTarget", coqL(t.Label), coqLs(t.Vis), lib.Bool(t.Test), lib.Bool(t.TestOnly), coqLs(t.Deps))
}
func coqTs(ts []T) string {
	out := make([]string, len(ts))
	for i, t := range ts {
		out[i] = coqT(t)
	}
	return lib.List(out)
}
func coqExp(exp []string) string { return lib.StrList(exp) }

// ------------------------------------------------------------------------------------------
// the real implementation

var states = map[string]*core.BuildState{}

func stateFor(exp []string) *core.BuildState {
	key := strings.Join(exp, "\x00") + fmt.Sprint(len(exp))
	st, ok := states[key]
	if !ok {
		config := core.DefaultConfiguration()
		config.Parse.ExperimentalDir = append([]string{}, exp...)
		st = core.NewBuildState(config)
		states[key] = st
	}
	st.Graph = core.NewGraph()
	return st
}

func mkTarget(t T) *core.BuildTarget {
	bt := core.NewBuildTarget(t.Label.core())
	for _, v := range t.Vis {
		bt.Visibility = append(bt.Visibility, v.core())
	}
	bt.TestOnly = t.TestOnly
	if t.Test {
		bt.Test = new(core.TestFields)
	}
	for _, d := range t.Deps {
		bt.AddDependency(d.core())
	}
	return bt
}

type outcome struct {
	kind string // ok | invisible | testonly | other
	dep  int    // index into target.Deps of the dependency the error names
	msg  string
}

// runCheck builds a real graph and runs the real CheckDependencyVisibility.
func runCheck(exp []string, g []T, t T) outcome {
	st := stateFor(exp)
	for _, x := range g {
		st.Graph.AddTarget(mkTarget(x))
	}
	bt := mkTarget(t)
	err := bt.CheckDependencyVisibility(st)
	if err == nil {
		return outcome{kind: "ok", dep: -1}
	}
	msg := err.Error()
	for i, d := range t.Deps {
		dl := d.core() // the dependency's own label equals the declared label (graph is keyed by it)
		if msg == fmt.Sprintf("Target %s isn't visible to %s", dl, bt.Label) {
			return outcome{kind: "invisible", dep: i, msg: msg}
		}
		if msg == fmt.Sprintf("Target %s can't depend on %s, it's marked test_only", bt.Label, dl) {
			return outcome{kind: "testonly", dep: i, msg: msg}
		}
	}
	return outcome{kind: "other", dep: -1, msg: msg}
}

func coqResult(o outcome, t T) string {
	switch o.kind {
	case "ok":
		return "ROk"
	case "invisible":
		return lib.App("RInvisible", coqL(t.Deps[o.dep]))
	case "testonly":
		return lib.App("RTestOnly", coqL(t.Deps[o.dep]))
	}
	// an error the model does not know: make the case fail on the model side
	return lib.App("RDie", coqL(L{Name: "unrecognised error: " + o.msg}))
}

func runCanSee(exp []string, lab L, dep T) bool {
	st := stateFor(exp)
	return lab.core().CanSee(st, mkTarget(dep))
}

// ------------------------------------------------------------------------------------------
// reference implementation of the documented rules (docs/basics.html "build labels",
// config.html parse.experimentaldir, misc_rules test_only, tag() docstring)

func segs(p string) []string {
	if p == "" {
		return nil
	}
	return strings.Split(p, "/")
}

// inDir: the package directory pkg is dir or lies anywhere beneath it in the filesystem.
func inDir(dir, pkg string) bool {
	d, p := segs(dir), segs(pkg)
	if len(d) > len(p) {
		return false
	}
	for i := range d {
		if d[i] != p[i] {
			return false
		}
	}
	return true
}

func isPublic(v L) bool { return v.Pkg == "" && v.Name == "..." }

// selects: the visibility pattern v selects the target l. strictRepo=false ignores the repository
// (used only to classify a divergence, never for the verdict).
func selects(v, l L, strictRepo bool) bool {
	if isPublic(v) { // PUBLIC is //... : everything
		return true
	}
	if strictRepo && v.Sub != l.Sub {
		return false
	}
	switch v.Name {
	case "...":
		return inDir(v.Pkg, l.Pkg)
	case "all":
		return v.Pkg == l.Pkg
	}
	return v.Pkg == l.Pkg && v.Name == l.Name
}

// ownerName: a hidden sub-target _name#tag (tag("name","tag"), tag("_name#a","b") = _name#a_b)
// acts with the identity of `name`.
func ownerName(name string) string {
	if len(name) == 0 || name[0] != '_' {
		return name
	}
	base, _, found := strings.Cut(name, "#")
	if !found {
		return name
	}
	for len(base) > 0 && base[0] == '_' {
		base = base[1:]
	}
	return base
}

func experimentalRef(exp []string, l L) bool {
	if l.Sub != "" { // only the top-level repository has an experimental tree
		return false
	}
	for _, d := range exp {
		if inDir(d, l.Pkg) {
			return true
		}
	}
	return false
}

func visibleRef(exp []string, t L, d T) bool {
	if t.Sub == d.Label.Sub && t.Pkg == d.Label.Pkg {
		return true // same package
	}
	te, de := experimentalRef(exp, t), experimentalRef(exp, d.Label)
	if de && !te {
		return false // code outside the experimental dir can never depend on code inside it
	}
	if te {
		return true // code in the experimental dir can override normal visibility constraints
	}
	o := L{Sub: t.Sub, Pkg: t.Pkg, Name: ownerName(t.Name)}
	for _, v := range d.Vis {
		if selects(v, o, true) {
			return true
		}
	}
	return false
}

func testOnlyViolationRef(t T, d T) bool { return d.TestOnly && !t.Test && !t.TestOnly }

// classifyVisible names the shape that explains "implementation lets t see d, the documented
// rule does not"; anything that is not one of the two narrow shapes is reported under a generic
// class name, which is never a known finding.
func classifyVisible(exp []string, t L, d T) string {
	if t.Pkg == d.Label.Pkg && t.Sub != d.Label.Sub {
		return "same-package-name-other-subrepo"
	}
	te, de := experimentalRef(exp, t), experimentalRef(exp, d.Label)
	if !(de && !te) && !te {
		o := L{Sub: t.Sub, Pkg: t.Pkg, Name: ownerName(t.Name)}
		for _, v := range d.Vis {
			if v.Sub != o.Sub && selects(v, o, false) {
				return "visibility-pattern-matches-other-subrepo"
			}
		}
	}
	return "invisible-dependency-accepted"
}

func lookupT(g []T, l L) *T {
	for i := range g {
		if g[i].Label == l {
			return &g[i]
		}
	}
	return nil
}

// ------------------------------------------------------------------------------------------
// generators

var pkgPool = []string{"", "p", "pfoo", "pf", "p/q", "p/qq", "p/q/r", "experimental", "experimental/u", "experimentalx",
	"exp", "exp/a", "third_party/go", "a", "a/b", "ab"}
var namePool = []string{"x", "y", "lib", "lib_test", "xx", "_x#tag", "_x#tag_b", "_lib#a", "__x#t", "_x", "x#t", "_#t", "_y#", "_lib_test#bin"}
var expPool = [][]string{nil, nil, nil, {"experimental"}, {"experimental"}, {"experimental"}, {"exp"}, {"experimental", "p/q"}, {"p"}, {""}}

func genSub(r *lib.Rng) string {
	switch x := r.Intn(100); {
	case x < 78:
		return ""
	case x < 92:
		return "s"
	}
	return "t"
}

func genLabel(r *lib.Rng) L {
	return L{Sub: genSub(r), Pkg: lib.Pick(r, pkgPool), Name: lib.Pick(r, namePool)}
}

func cutHash(n string) string { b, _, _ := strings.Cut(n, "#"); return b }

func parentDir(p string) string {
	if i := strings.LastIndexByte(p, '/'); i >= 0 {
		return p[:i]
	}
	return ""
}

// genPattern: a visibility pattern aimed at (or just beside) the depending label `for`.
func genPattern(r *lib.Rng, f L) L {
	if r.Chance(12, 100) {
		return L{Name: "..."} // PUBLIC
	}
	var v L
	switch x := r.Intn(100); {
	case x < 38:
		v.Pkg = f.Pkg
	case x < 52:
		v.Pkg = parentDir(f.Pkg)
	case x < 62:
		if len(f.Pkg) > 1 {
			v.Pkg = f.Pkg[:len(f.Pkg)-1-r.Intn(min(2, len(f.Pkg)-1))] // textual prefix, not a directory
		} else {
			v.Pkg = f.Pkg
		}
	case x < 70:
		v.Pkg = f.Pkg + lib.Pick(r, []string{"x", "foo", "q"})
	case x < 76:
		v.Pkg = strings.TrimPrefix(f.Pkg+"/q", "/")
	default:
		v.Pkg = lib.Pick(r, pkgPool)
	}
	switch x := r.Intn(100); {
	case x < 32:
		v.Name = "..."
	case x < 55:
		v.Name = "all"
	case x < 65:
		v.Name = f.Name
	case x < 80:
		v.Name = strings.TrimLeft(cutHash(f.Name), "_")
	case x < 86:
		v.Name = strings.TrimPrefix(cutHash(f.Name), "_")
	case x < 90:
		v.Name = cutHash(f.Name)
	default:
		v.Name = lib.Pick(r, namePool)
	}
	if v.Name == "" {
		v.Name = "x"
	}
	switch x := r.Intn(100); {
	case x < 80:
		v.Sub = f.Sub
	case x < 88:
		v.Sub = ""
	default:
		v.Sub = lib.Pick(r, []string{"s", "t"})
	}
	return v
}

func genVis(r *lib.Rng, f L, others []L) []L {
	n := []int{0, 0, 1, 1, 1, 2, 2, 3}[r.Intn(8)]
	vis := []L{}
	for i := 0; i < n; i++ {
		g := f
		if len(others) > 0 && r.Chance(25, 100) {
			g = lib.Pick(r, others)
		}
		vis = append(vis, genPattern(r, g))
	}
	return vis
}

func genFlags(r *lib.Rng, t *T) {
	t.Test = r.Chance(22, 100)
	t.TestOnly = r.Chance(25, 100)
}

// genCheck: a graph of 3-6 targets with distinct labels; the first one is the target under check
// and declares 1-4 of the others as dependencies (declaration order shuffled).
func genCheck(r *lib.Rng) Input {
	exp := lib.Pick(r, expPool)
	n := r.Range(3, 6)
	labels := []L{}
	seen := map[L]bool{}
	// package tree of the case: a few packages, so that same-package and sibling cases are frequent
	local := []string{lib.Pick(r, pkgPool), lib.Pick(r, pkgPool), lib.Pick(r, pkgPool)}
	for len(labels) < n {
		l := genLabel(r)
		if r.Chance(60, 100) {
			l.Pkg = lib.Pick(r, local)
		}
		if !seen[l] {
			seen[l] = true
			labels = append(labels, l)
		}
	}
	t := T{Label: labels[0]}
	genFlags(r, &t)
	if r.Chance(40, 100) { // most interesting targets are plain libraries
		t.Test, t.TestOnly = false, false
	}
	g := []T{}
	for _, l := range labels[1:] {
		d := T{Label: l}
		genFlags(r, &d)
		d.Vis = genVis(r, t.Label, labels)
		g = append(g, d)
	}
	idx := make([]int, len(g))
	for i := range idx {
		idx[i] = i
	}
	lib.Shuffle(r, idx)
	nd := []int{1, 1, 1, 2, 2, 3, 4}[r.Intn(7)]
	for _, i := range idx[:min(nd, len(idx))] {
		t.Deps = append(t.Deps, g[i].Label)
	}
	t.Vis = genVis(r, lib.Pick(r, labels), labels)
	return Input{Kind: "check", Exp: exp, Graph: g, Target: &t}
}

func genPair(r *lib.Rng) Input {
	exp := lib.Pick(r, expPool)
	lab := genLabel(r)
	d := T{Label: genLabel(r)}
	if r.Chance(10, 100) {
		d.Label.Pkg = lab.Pkg
	}
	genFlags(r, &d)
	d.Vis = genVis(r, lab, nil)
	return Input{Kind: "cansee", Exp: exp, Lab: &lab, Dep: &d}
}

// ------------------------------------------------------------------------------------------

// jsKey identifies an input for the distinct count (a digest, so that large runs stay small in memory).
func jsKey(v any) string {
	b, _ := json.Marshal(v)
	h := sha1.Sum(b)
	return hex.EncodeToString(h[:10])
}

func evalCheck(c *lib.Ctx, in Input, asCase bool) {
	t := *in.Target
	o := runCheck(in.Exp, in.Graph, t)
	in.Out = o.kind
	if o.dep >= 0 {
		in.Out += " " + t.Deps[o.dep].String()
	}
	crossPkg := false
	for _, d := range t.Deps {
		if d.Pkg != t.Label.Pkg || d.Sub != t.Label.Sub {
			crossPkg = true
		}
	}
	if asCase {
		c.Case(old(lib.App("CCheck", coqExp(in.Exp), coqTs(in.Graph), coqT(t), coqResult(o, t))), in, jsKey(in), crossPkg)
	} else {
		c.Eval(in, jsKey(in), crossPkg)
	}
	c.Hist("check_outcome", o.kind)
	c.HistN("deps", len(t.Deps))

	// ---- property oracle: the build step fails exactly when the documented rules say so
	c.Oracle()
	if o.kind == "other" {
		c.Fail("unrecognised-error", "CheckDependencyVisibility returned an error that is neither of the two documented ones: "+o.msg, in)
		return
	}
	refFail := false
	classes := map[string]string{}
	for _, dl := range t.Deps {
		d := lookupT(in.Graph, dl)
		if !visibleRef(in.Exp, t.Label, *d) {
			refFail = true
			if o.kind == "ok" {
				cl := classifyVisible(in.Exp, t.Label, *d)
				classes[cl] = fmt.Sprintf("%s declares %s, which is not visible to it by the documented rules, and the check passes", t.Label, dl)
			}
		} else if testOnlyViolationRef(t, *d) {
			refFail = true
			if o.kind == "ok" {
				cl := "test-only-dependency-accepted"
				if experimentalRef(in.Exp, t.Label) {
					cl = "test-only-allowed-from-experimental"
				}
				classes[cl] = fmt.Sprintf("%s (not a test, not test_only) declares the test_only target %s and the check passes", t.Label, dl)
			}
		}
	}
	implFail := o.kind != "ok"
	if implFail && !refFail {
		c.Fail("legal-build-rejected", fmt.Sprintf("every declared dependency of %s is visible and allowed by the documented rules, the check fails with: %s", t.Label, o.msg), in)
	}
	if implFail && refFail {
		d := lookupT(in.Graph, t.Deps[o.dep])
		legal := visibleRef(in.Exp, t.Label, *d)
		if o.kind == "testonly" {
			legal = !testOnlyViolationRef(t, *d)
		}
		if legal {
			c.Fail("error-names-legal-dependency", "the error names a dependency that the documented rules allow: "+o.msg, in)
		}
	}
	for _, cl := range lib.SortedKeys(classes) {
		c.Fail(cl, classes[cl], in)
	}
}

func evalPair(c *lib.Ctx, in Input, asCase bool) {
	got := runCanSee(in.Exp, *in.Lab, *in.Dep)
	in.Out = fmt.Sprint(got)
	nontrivial := in.Lab.Pkg != in.Dep.Label.Pkg || in.Lab.Sub != in.Dep.Label.Sub
	if asCase {
		c.Case(old(lib.App("CCanSee", coqExp(in.Exp), coqL(*in.Lab), coqT(*in.Dep), lib.Bool(got))), in, jsKey(in), nontrivial)
	} else {
		c.Eval(in, jsKey(in), nontrivial)
	}
	c.Hist("cansee", fmt.Sprint(got))
	c.Oracle()
	want := visibleRef(in.Exp, *in.Lab, *in.Dep)
	if got && !want {
		c.Fail(classifyVisible(in.Exp, *in.Lab, *in.Dep), fmt.Sprintf("%s.CanSee(%s) is true, the documented rules say it is not visible", in.Lab, in.Dep.Label), in)
	} else if !got && want {
		c.Fail("visible-dependency-rejected", fmt.Sprintf("%s.CanSee(%s) is false, the documented rules say it is visible", in.Lab, in.Dep.Label), in)
	}
}

func old(c string) string { return lib.App("COld", c) }

func main() {
	cli.InitLogging(cli.MinVerbosity - 1) // CRITICAL only: CanSee logs every experimental refusal at ERROR level
	lib.Main("C33", func(c *lib.Ctx) {
		c.Model("From PlzV Require Import Model.C33 Model.C33_E2E.", "C33_E2E.case", "C33_E2E.check")
		c.Rule("seeded random graphs of 3-6 targets over a package pool with shared textual prefixes (p, pf, pfoo, p/q, p/qq, p/q/r, experimental, experimentalx, exp, ...), " +
			"hidden children (_x#tag, _x#tag_b, __x#t, _#t), subrepos (\"\", s, t), 0-3 visibility patterns aimed at or just beside the depending label " +
			"(same dir, parent dir, textual non-directory prefix, sibling with a suffix, PUBLIC; :all, /..., own name, owner name), test/test_only flags and " +
			"experimental-dir configurations (none, experimental, exp, p, p/q, the repo root); one target with 1-4 declared dependencies goes through the real " +
			"CheckDependencyVisibility; independent (label, dependency) pairs go through BuildLabel.CanSee; pattern/label pairs through Includes and names through Parent. " +
			"end to end (real plz build on generated repositories of 2-4 packages in a chain, 1-3 genrule/gentest targets each, subinclude of CONFIG-touching and plain build_defs files and " +
			"package(default_visibility/default_testonly) in random order at the top of a package, visibility lists of 0-4 entries with PUBLIC at a random position): histories of 2-4 builds of one label from a shared " +
			"plz-out between which ONLY the declaration of a dependency changes (visibility tightened / emptied / dropped / made public, test_only set / cleared, package() removed, restored), PUBLIC-position repositories, " +
			"shared-subinclude / package-default repositories. distinct = distinct inputs; non-trivial = target and some dependency lie in different packages (e2e: more than one step, a closure of more than two targets or an illegal edge)")

		var rin struct {
			Input
			Stream string  `json:"stream"`
			Steps  []EStep `json:"steps"`
		}
		if c.ReadReplay(&rin) {
			switch rin.Kind {
			case "e2e":
				replayE2E(c, E2EInput{Kind: "e2e", Stream: rin.Stream, Steps: rin.Steps})
			case "check":
				evalCheck(c, rin.Input, true)
			case "cansee":
				evalPair(c, rin.Input, true)
			}
			return
		}

		// --- 0. fixed corpus: the minimal witnesses of the known classes first (so that they are the
		// ones reported), then the examples of build_target_test.go and the shared-prefix boundary
		for _, in := range corpus() {
			evalCheck(c, in, true)
		}
		// --- 1. whole checks
		nCase, nEval := c.Scale(900, 6000), c.Scale(6000, 100000)
		for i := 0; i < nCase+nEval; i++ {
			evalCheck(c, genCheck(c.Rng.Fork()), i < nCase)
		}
		// --- 2. pairs through CanSee
		nCase, nEval = c.Scale(700, 5000), c.Scale(20000, 200000)
		for i := 0; i < nCase+nEval; i++ {
			evalPair(c, genPair(c.Rng.Fork()), i < nCase)
		}
		// --- 3. Includes on pattern/label pairs, Parent on names (correspondence + documented pattern semantics)
		names := append([]string{"all", "...", "_", "#", "_#", "__#", "_a_b#c#d", "a_#b", "___x#_y"}, namePool...)
		for _, n := range names {
			l := L{Sub: "s", Pkg: "p/q", Name: n}
			p := l.core().Parent()
			got := L{Sub: p.Subrepo, Pkg: p.PackageName, Name: p.Name}
			c.Case(old(lib.App("CParent", coqL(l), coqL(got))), map[string]any{"kind": "parent", "label": l, "observed": got}, "parent "+n, strings.Contains(n, "#"))
			c.Oracle()
			if got.Name != ownerName(n) || got.Pkg != l.Pkg || got.Sub != l.Sub {
				c.Fail("parent-differs-from-owner", fmt.Sprintf("Parent(%q) = %q, the owning target by the tag() convention is %q", n, got.Name, ownerName(n)),
					map[string]any{"kind": "parent", "label": l})
			}
		}
		nInc := c.Scale(300, 2000)
		for i := 0; i < nInc+c.Scale(20000, 100000); i++ {
			r := c.Rng.Fork()
			l := genLabel(r)
			v := genPattern(r, l)
			got := v.core().Includes(l.core())
			in := map[string]any{"kind": "includes", "pattern": v, "label": l, "observed": got}
			if i < nInc {
				c.Case(old(lib.App("CIncludes", coqL(v), coqL(l), lib.Bool(got))), in, "inc "+jsKey(in), v.Pkg != l.Pkg)
			} else {
				c.Eval(in, "inc "+jsKey(in), v.Pkg != l.Pkg)
			}
			c.Oracle()
			if want := selects(v, l, false); got != want {
				c.Fail("includes-differs-from-documented-pattern", fmt.Sprintf("%s.Includes(%s) = %v, the documented pattern semantics (repository aside) say %v", v, l, got, want), in)
			}
		}
		// --- 4. end to end through the real plz binary: histories, PUBLIC positions, per-package defaults
		runE2EStreams(c)
		keys := make([]string, 0, len(states))
		for k := range states {
			keys = append(keys, k)
		}
		sort.Strings(keys)
		c.Note("%d experimental-dir configurations; checks and pairs beyond the first batch are oracle-only evaluations on the implementation", len(keys))
	})
}

func lbl(x string) L {
	// "sub|pkg|name"
	p := strings.SplitN(x, "|", 3)
	return L{Sub: p[0], Pkg: p[1], Name: p[2]}
}

func tgt(label string, vis []string, test, testOnly bool, deps ...string) T {
	t := T{Label: lbl(label), Test: test, TestOnly: testOnly, Vis: []L{}}
	for _, v := range vis {
		t.Vis = append(t.Vis, lbl(v))
	}
	for _, d := range deps {
		t.Deps = append(t.Deps, lbl(d))
	}
	return t
}

func one(exp []string, t T, g ...T) Input {
	return Input{Kind: "check", Exp: exp, Graph: g, Target: &t}
}

func corpus() []Input {
	pub := []string{"||..."}
	return []Input{
		// minimal witnesses of the three known classes (reproduced end to end with plz build as well)
		one(nil, tgt("s|p|y", nil, false, false, "|p|priv"), tgt("|p|priv", nil, false, false)),
		one(nil, tgt("s|q|z", nil, false, false, "|p|vis"), tgt("|p|vis", []string{"|q|..."}, false, false)),
		one([]string{"experimental"}, tgt("|experimental/u|x", nil, false, false, "|lib|t"), tgt("|lib|t", pub, false, true)),
		// their legal / illegal neighbours
		one(nil, tgt("s|q|w", nil, false, false, "|p|priv"), tgt("|p|priv", nil, false, false)),
		one([]string{"experimental"}, tgt("|prod|x", nil, false, false, "|lib|t"), tgt("|lib|t", pub, false, true)),
		one([]string{"experimental"}, tgt("|prod|x_test", nil, true, false, "|lib|t"), tgt("|lib|t", pub, false, true)),
		one([]string{"experimental"}, tgt("|prod|testlib", nil, false, true, "|lib|t"), tgt("|lib|t", pub, false, true)),
		// build_target_test.go
		one(nil, tgt("|src/test/python|lib3", nil, false, false, "|src/build/python|lib2"), tgt("|src/build/python|lib2", pub, false, false)),
		one(nil, tgt("|src/test/python|lib3", nil, false, false, "|src/build/python|lib1"), tgt("|src/build/python|lib1", nil, false, false)),
		one(nil, tgt("|src/build/python|lib2", nil, false, false, "|src/build/python|lib1"), tgt("|src/build/python|lib1", nil, false, false)),
		one(nil, tgt("|src/test/python/moar|lib4", nil, false, false, "|src/test/python|lib3"), tgt("|src/test/python|lib3", []string{"|src/test|..."}, false, false)),
		one(nil, tgt("|src/build/python|lib1", nil, false, false, "|src/test/python|lib3"), tgt("|src/test/python|lib3", []string{"|src/test|..."}, false, false)),
		one(nil, tgt("|src/test/python|_test5#pex", nil, false, false, "|src/build/python|lib5"), tgt("|src/build/python|lib5", []string{"|src/test/python|test5"}, false, false)),
		one(nil, tgt("|src/build/python|lib5", nil, false, false, "|src/test/python|_test5#pex"), tgt("|src/test/python|_test5#pex", nil, false, false)),
		one([]string{"experimental"}, tgt("|experimental/user|target2", nil, false, false, "|src/core|target1"), tgt("|src/core|target1", nil, false, false)),
		one([]string{"experimental"}, tgt("|src/core|target1", nil, false, false, "|experimental/user|target2"), tgt("|experimental/user|target2", pub, false, false)),
		// shared textual prefixes: pfoo is not beneath p, experimentalx is not experimental
		one(nil, tgt("|pfoo|x", nil, false, false, "|lib|l"), tgt("|lib|l", []string{"|p|..."}, false, false)),
		one(nil, tgt("|p/q|x", nil, false, false, "|lib|l"), tgt("|lib|l", []string{"|p|..."}, false, false)),
		one(nil, tgt("|p|x", nil, false, false, "|lib|l"), tgt("|lib|l", []string{"|p|..."}, false, false)),
		one(nil, tgt("|p/q|x", nil, false, false, "|lib|l"), tgt("|lib|l", []string{"|p|all"}, false, false)),
		one([]string{"experimental"}, tgt("|experimentalx|x", nil, false, false, "|lib|l"), tgt("|lib|l", nil, false, false)),
		one([]string{"experimental"}, tgt("|lib|l", nil, false, false, "|experimentalx|x"), tgt("|experimentalx|x", pub, false, false)),
		one([]string{"experimental"}, tgt("s|experimental|x", nil, false, false, "|lib|l"), tgt("|lib|l", nil, false, false)),
		// hidden children: the owner is what a pattern has to name; the first failing dependency is reported
		one(nil, tgt("|a|_x#tag_b", nil, false, false, "|lib|l"), tgt("|lib|l", []string{"|a|x"}, false, false)),
		one(nil, tgt("|a|_x#tag_b", nil, false, false, "|lib|l"), tgt("|lib|l", []string{"|a|_x#tag_b"}, false, false)),
		one(nil, tgt("|a|__x#t", nil, false, false, "|lib|l"), tgt("|lib|l", []string{"|a|_x"}, false, false)),
		one(nil, tgt("|a|x", nil, false, false, "|lib|ok", "|lib|t", "|b|hidden"), tgt("|lib|ok", pub, false, false), tgt("|lib|t", pub, false, true), tgt("|b|hidden", nil, false, false)),
		one(nil, tgt("|a|x", nil, false, false, "|lib|ok", "|b|hidden", "|lib|t"), tgt("|lib|ok", pub, false, false), tgt("|lib|t", pub, false, true), tgt("|b|hidden", nil, false, false)),
	}
}
