// C33 end to end: generated repositories go through the real `plz build` ($VERIF_PLZ).
// Three streams, one case type (CE2E: a sequence of (repository, requested closure) steps sharing
// plz-out, with the observed verdict of each step):
//   history  - build, edit ONLY the declaration of a dependency (tighten / loosen its visibility, set /
//              clear test_only, change the package default), build again from the same plz-out;
//   public   - visibility lists with "PUBLIC" at any position (also through package(default_visibility));
//   defaults - packages that subinclude the same CONFIG-touching file before / after calling
//              package(default_visibility = ..., default_testonly = ...), parsed in dependency order.
// The oracle below is written from the documentation (a target's visibility is its own argument, else
// its own package's default, else nothing; "PUBLIC" anywhere makes it public) and shares nothing with
// the Coq model or with the implementation.
package main

import (
	"bytes"
	"fmt"
	"os"
	"os/exec"
	"path/filepath"
	"regexp"
	"sort"
	"strings"
	"sync"
	"sync/atomic"

	"verifharness/lib"
)

type EDecl struct {
	Name     string    `json:"name"`
	Vis      *[]string `json:"visibility"` // nil: argument not given
	TestOnly *bool     `json:"test_only"`  // nil: argument not given
	Test     bool      `json:"test"`       // gentest instead of genrule
	Deps     []string  `json:"deps"`
}

type EStmt struct {
	Kind        string    `json:"kind"` // subinclude | package | target
	Defs        int       `json:"defs,omitempty"`
	DefVis      *[]string `json:"default_visibility,omitempty"`
	DefTestOnly *bool     `json:"default_testonly,omitempty"`
	Decl        *EDecl    `json:"target,omitempty"`
}

type EPkg struct {
	Name  string  `json:"name"`
	Stmts []EStmt `json:"stmts"`
}

type ERepo struct {
	Defs []bool `json:"defs_touch_config"` // defs/d<i>.build_defs; true: it calls CONFIG.setdefault
	Pkgs []EPkg `json:"packages"`
}

type EStep struct {
	Edit     string   `json:"edit,omitempty"` // what was changed relative to the previous step
	Repo     ERepo    `json:"repo"`
	Build    string   `json:"build"`
	Closure  []string `json:"closure"`
	Observed string   `json:"observed,omitempty"` // ok | fail | parse-error
	Message  string   `json:"message,omitempty"`
}

type E2EInput struct {
	Kind   string  `json:"kind"` // "e2e"
	Stream string  `json:"stream"`
	Steps  []EStep `json:"steps"`
}

func (r ERepo) clone() ERepo {
	out := ERepo{Defs: append([]bool{}, r.Defs...)}
	for _, p := range r.Pkgs {
		q := EPkg{Name: p.Name}
		for _, s := range p.Stmts {
			t := s
			if s.DefVis != nil {
				v := append([]string{}, *s.DefVis...)
				t.DefVis = &v
			}
			if s.DefTestOnly != nil {
				b := *s.DefTestOnly
				t.DefTestOnly = &b
			}
			if s.Decl != nil {
				d := *s.Decl
				if d.Vis != nil {
					v := append([]string{}, *d.Vis...)
					d.Vis = &v
				}
				if d.TestOnly != nil {
					b := *d.TestOnly
					d.TestOnly = &b
				}
				d.Deps = append([]string{}, d.Deps...)
				t.Decl = &d
			}
			q.Stmts = append(q.Stmts, t)
		}
		out.Pkgs = append(out.Pkgs, q)
	}
	return out
}

func (r *ERepo) decl(label string) *EDecl {
	pkg, name := splitLabel(label)
	for i := range r.Pkgs {
		if r.Pkgs[i].Name != pkg {
			continue
		}
		for j := range r.Pkgs[i].Stmts {
			if d := r.Pkgs[i].Stmts[j].Decl; d != nil && d.Name == name {
				return d
			}
		}
	}
	return nil
}

func splitLabel(l string) (string, string) {
	l = strings.TrimPrefix(l, "//")
	i := strings.IndexByte(l, ':')
	return l[:i], l[i+1:]
}

// closure: the requested label and everything it depends on, dependencies first
func (r *ERepo) closure(label string) []string {
	var out []string
	seen := map[string]bool{}
	var visit func(l string)
	visit = func(l string) {
		if seen[l] {
			return
		}
		seen[l] = true
		if d := r.decl(l); d != nil {
			for _, x := range d.Deps {
				visit(x)
			}
		}
		out = append(out, l)
	}
	visit(label)
	return out
}

// ------------------------------------------------------------------------------------------
// rendering

func pyStrs(xs []string) string {
	q := make([]string, len(xs))
	for i, x := range xs {
		q[i] = fmt.Sprintf("%q", x)
	}
	return "[" + strings.Join(q, ", ") + "]"
}

func pyBool(b bool) string {
	if b {
		return "True"
	}
	return "False"
}

func (p EPkg) render() string {
	var b strings.Builder
	for _, s := range p.Stmts {
		switch s.Kind {
		case "subinclude":
			fmt.Fprintf(&b, "subinclude(\"//defs:d%d\")\n", s.Defs)
		case "package":
			args := []string{}
			if s.DefVis != nil {
				args = append(args, "default_visibility = "+pyStrs(*s.DefVis))
			}
			if s.DefTestOnly != nil {
				args = append(args, "default_testonly = "+pyBool(*s.DefTestOnly))
			}
			fmt.Fprintf(&b, "package(%s)\n", strings.Join(args, ", "))
		case "target":
			d := s.Decl
			args := []string{fmt.Sprintf("name = %q", d.Name)}
			if d.Test {
				args = append(args, "test_cmd = \"true\"", "no_test_output = True")
			} else {
				args = append(args, fmt.Sprintf("outs = [%q]", d.Name+".txt"), fmt.Sprintf("cmd = \"echo %s > $OUT\"", d.Name))
			}
			if len(d.Deps) > 0 {
				args = append(args, "deps = "+pyStrs(d.Deps))
			}
			if d.Vis != nil {
				args = append(args, "visibility = "+pyStrs(*d.Vis))
			}
			if d.TestOnly != nil && !d.Test {
				args = append(args, "test_only = "+pyBool(*d.TestOnly))
			}
			rule := "genrule"
			if d.Test {
				rule = "gentest"
			}
			fmt.Fprintf(&b, "%s(%s)\n", rule, strings.Join(args, ", "))
		}
	}
	return b.String()
}

func writeFile(path, content string) {
	if err := os.MkdirAll(filepath.Dir(path), 0o755); err != nil {
		panic(err)
	}
	if err := os.WriteFile(path, []byte(content), 0o644); err != nil {
		panic(err)
	}
}

// write (re)writes the BUILD files of the repository into root; plz-out and the cache stay.
func (r ERepo) write(root string) {
	writeFile(filepath.Join(root, ".plzconfig"), "[build]\npath = /usr/local/bin:/usr/bin:/bin\n[cache]\ndir = "+filepath.Join(root, ".plz-cache")+"\n")
	var defs strings.Builder
	for i, touches := range r.Defs {
		fmt.Fprintf(&defs, "filegroup(name = \"d%d\", srcs = [\"d%d.build_defs\"], visibility = [\"PUBLIC\"])\n", i, i)
		body := fmt.Sprintf("C33_CONST_%d = \"c%d\"\n", i, i)
		if touches {
			body = fmt.Sprintf("CONFIG.setdefault(\"C33_D%d\", \"v%d\")\n", i, i) + body
		}
		writeFile(filepath.Join(root, "defs", fmt.Sprintf("d%d.build_defs", i)), body)
	}
	if len(r.Defs) > 0 {
		writeFile(filepath.Join(root, "defs", "BUILD"), defs.String())
	}
	for _, p := range r.Pkgs {
		writeFile(filepath.Join(root, p.Name, "BUILD"), p.render())
	}
}

var (
	ansiRe      = regexp.MustCompile("\x1b\\[[0-9;]*[A-Za-z]")
	invisibleRe = regexp.MustCompile(`Target (//\S+) isn't visible to (//\S+)`)
	testOnlyRe  = regexp.MustCompile(`Target (//\S+) can't depend on (//\S+), it's marked test_only`)
)

type e2eObs struct {
	kind     string // ok | fail | parse-error
	errKind  string // invisible | testonly
	dep, tgt string
	msg      string
}

// runBuild runs one `plz build`.  Now and then (seen only on a heavily loaded machine) plz exits non-zero
// after printing nothing but the output path - no error text at all; such an invocation says nothing about
// visibility and is repeated (a failed build leaves plz-out as it was for the targets that matter).
var lostErrors int64

func runBuild(root, label string) e2eObs {
	var o e2eObs
	for attempt := 0; attempt < 4; attempt++ {
		o = runBuildOnce(root, label)
		if o.kind != "parse-error" || strings.Contains(strings.ToLower(o.msg), "error") || strings.Contains(o.msg, "nvalid") {
			return o
		}
		atomic.AddInt64(&lostErrors, 1)
	}
	return o
}

func runBuildOnce(root, label string) e2eObs {
	cmd := exec.Command("timeout", "300", os.Getenv("VERIF_PLZ"), "build", "-p", "-v", "1", "--nolock", label)
	cmd.Dir = root
	cmd.Env = append(os.Environ(), "HOME="+root)
	var out bytes.Buffer
	cmd.Stdout, cmd.Stderr = &out, &out
	err := cmd.Run()
	text := ansiRe.ReplaceAllString(out.String(), "")
	if err == nil {
		return e2eObs{kind: "ok"}
	}
	if m := invisibleRe.FindStringSubmatch(text); m != nil {
		return e2eObs{kind: "fail", errKind: "invisible", dep: m[1], tgt: m[2], msg: m[0]}
	}
	if m := testOnlyRe.FindStringSubmatch(text); m != nil {
		return e2eObs{kind: "fail", errKind: "testonly", dep: m[2], tgt: m[1], msg: m[0]}
	}
	lines := []string{}
	for _, l := range strings.Split(text, "\n") {
		if l = strings.TrimSpace(l); l != "" {
			lines = append(lines, l)
		}
	}
	msg := strings.Join(lines, " | ")
	if len(msg) > 500 {
		msg = msg[:500]
	}
	return e2eObs{kind: "parse-error", msg: msg}
}

// ------------------------------------------------------------------------------------------
// the documented rules on the BUILD files as written (reference, independent of model and code)

type eEff struct {
	vis      []string
	testOnly bool
	test     bool
	visFrom  string // own | package-default | none
}

// effective: a target's visibility / test_only is its own argument, else the default its OWN package
// declared before it, else nothing.
func (r *ERepo) effective(label string) (eEff, bool) {
	pkg, name := splitLabel(label)
	for _, p := range r.Pkgs {
		if p.Name != pkg {
			continue
		}
		var defVis *[]string
		var defTO *bool
		for _, s := range p.Stmts {
			switch s.Kind {
			case "package":
				if s.DefVis != nil {
					defVis = s.DefVis
				}
				if s.DefTestOnly != nil {
					defTO = s.DefTestOnly
				}
			case "target":
				if s.Decl.Name != name {
					continue
				}
				e := eEff{test: s.Decl.Test, visFrom: "none"}
				if s.Decl.Vis != nil {
					e.vis, e.visFrom = *s.Decl.Vis, "own"
				} else if defVis != nil {
					e.vis, e.visFrom = *defVis, "package-default"
				}
				// genrule(test_only = False): the documented signature of the rule; the wrapper passes its own
				// default on, so package(default_testonly = ...) does not reach it (see the note in the report)
				_ = defTO
				if s.Decl.TestOnly != nil {
					e.testOnly = *s.Decl.TestOnly
				}
				if s.Decl.Test {
					e.testOnly = true // a test is test_only by definition
				}
				return e, true
			}
		}
	}
	return eEff{}, false
}

// patternOf: "//p:n" | "//p/..." | "//..." as a pattern; ok=false for anything else
func patternOf(v string) (L, bool) {
	if !strings.HasPrefix(v, "//") {
		return L{}, false
	}
	v = v[2:]
	if i := strings.IndexByte(v, ':'); i >= 0 {
		return L{Pkg: v[:i], Name: v[i+1:]}, v[i+1:] != ""
	}
	if v == "..." {
		return L{Name: "..."}, true
	}
	if strings.HasSuffix(v, "/...") {
		return L{Pkg: strings.TrimSuffix(v, "/..."), Name: "..."}, true
	}
	return L{}, false
}

// edgeLegal: may `from` depend on `to`?  "" = yes, else the rule it breaks.
func (r *ERepo) edgeLegal(from, to string) string {
	ef, _ := r.effective(from)
	et, ok := r.effective(to)
	if !ok {
		return "missing"
	}
	fp, fn := splitLabel(from)
	tp, _ := splitLabel(to)
	visible := fp == tp
	for _, v := range et.vis {
		if v == "PUBLIC" {
			visible = true
		} else if pat, ok := patternOf(v); ok && selects(pat, L{Pkg: fp, Name: ownerName(fn)}, true) {
			visible = true
		}
	}
	if !visible {
		return "invisible"
	}
	if et.testOnly && !ef.test && !ef.testOnly {
		return "testonly"
	}
	return ""
}

type eEdge struct{ from, to, why string }

func (r *ERepo) illegalEdges(closure []string) []eEdge {
	var out []eEdge
	for _, l := range closure {
		if d := r.decl(l); d != nil {
			for _, x := range d.Deps {
				if why := r.edgeLegal(l, x); why != "" {
					out = append(out, eEdge{l, x, why})
				}
			}
		}
	}
	return out
}

// ------------------------------------------------------------------------------------------
// Coq terms

func coqOptStrs(v *[]string) string {
	if v == nil {
		return "None"
	}
	return lib.Some(lib.StrList(*v))
}
func coqOptBool(b *bool) string {
	if b == nil {
		return "None"
	}
	return lib.Some(lib.Bool(*b))
}
func coqLabelOf(l string) string {
	p, n := splitLabel(l)
	return coqL(L{Pkg: p, Name: n})
}
func coqLabels(ls []string) string {
	out := make([]string, len(ls))
	for i, l := range ls {
		out[i] = coqLabelOf(l)
	}
	return lib.List(out)
}

func (r ERepo) coq() string {
	defs := make([]string, len(r.Defs))
	for i, t := range r.Defs {
		defs[i] = "None"
		if t {
			defs[i] = lib.Some(lib.List([]string{lib.Pair(lib.Str(fmt.Sprintf("C33_D%d", i)), "COther")}))
		}
	}
	pkgs := make([]string, len(r.Pkgs))
	for i, p := range r.Pkgs {
		st := make([]string, len(p.Stmts))
		for j, s := range p.Stmts {
			switch s.Kind {
			case "subinclude":
				st[j] = lib.App("SSubinclude", lib.Nat(s.Defs))
			case "package":
				st[j] = lib.App("SPackage", coqOptStrs(s.DefVis), coqOptBool(s.DefTestOnly))
			case "target":
				d := s.Decl
				// genrule always hands a bool to build_rule (test_only:bool=False); gentest hands nothing
				to := d.TestOnly
				if d.Test {
					to = nil
				} else if to == nil {
					to = bp(false)
				}
				st[j] = lib.App("STarget", lib.App("mkDecl", lib.Str(d.Name), coqOptStrs(d.Vis), coqOptBool(to), lib.Bool(d.Test), coqLabels(d.Deps)))
			}
		}
		pkgs[i] = lib.Pair(lib.Str(p.Name), lib.List(st))
	}
	return lib.App("mkRepo", lib.List(defs), lib.List(pkgs))
}

func (in E2EInput) coq() string {
	steps := make([]string, len(in.Steps))
	obs := make([]string, len(in.Steps))
	for i, s := range in.Steps {
		steps[i] = lib.Pair(s.Repo.coq(), coqLabels(s.Closure))
		obs[i] = map[string]string{"ok": "OOk", "fail": "OFail", "parse-error": "OParseError"}[s.Observed]
	}
	return lib.App("CE2E", lib.List(steps), lib.List(obs))
}

// ------------------------------------------------------------------------------------------
// generators

func bp(b bool) *bool        { return &b }
func sp(v ...string) *[]string { x := append([]string{}, v...); return &x }

var e2ePkgs = []string{"app", "mid", "lib", "base"}

// genVisList: a visibility list for a target that `from` (a label) depends on: patterns that do / do not
// select it, PUBLIC at a random position with probability pubPct.
func genVisList(r *lib.Rng, from string, pubPct int) []string {
	fp, fn := splitLabel(from)
	good := []string{"//" + fp + ":all", "//" + fp + ":" + fn, "//" + fp + "/...", "//..."}
	bad := []string{"//other:all", "//third/...", "//" + fp + "x:all", "//" + fp + ":zz", "//" + fp + "/sub/...", "//other:" + fn}
	n := r.Range(0, 3)
	out := []string{}
	for i := 0; i < n; i++ {
		if r.Chance(35, 100) {
			out = append(out, lib.Pick(r, good))
		} else {
			out = append(out, lib.Pick(r, bad))
		}
	}
	if r.Chance(pubPct, 100) {
		i := r.Intn(len(out) + 1)
		out = append(out[:i], append([]string{"PUBLIC"}, out[i:]...)...)
	}
	return out
}

type e2eKnobs struct {
	pubPct     int // PUBLIC inside visibility lists
	defsPct    int // subinclude statements
	packagePct int // package(...) statements
	explicit   int // targets with an explicit visibility argument
}

// genRepo: 2-4 packages in a chain (app -> mid -> lib -> base, edges only forwards or inside a package),
// 1-3 targets each; subinclude / package statements in random order at the top of each package.
func genRepo(r *lib.Rng, k e2eKnobs) (ERepo, string) {
	np := r.Range(2, 4)
	names := append([]string{}, e2ePkgs[:np-1]...)
	names = append(names, e2ePkgs[len(e2ePkgs)-1])
	if np == 2 {
		names = []string{"app", "lib"}
	}
	repo := ERepo{Defs: []bool{true, r.Chance(50, 100)}}
	if r.Chance(30, 100) {
		repo.Defs = append(repo.Defs, r.Chance(50, 100))
	}
	// targets first (so that dependers are known when visibility is generated)
	perPkg := make([][]*EDecl, np)
	for i := np - 1; i >= 0; i-- {
		nt := r.Range(1, 3)
		if i == 0 {
			nt = r.Range(1, 2)
		}
		for j := 0; j < nt; j++ {
			d := &EDecl{Name: fmt.Sprintf("%s%d", names[i][:1], j), Deps: []string{}}
			if r.Chance(15, 100) {
				d.Test = true
			} else if r.Chance(18, 100) {
				d.TestOnly = bp(r.Chance(75, 100))
			}
			// dependencies: on later packages (mostly the next one) or earlier targets of this package
			cands := []string{}
			for q := i + 1; q < np; q++ {
				for _, x := range perPkg[q] {
					w := 1
					if q == i+1 {
						w = 3
					}
					for ; w > 0; w-- {
						cands = append(cands, "//"+names[q]+":"+x.Name)
					}
				}
			}
			for _, x := range perPkg[i] {
				cands = append(cands, "//"+names[i]+":"+x.Name)
			}
			nd := r.Range(0, 2)
			if i == 0 {
				nd = r.Range(1, 2)
			}
			seen := map[string]bool{}
			for ; nd > 0 && len(cands) > 0; nd-- {
				c := lib.Pick(r, cands)
				if !seen[c] {
					seen[c] = true
					d.Deps = append(d.Deps, c)
				}
			}
			perPkg[i] = append(perPkg[i], d)
		}
	}
	// who depends on whom
	dependers := map[string][]string{}
	for i := range perPkg {
		for _, d := range perPkg[i] {
			for _, x := range d.Deps {
				dependers[x] = append(dependers[x], "//"+names[i]+":"+d.Name)
			}
		}
	}
	for i := 0; i < np; i++ {
		p := EPkg{Name: names[i]}
		head := []EStmt{}
		for _, di := range []int{0, 1, 2} {
			if di < len(repo.Defs) && r.Chance(k.defsPct/(di+1), 100) {
				head = append(head, EStmt{Kind: "subinclude", Defs: di})
			}
		}
		if r.Chance(k.packagePct, 100) {
			s := EStmt{Kind: "package"}
			switch x := r.Intn(100); {
			case x < 45:
				s.DefVis = sp("PUBLIC")
			case x < 70:
				v := genVisList(r, "//app:a0", k.pubPct)
				s.DefVis = &v
			case x < 85:
				s.DefTestOnly = bp(true)
			default:
				s.DefVis = sp("PUBLIC")
				s.DefTestOnly = bp(r.Chance(50, 100))
			}
			head = append(head, s)
		}
		lib.Shuffle(r, head)
		p.Stmts = head
		for _, d := range perPkg[i] {
			label := "//" + names[i] + ":" + d.Name
			if r.Chance(k.explicit, 100) {
				from := "//app:a0"
				if ds := dependers[label]; len(ds) > 0 {
					from = lib.Pick(r, ds)
				}
				var v []string
				switch x := r.Intn(100); {
				case x < 30:
					v = []string{"PUBLIC"}
				case x < 40:
					v = []string{}
				default:
					v = genVisList(r, from, k.pubPct)
				}
				d.Vis = &v
			}
			p.Stmts = append(p.Stmts, EStmt{Kind: "target", Decl: d})
		}
		repo.Pkgs = append(repo.Pkgs, p)
	}
	return repo, "//" + names[0] + ":" + perPkg[0][len(perPkg[0])-1].Name
}

// genEdit changes ONLY declarations of targets other than the requested one (or package defaults):
// outputs and commands stay byte-identical.
func genEdit(r *lib.Rng, repo ERepo, build string) (ERepo, string) {
	out := repo.clone()
	cl := out.closure(build)
	deps := cl[:len(cl)-1]
	if len(deps) == 0 {
		return out, "none"
	}
	target := lib.Pick(r, deps)
	d := out.decl(target)
	switch x := r.Intn(100); {
	case x < 30:
		d.Vis = sp("//other:all")
		return out, "tighten visibility of " + target
	case x < 40:
		d.Vis = sp()
		return out, "empty visibility of " + target
	case x < 50:
		d.Vis = nil
		return out, "drop visibility argument of " + target
	case x < 72:
		if !d.Test {
			d.TestOnly = bp(true)
			return out, "set test_only on " + target
		}
		d.Vis = sp("//third/...")
		return out, "tighten visibility of " + target
	case x < 82:
		d.Vis = sp("//other:all", "PUBLIC")
		return out, "make public (PUBLIC last) " + target
	case x < 90:
		if !d.Test {
			d.TestOnly = bp(false)
		}
		d.Vis = sp("PUBLIC")
		return out, "make public and not test_only " + target
	default:
		pkg, _ := splitLabel(target)
		for i := range out.Pkgs {
			if out.Pkgs[i].Name == pkg {
				stmts := []EStmt{}
				for _, s := range out.Pkgs[i].Stmts {
					if s.Kind != "package" {
						stmts = append(stmts, s)
					}
				}
				out.Pkgs[i].Stmts = stmts
			}
		}
		return out, "remove package() from //" + pkg
	}
}

// ------------------------------------------------------------------------------------------
// running and judging

func judgeE2E(c *lib.Ctx, in E2EInput, obs []e2eObs) {
	for i, s := range in.Steps {
		o := obs[i]
		bad := s.Repo.illegalEdges(s.Closure)
		c.Hist("e2e_"+in.Stream, fmt.Sprintf("step%d %s", i, o.kind))
		c.Oracle()
		switch {
		case o.kind == "parse-error":
			// the generated BUILD files are all well-formed: a package that does not parse is a rejected build
			cl := "well-formed-package-rejected"
			if strings.Contains(o.msg, "PUBLIC") {
				cl = "public-not-first-in-visibility-list-rejected"
			}
			c.Fail(cl, fmt.Sprintf("step %d: plz build %s fails with neither of the two documented errors: %s", i, s.Build, o.msg), in)
			return
		case o.kind == "ok" && len(bad) > 0:
			e := bad[0]
			cl := "illegal-edge-accepted"
			et, _ := s.Repo.effective(e.to)
			prevOK := i > 0 && obs[i-1].kind == "ok" && in.Steps[i-1].Build == s.Build
			switch {
			case prevOK:
				cl = "illegal-edge-accepted-on-rebuild-of-unchanged-target"
			case e.why == "invisible" && et.visFrom == "none":
				cl = "target-without-visibility-visible-outside-its-package"
			case e.why == "testonly":
				cl = "test-only-dependency-accepted-e2e"
			}
			c.Fail(cl, fmt.Sprintf("step %d: plz build %s succeeds although %s depends on %s (%s by the documented rules)", i, s.Build, e.from, e.to, e.why), in)
			return
		case o.kind == "fail" && len(bad) == 0:
			cl := "legal-build-rejected-e2e"
			if et, ok := s.Repo.effective(o.dep); ok && o.errKind == "testonly" && !et.testOnly {
				cl = "test-only-default-leaked-into-package"
			}
			c.Fail(cl, fmt.Sprintf("step %d: every edge in the closure of %s is legal by the documented rules, plz build fails with: %s", i, s.Build, o.msg), in)
			return
		case o.kind == "fail":
			named := false
			for _, e := range bad {
				if e.from == o.tgt && e.to == o.dep && ((e.why == "invisible") == (o.errKind == "invisible")) {
					named = true
				}
			}
			if !named {
				c.Fail("error-names-legal-edge-e2e", fmt.Sprintf("step %d: the error names an edge that is legal by the documented rules: %s", i, o.msg), in)
				return
			}
		}
	}
}

func e2eCase(c *lib.Ctx, in E2EInput, obs []e2eObs) {
	nontrivial := len(in.Steps) > 1
	for _, s := range in.Steps {
		if len(s.Closure) > 2 || len(s.Repo.illegalEdges(s.Closure)) > 0 {
			nontrivial = true
		}
	}
	c.Case(in.coq(), in, jsKey(in), nontrivial)
	judgeE2E(c, in, obs)
}

// runAll executes the inputs on `workers` parallel plz processes (each input in its own directory).
func runAll(base string, ins []E2EInput, workers int) [][]e2eObs {
	out := make([][]e2eObs, len(ins))
	var wg sync.WaitGroup
	ch := make(chan int)
	for w := 0; w < workers; w++ {
		wg.Add(1)
		go func() {
			defer wg.Done()
			for i := range ch {
				root := filepath.Join(base, fmt.Sprintf("e2e-%d", i))
				in := &ins[i]
				obs := make([]e2eObs, len(in.Steps))
				for j := range in.Steps {
					s := &in.Steps[j]
					s.Closure = s.Repo.closure(s.Build)
					s.Repo.write(root)
					obs[j] = runBuild(root, s.Build)
					s.Observed, s.Message = obs[j].kind, obs[j].msg
				}
				os.RemoveAll(root)
				out[i] = obs
			}
		}()
	}
	for i := range ins {
		ch <- i
	}
	close(ch)
	wg.Wait()
	return out
}

func e2eCorpus() []E2EInput {
	lib1 := func(vis *[]string, to *bool) EStmt {
		return EStmt{Kind: "target", Decl: &EDecl{Name: "l0", Vis: vis, TestOnly: to, Deps: []string{}}}
	}
	app := EPkg{Name: "app", Stmts: []EStmt{{Kind: "target", Decl: &EDecl{Name: "a0", Deps: []string{"//lib:l0"}}}}}
	repo := func(l ...EStmt) ERepo { return ERepo{Defs: []bool{true}, Pkgs: []EPkg{app, {Name: "lib", Stmts: l}}} }
	sub := EStmt{Kind: "subinclude", Defs: 0}
	pubDefault := EStmt{Kind: "package", DefVis: sp("PUBLIC")}
	appDefaults := EPkg{Name: "app", Stmts: []EStmt{sub, pubDefault, {Kind: "target", Decl: &EDecl{Name: "a0", Deps: []string{"//lib:l0"}}}}}
	return []E2EInput{
		// history: visible, then tightened, then visible again; not test_only, then test_only
		{Kind: "e2e", Stream: "history", Steps: []EStep{
			{Repo: repo(lib1(sp("//app:all"), nil)), Build: "//app:a0"},
			{Edit: "tighten visibility of //lib:l0", Repo: repo(lib1(sp("//other:all"), nil)), Build: "//app:a0"},
			{Edit: "restore", Repo: repo(lib1(sp("//app:all"), nil)), Build: "//app:a0"}}},
		{Kind: "e2e", Stream: "history", Steps: []EStep{
			{Repo: repo(lib1(sp("PUBLIC"), bp(false))), Build: "//app:a0"},
			{Edit: "set test_only on //lib:l0", Repo: repo(lib1(sp("PUBLIC"), bp(true))), Build: "//app:a0"}}},
		// PUBLIC first / last / in the middle / absent
		{Kind: "e2e", Stream: "public", Steps: []EStep{{Repo: repo(lib1(sp("PUBLIC", "//other:all"), nil)), Build: "//app:a0"}}},
		{Kind: "e2e", Stream: "public", Steps: []EStep{{Repo: repo(lib1(sp("//other:all", "PUBLIC"), nil)), Build: "//app:a0"}}},
		{Kind: "e2e", Stream: "public", Steps: []EStep{{Repo: repo(lib1(sp("//other:all", "PUBLIC", "//third/..."), nil)), Build: "//app:a0"}}},
		{Kind: "e2e", Stream: "public", Steps: []EStep{{Repo: repo(lib1(sp("//other:all", "//third/..."), nil)), Build: "//app:a0"}}},
		{Kind: "e2e", Stream: "public", Steps: []EStep{{Repo: repo(EStmt{Kind: "package", DefVis: sp("//other:all", "PUBLIC")}, lib1(nil, nil)), Build: "//app:a0"}}},
		// defaults: //app subincludes, then sets default PUBLIC; //lib subincludes the same file and sets nothing
		{Kind: "e2e", Stream: "defaults", Steps: []EStep{{Repo: ERepo{Defs: []bool{true}, Pkgs: []EPkg{appDefaults, {Name: "lib", Stmts: []EStmt{sub, lib1(nil, nil)}}}}, Build: "//app:a0"}}},
		{Kind: "e2e", Stream: "defaults", Steps: []EStep{{Repo: ERepo{Defs: []bool{true}, Pkgs: []EPkg{
			{Name: "app", Stmts: []EStmt{sub, {Kind: "package", DefTestOnly: bp(true)}, {Kind: "target", Decl: &EDecl{Name: "a0", Deps: []string{"//mid:m0"}}}}},
			{Name: "mid", Stmts: []EStmt{sub, {Kind: "target", Decl: &EDecl{Name: "m0", Vis: sp("PUBLIC"), Deps: []string{"//lib:l0"}}}}},
			{Name: "lib", Stmts: []EStmt{sub, lib1(sp("PUBLIC"), nil)}}}}, Build: "//app:a0"}}},
		{Kind: "e2e", Stream: "defaults", Steps: []EStep{{Repo: ERepo{Defs: []bool{true}, Pkgs: []EPkg{
			{Name: "app", Stmts: []EStmt{pubDefault, sub, {Kind: "target", Decl: &EDecl{Name: "a0", Deps: []string{"//lib:l0"}}}}},
			{Name: "lib", Stmts: []EStmt{sub, pubDefault, lib1(nil, nil)}}}}, Build: "//app:a0"}}},
	}
}

// runE2EStreams generates, runs and judges the three end-to-end streams.
func runE2EStreams(c *lib.Ctx) {
	if os.Getenv("VERIF_PLZ") == "" {
		c.Note("VERIF_PLZ not set: end-to-end streams skipped")
		return
	}
	base, err := os.MkdirTemp("", "c33-e2e-")
	if err != nil {
		panic(err)
	}
	defer os.RemoveAll(base)
	ins := e2eCorpus()
	nH, nP, nD := c.Scale(24, 400), c.Scale(20, 400), c.Scale(30, 500)
	for i := 0; i < nH; i++ {
		r := c.Rng.Fork()
		repo, build := genRepo(r, e2eKnobs{pubPct: 25, defsPct: 20, packagePct: 20, explicit: 85})
		in := E2EInput{Kind: "e2e", Stream: "history", Steps: []EStep{{Repo: repo, Build: build}}}
		cur := repo
		for k := r.Range(1, 2); k > 0; k-- {
			next, what := genEdit(r, cur, build)
			in.Steps = append(in.Steps, EStep{Edit: what, Repo: next, Build: build})
			cur = next
		}
		if r.Chance(30, 100) {
			in.Steps = append(in.Steps, EStep{Edit: "restore the first version", Repo: repo, Build: build})
		}
		ins = append(ins, in)
	}
	for i := 0; i < nP; i++ {
		r := c.Rng.Fork()
		repo, build := genRepo(r, e2eKnobs{pubPct: 60, defsPct: 10, packagePct: 30, explicit: 90})
		ins = append(ins, E2EInput{Kind: "e2e", Stream: "public", Steps: []EStep{{Repo: repo, Build: build}}})
	}
	for i := 0; i < nD; i++ {
		r := c.Rng.Fork()
		repo, build := genRepo(r, e2eKnobs{pubPct: 20, defsPct: 85, packagePct: 55, explicit: 45})
		ins = append(ins, E2EInput{Kind: "e2e", Stream: "defaults", Steps: []EStep{{Repo: repo, Build: build}}})
	}
	obs := runAll(base, ins, 8)
	invocations := 0
	for i, in := range ins {
		invocations += len(in.Steps)
		e2eCase(c, in, obs[i])
	}
	kinds := map[string]int{}
	for _, in := range ins {
		kinds[in.Stream]++
	}
	ks := []string{}
	for k, n := range kinds {
		ks = append(ks, fmt.Sprintf("%s %d", k, n))
	}
	sort.Strings(ks)
	c.Note("end to end: %d repositories (%s), %d plz build invocations; %d invocations exited non-zero without any error text and were repeated", len(ins), strings.Join(ks, ", "), invocations, atomic.LoadInt64(&lostErrors))
}

// replayE2E re-runs one end-to-end input.
func replayE2E(c *lib.Ctx, in E2EInput) {
	base, err := os.MkdirTemp("", "c33-e2e-")
	if err != nil {
		panic(err)
	}
	defer os.RemoveAll(base)
	ins := []E2EInput{in}
	obs := runAll(base, ins, 1)
	e2eCase(c, ins[0], obs[0])
}
