package main

import (
	"fmt"
	"os"
	"strconv"
	"strings"
	"time"

	"github.com/thought-machine/please/src/parse/asp"
)

func main() {
	kind := os.Args[1]
	n, _ := strconv.Atoi(os.Args[2])
	var data string
	switch kind {
	case "paren":
		data = "x = " + strings.Repeat("(", n) + "\n"
	case "brack":
		data = "x = " + strings.Repeat("[", n) + "\n"
	case "nl":
		data = strings.Repeat("\n", n) + "x = 1\n"
	case "cr":
		data = strings.Repeat("\r", n) + "x = 1\n"
	case "comment":
		data = strings.Repeat("#\n", n) + "x = 1\n"
	case "plus":
		data = "x = 1" + strings.Repeat(" + 1", n) + "\n"
	case "neg":
		data = "x = " + strings.Repeat("- ", n) + "1\n"
	case "strs":
		data = "x = " + strings.Repeat("'a' ", n) + "\n"
	case "if":
		data = "x = 1" + strings.Repeat(" if 1 else 1", n) + "\n"
	case "dot":
		data = "x = a" + strings.Repeat(".a", n) + "\n"
	case "lit":
		data = os.Args[3]
	}
	t := time.Now()
	out := asp.VerifC19Parse([]byte(data))
	fmt.Printf("%s %d: %+v in %v\n", kind, n, out, time.Since(t))
}
