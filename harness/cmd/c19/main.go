// C19: the BUILD parser is total and fails only with positioned errors.
// Implementation side of the correspondence (real asp lexer + the public entry points Parser.ParseData,
// ParseFileOnly and ParseReader through the verif hook src/parse/asp/verif_c19.go, each under a recover so
// that a panic leaving one is reported with its input) and the model-independent property oracle.
package main

import (
	"bufio"
	"bytes"
	"crypto/sha1"
	"encoding/base64"
	"encoding/json"
	"fmt"
	"io"
	"os"
	"os/exec"
	"path/filepath"
	"runtime/debug"
	"sort"
	"strconv"
	"strings"
	"time"
	"unicode"
	"unicode/utf8"

	gologging "gopkg.in/op/go-logging.v1"

	"verifharness/lib"

	"github.com/thought-machine/please/src/parse/asp"
)

// ---------------------------------------------------------------------------------------------
// inputs

// Input is one BUILD file. Small ones carry their bytes (base64, so that NULs and invalid UTF-8
// survive JSON); large regular ones are prefix + unit*count + suffix.
type Input struct {
	Gen    string `json:"gen"`
	B64    string `json:"b64,omitempty"`
	Text   string `json:"text,omitempty"` // %q rendering of the first bytes, for the reader only
	Prefix string `json:"prefix,omitempty"`
	Unit   string `json:"unit,omitempty"`
	Count  int    `json:"count,omitempty"`
	Suffix string `json:"suffix,omitempty"`
	// round-2 streams: Mode "" = one BUILD file (above); "seq" = Parser.ParseFile over Seq (file kinds: 0 does not
	// parse - contents Bad[i] -, 1 parses but does not interpret, 2 fine) on one parser with Slots parse slots;
	// "conc" = failing parses from Workers goroutines for Ms milliseconds in a child process; "shared" = do two
	// error values share their line tables
	Mode    string   `json:"mode,omitempty"`
	Slots   int      `json:"slots,omitempty"`
	Seq     []int    `json:"seq,omitempty"`
	Bad     []string `json:"bad,omitempty"`
	Workers int      `json:"workers,omitempty"`
	Ms      int      `json:"ms,omitempty"`
}

func mk(gen string, data []byte) Input {
	t := data
	if len(t) > 160 {
		t = t[:160]
	}
	return Input{Gen: gen, B64: base64.StdEncoding.EncodeToString(data), Text: strconv.Quote(string(t))}
}

func rep(gen, prefix, unit string, count int, suffix string) Input {
	return Input{Gen: gen, Prefix: prefix, Unit: unit, Count: count, Suffix: suffix}
}

func (in Input) Bytes() []byte {
	if in.Count > 0 || in.Prefix != "" || in.Unit != "" {
		return []byte(in.Prefix + strings.Repeat(in.Unit, in.Count) + in.Suffix)
	}
	b, err := base64.StdEncoding.DecodeString(in.B64)
	if err != nil {
		panic(err)
	}
	return b
}

// ---------------------------------------------------------------------------------------------
// child mode: parse the inputs given on stdin (one JSON Input per line) in THIS process, one JSON
// result line each. A fatal error (stack overflow) kills the child; the parent sees which input did it.

type childResult struct {
	Out asp.VerifC19Outcome `json:"out"`
	Ms  int64               `json:"ms"`
}

func child() {
	gologging.SetLevel(gologging.CRITICAL, "plz")
	if v, err := strconv.Atoi(os.Getenv("C19_MAXSTACK")); err == nil && v > 0 {
		debug.SetMaxStack(v)
	}
	r := bufio.NewReaderSize(os.Stdin, 1<<20)
	w := bufio.NewWriter(os.Stdout)
	for {
		line, err := r.ReadBytes('\n')
		if len(bytes.TrimSpace(line)) > 0 {
			var in Input
			if e := json.Unmarshal(line, &in); e != nil {
				panic(e)
			}
			data := in.Bytes()
			t := time.Now()
			out := asp.VerifC19Guard(func() asp.VerifC19Outcome { return asp.VerifC19Parse(data) })
			js, _ := json.Marshal(childResult{Out: out, Ms: time.Since(t).Milliseconds()})
			w.Write(js)
			w.WriteByte('\n')
			w.Flush()
		}
		if err != nil {
			return
		}
	}
}

type isoResult struct {
	Done    bool // the child answered
	Res     childResult
	Crash   string // "" | "stack-overflow" | "timeout" | "other"
	Stderr  string
	Elapsed time.Duration
}

// isolated parses every input in a child process (restarted after a crash).
func isolated(ins []Input, perInput time.Duration, maxStack int) []isoResult {
	out := make([]isoResult, len(ins))
	i := 0
	for i < len(ins) {
		cmd := exec.Command(os.Args[0], "c19-child")
		cmd.Env = append(os.Environ(), "C19_MAXSTACK="+strconv.Itoa(maxStack))
		stdin, _ := cmd.StdinPipe()
		stdout, _ := cmd.StdoutPipe()
		var stderr bytes.Buffer
		cmd.Stderr = &limitedWriter{w: &stderr, n: 1 << 16}
		if err := cmd.Start(); err != nil {
			panic(err)
		}
		lines := make(chan []byte)
		go func() {
			rd := bufio.NewReaderSize(stdout, 1<<16)
			for {
				l, err := rd.ReadBytes('\n')
				if len(l) > 0 {
					lines <- l
				}
				if err != nil {
					close(lines)
					return
				}
			}
		}()
		alive := true
		for alive && i < len(ins) {
			js, _ := json.Marshal(ins[i])
			t := time.Now()
			if _, err := stdin.Write(append(js, '\n')); err != nil {
				alive = false
			}
			select {
			case l, ok := <-lines:
				if ok && json.Unmarshal(l, &out[i].Res) == nil {
					out[i].Done = true
					out[i].Elapsed = time.Since(t)
					i++
					continue
				}
				alive = false
			case <-time.After(perInput):
				out[i].Crash = "timeout"
				cmd.Process.Kill()
				alive = false
			}
		}
		stdin.Close()
		cmd.Process.Kill()
		for range lines {
		}
		cmd.Wait()
		if i < len(ins) && !out[i].Done {
			out[i].Stderr = stderr.String()
			if out[i].Crash == "" {
				if strings.Contains(out[i].Stderr, "stack overflow") {
					out[i].Crash = "stack-overflow"
				} else {
					out[i].Crash = "other"
				}
			}
			i++
		}
	}
	return out
}

type limitedWriter struct {
	w io.Writer
	n int
}

func (l *limitedWriter) Write(p []byte) (int, error) {
	if l.n > 0 {
		q := p
		if len(q) > l.n {
			q = q[:l.n]
		}
		l.w.Write(q)
		l.n -= len(q)
	}
	return len(p), nil
}

// ---------------------------------------------------------------------------------------------
// generators

type gen struct {
	r     *lib.Rng
	depth int
}

var identPool = []string{"x", "y", "name", "srcs", "deps", "_priv", "CONFIG", "go_library", "a1", "f", "r", "rf", "in_", "is_ok", "notx", "lambda_", "é", "变量", "π2"}
var kwPool = []string{"pass", "continue", "break", "def", "for", "if", "return", "raise", "assert", "else", "elif", "in", "not", "is", "and", "or", "lambda", "None", "True", "False"}

func (g *gen) ident() string { return lib.Pick(g.r, identPool) }

func (g *gen) str() string {
	bodies := []string{"", "a", "//src:lib", "x y", "it's", `say \"hi\"`, `a\nb`, `a\\`, "{x}", "{{x}}", "${x}", "{", "}", "{x.y}", "a{x}b{y}c", "$", "é", `\q`, "#no comment"}
	b := lib.Pick(g.r, bodies)
	switch g.r.Intn(9) {
	case 0:
		return "'" + strings.ReplaceAll(b, "'", `\'`) + "'"
	case 1:
		return `"""` + b + "\n more " + `"""`
	case 2:
		return "'''" + b + "'''"
	case 3:
		return `r"` + strings.ReplaceAll(b, `"`, "") + `"`
	case 4, 5:
		return `f"` + strings.ReplaceAll(b, `\"`, "") + `"`
	case 6:
		return `f'` + strings.ReplaceAll(b, "'", "") + `'`
	default:
		return `"` + b + `"`
	}
}

func (g *gen) exprList(min, max int) string {
	n := g.r.Range(min, max)
	parts := make([]string, n)
	for i := range parts {
		parts[i] = g.expr()
	}
	s := strings.Join(parts, ", ")
	if n > 0 && g.r.Chance(1, 4) {
		s += ","
	}
	return s
}

func (g *gen) callArgs() string {
	n := g.r.Range(0, 4)
	parts := make([]string, n)
	for i := range parts {
		if g.r.Chance(1, 2) {
			sp := lib.Pick(g.r, []string{" = ", "=", " =", "  =  "})
			parts[i] = g.ident() + sp + g.expr()
		} else {
			parts[i] = g.expr()
		}
	}
	return strings.Join(parts, lib.Pick(g.r, []string{", ", ",", ",\n    "}))
}

func (g *gen) names() string {
	n := g.r.Range(1, 3)
	parts := make([]string, n)
	for i := range parts {
		parts[i] = g.ident()
	}
	return strings.Join(parts, ", ")
}

func (g *gen) expr() string {
	g.depth++
	defer func() { g.depth-- }()
	k := g.r.Intn(22)
	if g.depth > 4 {
		k = g.r.Intn(6)
	}
	switch k {
	case 0, 1:
		return lib.Pick(g.r, []string{"0", "1", "42", "-7", "0o17", "007", "123456789012345678", "1234567890123456789", "-123456789012345678", "99999999999999999999999"})
	case 2, 3:
		return g.str()
	case 4:
		return g.ident()
	case 5:
		return lib.Pick(g.r, []string{"True", "False", "None"})
	case 6:
		return g.str() + " " + g.str()
	case 7:
		return g.str() + "\n    " + g.str() + " " + g.str()
	case 8:
		return "[" + g.exprList(0, 3) + "]"
	case 9:
		return "(" + g.exprList(0, 3) + ")"
	case 10:
		n := g.r.Range(0, 3)
		parts := make([]string, n)
		for i := range parts {
			parts[i] = g.expr() + ": " + g.expr()
		}
		return "{" + strings.Join(parts, ", ") + "}"
	case 11:
		c := "[" + g.expr() + " for " + g.names() + " in " + g.expr()
		if g.r.Chance(1, 3) {
			c += " for " + g.names() + " in " + g.expr()
		}
		if g.r.Chance(1, 2) {
			c += " if " + g.expr()
		}
		return c + "]"
	case 12:
		return "{" + g.expr() + ": " + g.expr() + " for " + g.names() + " in " + g.expr() + "}"
	case 13:
		return g.ident() + "(" + g.callArgs() + ")"
	case 14:
		return g.ident() + "." + g.ident() + "(" + g.callArgs() + ")" + lib.Pick(g.r, []string{"", ".y", "[0]", "(1)"})
	case 15:
		return g.expr() + lib.Pick(g.r, []string{"[0]", "[1:]", "[:2]", "[:]", "[1:2]", "[x][y]", "[-1]", "[::]", "[1:2:3]"})
	case 16:
		op := lib.Pick(g.r, []string{"+", "-", "*", "/", "//", "%", "<", ">", "and", "or", "is", "is not", "in", "not in", "==", "!=", ">=", "<=", "|", "not", "&", "**", "<>"})
		return g.expr() + " " + op + " " + g.expr()
	case 17:
		return lib.Pick(g.r, []string{"-", "not ", "- ", "not not "}) + g.expr()
	case 18:
		return g.expr() + " if " + g.expr() + " else " + g.expr()
	case 19:
		return "lambda " + lib.Pick(g.r, []string{"", "x", "x, y", "x=1", "x, y=2,"}) + ": " + g.expr()
	case 20:
		return "(" + g.expr() + ")"
	default:
		return g.str() + ".format(" + g.callArgs() + ")"
	}
}

func (g *gen) block(ind string, inFor, inDef bool, n int) string {
	var b strings.Builder
	for i := 0; i < n; i++ {
		b.WriteString(g.stmt(ind, inFor, inDef))
	}
	return b.String()
}

func (g *gen) stmt(ind string, inFor, inDef bool) string {
	g.depth++
	defer func() { g.depth-- }()
	k := g.r.Intn(20)
	if g.depth > 3 {
		k = g.r.Intn(9)
	}
	nl := "\n"
	if g.r.Chance(1, 12) {
		nl = lib.Pick(g.r, []string{"\n\n", "  # comment\n", "\r\n", "\n" + ind + "# c\n", "\n   \n"})
	}
	in2 := ind + lib.Pick(g.r, []string{"    ", "  ", " "})
	switch k {
	case 0, 1, 2:
		return ind + g.ident() + lib.Pick(g.r, []string{" = ", "=", " += "}) + g.expr() + nl
	case 3:
		return ind + g.ident() + "(" + g.callArgs() + ")" + nl
	case 4:
		return ind + g.ident() + "." + g.ident() + "(" + g.callArgs() + ")" + nl
	case 5:
		return ind + g.ident() + "[" + g.expr() + "]" + lib.Pick(g.r, []string{" = ", " += ", " -= "}) + g.expr() + nl
	case 6:
		return ind + g.names() + ", " + g.ident() + " = " + g.expr() + nl
	case 7:
		return ind + lib.Pick(g.r, []string{"pass", "assert " + g.expr(), "assert " + g.expr() + ", " + g.str(), "raise " + g.expr(), g.expr(), g.ident()}) + nl
	case 8:
		if inFor || g.r.Chance(1, 6) {
			return ind + lib.Pick(g.r, []string{"continue", "break"}) + nl
		}
		if inDef || g.r.Chance(1, 6) {
			return ind + "return" + lib.Pick(g.r, []string{"", " " + g.expr(), " " + g.expr() + ", " + g.expr(), " " + g.expr() + ","}) + nl
		}
		return ind + "pass" + nl
	case 9, 10, 11:
		s := ind + "if " + g.expr() + ":" + nl + g.block(in2, inFor, inDef, g.r.Range(1, 3))
		for g.r.Chance(1, 3) {
			s += ind + "elif " + g.expr() + ":\n" + g.block(in2, inFor, inDef, g.r.Range(1, 2))
		}
		if g.r.Chance(1, 2) {
			s += ind + "else:\n" + g.block(in2, inFor, inDef, g.r.Range(1, 2))
		}
		return s
	case 12, 13:
		return ind + "for " + g.names() + " in " + g.expr() + ":" + nl + g.block(in2, true, inDef, g.r.Range(1, 3))
	default:
		n := g.r.Range(0, 4)
		args := make([]string, n)
		for i := range args {
			a := g.ident()
			if g.r.Chance(1, 2) {
				a += lib.Pick(g.r, []string{":str", ": int", ":list|dict", ": bool | function", ":config", ":float"})
			}
			if g.r.Chance(1, 4) {
				a += lib.Pick(g.r, []string{"&alias", " & a1 & a2"})
			}
			if g.r.Chance(1, 2) {
				a += "=" + g.expr()
			}
			args[i] = a
		}
		retType := ""
		if g.r.Chance(1, 3) {
			retType = " -> " + lib.Pick(g.r, []string{"str", "list", "dict", "bool", "int", "function", "config", "none", "None", "float"})
		}
		s := ind + "def " + g.ident() + "(" + strings.Join(args, ", ") + ")" + retType + ":" + nl
		if g.r.Chance(1, 3) {
			s += in2 + lib.Pick(g.r, []string{`"""doc"""`, `"doc"`, "'''multi\n    line'''"}) + "\n"
			if g.r.Chance(1, 4) {
				return s
			}
		}
		return s + g.block(in2, false, true, g.r.Range(1, 3))
	}
}

func program(r *lib.Rng) []byte {
	g := &gen{r: r}
	return []byte(g.block("", false, false, r.Range(1, 4)))
}

var mutBytes = []byte(" \n\t\r\x00\"'\\#()[]{}:,.=+-*/%<>!|&0123456789abfrxo_\x80\xc3\xa9\xe5\xff{}$")

func mutate(r *lib.Rng, data []byte) []byte {
	out := append([]byte{}, data...)
	n := r.Range(1, 3)
	for i := 0; i < n; i++ {
		if len(out) == 0 {
			out = append(out, lib.Pick(r, mutBytes))
			continue
		}
		p := r.Intn(len(out))
		switch r.Intn(9) {
		case 0: // delete a byte
			out = append(out[:p], out[p+1:]...)
		case 1: // insert a byte
			out = append(out[:p], append([]byte{lib.Pick(r, mutBytes)}, out[p:]...)...)
		case 2: // replace a byte
			out[p] = lib.Pick(r, mutBytes)
		case 3: // truncate
			out = out[:p]
		case 4: // duplicate a span
			q := min(len(out), p+r.Range(1, 12))
			out = append(out[:q], append(append([]byte{}, out[p:q]...), out[q:]...)...)
		case 5: // delete a span (a token or two)
			q := min(len(out), p+r.Range(1, 8))
			out = append(out[:p], out[q:]...)
		case 6: // insert a keyword or operator
			w := " " + lib.Pick(r, append(kwPool, "==", "+=", "//", "->", "not in", "is not", "f\"", "r'", "\"\"\"", "'''")) + " "
			out = append(out[:p], append([]byte(w), out[p:]...)...)
		case 7: // change indentation of a line
			if q := bytes.IndexByte(out[p:], '\n'); q >= 0 {
				ins := lib.Pick(r, []string{" ", "  ", "    ", "\t"})
				out = append(out[:p+q+1], append([]byte(ins), out[p+q+1:]...)...)
			}
		default: // swap two spans
			q := r.Intn(len(out))
			if p > q {
				p, q = q, p
			}
			l := min(r.Range(1, 6), q-p, len(out)-q)
			if l > 0 {
				tmp := append([]byte{}, out[p:p+l]...)
				copy(out[p:p+l], out[q:q+l])
				copy(out[q:q+l], tmp)
			}
		}
	}
	return out
}

func randomBytes(r *lib.Rng) []byte {
	n := r.Range(0, 40)
	out := make([]byte, n)
	full := r.Chance(1, 4)
	for i := range out {
		if full {
			out[i] = byte(r.Intn(256))
		} else {
			out[i] = lib.Pick(r, mutBytes)
		}
	}
	return out
}

// the fixed adversarial stream: boundary inputs of the lexer and of the string / f-string code
var adversarial = []string{
	"", "\n", "\x00", "\x00\x00", "x\x00", "x = 1\x00y = 2\n", "(\x00", "x = (1,\x00 2)\n", "x\x00\x00\x00", "\x00\n\x00\n",
	"x", "x ", "x =", "x = ", "x = 1", "x = 1\n", "\n\nx = 1\n\n\n", "  x = 1\n", "#", "# c", "#\x00", "x = 1 # c\x00d\n",
	`x = "`, `x = "\`, `x = "\"`, `x = "a`, `x = 'a"`, `x = """`, `x = """a`, `x = """a""`, `x = """a"""`, `x = """a\`, "x = '''a\n\\\n'''", `x = ""`, `x = """"`, `x = """""`, `x = """"""`,
	`x = r"\"`, `x = r"\\"`, `x = r'a\'`, `x = r`, `x = r"`, `x = f`, `x = f"`, `x = f""`, `x = rf"a"`, `x = fr"a"`, `r"`, `f'`, "r", "f", "r\x00", "f\x00",
	`x = f"{"`, `x = f"{a"`, `x = f"}"`, `x = f"{{"`, `x = f"{{}}"`, `x = f"{}"`, `x = f"{a}"`, `x = f"{a}{b}"`, `x = f"{{a}}"`, `x = f"{{{a}}}"`, `x = f"${a}"`, `x = f"$${a}"`, `x = f"{a.b.c}"`, `x = f"{a}}"`, `x = f"}{"`, `x = f"{{{"`, `x = f"{é}"`, "x = f\"\xff{a}\"", `x = f"a{"`, `x = f"{a}{"`,
	`x = "a" f"b"`, `x = f"b" "a"`, `x = f"a" f"b"`, `x = f"{a}" f"b"`, `x = f"a" f"{b}"`, `x = "a" "b"`, `x = "a" f"{b}"`, `x = "a" f"b" "c" f"{d}" 'e'`, `x = "a" "b"[0]`, `x = "a" f"b".c()`, `x = "" ""`, `x = "" f""`, `x = f"" f""`, `x = f"" ""`, "x = ('a'\n 'b'\n f'c')\n",
	"x = 0", "x = 00", "x = 0o", "x = 0o17", "x = 0o8", "x = 0x1F", "x = 1e5", "x = 1.5", "x = -", "x = -1", "x = - 1", "x = --1", "x = 1-1", "x = 1 -1", "x = 123456789012345678", "x = 1234567890123456789", "x = -12345678901234567", "x = -123456789012345678",
	"x = " + strings.Repeat("9", 100), "x = 0o" + strings.Repeat("7", 30),
	"if x:\n  y = 1\n z = 2\n", "if x:\n    y = 1\n  z = 2\n", "if x:\n  y\n", "if x:\n  y", "if x:\n", "if x:", "if x:\n\n", "if x:\n  if y:\n    z\n", "if x:\n  if y:\n    z\nw\n", "if x:\n  if y:\n    z\n  w\n", "if x:\n  if y:\n    z\n w\n",
	"if x:\n  y = (1,\n2)\n", "x = (\n  1,\n    2,\n)\n", "x = [\n# c\n1]\n", "if x:\n  y\n  # c\nz\n", "if x:\n  y\n# c\n  z\n", "if x:\n\ty\n", "\tx\n", "x = 1\t\n", "if x:\n  y\n   \n  z\n", "if x:\r\n  y\r\n", "\r", "\r\r\n", "x = 1\r",
	"def f(", "def f(a", "def f(a:", "def f(a:str", "def f(a:str|", "def f(a&", "def f(a&b", "def f(a&b=", "def f(a=", "def f():", "def f():\n", "def f():\n  pass", "def f() ->", "def f() -> str", "def f() -> str:\n  pass\n", "def f() - > str:\n  pass\n", "def f()-x:\n pass\n", "def f():\n  '''doc'''\n", "def f():\n  '''doc'''\n  pass\n", "def", "def 1", "def f", "def f(a:foo):\n  pass\n", "def f(a:str&b&c=1, d:list|dict=[]) -> none:\n  return\n",
	"for", "for x", "for x in", "for x in y", "for x in y:", "for x in y:\n", "for x, in y:\n  pass\n", "for x,y in z:\n  continue\n", "continue", "break\n", "def f():\n  continue\n", "for x in y:\n  def g():\n    break\n",
	"return", "return 1", "return 1,", "return 1, 2\n", "return ,\n", "raise", "raise x", "assert", "assert x,", "assert x, 'm'\n", "pass", "pass x\n", "pass\n", "pass = 1\n", "None = 1\n", "True\n", "lambda = 2\n", "x, y", "x, y = 1, 2\n", "x, = 1\n", "x[", "x[1", "x[1]", "x[1] = 2\n", "x[1] += 2\n", "x[1] -= 2\n", "x[1][2] = 3\n", "x.", "x.y", "x.y()\n", "x.y.z\n", "x(", "x()", "x(a=", "x(a=1, a=2)\n", "x(a =1, b= 2, c  =  3)\n", "x(a==1)\n", "x(a\n=1)\n", "x(a,\n  b = 2)\n", "x(1 = 2)\n", "x +", "x += ", "x -= 1\n", "x == 1\n", "x =\n",
	"x = [", "x = [1", "x = [1,", "x = [1,]", "x = [,]\n", "x = [1 for", "x = [1 for y", "x = [1 for y in", "x = [1 for y in z", "x = [1, 2 for y in z]\n", "x = [for y in z]\n", "x = [1 for y in z for a in b if c]\n", "x = [1 for y in z if a if b]\n", "x = {", "x = {1", "x = {1:", "x = {1:2", "x = {1:2,", "x = {1:2 for", "x = {1:2, 3:4 for a in b}\n", "x = {1}\n", "x = (1]\n", "x = [1)\n", "x = {1:2]\n", "x = )\n", "x = ]\n", "x = }\n", ")", "]]]]", "}{", "x = (1\ny = 2\n", "x = 1)\ny = (\n",
	"x = a[", "x = a[:", "x = a[:]", "x = a[::]\n", "x = a[1:", "x = a[1:2", "x = a[1:2:3]\n", "x = a[:2]\n", "x = a[1:]\n", "x = a[b][c](d).e\n", "x = a.b.c(d)(e).f\n", "x = a.1\n", "x = a..b\n", "x = a.(b)\n",
	"x = not", "x = not in\n", "x = a not\n", "x = a not b\n", "x = a not in b\n", "x = a is\n", "x = a is not\n", "x = a is not b\n", "x = a is not not b\n", "x = not a\n", "x = not not a\n", "x = a and not b\n", "x = -a\n", "x = - -a\n", "x = a if\n", "x = a if b\n", "x = a if b else\n", "x = a if b else c if d else e\n", "x = a or b and c == d != e < f > g <= h >= i | j in k\n", "x = a & b\n", "x = a ** b\n", "x = a <> b\n", "x = a ! b\n", "x = !a\n", "x = a === b\n", "x = a // b / c % d\n", "x = a / / b\n",
	"x = lambda", "x = lambda:", "x = lambda: 1\n", "x = lambda x", "x = lambda x,: 1\n", "x = lambda x=: 1\n", "x = lambda x=1, y: x\n", "x = lambda (x): 1\n",
	"@", "x = $", "x = `a`", "x = a ? b\n", "x = ~a\n", "x = a; b\n", "x = a \\\n b\n", "é = 1\n", "x = é\n", "变量 = 1\n", "x\xc3 = 1\n", "\xff", "\x80x = 1\n", "x\xe2\x80\x8b = 1\n", "x = \xf0\x9f\x98\x80\n", "a\xcc\x81 = 1\n", "x = '\xff\xfe'\n", "x٣ = 1\n", "\xed\xa0\x80 = 1\n", "\xc0\x80 = 1\n", "\xf4\x90\x80\x80\n", "x\xe5\x8f",
}

// The first-token family: newLexer lexes the first token eagerly, BEFORE parseFileInput's statement loop, so a
// lexical error there takes a different path through parseFileInput / parseAndHandleErrors than one anywhere
// later. Every prefix leaves the bad bytes in the first token (blank lines, comments and indentation are skipped
// by the same nextToken call).
var firstTokenPrefixes = []string{"", "\n", "\n\n\n", "# c\n", "\r\n", "  ", "\n  ", " \n", "\r", "#\n\n", "\x00"}
var firstTokenBad = []string{
	"\t", "$", "?", "`", "~", "@", ";", "\\", "!", "!x", "^", "\x01", "\x7f",
	"'unterminated", "\"unterminated", "\"\"\"never closed\n\n", "'''x\n", "f'", "r\"", "f\"{", "'a\\", "\"\n\"",
	"\xff\xfe", "\x80", "\xc3", "\xe5\x8f", "\xed\xa0\x80", "\xf0\x9f\x98\x80", "\xc2\xa0", "\xe2\x80\x8b", "\xc0\x80", "\xf4\x90\x80\x80",
	"\x00", "0o8", "1e", "-", ")",
}
var firstTokenSuffixes = []string{"", "x = 1\n", "\n", " = 1\n", "foo(name = 'a')\n"}

func repoFiles(repo string) [][]byte {
	var paths []string
	filepath.Walk(repo, func(p string, info os.FileInfo, err error) error {
		if err != nil {
			return nil
		}
		if info.IsDir() {
			if n := info.Name(); n == ".git" || n == "plz-out" || n == "node_modules" {
				return filepath.SkipDir
			}
			return nil
		}
		n := info.Name()
		if n == "BUILD" || n == "BUILD.plz" || strings.HasSuffix(n, ".build_defs") || strings.HasSuffix(n, ".build") {
			if info.Size() > 0 && info.Size() < 200000 {
				paths = append(paths, p)
			}
		}
		return nil
	})
	sort.Strings(paths)
	var out [][]byte
	for _, p := range paths {
		if b, err := os.ReadFile(p); err == nil {
			out = append(out, b)
		}
	}
	return out
}

// window cuts a run of whole lines of at most max bytes out of a file
func window(r *lib.Rng, data []byte, max int) []byte {
	if len(data) <= max {
		return data
	}
	start := r.Intn(len(data) - max/2)
	if i := bytes.IndexByte(data[start:], '\n'); i >= 0 && start > 0 {
		start += i + 1
	}
	end := min(len(data), start+r.Range(max/4, max))
	if i := bytes.LastIndexByte(data[start:end], '\n'); i > 0 {
		end = start + i + 1
	}
	return data[start:end]
}

// ---------------------------------------------------------------------------------------------
// round-2 streams

// failing inputs for the concurrent stream: errors in the first token, on the first line, on a later line
var concInputs = []string{"$", "x = (", "x = 1\ny = [1, 2\nz = $\n", "def f(:\n", "if x:\n  y = 1\n z = 2\n", "x = 'unterminated\n", "\tx = 1\n", "x = f\"{\"\n"}

type concResult struct {
	Calls int64 `json:"calls"`
	Bad   int64 `json:"bad"`
}

// concChild: failing parses from many goroutines on ONE parser in THIS process; a data race on the error path
// aborts it (fatal error: concurrent map ...), which the parent sees as the exit status.
func concChild(workers, ms string) {
	gologging.SetLevel(gologging.CRITICAL, "plz")
	w, _ := strconv.Atoi(workers)
	m, _ := strconv.Atoi(ms)
	ins := make([][]byte, len(concInputs))
	for i, x := range concInputs {
		ins[i] = []byte(x)
	}
	calls, bad := asp.VerifC19ConcurrentFailing(w, ins, time.Duration(m)*time.Millisecond)
	js, _ := json.Marshal(concResult{Calls: calls, Bad: bad})
	os.Stdout.Write(append(js, '\n'))
}

// runConc runs the child and returns its result, its exit error text ("" when it exited 0) and its stderr.
func runConc(workers, ms int) (concResult, string, string) {
	cmd := exec.Command(os.Args[0], "c19-conc-child", strconv.Itoa(workers), strconv.Itoa(ms))
	var stdout, stderr bytes.Buffer
	cmd.Stdout = &stdout
	cmd.Stderr = &limitedWriter{w: &stderr, n: 1 << 16}
	if err := cmd.Start(); err != nil {
		panic(err)
	}
	done := make(chan error, 1)
	go func() { done <- cmd.Wait() }()
	var res concResult
	select {
	case err := <-done:
		if err != nil {
			return res, err.Error(), stderr.String()
		}
	case <-time.After(time.Duration(ms)*time.Millisecond + 120*time.Second):
		cmd.Process.Kill()
		<-done
		return res, "timeout", stderr.String()
	}
	if json.Unmarshal(bytes.TrimSpace(stdout.Bytes()), &res) != nil {
		return res, "no result line", stderr.String()
	}
	return res, "", stderr.String()
}

func coqBool(b bool) string {
	if b {
		return "true"
	}
	return "false"
}

// ---------------------------------------------------------------------------------------------
// Coq printing

func coqZ(x int) string {
	if x < 0 {
		return "(" + strconv.Itoa(x) + ")%Z"
	}
	return strconv.Itoa(x) + "%Z"
}

// coqBytes prints a byte string: printable ones as (s "..."), others as (sx "...") with \hh escapes
func coqBytes(x string) string {
	plain := true
	for i := 0; i < len(x); i++ {
		if x[i] < 0x20 || x[i] > 0x7e || x[i] == '\\' {
			plain = false
			break
		}
	}
	if plain {
		return lib.Str(x)
	}
	var b strings.Builder
	b.WriteString(`(sx "`)
	for i := 0; i < len(x); i++ {
		c := x[i]
		switch {
		case c == '"':
			b.WriteString(`""`)
		case c < 0x20 || c > 0x7e || c == '\\':
			fmt.Fprintf(&b, "\\%02x", c)
		default:
			b.WriteByte(c)
		}
	}
	b.WriteString(`")`)
	return b.String()
}

func letters(data []byte) []uint32 {
	seen := map[rune]bool{}
	var out []uint32
	for i := range data {
		if data[i] < utf8.RuneSelf {
			continue
		}
		rn, w := utf8.DecodeRune(data[i:])
		if rn == utf8.RuneError && w <= 1 {
			continue
		}
		if (unicode.IsLetter(rn) || unicode.IsDigit(rn)) && !seen[rn] {
			seen[rn] = true
			out = append(out, uint32(rn))
		}
	}
	return out
}

func coqCase(data []byte, toks []asp.VerifC19Token, lo, po asp.VerifC19Outcome) string {
	var lobs, pobs string
	switch lo.Kind {
	case "ok":
		items := make([]string, len(toks))
		for i, t := range toks {
			items[i] = "(" + coqZ(t.Type) + ", " + coqBytes(t.Value) + ", " + lib.N(uint64(t.Pos)) + ")"
		}
		lobs = lib.App("OLexOk", lib.List(items))
	case "positioned":
		lobs = lib.App("OLexErr", lib.N(uint64(lo.N)), lib.N(uint64(lo.Offset)))
	default:
		lobs = "OLexOther"
	}
	switch po.Kind {
	case "ok":
		pobs = lib.App("OParseOk", lib.N(uint64(po.N)))
	case "positioned":
		pobs = lib.App("OParseErr", lib.N(uint64(po.Offset)))
	case "crash":
		pobs = "OParseCrash"
	default:
		pobs = "OParseOther"
	}
	return lib.App("Case", coqBytes(string(data)), lib.NList(letters(data)), lobs, pobs)
}

// ---------------------------------------------------------------------------------------------

func sizeBucket(n int) string {
	switch {
	case n == 0:
		return "0"
	case n < 16:
		return "1-15"
	case n < 64:
		return "16-63"
	case n < 256:
		return "64-255"
	case n < 1024:
		return "256-1023"
	case n < 16384:
		return "1k-16k"
	default:
		return ">=16k"
	}
}

func errClass(msg string) string {
	m := msg
	if i := strings.Index(m, "runtime error: "); i >= 0 {
		m = m[i+len("runtime error: "):]
		// drop the numbers so that one panic site is one class
		var b strings.Builder
		for _, c := range m {
			if c >= '0' && c <= '9' {
				continue
			}
			if c == ' ' || c == ':' || c == '[' || c == ']' {
				c = '-'
			}
			b.WriteRune(c)
		}
		s := strings.Trim(strings.ReplaceAll(b.String(), "--", "-"), "-")
		if len(s) > 50 {
			s = s[:50]
		}
		return "internal-runtime-error-" + s
	}
	return "unpositioned-error"
}

// tokenPostcondition tests, without any model, what the parser assumes of the tokens it is handed:
// String tokens are "..." or f"..." with both quotes, Int tokens are not empty, EOF tokens carry no value,
// positions never decrease, a complete stream ends with EOF. Returns a defect class and a description.
func tokenPostcondition(toks []asp.VerifC19Token, lo asp.VerifC19Outcome) (string, string) {
	last := 0
	for i, t := range toks {
		switch t.Type {
		case int(asp.String):
			body := t.Value
			if len(body) > 0 && body[0] == 'f' {
				body = body[1:]
			}
			if len(body) < 2 || body[0] != '"' || body[len(body)-1] != '"' {
				return "lexer-string-token-without-quotes", fmt.Sprintf("token %d: String token %q is not \"...\" or f\"...\"", i, t.Value)
			}
		case int(asp.Int):
			if t.Value == "" {
				return "lexer-empty-int-token", fmt.Sprintf("token %d: Int token without digits", i)
			}
		case int(asp.EOF):
			if t.Value != "" {
				return "lexer-eof-token-with-value", fmt.Sprintf("token %d: EOF token with value %q", i, t.Value)
			}
		}
		if t.Pos < last {
			return "lexer-token-position-decreases", fmt.Sprintf("token %d at %d after a token at %d", i, t.Pos, last)
		}
		last = t.Pos
	}
	if lo.Kind == "ok" && (len(toks) == 0 || toks[len(toks)-1].Type != int(asp.EOF)) {
		return "lexer-stream-without-eof", "a complete token stream does not end with EOF"
	}
	return "", ""
}

func main() {
	if len(os.Args) > 1 && os.Args[1] == "c19-child" {
		child()
		return
	}
	if len(os.Args) > 3 && os.Args[1] == "c19-conc-child" {
		concChild(os.Args[2], os.Args[3])
		return
	}
	lib.Main("C19", func(c *lib.Ctx) {
		gologging.SetLevel(gologging.CRITICAL, "plz")
		c.Model("From PlzV Require Import Model.C19.", "C19.case", "C19.check")
		c.Rule("inputs: (a) programs from a grammar of the BUILD language (statements, defs with typed/aliased/default arguments, for/if/elif/else, " +
			"strings in every quoting and prefix form, f-strings, adjacent literals, comprehensions, lambdas, slices, operators incl. 'not in'/'is not'), raw and after 1-3 byte/span/keyword/indentation mutations; " +
			"(b) whole files and line windows of the repository's own BUILD / build_defs files, raw and mutated; (c) random bytes over a lexer-relevant alphabet and over all 256 values, incl. NULs; " +
			"(d) a fixed adversarial list (NUL placement, unterminated and triple-quoted strings, f-string braces, adjacent string/f-string literals, integer limits, indentation, every production cut short, UTF-8 edge cases) and the pre-fix corpus; " +
			"(d') the first-token family: 11 prefixes that leave the lexer in its first nextToken call (nothing, blank lines, comments, CR, indentation, NUL) x 37 first tokens that are lexical errors or boundary cases (tab, $ ? ` ~ @ ; \\ ! ^, control bytes, unterminated strings in every quoting, invalid / non-letter / overlong / surrogate UTF-8, NUL, bad ints) x 5 suffixes, and one of them put in front of every generated program; " +
			"(e) nesting/repetition 10^3-10^4 deep in-process and 10^6-10^7 deep in a child process. Each input is lexed (real lexer alone) and parsed through the PUBLIC entry points, each under a recover: Parser.ParseData, Parser.ParseFileOnly (a file on disk) and, when it does not parse, Parser.ParseReader - a panic that leaves one is the defect class panic-escapes-public-entry-point, a different result kind / statement count / error position is entry-points-disagree; " +
			"model cases compare the whole token stream (type, value, position) or the lexer error position, and the parse result kind, statement count or error position; " +
			"the oracle also tests the lexer postcondition of C19_lex_tokens (quotes of String tokens, non-empty Int, empty EOF value, non-decreasing positions, EOF last) on every real token stream. " +
			"(f) every positioned error is PRINTED (err.Error()) under a recover, for an unreadable source (ParseData under a name that is not a file: line 1, column = offset+1, so the caret lies beyond the displayed line for every error after line 1) and a file on disk, coloured and plain: a panic is the class panic-while-printing-positioned-error; model cases RenderCase (context, len(line), column, coloured -> full / short / panic), one per distinct tuple; " +
			"(g) ONE Parser (real interpreter, parse.numthreads = 1, 2, 3, 10) runs Parser.ParseFile over sequences of files that do not parse / do not interpret / are fine, always more malformed files than parse slots, a 15 s watchdog per call and the limiter's occupancy read after each call: classes parsefile-never-returns-after-failed-parses, parse-slot-not-released-by-parsefile; model cases SeqCase; " +
			"(h) two failing parses must not share their line-table map (error-line-tables-shared-between-parses; model case SharedCase) and a child process runs failing parses under distinct names from 16 goroutines on one Parser for 2.5 s (30 s thorough): an abort by the Go runtime is fatal-concurrent-map-access-in-failing-parses. " +
			"distinct = distinct byte strings (sequences: distinct kind lists); non-trivial = at least 3 tokens or a parse error")

		tStart := time.Now()
		repo := os.Getenv("VERIF_REPO")
		if repo == "" {
			repo = "/repo"
		}
		verif := os.Getenv("VERIF_DIR")
		if verif == "" {
			verif = "/verif"
		}

		// the file Parser.ParseFileOnly reads: on tmpfs when there is one (thousands of small writes)
		entryBase := ""
		if st, err := os.Stat("/dev/shm"); err == nil && st.IsDir() {
			entryBase = "/dev/shm"
		}
		entryDir, err := os.MkdirTemp(entryBase, "verif-c19-entry-")
		if err != nil {
			entryDir, err = os.MkdirTemp("", "verif-c19-entry-")
		}
		if err != nil {
			panic(err)
		}
		defer os.RemoveAll(entryDir)

		renderSeen := map[string]bool{}
		renderMax := c.Scale(500, 6000)

		// one evaluation: implementation run + oracle (+ model case when withModel)
		eval := func(in Input, withModel bool) {
			data := in.Bytes()
			t0 := time.Now()
			po := asp.VerifC19Guard(func() asp.VerifC19Outcome { return asp.VerifC19Parse(data) })
			el := time.Since(t0)
			toks, lo := asp.VerifC19Lex(data)
			sum := sha1.Sum(data)
			key := string(sum[:])
			nontrivial := len(toks) >= 3 || po.Kind != "ok"
			js := map[string]any{"input": in, "parse": po, "lex": lo}
			if withModel {
				c.Case(coqCase(data, toks, lo, po), in, key, nontrivial)
			} else {
				c.Eval(js, key, nontrivial)
			}
			c.Hist("generator", in.Gen)
			c.Hist("size", sizeBucket(len(data)))
			c.Hist("parse-outcome", po.Kind)
			c.Hist("lex-outcome", lo.Kind)
			// ---- the property oracle (no model involved)
			c.Oracle()
			switch po.Kind {
			case "ok", "positioned":
				if strings.Contains(po.Msg, "runtime error") {
					c.Fail(errClass(po.Msg), "ParseData reported a Go runtime error: "+po.Msg, in)
				}
			case "crash":
				c.Fail("panic-escapes-public-entry-point", "a panic left Parser.ParseData (its callers have no recover: the process crashes): "+po.Msg, in)
			default:
				c.Fail(errClass(po.Msg), "ParseData returned an error without a source position: "+po.Msg, in)
			}
			if lo.Kind != "ok" && lo.Kind != "positioned" {
				c.Fail("lexer-"+errClass(lo.Msg), "the lexer alone failed without a position: "+lo.Msg, in)
			}
			// the lexer postcondition C19_parse_safe rests on (C19_lex_tokens proves it of the model), tested on
			// the tokens of the real lexer: the parser indexes tok.Value[0], tok.Value[2:len-1], String[1:len-1]
			if cls, what := tokenPostcondition(toks, lo); cls != "" {
				c.Fail(cls, what, in)
			}
			if po.Kind == "positioned" && (po.Offset < 0 || po.Offset > len(data)+2) {
				c.Fail("error-position-outside-file", fmt.Sprintf("error position %d outside the %d-byte file", po.Offset, len(data)), in)
			}
			// the other public entry points: the same file through Parser.ParseFileOnly (a real file on disk) and,
			// when it does not parse, through Parser.ParseReader; none may panic, all must agree with ParseData
			if len(data) <= 20000 {
				same := func(a asp.VerifC19Outcome) bool {
					return a.Kind == po.Kind && a.N == po.N && (a.Kind != "positioned" || a.Offset == po.Offset)
				}
				entryFile := filepath.Join(entryDir, "BUILD")
				if err := os.WriteFile(entryFile, data, 0o644); err != nil {
					panic(err)
				}
				pf := asp.VerifC19Guard(func() asp.VerifC19Outcome { return asp.VerifC19ParseFileOnly(entryFile) })
				c.Hist("entry-ParseFileOnly", pf.Kind)
				if pf.Kind == "crash" {
					c.Fail("panic-escapes-public-entry-point", "a panic left Parser.ParseFileOnly: "+pf.Msg, in)
				} else if po.Kind != "crash" && !same(pf) {
					c.Fail("entry-points-disagree", fmt.Sprintf("ParseData: %s/%d/%d, ParseFileOnly: %s/%d/%d %s", po.Kind, po.N, po.Offset, pf.Kind, pf.N, pf.Offset, pf.Msg), in)
				}
				if po.Kind != "ok" && po.Kind != "crash" {
					pr := asp.VerifC19Guard(func() asp.VerifC19Outcome { return asp.VerifC19ParseReaderFailing(data) })
					c.Hist("entry-ParseReader", pr.Kind)
					pr.N = po.N // ParseReader does not return the statements
					if pr.Kind == "crash" {
						c.Fail("panic-escapes-public-entry-point", "a panic left Parser.ParseReader: "+pr.Msg, in)
					} else if !same(pr) {
						c.Fail("entry-points-disagree", fmt.Sprintf("ParseData: %s/%d, ParseReader: %s/%d %s", po.Kind, po.Offset, pr.Kind, pr.Offset, pr.Msg), in)
					}
				}
			}
			// PRINTING the error: a positioned error is worth nothing if err.Error() - what plz, the language server
			// and the formatter do with it - panics. Readable source (a file on disk: line table known) and unreadable
			// source (ParseData under a name that is not a file: line 1, column = offset + 1), coloured and plain.
			if po.Kind == "positioned" && len(data) <= 20000 {
				for _, onDisk := range []string{"", filepath.Join(entryDir, "BUILD")} {
					for _, coloured := range []bool{false, true} {
						rr := asp.VerifC19RenderError(data, onDisk, coloured)
						c.Oracle()
						src := "unreadable"
						if onDisk != "" {
							src = "on-disk"
						}
						c.Hist("render-"+src+"-coloured="+coqBool(coloured), rr.Kind)
						switch rr.Kind {
						case "crash":
							c.Fail("panic-while-printing-positioned-error", fmt.Sprintf("err.Error() panicked (source %s, coloured=%v, line %d column %d, displayed line of %d bytes): %s", src, coloured, rr.Line, rr.Column, rr.LineLen, rr.Msg), in)
						case "full":
							if !strings.Contains(rr.Msg, rr.Short) {
								c.Fail("printed-error-lost-its-message", fmt.Sprintf("the printed error %q does not contain %q", rr.Msg, rr.Short), in)
							}
						case "short":
						default:
							c.Fail("entry-points-disagree", fmt.Sprintf("ParseData: positioned, but when rendering (source %s): %s %s", src, rr.Kind, rr.Msg), in)
						}
						if rr.Line < 1 || rr.Column < 1 {
							c.Fail("error-position-not-one-based", fmt.Sprintf("line %d column %d (source %s)", rr.Line, rr.Column, src), in)
						}
						obs := map[string]int{"full": 0, "short": 1, "crash": 2}
						if o, ok := obs[rr.Kind]; ok {
							key := fmt.Sprintf("render/%v/%d/%d/%v/%d", rr.HasContext, rr.LineLen, rr.Column, coloured, o)
							if !renderSeen[key] && len(renderSeen) < renderMax {
								renderSeen[key] = true
								c.Case(lib.App("RenderCase", coqBool(rr.HasContext), coqZ(rr.LineLen), coqZ(rr.Column), coqBool(coloured), lib.N(uint64(o))),
									map[string]any{"input": in, "render": rr, "coloured": coloured, "source": src}, key, true)
							}
						}
					}
				}
			}
			if el > 120*time.Second && len(data) < 100000 {
				c.Fail("parse-too-slow", fmt.Sprintf("parsing %d bytes took %v", len(data), el), in)
			}
		}

		// ---- one parser, many files (Parser.ParseFile), with a watchdog per call
		seqDir, err := os.MkdirTemp(entryBase, "verif-c19-seq-")
		if err != nil {
			panic(err)
		}
		defer os.RemoveAll(seqDir)
		watchdog := 15 * time.Second
		runSeq := func(in Input) {
			files := make([]string, len(in.Seq))
			nb := 0
			for i, k := range in.Seq {
				files[i] = filepath.Join(seqDir, fmt.Sprintf("f%d", i), "BUILD")
				os.MkdirAll(filepath.Dir(files[i]), 0o755)
				content := "x = 1\ny = [x, 2]\n"
				switch k {
				case 0:
					content = in.Bad[nb%len(in.Bad)]
					nb++
				case 1:
					content = "x = 1\ny = no_such_name_c19\n"
				}
				if err := os.WriteFile(files[i], []byte(content), 0o644); err != nil {
					panic(err)
				}
			}
			steps, capacity := asp.VerifC19ParseFileSeq(in.Slots, files, watchdog)
			c.Oracle()
			c.Hist("generator", in.Gen)
			blocked, k, inuse := false, len(steps), 0
			for i, st := range steps {
				c.Hist("parsefile-seq-kind-"+strconv.Itoa(in.Seq[i]), st.Kind)
				switch {
				case st.Blocked:
					blocked, k = true, i
					c.Fail("parsefile-never-returns-after-failed-parses", fmt.Sprintf("Parser.ParseFile call %d (file kind %d) on one parser with %d parse slots did not return within %v; %d slots occupied, nothing else running", i, in.Seq[i], capacity, watchdog, st.InUse), in)
				case st.Kind == "crash":
					c.Fail("panic-escapes-public-entry-point", "a panic left Parser.ParseFile: "+st.Msg, in)
				case st.InUse != 0:
					c.Fail("parse-slot-not-released-by-parsefile", fmt.Sprintf("after Parser.ParseFile call %d (file kind %d, result %s) returned, %d of %d parse slots are still occupied and nothing is running", i, in.Seq[i], st.Kind, st.InUse, capacity), in)
				case in.Seq[i] == 0 && st.Kind != "positioned":
					c.Fail("entry-points-disagree", fmt.Sprintf("Parser.ParseFile on a malformed file: %s %s", st.Kind, st.Msg), in)
				case in.Seq[i] == 2 && st.Kind != "ok":
					c.Fail("entry-points-disagree", fmt.Sprintf("Parser.ParseFile on a well-formed file: %s %s", st.Kind, st.Msg), in)
				case in.Seq[i] == 1 && st.Kind == "ok":
					c.Fail("entry-points-disagree", "Parser.ParseFile on a file with an undefined name: no error", in)
				}
				inuse = st.InUse
			}
			outs := make([]uint32, len(in.Seq))
			for i, k := range in.Seq {
				outs[i] = uint32(k)
			}
			js, _ := json.Marshal(in)
			sum := sha1.Sum(js)
			c.Case(lib.App("SeqCase", lib.N(uint64(capacity)), lib.NList(outs), coqBool(blocked), lib.N(uint64(k)), lib.N(uint64(inuse))),
				map[string]any{"input": in, "steps": steps, "capacity": capacity}, string(sum[:]), true)
		}
		runShared := func(in Input) {
			shared, why := asp.VerifC19ErrorStateShared()
			c.Oracle()
			c.Hist("generator", in.Gen)
			if shared {
				c.Fail("error-line-tables-shared-between-parses", "two parses that fail (on any goroutines, no lock on the error path) read and write ONE files map: "+why, in)
			}
			c.Case(lib.App("SharedCase", coqBool(shared)), map[string]any{"input": in, "shared": shared}, "shared", true)
		}
		runConcurrent := func(in Input) {
			res, exit, stderr := runConc(in.Workers, in.Ms)
			c.Oracle()
			c.Eval(map[string]any{"input": in, "result": res, "exit": exit}, fmt.Sprintf("conc/%d/%d", in.Workers, in.Ms), true)
			c.Hist("generator", in.Gen)
			c.Note("concurrent failing parses: %d workers, %d ms: %d calls, %d without position, exit %q", in.Workers, in.Ms, res.Calls, res.Bad, exit)
			switch {
			case exit != "" && strings.Contains(stderr, "concurrent map"):
				c.Fail("fatal-concurrent-map-access-in-failing-parses", fmt.Sprintf("the process running failing parses on %d goroutines was aborted by the Go runtime: %s", in.Workers, firstLine(stderr)), in)
			case exit != "":
				c.Fail("parser-process-died-in-concurrent-failing-parses", "exit: "+exit+" "+firstLine(stderr), in)
			case res.Bad > 0:
				c.Fail("concurrent-failing-parse-without-position", fmt.Sprintf("%d of %d concurrent failing parses did not yield a positioned error under their own file name", res.Bad, res.Calls), in)
			case res.Calls < int64(in.Workers):
				c.Fail("concurrent-failing-parses-made-no-progress", fmt.Sprintf("only %d calls", res.Calls), in)
			}
		}

		var replay Input
		if c.ReadReplay(&replay) {
			switch replay.Mode {
			case "seq":
				runSeq(replay)
				return
			case "shared":
				runShared(replay)
				return
			case "conc":
				runConcurrent(replay)
				return
			}
			if replay.Count > 100000 {
				res := isolated([]Input{replay}, 10*time.Minute, 0)
				c.Oracle()
				c.Eval(replay, "replay", true)
				if res[0].Crash != "" {
					c.Fail("replayed-crash-"+res[0].Crash, "the parser process died: "+res[0].Crash, replay)
				}
				return
			}
			eval(replay, true)
			return
		}

		// (d) adversarial list + corpus: all with a model case
		for _, a := range adversarial {
			eval(mk("adversarial", []byte(a)), true)
		}
		corpus, _ := filepath.Glob(filepath.Join(verif, "corpus", "C19", "*"))
		sort.Strings(corpus)
		for _, p := range corpus {
			if b, err := os.ReadFile(p); err == nil {
				eval(mk("corpus", b), true)
				for _, line := range bytes.Split(b, []byte("\n")) {
					eval(mk("corpus", line), true)
				}
			}
		}
		c.Note("adversarial list: %d inputs; corpus files: %d", len(adversarial), len(corpus))

		// (d') the first-token family, every member through all public entry points; a model case for the short
		// prefixes / suffixes, oracle only for the rest
		nFirst := 0
		for i, pre := range firstTokenPrefixes {
			for _, bad := range firstTokenBad {
				for j, suf := range firstTokenSuffixes {
					eval(mk("first-token", []byte(pre+bad+suf)), i < 4 && j < 2)
					nFirst++
				}
			}
		}
		c.Note("first-token family: %d inputs", nFirst)

		// (f) one parser over many files: sequences of file kinds on parsers with 1, 2, 3 and 10 parse slots, always
		// with more malformed files than slots; (g) error values of two parses must not share state; (h) failing
		// parses from 16 goroutines in a child process
		badPool := []string{"$", "x = (", "x = 1\ny = [1, 2\nz = $\n", "def f(:\n", "\tx = 1\n", "x = 'unterminated\n", "if x:\n  y = 1\n z = 2\n", "x = f\"{\"\n", "", "\x00("}
		badPool = badPool[:8]
		nSeq := 0
		for _, slots := range []int{1, 2, 3, 10} {
			// only malformed files: slots+2 of them
			seq := make([]int, slots+2)
			runSeq(Input{Gen: "parsefile-seq", Mode: "seq", Slots: slots, Seq: seq, Bad: badPool})
			nSeq++
			for j := 0; j < c.Scale(2, 25); j++ {
				r := c.Rng.Fork()
				n := slots + r.Range(2, 6)
				seq := make([]int, 0, 2*n)
				bad := 0
				for bad < n {
					k := lib.Pick(r, []int{0, 0, 0, 1, 2})
					if k == 0 {
						bad++
					}
					seq = append(seq, k)
				}
				seq = append(seq, lib.Pick(r, []int{0, 1, 2}))
				pool := append([]string{}, badPool...)
				for i := range pool {
					q := r.Intn(i + 1)
					pool[i], pool[q] = pool[q], pool[i]
				}
				runSeq(Input{Gen: "parsefile-seq", Mode: "seq", Slots: slots, Seq: seq, Bad: pool})
				nSeq++
			}
		}
		c.Note("parsefile sequences: %d (done after %.1fs)", nSeq, time.Since(tStart).Seconds())
		runShared(Input{Gen: "error-state-shared", Mode: "shared"})
		runConcurrent(Input{Gen: "concurrent-failing-parses", Mode: "conc", Workers: 16, Ms: c.Scale(2500, 30000)})
		c.Note("round-2 streams done after %.1fs", time.Since(tStart).Seconds())

		// (a) grammar programs, raw and mutated; (b) repository BUILD files; (c) random bytes - interleaved so that
		// the model cases of every kind are spread evenly over the case files
		files := repoFiles(repo)
		c.Note("repository BUILD/build_defs files: %d", len(files))
		for i, f := range files {
			eval(mk("repo-file", f), false)
			if i%7 == 0 {
				r := c.Rng.Fork()
				eval(mk("repo-file-mutated", mutate(r, f)), false)
			}
		}
		niter := c.Scale(180, 5000)
		for i := 0; i < niter; i++ {
			r := c.Rng.Fork()
			p := program(r)
			small := len(p) <= 600
			eval(mk("grammar", p), small)
			for j := 0; j < 2; j++ {
				m := mutate(r, p)
				eval(mk("grammar-mutated", m), small && j == 0)
			}
			for j := 0; j < c.Scale(6, 10); j++ {
				eval(mk("grammar-mutated", mutate(r, p)), false)
			}
			if len(files) > 0 && i%4 != 3 {
				w := window(r, lib.Pick(r, files), 320)
				eval(mk("repo-window", w), i%4 == 0)
				eval(mk("repo-window-mutated", mutate(r, w)), true)
				for j := 0; j < c.Scale(5, 10); j++ {
					eval(mk("repo-window-mutated", mutate(r, w)), false)
				}
			}
			// a lexical error put in front of a valid program / in front of random bytes
			eval(mk("first-token-mutated", append([]byte(lib.Pick(r, firstTokenPrefixes)+lib.Pick(r, firstTokenBad)), p...)), false)
			eval(mk("first-token-mutated", append([]byte(lib.Pick(r, firstTokenPrefixes)+lib.Pick(r, firstTokenBad)), randomBytes(r)...)), i%8 == 0)
			eval(mk("random-bytes", randomBytes(r)), true)
			for j := 0; j < c.Scale(10, 30); j++ {
				eval(mk("random-bytes", randomBytes(r)), false)
			}
		}

		c.Note("phase a-c done after %.1fs", time.Since(tStart).Seconds())
		// (e) depth / repetition, in-process (10^3 - 10^4); a model case only for a shallow instance
		type shape struct{ prefix, unit, suffix string }
		shapes := []shape{
			{"x = ", "(", "\n"}, {"x = ", "[", "\n"}, {"x = ", "{1:", "\n"}, {"x = ", "f(", "\n"}, {"x = ", "(", "1" + strings.Repeat(")", 3000) + "\n"},
			{"x = 1", " + 1", "\n"}, {"x = 1", " if 1 else 1", "\n"}, {"x = a", ".a", "\n"}, {"x = a", "(1)", "\n"}, {"x = a", "[1]", "\n"},
			{"x = ", "'a' ", "\n"}, {"x = ", "f'{a}' ", "\n"}, {"x = ", "lambda: ", "1\n"}, {"x = ", "not ", "1\n"}, {"x = ", "-", "1\n"},
			{"", "\n", "x = 1\n"}, {"", "\r", "x = 1\n"}, {"", "#c\n", "x = 1\n"}, {"x = (", "\n", "1)\n"}, {"x = (", "#\n", "1)\n"}, {"", " ", "x\n"},
			{"x = [", "1, ", "]\n"}, {"f(", "a=1, ", ")\n"}, {"x = {", "1:2, ", "}\n"}, {"", "x = 1\n", ""}, {"x = '", "a", "'\n"}, {"x = '", `\\`, "'\n"}, {"x", "y", " = 1\n"}, {"x = 1", "0", "\n"},
			{"x = f'", "{a}", "'\n"}, {"x = f'", "{", "'\n"}, {"x = f'", "{{", "'\n"}, {"x = f'{", "a.", "}'\n"}, {"x = ", "\x00", "\n"}, {"def f(", "a:str|int&b=1, ", "):\n pass\n"},
		}
		for _, sh := range shapes {
			eval(rep("repeat-small", sh.prefix, sh.unit, 7, strings.Replace(sh.suffix, strings.Repeat(")", 3000), strings.Repeat(")", 7), 1)), true)
			for _, n := range deepCounts(c.Thor) {
				eval(rep("repeat-deep", sh.prefix, sh.unit, n, sh.suffix), false)
			}
		}
		// nested blocks: indentation grows by one column per level
		for _, n := range []int{6, c.Scale(300, 1000)} {
			var b strings.Builder
			for i := 0; i < n; i++ {
				b.WriteString(strings.Repeat(" ", i) + "if x:\n")
			}
			b.WriteString(strings.Repeat(" ", n) + "pass\n")
			eval(mk("nested-blocks", []byte(b.String())), n < 10)
		}

		c.Note("phase e (in-process depth) done after %.1fs", time.Since(tStart).Seconds())
		// (e') the same shapes far deeper, in a child process: a fatal error there kills only the child
		// Quick tier: the child's stack limit is lowered to 64 MB (debug.SetMaxStack) so that one crash per class
		// costs a second instead of a minute; the thorough tier uses the runtime's default limit of 1 GB.
		maxStack := 64 << 20
		big := []Input{
			rep("isolated-deep", "x = ", "(", 200000, "\n"),
			rep("isolated-deep", "", "\r", 1000000, "x = 1\n"),
		}
		if c.Thor {
			maxStack = 0
			big = []Input{
				rep("isolated-deep", "x = ", "(", 1200000, "\n"),
				rep("isolated-deep", "", "\r", 12000000, "x = 1\n"),
				rep("isolated-deep", "x = ", "[", 1200000, "\n"),
				rep("isolated-deep", "x = a", ".a", 12000000, "\n"),
				rep("isolated-deep", "x = 1", " if 1 else 1", 12000000, "\n"),
				rep("isolated-deep", "", "\n", 12000000, "x = 1\n"),
				rep("isolated-deep", "", "#\n", 12000000, "x = 1\n"),
				rep("isolated-deep", "x = (", "\n", 12000000, "1)\n"),
			}
		}
		c.Note("isolated child: stack limit %d bytes (0 = Go default, 1 GB)", maxStack)
		results := isolated(big, 15*time.Minute, maxStack)
		// and moderately deep ones that must be fine with the default limit
		fine := []Input{rep("isolated-deep", "x = ", "(", 50000, "\n"), rep("isolated-deep", "", "\n", 100000, "x = 1\n")}
		big = append(big, fine...)
		results = append(results, isolated(fine, 15*time.Minute, 0)...)
		for k, res := range results {
			in := big[k]
			c.Oracle()
			c.Eval(map[string]any{"input": in, "crash": res.Crash, "ms": res.Res.Ms}, fmt.Sprint("big", k), true)
			c.Note("isolated %q x %d: crash=%q after %.1fs total", in.Unit, in.Count, res.Crash, time.Since(tStart).Seconds())
			c.Hist("generator", in.Gen)
			c.Hist("size", ">=16k")
			switch {
			case res.Crash == "stack-overflow":
				lexer := strings.Count(res.Stderr, "(*lex).nextToken") > 20
				if lexer {
					c.Fail("fatal-stack-overflow-lexer-recursion", fmt.Sprintf("fatal error: stack overflow in lex.nextToken, which calls itself for every skipped byte/line (%q x %d)", in.Unit, in.Count), in)
				} else {
					c.Fail("fatal-stack-overflow-parser-recursion", fmt.Sprintf("fatal error: stack overflow in the recursive-descent parser (%q x %d)", in.Unit, in.Count), in)
				}
				c.Hist("parse-outcome", "fatal-stack-overflow")
			case res.Crash != "":
				c.Fail("parser-process-"+res.Crash, "the parsing process died or hung: "+res.Crash+" "+firstLine(res.Stderr), in)
				c.Hist("parse-outcome", "crash-"+res.Crash)
			default:
				c.Hist("parse-outcome", res.Res.Out.Kind)
				if k := res.Res.Out.Kind; k == "crash" {
					c.Fail("panic-escapes-public-entry-point", "a panic left Parser.ParseData: "+res.Res.Out.Msg, in)
				} else if k != "ok" && k != "positioned" {
					c.Fail(errClass(res.Res.Out.Msg), "ParseData returned an error without a source position: "+res.Res.Out.Msg, in)
				}
			}
		}
	})
}

func deepCounts(thorough bool) []int {
	if thorough {
		return []int{1000, 10000}
	}
	return []int{2000}
}

func firstLine(s string) string {
	if i := strings.IndexByte(s, '\n'); i >= 0 {
		return s[:i]
	}
	return s
}
