// Package lib is the shared part of the correspondence harness: one seeded PRNG, printers for
// Coq terms, and the report that bin/check reads.
package lib

import (
	"encoding/json"
	"flag"
	"fmt"
	"os"
	"path/filepath"
	"sort"
	"strconv"
	"strings"
)

// ---------------------------------------------------------------------------------------------
// PRNG: splitmix64; every random choice of a run derives from VERIF_SEED so a run replays exactly.

type Rng struct{ s uint64 }

func NewRng(seed uint64) *Rng { return &Rng{s: seed} }

func (r *Rng) U64() uint64 {
	r.s += 0x9e3779b97f4a7c15
	z := r.s
	z = (z ^ (z >> 30)) * 0xbf58476d1ce4e5b9
	z = (z ^ (z >> 27)) * 0x94d049bb133111eb
	return z ^ (z >> 31)
}

// Intn returns a value in [0,n).
func (r *Rng) Intn(n int) int {
	if n <= 0 {
		return 0
	}
	return int(r.U64() % uint64(n))
}

// Range returns a value in [lo,hi].
func (r *Rng) Range(lo, hi int) int { return lo + r.Intn(hi-lo+1) }

func (r *Rng) Bool() bool { return r.U64()&1 == 1 }

// Chance is true with probability num/den.
func (r *Rng) Chance(num, den int) bool { return r.Intn(den) < num }

func Pick[T any](r *Rng, xs []T) T { return xs[r.Intn(len(xs))] }

func Shuffle[T any](r *Rng, xs []T) {
	for i := len(xs) - 1; i > 0; i-- {
		j := r.Intn(i + 1)
		xs[i], xs[j] = xs[j], xs[i]
	}
}

// Fork derives an independent generator (for a sub-case) without disturbing the stream.
func (r *Rng) Fork() *Rng { return NewRng(r.U64()) }

// ---------------------------------------------------------------------------------------------
// Coq term printers.

// Str prints a Go string (a byte string) as a Coq term of type Harness.str.
func Str(x string) string {
	printable := true
	for i := 0; i < len(x); i++ {
		if x[i] < 0x20 || x[i] > 0x7e {
			printable = false
			break
		}
	}
	if printable {
		return `(s "` + strings.ReplaceAll(x, `"`, `""`) + `")`
	}
	parts := make([]string, len(x))
	for i := 0; i < len(x); i++ {
		parts[i] = strconv.Itoa(int(x[i]))
	}
	return "[" + strings.Join(parts, ";") + "]%N"
}

func List(items []string) string { return "[" + strings.Join(items, "; ") + "]" }

func StrList(xs []string) string {
	out := make([]string, len(xs))
	for i, x := range xs {
		out[i] = Str(x)
	}
	return List(out)
}

func N(x uint64) string { return strconv.FormatUint(x, 10) + "%N" }
func Z(x int64) string {
	if x < 0 {
		return "(" + strconv.FormatInt(x, 10) + ")%Z"
	}
	return strconv.FormatInt(x, 10) + "%Z"
}
func Nat(x int) string { return strconv.Itoa(x) + "%nat" }
func Bool(b bool) string {
	if b {
		return "true"
	}
	return "false"
}
func Pair(a, b string) string { return "(" + a + ", " + b + ")" }
func Some(a string) string    { return "(Some " + a + ")" }
func Opt(ok bool, a string) string {
	if ok {
		return Some(a)
	}
	return "None"
}
func NList[T ~uint8 | ~uint16 | ~uint32 | ~uint64 | ~int | ~uint](xs []T) string {
	out := make([]string, len(xs))
	for i, x := range xs {
		out[i] = strconv.FormatUint(uint64(x), 10)
	}
	return "[" + strings.Join(out, ";") + "]%N"
}
func App(f string, args ...string) string { return "(" + f + " " + strings.Join(args, " ") + ")" }

// ---------------------------------------------------------------------------------------------
// The run context.

type Failing struct {
	Class string `json:"class"` // defect class; matched against KNOWN_FINDINGS.jsonl
	What  string `json:"what"`
	Input any    `json:"input"`
}

type Report struct {
	Property           string                    `json:"property"`
	Seed               uint64                    `json:"seed"`
	Tier               string                    `json:"tier"`
	Evaluations        int                       `json:"evaluations"`
	DistinctNontrivial int                       `json:"distinct_nontrivial"`
	Rule               string                    `json:"rule"`
	Exhaustive         bool                      `json:"exhaustive"`
	Samples            []any                     `json:"samples"`
	Hist               map[string]map[string]int `json:"hist"`
	Failing            []Failing                 `json:"failing"` // inputs on which the PROPERTY fails on the implementation
	Known              map[string]int            `json:"known"`   // class -> times reproduced
	OracleChecks       int                       `json:"oracle_checks"`
	Notes              []string                  `json:"notes"`
	CaseFiles          []string                  `json:"case_files"`
	Cases              int                       `json:"cases"`
}

type Ctx struct {
	Prop   string
	Seed   uint64
	Tier   string
	Out    string
	Replay string
	Rng    *Rng
	Thor   bool

	header   string // Coq: imports; must bring `case` and `check` in scope
	caseType string
	checkFn  string
	cases    []string
	caseJS   []any
	distinct map[string]bool
	rep      Report
}

// Main parses the common flags and runs the property's generator.
func Main(prop string, run func(c *Ctx)) {
	seed := flag.Uint64("seed", 1, "PRNG seed")
	tier := flag.String("tier", "quick", "quick|thorough")
	out := flag.String("out", "", "output directory")
	replay := flag.String("replay", "", "replay file: run only the case it holds")
	flag.Parse()
	if *out == "" {
		fmt.Fprintln(os.Stderr, "--out required")
		os.Exit(2)
	}
	if err := os.MkdirAll(*out, 0o755); err != nil {
		panic(err)
	}
	c := &Ctx{Prop: prop, Seed: *seed, Tier: *tier, Out: *out, Replay: *replay, Rng: NewRng(*seed),
		Thor: *tier == "thorough", distinct: map[string]bool{}}
	c.rep = Report{Property: prop, Seed: *seed, Tier: *tier, Hist: map[string]map[string]int{}, Known: map[string]int{},
		Samples: []any{}, Failing: []Failing{}, Notes: []string{}, CaseFiles: []string{}}
	run(c)
	c.finish()
}

// Scale picks the per-tier case count.
func (c *Ctx) Scale(quick, thorough int) int {
	if c.Thor {
		return thorough
	}
	return quick
}

// Model declares the Coq side of the correspondence: the module to import, the case type and the
// boolean check (model output = observed implementation output).
func (c *Ctx) Model(imports, caseType, checkFn string) {
	c.header, c.caseType, c.checkFn = imports, caseType, checkFn
}

func (c *Ctx) Rule(r string)    { c.rep.Rule = r }
func (c *Ctx) Exhaustive(b bool) { c.rep.Exhaustive = b }
func (c *Ctx) Note(f string, a ...any) {
	c.rep.Notes = append(c.rep.Notes, fmt.Sprintf(f, a...))
}

// Case records one case for the model side. `coq` is a term of the case type that carries the
// input AND the observable the implementation produced. `key` identifies the input for the
// distinct count; nontrivial says whether it passes the property's stated non-triviality rule.
func (c *Ctx) Case(coq string, js any, key string, nontrivial bool) {
	c.cases = append(c.cases, coq)
	c.caseJS = append(c.caseJS, js)
	c.rep.Evaluations++
	if nontrivial && !c.distinct[key] {
		c.distinct[key] = true
	}
	if len(c.rep.Samples) < 5 {
		c.rep.Samples = append(c.rep.Samples, js)
	}
}

// Eval counts an evaluation that has no model-side case (pure oracle run).
func (c *Ctx) Eval(js any, key string, nontrivial bool) {
	c.rep.Evaluations++
	if nontrivial && !c.distinct[key] {
		c.distinct[key] = true
	}
	if len(c.rep.Samples) < 5 {
		c.rep.Samples = append(c.rep.Samples, js)
	}
}

func (c *Ctx) Hist(name, bucket string) {
	m := c.rep.Hist[name]
	if m == nil {
		m = map[string]int{}
		c.rep.Hist[name] = m
	}
	m[bucket]++
}

func (c *Ctx) HistN(name string, n int) { c.Hist(name, strconv.Itoa(n)) }

// Oracle counts one evaluation of the property oracle on the implementation.
func (c *Ctx) Oracle() { c.rep.OracleChecks++ }

// Fail records an input on which the property itself fails on the implementation.
func (c *Ctx) Fail(class, what string, input any) {
	c.rep.Known[class]++
	// keep at most a few per class; the first is the smallest the generator produced
	n := 0
	for _, f := range c.rep.Failing {
		if f.Class == class {
			n++
		}
	}
	if n < 3 {
		c.rep.Failing = append(c.rep.Failing, Failing{Class: class, What: what, Input: input})
	}
}

func (c *Ctx) finish() {
	c.rep.DistinctNontrivial = len(c.distinct)
	c.rep.Cases = len(c.cases)
	// case files, sharded so that several coqc processes can evaluate them in parallel
	const shard = 400
	const chunk = 40
	for sh := 0; sh*shard < len(c.cases) || (sh == 0 && c.header != ""); sh++ {
		lo, hi := sh*shard, min((sh+1)*shard, len(c.cases))
		var b strings.Builder
		b.WriteString("From PlzV Require Import Base.Harness.\n")
		b.WriteString(c.header + "\n")
		names := []string{}
		for k := lo; k < hi; k += chunk {
			name := fmt.Sprintf("cases_%d", k)
			names = append(names, name)
			fmt.Fprintf(&b, "Definition %s : list %s := [\n", name, c.caseType)
			for i := k; i < min(k+chunk, hi); i++ {
				if i > k {
					b.WriteString(";\n")
				}
				b.WriteString("  " + c.cases[i])
			}
			b.WriteString("\n].\n")
		}
		fmt.Fprintf(&b, "Definition all_cases : list %s := %s.\n", c.caseType, strings.Join(append(names, "[]"), " ++ "))
		fmt.Fprintf(&b, "Definition M := Eval vm_compute in Harness.mismatches %s all_cases.\nPrint M.\n", c.checkFn)
		name := fmt.Sprintf("Cases_%s_%d.v", c.Prop, sh)
		if err := os.WriteFile(filepath.Join(c.Out, name), []byte(b.String()), 0o644); err != nil {
			panic(err)
		}
		c.rep.CaseFiles = append(c.rep.CaseFiles, name)
		if hi >= len(c.cases) {
			break
		}
	}
	// the JSON form of every case, so a mismatch index can be turned into a replay file
	writeJSON(filepath.Join(c.Out, "cases.json"), c.caseJS)
	writeJSON(filepath.Join(c.Out, "report.json"), c.rep)
}

func writeJSON(path string, v any) {
	data, err := json.MarshalIndent(v, "", " ")
	if err != nil {
		panic(err)
	}
	if err := os.WriteFile(path, data, 0o644); err != nil {
		panic(err)
	}
}

// ReadReplay loads the "input" of a replay file into v.
func (c *Ctx) ReadReplay(v any) bool {
	if c.Replay == "" {
		return false
	}
	data, err := os.ReadFile(c.Replay)
	if err != nil {
		panic(err)
	}
	var wrap struct {
		Input json.RawMessage `json:"input"`
	}
	if err := json.Unmarshal(data, &wrap); err != nil {
		panic(err)
	}
	if err := json.Unmarshal(wrap.Input, v); err != nil {
		panic(err)
	}
	return true
}

// SortedKeys returns the keys of a map in sorted order.
func SortedKeys[V any](m map[string]V) []string {
	ks := make([]string, 0, len(m))
	for k := range m {
		ks = append(ks, k)
	}
	sort.Strings(ks)
	return ks
}

// Perms calls f with every permutation of 0..n-1 (Heap's algorithm); f must not keep the slice.
func Perms(n int, f func([]int)) {
	a := make([]int, n)
	for i := range a {
		a[i] = i
	}
	var rec func(k int)
	rec = func(k int) {
		if k <= 1 {
			f(a)
			return
		}
		for i := 0; i < k; i++ {
			rec(k - 1)
			if k%2 == 0 {
				a[i], a[k-1] = a[k-1], a[i]
			} else {
				a[0], a[k-1] = a[k-1], a[0]
			}
		}
	}
	rec(n)
}
