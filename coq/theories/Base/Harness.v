(* Shared definitions used by every executable model and by the generated case files.
   No proofs about the code live here. *)
From Coq Require Export List NArith ZArith Bool.
From Coq Require Import String Ascii.
Export ListNotations.
Export String.StringSyntax.

(* Go strings are byte strings; a byte is its code in N. *)
Definition str := list N.

Fixpoint s (x : string) : str :=
  match x with
  | EmptyString => []
  | String a r => N_of_ascii a :: s r
  end.
Arguments s x%string.

Fixpoint str_eqb (a b : str) : bool :=
  match a, b with
  | [], [] => true
  | x :: a', y :: b' => N.eqb x y && str_eqb a' b'
  | _, _ => false
  end.

(* Lexicographic byte order = Go's string comparison. *)
Fixpoint str_cmp (a b : str) : comparison :=
  match a, b with
  | [], [] => Eq
  | [], _ :: _ => Lt
  | _ :: _, [] => Gt
  | x :: a', y :: b' =>
      match N.compare x y with
      | Eq => str_cmp a' b'
      | c => c
      end
  end.

Definition str_ltb (a b : str) : bool := match str_cmp a b with Lt => true | _ => false end.
Definition str_leb (a b : str) : bool := match str_cmp a b with Gt => false | _ => true end.

Fixpoint list_eqb {A} (eqb : A -> A -> bool) (a b : list A) : bool :=
  match a, b with
  | [], [] => true
  | x :: a', y :: b' => eqb x y && list_eqb eqb a' b'
  | _, _ => false
  end.

Definition option_eqb {A} (eqb : A -> A -> bool) (a b : option A) : bool :=
  match a, b with
  | None, None => true
  | Some x, Some y => eqb x y
  | _, _ => false
  end.

(* Indices (from 0) of the cases on which model and observed implementation output disagree. *)
Fixpoint mismatches_from {A} (check : A -> bool) (i : N) (l : list A) : list N :=
  match l with
  | [] => []
  | c :: r => if check c then mismatches_from check (N.succ i) r
              else i :: mismatches_from check (N.succ i) r
  end.
Definition mismatches {A} (check : A -> bool) (l : list A) : list N := mismatches_from check 0%N l.
