(* Lemmas about Base.Harness definitions. *)
From PlzV Require Import Base.Harness.
From Coq Require Import Lia.

Lemma str_eqb_spec a b : reflect (a = b) (str_eqb a b).
Proof.
  revert b; induction a as [|x a IH]; intros [|y b]; cbn [str_eqb]; try (constructor; congruence).
  destruct (N.eqb_spec x y) as [->|Hne]; cbn [andb].
  - destruct (IH b) as [->|Hne]; constructor; congruence.
  - constructor; congruence.
Qed.

Lemma str_eqb_refl a : str_eqb a a = true.
Proof. destruct (str_eqb_spec a a); congruence. Qed.

Lemma str_eqb_eq a b : str_eqb a b = true <-> a = b.
Proof. destruct (str_eqb_spec a b); split; congruence. Qed.

Lemma str_eqb_neq a b : str_eqb a b = false <-> a <> b.
Proof. destruct (str_eqb_spec a b); split; congruence. Qed.

Lemma str_eqb_sym a b : str_eqb a b = str_eqb b a.
Proof. destruct (str_eqb_spec a b), (str_eqb_spec b a); congruence. Qed.

Lemma str_cmp_refl a : str_cmp a a = Eq.
Proof. induction a as [|x a IH]; cbn; [reflexivity|]. rewrite N.compare_refl. exact IH. Qed.

Lemma str_cmp_eq a b : str_cmp a b = Eq <-> a = b.
Proof.
  split; [|intros ->; apply str_cmp_refl].
  revert b; induction a as [|x a IH]; intros [|y b]; cbn; try congruence.
  destruct (N.compare_spec x y) as [->|H|H]; try congruence. intros H; f_equal; auto.
Qed.

Lemma str_cmp_antisym a b : str_cmp b a = CompOpp (str_cmp a b).
Proof.
  revert b; induction a as [|x a IH]; intros [|y b]; cbn; try reflexivity.
  rewrite (N.compare_antisym x y). destruct (N.compare x y); cbn; auto.
Qed.

Lemma str_cmp_lt_trans a b c : str_cmp a b = Lt -> str_cmp b c = Lt -> str_cmp a c = Lt.
Proof.
  revert b c; induction a as [|x a IH]; intros [|y b] [|z c]; cbn; try congruence.
  destruct (N.compare_spec x y) as [->|Hxy|Hxy]; try congruence.
  - destruct (N.compare_spec y z) as [->|Hyz|Hyz]; try congruence. apply IH.
  - destruct (N.compare_spec y z) as [->|Hyz|Hyz]; try congruence; intros _ _.
    + destruct (N.compare_spec x z); try lia; reflexivity.
    + destruct (N.compare_spec x z); try lia; reflexivity.
Qed.

Lemma list_eqb_spec {A} (eqb : A -> A -> bool) :
  (forall x y, reflect (x = y) (eqb x y)) -> forall a b, reflect (a = b) (list_eqb eqb a b).
Proof.
  intros Heq a; induction a as [|x a IH]; intros [|y b]; cbn; try (constructor; congruence).
  destruct (Heq x y) as [->|Hne]; cbn.
  - destruct (IH b) as [->|Hne]; constructor; congruence.
  - constructor; congruence.
Qed.
