(* C23 - proofs about the models of somePath, deps and findRevdeps (Model/C23.v) against the
   specification in Proof/C23_Spec.v. *)
From Coq Require Import Lia Permutation.
From PlzV Require Import Base.Harness Model.C23 Proof.C23_Spec.

(* ------------------------------------------------------------------------------------------- *)
(* basics *)

Lemma mem_In : forall l xs, mem l xs = true <-> In l xs.
Proof.
  intros l xs. unfold mem. rewrite existsb_exists. split.
  - intros [x [Hin Heq]]. apply N.eqb_eq in Heq. subst. exact Hin.
  - intros Hin. exists l. split; [exact Hin | apply N.eqb_refl].
Qed.

Lemma mem_false_In : forall l xs, mem l xs = false <-> ~ In l xs.
Proof.
  intros l xs. rewrite <- mem_In. destruct (mem l xs); split; intros H; try reflexivity; try discriminate.
  - exfalso. apply H. reflexivity.
  - intros H'. discriminate.
Qed.

(* number of graph entries whose label is not yet in the set: the termination measure of both DFS *)
Definition unseen (g : graph) (s : list label) : nat :=
  length (filter (fun kv => negb (mem (fst kv) s)) g).

Lemma unseen_le_length : forall g s, (unseen g s <= length g)%nat.
Proof. intros g s. unfold unseen. apply filter_length_le. Qed.

Lemma unseen_incl : forall g s s', incl s s' -> (unseen g s' <= unseen g s)%nat.
Proof.
  intros g s s' Hi. unfold unseen. induction g as [|[k v] g IH]; cbn [filter fst]; [lia|].
  destruct (mem k s') eqn:E'; destruct (mem k s) eqn:E; cbn [negb length]; try lia.
  apply mem_In in E. apply Hi in E. apply mem_In in E. congruence.
Qed.

Lemma find_In_keys : forall g l i, find g l = Some i -> In l (map fst g).
Proof.
  induction g as [|[k v] g IH]; intros l i H; cbn [find] in H; [discriminate|].
  destruct (N.eqb l k) eqn:E.
  - apply N.eqb_eq in E. left. symmetry. exact E.
  - right. eapply IH. exact H.
Qed.

Lemma unseen_add : forall g s l i, find g l = Some i -> ~ In l s -> (unseen g (l :: s) < unseen g s)%nat.
Proof.
  intros g s l i Hf Hn. unfold unseen.
  induction g as [|[k v] g IH]; cbn [find] in Hf; [discriminate|].
  cbn [filter fst].
  destruct (N.eqb l k) eqn:E.
  - apply N.eqb_eq in E. subst k.
    assert (H1 : mem l (l :: s) = true) by (apply mem_In; left; reflexivity).
    assert (H2 : mem l s = false) by (apply mem_false_In; exact Hn).
    rewrite H1, H2. cbn [negb length].
    pose proof (unseen_incl g s (l :: s) (fun x Hx => or_intror Hx)) as Hle. unfold unseen in Hle. lia.
  - specialize (IH Hf).
    assert (Hm : mem k (l :: s) = mem k s).
    { unfold mem. cbn [existsb]. rewrite N.eqb_sym, E. reflexivity. }
    rewrite Hm. destruct (mem k s); cbn [negb length]; lia.
Qed.

(* ------------------------------------------------------------------------------------------- *)
(* somePath *)

Section SomePath.
  Variable g : graph.
  Variable ex : list label.
  Variable t2 : label.
  Hypothesis t2_in : in_graph g t2.

  Let E := edge g ex.

  (* the code's two tests are exactly `hit` *)
  Definition hitb (t1 : label) (i1 : tinfo) : bool :=
    N.eqb t1 t2 || (has_parent t1 i1 && N.eqb (t_parent i1) t2).

  Lemma hitb_spec : forall t1 i1, find g t1 = Some i1 -> (hitb t1 i1 = true <-> hit g t2 t1).
  Proof.
    intros t1 i1 Hf. unfold hitb, hit, has_parent. split.
    - intros H. apply orb_true_iff in H. destruct H as [H|H].
      + left. apply N.eqb_eq. exact H.
      + apply andb_true_iff in H. destruct H as [Hp He]. right. exists i1.
        apply N.eqb_eq in He. apply negb_true_iff in Hp. apply N.eqb_neq in Hp. auto.
    - intros [H|[iu [Hf' [Hp Hn]]]].
      + subst. rewrite N.eqb_refl. reflexivity.
      + rewrite Hf in Hf'. injection Hf' as <-. apply orb_true_iff. right.
        apply andb_true_iff. split.
        * apply negb_true_iff. apply N.eqb_neq. exact Hn.
        * apply N.eqb_eq. exact Hp.
  Qed.

  (* v is of no further interest: already in the set, or not a target at all *)
  Definition dead (v : label) (s : list label) : Prop := In v s \/ find g v = None.

  (* u is not a hit and all its successors are dead *)
  Definition closedNH (u : label) (s : list label) : Prop :=
    ~ hit g t2 u /\ forall v, E u v -> dead v s.

  Lemma dead_mono : forall v s s', incl s s' -> dead v s -> dead v s'.
  Proof. intros v s s' Hi [H|H]; [left; apply Hi; exact H | right; exact H]. Qed.

  Lemma closedNH_mono : forall u s s', incl s s' -> closedNH u s -> closedNH u s'.
  Proof. intros u s s' Hi [Hn Hc]. split; [exact Hn|]. intros v Hv. eapply dead_mono; eauto. Qed.

  (* what a result of the search from t1 means *)
  Definition sp_ok (t1 : label) (seen : list label) (r : list label * list label) : Prop :=
    let (p, seen') := r in
    incl seen seen' /\
    match p with
    | [] => dead t1 seen' /\ forall u, In u seen' -> In u seen \/ closedNH u seen'
    | x :: _ => x = t1 /\ chain E p /\ hit g t2 (last p t1)
    end.

  Lemma first_path_ok :
    forall (rec : label -> list label -> option (list label * list label)) t1 i1,
      find g t1 = Some i1 ->
      (forall l s r, rec l s = Some r -> sp_ok l s r) ->
      forall ls seen p seen',
        incl ls (succs g ex i1) ->
        first_path rec t1 ls seen = Some (p, seen') ->
        incl seen seen' /\
        match p with
        | [] => (forall l, In l ls -> dead l seen') /\ forall u, In u seen' -> In u seen \/ closedNH u seen'
        | x :: _ => x = t1 /\ chain E p /\ hit g t2 (last p t1)
        end.
  Proof.
    intros rec t1 i1 Hf Hrec. induction ls as [|l ls IH]; intros seen p seen' Hsub H; cbn [first_path] in H.
    - injection H as <- <-. split; [apply incl_refl|]. split; [intros l []|]. intros u Hu. left. exact Hu.
    - destruct (rec l seen) as [[q s1]|] eqn:Er; [|discriminate].
      pose proof (Hrec _ _ _ Er) as Hok. cbn [sp_ok] in Hok. destruct Hok as [Hi1 Hq].
      destruct q as [|x q].
      + destruct Hq as [Hdl Hcl].
        assert (Hsub' : incl ls (succs g ex i1)) by (intros z Hz; apply Hsub; right; exact Hz).
        specialize (IH s1 p seen' Hsub' H). destruct IH as [Hi2 Hp].
        split; [eapply incl_tran; eauto|].
        destruct p as [|y p].
        * destruct Hp as [Hall Hcl2]. split.
          -- intros z [Hz|Hz]; [subst z; eapply dead_mono; eauto | apply Hall; exact Hz].
          -- intros u Hu. destruct (Hcl2 u Hu) as [Hu1|Hu1]; [|right; exact Hu1].
             destruct (Hcl u Hu1) as [Hu0|Hu0]; [left; exact Hu0 | right; eapply closedNH_mono; eauto].
        * exact Hp.
      + injection H as <- <-. destruct Hq as [Hx [Hch Hhit]]. subst x.
        split; [exact Hi1|]. split; [reflexivity|]. split.
        * cbn [chain]. split; [|exact Hch]. exists i1. split; [exact Hf|]. apply Hsub. left. reflexivity.
        * cbn [last] in *. exact Hhit.
  Qed.

  Lemma somePath_ok : forall fuel t1 seen r, somePath fuel g ex t2 t1 seen = Some r -> sp_ok t1 seen r.
  Proof.
    induction fuel as [|f IH]; intros t1 seen r H; cbn [somePath] in H; [discriminate|].
    destruct (find g t1) as [i1|] eqn:Hf.
    2:{ injection H as <-. cbn [sp_ok]. split; [apply incl_refl|]. split; [right; exact Hf|]. intros u Hu. left. exact Hu. }
    pose proof (hitb_spec t1 i1 Hf) as Hhb. unfold hitb in Hhb.
    destruct (N.eqb t1 t2) eqn:E1.
    { injection H as <-. cbn [sp_ok]. split; [apply incl_refl|]. split; [reflexivity|]. split; [exact I|].
      cbn [last]. apply Hhb. reflexivity. }
    destruct (has_parent t1 i1 && N.eqb (t_parent i1) t2) eqn:E2.
    { injection H as <-. cbn [sp_ok]. split; [apply incl_refl|]. split; [reflexivity|]. split; [exact I|].
      cbn [last]. apply Hhb. reflexivity. }
    cbn [orb] in Hhb.
    destruct (mem t1 seen) eqn:E3.
    { injection H as <-. cbn [sp_ok]. split; [apply incl_refl|]. split; [left; apply mem_In; exact E3|].
      intros u Hu. left. exact Hu. }
    destruct r as [p seen'].
    pose proof (first_path_ok (somePath f g ex t2) t1 i1 Hf IH (succs g ex i1) (t1 :: seen) p seen' (incl_refl _) H) as [Hi Hp].
    cbn [sp_ok]. split; [intros z Hz; apply Hi; right; exact Hz|].
    destruct p as [|x p]; [|exact Hp].
    destruct Hp as [Hall Hcl]. split; [left; apply Hi; left; reflexivity|].
    intros u Hu. destruct (Hcl u Hu) as [[Hu1|Hu1]|Hu1]; [|left; exact Hu1|right; exact Hu1].
    subst u. right. split.
    - intros Hh. apply Hhb in Hh. discriminate.
    - intros v [iu [Hfu Hv]]. rewrite Hf in Hfu. injection Hfu as <-. apply Hall. exact Hv.
  Qed.

  (* fuel: the recursion is never deeper than the number of unseen targets *)
  Lemma first_path_total :
    forall (rec : label -> list label -> option (list label * list label)) f t1,
      (forall l s, (unseen g s < f)%nat -> rec l s <> None) ->
      (forall l s r, rec l s = Some r -> incl s (snd r)) ->
      forall ls seen, (unseen g seen < f)%nat -> first_path rec t1 ls seen <> None.
  Proof.
    intros rec f t1 Htot Hmono. induction ls as [|l ls IH]; intros seen Hu; cbn [first_path]; [discriminate|].
    destruct (rec l seen) as [[q s1]|] eqn:Er.
    - destruct q; [|discriminate]. apply IH.
      pose proof (Hmono _ _ _ Er) as Hi. cbn [snd] in Hi. pose proof (unseen_incl g _ _ Hi). lia.
    - exfalso. eapply Htot; eauto.
  Qed.

  Lemma somePath_total : forall fuel t1 seen, (unseen g seen < fuel)%nat -> somePath fuel g ex t2 t1 seen <> None.
  Proof.
    induction fuel as [|f IH]; intros t1 seen Hu; [lia|]. cbn [somePath].
    destruct (find g t1) as [i1|] eqn:Hf; [|discriminate].
    destruct (N.eqb t1 t2); [discriminate|].
    destruct (has_parent t1 i1 && N.eqb (t_parent i1) t2); [discriminate|].
    destruct (mem t1 seen) eqn:E3; [discriminate|].
    apply (first_path_total (somePath f g ex t2) f t1).
    - intros l s Hs. apply IH. exact Hs.
    - intros l s [p s'] Hr. cbn [snd]. pose proof (somePath_ok f l s _ Hr) as Hok. cbn [sp_ok] in Hok. apply Hok.
    - apply mem_false_In in E3. pose proof (unseen_add g seen t1 i1 Hf E3). lia.
  Qed.

  (* a set all of whose members are closed non-hits can never lead to t2 *)
  Definition all_closed (s : list label) : Prop := forall u, In u s -> closedNH u s.

  Lemma dead_closed_reach : forall s, all_closed s -> forall a u, reach E a u -> dead a s -> dead u s.
  Proof.
    intros s Hall a u Hr. induction Hr as [u|u v w Huv Hvw IH]; intros Hd; [exact Hd|].
    apply IH. destruct Hd as [Hd|Hd].
    - destruct (Hall u Hd) as [_ Hc]. apply Hc. exact Huv.
    - destruct Huv as [iu [Hfu _]]. congruence.
  Qed.

  Lemma dead_not_hit : forall s u, all_closed s -> dead u s -> ~ hit g t2 u.
  Proof.
    intros s u Hall [Hd|Hd].
    - apply (Hall u Hd).
    - intros [Hh|[iu [Hf _]]]; [subst u; apply t2_in; exact Hd | congruence].
  Qed.

  (* completeness of one direction, from any memoised set of closed non-hits *)
  Lemma somePath_none :
    forall fuel t1 seen seen', all_closed seen -> somePath fuel g ex t2 t1 seen = Some ([], seen') ->
      all_closed seen' /\ ~ connects g ex t1 t2.
  Proof.
    intros fuel t1 seen seen' Hall H. pose proof (somePath_ok _ _ _ _ H) as Hok. cbn [sp_ok] in Hok.
    destruct Hok as [Hi [Hd Hcl]].
    assert (Hall' : all_closed seen').
    { intros u Hu. destruct (Hcl u Hu) as [Hu0|Hu0]; [eapply closedNH_mono; eauto | exact Hu0]. }
    split; [exact Hall'|]. intros [u [Hr Hh]].
    eapply dead_not_hit; [exact Hall'| |exact Hh]. eapply dead_closed_reach; eauto.
  Qed.

  Lemma chain_reach : forall p x, chain E (x :: p) -> reach E x (last p x).
  Proof.
    induction p as [|y p IH]; intros x Hc; cbn [last]; [apply reach_refl|].
    cbn [chain] in Hc. destruct Hc as [Hxy Hc]. eapply reach_step; [exact Hxy|].
    specialize (IH y Hc). destruct p; cbn [last] in *; exact IH.
  Qed.

  (* soundness of one direction *)
  Lemma somePath_some :
    forall fuel t1 seen x p seen', somePath fuel g ex t2 t1 seen = Some (x :: p, seen') ->
      x = t1 /\ chain E (x :: p) /\ hit g t2 (last (x :: p) t1) /\ connects g ex t1 t2.
  Proof.
    intros fuel t1 seen x p seen' H. pose proof (somePath_ok _ _ _ _ H) as Hok. cbn [sp_ok] in Hok.
    destruct Hok as [_ [Hx [Hc Hh]]]. subst x. repeat split; try assumption.
    exists (last (t1 :: p) t1). split; [|exact Hh].
    pose proof (chain_reach p t1 Hc) as Hr. destruct p; cbn [last] in *; exact Hr.
  Qed.
End SomePath.
