(* C23 - proofs about the models of somePath, deps and findRevdeps (Model/C23.v) against the
   specification in Proof/C23_Spec.v. *)
From Coq Require Import Lia Permutation.
From PlzV Require Import Base.Harness Model.C23 Proof.C23_Spec.

(* ------------------------------------------------------------------------------------------- *)
(* basics *)

Lemma mem_In : forall l xs, mem l xs = true <-> In l xs.
Proof.
  intros l xs. unfold mem. rewrite existsb_exists. split.
  - intros [x [Hin Heq]]. apply N.eqb_eq in Heq. subst. exact Hin.
  - intros Hin. exists l. split; [exact Hin | apply N.eqb_refl].
Qed.

Lemma mem_false_In : forall l xs, mem l xs = false <-> ~ In l xs.
Proof.
  intros l xs. rewrite <- mem_In. destruct (mem l xs); split; intro H; try congruence.
Qed.

Lemma last_nonempty : forall (p : list label) x d d', last (x :: p) d = last (x :: p) d'.
Proof.
  induction p as [|y p IH]; intros x d d'; [reflexivity|].
  change (last (x :: y :: p) d) with (last (y :: p) d). change (last (x :: y :: p) d') with (last (y :: p) d'). apply IH.
Qed.

(* number of graph entries whose label is not yet in the set: the termination measure of both DFS *)
Definition unseen (g : graph) (s : list label) : nat :=
  length (filter (fun kv => negb (mem (fst kv) s)) g).

Lemma unseen_le_length : forall g s, (unseen g s <= length g)%nat.
Proof.
  intros g s. unfold unseen. induction g as [|kv g IH]; cbn [filter length]; [lia|].
  destruct (negb (mem (fst kv) s)); cbn [length]; lia.
Qed.

Lemma unseen_incl : forall g s s', incl s s' -> (unseen g s' <= unseen g s)%nat.
Proof.
  intros g s s' Hi. unfold unseen. induction g as [|[k v] g IH]; cbn [filter fst]; [lia|].
  destruct (mem k s') eqn:E'; destruct (mem k s) eqn:E; cbn [negb length]; try lia.
  apply mem_In in E. apply Hi in E. apply mem_In in E. congruence.
Qed.

Lemma find_In_keys : forall g l i, find g l = Some i -> In l (map fst g).
Proof.
  induction g as [|[k v] g IH]; intros l i H; cbn [find] in H; [discriminate|].
  destruct (N.eqb l k) eqn:E.
  - apply N.eqb_eq in E. left. symmetry. exact E.
  - right. eapply IH. exact H.
Qed.

Lemma unseen_add : forall g s l i, find g l = Some i -> ~ In l s -> (unseen g (l :: s) < unseen g s)%nat.
Proof.
  intros g s l i Hf Hn. unfold unseen.
  induction g as [|[k v] g IH]; cbn [find] in Hf; [discriminate|].
  cbn [filter fst].
  destruct (N.eqb l k) eqn:E.
  - apply N.eqb_eq in E. subst k.
    assert (H1 : mem l (l :: s) = true) by (apply mem_In; left; reflexivity).
    assert (H2 : mem l s = false) by (apply mem_false_In; exact Hn).
    rewrite H1, H2. cbn [negb length].
    pose proof (unseen_incl g s (l :: s) (fun x Hx => or_intror Hx)) as Hle. unfold unseen in Hle. lia.
  - specialize (IH Hf).
    assert (Hm : mem k (l :: s) = mem k s).
    { unfold mem. cbn [existsb]. rewrite N.eqb_sym, E. reflexivity. }
    rewrite Hm. destruct (mem k s); cbn [negb length]; lia.
Qed.

(* ------------------------------------------------------------------------------------------- *)
(* somePath *)

Section SomePath.
  Variable g : graph.
  Variable ex : list label.
  Variable t2 : label.
  Hypothesis t2_in : in_graph g t2.

  Let E := edge g ex.

  (* the code's two tests are exactly `hit` *)
  Definition hitb (t1 : label) (i1 : tinfo) : bool :=
    N.eqb t1 t2 || (has_parent t1 i1 && N.eqb (t_parent i1) t2).

  Lemma hitb_spec : forall t1 i1, find g t1 = Some i1 -> (hitb t1 i1 = true <-> hit g t2 t1).
  Proof.
    intros t1 i1 Hf. unfold hitb, hit, has_parent. split.
    - intros H. apply orb_true_iff in H. destruct H as [H|H].
      + left. apply N.eqb_eq. exact H.
      + apply andb_true_iff in H. destruct H as [Hp He]. right. exists i1.
        apply N.eqb_eq in He. apply negb_true_iff in Hp. apply N.eqb_neq in Hp. auto.
    - intros [H|[iu [Hf' [Hp Hn]]]].
      + subst. rewrite N.eqb_refl. reflexivity.
      + rewrite Hf in Hf'. injection Hf' as <-. apply orb_true_iff. right.
        apply andb_true_iff. split.
        * apply negb_true_iff. apply N.eqb_neq. exact Hn.
        * apply N.eqb_eq. exact Hp.
  Qed.

  (* v is of no further interest: already in the set, or not a target at all *)
  Definition dead (v : label) (s : list label) : Prop := In v s \/ find g v = None.

  (* u is not a hit and all its successors are dead *)
  Definition closedNH (u : label) (s : list label) : Prop :=
    ~ hit g t2 u /\ forall v, E u v -> dead v s.

  Lemma dead_mono : forall v s s', incl s s' -> dead v s -> dead v s'.
  Proof. intros v s s' Hi [H|H]; [left; apply Hi; exact H | right; exact H]. Qed.

  Lemma closedNH_mono : forall u s s', incl s s' -> closedNH u s -> closedNH u s'.
  Proof. intros u s s' Hi [Hn Hc]. split; [exact Hn|]. intros v Hv. eapply dead_mono; eauto. Qed.

  (* what a result of the search from t1 means *)
  Definition sp_ok (t1 : label) (seen : list label) (r : list label * list label) : Prop :=
    let (p, seen') := r in
    incl seen seen' /\
    match p with
    | [] => dead t1 seen' /\ forall u, In u seen' -> In u seen \/ closedNH u seen'
    | x :: _ => x = t1 /\ chain E p /\ hit g t2 (last p t1)
    end.

  Lemma first_path_ok :
    forall (rec : label -> list label -> option (list label * list label)) t1 i1,
      find g t1 = Some i1 ->
      (forall l s r, rec l s = Some r -> sp_ok l s r) ->
      forall ls seen p seen',
        incl ls (succs g ex i1) ->
        first_path rec t1 ls seen = Some (p, seen') ->
        incl seen seen' /\
        match p with
        | [] => (forall l, In l ls -> dead l seen') /\ forall u, In u seen' -> In u seen \/ closedNH u seen'
        | x :: _ => x = t1 /\ chain E p /\ hit g t2 (last p t1)
        end.
  Proof.
    intros rec t1 i1 Hf Hrec. induction ls as [|l ls IH]; intros seen p seen' Hsub H; cbn [first_path] in H.
    - injection H as <- <-. split; [apply incl_refl|]. split; [intros l []|]. intros u Hu. left. exact Hu.
    - destruct (rec l seen) as [[q s1]|] eqn:Er; [|discriminate].
      pose proof (Hrec _ _ _ Er) as Hok. cbn [sp_ok] in Hok. destruct Hok as [Hi1 Hq].
      destruct q as [|x q].
      + destruct Hq as [Hdl Hcl].
        assert (Hsub' : incl ls (succs g ex i1)) by (intros z Hz; apply Hsub; right; exact Hz).
        specialize (IH s1 p seen' Hsub' H). destruct IH as [Hi2 Hp].
        split; [eapply incl_tran; eauto|].
        destruct p as [|y p].
        * destruct Hp as [Hall Hcl2]. split.
          -- intros z [Hz|Hz]; [subst z; eapply dead_mono; eauto | apply Hall; exact Hz].
          -- intros u Hu. destruct (Hcl2 u Hu) as [Hu1|Hu1]; [|right; exact Hu1].
             destruct (Hcl u Hu1) as [Hu0|Hu0]; [left; exact Hu0 | right; eapply closedNH_mono; eauto].
        * exact Hp.
      + injection H as <- <-. destruct Hq as [Hx [Hch Hhit]]. subst x.
        split; [exact Hi1|]. split; [reflexivity|]. split.
        * cbn [chain]. split; [|exact Hch]. exists i1. split; [exact Hf|]. apply Hsub. left. reflexivity.
        * change (last (t1 :: l :: q) t1) with (last (l :: q) t1). rewrite (last_nonempty q l t1 l). exact Hhit.
  Qed.

  Lemma somePath_ok : forall fuel t1 seen r, somePath fuel g ex t2 t1 seen = Some r -> sp_ok t1 seen r.
  Proof.
    induction fuel as [|f IH]; intros t1 seen r H; cbn [somePath] in H; [discriminate|].
    destruct (find g t1) as [i1|] eqn:Hf.
    2:{ injection H as <-. cbn [sp_ok]. split; [apply incl_refl|]. split; [right; exact Hf|]. intros u Hu. left. exact Hu. }
    pose proof (hitb_spec t1 i1 Hf) as Hhb. unfold hitb in Hhb.
    destruct (N.eqb t1 t2) eqn:E1.
    { injection H as <-. cbn [sp_ok]. split; [apply incl_refl|]. split; [reflexivity|]. split; [exact I|].
      cbn [last]. apply Hhb. reflexivity. }
    destruct (has_parent t1 i1 && N.eqb (t_parent i1) t2) eqn:E2.
    { injection H as <-. cbn [sp_ok]. split; [apply incl_refl|]. split; [reflexivity|]. split; [exact I|].
      cbn [last]. apply Hhb. reflexivity. }
    cbn [orb] in Hhb.
    destruct (mem t1 seen) eqn:E3.
    { injection H as <-. cbn [sp_ok]. split; [apply incl_refl|]. split; [left; apply mem_In; exact E3|].
      intros u Hu. left. exact Hu. }
    destruct r as [p seen'].
    pose proof (first_path_ok (somePath f g ex t2) t1 i1 Hf IH (succs g ex i1) (t1 :: seen) p seen' (incl_refl _) H) as [Hi Hp].
    cbn [sp_ok]. split; [intros z Hz; apply Hi; right; exact Hz|].
    destruct p as [|x p]; [|exact Hp].
    destruct Hp as [Hall Hcl]. split; [left; apply Hi; left; reflexivity|].
    intros u Hu. destruct (Hcl u Hu) as [[Hu1|Hu1]|Hu1]; [|left; exact Hu1|right; exact Hu1].
    subst u. right. split.
    - intros Hh. apply Hhb in Hh. discriminate.
    - intros v [iu [Hfu Hv]]. rewrite Hf in Hfu. injection Hfu as <-. apply Hall. exact Hv.
  Qed.

  (* fuel: the recursion is never deeper than the number of unseen targets *)
  Lemma first_path_total :
    forall (rec : label -> list label -> option (list label * list label)) f t1,
      (forall l s, (unseen g s < f)%nat -> rec l s <> None) ->
      (forall l s r, rec l s = Some r -> incl s (snd r)) ->
      forall ls seen, (unseen g seen < f)%nat -> first_path rec t1 ls seen <> None.
  Proof.
    intros rec f t1 Htot Hmono. induction ls as [|l ls IH]; intros seen Hu; cbn [first_path]; [discriminate|].
    destruct (rec l seen) as [[q s1]|] eqn:Er.
    - destruct q; [|discriminate]. apply IH.
      pose proof (Hmono _ _ _ Er) as Hi. cbn [snd] in Hi. pose proof (unseen_incl g _ _ Hi). lia.
    - exfalso. eapply Htot; eauto.
  Qed.

  Lemma somePath_total : forall fuel t1 seen, (unseen g seen < fuel)%nat -> somePath fuel g ex t2 t1 seen <> None.
  Proof.
    induction fuel as [|f IH]; intros t1 seen Hu; [lia|]. cbn [somePath].
    destruct (find g t1) as [i1|] eqn:Hf; [|discriminate].
    destruct (N.eqb t1 t2); [discriminate|].
    destruct (has_parent t1 i1 && N.eqb (t_parent i1) t2); [discriminate|].
    destruct (mem t1 seen) eqn:E3; [discriminate|].
    apply (first_path_total (somePath f g ex t2) f t1).
    - intros l s Hs. apply IH. exact Hs.
    - intros l s [p s'] Hr. cbn [snd]. pose proof (somePath_ok f l s _ Hr) as Hok. cbn [sp_ok] in Hok. apply Hok.
    - apply mem_false_In in E3. pose proof (unseen_add g seen t1 i1 Hf E3). lia.
  Qed.

  (* a set all of whose members are closed non-hits can never lead to t2 *)
  Definition all_closed (s : list label) : Prop := forall u, In u s -> closedNH u s.

  Lemma dead_closed_reach : forall s, all_closed s -> forall a u, reach E a u -> dead a s -> dead u s.
  Proof.
    intros s Hall a u Hr. induction Hr as [u|u v w Huv Hvw IH]; intros Hd; [exact Hd|].
    apply IH. destruct Hd as [Hd|Hd].
    - destruct (Hall u Hd) as [_ Hc]. apply Hc. exact Huv.
    - destruct Huv as [iu [Hfu _]]. congruence.
  Qed.

  Lemma dead_not_hit : forall s u, all_closed s -> dead u s -> ~ hit g t2 u.
  Proof.
    intros s u Hall [Hd|Hd].
    - apply (Hall u Hd).
    - intros [Hh|[iu [Hf _]]]; [subst u; apply t2_in; exact Hd | congruence].
  Qed.

  (* completeness of one direction, from any memoised set of closed non-hits *)
  Lemma somePath_none :
    forall fuel t1 seen seen', all_closed seen -> somePath fuel g ex t2 t1 seen = Some ([], seen') ->
      all_closed seen' /\ ~ connects g ex t1 t2.
  Proof.
    intros fuel t1 seen seen' Hall H. pose proof (somePath_ok _ _ _ _ H) as Hok. cbn [sp_ok] in Hok.
    destruct Hok as [Hi [Hd Hcl]].
    assert (Hall' : all_closed seen').
    { intros u Hu. destruct (Hcl u Hu) as [Hu0|Hu0]; [eapply closedNH_mono; eauto | exact Hu0]. }
    split; [exact Hall'|]. intros [u [Hr Hh]].
    eapply dead_not_hit; [exact Hall'| |exact Hh]. eapply dead_closed_reach; eauto.
  Qed.

  Lemma chain_reach : forall p x d, chain E (x :: p) -> reach E x (last (x :: p) d).
  Proof.
    induction p as [|y p IH]; intros x d Hc; [apply reach_refl|].
    change (last (x :: y :: p) d) with (last (y :: p) d).
    cbn [chain] in Hc. destruct Hc as [Hxy Hc]. eapply reach_step; [exact Hxy|]. apply IH. exact Hc.
  Qed.

  (* soundness of one direction *)
  Lemma somePath_some :
    forall fuel t1 seen x p seen', somePath fuel g ex t2 t1 seen = Some (x :: p, seen') ->
      x = t1 /\ chain E (x :: p) /\ hit g t2 (last (x :: p) t1) /\ connects g ex t1 t2.
  Proof.
    intros fuel t1 seen x p seen' H. pose proof (somePath_ok _ _ _ _ H) as Hok. cbn [sp_ok] in Hok.
    destruct Hok as [_ [Hx [Hc Hh]]]. subst x. repeat split; try assumption.
    exists (last (t1 :: p) t1). split; [|exact Hh].
    apply chain_reach. exact Hc.
  Qed.
End SomePath.

(* ---- both directions, the memo, and the loops over the from/to lists ---- *)

Lemma memo_get_set : forall m k v k', memo_get (memo_set m k v) k' = if N.eqb k' k then v else memo_get m k'.
Proof.
  induction m as [|[k0 w] m IH]; intros k v k'; cbn [memo_set memo_get].
  - reflexivity.
  - destruct (N.eqb k k0) eqn:E; cbn [memo_get].
    + apply N.eqb_eq in E. subst k0. destruct (N.eqb k' k); reflexivity.
    + destruct (N.eqb k' k0) eqn:E'.
      * apply N.eqb_eq in E'. subst k0. rewrite N.eqb_sym, E. reflexivity.
      * apply IH.
Qed.

(* every memo entry is a set of closed non-hits for its key *)
Definition memo_ok (g : graph) (ex : list label) (m : list (label * list label)) : Prop :=
  forall k, all_closed g ex k (memo_get m k).

Lemma memo_ok_nil : forall g ex, memo_ok g ex [].
Proof. intros g ex k u []. Qed.

Lemma memo_ok_set : forall g ex m k v, memo_ok g ex m -> all_closed g ex k v -> memo_ok g ex (memo_set m k v).
Proof.
  intros g ex m k v Hm Hv k'. rewrite memo_get_set. destruct (N.eqb k' k) eqn:E.
  - apply N.eqb_eq in E. subst. exact Hv.
  - apply Hm.
Qed.

(* p is a dependency chain from a into b (b itself or one of b's sub-targets) *)
Definition joins (g : graph) (ex : list label) (a b : label) (p : list label) : Prop :=
  exists x r, p = x :: r /\ x = a /\ chain (edge g ex) p /\ hit g b (last p a).

Definition sp_result (g : graph) (ex : list label) (a b : label) (p : list label) : Prop :=
  (joins g ex a b p \/ joins g ex b a p) /\ (connects g ex a b \/ connects g ex b a).

Lemma fuel_enough : forall g s, (unseen g s < fuel_of g)%nat.
Proof. intros g s. unfold fuel_of. pose proof (unseen_le_length g s). lia. Qed.

Lemma pair_spec :
  forall g ex m a b, in_graph g a -> in_graph g b -> memo_ok g ex m ->
    exists p m', some_path_pair g ex m a b = Some (p, m') /\
      match p with
      | [] => memo_ok g ex m' /\ ~ connects g ex a b /\ ~ connects g ex b a
      | _ :: _ => sp_result g ex a b p
      end.
Proof.
  intros g ex m a b Ha Hb Hm. unfold some_path_pair.
  destruct (somePath (fuel_of g) g ex b a (memo_get m b)) as [[p s1]|] eqn:E1.
  2:{ exfalso. eapply somePath_total; [apply fuel_enough | exact E1]. }
  destruct p as [|x p].
  - destruct (somePath_none g ex b Hb _ _ _ _ (Hm b) E1) as [Hc1 Hn1].
    set (m1 := memo_set m b s1). assert (Hm1 : memo_ok g ex m1) by (apply memo_ok_set; assumption).
    destruct (somePath (fuel_of g) g ex a b (memo_get m1 a)) as [[p2 s2]|] eqn:E2.
    2:{ exfalso. eapply somePath_total; [apply fuel_enough | exact E2]. }
    exists p2, (memo_set m1 a s2). split; [reflexivity|].
    destruct p2 as [|y p2].
    + destruct (somePath_none g ex a Ha _ _ _ _ (Hm1 a) E2) as [Hc2 Hn2].
      split; [apply memo_ok_set; assumption|]. split; assumption.
    + destruct (somePath_some g ex a _ _ _ _ _ _ E2) as [Hy [Hch [Hh Hcon]]]. subst y.
      split; [right|right; exact Hcon]. exists b, p2. repeat split; assumption.
  - exists (x :: p), (memo_set m b s1). split; [reflexivity|].
    destruct (somePath_some g ex b _ _ _ _ _ _ E1) as [Hy [Hch [Hh Hcon]]]. subst x.
    split; [left|left; exact Hcon]. exists a, p. repeat split; assumption.
Qed.

Definition none_connected (g : graph) (ex : list label) (a : label) (tos : list label) : Prop :=
  forall b, In b tos -> ~ connects g ex a b /\ ~ connects g ex b a.

Lemma sp_to_spec :
  forall g ex a tos, in_graph g a -> Forall (in_graph g) tos ->
    forall m, memo_ok g ex m ->
      exists p m', sp_to g ex m a tos = Some (p, m') /\
        match p with
        | [] => memo_ok g ex m' /\ none_connected g ex a tos
        | _ :: _ => exists b, In b tos /\ sp_result g ex a b p
        end.
Proof.
  intros g ex a tos Ha Htos. induction Htos as [|b tos Hb Htos IH]; intros m Hm; cbn [sp_to].
  - exists [], m. split; [reflexivity|]. split; [exact Hm|]. intros b [].
  - destruct (pair_spec g ex m a b Ha Hb Hm) as [p [m' [Hp Hres]]]. rewrite Hp.
    destruct p as [|x p].
    + destruct Hres as [Hm' [Hn1 Hn2]]. destruct (IH m' Hm') as [p2 [m2 [Hp2 Hres2]]].
      exists p2, m2. split; [exact Hp2|]. destruct p2 as [|y p2].
      * destruct Hres2 as [Hm2 Hnc]. split; [exact Hm2|]. intros z [Hz|Hz]; [subst z; split; assumption | apply Hnc; exact Hz].
      * destruct Hres2 as [z [Hz Hr]]. exists z. split; [right; exact Hz | exact Hr].
    + exists (x :: p), m'. split; [reflexivity|]. exists b. split; [left; reflexivity | exact Hres].
Qed.

Lemma sp_from_spec :
  forall g ex tos froms, Forall (in_graph g) tos -> Forall (in_graph g) froms ->
    forall m, memo_ok g ex m ->
      exists p, sp_from g ex m froms tos = Some p /\
        match p with
        | [] => forall a, In a froms -> none_connected g ex a tos
        | _ :: _ => exists a b, In a froms /\ In b tos /\ sp_result g ex a b p
        end.
Proof.
  intros g ex tos froms Htos Hfroms. induction Hfroms as [|a froms Ha Hfroms IH]; intros m Hm; cbn [sp_from].
  - exists []. split; [reflexivity|]. intros a [].
  - destruct (sp_to_spec g ex a tos Ha Htos m Hm) as [p [m' [Hp Hres]]]. rewrite Hp.
    destruct p as [|x p].
    + destruct Hres as [Hm' Hnc]. destruct (IH m' Hm') as [p2 [Hp2 Hres2]].
      exists p2. split; [exact Hp2|]. destruct p2 as [|y p2].
      * intros z [Hz|Hz]; [subst z; exact Hnc | apply Hres2; exact Hz].
      * destruct Hres2 as [a' [b [Ha' Hr]]]. exists a', b. split; [right; exact Ha' | exact Hr].
    + exists (x :: p). split; [reflexivity|]. destruct Hres as [b [Hb Hr]]. exists a, b. split; [left; reflexivity|]. split; assumption.
Qed.

(* the exact specification of `plz query somepath` (raw path, i.e. with --hidden) *)
Definition some_connected (g : graph) (ex froms tos : list label) : Prop :=
  exists a b, In a froms /\ In b tos /\ (connects g ex a b \/ connects g ex b a).

Theorem somepath_exact_proof :
  forall g ex froms tos, Forall (in_graph g) froms -> Forall (in_graph g) tos ->
    exists p, some_path_raw g ex froms tos = Some p /\
      (p <> [] <-> some_connected g ex froms tos) /\
      (p <> [] -> exists a b, In a froms /\ In b tos /\ (joins g ex a b p \/ joins g ex b a p)).
Proof.
  intros g ex froms tos Hf Ht. unfold some_path_raw.
  destruct (sp_from_spec g ex tos froms Ht Hf [] (memo_ok_nil g ex)) as [p [Hp Hres]].
  exists p. split; [exact Hp|]. destruct p as [|x p].
  - split; [|intros H; exfalso; apply H; reflexivity].
    split; [intros H; exfalso; apply H; reflexivity|].
    intros [a [b [Ha [Hb Hc]]]]. exfalso. destruct (Hres a Ha b Hb) as [H1 H2]. destruct Hc; auto.
  - destruct Hres as [a [b [Ha [Hb [Hj Hc]]]]]. split.
    + split; [intros _; exists a, b; auto | intros _; discriminate].
    + intros _. exists a, b. auto.
Qed.

(* without --hidden the path is printed rule by rule: consecutive printed labels are different rules
   one of whose targets depends on a target of the next *)
Definition redge (g : graph) (ex : list label) (r1 r2 : label) : Prop :=
  r1 <> r2 /\ exists u v, parent_of g u = r1 /\ parent_of g v = r2 /\ edge g ex u v.

Lemma compact_head : forall x r, exists r', compact (x :: r) = x :: r'.
Proof.
  intros x r. revert x. induction r as [|y r IH]; intros x.
  - exists []. reflexivity.
  - cbn [compact]. destruct (N.eqb x y) eqn:E.
    + apply N.eqb_eq in E. subst y. apply IH.
    + eexists. reflexivity.
Qed.

Lemma compact_cons2 : forall x y r, compact (x :: y :: r) = if N.eqb x y then compact (y :: r) else x :: compact (y :: r).
Proof. reflexivity. Qed.

Lemma shown_chain : forall g ex p, chain (edge g ex) p -> chain (redge g ex) (compact (map (parent_of g) p)).
Proof.
  intros g ex. induction p as [|x p IH]; intros Hc; [exact I|].
  destruct p as [|y p]; [exact I|].
  cbn [chain] in Hc. destruct Hc as [Hxy Hc]. specialize (IH Hc).
  cbn [map] in *. rewrite compact_cons2.
  destruct (N.eqb (parent_of g x) (parent_of g y)) eqn:E; [exact IH|].
  destruct (compact_head (parent_of g y) (map (parent_of g) p)) as [r' Hr']. rewrite Hr' in *.
  cbn [chain]. split; [|exact IH]. split; [apply N.eqb_neq; exact E|]. exists x, y. auto.
Qed.

(* ------------------------------------------------------------------------------------------- *)
(* deps *)

Lemma wpath_snoc : forall g hid u v w c, wpath g hid u v c -> edge g [] v w -> wpath g hid u w (c + ecost g hid v w)%Z.
Proof.
  intros g hid u v w c H. induction H as [u v Huv|u v x c Huv Hvx IH]; intros Hw.
  - apply wp_cons; [exact Huv|]. apply wp_one. exact Hw.
  - rewrite <- Z.add_assoc. apply wp_cons; [exact Huv|]. apply IH. exact Hw.
Qed.

Lemma ecost_nonneg : forall g hid u v, (0 <= ecost g hid u v <= 1)%Z.
Proof.
  intros g hid u v. unfold ecost. destruct hid; [lia|].
  destruct (find g u); [|lia]. destruct (find g v); [|lia].
  destruct (has_parent v t0 && N.eqb (t_parent t0) (t_parent t)); lia.
Qed.

Section Deps.
  Variable g : graph.
  Variable hid : bool.
  Variable lim : Z.

  (* the label sets only grow *)
  Lemma deps_loop_mono :
    forall (rec : label -> Z -> dstate -> option dstate) it cur,
      (forall l c st st', rec l c st = Some st' -> incl (fst st) (fst st')) ->
      forall ls st st', deps_loop rec g hid it cur ls st = Some st' -> incl (fst st) (fst st').
  Proof.
    intros rec it cur Hrec. induction ls as [|l ls IH]; intros st st' H; cbn [deps_loop] in H.
    - injection H as <-. apply incl_refl.
    - destruct (mem l (fst st)); [apply IH; exact H|].
      destruct (find g l) as [il|].
      + match type of H with match ?r with _ => _ end = _ => destruct r as [st1|] eqn:Er; [|discriminate] end.
        apply IH in H. eapply incl_tran; [|exact H].
        destruct (hid || negb (has_parent l il)); [|destruct (N.eqb (t_parent il) (t_parent it))];
          apply Hrec in Er; cbn [fst] in Er; intros z Hz; apply Er; right; exact Hz.
      + apply IH in H. cbn [fst] in H. intros z Hz. apply H. right. exact Hz.
  Qed.

  Lemma deps_mono : forall fuel t cur st st', deps fuel g hid lim t cur st = Some st' -> incl (fst st) (fst st').
  Proof.
    induction fuel as [|f IH]; intros t cur st st' H; cbn [deps] in H; [discriminate|].
    destruct (Z.eqb cur lim); [injection H as <-; apply incl_refl|].
    destruct (find g t) as [it|]; [|injection H as <-; apply incl_refl].
    eapply deps_loop_mono; [|exact H]. intros l c s s' Hr. eapply IH. exact Hr.
  Qed.

  (* fuel *)
  Lemma deps_loop_total :
    forall (rec : label -> Z -> dstate -> option dstate) f it cur,
      (forall l c st, (unseen g (fst st) < f)%nat -> rec l c st <> None) ->
      (forall l c st st', rec l c st = Some st' -> incl (fst st) (fst st')) ->
      forall ls st, (unseen g (fst st) < S f)%nat -> deps_loop rec g hid it cur ls st <> None.
  Proof.
    intros rec f it cur Htot Hmono. induction ls as [|l ls IH]; intros st Hu; cbn [deps_loop]; [discriminate|].
    destruct (mem l (fst st)) eqn:Em; [apply IH; exact Hu|].
    apply mem_false_In in Em.
    destruct (find g l) as [il|] eqn:Hf.
    - pose proof (unseen_add g (fst st) l il Hf Em) as Hlt.
      match goal with |- match ?r with _ => _ end <> None => destruct r as [st1|] eqn:Er end.
      + apply IH.
        assert (Hi : incl (l :: fst st) (fst st1)).
        { destruct (hid || negb (has_parent l il)); [|destruct (N.eqb (t_parent il) (t_parent it))];
            apply Hmono in Er; exact Er. }
        pose proof (unseen_incl g _ _ Hi). lia.
      + exfalso.
        destruct (hid || negb (has_parent l il)); [|destruct (N.eqb (t_parent il) (t_parent it))];
          (eapply Htot; [|exact Er]); cbn [fst]; lia.
    - apply IH. cbn [fst]. pose proof (unseen_incl g (fst st) (l :: fst st) (fun x Hx => or_intror Hx)). lia.
  Qed.

  Lemma deps_total : forall fuel t cur st, (unseen g (fst st) < fuel)%nat -> deps fuel g hid lim t cur st <> None.
  Proof.
    induction fuel as [|f IH]; intros t cur st Hu; [lia|]. cbn [deps].
    destruct (Z.eqb cur lim); [discriminate|]. destruct (find g t) as [it|]; [|discriminate].
    apply (deps_loop_total (deps f g hid lim) f it cur).
    - intros l c s Hs. apply IH. exact Hs.
    - intros l c s s' Hr. eapply deps_mono. exact Hr.
    - exact Hu.
  Qed.

  (* ---- soundness: whatever is printed is visible and lies on a path of the printed cost, within the limit ---- *)
  Variable root : label.
  Hypothesis lim_ok : (-1 <= lim)%Z.

  (* t was reached from the root by a path of cost c (the root itself at cost 0) *)
  Definition at_cost (t : label) (c : Z) : Prop := (t = root /\ c = 0%Z) \/ wpath g hid root t c.

  Definition printed_ok (roots : list label) (out : list (Z * label)) : Prop :=
    forall lv l, In (lv, l) out ->
      visible g hid l /\ exists r, In r roots /\ wpath g hid r l (lv + 1)%Z /\ (lim = (-1)%Z \/ (lv + 1 <= lim)%Z).

  Variable roots : list label.
  Hypothesis root_in : In root roots.

  Definition call_ok (t : label) (cur : Z) : Prop :=
    at_cost t cur /\ (0 <= cur)%Z /\ (lim = (-1)%Z \/ (cur <= lim)%Z).

  Lemma at_cost_step : forall t it cur l, find g t = Some it -> In l (succs g [] it) -> at_cost t cur ->
    wpath g hid root l (cur + ecost g hid t l)%Z.
  Proof.
    intros t it cur l Hf Hl [[Ht Hc]|Hw].
    - subst. rewrite Z.add_0_l. apply wp_one. exists it. auto.
    - apply wpath_snoc; [exact Hw|]. exists it. auto.
  Qed.

  Lemma deps_loop_sound :
    forall (rec : label -> Z -> dstate -> option dstate) t it cur,
      find g t = Some it -> call_ok t cur -> Z.eqb cur lim = false ->
      (forall l c st st', rec l c st = Some st' -> call_ok l c -> printed_ok roots (snd st) -> printed_ok roots (snd st')) ->
      forall ls st st', incl ls (succs g [] it) -> deps_loop rec g hid it cur ls st = Some st' ->
        printed_ok roots (snd st) -> printed_ok roots (snd st').
  Proof.
    intros rec t it cur Hf [Hat [H0 Hlim]] Hne Hrec. apply Z.eqb_neq in Hne.
    induction ls as [|l ls IH]; intros st st' Hsub H Hp; cbn [deps_loop] in H.
    - injection H as <-. exact Hp.
    - assert (Hsub' : incl ls (succs g [] it)) by (intros z Hz; apply Hsub; right; exact Hz).
      destruct (mem l (fst st)); [eapply IH; eauto|].
      destruct (find g l) as [il|] eqn:Hfl; [|eapply IH; eauto].
      match type of H with match ?r with _ => _ end = _ => destruct r as [st1|] eqn:Er; [|discriminate] end.
      eapply IH; [exact Hsub'|exact H|].
      pose proof (at_cost_step t it cur l Hf (Hsub l (or_introl eq_refl)) Hat) as Hw.
      assert (Hcost : ecost g hid t l = if hid || negb (has_parent l il) then 1%Z
                                        else if N.eqb (t_parent il) (t_parent it) then 0%Z else 1%Z).
      { unfold ecost. destruct hid; [reflexivity|]. rewrite Hf, Hfl. cbn [orb].
        destruct (has_parent l il); cbn [negb andb]; reflexivity. }
      destruct (hid || negb (has_parent l il)) eqn:Ev.
      + apply Hrec in Er; [exact Er| |].
        * rewrite Hcost in Hw. split; [right; exact Hw|]. split; lia.
        * cbn [snd]. intros lv x Hin. apply in_app_or in Hin. destruct Hin as [Hin|[Hin|[]]]; [apply Hp; exact Hin|].
          injection Hin as <- <-. split.
          -- exists il. split; [exact Hfl|]. apply orb_true_iff in Ev. destruct Ev as [Ev|Ev]; [left; exact Ev|].
             right. apply negb_true_iff in Ev. exact Ev.
          -- exists root. rewrite Hcost in Hw. split; [exact root_in|]. split; [exact Hw|]. lia.
      + destruct (N.eqb (t_parent il) (t_parent it)) eqn:Ep.
        * apply Hrec in Er; [exact Er| |exact Hp].
          rewrite Hcost, Z.add_0_r in Hw. split; [right; exact Hw|]. split; lia.
        * apply Hrec in Er; [exact Er| |exact Hp].
          rewrite Hcost in Hw. split; [right; exact Hw|]. split; lia.
  Qed.

  Lemma deps_sound : forall fuel t cur st st', deps fuel g hid lim t cur st = Some st' ->
    call_ok t cur -> printed_ok roots (snd st) -> printed_ok roots (snd st').
  Proof.
    induction fuel as [|f IH]; intros t cur st st' H Hc Hp; cbn [deps] in H; [discriminate|].
    destruct (Z.eqb cur lim) eqn:El; [injection H as <-; exact Hp|].
    destruct (find g t) as [it|] eqn:Hf; [|injection H as <-; exact Hp].
    eapply (deps_loop_sound (deps f g hid lim) t it cur Hf Hc El); [|apply incl_refl|exact H|exact Hp].
    intros l c s s' Hr Hcl Hps. eapply IH; eauto.
  Qed.
End Deps.

Lemma deps_roots_sound :
  forall g hid lim all_roots, (-1 <= lim)%Z ->
    forall roots st st', incl roots all_roots -> deps_roots g hid lim roots st = Some st' ->
      printed_ok g hid lim all_roots (snd st) -> printed_ok g hid lim all_roots (snd st').
Proof.
  intros g hid lim all_roots Hl. induction roots as [|r roots IH]; intros st st' Hi H Hp; cbn [deps_roots] in H.
  - injection H as <-. exact Hp.
  - destruct (deps (fuel_of g) g hid lim r 0 st) as [st1|] eqn:E1; [|discriminate].
    eapply IH; [intros z Hz; apply Hi; right; exact Hz|exact H|].
    eapply (deps_sound g hid lim r Hl all_roots (Hi r (or_introl eq_refl))); [exact E1| |exact Hp].
    split; [left; split; reflexivity|]. split; lia.
Qed.

Lemma deps_roots_total : forall g hid lim roots st, deps_roots g hid lim roots st <> None.
Proof.
  intros g hid lim. induction roots as [|r roots IH]; intros st; cbn [deps_roots]; [discriminate|].
  destruct (deps (fuel_of g) g hid lim r 0 st) as [st1|] eqn:E1; [apply IH|].
  exfalso. eapply deps_total; [apply fuel_enough|exact E1].
Qed.

(* deps, part 1: never out of fuel; everything printed is within the limit *)
Theorem deps_sound_proof :
  forall g roots hid lim, (-1 <= lim)%Z ->
    exists out, deps_query g roots hid lim = Some out /\
      forall t, In t (map snd out) -> dwithin g hid roots lim t.
Proof.
  intros g roots hid lim Hl. unfold deps_query.
  destruct (deps_roots g hid lim roots ([], [])) as [st|] eqn:E; [|exfalso; eapply deps_roots_total; exact E].
  exists (snd st). split; [reflexivity|]. intros t Ht. apply in_map_iff in Ht. destruct Ht as [[lv l] [Hs Hin]].
  cbn [snd] in Hs. subst l.
  pose proof (deps_roots_sound g hid lim roots Hl roots _ _ (incl_refl _) E) as Hp. cbn [snd] in Hp.
  destruct (Hp (fun _ _ F => match F with end) lv t Hin) as [Hv [r [Hr [Hw Hlim]]]].
  split; [exact Hv|]. exists r, (lv + 1)%Z. auto.
Qed.

(* ---- completeness of deps without a level limit (lim = -1) ---- *)
Section DepsComplete.
  Variable g : graph.
  Variable hid : bool.

  Definition closedD (u : label) (d : list label) : Prop := forall v, edge g [] u v -> In v d.
  Definition printedV (u : label) (out : list (Z * label)) : Prop := visible g hid u -> In u (map snd out).

  Definition dc_ok (st st' : dstate) : Prop :=
    incl (fst st) (fst st') /\ incl (snd st) (snd st') /\
    forall u, In u (fst st') -> In u (fst st) \/ (closedD u (fst st') /\ printedV u (snd st')).

  Lemma closedD_mono : forall u d d', incl d d' -> closedD u d -> closedD u d'.
  Proof. intros u d d' Hi Hc v Hv. apply Hi. apply Hc. exact Hv. Qed.

  Lemma printedV_mono : forall u o o', incl o o' -> printedV u o -> printedV u o'.
  Proof.
    intros u o o' Hi Hp Hv. specialize (Hp Hv). apply in_map_iff in Hp. destruct Hp as [x [Hx Hin]].
    apply in_map_iff. exists x. split; [exact Hx | apply Hi; exact Hin].
  Qed.

  Lemma dc_refl : forall st, dc_ok st st.
  Proof. intros st. split; [apply incl_refl|]. split; [apply incl_refl|]. intros u Hu. left. exact Hu. Qed.

  Lemma dc_trans : forall a b c, dc_ok a b -> dc_ok b c -> dc_ok a c.
  Proof.
    intros a b c [H1 [H2 H3]] [K1 [K2 K3]]. split; [eapply incl_tran; eauto|]. split; [eapply incl_tran; eauto|].
    intros u Hu. destruct (K3 u Hu) as [Hb|Hg]; [|right; exact Hg].
    destruct (H3 u Hb) as [Ha|[Hc Hp]]; [left; exact Ha|]. right. split.
    - eapply closedD_mono; eauto.
    - eapply printedV_mono; eauto.
  Qed.

  Lemma deps_loop_complete :
    forall (rec : label -> Z -> dstate -> option dstate) it cur,
      (0 <= cur)%Z ->
      (forall l c st st', (0 <= c)%Z -> rec l c st = Some st' -> dc_ok st st' /\ closedD l (fst st')) ->
      forall ls st st', deps_loop rec g hid it cur ls st = Some st' ->
        dc_ok st st' /\ forall l, In l ls -> In l (fst st').
  Proof.
    intros rec it cur H0 Hrec. induction ls as [|l ls IH]; intros st st' H; cbn [deps_loop] in H.
    - injection H as <-. split; [apply dc_refl|]. intros l [].
    - destruct (mem l (fst st)) eqn:Em.
      { destruct (IH _ _ H) as [Hd Hall]. split; [exact Hd|]. intros z [Hz|Hz]; [|apply Hall; exact Hz].
        subst z. apply Hd. apply mem_In. exact Em. }
      destruct (find g l) as [il|] eqn:Hfl.
      2:{ destruct (IH _ _ H) as [Hd Hall]. cbn [fst snd] in *. split.
          - eapply dc_trans; [|exact Hd]. split; [intros z Hz; right; exact Hz|]. split; [apply incl_refl|].
            cbn [fst snd]. intros u [Hu|Hu]; [|left; exact Hu]. subst u. right. split.
            + intros v [iu [Hf _]]. congruence.
            + intros [iv [Hf _]]. congruence.
          - intros z [Hz|Hz]; [|apply Hall; exact Hz]. subst z. apply Hd. left. reflexivity. }
      match type of H with match ?r with _ => _ end = _ => destruct r as [st1|] eqn:Er; [|discriminate] end.
      destruct (IH _ _ H) as [Hd Hall].
      assert (Hstep : dc_ok st st1 /\ In l (fst st1)).
      { destruct (hid || negb (has_parent l il)) eqn:Ev.
        - apply Hrec in Er; [|lia]. destruct Er as [[R1 [R2 R3]] Rc]. cbn [fst snd] in *. split.
          + split; [intros z Hz; apply R1; right; exact Hz|]. split; [intros z Hz; apply R2; apply in_or_app; left; exact Hz|].
            intros u Hu. destruct (R3 u Hu) as [[Hu1|Hu1]|Hu1]; [|left; exact Hu1|right; exact Hu1].
            subst u. right. split; [exact Rc|]. intros _. apply in_map_iff. exists (cur, l). split; [reflexivity|].
            apply R2. apply in_or_app. right. left. reflexivity.
          + apply R1. left. reflexivity.
        - assert (Hnv : ~ visible g hid l).
          { intros [iv [Hf Hv]]. rewrite Hfl in Hf. injection Hf as <-. apply orb_false_iff in Ev. destruct Ev as [Eh Ep].
            apply negb_false_iff in Ep. destruct Hv; congruence. }
          assert (Hgen : forall c, (0 <= c)%Z -> rec l c (l :: fst st, snd st) = Some st1 -> dc_ok st st1 /\ In l (fst st1)).
          { intros c Hc0 Hr. apply Hrec in Hr; [|exact Hc0]. destruct Hr as [[R1 [R2 R3]] Rc]. cbn [fst snd] in *. split.
            - split; [intros z Hz; apply R1; right; exact Hz|]. split; [exact R2|].
              intros u Hu. destruct (R3 u Hu) as [[Hu1|Hu1]|Hu1]; [|left; exact Hu1|right; exact Hu1].
              subst u. right. split; [exact Rc|]. intros Hv. contradiction.
            - apply R1. left. reflexivity. }
          destruct (N.eqb (t_parent il) (t_parent it)); eapply Hgen; try exact Er; lia. }
      destruct Hstep as [Hs Hl]. split; [eapply dc_trans; eauto|].
      intros z [Hz|Hz]; [|apply Hall; exact Hz]. subst z. apply Hd. exact Hl.
  Qed.

  Lemma deps_complete : forall fuel t cur st st', (0 <= cur)%Z -> deps fuel g hid (-1) t cur st = Some st' ->
    dc_ok st st' /\ closedD t (fst st').
  Proof.
    induction fuel as [|f IH]; intros t cur st st' H0 H; cbn [deps] in H; [discriminate|].
    destruct (Z.eqb cur (-1)) eqn:El; [apply Z.eqb_eq in El; lia|].
    destruct (find g t) as [it|] eqn:Hf.
    - destruct (deps_loop_complete (deps f g hid (-1)) it cur H0 (fun l c s s' Hc Hr => IH l c s s' Hc Hr) _ _ _ H) as [Hd Hall].
      split; [exact Hd|]. intros v [iu [Hfu Hv]]. rewrite Hf in Hfu. injection Hfu as <-. apply Hall. exact Hv.
    - injection H as <-. split; [apply dc_refl|]. intros v [iu [Hfu _]]. congruence.
  Qed.

  Lemma deps_roots_complete : forall roots st st', deps_roots g hid (-1) roots st = Some st' ->
    dc_ok st st' /\ forall r, In r roots -> closedD r (fst st').
  Proof.
    induction roots as [|r roots IH]; intros st st' H; cbn [deps_roots] in H.
    - injection H as <-. split; [apply dc_refl|]. intros r [].
    - destruct (deps (fuel_of g) g hid (-1) r 0 st) as [st1|] eqn:E1; [|discriminate].
      destruct (deps_complete _ _ _ _ _ (Z.le_refl 0) E1) as [Hd1 Hc1]. destruct (IH _ _ H) as [Hd2 Hall].
      split; [eapply dc_trans; eauto|]. intros z [Hz|Hz]; [|apply Hall; exact Hz]. subst z.
      eapply closedD_mono; [|exact Hc1]. apply Hd2.
  Qed.

  Lemma closed_wpath : forall d, (forall x, In x d -> closedD x d) ->
    forall u w c, wpath g hid u w c -> closedD u d -> In w d.
  Proof.
    intros d Hall u w c Hw. induction Hw as [u v Huv|u v w c Huv Hvw IH]; intros Hc.
    - apply Hc. exact Huv.
    - apply IH. apply Hall. apply Hc. exact Huv.
  Qed.
End DepsComplete.

(* deps, part 2: without a level limit every visible target on a dependency path is printed *)
Theorem deps_complete_proof :
  forall g roots hid, exists out, deps_query g roots hid (-1) = Some out /\
    forall t, dwithin g hid roots (-1) t -> In t (map snd out).
Proof.
  intros g roots hid. unfold deps_query.
  destruct (deps_roots g hid (-1) roots ([], [])) as [st|] eqn:E; [|exfalso; eapply deps_roots_total; exact E].
  exists (snd st). split; [reflexivity|]. intros t [Hv [r [c [Hr [Hw _]]]]].
  destruct (deps_roots_complete g hid roots _ _ E) as [[_ [_ H3]] Hroots]. cbn [fst snd] in H3.
  assert (Hall : forall x, In x (fst st) -> closedD g x (fst st) /\ printedV g hid x (snd st)).
  { intros x Hx. destruct (H3 x Hx) as [[]|Hg]. exact Hg. }
  assert (Ht : In t (fst st)).
  { eapply closed_wpath; [intros x Hx; apply Hall; exact Hx | exact Hw | apply Hroots; exact Hr]. }
  apply (Hall t Ht). exact Hv.
Qed.

(* ------------------------------------------------------------------------------------------- *)
(* revdeps *)

Lemma In_find : forall g k v, NoDup (map fst g) -> In (k, v) g -> find g k = Some v.
Proof.
  induction g as [|[k0 v0] g IH]; intros k v Hnd Hin; [destruct Hin|].
  cbn [map fst] in Hnd. inversion Hnd as [|? ? Hnot Hnd']; subst. cbn [find].
  destruct Hin as [Hin|Hin].
  - injection Hin as <- <-. rewrite N.eqb_refl. reflexivity.
  - destruct (N.eqb k k0) eqn:E; [|apply IH; assumption].
    apply N.eqb_eq in E. subst k0. exfalso. apply Hnot. apply in_map_iff. exists (k, v). auto.
Qed.

Lemma In_find_some : forall g k v, In (k, v) g -> find g k <> None.
Proof.
  induction g as [|[k0 v0] g IH]; intros k v Hin; [destruct Hin|]. cbn [find].
  destruct (N.eqb k k0) eqn:E; [discriminate|]. destruct Hin as [Hin|Hin]; [|eapply IH; exact Hin].
  injection Hin as <- <-. rewrite N.eqb_refl in E. discriminate.
Qed.

Lemma rev_of_In : forall g p t, In t (rev_of g p) -> exists it, In (t, it) g /\ In p (succs g [] it).
Proof.
  intros g p t H. unfold rev_of in H. apply in_flat_map in H. destruct H as [[k v] [Hkv Hin]].
  cbn [fst snd] in Hin. apply in_map_iff in Hin. destruct Hin as [x [Hx Hf]]. subst k.
  apply filter_In in Hf. destruct Hf as [Hs He]. apply N.eqb_eq in He. subst x. exists v. auto.
Qed.

Lemma In_add : forall x y s, In x (add y s) -> x = y \/ In x s.
Proof.
  intros x y s H. unfold add in H. destruct (mem y s); [right; exact H|].
  apply in_app_or in H. destruct H as [H|[H|[]]]; [right; exact H | left; symmetry; exact H].
Qed.

Section Revdeps.
  Variable g : graph.
  Variable hid : bool.
  Variable maxd : Z.
  Variable roots : list label.
  Hypothesis g_nodup : NoDup (map fst g).

  Definition q_ok (t : label) (d : Z) : Prop := exists s, rstart g hid roots s /\ rpath g hid s t d.

  Definition rinv (st : rstate) : Prop :=
    (forall t d, In (t, d) (r_q st) -> q_ok t d) /\ (forall x, In x (r_ret st) -> rwithin g hid roots maxd x).

  Lemma push_inv : forall t d st, q_ok t d -> rinv st -> rinv (push (t, d) st).
  Proof.
    intros t d st Hq [Hi1 Hi2]. unfold push. cbn [fst]. destruct (mem t (r_done st)); [split; assumption|].
    split; cbn [r_q r_ret]; [|exact Hi2]. intros t' d' Hin. apply in_app_or in Hin.
    destruct Hin as [Hin|[Hin|[]]]; [apply Hi1; exact Hin|]. injection Hin as <- <-. exact Hq.
  Qed.

  Lemma rev_step_inv : forall nt nd st t, q_ok nt nd -> In t (rev_of g nt) -> rinv st -> rinv (rev_step g hid maxd nt nd st t).
  Proof.
    intros nt nd st t [s [Hs Hp]] Ht Hinv. unfold rev_step.
    destruct (Z.ltb nd maxd || Z.eqb maxd (-1)) eqn:Elim; [|exact Hinv].
    apply rev_of_In in Ht. destruct Ht as [it [Hin Hsucc]].
    assert (Hedge : edge g [] t nt) by (exists it; split; [apply In_find; assumption | exact Hsucc]).
    set (depth := if hid || negb (same_target g nt t) then (nd + 1)%Z else nd).
    assert (Hpath : rpath g hid s t depth).
    { pose proof (rp_snoc g hid s nt t nd Hp Hedge) as H. unfold rcost in H. unfold depth.
      destruct (hid || negb (same_target g nt t)); [exact H | rewrite Z.add_0_r in H; exact H]. }
    assert (Hle : maxd = (-1)%Z \/ (depth <= maxd)%Z).
    { apply orb_true_iff in Elim. destruct Elim as [El|El]; [right | left; apply Z.eqb_eq; exact El].
      apply Z.ltb_lt in El. unfold depth. destruct (hid || negb (same_target g nt t)); lia. }
    apply push_inv; [exists s; split; assumption|].
    destruct Hinv as [Hi1 Hi2]. split; cbn [r_q r_ret]; [exact Hi1|].
    destruct (Z.ltb 0 depth) eqn:Epos; [|exact Hi2]. apply Z.ltb_lt in Epos.
    assert (Hrep : forall x, report g hid t x -> rwithin g hid roots maxd x).
    { intros x Hx. exists s, t, depth. repeat split; try assumption; lia. }
    destruct (hid || negb (is_hidden g t)) eqn:Evis.
    - intros x Hx. apply In_add in Hx. destruct Hx as [Hx|Hx]; [|apply Hi2; exact Hx].
      subst x. apply Hrep. unfold report. rewrite Evis. reflexivity.
    - destruct (parent_target g t) as [p|] eqn:Epar; [|exact Hi2].
      intros x Hx. apply In_add in Hx. destruct Hx as [Hx|Hx]; [|apply Hi2; exact Hx].
      subst x. apply Hrep. unfold report. rewrite Evis. exact Epar.
  Qed.

  Lemma rev_fold_inv : forall nt nd ts st, q_ok nt nd -> incl ts (rev_of g nt) -> rinv st ->
    rinv (fold_left (rev_step g hid maxd nt nd) ts st).
  Proof.
    intros nt nd. induction ts as [|t ts IH]; intros st Hq Hsub Hinv; cbn [fold_left]; [exact Hinv|].
    apply IH; [exact Hq | intros z Hz; apply Hsub; right; exact Hz|].
    apply rev_step_inv; [exact Hq | apply Hsub; left; reflexivity | exact Hinv].
  Qed.

  Lemma rev_loop_sound : forall fuel st out, rinv st -> rev_loop fuel g hid maxd st = Some out ->
    forall x, In x out -> rwithin g hid roots maxd x.
  Proof.
    induction fuel as [|f IH]; intros st out Hinv H; cbn [rev_loop] in H; [discriminate|].
    destruct (r_q st) as [|[nt nd] q'] eqn:Eq.
    - injection H as <-. apply Hinv.
    - eapply IH; [|exact H]. destruct Hinv as [Hi1 Hi2].
      apply rev_fold_inv; [apply Hi1; rewrite Eq; left; reflexivity | apply incl_refl|].
      split; cbn [r_q r_ret]; [|exact Hi2]. intros t d Hin. apply Hi1. rewrite Eq. right. exact Hin.
  Qed.

  (* ---- fuel: queue length + unseen targets decreases with every pop ---- *)
  Definition rmeasure (st : rstate) : nat := (length (r_q st) + unseen g (r_done st))%nat.

  Lemma push_measure : forall t d st, find g t <> None -> (rmeasure (push (t, d) st) <= rmeasure st)%nat.
  Proof.
    intros t d st Hf. unfold push, rmeasure. cbn [fst]. destruct (mem t (r_done st)) eqn:Em; [lia|].
    cbn [r_q r_done]. rewrite app_length. cbn [length].
    destruct (find g t) as [i|] eqn:E; [|congruence].
    apply mem_false_In in Em. pose proof (unseen_add g (r_done st) t i E Em). lia.
  Qed.

  Lemma rev_step_measure : forall nt nd st t, In t (rev_of g nt) ->
    (rmeasure (rev_step g hid maxd nt nd st t) <= rmeasure st)%nat.
  Proof.
    intros nt nd st t Ht. unfold rev_step. destruct (Z.ltb nd maxd || Z.eqb maxd (-1)); [|lia].
    apply rev_of_In in Ht. destruct Ht as [it [Hin _]].
    match goal with |- (rmeasure (push ?n ?s) <= _)%nat => pose proof (push_measure (fst n) (snd n) s (In_find_some _ _ _ Hin)) as H end.
    cbn [fst snd] in H. exact H.
  Qed.

  Lemma rev_fold_measure : forall nt nd ts st, incl ts (rev_of g nt) ->
    (rmeasure (fold_left (rev_step g hid maxd nt nd) ts st) <= rmeasure st)%nat.
  Proof.
    intros nt nd. induction ts as [|t ts IH]; intros st Hsub; cbn [fold_left]; [lia|].
    etransitivity; [apply IH; intros z Hz; apply Hsub; right; exact Hz|].
    apply rev_step_measure. apply Hsub. left. reflexivity.
  Qed.

  Lemma rev_loop_total : forall fuel st, (rmeasure st < fuel)%nat -> rev_loop fuel g hid maxd st <> None.
  Proof.
    induction fuel as [|f IH]; intros st Hm; [lia|]. cbn [rev_loop].
    destruct (r_q st) as [|[nt nd] q'] eqn:Eq; [discriminate|]. apply IH.
    pose proof (rev_fold_measure nt nd (rev_of g nt) (mkR q' (r_done st) (r_ret st)) (incl_refl _)) as H.
    unfold rmeasure in *. cbn [r_q r_done] in *. rewrite Eq in Hm. cbn [length] in Hm. lia.
  Qed.

  (* ---- the initial pushes ---- *)
  Lemma children_In : forall r c, In c (children g r) -> parent_target g c = Some r.
  Proof.
    intros r c H. unfold children in H. apply in_flat_map in H. destruct H as [[k v] [_ Hin]]. cbn [fst] in Hin.
    destruct (parent_target g k) as [p|] eqn:E; [|destruct Hin].
    destruct (N.eqb p r) eqn:Ep; [|destruct Hin]. destruct Hin as [Hin|[]]. subst c.
    apply N.eqb_eq in Ep. subst p. exact E.
  Qed.

  Lemma parent_target_in : forall c r, parent_target g c = Some r -> find g c <> None.
  Proof. intros c r H. unfold parent_target in H. destruct (find g c); [discriminate|discriminate]. Qed.

  Lemma rev_init_ok :
    forall rs chs st, incl rs roots -> Forall (in_graph g) rs -> Forall2 (fun r ch => Permutation ch (children g r)) rs chs ->
      rinv st -> (rmeasure st <= length g)%nat ->
      rinv (rev_init g hid rs chs st) /\ (rmeasure (rev_init g hid rs chs st) <= length g)%nat.
  Proof.
    intros rs chs st Hsub Hin HF. revert st Hsub Hin.
    induction HF as [|r ch rs chs Hperm HF IH]; intros st Hsub Hin Hinv Hm; cbn [rev_init]; [split; assumption|].
    inversion Hin as [|? ? Hr Hin']; subst.
    assert (Hroot : In r roots) by (apply Hsub; left; reflexivity).
    cbn [hd tl].
    set (st1 := push (r, 0%Z) st).
    assert (H1 : rinv st1 /\ (rmeasure st1 <= length g)%nat).
    { split.
      - apply push_inv; [|exact Hinv]. exists r. split; [exists r; auto | apply rp_nil].
      - pose proof (push_measure r 0%Z st Hr). unfold st1. lia. }
    assert (H2 : forall cs s, incl cs (children g r) -> negb hid && negb (is_hidden g r) = true ->
                  rinv s /\ (rmeasure s <= length g)%nat ->
                  rinv (fold_left (fun s c => push (c, 0%Z) s) cs s) /\
                  (rmeasure (fold_left (fun s c => push (c, 0%Z) s) cs s) <= length g)%nat).
    { induction cs as [|c cs IHc]; intros s Hcs Hcond [Hs1 Hs2]; cbn [fold_left]; [split; assumption|].
      apply IHc; [intros z Hz; apply Hcs; right; exact Hz | exact Hcond|].
      assert (Hc : In c (children g r)) by (apply Hcs; left; reflexivity).
      apply andb_true_iff in Hcond. destruct Hcond as [Ch Cr]. apply negb_true_iff in Ch, Cr.
      split.
      - apply push_inv; [|exact Hs1]. exists c. split; [|apply rp_nil]. exists r. split; [exact Hroot|]. right. auto.
      - pose proof (push_measure c 0%Z s (parent_target_in c r (children_In r c Hc))). lia. }
    apply IH; [intros z Hz; apply Hsub; right; exact Hz | exact Hin' | |].
    - destruct (negb hid && negb (is_hidden g r)) eqn:Ec; [|apply H1].
      apply H2; [intros z Hz; eapply Permutation_in; eauto | reflexivity | exact H1].
    - destruct (negb hid && negb (is_hidden g r)) eqn:Ec; [|apply H1].
      apply H2; [intros z Hz; eapply Permutation_in; eauto | reflexivity | exact H1].
  Qed.
End Revdeps.

(* revdeps: never out of fuel; everything reported is within the limit, in whatever order Go enumerates
   the children of the roots *)
Theorem revdeps_sound_proof :
  forall g roots chs hid lim, NoDup (map fst g) -> Forall (in_graph g) roots ->
    Forall2 (fun r ch => Permutation ch (children g r)) roots chs ->
    exists out, revdeps_with g roots chs hid lim = Some out /\ forall x, In x out -> rwithin g hid roots lim x.
Proof.
  intros g roots chs hid lim Hnd Hin HF. unfold revdeps_with.
  assert (H0 : rinv g hid lim roots (mkR [] [] []) /\ (rmeasure g (mkR [] [] []) <= length g)%nat).
  { split; [split; cbn [r_q r_ret]; [intros t d []|intros x []]|].
    unfold rmeasure. cbn [r_q r_done length]. pose proof (unseen_le_length g []). lia. }
  destruct H0 as [Hi Hm].
  destruct (rev_init_ok g hid lim roots roots chs _ (incl_refl _) Hin HF Hi Hm) as [Hi' Hm'].
  destruct (rev_loop (S (length g + length roots)) g hid lim (rev_init g hid roots chs (mkR [] [] []))) as [out|] eqn:E.
  - exists out. split; [reflexivity|]. eapply rev_loop_sound; eauto.
  - exfalso. eapply rev_loop_total; [|exact E]. lia.
Qed.

(* ------------------------------------------------------------------------------------------- *)
(* the exact statements, and the witnesses against two of them *)

Definition somepath_exact : Prop :=
  forall g ex froms tos, Forall (in_graph g) froms -> Forall (in_graph g) tos ->
    exists p, some_path_raw g ex froms tos = Some p /\
      (p <> [] <-> some_connected g ex froms tos) /\
      (p <> [] -> exists a b, In a froms /\ In b tos /\ (joins g ex a b p \/ joins g ex b a p)) /\
      chain (redge g ex) (show g false p).

Definition deps_exact : Prop :=
  forall g roots hid lim, (-1 <= lim)%Z ->
    exists out, deps_query g roots hid lim = Some out /\
      forall t, In t (map snd out) <-> dwithin g hid roots lim t.

Definition revdeps_exact : Prop :=
  forall g roots chs hid lim, NoDup (map fst g) -> Forall (in_graph g) roots -> (-1 <= lim)%Z ->
    Forall2 (fun r ch => Permutation ch (children g r)) roots chs ->
    exists out, revdeps_with g roots chs hid lim = Some out /\
      forall x, In x out <-> rwithin g hid roots lim x.

Theorem somepath_exact_holds : somepath_exact.
Proof.
  intros g ex froms tos Hf Ht. destruct (somepath_exact_proof g ex froms tos Hf Ht) as [p [Hp [Hiff Hj]]].
  exists p. split; [exact Hp|]. split; [exact Hiff|]. split; [exact Hj|].
  unfold show. destruct p as [|x p]; [exact I|]. apply shown_chain.
  destruct Hj as [a [b [_ [_ [[x' [r [_ [_ [Hc _]]]]]|[x' [r [_ [_ [Hc _]]]]]]]]]]; [discriminate| |]; exact Hc.
Qed.

(* DESIGN.md witness: a=0 b=1 m=2 root=3 x=4 y=5;  root->{a,b}, a->m->x, b->x, x->y *)
Definition w_deps : graph :=
  [(0, mkT [2] 0 false [] []); (1, mkT [4] 1 false [] []); (2, mkT [4] 2 false [] []);
   (3, mkT [0; 1] 3 false [] []); (4, mkT [5] 4 false [] []); (5, mkT [] 5 false [] [])]%N.

Ltac edge_tac := eexists; split; [vm_compute; reflexivity | vm_compute; tauto].

Lemma w_deps_within : dwithin w_deps false [3%N] 3 5%N.
Proof.
  split.
  - eexists. split; [vm_compute; reflexivity|]. right. reflexivity.
  - exists 3%N. eexists. split; [left; reflexivity|]. split.
    + apply (wp_cons w_deps false 3%N 1%N 5%N); [edge_tac|].
      apply (wp_cons w_deps false 1%N 4%N 5%N); [edge_tac|].
      apply (wp_one w_deps false 4%N 5%N). edge_tac.
    + right. vm_compute. discriminate.
Qed.

Theorem deps_refuted : ~ deps_exact.
Proof.
  intros H. destruct (H w_deps [3%N] false 3%Z ltac:(lia)) as [out [Hq Hiff]].
  vm_compute in Hq. injection Hq as <-.
  pose proof (proj2 (Hiff 5%N) w_deps_within) as Hin. vm_compute in Hin.
  repeat (destruct Hin as [Hin|Hin]; [discriminate|]). exact Hin.
Qed.

(* revdeps witness: _r#t=0 a=1 d=2 e=3 r=4 y=5;  e->d, d->{a,r}, a->_r#t, r->_r#t, _r#t->y *)
Definition w_rev : graph :=
  [(0, mkT [5] 4 true [] []); (1, mkT [0] 1 false [] []); (2, mkT [1; 4] 2 false [] []);
   (3, mkT [2] 3 false [] []); (4, mkT [0] 4 false [] []); (5, mkT [] 5 false [] [])]%N.

Lemma w_rev_within : rwithin w_rev false [5%N] 3 3%N.
Proof.
  exists 5%N, 3%N. eexists. split; [exists 5%N; split; [left; reflexivity | left; reflexivity]|]. split.
  - apply (rp_snoc w_rev false 5%N 2%N 3%N); [|edge_tac].
    apply (rp_snoc w_rev false 5%N 4%N 2%N); [|edge_tac].
    apply (rp_snoc w_rev false 5%N 0%N 4%N); [|edge_tac].
    apply (rp_snoc w_rev false 5%N 5%N 0%N); [|edge_tac].
    apply rp_nil.
  - split; [vm_compute; discriminate|]. split; [right; vm_compute; discriminate|]. vm_compute. reflexivity.
Qed.

Theorem revdeps_refuted : ~ revdeps_exact.
Proof.
  intros H.
  assert (Hnd : NoDup (map fst w_rev)).
  { cbn [map fst w_rev]. repeat (constructor; [cbn [In]; intros Hx; repeat (destruct Hx as [Hx|Hx]; [discriminate|]); exact Hx|]). constructor. }
  assert (Hin : Forall (in_graph w_rev) [5%N]) by (constructor; [vm_compute; discriminate | constructor]).
  assert (Hch : Forall2 (fun r ch => Permutation ch (children w_rev r)) [5%N] [[]]).
  { constructor; [vm_compute; constructor | constructor]. }
  destruct (H w_rev [5%N] [[]] false 3%Z Hnd Hin ltac:(lia) Hch) as [out [Hq Hiff]].
  vm_compute in Hq. injection Hq as <-.
  pose proof (proj2 (Hiff 3%N) w_rev_within) as Hx. vm_compute in Hx.
  repeat (destruct Hx as [Hx|Hx]; [discriminate|]). exact Hx.
Qed.
