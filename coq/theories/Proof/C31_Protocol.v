(* C31 - the statement-level lock protocol (Model/C31_Protocol.v): for EVERY program that satisfies the static
   condition `guarded`, every number of processes working on the same target and every schedule,
   - no two processes are inside the critical section [prepare the temporary directory .. outputs moved
     and recorded] at the same time (protocol_mutex),
   - whoever is inside holds the lock, and at most one process holds it (protocol_inside_holds),
   - unless all have returned some process can move (protocol_no_deadlock), every move lowers the measure
     pmu (protocol_measure), so every schedule contains at most pmu effective moves;
   the programs that gotrans regenerates from buildTarget for filegroups and for all other targets satisfy
   `guarded` (gen_paths_guarded - compiled on every run, so a release moved before StoreTargetMetadata /
   moveOutputs, or a kind of target that no longer takes the lock, breaks it), and each conjunct of `guarded`
   is needed: the two shapes just named have clashing schedules (early_release_clashes, unlocked_kind_clashes). *)
From Coq Require Import String Lia.
From PlzV Require Import Base.Harness Model.C31_Protocol.
From PlzV Require Gen.LockProtocol.

(* ------------------------------------------------------------------------------------------ *)
(* list helpers *)

Lemma existsb_false_all {A} (f : A -> bool) l : existsb f l = false -> forall x, In x l -> f x = false.
Proof.
  induction l as [|a l IH]; intros He x Hin; [destruct Hin|]. cbn in He. apply orb_false_iff in He as [Ha Hl].
  destruct Hin as [<-|Hin]; [exact Ha|exact (IH Hl x Hin)].
Qed.

Lemma all_false_existsb {A} (f : A -> bool) l : (forall x, In x l -> f x = false) -> existsb f l = false.
Proof.
  induction l as [|a l IH]; intros Hall; [reflexivity|]. cbn. rewrite (Hall a (or_introl eq_refl)). cbn.
  apply IH. intros x Hx. apply Hall. right. exact Hx.
Qed.

Lemma forallb_false_ex {A} (f : A -> bool) l : forallb f l = false -> exists x, In x l /\ f x = false.
Proof.
  induction l as [|a l IH]; intros Hf; [discriminate|]. cbn in Hf. destruct (f a) eqn:Ea.
  - cbn in Hf. destruct (IH Hf) as (x & Hx & Hfx). exists x. split; [right; exact Hx|exact Hfx].
  - exists a. split; [left; reflexivity|exact Ea].
Qed.

Lemma plist_sum_cons a l : list_sum (a :: l) = a + list_sum l.
Proof. reflexivity. Qed.

Lemma psum_update (f : nat -> nat) (x : nat) i : forall n a, a <= i < a + n ->
  list_sum (map (fun j => if Nat.eqb j i then x else f j) (seq a n)) + f i = list_sum (map f (seq a n)) + x.
Proof.
  induction n as [|n IH]; intros a Hi; [lia|]. cbn [seq map]. rewrite !plist_sum_cons.
  destruct (Nat.eqb_spec a i) as [->|Hne].
  - assert (E : map (fun j => if Nat.eqb j i then x else f j) (seq (S i) n) = map f (seq (S i) n)).
    { apply map_ext_in. intros j Hj. apply in_seq in Hj. destruct (Nat.eqb_spec j i); [lia|reflexivity]. }
    rewrite E. lia.
  - assert (Hi' : S a <= i < S a + n) by lia. specialize (IH (S a) Hi'). lia.
Qed.

(* ------------------------------------------------------------------------------------------ *)
(* the invariant of one process: what is left of its program is guarded under its current lock state; once
   it has touched the critical section and something of it is still to come, it holds the lock; a process
   that has returned holds nothing *)

Definition J (p : proc) : Prop :=
  guarded (p_held p) (p_rest p) = true
  /\ (p_started p = true -> existsb is_crit (p_rest p) = true -> p_held p = true)
  /\ (p_exited p = true -> p_held p = false /\ p_rest p = []).

Lemma J_init prot : guarded false prot = true -> J (mkP prot false false false).
Proof. intros Hg. split; [exact Hg|]. split; intros; discriminate. Qed.

Lemma J_step b p p' : J p -> proc_step b p = Some p' -> J p'.
Proof.
  intros (Hg & Hs & Hx) Hst. unfold proc_step in Hst. destruct p as [rest h stt ex]; cbn in *.
  destruct rest as [|o r].
  - destruct ex; [discriminate|]. injection Hst as <-. repeat split; cbn; auto; intros; discriminate.
  - destruct o; cbn in Hg.
    + destruct (b || h) eqn:E; [discriminate|]. injection Hst as <-. apply andb_true_iff in Hg as [_ Hg].
      repeat split; cbn; auto; intros; discriminate.
    + injection Hst as <-. apply andb_true_iff in Hg as [Hn Hg]. split; [exact Hg|]. split; cbn.
      * intros _ Hc. rewrite Hc in Hn. discriminate.
      * intros; discriminate.
    + injection Hst as <-. split; [exact Hg|]. split; cbn; [|intros; discriminate].
      intros Hs1 Hc. apply Hs; [exact Hs1|exact Hc].
    + injection Hst as <-. apply andb_true_iff in Hg as [Hh Hg]. split; [exact Hg|]. split; cbn; [|intros; discriminate].
      intros _ _. exact Hh.
    + injection Hst as <-. split; [exact Hg|]. split; cbn; [|intros; discriminate].
      intros Hs1 Hc. apply Hs; [exact Hs1|exact Hc].
Qed.

Lemma J_inside p : J p -> inside p = true -> p_held p = true.
Proof.
  intros (Hg & Hs & _) Hi. unfold inside in Hi. destruct (p_rest p) as [|o r] eqn:E.
  - apply andb_true_iff in Hi as [_ Hc]. discriminate.
  - destruct o; try (apply andb_true_iff in Hi as [H1 H2]; apply Hs; [exact H1|exact H2]).
    cbn in Hg. apply andb_true_iff in Hg as [Hh _]. exact Hh.
Qed.

(* a step that ends with the lock held either had it already or took it while nobody else held it *)
Lemma step_held b p p' : proc_step b p = Some p' -> p_held p' = true -> p_held p = true \/ b = false.
Proof.
  intros Hst Hh. unfold proc_step in Hst. destruct p as [rest h stt ex]; cbn in *. destruct rest as [|o r].
  - destruct ex; [discriminate|]. injection Hst as <-. discriminate.
  - destruct o.
    + destruct (b || h) eqn:E; [discriminate|]. apply orb_false_iff in E as [Eb _]. right. exact Eb.
    + injection Hst as <-. discriminate.
    + injection Hst as <-. left. exact Hh.
    + injection Hst as <-. left. exact Hh.
    + injection Hst as <-. left. exact Hh.
Qed.

(* ------------------------------------------------------------------------------------------ *)
(* the invariant of the system *)

Definition G (n : nat) (st : pstate) : Prop :=
  (forall i, J (st i))
  /\ (forall i j, i < n -> j < n -> p_held (st i) = true -> p_held (st j) = true -> i = j).

Lemma G_init prot n : guarded false prot = true -> G n (pinit prot).
Proof.
  intros Hg. split.
  - intros i. apply J_init. exact Hg.
  - intros i j _ _ Hi. discriminate.
Qed.

Lemma others_hold_false n st i j : others_hold n st i = false -> j < n -> j <> i -> p_held (st j) = false.
Proof.
  intros Ho Hj Hne. assert (Hin : In j (seq 0 n)) by (apply in_seq; lia).
  pose proof (existsb_false_all _ _ Ho j Hin) as Hf. cbn beta in Hf.
  destruct (Nat.eqb_spec j i) as [->|_]; [contradiction|]. exact Hf.
Qed.

Lemma G_step n st i st' : G n st -> pstep n st i = Some st' -> G n st'.
Proof.
  intros [HJ HU] Hst. unfold pstep in Hst. destruct (Nat.ltb_spec i n) as [Hi|]; [|discriminate].
  destruct (proc_step (others_hold n st i) (st i)) as [p'|] eqn:Hp; [|discriminate]. injection Hst as <-. split.
  - intros k. destruct (Nat.eqb_spec k i) as [->|_]; [exact (J_step _ _ _ (HJ i) Hp)|exact (HJ k)].
  - intros a b Ha Hb Hha Hhb.
    destruct (Nat.eqb_spec a i) as [->|Hai]; destruct (Nat.eqb_spec b i) as [->|Hbi]; try reflexivity.
    + destruct (step_held _ _ _ Hp Hha) as [Hold|Hfree].
      * exact (HU i b Hi Hb Hold Hhb).
      * rewrite Hfree in Hp. pose proof (others_hold_false n st i b Hfree Hb Hbi) as Hn. rewrite Hn in Hhb. discriminate.
    + destruct (step_held _ _ _ Hp Hhb) as [Hold|Hfree].
      * exact (HU a i Ha Hi Hha Hold).
      * pose proof (others_hold_false n st i a Hfree Ha Hai) as Hn. rewrite Hn in Hha. discriminate.
    + exact (HU a b Ha Hb Hha Hhb).
Qed.

Lemma G_apply n st i : G n st -> G n (papply n st i).
Proof.
  intros HG. unfold papply. destruct (pstep n st i) as [st'|] eqn:E; [exact (G_step _ _ _ _ HG E)|exact HG].
Qed.

Lemma G_run n sched : forall st, G n st -> G n (prun n sched st).
Proof.
  induction sched as [|i sched IH]; intros st HG; [exact HG|]. cbn. apply IH. apply G_apply. exact HG.
Qed.

(* ------------------------------------------------------------------------------------------ *)
(* mutual exclusion of the whole critical section *)

Theorem protocol_inside_holds prot n sched :
  guarded false prot = true ->
  let st := prun n sched (pinit prot) in
  (forall i, inside (st i) = true -> p_held (st i) = true)
  /\ (forall i j, i < n -> j < n -> p_held (st i) = true -> p_held (st j) = true -> i = j).
Proof.
  intros Hg st. destruct (G_run n sched _ (G_init prot n Hg)) as [HJ HU]. split.
  - intros i Hi. exact (J_inside _ (HJ i) Hi).
  - exact HU.
Qed.

Theorem protocol_mutex prot n sched :
  guarded false prot = true ->
  forall i j, i < n -> j < n -> i <> j ->
  inside (prun n sched (pinit prot) i) = true -> inside (prun n sched (pinit prot) j) = true -> False.
Proof.
  intros Hg i j Hi Hj Hne Hii Hij. destruct (protocol_inside_holds prot n sched Hg) as [Hin HU].
  exact (Hne (HU i j Hi Hj (Hin i Hii) (Hin j Hij))).
Qed.

Corollary protocol_no_clash prot n sched :
  guarded false prot = true -> clash n (prun n sched (pinit prot)) = false.
Proof.
  intros Hg. unfold clash. apply all_false_existsb. intros i Hi. apply all_false_existsb. intros j Hj.
  apply in_seq in Hi. apply in_seq in Hj.
  destruct (Nat.eqb_spec i j) as [->|Hne]; [reflexivity|]. cbn [negb andb].
  destruct (inside (prun n sched (pinit prot) i)) eqn:Ei; [|reflexivity].
  destruct (inside (prun n sched (pinit prot) j)) eqn:Ej; [|reflexivity].
  exfalso. apply (protocol_mutex prot n sched Hg i j); [lia|lia|exact Hne|exact Ei|exact Ej].
Qed.

(* ------------------------------------------------------------------------------------------ *)
(* progress *)

(* a process that has not returned can move when nobody else holds the lock, or when it holds it itself *)
Lemma proc_step_free p : J p -> p_exited p = false ->
  forall b, (b = false \/ p_held p = true) -> proc_step b p <> None.
Proof.
  intros (Hg & _ & _) Hex b Hb. unfold proc_step. destruct p as [rest h stt ex]; cbn in *. subst ex.
  destruct rest as [|o r]; [discriminate|]. destruct o; try discriminate.
  cbn in Hg. apply andb_true_iff in Hg as [Hnh _]. destruct h; [discriminate|].
  destruct Hb as [->|Hb]; [discriminate|discriminate].
Qed.

Theorem protocol_no_deadlock prot n sched :
  guarded false prot = true ->
  let st := prun n sched (pinit prot) in
  all_exited n st = false -> exists i, i < n /\ pstep n st i <> None.
Proof.
  intros Hg st Hne. destruct (G_run n sched _ (G_init prot n Hg)) as [HJ HU]. fold st in HJ, HU.
  destruct (existsb (fun j => p_held (st j)) (seq 0 n)) eqn:Eh.
  - (* somebody holds the lock: it can move *)
    apply existsb_exists in Eh as (j & Hj & Hh). apply in_seq in Hj. exists j. split; [lia|].
    unfold pstep. destruct (Nat.ltb_spec j n) as [_|]; [|lia].
    destruct (HJ j) as (_ & _ & Hx). assert (Hex : p_exited (st j) = false).
    { destruct (p_exited (st j)); [|reflexivity]. destruct (Hx eq_refl) as [Hf _]. rewrite Hf in Hh. discriminate. }
    pose proof (proc_step_free (st j) (HJ j) Hex (others_hold n st j) (or_intror Hh)) as Hs.
    destruct (proc_step (others_hold n st j) (st j)); [discriminate|contradiction].
  - (* nobody does: whoever has not returned can move *)
    unfold all_exited in Hne. apply forallb_false_ex in Hne as (i & Hi & Hex). apply in_seq in Hi. exists i. split; [lia|].
    unfold pstep. destruct (Nat.ltb_spec i n) as [_|]; [|lia].
    assert (Ho : others_hold n st i = false).
    { apply all_false_existsb. intros j Hj. rewrite (existsb_false_all _ _ Eh j Hj). apply andb_false_r. }
    pose proof (proc_step_free (st i) (HJ i) Hex (others_hold n st i) (or_introl Ho)) as Hs.
    destruct (proc_step (others_hold n st i) (st i)); [discriminate|contradiction].
Qed.

Lemma pmu_proc_le r h stt : pmu_proc (mkP r h stt false) <= S (length r).
Proof. unfold pmu_proc. cbn. destruct r; cbn; lia. Qed.

Lemma proc_step_measure b p p' : proc_step b p = Some p' -> pmu_proc p' < pmu_proc p.
Proof.
  intros Hst. unfold proc_step in Hst. destruct p as [rest h stt ex]; cbn in *. destruct rest as [|o r].
  - destruct ex; [discriminate|]. injection Hst as <-. cbn. lia.
  - assert (Hp : pmu_proc (mkP (o :: r) h stt ex) = S (S (length r))) by reflexivity. rewrite Hp.
    destruct o; try (injection Hst as <-; match goal with |- pmu_proc (mkP ?r' ?h' ?s' false) < _ => pose proof (pmu_proc_le r' h' s') end; lia).
    destruct (b || h); [discriminate|]. injection Hst as <-. pose proof (pmu_proc_le r true stt). lia.
Qed.

Theorem protocol_measure n st i st' : pstep n st i = Some st' -> pmu n st' < pmu n st.
Proof.
  intros Hst. unfold pstep in Hst. destruct (Nat.ltb_spec i n) as [Hi|]; [|discriminate].
  destruct (proc_step (others_hold n st i) (st i)) as [p'|] eqn:Hp; [|discriminate]. injection Hst as <-.
  pose proof (proc_step_measure _ _ _ Hp) as Hlt. unfold pmu.
  assert (E : map (fun k => pmu_proc (if Nat.eqb k i then p' else st k)) (seq 0 n)
              = map (fun k => if Nat.eqb k i then pmu_proc p' else (fun k => pmu_proc (st k)) k) (seq 0 n)).
  { apply map_ext. intros k. destruct (Nat.eqb k i); reflexivity. }
  rewrite E. pose proof (psum_update (fun k => pmu_proc (st k)) (pmu_proc p') i n 0 ltac:(lia)) as Hs. cbn beta in Hs. lia.
Qed.

Lemma pmu_init prot n : pmu n (pinit prot) = n * S (length prot).
Proof.
  assert (Hp : pmu_proc (mkP prot false false false) = S (length prot)) by (unfold pmu_proc; cbn; destruct prot; reflexivity).
  unfold pmu, pinit. rewrite Hp. generalize 0. induction n as [|n IH]; intros a; [reflexivity|].
  cbn [seq map]. rewrite plist_sum_cons, IH. lia.
Qed.

(* ------------------------------------------------------------------------------------------ *)
(* the programs regenerated from buildTarget *)

Lemma gen_paths_guarded :
  guarded false prot_fg = true /\ guarded false prot_nonfg = true
  /\ existsb is_crit prot_fg = true /\ existsb is_crit prot_nonfg = true
  /\ existsb is_defer prot_fg = true /\ existsb is_defer prot_nonfg = true.
Proof. vm_compute. repeat split; reflexivity. Qed.

(* the statements of the section, in the order the three events of Model/C31.v assume; the filegroup's
   whole work is one statement followed by its record *)
Lemma gen_paths_shape :
  prot_nonfg = [OAcq; ODefer; OSkip; OSkip; OCrit; OCrit; OCrit; OCrit; OCrit; OCrit; OCrit; OCrit; OSkip; OSkip]
  /\ prot_fg = [OAcq; ODefer; OCrit; OCrit]
  /\ map op_of ["prepareDirectories"; "build"; "StoreTargetMetadata"; "moveOutputs"; "buildFilegroup"; "needsBuilding"; "storeInCache"]%string
     = [OCrit; OCrit; OCrit; OCrit; OCrit; OSkip; OSkip].
Proof. vm_compute. repeat split; reflexivity. Qed.

Lemma guarded_of_kind fg : guarded false (prot_of fg) = true.
Proof. destruct fg; [exact (proj1 gen_paths_guarded)|exact (proj1 (proj2 gen_paths_guarded))]. Qed.

(* ------------------------------------------------------------------------------------------ *)
(* each part of `guarded` is needed *)

(* the lock given back after the command, before the outputs are collected: process 0 runs up to
   StoreTargetMetadata, process 1 takes the lock and reaches prepareDirectories *)
Definition early_release : list op := [OAcq; ODefer; OSkip; OCrit; OCrit; ORel; OCrit; OCrit; OSkip].
Lemma early_release_clashes :
  guarded false early_release = false
  /\ clash 2 (prun 2 [0; 0; 0; 0; 0; 0; 1; 1; 1] (pinit early_release)) = true.
Proof. vm_compute. split; reflexivity. Qed.

(* a kind of target that does not take the lock at all *)
Definition unlocked_kind : list op := [OCrit; OCrit].
Lemma unlocked_kind_clashes :
  guarded false unlocked_kind = false /\ clash 2 (pinit unlocked_kind) = true.
Proof. vm_compute. split; reflexivity. Qed.

(* non-vacuity: under the real program three processes do get through, one after the other, and in between
   one of them is inside the section while another waits at the lock *)
Lemma ex_protocol_nonvacuous :
  let mid := prun 3 [0; 0; 0; 0; 0; 1; 2] (pinit prot_nonfg) in
  inside (mid 0) = true /\ p_held (mid 0) = true /\ p_held (mid 1) = false /\ p_rest (mid 1) = prot_nonfg
  /\ all_exited 3 (prun 3 (repeat 0 15 ++ repeat 1 15 ++ repeat 2 15) (pinit prot_nonfg)) = true
  /\ pmu 3 (pinit prot_nonfg) = 45.
Proof. vm_compute. repeat split; reflexivity. Qed.
