(* C36 - proofs about the reading of exclude build expressions: the parser model never runs out of fuel, a relative
   expression `:name` is resolved against the package plz was started in, `//` forms read the same from every
   package, and the documented forms (Proof/C36_spec.v, `reads`) are accepted with the documented meaning. *)
From Coq Require Import String.
From PlzV Require Import Base.Harness Base.StrFacts Gen.LabelFilter Model.C36 Proof.C36_spec Proof.C36.
From Coq Require Import Lia List.
Local Open Scope list_scope.

(* ---- fuel ---------------------------------------------------------------------------------------------- *)
Lemma parse_subrepo_no_fuel rec target :
  (forall idx, rec (skipn idx target) <> PFuel) -> parse_subrepo rec target <> PFuel.
Proof.
  intros Hrec. unfold parse_subrepo.
  destruct (match index_sub (lit "//") target with Some i => Some i | None => index_byte 58%N target end) as [idx|].
  - destruct (existsb _ _); [discriminate|]. specialize (Hrec idx).
    destruct (rec (skipn idx target)); [discriminate | discriminate | contradiction].
  - destruct (last_index_byte 47%N target); discriminate.
Qed.

Lemma host_parts_no_fuel target rest : host_parts target rest <> PFuel.
Proof.
  unfold host_parts. destruct (index_byte 58%N target).
  - destruct (_ || _); discriminate.
  - destruct (negb _); [discriminate|]. destruct (has_suffix _ _); [discriminate|].
    destruct (last_index_byte _ _); discriminate.
Qed.

(* ParseBuildLabelParts terminates within len(target)+1 calls: the fuel the model passes is never used up *)
Lemma parse_parts_no_fuel : forall fuel target cur, length target < fuel -> parse_parts fuel target cur <> PFuel.
Proof.
  induction fuel as [|fuel IH]; intros target cur Hlen; [lia|].
  cbn [parse_parts]. destruct target as [|c0 [|c1 rest]]; [discriminate | discriminate|].
  cbn [length] in Hlen.
  destruct (N.eqb c0 58%N); [destruct (validate_target_name _); discriminate|].
  destruct (N.eqb c0 64%N).
  - apply parse_subrepo_no_fuel. intros idx. apply IH.
    pose proof (skipn_length idx (c1 :: rest)) as Hs. cbn [length] in Hs. lia.
  - destruct (N.eqb c0 47%N && N.eqb c1 47%N); [|discriminate].
    destruct rest as [|c2 rest3]; [apply host_parts_no_fuel|].
    destruct (N.eqb c2 47%N); [|apply host_parts_no_fuel].
    apply parse_subrepo_no_fuel. intros idx. apply IH.
    pose proof (skipn_length idx rest3) as Hs. cbn [length] in Hlen. lia.
Qed.

Lemma try_parse_fuel cur target : parse_parts (S (length target)) target cur <> PFuel.
Proof. apply parse_parts_no_fuel. lia. Qed.

(* ---- relative expressions ------------------------------------------------------------------------------ *)
Lemma valid_name_nonempty name : validate_target_name name = true -> is_nil name = false.
Proof. unfold validate_target_name. destruct name; [discriminate | reflexivity]. Qed.

(* `--exclude :name` given while plz runs in package cur is //cur:name - or an error, never anything else *)
Lemma parse_exclude_relative cur name :
  parse_exclude cur (COLON :: name) =
  if validate_target_name name then Some {| l_sub := []; l_pkg := cur; l_name := name |} else None.
Proof.
  unfold parse_exclude, COLON. change (has_prefix (lit ":") (58%N :: name)) with true. cbv iota.
  unfold try_parse. cbn [length parse_parts].
  destruct name as [|c name].
  - reflexivity.
  - change (N.eqb 58 58) with true. cbv iota.
    destruct (validate_target_name (c :: name)) eqn:E; reflexivity.
Qed.

(* `//` forms are absolute: the package plz was started in plays no part *)
Lemma parse_exclude_absolute cur x : has_prefix (s "//") x = true -> parse_exclude cur x = parse_exclude [] x.
Proof.
  intros H. change (s "//") with [47%N; 47%N] in H.
  destruct x as [|a [|b x]]; cbn [has_prefix] in H; [discriminate | rewrite andb_false_r in H; discriminate|].
  apply andb_true_iff in H as [Ha H]. apply andb_true_iff in H as [Hb _].
  apply N.eqb_eq in Ha, Hb. subst a b. reflexivity.
Qed.

(* ---- the documented forms ------------------------------------------------------------------------------ *)
Lemma contains_any_false x chars c : contains_any x chars = false -> In c chars -> ~ In c x.
Proof.
  unfold contains_any. intros H Hc Hx.
  assert (existsb (fun c => existsb (N.eqb c) chars) x = true); [|congruence].
  apply existsb_exists. exists c. split; [exact Hx|]. apply existsb_exists. exists c. split; [exact Hc | apply N.eqb_refl].
Qed.

Lemma valid_package_facts p :
  validate_package_name p = true -> ~ In COLON p /\ (p = [] \/ exists c r, p = c :: r /\ c <> SLASH).
Proof.
  unfold validate_package_name. destruct p as [|c r]; [intros _; split; [intros [] | left; reflexivity]|].
  intros H. apply andb_true_iff in H as [H _]. apply andb_true_iff in H as [H Hbad]. apply andb_true_iff in H as [Hc _].
  split.
  - apply negb_true_iff in Hbad. apply (contains_any_false _ _ COLON Hbad). vm_compute. tauto.
  - right. exists c, r. split; [reflexivity|]. apply negb_true_iff in Hc. apply N.eqb_neq in Hc. exact Hc.
Qed.

Lemma index_byte_app c a b : ~ In c a -> index_byte c (a ++ c :: b) = Some (length a).
Proof.
  induction a as [|x a IH]; intros Hn; cbn [app index_byte length].
  - rewrite N.eqb_refl. reflexivity.
  - destruct (N.eqb_spec x c) as [->|Hne]; [exfalso; apply Hn; left; reflexivity|].
    rewrite IH; [reflexivity|]. intros H. apply Hn. right. exact H.
Qed.

Lemma firstn_app_exact {A} (a b : list A) : firstn (length a) (a ++ b) = a.
Proof. induction a as [|x a IH]; cbn [length firstn app]; [destruct b; reflexivity | rewrite IH; reflexivity]. Qed.

Lemma skipn_app_exact {A} (a b : list A) : skipn (length a) (a ++ b) = b.
Proof. induction a as [|x a IH]; cbn [length skipn app]; [reflexivity | exact IH]. Qed.

(* ParseBuildLabelParts on //pkg:name, in any package, with any fuel left *)
Lemma parse_parts_absolute fuel cur p name :
  validate_package_name p = true -> validate_target_name name = true -> name <> s "..." ->
  parse_parts (S fuel) (s "//" ++ p ++ COLON :: name) cur = POk p name [].
Proof.
  intros Hp Hn Hdots. destruct (valid_package_facts p Hp) as [Hcolon Hhead].
  change (s "//") with [47%N; 47%N]. cbn [app parse_parts].
  change (N.eqb 47 58) with false. change (N.eqb 47 64) with false. change (N.eqb 47 47) with true. cbn [andb].
  assert (Hhost : host_parts (47%N :: 47%N :: p ++ COLON :: name) (p ++ COLON :: name) = POk p name []).
  { unfold host_parts.
    assert (Hidx : index_byte 58%N (47%N :: 47%N :: p ++ COLON :: name) = Some (2 + length p)).
    { cbn [index_byte]. change (N.eqb 47 58) with false. cbv iota.
      unfold COLON. rewrite (index_byte_app 58%N p name Hcolon). reflexivity. }
    rewrite Hidx. replace (2 + length p - 2) with (length p) by lia.
    rewrite firstn_app_exact.
    replace (2 + length p + 1) with (S (S (length (p ++ [COLON])))) by (rewrite app_length; cbn [length]; lia).
    cbn [skipn]. replace (p ++ COLON :: name) with ((p ++ [COLON]) ++ name) by (rewrite <- app_assoc; reflexivity).
    rewrite skipn_app_exact. rewrite Hp, Hn. cbn [negb orb].
    destruct (str_eqb_spec name (lit "...")) as [E|E]; [exfalso; exact (Hdots E) | reflexivity]. }
  destruct Hhead as [-> | [c [r [-> Hc]]]].
  - cbn [app]. unfold COLON at 1. change (N.eqb 58 47) with false. cbv iota. exact Hhost.
  - cbn [app]. apply N.eqb_neq in Hc. unfold SLASH in Hc. rewrite Hc. exact Hhost.
Qed.

(* strings.Index(a ++ "//" ++ b, "//") = len(a) when a holds no "//" and does not end in '/' *)
Lemma index_sub_slashes a b :
  (forall u v, a <> u ++ s "//" ++ v) -> last a 0%N <> SLASH ->
  index_sub (lit "//") (a ++ 47%N :: 47%N :: b) = Some (length a).
Proof.
  change (lit "//") with [47%N; 47%N]. change (s "//") with [47%N; 47%N]. unfold SLASH.
  induction a as [|c a IH]; intros Hno Hlast.
  - cbn [app index_sub has_prefix]. change (N.eqb 47 47) with true. reflexivity.
  - cbn [app]. cbn [index_sub].
    assert (Hpre : has_prefix [47%N; 47%N] (c :: a ++ 47%N :: 47%N :: b) = false).
    { cbn [has_prefix]. destruct (N.eqb_spec 47%N c) as [<-|Hc]; [|reflexivity]. cbn [andb].
      destruct a as [|c' a'].
      - exfalso. apply Hlast. reflexivity.
      - cbn [app]. destruct (N.eqb_spec 47%N c') as [<-|Hc']; [|reflexivity].
        exfalso. apply (Hno [] a'). reflexivity. }
    rewrite Hpre. rewrite IH; [reflexivity | |].
    + intros u v E. apply (Hno (c :: u) v). rewrite E. reflexivity.
    + destruct a as [|c' a']; [cbn; discriminate|]. exact Hlast.
Qed.

(* parseBuildLabelSubrepo on sub//pkg:name *)
Lemma parse_subrepo_form fuel cur sub p name :
  ~ In COLON sub -> (forall a b, sub <> a ++ s "//" ++ b) -> last sub 0%N <> SLASH ->
  validate_package_name p = true -> validate_target_name name = true -> name <> s "..." ->
  parse_subrepo (fun t => parse_parts (S fuel) t cur) (sub ++ s "//" ++ p ++ COLON :: name) = POk p name sub.
Proof.
  intros Hc Hno Hlast Hp Hn Hdots. unfold parse_subrepo.
  change (s "//") with [47%N; 47%N]. cbn [app].
  rewrite (index_sub_slashes sub (p ++ COLON :: name) Hno Hlast).
  rewrite firstn_app_exact, skipn_app_exact.
  assert (Hex : existsb (N.eqb 58%N) sub = false).
  { destruct (existsb (N.eqb 58%N) sub) eqn:E; [|reflexivity]. exfalso.
    apply existsb_exists in E as [x [Hx Hx2]]. apply N.eqb_eq in Hx2. subst x. exact (Hc Hx). }
  rewrite Hex.
  pose proof (parse_parts_absolute fuel cur p name Hp Hn Hdots) as Habs.
  change (s "//") with [47%N; 47%N] in Habs. cbn [app] in Habs. rewrite Habs. reflexivity.
Qed.

Lemma parse_parts_slashes3 fuel cur rest3 :
  parse_parts (S fuel) (47%N :: 47%N :: 47%N :: rest3) cur = parse_subrepo (fun t => parse_parts fuel t cur) rest3.
Proof. reflexivity. Qed.

Lemma parse_parts_at fuel cur c1 rest :
  parse_parts (S fuel) (64%N :: c1 :: rest) cur = parse_subrepo (fun t => parse_parts fuel t cur) (c1 :: rest).
Proof. reflexivity. Qed.

Lemma expression_slashes r : is_expression (s "//" ++ r).
Proof. left. exists r. reflexivity. Qed.

(* every documented form is an expression and is read with its documented meaning, from any package *)
Lemma reads_parse cur x e : reads cur x e -> is_expression x /\ parse_exclude cur x = Some e.
Proof.
  intros H. destruct H as [name Hn | p name Hp Hn Hd | sub p name Hc Hno Hl Hp Hn Hd | sub p name Hc Hno Hl Hp Hn Hd].
  - split; [right; left; exists name; reflexivity|]. rewrite parse_exclude_relative, Hn. reflexivity.
  - split; [apply expression_slashes|].
    rewrite parse_exclude_absolute by reflexivity.
    unfold parse_exclude. change (has_prefix (lit ":") (s "//" ++ p ++ COLON :: name)) with false. cbv iota.
    change (negb (has_prefix (lit "//") (s "//" ++ p ++ COLON :: name))) with false. cbn [andb]. cbv iota.
    unfold try_parse. rewrite (parse_parts_absolute _ [] p name Hp Hn Hd), (valid_name_nonempty name Hn). reflexivity.
  - split; [left; exists (s "/" ++ sub ++ s "//" ++ p ++ COLON :: name); reflexivity|].
    unfold parse_exclude. change (has_prefix (lit ":") (s "///" ++ sub ++ s "//" ++ p ++ COLON :: name)) with false. cbv iota.
    change (negb (has_prefix (lit "//") (s "///" ++ sub ++ s "//" ++ p ++ COLON :: name))) with false. cbn [andb]. cbv iota.
    unfold try_parse.
    change (s "///" ++ sub ++ s "//" ++ p ++ COLON :: name) with (47%N :: 47%N :: 47%N :: (sub ++ s "//" ++ p ++ COLON :: name)).
    cbn [length]. rewrite parse_parts_slashes3.
    rewrite (parse_subrepo_form _ [] sub p name Hc Hno Hl Hp Hn Hd), (valid_name_nonempty name Hn). reflexivity.
  - split.
    + right. right. split; [exists (sub ++ s "//" ++ p ++ COLON :: name); reflexivity|].
      right. exists (s "@" ++ sub), (p ++ COLON :: name). rewrite <- !app_assoc. reflexivity.
    + unfold parse_exclude. change (has_prefix (lit ":") (s "@" ++ sub ++ s "//" ++ p ++ COLON :: name)) with false. cbv iota.
      change (has_prefix (lit "/") (s "@" ++ sub ++ s "//" ++ p ++ COLON :: name)) with false. rewrite andb_false_r. cbv iota.
      unfold try_parse.
      change (s "@" ++ sub ++ s "//" ++ p ++ COLON :: name) with (64%N :: (sub ++ s "//" ++ p ++ COLON :: name)).
      pose proof (fun f => parse_subrepo_form f [] sub p name Hc Hno Hl Hp Hn Hd) as Hs.
      destruct (sub ++ s "//" ++ p ++ COLON :: name) as [|c1 rest] eqn:E.
      { destruct sub; discriminate. }
      cbn [length]. rewrite parse_parts_at.
      rewrite Hs, (valid_name_nonempty name Hn). reflexivity.
Qed.

(* ---- a relative exclude expression removes exactly the targets it denotes in the current package ----------- *)
Lemma relative_exclude_state cur name st :
  set_include_and_exclude cur empty_state [] [COLON :: name] = Some st ->
  validate_target_name name = true
  /\ st = {| st_include := []; st_exclude := [];
             st_exclude_targets := [{| l_sub := []; l_pkg := cur; l_name := name |}] |}.
Proof.
  unfold set_include_and_exclude. cbn [set_exclude_loop empty_state st_exclude_targets].
  assert (Hl : looks_like_label (COLON :: name) = true)
    by (apply looks_like_spec; right; left; exists name; reflexivity).
  rewrite Hl, parse_exclude_relative. destruct (validate_target_name name); [|discriminate].
  cbn [app]. intros H. injection H as <-. split; reflexivity.
Qed.

Lemma relative_exclude_exact cur name st t :
  set_include_and_exclude cur empty_state [] [COLON :: name] = Some st ->
  t_sub t = [] ->
  (state_should_include st t = false <-> denotes {| l_sub := []; l_pkg := cur; l_name := name |} (t_label t)).
Proof.
  intros Hset Hsub. apply relative_exclude_state in Hset as [_ ->].
  unfold state_should_include. cbn [st_exclude_targets st_include st_exclude any_includes].
  rewrite <- includes_same_repo by (cbn [t_label l_sub]; exact Hsub).
  destruct (includes _ (t_label t)); [split; reflexivity|].
  split; [|discriminate]. unfold target_should_include. cbn. discriminate.
Qed.
