(* C16 - the pure fragment: both dialects of the evaluator compute what the reference evaluator computes. *)
From Coq Require Import Lia Wf_nat.
From PlzV Require Import Base.Harness Base.StrFacts Gen.AspTables Model.C16_Syntax Model.C16_Ops Model.C16_Prim Model.C16_Eval Model.C16 Model.C16_Pure.
From PlzV Require Import Proof.C16_Ops Proof.C16_Int.
Local Open Scope Z_scope.

(* ================================================================ unfolding lemmas (one step of fuel) *)
Section Unfold.
  Variable d : dialect.
  Variable defs : list (str * prog).
  Notation EE := (eval_expr d defs).
  Notation EV := (eval_vexpr d defs).

  Definition main_of (f : nat) (v : vexpr) (ops : list opitem) (st0 : state) : res (value * state) :=
    rbind (EV f v st0) (fun '(obj, st1) =>
      match ops with [] => Ok (obj, st1) | _ => chain d (EV f) f obj ops st1 end).

  Lemma eval_expr_S_none : forall f v ops st, EE (S f) (Ex v ops None) st = main_of f v ops st.
  Proof. reflexivity. Qed.
  Lemma eval_expr_S_some : forall f v ops c e2 st,
    EE (S f) (Ex v ops (Some (c, e2))) st =
    rbind (EE f c st) (fun '(cv, st1) => if truthy d st1 cv then main_of f v ops st1 else EE f e2 st1).
  Proof. reflexivity. Qed.

  Lemma eval_vexpr_S_int : forall f z st, EV (S f) (XInt z) st = Ok (VInt z, st). Proof. reflexivity. Qed.
  Lemma eval_vexpr_S_str : forall f z st, EV (S f) (XStr z) st = Ok (VStr z, st). Proof. reflexivity. Qed.
  Lemma eval_vexpr_S_true : forall f st, EV (S f) XTrue st = Ok (VBool true, st). Proof. reflexivity. Qed.
  Lemma eval_vexpr_S_false : forall f st, EV (S f) XFalse st = Ok (VBool false, st). Proof. reflexivity. Qed.
  Lemma eval_vexpr_S_none : forall f st, EV (S f) XNone st = Ok (VNone, st). Proof. reflexivity. Qed.
  Lemma eval_vexpr_S_ident : forall f n st,
    EV (S f) (XIdent n) st = match lookup n st with Some v => Ok (v, st) | None => Err EType end.
  Proof. reflexivity. Qed.
  Lemma eval_vexpr_S_paren : forall f e st, EV (S f) (XParen e) st = EE f e st. Proof. reflexivity. Qed.
  Lemma eval_vexpr_S_list : forall f es st,
    EV (S f) (XList es) st = rbind (mapM (EE f) es st) (fun '(vs, st1) => Ok (new_list vs st1)).
  Proof. reflexivity. Qed.
  Lemma eval_vexpr_S_call : forall f n args st,
    EV (S f) (XCall n args) st = match lookup n st with None => Err EType | Some fn => call_value d defs f fn n args st end.
  Proof. reflexivity. Qed.

  Definition comp_loop (f : nat) (n : str) (e : expr) : list value -> list value -> state -> res (list value * state) :=
    fix go (l : list value) (acc : list value) (st0 : state) : res (list value * state) :=
    match l with
    | [] => Ok (rev acc, st0)
    | li :: r => rbind (EE f e (set_var n li st0)) (fun '(v, sy) => go r (v :: acc) sy)
    end.

  Definition comp_hint (itv : value) (items : list value) : Z :=
    match itv with
    | VRange a b c => range_len a b c
    | _ => Z.of_nat (length items)
    end.

  Lemma eval_vexpr_S_comp : forall f e n it st,
    EV (S f) (XComp e [n] it None) st =
    rbind (EE f it st) (fun '(itv, st1) =>
    rbind (iter_items d st1 itv) (fun items =>
      let hint := comp_hint itv items in
      if hint <? 0 then Err EType else
      rbind (comp_loop f n e items [] (set_locals ([] :: locals st1) st1)) (fun '(out, st3) =>
        let st4 := set_locals (tl (locals st3)) st3 in
        if Nat.ltb (Z.to_nat hint) (length out) then Err EUnsupported
        else let '(r, st5) := alloc_list out (match d with Asp => Z.to_nat hint | Py => 0%nat end) st4 in
             Ok (VList r, st5)))).
  Proof. reflexivity. Qed.

  (* ---- statements ---- *)
  Notation XB := (exec_block d defs).
  Notation XS := (exec_stmt d defs).
  Lemma exec_block_S_nil : forall f st, XB (S f) [] st = Ok (RNone, st). Proof. reflexivity. Qed.
  Lemma exec_block_S_cons : forall f s0 r st,
    XB (S f) (s0 :: r) st = rbind (XS f s0 st) (fun '(res0, st1) => match res0 with RNone => XB f r st1 | _ => Ok (res0, st1) end).
  Proof. reflexivity. Qed.
  Lemma exec_stmt_S_pass : forall f st, XS (S f) SPass st = Ok (RNone, st). Proof. reflexivity. Qed.
  Lemma exec_stmt_S_break : forall f st, XS (S f) SBreak st = Ok (RBreak, st). Proof. reflexivity. Qed.
  Lemma exec_stmt_S_continue : forall f st, XS (S f) SContinue st = Ok (RContinue, st). Proof. reflexivity. Qed.
  Lemma exec_stmt_S_assign : forall f n e st,
    XS (S f) (SAssign n e) st = rbind (EE f e st) (fun '(v, st1) => Ok (RNone, set_var n v st1)).
  Proof. reflexivity. Qed.
  Lemma exec_stmt_S_aug : forall f n e st,
    XS (S f) (SAug n e) st =
    match lookup n st with
    | None => Err EType
    | Some old =>
        rbind (EE f e st) (fun '(v, st1) =>
          match d, old with
          | Py, VList sl =>
              match v with
              | VList s2 | VFrozenList s2 =>
                  let st2 := set_arrays (list_set (s_arr sl) (arr_of st1 (s_arr sl) ++ list_items d st1 s2) (arrays st1)) st1 in
                  Ok (RNone, set_var n old st2)
              | _ => Err EUnsupported
              end
          | _, _ => rbind (apply_bin d f Add old v st1) (fun '(r, st2) => Ok (RNone, set_var n r st2))
          end)
    end.
  Proof. reflexivity. Qed.
  Lemma exec_stmt_S_assert : forall f e st,
    XS (S f) (SAssert e) st = rbind (EE f e st) (fun '(v, st1) => if truthy d st1 v then Ok (RNone, st1) else Err EType).
  Proof. reflexivity. Qed.
  Lemma exec_stmt_S_ret0 : forall f st, XS (S f) (SReturn None) st = Ok (RRet VNone, st). Proof. reflexivity. Qed.
  Lemma exec_stmt_S_ret : forall f e st,
    XS (S f) (SReturn (Some e)) st = rbind (EE f e st) (fun '(v, st1) => Ok (RRet v, st1)).
  Proof. reflexivity. Qed.

  Definition elif_loop (f : nat) (els : list stmt) : list (expr * list stmt) -> state -> res (sres * state) :=
    fix go (l : list (expr * list stmt)) (st0 : state) : res (sres * state) :=
    match l with
    | [] => XB f els st0
    | (c1, b1) :: r => rbind (EE f c1 st0) (fun '(v1, st') => if truthy d st' v1 then XB f b1 st' else go r st')
    end.
  Lemma exec_stmt_S_if : forall f c body elifs els st,
    XS (S f) (SIf c body elifs els) st =
    rbind (EE f c st) (fun '(cv, st1) => if truthy d st1 cv then XB f body st1 else elif_loop f els elifs st1).
  Proof. reflexivity. Qed.

  Definition for_loop (f : nat) (n : str) (body : list stmt) : list value -> state -> res (sres * state) :=
    fix go (l : list value) (st0 : state) : res (sres * state) :=
    match l with
    | [] => Ok (RNone, st0)
    | li :: r => rbind (XB f body (set_var n li st0)) (fun '(r0, st'') =>
                   match r0 with
                   | RBreak => Ok (RNone, st'')
                   | RRet v => Ok (RRet v, st'')
                   | _ => go r st''
                   end)
    end.
  Lemma exec_stmt_S_for : forall f n it body st,
    XS (S f) (SFor [n] it body) st =
    rbind (EE f it st) (fun '(itv, st1) => rbind (iter_items d st1 itv) (fun items => for_loop f n body items st1)).
  Proof. reflexivity. Qed.
End Unfold.

(* ================================================================ the simulation relation *)
Section PvalInd.
  Variable P : pval -> Prop.
  Hypothesis HInt : forall z, P (PInt z).
  Hypothesis HStr : forall x, P (PStr x).
  Hypothesis HBool : forall b, P (PBool b).
  Hypothesis HNone : P PNone.
  Hypothesis HFunc : forall i, P (PFunc i).
  Hypothesis HList : forall l, Forall P l -> P (PList l).
  Fixpoint pval_ind' (p : pval) : P p :=
    match p with
    | PInt z => HInt z | PStr x => HStr x | PBool b => HBool b | PNone => HNone | PFunc i => HFunc i
    | PList l => HList l ((fix go (l : list pval) : Forall P l :=
                             match l with [] => Forall_nil _ | x :: r => Forall_cons _ (pval_ind' x) (go r) end) l)
    end.
End PvalInd.

(* a heap value represents a tree value: scalars as themselves, a list as a slice that covers exactly one whole
   backing array (offset 0, length = capacity = number of cells) whose cells represent the elements *)
Fixpoint vrel (A : list (list value)) (p : pval) (v : value) {struct p} : Prop :=
  match p with
  | PInt z => v = VInt z
  | PStr x => v = VStr x
  | PBool b => v = VBool b
  | PNone => v = VNone
  | PFunc i => v = VFunc i
  | PList ps =>
      exists a cells, v = VList (Slice a 0 (length ps) (length ps)) /\ nth_error A a = Some cells /\
        (fix all2 (ps : list pval) (cs : list value) {struct ps} : Prop :=
           match ps, cs with
           | [], [] => True
           | q :: qs, c :: cs' => vrel A q c /\ all2 qs cs'
           | _, _ => False
           end) ps cells
  end.

Definition vrels (A : list (list value)) (ps : list pval) (vs : list value) : Prop := Forall2 (vrel A) ps vs.

Lemma all2_forall2 : forall A ps cs,
  (fix all2 (ps : list pval) (cs : list value) {struct ps} : Prop :=
     match ps, cs with
     | [], [] => True
     | q :: qs, c :: cs' => vrel A q c /\ all2 qs cs'
     | _, _ => False
     end) ps cs <-> vrels A ps cs.
Proof.
  intros A ps. unfold vrels. induction ps as [|q qs IH]; intros cs; destruct cs as [|c cs]; split; intros H;
    try (now inversion H); try (now constructor).
  - destruct H as [H1 H2]. constructor; [exact H1|now apply IH].
  - inversion H; subst. split; [assumption|now apply IH].
Qed.

Lemma vrel_list : forall A ps v,
  vrel A (PList ps) v <->
  exists a cells, v = VList (Slice a 0 (length ps) (length ps)) /\ nth_error A a = Some cells /\ vrels A ps cells.
Proof.
  intros A ps v. cbn [vrel]. split; intros (a & cells & H1 & H2 & H3); exists a, cells; repeat split; try assumption;
    now apply all2_forall2.
Qed.

Lemma vrel_mono : forall A B p v, vrel A p v -> vrel (A ++ B) p v.
Proof.
  intros A B p. induction p as [z|x|b| |i|l IH] using pval_ind'; intros v H; try exact H.
  apply vrel_list in H. apply vrel_list. destruct H as (a & cells & H1 & H2 & H3).
  exists a, cells. repeat split; [exact H1| |].
  - rewrite nth_error_app1; [exact H2|]. apply nth_error_Some. now rewrite H2.
  - clear H1 H2. unfold vrels in *. induction H3 as [|q c qs cs Hq Hqs IHq]; constructor.
    + inversion IH; subst. now apply H1.
    + inversion IH; subst. now apply IHq.
Qed.

Lemma vrels_mono : forall A B ps vs, vrels A ps vs -> vrels (A ++ B) ps vs.
Proof. intros A B ps vs H. unfold vrels in *. induction H; constructor; [now apply vrel_mono|assumption]. Qed.

Lemma vrels_length : forall A ps vs, vrels A ps vs -> length vs = length ps.
Proof. intros A ps vs H. induction H; cbn; congruence. Qed.

Definition env_rel (A : list (list value)) (e : env) (pe : penv) : Prop :=
  Forall2 (fun kv pkv => fst kv = fst pkv /\ vrel A (snd pkv) (snd kv)) e pe.

Lemma env_rel_mono : forall A B e pe, env_rel A e pe -> env_rel (A ++ B) e pe.
Proof. intros A B e pe H. induction H as [|kv pkv e pe [H1 H2] _ IH]; constructor; [split; [exact H1|now apply vrel_mono]|exact IH]. Qed.

Lemma env_get_rel : forall A n e pe, env_rel A e pe ->
  match penv_get n pe with
  | Some p => exists v, env_get n e = Some v /\ vrel A p v
  | None => env_get n e = None
  end.
Proof.
  intros A n e pe H. induction H as [|[k v] [pk p] e pe [H1 H2] _ IH]; [reflexivity|].
  cbn [fst snd] in *. subst pk. cbn [penv_get env_get]. destruct (str_eqb n k); [exists v; split; [reflexivity|exact H2]|exact IH].
Qed.

Lemma env_set_rel : forall A n v p e pe, env_rel A e pe -> vrel A p v -> env_rel A (env_set n v e) (penv_set n p pe).
Proof.
  intros A n v p e pe H Hv. induction H as [|[k w] [pk q] e pe [H1 H2] Hr IH].
  - constructor; [split; [reflexivity|exact Hv]|constructor].
  - cbn [fst snd] in *. subst pk. cbn [penv_set env_set]. destruct (str_eqb n k).
    + constructor; [split; [reflexivity|exact Hv]|exact Hr].
    + constructor; [split; [reflexivity|exact H2]|exact IH].
Qed.

Lemma envs_get_rel : forall A n l pl0, Forall2 (env_rel A) l pl0 ->
  match penvs_get n pl0 with
  | Some p => exists v, envs_get n l = Some v /\ vrel A p v
  | None => envs_get n l = None
  end.
Proof.
  intros A n l pl0 H. induction H as [|e pe l pl0 He _ IH]; [reflexivity|].
  cbn [penvs_get envs_get]. pose proof (env_get_rel A n e pe He) as Hg.
  destruct (penv_get n pe) as [p|].
  - destruct Hg as (v & Hv1 & Hv2). rewrite Hv1. exists v. split; [reflexivity|exact Hv2].
  - rewrite Hg. exact IH.
Qed.

Definition def_rel (a : fdefault) (pa : pdefault) : Prop :=
  match a, pa with
  | DNo, PDNo => True
  | DConst v, PDConst p => forall A, vrel A p v
  | _, _ => False
  end.

Definition func_rel (fd : func) (pfd : pfunc) : Prop :=
  f_name fd = pf_name pfd /\ f_body fd = pf_body pfd /\ f_scope fd = 0%nat /\
  Forall2 (fun a pa => fst a = fst pa /\ def_rel (snd a) (snd pa)) (f_args fd) (pf_args pfd).

Record srel (st : state) (ps : pstate) : Prop := {
  sr_cur : cur st = 0%nat;
  sr_glob : exists genv, fscopes st = [genv] /\ env_rel (arrays st) genv (pg ps);
  sr_loc : Forall2 (env_rel (arrays st)) (locals st) (pl ps);
  sr_fn : Forall2 func_rel (funcs st) (pfs ps)
}.

(* the state with more arrays allocated, everything else untouched *)
Definition ext (st : state) (more : list (list value)) : state := set_arrays (arrays st ++ more) st.
Notation "st +a more" := (ext st more) (at level 50, left associativity).

Lemma ext_nil : forall st, st +a [] = st.
Proof. intros []. unfold ext, set_arrays. cbn. now rewrite app_nil_r. Qed.
Lemma ext_ext : forall st m1 m2, (st +a m1) +a m2 = st +a (m1 ++ m2).
Proof. intros [] m1 m2. unfold ext, set_arrays. cbn. now rewrite app_assoc. Qed.
Lemma arrays_ext : forall st m, arrays (st +a m) = arrays st ++ m.
Proof. reflexivity. Qed.

Lemma srel_ext : forall st ps more, srel st ps -> srel (st +a more) ps.
Proof.
  intros st ps more [H1 (g & H2 & H3) H4 H5]. constructor.
  - exact H1.
  - exists g. split; [exact H2|]. now apply env_rel_mono.
  - cbn. clear - H4. induction H4; constructor; [now apply env_rel_mono|assumption].
  - exact H5.
Qed.

Lemma lookup_rel : forall st ps n, srel st ps ->
  match plookup n ps with
  | Some p => exists v, lookup n st = Some v /\ vrel (arrays st) p v
  | None => envs_get n (locals st) = None /\ env_get n (nth (cur st) (fscopes st) []) = None
  end.
Proof.
  intros st ps n [H1 (g & H2 & H3) H4 H5]. unfold plookup, lookup.
  pose proof (envs_get_rel _ n _ _ H4) as Hl. rewrite H1, H2. cbn [nth].
  destruct (penvs_get n (pl ps)) as [p|].
  - destruct Hl as (v & Hv1 & Hv2). rewrite Hv1. exists v. now split.
  - rewrite Hl. pose proof (env_get_rel _ n _ _ H3) as Hg. destruct (penv_get n (pg ps)) as [p|].
    + destruct Hg as (v & Hv1 & Hv2). rewrite Hv1. exists v. now split.
    + now split.
Qed.

Lemma set_var_rel : forall st ps n v p, srel st ps -> vrel (arrays st) p v -> srel (set_var n v st) (pset_var n p ps).
Proof.
  intros st ps n v p [H1 (g & H2 & H3) H4 H5] Hv. unfold set_var, pset_var.
  destruct (locals st) as [|e l] eqn:El; destruct (pl ps) as [|pe pl0] eqn:Ep; inversion H4; subst.
  - constructor; cbn.
    + exact H1.
    + rewrite H1, H2. cbn. eexists. split; [reflexivity|]. now apply env_set_rel.
    + rewrite El. constructor.
    + exact H5.
  - constructor; cbn.
    + exact H1.
    + exists g. now split.
    + constructor; [now apply env_set_rel|assumption].
    + exact H5.
Qed.

Lemma arrays_set_var : forall n v st, arrays (set_var n v st) = arrays st.
Proof. intros n v st. unfold set_var. destruct (locals st); reflexivity. Qed.

(* ---- lists on the heap ---- *)
Lemma nth_error_nth_arr : forall st a cells, nth_error (arrays st) a = Some cells -> arr_of st a = cells.
Proof. intros st a cells H. unfold arr_of. now apply nth_error_nth. Qed.

Lemma list_items_rel : forall d st a n cells,
  nth_error (arrays st) a = Some cells -> length cells = n -> list_items d st (Slice a 0 n n) = cells.
Proof.
  intros d st a n cells H Hn. unfold list_items. cbn [s_arr s_off s_len]. rewrite (nth_error_nth_arr _ _ _ H).
  destruct d; [|reflexivity]. cbn [skipn]. apply firstn_all2. lia.
Qed.

Lemma list_len_rel : forall d st a n cells,
  nth_error (arrays st) a = Some cells -> length cells = n -> list_len d st (Slice a 0 n n) = n.
Proof.
  intros d st a n cells H Hn. unfold list_len. destruct d; [reflexivity|]. cbn [s_arr]. now rewrite (nth_error_nth_arr _ _ _ H).
Qed.

Lemma alloc_exact : forall items st,
  alloc_list items (length items) st = (Slice (length (arrays st)) 0 (length items) (length items), st +a [items]).
Proof.
  intros items st. unfold alloc_list, ext. rewrite Nat.max_id, Nat.sub_diag. cbn [repeat]. now rewrite app_nil_r.
Qed.
Lemma alloc_zero : forall items st,
  alloc_list items 0 st = (Slice (length (arrays st)) 0 (length items) (length items), st +a [items]).
Proof.
  intros items st. unfold alloc_list, ext. cbn [Nat.max Nat.sub repeat]. now rewrite app_nil_r.
Qed.

Lemma new_vrel : forall A ps items,
  vrels A ps items -> vrel (A ++ [items]) (PList ps) (VList (Slice (length A) 0 (length items) (length items))).
Proof.
  intros A ps items H. apply vrel_list. exists (length A), items. rewrite (vrels_length _ _ _ H). repeat split.
  - rewrite nth_error_app2 by lia. now rewrite Nat.sub_diag.
  - now apply vrels_mono.
Qed.

Lemma truthy_rel : forall d st p v, vrel (arrays st) p v -> truthy d st v = ptruthy p.
Proof.
  intros d st p v H. destruct p; cbn [vrel] in H; try (subst v; reflexivity).
  apply vrel_list in H. destruct H as (a & cells & -> & H2 & H3). cbn [truthy ptruthy].
  rewrite (list_len_rel d st a _ cells H2 (vrels_length _ _ _ H3)). now destruct l.
Qed.

(* ================================================================ operators *)
Lemma ok_here : forall (r : res (value * state)) v st p,
  r = Ok (v, st) -> vrel (arrays st) p v -> exists v' more, r = Ok (v', st +a more) /\ vrel (arrays st ++ more) p v'.
Proof. intros r v st p H Hv. exists v, []. now rewrite ext_nil, app_nil_r. Qed.

Lemma rbind_ok_step : forall A B (m : res A) (k : A -> res B) a, m = Ok a -> rbind m k = k a.
Proof. intros A B m k a H. now rewrite H. Qed.
Lemma opt_step : forall A B (o : option A) (a : A) (kn : B) (ks : A -> B),
  o = Some a -> match o with Some x => ks x | None => kn end = ks a.
Proof. intros A B o a kn ks H. now rewrite H. Qed.

Section Sim.
  Variable d : dialect.
  Variable chk : binop -> Z -> Z -> ires.
  Variable cneg : Z -> option Z.
  (* the integer operators of the reference run are those of the dialect wherever they yield a value *)
  Hypothesis chk_ok : forall o a b, match chk o a b with IOk _ | IBool _ => int_op d o a b = chk o a b | _ => True end.
  Hypothesis cneg_ok : forall z z', cneg z = Some z' -> (match d with Asp => wrap64 (- z) | Py => - z end) = z'.

  Lemma veq_rel : forall f st pa pb va vb e,
    peq pa pb = Some e -> vrel (arrays st) pa va -> vrel (arrays st) pb vb -> veq d (S f) st va vb = Ok e.
  Proof.
    intros f st pa pb va vb e E Ha Hb.
    destruct pa, pb; cbn in E; try discriminate; injection E as <-; cbn [vrel] in Ha, Hb; subst va vb;
      destruct d; try reflexivity.
    cbn. now destruct b, b0.
  Qed.

  Lemma apply_bin_int_int : forall f o x y st, is_int_arith o = true ->
    apply_bin d (S f) o (VInt x) (VInt y) st =
      match int_op d o x y with
      | IOk z => Ok (VInt z, st) | IBool r => Ok (VBool r, st)
      | IErr => Err EType | IUnsup => Err EUnsupported | IFloat => Err EFloat
      end.
  Proof. intros f o x y st H. destruct o; try discriminate; reflexivity. Qed.

  Lemma apply_bin_sim : forall fuel o pa pb p st va vb,
    vrel (arrays st) pa va -> vrel (arrays st) pb vb -> papply_bin chk fuel o pa pb = Ok p ->
    exists v more, apply_bin d fuel o va vb st = Ok (v, st +a more) /\ vrel (arrays st ++ more) p v.
  Proof.
    intros fuel o pa pb p st va vb Ha Hb H. destruct fuel as [|f]; [discriminate|].
    assert (Heq : forall e, peq pa pb = Some e ->
              apply_bin d (S f) C16_Syntax.Eq va vb st = Ok (VBool e, st) /\ apply_bin d (S f) Ne va vb st = Ok (VBool (negb e), st)).
    { intros e E. pose proof (veq_rel f st pa pb va vb e E Ha Hb) as Hq. split.
      - change (apply_bin d (S f) C16_Syntax.Eq va vb st) with (do x <- veq d (S f) st va vb; Ok (VBool (xorb false x), st)).
        rewrite Hq. cbn [rbind]. now rewrite Bool.xorb_false_l.
      - change (apply_bin d (S f) Ne va vb st) with (do x <- veq d (S f) st va vb; Ok (VBool (xorb true x), st)).
        rewrite Hq. cbn [rbind]. now rewrite Bool.xorb_true_l. }
    destruct o.
    (* Add Sub Mul Div FloorDiv Mod Lt Gt Le Ge: ints through the checked operator, strings, list + *)
    1-10: cbn [papply_bin] in H; destruct pa, pb; try discriminate; cbn [vrel] in Ha, Hb;
      try (subst va vb;
           match type of H with
           | (if is_int_arith ?o then _ else _) = _ =>
               cbn [is_int_arith] in H; rewrite (apply_bin_int_int f o z z0 st eq_refl);
               pose proof (chk_ok o z z0) as C; destruct (chk o z z0) eqn:E; cbn [of_ires] in H; try discriminate;
               injection H as <-; rewrite C; eapply ok_here; reflexivity
           | Ok _ = _ => injection H as <-; eapply ok_here; reflexivity
           end).
    (* the only case left: list + list *)
    - injection H as <-.
      apply vrel_list in Ha, Hb. destruct Ha as (a1 & c1 & -> & Hn1 & Hc1). destruct Hb as (a2 & c2 & -> & Hn2 & Hc2).
      pose proof (vrels_length _ _ _ Hc1) as L1. pose proof (vrels_length _ _ _ Hc2) as L2.
      assert (Hall : vrels (arrays st) (l ++ l0) (c1 ++ c2)) by (now apply Forall2_app).
      change (apply_bin d (S f) Add (VList (Slice a1 0 (length l) (length l))) (VList (Slice a2 0 (length l0) (length l0))) st)
        with (let '(r, st1) := list_add d (Slice a1 0 (length l) (length l)) (list_items d st (Slice a2 0 (length l0) (length l0))) st in
              Ok (VList r, st1)).
      rewrite (list_items_rel d st a2 _ c2 Hn2 L2).
      assert (Hadd : list_add d (Slice a1 0 (length l) (length l)) c2 st =
                     (Slice (length (arrays st)) 0 (length (c1 ++ c2)) (length (c1 ++ c2)), st +a [c1 ++ c2])).
      { unfold list_add. destruct d.
        - cbn [s_len]. rewrite (list_items_rel Asp st a1 _ c1 Hn1 L1).
          replace (length l + length c2)%nat with (length (c1 ++ c2)) by (rewrite app_length; lia).
          apply alloc_exact.
        - rewrite (list_items_rel Py st a1 _ c1 Hn1 L1). apply alloc_zero. }
      rewrite Hadd. eexists. exists [c1 ++ c2]. split; [reflexivity|]. now apply new_vrel.
    - (* Eq *) cbn [papply_bin] in H. destruct (peq pa pb) as [e|] eqn:E; [|discriminate]. injection H as <-.
      eapply ok_here; [exact (proj1 (Heq e eq_refl))|reflexivity].
    - (* Ne *) cbn [papply_bin] in H. destruct (peq pa pb) as [e|] eqn:E; [|discriminate]. injection H as <-.
      eapply ok_here; [exact (proj2 (Heq e eq_refl))|reflexivity].
    - (* In *) cbn [papply_bin] in H. destruct pa, pb; try discriminate. injection H as <-. cbn [vrel] in Ha, Hb. subst va vb.
      eapply ok_here; reflexivity.
    - (* NotIn *) cbn [papply_bin] in H. destruct pa, pb; try discriminate. injection H as <-. cbn [vrel] in Ha, Hb. subst va vb.
      eapply ok_here; reflexivity.
    - cbn [papply_bin] in H. destruct pa, pb; discriminate.
    - cbn [papply_bin] in H. destruct pa, pb; discriminate.
    - cbn [papply_bin] in H. destruct pa, pb; discriminate.
    - cbn [papply_bin] in H. destruct pa, pb; discriminate.
    - cbn [papply_bin] in H. destruct pa, pb; discriminate.
  Qed.

  Lemma apply_un_sim : forall u p q st v,
    vrel (arrays st) p v -> papply_un cneg u p = Ok q -> exists v', apply_un d u st v = Ok v' /\ vrel (arrays st) q v'.
  Proof.
    intros u p q st v Hv H. destruct u; cbn [papply_un] in H.
    - destruct p; try discriminate. destruct (cneg z) as [z'|] eqn:E; [|discriminate]. injection H as <-.
      cbn [vrel] in Hv. subst v. cbn [apply_un]. rewrite (cneg_ok z z' E). eexists. split; reflexivity.
    - injection H as <-. cbn [apply_un]. rewrite (truthy_rel d st p v Hv). eexists. split; reflexivity.
  Qed.

  (* ---- grouped chains ---- *)
  Fixpoint tree_rel (A : list (list value)) (t : tree vexpr value) (tp : tree vexpr pval) : Prop :=
    match t, tp with
    | TLeaf x, TLeaf y => x = y
    | TVal v, TVal p => vrel A p v
    | TUn u a, TUn u' b => u = u' /\ tree_rel A a b
    | TBin o l r, TBin o' l' r' => o = o' /\ tree_rel A l l' /\ tree_rel A r r'
    | _, _ => False
    end.

  Lemma tree_rel_mono : forall A B t tp, tree_rel A t tp -> tree_rel (A ++ B) t tp.
  Proof.
    intros A B t. induction t as [x|v|u a IH|o l IHl r IHr]; intros [y|p|u' b|o' l' r'] H; cbn [tree_rel] in *; try contradiction.
    - exact H.
    - now apply vrel_mono.
    - destruct H as [H1 H2]. split; [exact H1|now apply IH].
    - destruct H as (H1 & H2 & H3). repeat split; [exact H1|now apply IHl|now apply IHr].
  Qed.

  Lemma node_rel : forall A (i : item vexpr) acc accp, tree_rel A acc accp -> tree_rel A (node i acc) (node i accp).
  Proof. intros A [o x|u] acc accp H; cbn [node tree_rel]; repeat split; assumption. Qed.

  Lemma asp_tree_rel : forall A (ops : list (item vexpr)) acc accp,
    tree_rel A acc accp -> tree_rel A (asp_tree acc ops) (asp_tree accp ops).
  Proof.
    intros A ops. induction ops as [|i0 rest IH]; intros acc accp H; [exact H|].
    destruct rest as [|i1 rest'].
    - cbn [asp_tree]. now apply node_rel.
    - rewrite !asp_tree_cons2. destruct (aprec (ikey i0) >=? aprec (ikey i1)).
      + apply IH. now apply node_rel.
      + destruct i0 as [o x|u]; cbn [tree_rel]; repeat split; try assumption; apply IH; try assumption; reflexivity.
  Qed.

  Section Tree.
    Variable f : nat.
    Variable ps : pstate.
    Hypothesis HV : forall x st p, srel st ps -> peval_vexpr chk cneg f x ps = Ok p ->
      exists v more, eval_vexpr d [] f x st = Ok (v, st +a more) /\ vrel (arrays st ++ more) p v.

    Notation TEV := (teval (eval_vexpr d [] f) (apply_bin d f) (fun u v st0 => apply_un d u st0 v) (fun v st0 => truthy d st0 v)).
    Notation PTEV := (pteval chk cneg (fun x => peval_vexpr chk cneg f x ps) f).

    Lemma teval_sim : forall t tp st p, srel st ps -> tree_rel (arrays st) t tp -> PTEV tp = Ok p ->
      exists v more, TEV t st = Ok (v, st +a more) /\ vrel (arrays st ++ more) p v.
    Proof.
      induction t as [x|v|u a IH|o l IHl r IHr]; intros [y|q|u' b|o' l' r'] st p Hs Hr H; cbn [tree_rel] in Hr; try contradiction.
      - subst y. cbn [pteval teval] in *. now apply HV.
      - cbn [pteval teval] in *. injection H as <-. eapply ok_here; [reflexivity|exact Hr].
      - destruct Hr as [<- Hr]. cbn [pteval teval] in *.
        destruct (PTEV b) as [pv| |] eqn:Eb; try discriminate. cbn [rbind] in H.
        destruct (IH b st pv Hs Hr Eb) as (v & m & Hev & Hv). rewrite Hev. cbn [rbind]. unfold lift_un.
        rewrite <- arrays_ext in Hv. destruct (apply_un_sim u pv p (st +a m) v Hv H) as (v' & Hu & Hv').
        rewrite Hu. cbn [rbind]. exists v', m. split; [reflexivity|exact Hv'].
      - destruct Hr as (<- & Hl & Hr). cbn [pteval teval] in *.
        destruct (PTEV l') as [pa| |] eqn:El; try discriminate. cbn [rbind] in H.
        destruct (IHl l' st pa Hs Hl El) as (va & m1 & Hev1 & Hva). rewrite Hev1. cbn [rbind].
        rewrite <- arrays_ext in Hva.
        assert (Hs1 : srel (st +a m1) ps) by now apply srel_ext.
        assert (Hr1 : tree_rel (arrays (st +a m1)) r r') by (rewrite arrays_ext; now apply tree_rel_mono).
        assert (Hstrict : forall (K : res (value * state)),
                  (do b <- PTEV r'; papply_bin chk f o pa b) = Ok p ->
                  K = (do '(b, st2) <- TEV r (st +a m1); apply_bin d f o va b st2) ->
                  exists v more, K = Ok (v, st +a more) /\ vrel (arrays st ++ more) p v).
        { intros K H0 ->. destruct (PTEV r') as [pb| |] eqn:Er; try discriminate. cbn [rbind] in H0.
          destruct (IHr r' (st +a m1) pb Hs1 Hr1 Er) as (vb & m2 & Hev2 & Hvb). rewrite Hev2. cbn [rbind].
          rewrite <- arrays_ext in Hvb.
          assert (Hva2 : vrel (arrays (st +a m1 +a m2)) pa va) by (rewrite arrays_ext; now apply vrel_mono).
          destruct (apply_bin_sim f o pa pb p (st +a m1 +a m2) va vb Hva2 Hvb H0) as (v & m3 & Hab & Hv).
          rewrite Hab. exists v, (m1 ++ m2 ++ m3). rewrite !ext_ext. split; [reflexivity|].
          rewrite !arrays_ext, <- !app_assoc in Hv. exact Hv. }
        assert (Hlazy : forall (isand : bool) (K : res (value * state)),
                  (if Bool.eqb (ptruthy pa) isand then PTEV r' else Ok pa) = Ok p ->
                  K = (if Bool.eqb (truthy d (st +a m1) va) isand
                       then do '(b, st2) <- TEV r (st +a m1);
                            recheck (fun v st0 => truthy d st0 v) va (st +a m1) st2 (Ok (b, st2))
                       else Ok (va, st +a m1)) ->
                  exists v more, K = Ok (v, st +a more) /\ vrel (arrays st ++ more) p v).
        { intros isand K H0 ->. rewrite (truthy_rel d (st +a m1) pa va Hva).
          destruct (Bool.eqb (ptruthy pa) isand).
          - destruct (IHr r' (st +a m1) p Hs1 Hr1 H0) as (vb & m2 & Hev2 & Hvb). rewrite Hev2. cbn [rbind].
            unfold recheck. rewrite (truthy_rel d (st +a m1) pa va Hva).
            assert (Hva2 : vrel (arrays (st +a m1 +a m2)) pa va) by (rewrite arrays_ext; now apply vrel_mono).
            rewrite (truthy_rel d _ pa va Hva2), eqb_reflx.
            exists vb, (m1 ++ m2). rewrite ext_ext. split; [reflexivity|]. rewrite arrays_ext, <- app_assoc in Hvb. exact Hvb.
          - injection H0 as <-. exists va, m1. split; [reflexivity|]. now rewrite <- arrays_ext. }
        destruct o; first [ now apply (Hlazy true _ H) | now apply (Hlazy false _ H) | now apply (Hstrict _ H) ].
    Qed.
  End Tree.

  Lemma chain_as_tree : forall evx f obj ops st, ops_safe (items_of ops) = true ->
    chain d evx f obj ops st =
    teval evx (apply_bin d f) (fun u v st0 => apply_un d u st0 v) (fun v st0 => truthy d st0 v) (asp_tree (TVal obj) (items_of ops)) st.
  Proof.
    intros evx f obj ops st H. unfold chain. destruct d.
    - apply flat_is_tree.
    - unfold py_ops. now rewrite groupings_agree.
  Qed.

  (* ================================================================ expressions *)
  Notation PE := (peval_expr chk cneg).
  Notation PV := (peval_vexpr chk cneg).

  Definition Esim (f : nat) : Prop := forall e st ps p, srel st ps -> PE f e ps = Ok p ->
    exists v more, eval_expr d [] f e st = Ok (v, st +a more) /\ vrel (arrays st ++ more) p v.
  Definition Vsim (f : nat) : Prop := forall x st ps p, srel st ps -> PV f x ps = Ok p ->
    exists v more, eval_vexpr d [] f x st = Ok (v, st +a more) /\ vrel (arrays st ++ more) p v.

  Definition pmain (f : nat) (v : vexpr) (ops : list opitem) (ps : pstate) : res pval :=
    do obj <- PV f v ps;
    match ops with
    | [] => Ok obj
    | _ => if ops_safe (items_of ops)
           then pteval chk cneg (fun x => PV f x ps) f (asp_tree (TVal obj) (items_of ops))
           else Err EUnsupported
    end.

  Lemma peval_expr_S : forall f v ops iff ps,
    PE (S f) (Ex v ops iff) ps =
    match iff with
    | Some (c, e2) => do cv <- PE f c ps; if ptruthy cv then pmain f v ops ps else PE f e2 ps
    | None => pmain f v ops ps
    end.
  Proof. reflexivity. Qed.

  Lemma main_sim : forall f v ops st ps p, Vsim f -> srel st ps -> pmain f v ops ps = Ok p ->
    exists v' more, main_of d [] f v ops st = Ok (v', st +a more) /\ vrel (arrays st ++ more) p v'.
  Proof.
    intros f v ops st ps p HV Hs H. unfold pmain in H. unfold main_of.
    destruct (PV f v ps) as [pobj| |] eqn:Ev; try discriminate. cbn [rbind] in H.
    destruct (HV v st ps pobj Hs Ev) as (obj & m1 & Hev & Hobj). rewrite Hev. cbn [rbind].
    destruct ops as [|i ops'].
    - injection H as <-. exists obj, m1. now split.
    - destruct (ops_safe (items_of (i :: ops'))) eqn:Es; [|discriminate].
      rewrite (chain_as_tree _ _ _ _ _ Es).
      assert (Hs1 : srel (st +a m1) ps) by now apply srel_ext.
      assert (Hr : tree_rel (arrays (st +a m1)) (asp_tree (TVal obj) (items_of (i :: ops'))) (asp_tree (TVal pobj) (items_of (i :: ops')))).
      { apply asp_tree_rel. cbn [tree_rel]. now rewrite arrays_ext. }
      destruct (teval_sim f ps (fun x st0 p0 => HV x st0 ps p0) _ _ (st +a m1) p Hs1 Hr H) as (v' & m2 & Hev2 & Hv').
      rewrite Hev2. exists v', (m1 ++ m2). rewrite ext_ext. split; [reflexivity|].
      rewrite arrays_ext, <- app_assoc in Hv'. exact Hv'.
  Qed.

  Lemma Esim_S : forall f, Esim f -> Vsim f -> Esim (S f).
  Proof.
    intros f HE HV [v ops iff] st ps p Hs H. rewrite peval_expr_S in H. destruct iff as [[c e2]|].
    - rewrite eval_expr_S_some.
      destruct (PE f c ps) as [pc| |] eqn:Ec; try discriminate. cbn [rbind] in H.
      destruct (HE c st ps pc Hs Ec) as (vc & m1 & Hev & Hvc). rewrite Hev. cbn [rbind].
      rewrite <- arrays_ext in Hvc. rewrite (truthy_rel d _ pc vc Hvc).
      assert (Hs1 : srel (st +a m1) ps) by now apply srel_ext.
      destruct (ptruthy pc).
      + destruct (main_sim f v ops (st +a m1) ps p HV Hs1 H) as (v' & m2 & Hev2 & Hv').
        rewrite Hev2. exists v', (m1 ++ m2). rewrite ext_ext. split; [reflexivity|].
        rewrite arrays_ext, <- app_assoc in Hv'. exact Hv'.
      + destruct (HE e2 (st +a m1) ps p Hs1 H) as (v' & m2 & Hev2 & Hv').
        rewrite Hev2. exists v', (m1 ++ m2). rewrite ext_ext. split; [reflexivity|].
        rewrite arrays_ext, <- app_assoc in Hv'. exact Hv'.
    - rewrite eval_expr_S_none. now apply (main_sim f v ops st ps p).
  Qed.

  Lemma mapM_sim : forall f, Esim f -> forall es st ps pvs, srel st ps ->
    pmapR (fun e => PE f e ps) es = Ok pvs ->
    exists vs more, mapM (eval_expr d [] f) es st = Ok (vs, st +a more) /\ vrels (arrays st ++ more) pvs vs.
  Proof.
    intros f HE es. induction es as [|e es IH]; intros st ps pvs Hs H; cbn [pmapR mapM] in *.
    - injection H as <-. exists [], []. rewrite ext_nil. split; [reflexivity|constructor].
    - destruct (PE f e ps) as [p| |] eqn:Ee; try discriminate. cbn [rbind] in H.
      destruct (pmapR (fun e0 => PE f e0 ps) es) as [ps'| |] eqn:Er; try discriminate. cbn [rbind] in H. injection H as <-.
      destruct (HE e st ps p Hs Ee) as (v & m1 & Hev & Hv). rewrite Hev. cbn [rbind].
      assert (Hs1 : srel (st +a m1) ps) by now apply srel_ext.
      destruct (IH (st +a m1) ps ps' Hs1 Er) as (vs & m2 & Hev2 & Hvs). rewrite Hev2. cbn [rbind].
      exists (v :: vs), (m1 ++ m2). rewrite ext_ext. split; [reflexivity|].
      rewrite arrays_ext, <- app_assoc in Hvs. constructor; [|exact Hvs].
      rewrite app_assoc. now apply vrel_mono.
  Qed.

  Lemma peval_vexpr_S : forall f x ps,
    PV (S f) x ps =
    match x with
    | XInt z => Ok (PInt z)
    | XStr x0 => Ok (PStr x0)
    | XTrue => Ok (PBool true)
    | XFalse => Ok (PBool false)
    | XNone => Ok PNone
    | XIdent n => match plookup n ps with Some v => Ok v | None => Err EType end
    | XParen e => PE f e ps
    | XList es => do vs <- pmapR (fun e => PE f e ps) es; Ok (PList vs)
    | _ => Err EUnsupported
    end.
  Proof. reflexivity. Qed.

  Lemma Vsim_S : forall f, Esim f -> Vsim (S f).
  Proof.
    intros f HE x st ps p Hs H. rewrite peval_vexpr_S in H. destruct x; try discriminate.
    - injection H as <-. eapply ok_here; [apply eval_vexpr_S_int|reflexivity].
    - injection H as <-. eapply ok_here; [apply eval_vexpr_S_str|reflexivity].
    - injection H as <-. eapply ok_here; [apply eval_vexpr_S_true|reflexivity].
    - injection H as <-. eapply ok_here; [apply eval_vexpr_S_false|reflexivity].
    - injection H as <-. eapply ok_here; [apply eval_vexpr_S_none|reflexivity].
    - (* list *)
      destruct (pmapR (fun e => PE f e ps) es) as [pvs| |] eqn:Em; try discriminate. cbn [rbind] in H. injection H as <-.
      destruct (mapM_sim f HE es st ps pvs Hs Em) as (vs & m & Hev & Hvs).
      rewrite eval_vexpr_S_list, Hev. cbn [rbind]. unfold new_list. rewrite alloc_exact.
      eexists. exists (m ++ [vs]). rewrite ext_ext. split; [reflexivity|].
      rewrite arrays_ext, app_assoc. now apply new_vrel.
    - (* paren *) rewrite eval_vexpr_S_paren. now apply (HE e st ps p).
    - (* ident *)
      pose proof (lookup_rel st ps n Hs) as Hl. destruct (plookup n ps) as [q|]; [|discriminate]. injection H as <-.
      destruct Hl as (v & Hl1 & Hl2). eapply ok_here; [|exact Hl2]. rewrite eval_vexpr_S_ident, Hl1. reflexivity.
  Qed.

  Lemma expr_sim : forall f, Esim f /\ Vsim f.
  Proof.
    induction f as [|f [HE HV]].
    - split; intros x st ps p _ H; discriminate H.
    - assert (HV' : Vsim (S f)) by now apply Vsim_S.
      split; [|exact HV']. (* Esim (S f) needs Vsim f and Esim f *) now apply Esim_S.
  Qed.

  (* ================================================================ statements *)
  Notation PB := (pexec_block chk cneg).
  Notation PSt := (pexec_stmt chk cneg).

  Definition rrel (A : list (list value)) (r : psres) (r' : sres) : Prop :=
    match r, r' with
    | PRNone, RNone => True
    | PRRet p, RRet v => vrel A p v
    | PRBreak, RBreak => True
    | PRContinue, RContinue => True
    | _, _ => False
    end.

  Ltac four := split; [|split; [|split]].

  Definition grows (st st' : state) : Prop := exists more, arrays st' = arrays st ++ more.
  Lemma grows_refl : forall st, grows st st. Proof. intros st. exists []. now rewrite app_nil_r. Qed.
  Lemma grows_trans : forall a b c, grows a b -> grows b c -> grows a c.
  Proof. intros a b c [m1 H1] [m2 H2]. exists (m1 ++ m2). now rewrite H2, H1, app_assoc. Qed.
  Lemma grows_ext : forall st m, grows st (st +a m). Proof. intros st m. now exists m. Qed.
  Lemma grows_set_var : forall st st' n v, grows st st' -> grows st (set_var n v st').
  Proof. intros st st' n v [m H]. exists m. now rewrite arrays_set_var. Qed.
  Lemma vrel_grows : forall st st' p v, grows st st' -> vrel (arrays st) p v -> vrel (arrays st') p v.
  Proof. intros st st' p v [m H] Hv. rewrite H. now apply vrel_mono. Qed.
  Lemma vrels_grows : forall st st' p v, grows st st' -> vrels (arrays st) p v -> vrels (arrays st') p v.
  Proof. intros st st' p v [m H] Hv. rewrite H. now apply vrels_mono. Qed.

  Definition Bsim (f : nat) : Prop := forall ss st ps r ps', srel st ps -> PB f ss ps = Ok (r, ps') ->
    exists r' st', exec_block d [] f ss st = Ok (r', st') /\ rrel (arrays st') r r' /\ srel st' ps' /\ grows st st'.
  Definition Ssim (f : nat) : Prop := forall s0 st ps r ps', srel st ps -> PSt f s0 ps = Ok (r, ps') ->
    exists r' st', exec_stmt d [] f s0 st = Ok (r', st') /\ rrel (arrays st') r r' /\ srel st' ps' /\ grows st st'.

  Definition pelif_loop (f : nat) (els : list stmt) (ps : pstate) : list (expr * list stmt) -> res (psres * pstate) :=
    fix go (l : list (expr * list stmt)) : res (psres * pstate) :=
    match l with
    | [] => PB f els ps
    | (c1, b1) :: r => do v1 <- PE f c1 ps; if ptruthy v1 then PB f b1 ps else go r
    end.
  Definition pfor_loop (f : nat) (n : str) (body : list stmt) : list pval -> pstate -> res (psres * pstate) :=
    fix go (l : list pval) (ps0 : pstate) : res (psres * pstate) :=
    match l with
    | [] => Ok (PRNone, ps0)
    | li :: r =>
        do '(r0, ps'') <- PB f body (pset_var n li ps0);
        match r0 with
        | PRBreak => Ok (PRNone, ps'')
        | PRRet v => Ok (PRRet v, ps'')
        | _ => go r ps''
        end
    end.

  Lemma pexec_stmt_S : forall f s0 ps,
    PSt (S f) s0 ps =
    match s0 with
    | SPass => Ok (PRNone, ps)
    | SBreak => Ok (PRBreak, ps)
    | SContinue => Ok (PRContinue, ps)
    | SAssign n e => do v <- PE f e ps; Ok (PRNone, pset_var n v ps)
    | SAug n e =>
        match plookup n ps with
        | None => Err EType
        | Some old =>
            do v <- PE f e ps;
            match old with
            | PList _ => Err EUnsupported
            | _ => do r <- papply_bin chk f Add old v; Ok (PRNone, pset_var n r ps)
            end
        end
    | SAssert e => do v <- PE f e ps; if ptruthy v then Ok (PRNone, ps) else Err EType
    | SReturn None => Ok (PRRet PNone, ps)
    | SReturn (Some e) => do v <- PE f e ps; Ok (PRRet v, ps)
    | SIf c body elifs els => do cv <- PE f c ps; if ptruthy cv then PB f body ps else pelif_loop f els ps elifs
    | SFor [n] it body => do items <- iter_with PE f it ps; pfor_loop f n body items ps
    | _ => Err EUnsupported
    end.
  Proof. reflexivity. Qed.

  Lemma pexec_block_S : forall f ss ps,
    PB (S f) ss ps =
    match ss with
    | [] => Ok (PRNone, ps)
    | s0 :: r => do '(res0, ps1) <- PSt f s0 ps; match res0 with PRNone => PB f r ps1 | _ => Ok (res0, ps1) end
    end.
  Proof. reflexivity. Qed.

  (* an expression inside a statement: the state only grows *)
  Lemma expr_in_stmt : forall f e st ps p, srel st ps -> PE f e ps = Ok p ->
    exists v st1, eval_expr d [] f e st = Ok (v, st1) /\ vrel (arrays st1) p v /\ srel st1 ps /\ grows st st1.
  Proof.
    intros f e st ps p Hs H. destruct (proj1 (expr_sim f) e st ps p Hs H) as (v & m & Hev & Hv).
    exists v, (st +a m). split; [exact Hev|split; [exact Hv|split; [now apply srel_ext|apply grows_ext]]].
  Qed.

  Lemma Bsim_S : forall f, Ssim f -> Bsim f -> Bsim (S f).
  Proof.
    intros f HS HB ss st ps r ps' Hs H. rewrite pexec_block_S in H. destruct ss as [|s0 rest].
    - injection H as <- <-. exists RNone, st. rewrite exec_block_S_nil. four; [reflexivity|exact I|exact Hs|apply grows_refl].
    - destruct (PSt f s0 ps) as [[r0 ps1]| |] eqn:E0; try discriminate. cbn [rbind] in H.
      destruct (HS s0 st ps r0 ps1 Hs E0) as (r0' & st1 & Hev & Hr & Hs1 & Hg1).
      rewrite exec_block_S_cons, Hev. cbn [rbind].
      destruct r0; destruct r0'; cbn [rrel] in Hr; try contradiction.
      + destruct (HB rest st1 ps1 r ps' Hs1 H) as (r' & st' & Hev2 & Hr2 & Hs2 & Hg2).
        exists r', st'. four; try assumption. now apply (grows_trans st st1 st').
      + injection H as <- <-. eexists. exists st1. four; [reflexivity|exact Hr|exact Hs1|exact Hg1].
      + injection H as <- <-. eexists. exists st1. four; [reflexivity|exact I|exact Hs1|exact Hg1].
      + injection H as <- <-. eexists. exists st1. four; [reflexivity|exact I|exact Hs1|exact Hg1].
  Qed.

  Lemma elif_sim : forall f, Bsim f -> forall els elifs st ps r ps', srel st ps ->
    pelif_loop f els ps elifs = Ok (r, ps') ->
    exists r' st', elif_loop d [] f els elifs st = Ok (r', st') /\ rrel (arrays st') r r' /\ srel st' ps' /\ grows st st'.
  Proof.
    intros f HB els elifs. induction elifs as [|[c1 b1] rest IH]; intros st ps r ps' Hs H; cbn [pelif_loop elif_loop] in *.
    - now apply (HB els st ps r ps').
    - destruct (PE f c1 ps) as [p1| |] eqn:E1; try discriminate. cbn [rbind] in H.
      destruct (expr_in_stmt f c1 st ps p1 Hs E1) as (v1 & st1 & Hev & Hv & Hs1 & Hg1). rewrite Hev. cbn [rbind].
      rewrite (truthy_rel d st1 p1 v1 Hv). destruct (ptruthy p1).
      + destruct (HB b1 st1 ps r ps' Hs1 H) as (r' & st' & Hev2 & Hr2 & Hs2 & Hg2).
        exists r', st'. four; try assumption. now apply (grows_trans st st1 st').
      + destruct (IH st1 ps r ps' Hs1 H) as (r' & st' & Hev2 & Hr2 & Hs2 & Hg2).
        exists r', st'. four; try assumption. now apply (grows_trans st st1 st').
  Qed.

  Lemma for_sim : forall f, Bsim f -> forall n body pitems items st ps r ps', srel st ps ->
    vrels (arrays st) pitems items ->
    pfor_loop f n body pitems ps = Ok (r, ps') ->
    exists r' st', for_loop d [] f n body items st = Ok (r', st') /\ rrel (arrays st') r r' /\ srel st' ps' /\ grows st st'.
  Proof.
    intros f HB n body pitems. induction pitems as [|pi prest IH]; intros items st ps r ps' Hs Hi H; inversion Hi; subst;
      cbn [pfor_loop for_loop] in *.
    - injection H as <- <-. exists RNone, st. four; [reflexivity|exact I|exact Hs|apply grows_refl].
    - destruct (PB f body (pset_var n pi ps)) as [[r0 ps1]| |] eqn:Eb; try discriminate. cbn [rbind] in H.
      assert (Hs0 : srel (set_var n y st) (pset_var n pi ps)) by now apply set_var_rel.
      destruct (HB body _ _ r0 ps1 Hs0 Eb) as (r0' & st1 & Hev & Hr & Hs1 & Hg1). rewrite Hev. cbn [rbind].
      assert (Hg : grows st st1).
      { destruct Hg1 as [m Hm]. exists m. now rewrite Hm, arrays_set_var. }
      destruct r0; destruct r0'; cbn [rrel] in Hr; try contradiction.
      + destruct (IH l' st1 ps1 r ps' Hs1 (vrels_grows _ _ _ _ Hg H4) H) as (r' & st' & Hev2 & Hr2 & Hs2 & Hg2).
        exists r', st'. four; try assumption. now apply (grows_trans st st1 st').
      + injection H as <- <-. eexists. exists st1. four; [reflexivity|exact Hr|exact Hs1|exact Hg].
      + injection H as <- <-. exists RNone, st1. four; [reflexivity|exact I|exact Hs1|exact Hg].
      + destruct (IH l' st1 ps1 r ps' Hs1 (vrels_grows _ _ _ _ Hg H4) H) as (r' & st' & Hev2 & Hr2 & Hs2 & Hg2).
        exists r', st'. four; try assumption. now apply (grows_trans st st1 st').
  Qed.

  Lemma Ssim_S : forall f, Bsim f -> Ssim (S f).
  Proof.
    intros f HB s0 st ps r ps' Hs H. rewrite pexec_stmt_S in H. destruct s0; try discriminate.
    - (* SAssign *)
      destruct (PE f e ps) as [p| |] eqn:Ee; try discriminate. cbn [rbind] in H. injection H as <- <-.
      destruct (expr_in_stmt f e st ps p Hs Ee) as (v & st1 & Hev & Hv & Hs1 & Hg1).
      rewrite exec_stmt_S_assign, Hev. cbn [rbind]. exists RNone, (set_var n v st1).
      four; [reflexivity|exact I|now apply set_var_rel|now apply grows_set_var].
    - (* SAug *)
      pose proof (lookup_rel st ps n Hs) as Hl. destruct (plookup n ps) as [pold|]; [|discriminate].
      destruct Hl as (old & Hl1 & Hl2).
      destruct (PE f e ps) as [p| |] eqn:Ee; try discriminate. cbn [rbind] in H.
      destruct (expr_in_stmt f e st ps p Hs Ee) as (v & st1 & Hev & Hv & Hs1 & Hg1).
      rewrite exec_stmt_S_aug, Hl1, Hev. cbn [rbind].
      assert (Hold1 : vrel (arrays st1) pold old) by now apply (vrel_grows st st1).
      assert (Hnl : forall (X Y : res (sres * state)),
                match d, old with Py, VList _ => X | _, _ => Y end = match pold with PList _ => X | _ => Y end).
      { intros X Y. destruct pold; cbn [vrel] in Hl2; try (subst old; now destruct d).
        apply vrel_list in Hl2. destruct Hl2 as (a & c & -> & _). now destruct d. }
      assert (Hgo : forall q, pold = q -> match q with PList _ => True | _ => False end -> False).
      { intros q <- Hq. destruct pold; try contradiction. discriminate H. }
      assert (Hstep : exists r' st', (do '(r0, st2) <- apply_bin d f Add old v st1; Ok (RNone, set_var n r0 st2)) = Ok (r', st')
                 /\ rrel (arrays st') r r' /\ srel st' ps' /\ grows st st').
      { assert (Hab : exists pr, papply_bin chk f Add pold p = Ok pr /\ r = PRNone /\ ps' = pset_var n pr ps).
        { destruct pold; try discriminate H;
            (destruct (papply_bin chk f Add _ p) as [pr| |] eqn:Ea; try discriminate; cbn [rbind] in H;
             injection H as <- <-; exists pr; now repeat split). }
        destruct Hab as (pr & Ea & -> & ->).
        destruct (apply_bin_sim f Add pold p pr st1 old v Hold1 Hv Ea) as (vr & m & Hab & Hvr).
        rewrite Hab. cbn [rbind]. exists RNone, (set_var n vr (st1 +a m)). four; [reflexivity|exact I| |].
        - apply set_var_rel; [now apply srel_ext|exact Hvr].
        - apply grows_set_var. apply (grows_trans st st1); [exact Hg1|apply grows_ext]. }
      destruct pold; cbn [vrel] in Hl2; try (subst old; destruct d; exact Hstep).
      discriminate H.
    - (* SIf *)
      destruct (PE f c ps) as [pc| |] eqn:Ec; try discriminate. cbn [rbind] in H.
      destruct (expr_in_stmt f c st ps pc Hs Ec) as (vc & st1 & Hev & Hv & Hs1 & Hg1).
      rewrite exec_stmt_S_if, Hev. cbn [rbind]. rewrite (truthy_rel d st1 pc vc Hv). destruct (ptruthy pc).
      + destruct (HB body st1 ps r ps' Hs1 H) as (r' & st' & Hev2 & Hr2 & Hs2 & Hg2).
        exists r', st'. four; try assumption. now apply (grows_trans st st1 st').
      + destruct (elif_sim f HB els elifs st1 ps r ps' Hs1 H) as (r' & st' & Hev2 & Hr2 & Hs2 & Hg2).
        exists r', st'. four; try assumption. now apply (grows_trans st st1 st').
    - (* SFor *)
      destruct names as [|n [|n2 names]]; try discriminate.
      unfold iter_with in H. destruct (PE f it ps) as [pit| |] eqn:Ei; try discriminate. cbn [rbind] in H.
      destruct pit; try discriminate. cbn [rbind] in H.
      destruct (expr_in_stmt f it st ps (PList l) Hs Ei) as (itv & st1 & Hev & Hv & Hs1 & Hg1).
      apply vrel_list in Hv. destruct Hv as (a & cells & -> & Hn & Hc).
      rewrite exec_stmt_S_for, Hev. cbn [rbind iter_items].
      rewrite (list_items_rel d st1 a _ cells Hn (vrels_length _ _ _ Hc)). cbn [rbind].
      destruct (for_sim f HB n body l cells st1 ps r ps' Hs1 Hc H) as (r' & st' & Hev2 & Hr2 & Hs2 & Hg2).
      exists r', st'. four; try assumption. now apply (grows_trans st st1 st').
    - (* SReturn *)
      destruct e as [e|].
      + destruct (PE f e ps) as [p| |] eqn:Ee; try discriminate. cbn [rbind] in H. injection H as <- <-.
        destruct (expr_in_stmt f e st ps p Hs Ee) as (v & st1 & Hev & Hv & Hs1 & Hg1).
        rewrite exec_stmt_S_ret, Hev. cbn [rbind]. exists (RRet v), st1. four; [reflexivity|exact Hv|exact Hs1|exact Hg1].
      + injection H as <- <-. exists (RRet VNone), st. rewrite exec_stmt_S_ret0. four; [reflexivity|reflexivity|exact Hs|apply grows_refl].
    - (* SAssert *)
      destruct (PE f e ps) as [p| |] eqn:Ee; try discriminate. cbn [rbind] in H.
      destruct (expr_in_stmt f e st ps p Hs Ee) as (v & st1 & Hev & Hv & Hs1 & Hg1).
      rewrite exec_stmt_S_assert, Hev. cbn [rbind]. rewrite (truthy_rel d st1 p v Hv).
      destruct (ptruthy p); [|discriminate]. injection H as <- <-. exists RNone, st1. four; [reflexivity|exact I|exact Hs1|exact Hg1].
    - injection H as <- <-. exists RNone, st. rewrite exec_stmt_S_pass. four; [reflexivity|exact I|exact Hs|apply grows_refl].
    - injection H as <- <-. exists RBreak, st. rewrite exec_stmt_S_break. four; [reflexivity|exact I|exact Hs|apply grows_refl].
    - injection H as <- <-. exists RContinue, st. rewrite exec_stmt_S_continue. four; [reflexivity|exact I|exact Hs|apply grows_refl].
  Qed.

  Lemma stmt_sim : forall f, Bsim f /\ Ssim f.
  Proof.
    induction f as [|f [HB HS]].
    - split; intros x st ps r ps' _ H; discriminate H.
    - split; [now apply Bsim_S|now apply Ssim_S].
  Qed.

  (* ================================================================ whole programs *)
  Lemma top_sim : forall fuel ss st ps ps', srel st ps -> pexec_top chk cneg fuel ss ps = Ok ps' ->
    exists st', exec_top d [] fuel ss st = (None, false, st') /\ srel st' ps'.
  Proof.
    intros fuel ss. induction ss as [|s0 rest IH]; intros st ps ps' Hs H; cbn [pexec_top exec_top] in *.
    - injection H as <-. now exists st.
    - destruct (PSt fuel s0 ps) as [[r0 ps1]| |] eqn:E0; try discriminate.
      destruct (proj2 (stmt_sim fuel) s0 st ps r0 ps1 Hs E0) as (r0' & st1 & Hev & Hr & Hs1 & _). rewrite Hev.
      destruct r0; destruct r0'; cbn [rrel] in Hr; try contradiction.
      + now apply (IH st1 ps1 ps').
      + injection H as <-. now exists st1.
      + injection H as <-. now exists st1.
      + injection H as <-. now exists st1.
  Qed.

  Lemma fname_rel : forall fs pfs0 i, Forall2 func_rel fs pfs0 ->
    f_name (nth i fs (Func [] [] [] 0%nat)) = pf_name (nth i pfs0 pfn_default).
  Proof.
    intros fs pfs0 i H. revert i. induction H as [|fd pfd fs pfs0 Hf _ IH]; intros [|i]; try reflexivity.
    - exact (proj1 Hf).
    - apply IH.
  Qed.

  Lemma render_rel : forall n st ps p v, Forall2 func_rel (funcs st) (pfs ps) -> vrel (arrays st) p v ->
    render d n st v = prender n (pfs ps) p.
  Proof.
    induction n as [|n IH]; intros st ps p v Hf Hv; [reflexivity|].
    destruct p; cbn [vrel] in Hv; try (subst v; reflexivity).
    - apply vrel_list in Hv. destruct Hv as (a & cells & -> & Hn & Hc). cbn [render prender s_cap s_len].
      rewrite Nat.sub_diag. rewrite (list_items_rel d st a _ cells Hn (vrels_length _ _ _ Hc)). f_equal.
      clear Hn. unfold vrels in Hc. induction Hc as [|q c qs cs Hq _ IHc]; [reflexivity|]. cbn [map]. f_equal; [now apply IH|exact IHc].
    - subst v. cbn [render prender]. f_equal. now apply fname_rel.
  Qed.

  Lemma insert_ginsert : forall kv l, insert_kv kv l = ginsert kv l.
  Proof. intros kv l. induction l as [|x r IH]; [reflexivity|]. cbn [insert_kv ginsert]. now rewrite IH. Qed.
  Lemma sort_gsort : forall l, sort_kvs l = gsort l.
  Proof. intros l. unfold sort_kvs, gsort. induction l as [|x r IH]; [reflexivity|]. cbn [fold_right]. now rewrite IH, insert_ginsert. Qed.

  Lemma ginsert_map : forall {A B} (g : A -> B) kv l,
    ginsert (fst kv, g (snd kv)) (map (fun x => (fst x, g (snd x))) l) = map (fun x => (fst x, g (snd x))) (ginsert kv l).
  Proof.
    intros A B g kv l. induction l as [|x r IH]; [reflexivity|]. cbn [map ginsert fst].
    destruct (str_leb (fst kv) (fst x)); [reflexivity|]. cbn [map]. now rewrite IH.
  Qed.
  Lemma gsort_map : forall {A B} (g : A -> B) l,
    gsort (map (fun x => (fst x, g (snd x))) l) = map (fun x => (fst x, g (snd x))) (gsort l).
  Proof.
    intros A B g l. unfold gsort. induction l as [|x r IH]; [reflexivity|]. cbn [map fold_right]. rewrite IH. apply ginsert_map.
  Qed.

  Lemma render_env_rel : forall st ps e, Forall2 func_rel (funcs st) (pfs ps) -> env_rel (arrays st) e (pg ps) ->
    render_env d st e = pure_obs ps.
  Proof.
    intros st ps e Hf He. unfold render_env, pure_obs. rewrite sort_gsort, <- (gsort_map (render d 64 st)). f_equal.
    unfold env_rel in He. induction He as [|kv pkv e pe [H1 H2] _ IH]; [reflexivity|]. cbn [map]. f_equal; [|exact IH].
    rewrite H1. f_equal. now apply render_rel.
  Qed.

  Theorem run_is_reference : forall fuel p ps, pexec_top chk cneg fuel p (PS [] [] []) = Ok ps ->
    run d [] fuel [p] = [OGlobals (pure_obs ps) (pure_obs ps)].
  Proof.
    intros fuel p ps H.
    set (st1 := set_locals [] (set_cur 0%nat (set_fscopes (fscopes empty_state ++ [[]]) empty_state))).
    assert (Hs : srel st1 (PS [] [] [])).
    { constructor; cbn; [reflexivity|exists []; split; [reflexivity|constructor]|constructor|constructor]. }
    destruct (top_sim fuel p st1 _ ps Hs H) as (st2 & Hev & [H1 (g & H2 & H3) H4 H5]).
    unfold run. cbn [run_builds]. change (length (fscopes empty_state)) with 0%nat. fold st1. rewrite Hev.
    cbn [map]. rewrite H2. cbn [nth]. now rewrite (render_env_rel st2 ps g H5 H3).
  Qed.
End Sim.

(* ================================================================ both dialects against the checked reference run *)
Lemma ires_eqb_eq : forall a b, ires_eqb a b = true -> a = b.
Proof.
  intros [x|x| | | ] [y|y| | | ] H; cbn in H; try discriminate.
  - apply Z.eqb_eq in H. now subst.
  - apply eqb_prop in H. now subst.
Qed.

Lemma checked_op_ok : forall d o a b,
  match checked_op o a b with IOk _ | IBool _ => int_op d o a b = checked_op o a b | _ => True end.
Proof.
  intros d o a b. unfold checked_op. destruct (ires_eqb (asp_int_op o a b) (py_int_op o a b)) eqn:E; [|exact I].
  apply ires_eqb_eq in E. destruct (py_int_op o a b) eqn:Ep; try exact I; destruct d; cbn [int_op]; congruence.
Qed.

Lemma checked_neg_ok : forall d z z', checked_neg z = Some z' -> (match d with Asp => wrap64 (- z) | Py => - z end) = z'.
Proof.
  intros d z z' H. unfold checked_neg in H. destruct (wrap64 (- z) =? - z) eqn:E; [|discriminate]. injection H as <-.
  destruct d; [now apply Z.eqb_eq|reflexivity].
Qed.

(* THE theorem: a program on which the checked reference run succeeds (= it stays inside the pure fragment and every
   integer operation it performs is one on which Go's int and CPython's int agree) is evaluated by the asp dialect and
   by the CPython dialect to exactly the globals of the reference run - for every program and every fuel. *)
Theorem pure_run_agrees : forall fuel p ps, pure_run fuel p = Ok ps ->
  run Asp [] fuel [p] = [OGlobals (pure_obs ps) (pure_obs ps)] /\
  run Py [] fuel [p] = [OGlobals (pure_obs ps) (pure_obs ps)].
Proof.
  intros fuel p ps H. unfold pure_run in H. split.
  - exact (run_is_reference Asp checked_op checked_neg (checked_op_ok Asp) (checked_neg_ok Asp) fuel p ps H).
  - exact (run_is_reference Py checked_op checked_neg (checked_op_ok Py) (checked_neg_ok Py) fuel p ps H).
Qed.

Corollary pure_subset_program_agrees : forall fuel p ps, in_pure_subset p = true -> pure_run fuel p = Ok ps ->
  run Asp [] fuel [p] = run Py [] fuel [p] /\ run Asp [] fuel [p] = [OGlobals (pure_obs ps) (pure_obs ps)].
Proof.
  intros fuel p ps _ H. destruct (pure_run_agrees fuel p ps H) as [Ha Hp]. split; [now rewrite Ha, Hp|exact Ha].
Qed.
