(* C11 - reuse of test results: lemmas and the invariant proof.  The property theorems are in Props/C11.v. *)
From PlzV Require Import Base.Harness Base.StrFacts Gen.C11RuntimeHash Model.C11.
From Coq Require Import Lia.

(* ---------------------------------------------------------------------------------------------- *)
(* decidable equalities *)

Lemma str_eqb_reflect a b : reflect (a = b) (str_eqb a b).
Proof. exact (str_eqb_spec a b). Qed.

Lemma key_eqb_eq a b : key_eqb a b = true <-> a = b.
Proof.
  destruct a as [r f], b as [r' f']; unfold key_eqb; cbn [fst snd].
  rewrite andb_true_iff, str_eqb_eq.
  destruct (list_eqb_spec (list_eqb str_eqb) (list_eqb_spec str_eqb str_eqb_reflect) f f') as [->|Hne].
  - split; [intros [-> _]; reflexivity | intros Heq; inversion Heq; auto].
  - split; [intros [_ Hf]; discriminate | intros Heq; inversion Heq; contradiction].
Qed.

Lemma mem_key_in k l : mem_key k l = true -> In k l.
Proof.
  unfold mem_key; rewrite existsb_exists; intros [k' [Hin Heq]].
  apply key_eqb_eq in Heq; subst; exact Hin.
Qed.

Lemma pair_eqb_reflect (e e' : str * str) :
  reflect (e = e') (str_eqb (fst e) (fst e') && str_eqb (snd e) (snd e')).
Proof.
  destruct e as [a b], e' as [a' b']; cbn [fst snd].
  destruct (str_eqb_spec a a') as [->|Ha]; cbn; [|constructor; congruence].
  destruct (str_eqb_spec b b') as [->|Hb]; constructor; congruence.
Qed.

Lemma node_eqb_reflect a b : reflect (a = b) (node_eqb a b).
Proof.
  destruct a as [c|es], b as [c'|es']; cbn; try (constructor; congruence).
  - destruct (str_eqb_spec c c') as [->|H]; constructor; congruence.
  - destruct (list_eqb_spec _ pair_eqb_reflect es es') as [->|H]; constructor; congruence.
Qed.

Lemma rfile_eqb_reflect a b : reflect (a = b) (rfile_eqb a b).
Proof.
  destruct a as [r d n], b as [r' d' n']; unfold rfile_eqb; cbn [rf_role rf_dest rf_node].
  destruct r, r'; cbn; try (constructor; congruence);
    (destruct (str_eqb_spec d d') as [->|Hd]; cbn; [|constructor; congruence];
     destruct (node_eqb_reflect n n') as [->|Hn]; constructor; congruence).
Qed.

Lemma tcmd_eqb_reflect a b : reflect (a = b) (tcmd_eqb a b).
Proof.
  destruct a as [w|w|d u| | |w|w|d w], b as [w'|w'|d' u'| | |w'|w'|d' w']; cbn; try (constructor; congruence).
  - destruct (str_eqb_spec w w') as [->|H]; constructor; congruence.
  - destruct (str_eqb_spec w w') as [->|H]; constructor; congruence.
  - destruct (str_eqb_spec d d') as [->|H]; cbn; [|constructor; congruence].
    destruct u as [u|], u' as [u'|]; cbn; try (constructor; congruence).
    destruct (str_eqb_spec u u') as [->|H]; constructor; congruence.
  - destruct (str_eqb_spec w w') as [->|H]; constructor; congruence.
  - destruct (str_eqb_spec w w') as [->|H]; constructor; congruence.
  - destruct (str_eqb_spec d d') as [->|H]; cbn; [|constructor; congruence].
    destruct (str_eqb_spec w w') as [->|H]; constructor; congruence.
Qed.

(* ---------------------------------------------------------------------------------------------- *)
(* the runtime inputs of a test: its command and its prepared test directory *)

Definition same_inputs (a b : tdef) : Prop :=
  t_cmd a = t_cmd b /\ runtime_files (t_files a) = runtime_files (t_files b).

Lemma same_inputs_b_iff a b : same_inputs_b a b = true <-> same_inputs a b.
Proof.
  unfold same_inputs_b, same_inputs; rewrite andb_true_iff.
  destruct (tcmd_eqb_reflect (t_cmd a) (t_cmd b)) as [->|Hc];
    destruct (list_eqb_spec _ rfile_eqb_reflect (runtime_files (t_files a)) (runtime_files (t_files b))) as [->|Hf];
    split; intros [H1 H2]; try discriminate; try contradiction; auto.
Qed.

Lemma outcome_args_same_inputs a b args : same_inputs a b -> outcome_args a args = outcome_args b args.
Proof. intros [Hc Hf]; unfold outcome_args, test_act; rewrite Hc, Hf; reflexivity. Qed.

Lemma outcome_same_inputs a b : same_inputs a b -> outcome a = outcome b.
Proof. apply outcome_args_same_inputs. Qed.

(* a run without arguments: what the step reports when it runs is the argument-less outcome *)
Lemma step_outcome_no_args x : s_args x = [] -> step_outcome x = outcome (s_def x).
Proof. unfold step_outcome, outcome; intros ->; reflexivity. Qed.

(* ---------------------------------------------------------------------------------------------- *)
(* cacheOutputFiles as the source has it (Gen.store_steps): a run with arguments stores nothing, a run
   without arguments stamps the results file and fills the cache.  This is the only place where the proofs
   look at the ORDER of the guards and effects; it fails when a guard moves behind an effect. *)

Lemma exec_store_gen cache_on args k cache :
  exec_store cache_on (has_args args) k store_steps None cache
  = if has_args args then (None, cache) else (Some k, if cache_on then k :: cache else cache).
Proof. destruct cache_on, (has_args args); reflexivity. Qed.

Lemma has_args_false a : has_args a = false -> a = [].
Proof. destruct a; [reflexivity | discriminate]. Qed.

(* needToRun as the source has it (Gen.need_to_run_guards): one of its leading guards catches every run that
   is given test arguments.  Fails when that guard is removed. *)
Lemma guards_catch_args a : existsb (guard_fires a) need_to_run_guards = false -> a = [].
Proof. destruct a; [reflexivity | cbn; discriminate]. Qed.

Lemma guards_pass_no_args : existsb (guard_fires []) need_to_run_guards = false.
Proof. reflexivity. Qed.

Lemma same_inputs_refl a : same_inputs a a.
Proof. split; reflexivity. Qed.

(* ---------------------------------------------------------------------------------------------- *)
(* histories *)

Definition state_after (cache_on : bool) (h : list step) : tstate :=
  fold_left (fun st x => fst (do_step cache_on st x)) h st0.

(* what `plz test` reports for the target at the step x that follows the history pre *)
Definition report_at (cache_on : bool) (pre : list step) (x : step) : report :=
  snd (do_step cache_on (state_after cache_on pre) x).

Lemma state_after_snoc c pre x :
  state_after c (pre ++ [x]) = fst (do_step c (state_after c pre) x).
Proof. unfold state_after; rewrite fold_left_app; reflexivity. Qed.

Lemma run_reports_app c st a b :
  map snd (run c st (a ++ b))
  = map snd (run c st a) ++ map snd (run c (fold_left (fun st x => fst (do_step c st x)) a st) b).
Proof.
  revert st; induction a as [|x a IH]; intros st; cbn [run app map fold_left]; [reflexivity|].
  f_equal; apply IH.
Qed.

Lemma run_length c st h : length (run c st h) = length h.
Proof. revert st; induction h as [|x h IH]; intros st; cbn; [reflexivity | f_equal; apply IH]. Qed.

(* the report list used by the correspondence check agrees with report_at, position by position *)
Lemma reports_nth c pre x post :
  nth_error (reports c (pre ++ x :: post)) (length pre) = Some (report_at c pre x).
Proof.
  unfold reports; rewrite run_reports_app.
  rewrite nth_error_app2 by (rewrite map_length, run_length; lia).
  rewrite map_length, run_length, Nat.sub_diag; reflexivity.
Qed.

(* ---------------------------------------------------------------------------------------------- *)
(* one step *)

Lemma report_ran_pass c st x : snd (do_step c st x) = RanPass -> step_outcome x = true.
Proof.
  unfold do_step, test_step, step_outcome.
  destruct (negb _); cbn [snd]; [discriminate|].
  destruct (outcome_args (s_def x) (s_args x)); cbn [snd]; [reflexivity | discriminate].
Qed.

Lemma report_ran_fail c st x : snd (do_step c st x) = RanFail -> step_outcome x = false.
Proof.
  unfold do_step, test_step, step_outcome.
  destruct (negb _); cbn [snd]; [discriminate|].
  destruct (outcome_args (s_def x) (s_args x)); cbn [snd]; [discriminate | reflexivity].
Qed.

(* a result is reused only by a run that no guard of needToRun catches, from a stored key equal to the
   current one *)
Lemma report_cached c st x :
  snd (do_step c st x) = CachedPass ->
  let st' := if s_rm x then rm_plz_out st else st in
  existsb (guard_fires (s_args x)) need_to_run_guards = false
  /\ (st_local st' = Some (runtime_key (s_def x)) \/ In (runtime_key (s_def x)) (st_cache st')).
Proof.
  unfold do_step, test_step; cbn zeta.
  set (st' := if s_rm x then rm_plz_out st else st).
  set (k := runtime_key (s_def x)).
  destruct (existsb (guard_fires (s_args x)) need_to_run_guards) eqn:Hg; cbn [orb].
  { cbn [negb]. destruct (outcome_args (s_def x) (s_args x)); cbn [snd]; discriminate. }
  destruct (settled c st' (s_def x)) eqn:Hs;
    destruct (st_local st') as [l|] eqn:Hl.
  1: { destruct (key_eqb l k) eqn:Hk; cbn [negb snd].
       - intros _; split; [reflexivity|]. left; apply key_eqb_eq in Hk; subst; reflexivity.
       - destruct (outcome_args (s_def x) (s_args x)); cbn [snd]; discriminate. }
  all: destruct (c && mem_key k (st_cache st')) eqn:Hm; cbn [negb snd];
    [ intros _; split; [reflexivity|]; right; apply andb_true_iff in Hm; apply mem_key_in, Hm
    | destruct (outcome_args (s_def x) (s_args x)); cbn [snd]; discriminate ].
Qed.

(* ---------------------------------------------------------------------------------------------- *)
(* the invariant: every stored key was put there by a run of the test, in this history, that passed AND
   was given no test arguments *)

Definition justified (c : bool) (pre : list step) (k : key) : Prop :=
  exists pre1 y post1, pre = pre1 ++ y :: post1 /\ report_at c pre1 y = RanPass /\ runtime_key (s_def y) = k
                       /\ s_args y = [].

Definition inv (c : bool) (pre : list step) (st : tstate) : Prop :=
  (forall k, st_local st = Some k -> justified c pre k) /\ (forall k, In k (st_cache st) -> justified c pre k).

Lemma justified_snoc c pre x k : justified c pre k -> justified c (pre ++ [x]) k.
Proof.
  intros (pre1 & y & post1 & -> & Hr & Hk & Ha).
  exists pre1, y, (post1 ++ [x]); rewrite <- app_assoc; auto.
Qed.

Lemma inv_rm c pre st : inv c pre st -> inv c pre (if (true : bool) then rm_plz_out st else st).
Proof. intros [_ Hc]; split; cbn; [discriminate | exact Hc]. Qed.

Lemma inv_step c pre x : inv c pre (state_after c pre) -> inv c (pre ++ [x]) (state_after c (pre ++ [x])).
Proof.
  intros Hinv; rewrite state_after_snoc.
  pose proof (report_cached c (state_after c pre) x) as Hcached.
  assert (Hnew : snd (do_step c (state_after c pre) x) = RanPass -> s_args x = [] ->
                 justified c (pre ++ [x]) (runtime_key (s_def x))).
  { intros Hr Ha; exists pre, x, []; auto. }
  set (st' := if s_rm x then rm_plz_out (state_after c pre) else state_after c pre) in *.
  assert (Hinv' : inv c pre st').
  { subst st'; destruct (s_rm x); [apply inv_rm|]; exact Hinv. }
  destruct Hinv' as [Hl Hc].
  assert (Hold : forall k, In k (st_cache st') -> justified c (pre ++ [x]) k) by (intros; apply justified_snoc; auto).
  revert Hcached Hnew; unfold do_step, test_step; fold st'.
  set (k := runtime_key (s_def x)).
  destruct (negb _); cbn [fst snd].
  - intros Hcached _; cbn zeta in Hcached. split; cbn [st_local st_cache].
    + intros k0 [= <-]. destruct (Hcached eq_refl) as [_ [H|H]]; apply justified_snoc; auto.
    + exact Hold.
  - destruct (outcome_args (s_def x) (s_args x)); cbn [fst snd]; intros _ Hnew; split; cbn [st_local st_cache].
    + rewrite exec_store_gen. destruct (has_args (s_args x)) eqn:Ha; cbn [fst]; [discriminate|].
      intros k0 [= <-]; apply Hnew; [reflexivity | apply has_args_false, Ha].
    + rewrite exec_store_gen. destruct (has_args (s_args x)) eqn:Ha; cbn [snd]; [exact Hold|].
      destruct c; [intros k0 [<-|Hin]; [apply Hnew; [reflexivity | apply has_args_false, Ha] | auto] | exact Hold].
    + discriminate.
    + exact Hold.
Qed.

Lemma inv_after c pre : inv c pre (state_after c pre).
Proof.
  induction pre as [|x pre IH] using rev_ind.
  - split; cbn; [discriminate | contradiction].
  - apply inv_step, IH.
Qed.

(* ---------------------------------------------------------------------------------------------- *)
(* consequences, for every history - no hypothesis *)

(* A cached result is reported only by an invocation WITHOUT test arguments, and only if an EARLIER step of
   the history actually ran the test, that run passed, it was given NO test arguments, and its runtime key
   equals the current one. *)
Theorem cached_only_from_passing_run c pre x :
  report_at c pre x = CachedPass -> justified c pre (runtime_key (s_def x)) /\ s_args x = [].
Proof.
  intros Hr. pose proof (inv_after c pre) as [Hl Hc].
  destruct (report_cached c (state_after c pre) x Hr) as [Hg H]; cbn zeta in H.
  split; [|exact (guards_catch_args _ Hg)].
  destruct H as [H|H]; destruct (s_rm x); cbn in H; try discriminate; auto.
Qed.

(* Failing results are never stored, hence never reused: the stored keys all come from passing runs
   (inv_after), a reported failure is the failure of a run made in that very invocation, and a run that
   failed leaves no local result behind. *)
Theorem failure_is_a_real_run c pre x :
  passed (report_at c pre x) = false ->
  report_at c pre x = RanFail /\ step_outcome x = false /\ st_local (state_after c (pre ++ [x])) = None.
Proof.
  intros Hp. assert (Hr : report_at c pre x = RanFail) by (destruct (report_at c pre x); cbn in Hp; congruence).
  split; [exact Hr|]. split; [exact (report_ran_fail _ _ _ Hr)|].
  rewrite state_after_snoc. revert Hr; unfold report_at, do_step, test_step.
  destruct (negb _); cbn [fst snd]; [discriminate|].
  destruct (outcome_args (s_def x) (s_args x)); cbn [fst snd]; [discriminate | reflexivity].
Qed.

Theorem stored_keys_passed c pre k :
  st_local (state_after c pre) = Some k \/ In k (st_cache (state_after c pre)) ->
  exists pre1 y post1, pre = pre1 ++ y :: post1 /\ report_at c pre1 y = RanPass
                       /\ outcome (s_def y) = true /\ runtime_key (s_def y) = k /\ s_args y = [].
Proof.
  intros H. destruct (inv_after c pre) as [Hl Hc].
  assert (J : justified c pre k) by (destruct H; auto).
  destruct J as (pre1 & y & post1 & -> & Hr & Hk & Ha).
  exists pre1, y, post1; repeat split; auto.
  rewrite <- (step_outcome_no_args y Ha). exact (report_ran_pass _ _ _ Hr).
Qed.

(* A run that is given test arguments neither reuses nor stores anything: it is never reported as cached,
   the cache holds no new key after it and no results file is left behind. *)
Theorem args_step_stores_nothing c pre x :
  s_args x <> [] ->
  report_at c pre x <> CachedPass
  /\ (forall k, In k (st_cache (state_after c (pre ++ [x]))) -> In k (st_cache (state_after c pre)))
  /\ st_local (state_after c (pre ++ [x])) = None.
Proof.
  intros Ha. assert (Hh : has_args (s_args x) = true) by (destruct (s_args x); [contradiction | reflexivity]).
  split. { intros Hr. destruct (cached_only_from_passing_run c pre x Hr) as [_ H]. contradiction. }
  assert (Hg : existsb (guard_fires (s_args x)) need_to_run_guards = true).
  { destruct (existsb (guard_fires (s_args x)) need_to_run_guards) eqn:E; [reflexivity|].
    apply guards_catch_args in E. contradiction. }
  rewrite state_after_snoc; unfold do_step, test_step.
  set (st' := if s_rm x then rm_plz_out (state_after c pre) else state_after c pre).
  assert (Hc : st_cache st' = st_cache (state_after c pre)) by (subst st'; destruct (s_rm x); reflexivity).
  rewrite Hg; cbn [orb negb].
  destruct (outcome_args (s_def x) (s_args x)); cbn [fst snd st_cache st_local].
  - rewrite exec_store_gen, Hh; cbn [fst snd]. rewrite Hc; split; auto.
  - rewrite Hc; split; auto.
Qed.

(* ---------------------------------------------------------------------------------------------- *)
(* with a key that is sound on the tree states of the history: reuse is justified by the INPUTS, and the
   reported outcome is the fresh outcome *)

Definition key_sound_on (h : list step) : Prop :=
  forall x y, In x h -> In y h -> runtime_key (s_def x) = runtime_key (s_def y) -> same_inputs (s_def x) (s_def y).

Definition reuse_sound_at (c : bool) (pre : list step) (x : step) : Prop :=
  report_at c pre x = CachedPass ->
  exists pre1 y post1, pre = pre1 ++ y :: post1 /\ report_at c pre1 y = RanPass /\ same_inputs (s_def y) (s_def x)
                       /\ s_args y = [] /\ s_args x = [].

Definition outcome_fresh_at (c : bool) (pre : list step) (x : step) : Prop :=
  passed (report_at c pre x) = step_outcome x.

Lemma reuse_sound_of_key_sound c pre x : key_sound_on (pre ++ [x]) -> reuse_sound_at c pre x.
Proof.
  intros Hs Hr. destruct (cached_only_from_passing_run c pre x Hr) as [(pre1 & y & post1 & -> & Hy & Hk & Ha) Hx].
  exists pre1, y, post1; split; [reflexivity|]; split; [exact Hy|]. split; [|split; [exact Ha | exact Hx]].
  apply Hs; [| | exact Hk]; rewrite !in_app_iff; cbn; tauto.
Qed.

Lemma outcome_fresh_of_key_sound c pre x : key_sound_on (pre ++ [x]) -> outcome_fresh_at c pre x.
Proof.
  intros Hs; unfold outcome_fresh_at.
  destruct (report_at c pre x) eqn:Hr; cbn [passed].
  - destruct (reuse_sound_of_key_sound c pre x Hs Hr) as (pre1 & y & post1 & _ & Hy & Hsame & Ha & Hx).
    rewrite (step_outcome_no_args x Hx), <- (outcome_same_inputs _ _ Hsame), <- (step_outcome_no_args y Ha).
    symmetry; exact (report_ran_pass _ _ _ Hy).
  - symmetry; exact (report_ran_pass _ _ _ Hr).
  - symmetry; exact (report_ran_fail _ _ _ Hr).
Qed.

(* ---------------------------------------------------------------------------------------------- *)
(* the executable classifier decides key soundness *)

Lemma first_some_none {A B} (f : A -> option B) l : first_some f l = None -> forall x, In x l -> f x = None.
Proof.
  induction l as [|a l IH]; cbn; [contradiction|].
  destruct (f a) eqn:Hfa; [discriminate|]. intros H x [<-|Hin]; auto.
Qed.

Lemma pair_defect_none a b :
  pair_defect a b = None -> runtime_key a = runtime_key b -> same_inputs a b.
Proof.
  unfold pair_defect; intros H Hk.
  apply key_eqb_eq in Hk; rewrite Hk in H; cbn [andb] in H.
  destruct (same_inputs_b a b) eqn:Hs; [apply same_inputs_b_iff, Hs|].
  cbn [negb] in H.
  destruct (negb (tcmd_eqb _ _)); [discriminate|].
  destruct (negb (list_eqb str_eqb _ _)); [discriminate|].
  destruct (list_eqb str_eqb _ _); discriminate.
Qed.

Lemma defect_class_none h : defect_class h = None -> key_sound_on h.
Proof.
  intros H x y Hx Hy Hk. unfold defect_class in H.
  pose proof (first_some_none _ _ H x Hx) as H1; cbn beta in H1.
  exact (pair_defect_none _ _ (first_some_none _ _ H1 y Hy) Hk).
Qed.

Lemma key_sound_prefix pre x post : key_sound_on (pre ++ x :: post) -> key_sound_on (pre ++ [x]).
Proof.
  intros H a b Ha Hb; apply H; rewrite in_app_iff in *; cbn in *; tauto.
Qed.

(* the partial theorem: on every history without a classified key defect, at every position *)
Theorem partial_of_no_defect c h :
  defect_class h = None ->
  forall pre x post, h = pre ++ x :: post -> reuse_sound_at c pre x /\ outcome_fresh_at c pre x.
Proof.
  intros Hd pre x post ->. apply defect_class_none, key_sound_prefix in Hd.
  split; [apply reuse_sound_of_key_sound | apply outcome_fresh_of_key_sound]; exact Hd.
Qed.

(* ---------------------------------------------------------------------------------------------- *)
(* the witnesses: the real key (Gen.C11RuntimeHash.loop_writes) is blind to names *)

Definition mk (cmd : tcmd) (files : list rfile) : tsrc :=
  {| ts_rule := [s "//p:t"; s "//p:g"; s "s.txt"; s "t.bin"; s "cat"; s "//p:g"];
     ts_cmds := Single (s "test") cmd;
     ts_files := {| rf_role := ROut; rf_dest := s "t.bin"; rf_node := File (s "bin") |} :: files;
     ts_bin := s "bin"; ts_build := [s "//p:t"; s "//p:g"; s "s.txt"; s "bin"; s "t.bin"; s "cat"] |}.

Definition plain (t : tsrc) : step := {| s_rm := false; s_config := []; s_args := []; s_src := t |}.

(* the output of the data dependency //p:g is renamed x.txt -> y.txt, same content *)
Definition w_rename : list step :=
  [ plain (mk (TExists (s "p/x.txt") None) [{| rf_role := RData; rf_dest := s "p/x.txt"; rf_node := File (s "ok") |}]);
    plain (mk (TExists (s "p/x.txt") None) [{| rf_role := RData; rf_dest := s "p/y.txt"; rf_node := File (s "ok") |}]) ].

(* an entry of the data directory p/dd is renamed a.txt -> aa.txt, same content, same walk order *)
Definition w_dir : list step :=
  [ plain (mk (TExists (s "p/dd") (Some (s "a.txt")))
         [{| rf_role := RData; rf_dest := s "p/dd"; rf_node := Dir [(s "a.txt", s "one"); (s "b.txt", s "two")] |}]);
    plain (mk (TExists (s "p/dd") (Some (s "a.txt")))
         [{| rf_role := RData; rf_dest := s "p/dd"; rf_node := Dir [(s "aa.txt", s "one"); (s "b.txt", s "two")] |}]) ].

(* `plz test //p:t`, then `plz test //p:t -- bad` on the same tree, the test fails iff its first argument is bad:
   the run with the argument is not handed the stored result of the plain run (it was, before needToRun got
   its arguments guard - the former finding run-with-arguments-reuses-argumentless-result) *)
Definition w_args : list step :=
  [ plain (mk (TArgIsNot (s "bad")) []);
    {| s_rm := false; s_config := []; s_args := [s "bad"]; s_src := mk (TArgIsNot (s "bad")) [] |} ].

Lemma w_rename_stale :
  forall c, exists pre x, w_rename = pre ++ [x] /\ report_at c pre x = CachedPass /\ step_outcome x = false
                          /\ defect_class w_rename = Some RuntimeFileNamesNotHashed.
Proof.
  intros c; exists [hd (plain (mk TTrue [])) w_rename], (last w_rename (plain (mk TTrue []))).
  destruct c; vm_compute; repeat split.
Qed.

Lemma w_dir_stale :
  forall c, exists pre x, w_dir = pre ++ [x] /\ report_at c pre x = CachedPass /\ step_outcome x = false
                          /\ defect_class w_dir = Some DirEntryNamesNotHashed.
Proof.
  intros c; exists [hd (plain (mk TTrue [])) w_dir], (last w_dir (plain (mk TTrue []))).
  destruct c; vm_compute; repeat split.
Qed.

Lemma w_args_not_reused :
  forall c, reports c w_args = [RanPass; RanFail] /\ defect_class w_args = None.
Proof. intros c; destruct c; vm_compute; split; reflexivity. Qed.

(* ---------------------------------------------------------------------------------------------- *)
(* the same facts by position in the report list that the correspondence check compares with plz *)

Lemma nth_error_decompose {A} (h : list A) n x :
  nth_error h n = Some x -> exists pre post, h = pre ++ x :: post /\ length pre = n.
Proof. intros H; destruct (nth_error_split h n H) as (pre & post & -> & <-); eauto. Qed.

Lemma nth_error_middle {A} (pre : list A) y post : nth_error (pre ++ y :: post) (length pre) = Some y.
Proof. rewrite nth_error_app2, Nat.sub_diag by lia; reflexivity. Qed.

Lemma report_at_position c h n x :
  nth_error h n = Some x ->
  exists pre post, h = pre ++ x :: post /\ length pre = n /\ nth_error (reports c h) n = Some (report_at c pre x).
Proof.
  intros H; destruct (nth_error_decompose h n x H) as (pre & post & -> & <-).
  exists pre, post; repeat split; apply reports_nth.
Qed.

(* an earlier step of pre ++ x :: post, given as a split of pre, by index *)
Lemma earlier_position c pre1 y post1 x post :
  let h := (pre1 ++ y :: post1) ++ x :: post in
  length pre1 < length (pre1 ++ y :: post1)
  /\ nth_error h (length pre1) = Some y
  /\ nth_error (reports c h) (length pre1) = Some (report_at c pre1 y).
Proof.
  cbn zeta; rewrite <- app_assoc; cbn [app]. repeat split.
  - rewrite app_length; cbn; lia.
  - apply nth_error_middle.
  - apply reports_nth.
Qed.

Definition reuse_sound_pos (c : bool) (h : list step) (n : nat) (x : step) : Prop :=
  nth_error (reports c h) n = Some CachedPass ->
  exists i y, i < n /\ nth_error h i = Some y /\ nth_error (reports c h) i = Some RanPass
              /\ same_inputs (s_def y) (s_def x) /\ s_args y = [] /\ s_args x = [].

Definition outcome_fresh_pos (c : bool) (h : list step) (n : nat) (x : step) : Prop :=
  exists r, nth_error (reports c h) n = Some r /\ passed r = step_outcome x.

Theorem partial_by_position c h :
  defect_class h = None ->
  forall n x, nth_error h n = Some x -> reuse_sound_pos c h n x /\ outcome_fresh_pos c h n x.
Proof.
  intros Hd n x Hn.
  destruct (report_at_position c h n x Hn) as (pre & post & Hh & Hlen & Hrep).
  destruct (partial_of_no_defect c h Hd pre x post Hh) as [Hreuse Hfresh].
  split.
  - unfold reuse_sound_pos; rewrite Hrep; intros [= Hr].
    destruct (Hreuse Hr) as (pre1 & y & post1 & Hpre & Hy & Hsame & Ha & Hx).
    subst pre h. destruct (earlier_position c pre1 y post1 x post) as (Hlt & Hy1 & Hy2).
    exists (length pre1), y; repeat split; try assumption; try (apply Hsame).
    + lia.
    + rewrite Hy2, Hy; reflexivity.
  - exists (report_at c pre x); split; [exact Hrep | exact Hfresh].
Qed.

(* no hypothesis on the history: only an argument-less invocation reuses, and from a passing, argument-less
   run with an equal KEY; failures are real runs *)
Theorem no_failure_cached_by_position c h n x :
  nth_error h n = Some x ->
  (nth_error (reports c h) n = Some CachedPass ->
     exists i y, i < n /\ nth_error h i = Some y /\ nth_error (reports c h) i = Some RanPass
                 /\ outcome (s_def y) = true /\ runtime_key (s_def y) = runtime_key (s_def x) /\ s_args y = []
                 /\ s_args x = [])
  /\ (nth_error (reports c h) n = Some RanFail -> step_outcome x = false)
  /\ (nth_error (reports c h) n = Some RanPass -> step_outcome x = true).
Proof.
  intros Hn. destruct (report_at_position c h n x Hn) as (pre & post & Hh & Hlen & Hrep).
  rewrite Hrep. repeat split.
  - intros [= Hr].
    destruct (cached_only_from_passing_run c pre x Hr) as [(pre1 & y & post1 & Hpre & Hy & Hk & Ha) Hx].
    subst pre h. destruct (earlier_position c pre1 y post1 x post) as (Hlt & Hy1 & Hy2).
    exists (length pre1), y; repeat split; try assumption.
    + lia.
    + rewrite Hy2, Hy; reflexivity.
    + rewrite <- (step_outcome_no_args y Ha). exact (report_ran_pass _ _ _ Hy).
  - intros [= Hr]; exact (report_ran_fail _ _ _ Hr).
  - intros [= Hr]; exact (report_ran_pass _ _ _ Hr).
Qed.

(* whatever is stored after any history was stored by a run that passed and had no test arguments *)
Theorem stored_only_passes c h k :
  st_local (state_after c h) = Some k \/ In k (st_cache (state_after c h)) ->
  exists i y, nth_error h i = Some y /\ nth_error (reports c h) i = Some RanPass
              /\ outcome (s_def y) = true /\ runtime_key (s_def y) = k /\ s_args y = [].
Proof.
  intros H. destruct (stored_keys_passed c h k H) as (pre1 & y & post1 & -> & Hr & Ho & Hk & Ha).
  exists (length pre1), y; repeat split; auto.
  - apply nth_error_middle.
  - rewrite reports_nth, Hr; reflexivity.
Qed.

(* a step with test arguments neither reuses nor stores, by position: it is not reported as cached, the cache
   holds no new key after it, and no results file is left behind *)
Theorem args_run_never_stored c h x :
  s_args x <> [] ->
  nth_error (reports c (h ++ [x])) (length h) <> Some CachedPass
  /\ (forall k, In k (st_cache (state_after c (h ++ [x]))) -> In k (st_cache (state_after c h)))
  /\ st_local (state_after c (h ++ [x])) = None.
Proof.
  intros Ha. destruct (args_step_stores_nothing c h x Ha) as (H0 & H1 & H2). split; [|split; assumption].
  rewrite reports_nth. intros [= E]. contradiction.
Qed.

Lemma refuted_by_rename :
  ~ (forall c h n x, nth_error h n = Some x -> reuse_sound_pos c h n x /\ outcome_fresh_pos c h n x).
Proof.
  intros H. destruct (H false w_rename 1 _ eq_refl) as [_ (r & Hr & Hp)].
  vm_compute in Hr. injection Hr as <-. vm_compute in Hp. discriminate.
Qed.

(* ---------------------------------------------------------------------------------------------- *)
(* the build cache: what the directory cache holds of the test binary was built, by running the build
   command, in an earlier invocation of this history from the same rule and sources; so a FETCHED binary
   (target state Cached, the path on which needToRun consults the result cache instead of the results
   file) is always one that this history built *)

Definition pre_state (c : bool) (pre : list step) (x : step) : tstate :=
  if s_rm x then rm_plz_out (state_after c pre) else state_after c pre.

Definition built_by (c : bool) (pre : list step) (b : list str) : Prop :=
  exists pre1 y post1, pre = pre1 ++ y :: post1 /\ builds c (pre_state c pre1 y) (s_def y) = true
                       /\ t_build (s_def y) = b.

Lemma built_by_snoc c pre x b : built_by c pre b -> built_by c (pre ++ [x]) b.
Proof.
  intros (pre1 & y & post1 & -> & Hb & Hk).
  exists pre1, y, (post1 ++ [x]); rewrite <- app_assoc; auto.
Qed.

Lemma do_step_builds c st x :
  st_builds (fst (do_step c st x)) = builds_after c (if s_rm x then rm_plz_out st else st) (s_def x).
Proof.
  unfold do_step, test_step. destruct (negb _); cbn [fst st_builds]; [reflexivity|].
  destruct (outcome_args (s_def x) (s_args x)); reflexivity.
Qed.

Lemma rm_builds st (b : bool) : st_builds (if b then rm_plz_out st else st) = st_builds st.
Proof. destruct b; reflexivity. Qed.

Lemma bkey_eqb_eq a b : bkey_eqb a b = true -> a = b.
Proof.
  unfold bkey_eqb. destruct (list_eqb_spec str_eqb str_eqb_reflect a b) as [->|Hne]; [reflexivity | discriminate].
Qed.

Lemma builds_inv c pre : forall b, In b (st_builds (state_after c pre)) -> built_by c pre b.
Proof.
  induction pre as [|x pre IH] using rev_ind; [intros b []|].
  intros b. rewrite state_after_snoc, do_step_builds. fold (pre_state c pre x).
  unfold builds_after. destruct (builds c (pre_state c pre x) (s_def x) && c) eqn:Hb.
  - intros [<-|Hin].
    + apply andb_true_iff in Hb. exists pre, x, []; repeat split; tauto.
    + apply built_by_snoc, IH. unfold pre_state in Hin. rewrite rm_builds in Hin. exact Hin.
  - intros Hin. apply built_by_snoc, IH. unfold pre_state in Hin. rewrite rm_builds in Hin. exact Hin.
Qed.

Theorem fetched_only_what_was_built c pre x :
  fetched c (pre_state c pre x) (s_def x) = true -> built_by c pre (t_build (s_def x)).
Proof.
  unfold fetched. rewrite !andb_true_iff. intros [_ Hex].
  apply existsb_exists in Hex. destruct Hex as (b & Hin & Heq). apply bkey_eqb_eq in Heq. subst b.
  apply builds_inv. unfold pre_state in Hin. rewrite rm_builds in Hin. exact Hin.
Qed.

(* the build command never runs twice for one build key while the binary stays in plz-out, and with a
   directory cache never twice at all *)
Theorem built_once_with_cache pre x :
  builds true (pre_state true pre x) (s_def x) = true -> ~ built_by true pre (t_build (s_def x)).
Proof.
  unfold builds, fetched. intros Hb (pre1 & y & post1 & -> & Hy & Hk).
  assert (Hin : In (t_build (s_def x)) (st_builds (state_after true (pre1 ++ y :: post1)))).
  { clear Hb. induction post1 as [|z post1 IH] using rev_ind.
    - replace (pre1 ++ [y]) with (pre1 ++ [y]) by reflexivity.
      rewrite state_after_snoc, do_step_builds. fold (pre_state true pre1 y).
      unfold builds_after. rewrite Hy; cbn [andb]. left; exact Hk.
    - replace (pre1 ++ y :: post1 ++ [z]) with ((pre1 ++ y :: post1) ++ [z]) by (rewrite <- app_assoc; reflexivity).
      rewrite state_after_snoc, do_step_builds. unfold builds_after.
      destruct (_ && _); [right|]; rewrite rm_builds; exact IH. }
  apply andb_true_iff in Hb. destruct Hb as [Hn Hf]. rewrite Hn in Hf. cbn [andb] in Hf.
  apply negb_true_iff in Hf.
  assert (Hex : existsb (bkey_eqb (t_build (s_def x))) (st_builds (pre_state true (pre1 ++ y :: post1) x)) = true).
  { apply existsb_exists. exists (t_build (s_def x)). split.
    - unfold pre_state. rewrite rm_builds. exact Hin.
    - unfold bkey_eqb. destruct (list_eqb_spec str_eqb str_eqb_reflect (t_build (s_def x)) (t_build (s_def x))); congruence. }
  rewrite Hex in Hf. discriminate.
Qed.
