(* C17 - computed examples: the hypotheses of the frame theorem on the states the model's Subinclude produces. *)
From Coq Require Import String.
From PlzV Require Import Base.Harness Model.C16_Syntax Model.C16_Ops Model.C16_Prim Model.C16_Eval Model.C16.
From PlzV Require Import Proof.C17 Proof.C17_Inv Proof.C17_Main Proof.C17_NoConst Proof.C17_Iso.
Local Open Scope list_scope.
Local Open Scope Z_scope.

(* the interpreter state after a first package that only subincludes the build_defs file d *)
Definition state_after (d : prog) : state := snd (run_builds Asp [(lbl, d)] FUEL [[sub]] empty_state).
(* the frozen globals the subinclude cached *)
Definition exports_of (st : state) : env := match subcache st with (_, g) :: _ => g | [] => [] end.

(* build_defs:  FLAT = [3, 1, 2]; D = {"k": [1, 2]}; def inc(x): return x + 1 *)
Definition d_lib : prog :=
  d_flat ++ [SDef (s "inc") [(s "x", None)] [SReturn (Some (Ex (XIdent (s "x")) [OBin Add (XInt 1)] None))]].
(* the attacks of x1 without its last statement (al = FLAT, +, +=, the dict member), then
   m = map(inc, al + [4]); e = al + []; e[0] = 7; so = sorted(e) *)
Definition xa : prog :=
  removelast x1 ++
        [SAssign (s "m") (Ex (XCall (s "map") [(None, id_ "inc"); (None, Ex (XIdent (s "al")) [OBin Add (ints [4])] None)]) [] None);
         SAssign (s "e") (Ex (XIdent (s "al")) [OBin Add (XList [])] None);
         SIdxAssign (s "e") (lit 0) (lit 7);
         SAssign (s "so") (Ex (XCall (s "sorted") [(None, id_ "e")]) [] None)].
Definition xb : prog := x2 ++ [SAssign (s "i") (Ex (XCall (s "inc") [(None, lit 1)]) [] None)].

Lemma frozen_examples :
  frozen_stateb [(lbl, d_lib)] [] [0%nat] (state_after d_lib) = true
  /\ forallb (fun p => sok_p (cls_prefix (length (arrays (state_after d_lib))) []) (cls_prefix (length (dicts (state_after d_lib))) [0%nat])
                         (fun _ => false) (consts (state_after d_lib)) p) [xa; xb] = true
  /\ forallb (fun kv => closedb 64%nat (state_after d_lib) (length (arrays (state_after d_lib))) (length (dicts (state_after d_lib)))
                          (length (funcs (state_after d_lib))) (snd kv)) (exports_of (state_after d_lib)) = true
  /\ forallb no_const [xa; xb] = true
  /\ length (exports_of (state_after d_lib)) = 3%nat
  /\ no_interference FUEL [(lbl, d_lib)] xa xb = true
  /\ rest_invb [(lbl, d_lib)] (Dead4 [] [0%nat] [] []) (state_after d_lib) = true
  /\ frozen_stateb [(lbl, d_nested)] [] [] (state_after d_nested) = false
  /\ frozen_stateb [(lbl, d_mk)] [] [] (state_after d_mk) = false
  /\ frozen_stateb [(lbl, d_dflt)] [] [] (state_after d_dflt) = false.
Proof. vm_compute. repeat split. Qed.

(* the attacking package really ran to its end in the model (so the example is not an early failure) *)
Lemma attacker_runs :
  match run Asp [(lbl, d_lib)] FUEL [xa; xb] with
  | [OGlobals a _; OGlobals b _] =>
      assoc_get (s "e") a = Some (OList false 0%nat [OInt 7; OInt 1; OInt 2])
      /\ assoc_get (s "m") a = Some (OList false 0%nat [OInt 4; OInt 2; OInt 3; OInt 5])
      /\ assoc_get (s "so") a = Some (OList false 0%nat [OInt 1; OInt 2; OInt 7])
      /\ assoc_get (s "seen") b = Some (OList true 0%nat [OInt 3; OInt 1; OInt 2])
  | _ => False
  end.
Proof. vm_compute. repeat split. Qed.
