(* C17 - packages cannot observe or mutate each other's values: the property on whole interpreter runs, the
   refuting witnesses, the regression examples of the two classes repaired in /repo 7aeabfa, and what the
   primitives guarantee for all heaps.  The whole-program frame theorem is in Proof/C17_Main.v. *)
From Coq Require Import String Lia.
From PlzV Require Import Base.Harness Gen.C17Freeze Model.C16_Syntax Model.C16_Ops Model.C16_Prim Model.C16_Eval Model.C16.
Local Open Scope list_scope.
Local Open Scope Z_scope.

(* the shapes of src/parse/asp/objects.go the model was written from are still the ones in /repo (regenerated) *)
Lemma gen_pins : list_add_allocates = true /\ freeze_list_is_shallow = true /\ freeze_dict_copies = true /\ frozen_index_assign_panics = true.
Proof. repeat split. Qed.

Definition lit (z : Z) : expr := Ex (XInt z) [] None.
Definition ints (l : list Z) : vexpr := XList (map lit l).

(* ---- the property on one interpreter: package P2 parsed alone, and after package P1 ---- *)
Definition after_of (o : outcome) : option (list (str * obs)) := match o with OGlobals a _ => Some a | _ => None end.
Definition final_of (o : outcome) : option (list (str * obs)) := match o with OGlobals _ f => Some f | _ => None end.

Definition globals_eqb (a b : option (list (str * obs))) : bool :=
  match a, b with
  | Some x, Some y => kvobs_eqb obs_eqb x y
  | None, None => true
  | _, _ => false
  end.

(* executable: P2's globals are the same alone and after P1, and what P1 produced is not changed by P2 running later *)
Definition no_interference (fuel : nat) (defs : list (str * prog)) (p1 p2 : prog) : bool :=
  match run Asp defs fuel [p1; p2], run Asp defs fuel [p2] with
  | [o1; o2], [o2'] =>
      match o1, o2, o2' with
      | (OErr | OGlobals _ _), (OErr | OGlobals _ _), (OErr | OGlobals _ _) =>
          globals_eqb (after_of o2) (after_of o2') && globals_eqb (after_of o1) (final_of o1)
      | _, _, _ => true        (* the model refused one of the runs: no claim *)
      end
  | _, _ => true
  end.

(* ---- witnesses ---- *)
Definition lbl : str := s "//defs:d".
Definition sub : stmt := SCall (s "subinclude") [(None, Ex (XStr lbl) [] None)].
Definition id_ (n : string) : expr := Ex (XIdent (s n)) [] None.

(* build_defs:  NESTED = [[1, 2], [3]] *)
Definition d_nested : prog := [SAssign (s "NESTED") (Ex (XList [Ex (ints [1; 2]) [] None; Ex (ints [3]) [] None]) [] None)].
(* package u1:  inner = NESTED[0]; inner[0] = 99          package u2:  seen = NESTED *)
Definition u1 : prog := [sub; SAssign (s "inner") (Ex (XIndex (XIdent (s "NESTED")) (lit 0)) [] None); SIdxAssign (s "inner") (lit 0) (lit 99)].
Definition u2 : prog := [sub; SAssign (s "seen") (id_ "NESTED")].

Lemma nested_interferes : no_interference FUEL [(lbl, d_nested)] u1 u2 = false.
Proof. vm_compute. reflexivity. Qed.

Lemma nested_seen :
  match asp_run [(lbl, d_nested)] [u1; u2] with
  | [_; OGlobals after _] => assoc_get (s "seen") after = Some (OList true 0 [OList false 0 [OInt 99; OInt 2]; OList false 0 [OInt 3]])
  | _ => False
  end.
Proof. vm_compute. reflexivity. Qed.

(* build_defs:  FILT = [x for x in [1, 2, 3] if x < 3]      packages:  a = FILT + [9]   /   b = FILT + [8]
   the second package overwrites the cell the first package's result ends in *)
Definition d_filt : prog :=
  [SAssign (s "FILT") (Ex (XComp (id_ "x") [s "x"] (Ex (ints [1; 2; 3]) [] None) (Some (Ex (XIdent (s "x")) [OBin C16_Syntax.Lt (XInt 3)] None))) [] None)].
Definition v1 : prog := [sub; SAssign (s "a") (Ex (XIdent (s "FILT")) [OBin Add (ints [9])] None)].
Definition v2 : prog := [sub; SAssign (s "b") (Ex (XIdent (s "FILT")) [OBin Add (ints [8])] None)].

(* repaired in /repo 7aeabfa (list + always allocates): no interference any more *)
Lemma spare_capacity_fixed : no_interference FUEL [(lbl, d_filt)] v1 v2 = true.
Proof. vm_compute. reflexivity. Qed.

(* build_defs:  FLAT = [3, 1, 2]      package:  x = FLAT + []; x[0] = 99      (before 7aeabfa x WAS the exported list) *)
Definition d_plain : prog := [SAssign (s "FLAT") (Ex (ints [3; 1; 2]) [] None)].
Definition y1 : prog := [sub; SAssign (s "x") (Ex (XIdent (s "FLAT")) [OBin Add (XList [])] None); SIdxAssign (s "x") (lit 0) (lit 99)].
Definition y2 : prog := [sub; SAssign (s "seen") (id_ "FLAT")].

Lemma plus_empty_fixed : no_interference FUEL [(lbl, d_plain)] y1 y2 = true.
Proof. vm_compute. reflexivity. Qed.

(* build_defs:  def dflt(q=[7, 8]): return q      packages:  q = dflt(); q[0] = 9   /   q2 = dflt() *)
Definition d_dflt : prog := [SDef (s "dflt") [(s "q", Some (Ex (ints [7; 8]) [] None))] [SReturn (Some (id_ "q"))]].
Definition z1 : prog := [sub; SAssign (s "q") (Ex (XCall (s "dflt") []) [] None); SIdxAssign (s "q") (lit 0) (lit 9)].
Definition z2 : prog := [sub; SAssign (s "q2") (Ex (XCall (s "dflt") []) [] None)].

Lemma default_interferes : no_interference FUEL [(lbl, d_dflt)] z1 z2 = false.
Proof. vm_compute. reflexivity. Qed.

(* build_defs:  def mk(): return [1, 2, 3]      packages:  m = mk(); m[0] = 9   /   m2 = mk() *)
Definition d_mk : prog := [SDef (s "mk") [] [SReturn (Some (Ex (ints [1; 2; 3]) [] None))]].
Definition w1 : prog := [sub; SAssign (s "m") (Ex (XCall (s "mk") []) [] None); SIdxAssign (s "m") (lit 0) (lit 9)].
Definition w2 : prog := [sub; SAssign (s "m2") (Ex (XCall (s "mk") []) [] None)].

Lemma constant_interferes : no_interference FUEL [(lbl, d_mk)] w1 w2 = false.
Proof. vm_compute. reflexivity. Qed.

(* a flat exported list, attacked directly, by alias, through sorted/reversed, + and +=: no interference *)
Definition d_flat : prog := [SAssign (s "FLAT") (Ex (ints [3; 1; 2]) [] None); SAssign (s "D") (Ex (XDict [(Ex (XStr (s "k")) [] None, Ex (ints [1; 2]) [] None)]) [] None)].
Definition x1 : prog :=
  [sub; SAssign (s "al") (id_ "FLAT"); SAssign (s "p") (Ex (XIdent (s "FLAT")) [OBin Add (ints [4])] None);
   SAug (s "FLAT") (Ex (ints [5]) [] None); SAssign (s "k") (Ex (XIndex (XIdent (s "D")) (Ex (XStr (s "k")) [] None)) [] None);
   SAssign (s "q") (Ex (XIdent (s "k")) [OBin Add (ints [7])] None); SIdxAssign (s "al") (lit 0) (lit 9)].
Definition x2 : prog := [sub; SAssign (s "seen") (id_ "FLAT"); SAssign (s "seend") (id_ "D")].

Lemma flat_does_not_interfere : no_interference FUEL [(lbl, d_flat)] x1 x2 = true.
Proof. vm_compute. reflexivity. Qed.

(* ---- what Freeze does guarantee: all heaps, all values ---- *)

(* index assignment through a frozen wrapper always fails *)
Theorem frozen_index_assign_fails : forall st idx v,
  (forall sl, vindex_assign Asp st (VFrozenList sl) idx v = Err EType)
  /\ (forall i, vindex_assign Asp st (VFrozenDict i) idx v = Err EType).
Proof. intros. split; intros; reflexivity. Qed.

(* pyList.Freeze is SHALLOW: the wrapper goes around the original slice, the elements are left as they are *)
Theorem freeze_list_shallow : forall fuel sl st, freeze (S fuel) (VList sl) st = Ok (VFrozenList sl, st).
Proof. reflexivity. Qed.

Lemma nth_list_set_eq : forall {A} (l : list A) i x dflt, (i < length l)%nat -> nth i (list_set i x l) dflt = x.
Proof. induction l as [|y r IH]; intros [|i] x dflt H; cbn in *; try lia; auto. apply IH. lia. Qed.

Lemma nth_list_set_neq : forall {A} (l : list A) i j x dflt, i <> j -> nth j (list_set i x l) dflt = nth j l dflt.
Proof.
  induction l as [|y r IH]; intros [|i] [|j] x dflt H; cbn; try reflexivity; try contradiction.
  apply IH. congruence.
Qed.

Lemma list_set_same : forall {A} (l : list A) i dflt, list_set i (nth i l dflt) l = l.
Proof. induction l as [|y r IH]; intros [|i] dflt; cbn; try reflexivity. now rewrite IH. Qed.

(* a write to one array leaves every other array alone, and writes to different arrays commute: the heap steps
   of two packages that touch different arrays can be interleaved in any order *)
Theorem arr_write_other : forall a off xs st b, a <> b -> arr_of (arr_write a off xs st) b = arr_of st b.
Proof. intros. unfold arr_write, arr_of. cbn [arrays set_arrays]. now apply nth_list_set_neq. Qed.

Lemma list_set_commute : forall {A} (l : list A) i j x y, i <> j -> list_set i x (list_set j y l) = list_set j y (list_set i x l).
Proof.
  induction l as [|z r IH]; intros [|i] [|j] x y H; cbn; try reflexivity; try contradiction.
  f_equal. apply IH. congruence.
Qed.

Theorem arr_write_commute : forall a1 o1 xs1 a2 o2 xs2 st, a1 <> a2 ->
  arrays (arr_write a1 o1 xs1 (arr_write a2 o2 xs2 st)) = arrays (arr_write a2 o2 xs2 (arr_write a1 o1 xs1 st)).
Proof.
  intros. unfold arr_write. cbn [arrays set_arrays]. unfold arr_of. cbn [arrays set_arrays].
  rewrite (nth_list_set_neq (arrays st) a2 a1) by congruence.
  rewrite (nth_list_set_neq (arrays st) a1 a2) by congruence.
  now apply list_set_commute.
Qed.

(* a frozen list is read-only for every operation a package can apply to it: index assignment fails, and + (the
   only other operation that takes it as the operand written to) allocates its result and writes no existing array *)
Theorem frozen_list_is_readonly : forall st sl,
  (forall idx v, vindex_assign Asp st (VFrozenList sl) idx v = Err EType)
  /\ (forall items2, let '(r, st') := list_add Asp sl items2 st in
        s_arr r = length (arrays st) /\ forall a, (a < length (arrays st))%nat -> arr_of st' a = arr_of st a).
Proof.
  intros st sl. split; [reflexivity|]. intros items2. unfold list_add, alloc_list. cbn [s_arr]. split; [reflexivity|].
  intros a Ha. unfold arr_of. cbn [arrays set_arrays]. now rewrite app_nth1.
Qed.
