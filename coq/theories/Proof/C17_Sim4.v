(* C17 - parametricity of the evaluator in the ids it allocates, part 4: expressions (eval_expr, eval_vexpr)
   for one more unit of fuel. *)
From Coq Require Import String Lia.
From PlzV Require Import Base.Harness Base.StrFacts Gen.AspTables Model.C16_Syntax Model.C16_Ops Model.C16_Prim Model.C16_Eval.
From PlzV Require Import Proof.C17_Inv Proof.C17_Ops Proof.C17_Scopes Proof.C17_Sim1 Proof.C17_Sim2 Proof.C17_Sim3.
Local Open Scope list_scope.
Local Open Scope nat_scope.

#[local] Arguments chain : simpl never.
#[local] Arguments is_const : simpl never.
#[local] Arguments const_alloc : simpl never.
#[local] Arguments native : simpl never.
#[local] Arguments native_method : simpl never.
#[local] Arguments native_sig : simpl never.
#[local] Arguments method_sig : simpl never.
#[local] Arguments validate : simpl never.
#[local] Arguments apply_bin : simpl never.
#[local] Arguments vindex : simpl never.
#[local] Arguments vslice : simpl never.
#[local] Arguments vindex_assign : simpl never.
#[local] Arguments unpack_names : simpl never.
#[local] Arguments iter_items : simpl never.
#[local] Arguments new_list : simpl never.
#[local] Arguments alloc_list : simpl never.
#[local] Arguments alloc_dict : simpl never.
#[local] Arguments lookup : simpl never.
#[local] Arguments set_var : simpl never.
#[local] Arguments truthy : simpl never.
#[local] Arguments strict_list : simpl never.
#[local] Arguments str_eqb : simpl never.
#[local] Arguments existsb : simpl never.
#[local] Arguments assoc_get : simpl never.
#[local] Arguments find_def : simpl never.
#[local] Arguments opt_stmts : simpl never.
#[local] Arguments drop_pass : simpl never.
#[local] Arguments freeze_env : simpl never.
#[local] Arguments mapM : simpl never.
#[local] Arguments mapR : simpl never.
#[local] Arguments rbind : simpl never.
#[local] Arguments s : simpl never.
#[local] Arguments str_methods : simpl never.
#[local] Arguments dict_methods : simpl never.
#[local] Arguments Nat.ltb : simpl never.
#[local] Arguments Nat.leb : simpl never.
#[local] Arguments nth : simpl never.
#[local] Arguments fold_left : simpl never.
#[local] Arguments combine : simpl never.
#[local] Arguments map : simpl never.
#[local] Arguments length : simpl never.
#[local] Arguments env_get : simpl never.
#[local] Arguments tl : simpl never.
#[local] Arguments C17_Sim1.rn_env : simpl never.
#[local] Arguments C17_Sim1.rn_slice : simpl never.
#[local] Arguments C17_Sim1.rn_func : simpl never.
#[local] Arguments C17_Sim1.rsim : simpl never.
#[local] Arguments sh : simpl never.

Lemma map_tl : forall {A B} (f : A -> B) l, tl (map f l) = map f (tl l).
Proof. intros A B f l. destruct l; reflexivity. Qed.

Section Sim4.
Variable W : shift.
Variable defs : list (str * prog).
Notation rn := (C17_Sim1.rn W).
Notation rn_env := (C17_Sim1.rn_env W).
Notation rn_kv := (C17_Sim1.rn_kv W).
Notation sim := (C17_Sim1.sim W defs).
Notation rsim := (C17_Sim1.rsim W defs).
Notation vR := (C17_Sim1.vR W).
Notation shd := (C17_Sim1.shd W).
Notation shf := (C17_Sim1.shf W).

Definition rn_sres (r : sres) : sres := match r with RRet v => RRet (rn v) | _ => r end.
Definition sR : sres -> sres -> Prop := fun r r' => r' = rn_sres r.

(* the specifications of the six mutually recursive functions of the evaluator, for one amount of fuel *)
Definition E_sim (f : nat) : Prop :=
  forall e st st', sim st st' -> rsim vR (eval_expr Asp defs f e st) (eval_expr Asp defs f e st').
Definition V_sim (f : nat) : Prop :=
  forall x st st', sim st st' -> rsim vR (eval_vexpr Asp defs f x st) (eval_vexpr Asp defs f x st').
Definition C_sim (f : nat) : Prop :=
  forall fn name args st st', sim st st' -> rsim vR (call_value Asp defs f fn name args st) (call_value Asp defs f (rn fn) name args st').
Definition R_sim (f : nat) : Prop :=
  forall id bound st st', sim st st' -> rsim vR (run_func Asp defs f id bound st) (run_func Asp defs f (shf id) (rn_env bound) st').
Definition B_sim (f : nat) : Prop :=
  forall ss st st', sim st st' -> rsim sR (exec_block Asp defs f ss st) (exec_block Asp defs f ss st').
Definition S_sim (f : nat) : Prop :=
  forall s0 st st', sim st st' -> rsim sR (exec_stmt Asp defs f s0 st) (exec_stmt Asp defs f s0 st').

Lemma ret_val : forall v st st', sim st st' -> rsim vR (Ok (v, st)) (Ok (rn v, st')).
Proof. intros. split; [reflexivity|assumption]. Qed.

Lemma step_E : forall f, E_sim f -> V_sim f -> E_sim (S f).
Proof.
  intros f IHE IHV e st st' HS. destruct e as [v ops iff]. simpl.
  assert (Hmain : forall s0 s0', sim s0 s0' ->
            rsim vR
              (rbind (eval_vexpr Asp defs f v s0)
                 (fun '(obj, st1) => match ops with [] => Ok (obj, st1) | _ :: _ => chain Asp (eval_vexpr Asp defs f) f obj ops st1 end))
              (rbind (eval_vexpr Asp defs f v s0')
                 (fun '(obj, st1) => match ops with [] => Ok (obj, st1) | _ :: _ => chain Asp (eval_vexpr Asp defs f) f obj ops st1 end))).
  { intros s0 s0' H0. eapply rsim_bind; [apply IHV; exact H0|].
    intros obj s1 obj' s1' Ho H1. cbv beta match. rsubst. destruct ops as [|i0 rest]; [apply ret_val; exact H1|].
    apply chain_sim; [|exact H1]. intros o x _ a b Hab. apply IHV. exact Hab. }
  destruct iff as [[c e2]|]; [|apply Hmain; exact HS].
  eapply rsim_bind; [apply IHE; exact HS|]. intros cv s1 cv' s1' Hcv H1. cbv beta match. rsubst.
  rewrite (truthy_sim _ _ _ _ H1). destruct (truthy Asp s1 cv); [apply Hmain; exact H1|apply IHE; exact H1].
Qed.

(* the loop of a comprehension *)
Lemma comp_loop_sim : forall f names (cond : option expr) (e : expr), E_sim f ->
  forall l acc st st', sim st st' ->
  rsim (fun out out' => out' = map rn out)
    ((fix go (l : list value) (acc : list value) (st0 : state) : res (list value * state) :=
        match l with
        | [] => Ok (rev acc, st0)
        | li :: r =>
            rbind (unpack_names Asp names li st0) (fun st' =>
            rbind (match cond with
                   | None => Ok (true, st')
                   | Some c => rbind (eval_expr Asp defs f c st') (fun '(cv, sx) => Ok (truthy Asp sx cv, sx))
                   end) (fun '(keep, st'') =>
            if keep then rbind (eval_expr Asp defs f e st'') (fun '(v, sy) => go r (v :: acc) sy)
            else go r acc st''))
        end) l acc st)
    ((fix go (l : list value) (acc : list value) (st0 : state) : res (list value * state) :=
        match l with
        | [] => Ok (rev acc, st0)
        | li :: r =>
            rbind (unpack_names Asp names li st0) (fun st' =>
            rbind (match cond with
                   | None => Ok (true, st')
                   | Some c => rbind (eval_expr Asp defs f c st') (fun '(cv, sx) => Ok (truthy Asp sx cv, sx))
                   end) (fun '(keep, st'') =>
            if keep then rbind (eval_expr Asp defs f e st'') (fun '(v, sy) => go r (v :: acc) sy)
            else go r acc st''))
        end) (map rn l) (map rn acc) st').
Proof.
  intros f names cond e IHE. induction l as [|li r IH]; intros acc st st' HS; cbn [map].
  - split; [symmetry; apply map_rev|exact HS].
  - eapply rsim_bind_state; [apply unpack_names_sim; exact HS|]. intros s1 s1' H1.
    eapply (rsim_bind W defs (fun b b' : bool => b' = b)).
    + destruct cond as [c|]; [|split; [reflexivity|exact H1]].
      eapply rsim_bind; [apply IHE; exact H1|]. intros cv sx cv' sx' Hcv Hx. cbv beta match. rsubst.
      rewrite (truthy_sim _ _ _ _ Hx). split; [reflexivity|exact Hx].
    + intros keep s2 keep' s2' Hk H2. cbv beta match. subst keep'. destruct keep; [|apply IH; exact H2].
      eapply rsim_bind; [apply IHE; exact H2|]. intros v sy v' sy' Hv Hy. cbv beta match. rsubst.
      apply (IH (v :: acc)). exact Hy.
Qed.

(* the positional arguments of a method call *)
Lemma meth_args_sim : forall f, E_sim f ->
  forall (sg0 : list (str * N * option value)) (l : list expr) st st', closed_sig W sg0 -> sim st st' ->
  rsim (fun vs vs' => vs' = map rn vs)
    ((fix go (l : list expr) (sg0 : list (str * N * option value)) (st0 : state) : res (list value * state) :=
        match sg0 with
        | [] => Ok ([], st0)
        | (_, t, def) :: sr =>
            match l with
            | e :: r => rbind (eval_expr Asp defs f e st0) (fun '(v, st') => rbind (validate t def v) (fun v' =>
                        rbind (go r sr st') (fun '(vs, st'') => Ok (v' :: vs, st''))))
            | [] => match def with
                    | Some dv => rbind (go [] sr st0) (fun '(vs, st'') => Ok (dv :: vs, st''))
                    | None => Err EType
                    end
            end
        end) l sg0 st)
    ((fix go (l : list expr) (sg0 : list (str * N * option value)) (st0 : state) : res (list value * state) :=
        match sg0 with
        | [] => Ok ([], st0)
        | (_, t, def) :: sr =>
            match l with
            | e :: r => rbind (eval_expr Asp defs f e st0) (fun '(v, st') => rbind (validate t def v) (fun v' =>
                        rbind (go r sr st') (fun '(vs, st'') => Ok (v' :: vs, st''))))
            | [] => match def with
                    | Some dv => rbind (go [] sr st0) (fun '(vs, st'') => Ok (dv :: vs, st''))
                    | None => Err EType
                    end
            end
        end) l sg0 st').
Proof.
  intros f IHE. induction sg0 as [|[[a t] def] sr IH]; intros l st st' Hsg HS.
  - split; [reflexivity|exact HS].
  - inversion Hsg as [|? ? Hd Hsr]; subst. cbn [snd] in Hd. destruct l as [|e r].
    + destruct def as [dv|]; [|reflexivity].
      eapply rsim_bind; [apply IH; [exact Hsr|exact HS]|]. intros vs s2 vs' s2' Hvs H2. cbv beta match. rsubst.
      split; [|exact H2]. cbv beta. rewrite <- (Hd dv eq_refl) at 1. reflexivity.
    + eapply rsim_bind; [apply IHE; exact HS|]. intros v s1 v' s1' Hv H1. cbv beta match. rsubst.
      rewrite (validate_rn W t def v Hd). apply rsim_pure. intros v' Hv'.
      eapply rsim_bind; [apply IH; [exact Hsr|exact H1]|]. intros vs s2 vs' s2' Hvs H2. cbv beta match. rsubst.
      split; [reflexivity|exact H2].
Qed.

Lemma step_V : forall f, E_sim f -> V_sim f -> C_sim f -> V_sim (S f).
Proof.
  intros f IHE IHV IHC x st st' HS. destruct x; simpl.
  - (* XInt *) apply (ret_val (VInt z)). exact HS.
  - apply (ret_val (VStr s)). exact HS.
  - apply (ret_val (VBool true)). exact HS.
  - apply (ret_val (VBool false)). exact HS.
  - apply (ret_val VNone). exact HS.
  - (* XList *)
    eapply rsim_bind.
    + apply (mapM_sim_same W defs rn); [|exact HS]. intros e _ s0 s0' H0. apply IHE. exact H0.
    + intros vs s1 vs' s1' Hvs H1. cbv beta match. rsubst. apply new_list_sim. exact H1.
  - (* XComp *)
    eapply rsim_bind; [apply IHE; exact HS|]. intros itv s1 itv' s1' Hitv H1. cbv beta match. rsubst.
    rewrite (iter_items_sim _ _ _ _ H1). apply rsim_pure. intros items Hit.
    assert (Hh : forall (v : value) (l : list value),
              match rn v with VRange a b c => range_len a b c | _ => Z.of_nat (length (map rn l)) end =
              match v with VRange a b c => range_len a b c | _ => Z.of_nat (length l) end).
    { intros v l. rewrite map_length. destruct v; reflexivity. }
    rewrite !Hh. clear Hh.
    match goal with |- rsim _ (if ?c then _ else _) (if ?c then _ else _) => destruct c end; [reflexivity|].
    eapply rsim_bind.
    + rewrite (sm_loc _ _ _ _ H1). apply (comp_loop_sim f names cond e IHE items []).
      apply (set_locals_sim W defs _ _ ([] :: locals s1)). exact H1.
    + intros out s3 out' s3' Hout H3. cbv beta match. rsubst. rewrite map_length.
      match goal with |- rsim _ (if ?c then _ else _) (if ?c then _ else _) => destruct c end; [reflexivity|].
      rewrite (sm_loc _ _ _ _ H3), map_tl.
      match goal with |- rsim _ (Ok (VList {| s_arr := _; s_off := _; s_len := _; s_cap := Nat.max ?c _ |}, _)) _ =>
        pose proof (alloc_list_rsim W defs out c _ _ (set_locals_sim W defs _ _ (tl (locals s3)) H3)) as Ha end.
      unfold alloc_list in Ha. rewrite map_length in Ha. exact Ha.
  - (* XDict *)
    eapply rsim_bind.
    + apply (mapM_sim_same W defs rn_kv); [|exact HS]. intros [k v] _ s0 s0' H0. cbn [fst snd].
      eapply rsim_bind; [apply IHE; exact H0|]. intros kv s1 kv' s1' Hk H1. cbv beta match. rsubst.
      eapply rsim_bind; [apply IHE; exact H1|]. intros vv s2 vv' s2' Hv H2. cbv beta match. rsubst.
      destruct kv; cbn [C17_Sim1.rn]; try reflexivity. split; [reflexivity|exact H2].
    + intros pairs s1 pairs' s1' Hp H1. cbv beta match. rsubst.
      assert (Hf : fold_left (fun acc kv => env_set (fst kv) (snd kv) acc) (map rn_kv pairs) [] =
                   rn_env (fold_left (fun acc kv => env_set (fst kv) (snd kv) acc) pairs [])) by (exact (rn_fold_env_set W pairs [])).
      rewrite Hf.
      apply alloc_dict_rsim. exact H1.
  - (* XParen *) apply IHE. exact HS.
  - (* XIdent *)
    rewrite (lookup_sim _ _ _ _ HS). destruct (lookup n st); cbn [option_map]; [apply ret_val; exact HS|reflexivity].
  - (* XCall *)
    rewrite (lookup_sim _ _ _ _ HS). destruct (lookup n st); cbn [option_map]; [apply IHC; exact HS|reflexivity].
  - (* XMeth *)
    eapply rsim_bind; [apply IHV; exact HS|]. intros obj s1 obj' s1' Ho H1. cbv beta match. rsubst.
    assert (Hcall : forall table,
      rsim vR
        (if existsb (str_eqb m) table then
           match method_sig m with
           | None => Err EUnsupported
           | Some sg =>
               if Nat.ltb (length sg) (S (length args)) then Err EType else
               rbind ((fix go (l : list expr) (sg0 : list (str * N * option value)) (st0 : state) : res (list value * state) :=
                         match sg0 with
                         | [] => Ok ([], st0)
                         | (_, t, def) :: sr =>
                             match l with
                             | e :: r => rbind (eval_expr Asp defs f e st0) (fun '(v, st') => rbind (validate t def v) (fun v' =>
                                         rbind (go r sr st') (fun '(vs, st'') => Ok (v' :: vs, st''))))
                             | [] => match def with
                                     | Some dv => rbind (go [] sr st0) (fun '(vs, st'') => Ok (dv :: vs, st''))
                                     | None => Err EType
                                     end
                             end
                         end) args (tl sg) s1)
                     (fun '(vals, st2) => native_method Asp f m (obj :: vals) st2)
           end
         else if existsb (str_eqb m) (str_methods ++ dict_methods) then Err EType else Err EUnsupported)
        (if existsb (str_eqb m) table then
           match method_sig m with
           | None => Err EUnsupported
           | Some sg =>
               if Nat.ltb (length sg) (S (length args)) then Err EType else
               rbind ((fix go (l : list expr) (sg0 : list (str * N * option value)) (st0 : state) : res (list value * state) :=
                         match sg0 with
                         | [] => Ok ([], st0)
                         | (_, t, def) :: sr =>
                             match l with
                             | e :: r => rbind (eval_expr Asp defs f e st0) (fun '(v, st') => rbind (validate t def v) (fun v' =>
                                         rbind (go r sr st') (fun '(vs, st'') => Ok (v' :: vs, st''))))
                             | [] => match def with
                                     | Some dv => rbind (go [] sr st0) (fun '(vs, st'') => Ok (dv :: vs, st''))
                                     | None => Err EType
                                     end
                             end
                         end) args (tl sg) s1')
                     (fun '(vals, st2) => native_method Asp f m (rn obj :: vals) st2)
           end
         else if existsb (str_eqb m) (str_methods ++ dict_methods) then Err EType else Err EUnsupported)).
    { intros table. destruct (existsb (str_eqb m) table); [|destruct (existsb _ _); reflexivity].
      destruct (method_sig m) as [sg|] eqn:Esg; [|reflexivity]. destruct (Nat.ltb _ _); [reflexivity|].
      eapply rsim_bind.
      - apply meth_args_sim; auto. pose proof (method_sig_closed W _ _ Esg) as Hsg.
        destruct sg; [constructor|inversion Hsg; auto].
      - intros vals s2 vals' s2' Hvals H2. cbv beta match. rsubst. apply (native_method_sim W defs f m (obj :: vals)). exact H2. }
    destruct obj; cbn [C17_Sim1.rn]; try reflexivity; try apply Hcall.
    + rewrite (dict_of_sim _ _ _ _ H1), rn_env_get. destruct (env_get m (dict_of s1 id)); cbn [option_map]; [reflexivity|apply Hcall].
    + rewrite (dict_of_sim _ _ _ _ H1), rn_env_get. destruct (env_get m (dict_of s1 id)); cbn [option_map]; [reflexivity|apply Hcall].
  - (* XIndex *)
    eapply rsim_bind; [apply IHV; exact HS|]. intros obj s1 obj' s1' Ho H1. cbv beta match. rsubst.
    eapply rsim_bind; [apply IHE; exact H1|]. intros idx s2 idx' s2' Hi H2. cbv beta match. rsubst.
    rewrite (vindex_sim _ _ _ _ H2). apply rsim_pure. intros v Hv. apply ret_val. exact H2.
  - (* XSlice *)
    eapply rsim_bind; [apply IHV; exact HS|]. intros obj s1 obj' s1' Ho H1. cbv beta match. rsubst.
    assert (Hoe : forall (o : option expr) s0 s0', sim s0 s0' ->
              rsim (fun ov ov' => ov' = option_map rn ov)
                (match o with None => Ok (None, s0) | Some e => rbind (eval_expr Asp defs f e s0) (fun '(v, st') => Ok (Some v, st')) end)
                (match o with None => Ok (None, s0') | Some e => rbind (eval_expr Asp defs f e s0') (fun '(v, st') => Ok (Some v, st')) end)).
    { intros o s0 s0' H0. destruct o as [e|]; [|split; [reflexivity|exact H0]].
      eapply rsim_bind; [apply IHE; exact H0|]. intros v sx v' sx' Hv Hx. cbv beta match. rsubst. split; [reflexivity|exact Hx]. }
    eapply rsim_bind; [apply Hoe; exact H1|]. intros lov s2 lov' s2' Hlo H2. cbv beta match. rsubst.
    eapply rsim_bind; [apply Hoe; exact H2|]. intros hiv s3 hiv' s3' Hhi H3. cbv beta match. rsubst.
    apply vslice_sim. exact H3.
  - (* XConst *)
    rewrite (const_sim _ _ _ _ HS). apply ret_val. exact HS.
Qed.

End Sim4.
