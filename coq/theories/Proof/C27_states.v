(* C27 - proofs about state copies, concurrent completion and flaky retries (Model/C27_states.v). *)
From Coq Require Import String.
From PlzV Require Import Base.Harness Base.StrFacts Model.C27 Proof.C27 Gen.CoverageStates Model.C27_states.
From Coq Require Import Lia Permutation List.

(* ---- ties to the source: proved by computation on the regenerated definitions ---- *)
(* NewBuildState creates both maps of Coverage up front, i.e. before the state can be copied *)
Lemma newstate_creates_both_maps : newstate_init_files = true /\ newstate_init_tests = true.
Proof. split; reflexivity. Qed.

(* every field of TestCoverage is a map, i.e. a reference: a struct copy shares all of it and carries no lock *)
Lemma coverage_is_two_maps : coverage_fields = [("Tests", "map"); ("Files", "map")]%string /\ coverage_by_value = true.
Proof. split; reflexivity. Qed.

(* the lock LogTestResult holds around Aggregate is reached through a pointer: one lock for all copies *)
Lemma lock_is_shared : lock_scope = Shared.
Proof. reflexivity. Qed.

(* doFlakeRun aggregates every attempt into the target's coverage *)
Lemma flake_combine_is_aggregate : flake_combine = CombAggregate.
Proof. reflexivity. Qed.

(* ---- lists: upd i x l replaces the i-th element ---- *)
Lemma upd_length {A} i (x : A) l : length (upd i x l) = length l.
Proof. revert i; induction l as [|y l IH]; intros [|i]; cbn [upd length]; auto. Qed.

Lemma nth_error_upd_same {A} i (x : A) l : i < length l -> nth_error (upd i x l) i = Some x.
Proof. revert i; induction l as [|y l IH]; intros [|i] H; cbn [upd length nth_error] in *; try lia; auto. apply IH; lia. Qed.

Lemma Forall_upd {A} (P : A -> Prop) i x l : Forall P l -> P x -> Forall P (upd i x l).
Proof.
  intros Hl Hx; revert i; induction Hl as [|y l Hy Hl IH]; intros [|i]; cbn [upd]; constructor; auto.
Qed.

Lemma map_upd {A B} (g : A -> B) i x l : map g (upd i x l) = upd i (g x) (map g l).
Proof. revert i; induction l as [|y l IH]; intros [|i]; cbn [upd map]; rewrite ?IH; reflexivity. Qed.

Lemma upd_same {A} i (x : A) l : nth_error l i = Some x -> upd i x l = l.
Proof. revert i; induction l as [|y l IH]; intros [|i] H; cbn [upd nth_error] in *; try discriminate; [congruence|]. rewrite IH; auto. Qed.

Lemma nth_error_upd_other {A} i j (x : A) l : i <> j -> nth_error (upd i x l) j = nth_error l j.
Proof. revert i j; induction l as [|y l IH]; intros [|i] [|j] H; cbn [upd nth_error]; auto; congruence. Qed.

Lemma nth_error_lt {A} (l : list A) i : i < length l -> exists x, nth_error l i = Some x.
Proof. intros H. destruct (nth_error l i) eqn:E; [eauto|]. apply nth_error_None in E. lia. Qed.

Lemma fold_agg_obj_files cs : forall acc,
  snd (fold_left agg_obj cs acc) = fold_left aggregate (map snd cs) (snd acc).
Proof. induction cs as [|c cs IH]; intros acc; cbn [fold_left map]; [reflexivity|]. rewrite IH. reflexivity. Qed.

(* ---- 1. state copies: all copies feed one Files map (and one Tests map) ---- *)
(* the invariant: one Files map on the heap, and every state refers to it *)
Definition files_shared (w : world) (F : files) : Prop :=
  w_files w = [F] /\ Forall (fun c => c_files c = Some 0) (w_states w).

Lemma files_shared_files_of w F st : files_shared w F -> st < length (w_states w) -> files_of st w = F.
Proof.
  intros [HF Hall] Hst. unfold files_of. destruct (nth_error_lt _ _ Hst) as [c Hc]. rewrite Hc.
  rewrite Forall_forall in Hall. specialize (Hall c (nth_error_In _ _ Hc)). destruct c as [t fr]; cbn in Hall; subst fr.
  rewrite HF. reflexivity.
Qed.

(* the world NewBuildState makes *)
Lemma world0_files_shared : files_shared world0 [].
Proof. split; [reflexivity|]. repeat constructor. Qed.

(* Aggregate, run on any state of such a world, does not panic and merges into the one map *)
Lemma log_files_shared w F st cv :
  files_shared w F -> st < length (w_states w) ->
  exists w', exec st cv aggregate_prog w = Some w' /\ files_shared w' (aggregate F (snd cv))
             /\ length (w_states w') = length (w_states w).
Proof.
  intros [HF Hall] Hst. destruct (nth_error_lt _ _ Hst) as [c Hc].
  assert (Hcf : c_files c = Some 0).
  { rewrite Forall_forall in Hall. exact (Hall c (nth_error_In _ _ Hc)). }
  destruct w as [sts th fh]; cbn [w_states w_tests w_files] in *. subst fh.
  destruct c as [tr fr]; cbn [c_files] in Hcf; subst fr.
  change aggregate_prog with [LazyMake "Tests"; LazyMake "Files"; AssignTests; MergeFiles]%string.
  destruct tr as [ta|].
  - (* Tests exists already: the states are left as they are *)
    set (w0 := mkWorld sts th [F]).
    assert (H0 : nth_error (w_states w0) st = Some (mkCover (Some ta) (Some 0))) by exact Hc.
    assert (E1 : exec_stmt st cv (LazyMake "Tests") w0 = Some w0) by (unfold exec_stmt; rewrite H0; reflexivity).
    assert (E2 : exec_stmt st cv (LazyMake "Files") w0 = Some w0) by (unfold exec_stmt; rewrite H0; reflexivity).
    set (w1 := mkWorld sts (upd ta (tset_all (fst cv) (nth ta th [])) th) [F]).
    assert (E3 : exec_stmt st cv AssignTests w0 = Some w1) by (unfold exec_stmt; rewrite H0; reflexivity).
    assert (H1 : nth_error (w_states w1) st = Some (mkCover (Some ta) (Some 0))) by exact Hc.
    assert (E4 : exec_stmt st cv MergeFiles w1 = Some (mkWorld sts (w_tests w1) [aggregate F (snd cv)]))
      by (unfold exec_stmt; rewrite H1; reflexivity).
    cbn [exec]. rewrite E1, E2, E3, E4. eexists; split; [reflexivity|]. repeat split; auto.
  - (* Tests is nil: made now, for this state only *)
    set (w0 := mkWorld sts th [F]).
    assert (H0 : nth_error (w_states w0) st = Some (mkCover None (Some 0))) by exact Hc.
    set (c1 := mkCover (Some (length th)) (Some 0)).
    set (w1 := mkWorld (upd st c1 sts) (th ++ [[]]) [F]).
    assert (E1 : exec_stmt st cv (LazyMake "Tests") w0 = Some w1) by (unfold exec_stmt; rewrite H0; reflexivity).
    assert (H1 : nth_error (w_states w1) st = Some c1) by (apply nth_error_upd_same; exact Hst).
    assert (E2 : exec_stmt st cv (LazyMake "Files") w1 = Some w1) by (unfold exec_stmt; rewrite H1; reflexivity).
    set (w2 := mkWorld (upd st c1 sts) (upd (length th) (tset_all (fst cv) (nth (length th) (th ++ [[]]) [])) (th ++ [[]])) [F]).
    assert (E3 : exec_stmt st cv AssignTests w1 = Some w2) by (unfold exec_stmt; rewrite H1; reflexivity).
    assert (H2 : nth_error (w_states w2) st = Some c1) by (apply nth_error_upd_same; exact Hst).
    assert (E4 : exec_stmt st cv MergeFiles w2 = Some (mkWorld (upd st c1 sts) (w_tests w2) [aggregate F (snd cv)]))
      by (unfold exec_stmt; rewrite H2; reflexivity).
    cbn [exec]. rewrite E1, E2, E3, E4. eexists; split; [reflexivity|]. repeat split; cbn [w_states w_files].
    + apply Forall_upd; auto.
    + apply upd_length.
Qed.

Lemma copy_files_shared w F src :
  files_shared w F -> src < length (w_states w) ->
  exists w', step w (ECopy src) = Some w' /\ files_shared w' F /\ length (w_states w') = S (length (w_states w)).
Proof.
  intros [HF Hall] Hsrc. destruct (nth_error_lt _ _ Hsrc) as [c Hc]. cbn [step]. rewrite Hc.
  eexists; split; [reflexivity|]. repeat split; cbn [w_files w_states]; auto.
  - apply Forall_app; split; auto. constructor; auto. rewrite Forall_forall in Hall. exact (Hall c (nth_error_In _ _ Hc)).
  - rewrite app_length. cbn. lia.
Qed.

(* a history that only refers to states that exist (n = number of states before it) *)
Fixpoint valid (n : nat) (evs : list event) : Prop :=
  match evs with
  | [] => True
  | ECopy src :: r => src < n /\ valid (S n) r
  | ELog st _ :: r => st < n /\ valid n r
  end.

Lemma run_files_shared evs : forall w F,
  files_shared w F -> valid (length (w_states w)) evs ->
  exists w', run evs w = Some w' /\ files_shared w' (fold_left aggregate (map snd (logged evs)) F)
             /\ length (w_states w) <= length (w_states w').
Proof.
  induction evs as [|[src|st cv] evs IH]; intros w F Hsh Hv; cbn [run logged map fold_left valid] in *.
  - eauto.
  - destruct Hv as [Hsrc Hv]. destruct (copy_files_shared w F src Hsh Hsrc) as (w1 & -> & Hsh1 & Hlen).
    rewrite <- Hlen in Hv. destruct (IH w1 F Hsh1 Hv) as (w' & Hr & Hsh' & Hle). exists w'. split; [exact Hr|]. split; [exact Hsh'|lia].
  - destruct Hv as [Hst Hv]. cbn [step]. destruct (log_files_shared w F st cv Hsh Hst) as (w1 & -> & Hsh1 & Hlen).
    rewrite <- Hlen in Hv. destruct (IH w1 _ Hsh1 Hv) as (w' & Hr & Hsh' & Hle). exists w'. split; [exact Hr|]. split; [exact Hsh'|lia].
Qed.

(* Whatever the history - any number of copies of any states, made at any time, runs logged on any of them in
   any order - no step panics and EVERY state reports the monoid fold of all logged runs. *)
Theorem copies_share_files evs :
  valid 1 evs ->
  exists w, run evs world0 = Some w
            /\ forall st, st < length (w_states w) -> files_of st w = aggregate_all (map snd (logged evs)).
Proof.
  intros Hv. destruct (run_files_shared evs world0 [] world0_files_shared Hv) as (w & Hr & Hsh & _).
  exists w. split; [exact Hr|]. intros st Hst. apply (files_shared_files_of w _ st Hsh Hst).
Qed.

(* order independence and best state, lifted to aliased accumulators: two histories that log the same runs
   (in any order, on any states, with any copies in between) agree on every line at every state *)
Theorem copies_order_free evs evs' w w' :
  valid 1 evs -> valid 1 evs' -> Permutation (logged evs) (logged evs') ->
  run evs world0 = Some w -> run evs' world0 = Some w' ->
  forall st st' f, st < length (w_states w) -> st' < length (w_states w') ->
    lookup f (files_of st w) = lookup f (files_of st' w').
Proof.
  intros Hv Hv' Hp Hr Hr' st st' f Hst Hst'.
  destruct (copies_share_files evs Hv) as (w1 & Hr1 & H1). rewrite Hr in Hr1; inversion Hr1; subst w1.
  destruct (copies_share_files evs' Hv') as (w2 & Hr2 & H2). rewrite Hr' in Hr2; inversion Hr2; subst w2.
  rewrite H1, H2 by assumption. apply aggregate_order_free. right. apply Permutation_map. exact Hp.
Qed.

Theorem copies_best evs w st f i :
  valid 1 evs -> run evs world0 = Some w -> st < length (w_states w) ->
  nth i (lookup f (files_of st w)) 0%N = max_over f i (map snd (logged evs)).
Proof.
  intros Hv Hr Hst. destruct (copies_share_files evs Hv) as (w1 & Hr1 & H1). rewrite Hr in Hr1; inversion Hr1; subst w1.
  rewrite H1 by assumption. apply aggregate_best.
Qed.

(* The per-test breakdown is shared in the same way, because NewBuildState creates the Tests map too. *)
Definition tests_shared (w : world) (T : tests) : Prop :=
  w_tests w = [T] /\ Forall (fun c => c_tests c = Some 0) (w_states w).

Lemma world0_tests_shared : tests_shared world0 [].
Proof. split; [reflexivity|]. repeat constructor. Qed.

Lemma log_all_shared w T F st cv :
  tests_shared w T -> files_shared w F -> st < length (w_states w) ->
  exists w', exec st cv aggregate_prog w = Some w' /\ tests_shared w' (tset_all (fst cv) T)
             /\ files_shared w' (aggregate F (snd cv)) /\ length (w_states w') = length (w_states w).
Proof.
  intros [HT HallT] [HF HallF] Hst. destruct (nth_error_lt _ _ Hst) as [c Hc].
  assert (Hcc : c = mkCover (Some 0) (Some 0)).
  { rewrite Forall_forall in HallT, HallF. pose proof (HallT c (nth_error_In _ _ Hc)) as H1.
    pose proof (HallF c (nth_error_In _ _ Hc)) as H2. destruct c; cbn in *; congruence. }
  subst c. destruct w as [sts th fh]; cbn [w_states w_tests w_files] in *. subst th fh.
  change aggregate_prog with [LazyMake "Tests"; LazyMake "Files"; AssignTests; MergeFiles]%string.
  set (w0 := mkWorld sts [T] [F]).
  assert (H0 : nth_error (w_states w0) st = Some (mkCover (Some 0) (Some 0))) by exact Hc.
  assert (E1 : exec_stmt st cv (LazyMake "Tests") w0 = Some w0) by (unfold exec_stmt; rewrite H0; reflexivity).
  assert (E2 : exec_stmt st cv (LazyMake "Files") w0 = Some w0) by (unfold exec_stmt; rewrite H0; reflexivity).
  set (w1 := mkWorld sts [tset_all (fst cv) T] [F]).
  assert (E3 : exec_stmt st cv AssignTests w0 = Some w1) by (unfold exec_stmt; rewrite H0; reflexivity).
  assert (H1 : nth_error (w_states w1) st = Some (mkCover (Some 0) (Some 0))) by exact Hc.
  assert (E4 : exec_stmt st cv MergeFiles w1 = Some (mkWorld sts [tset_all (fst cv) T] [aggregate F (snd cv)]))
    by (unfold exec_stmt; rewrite H1; reflexivity).
  cbn [exec]. rewrite E1, E2, E3, E4. eexists; split; [reflexivity|]. repeat split; auto.
Qed.

Lemma copy_tests_shared w T src c :
  tests_shared w T -> nth_error (w_states w) src = Some c ->
  tests_shared (mkWorld (w_states w ++ [c]) (w_tests w) (w_files w)) T.
Proof.
  intros [HT Hall] Hc. split; [exact HT|]. cbn [w_states]. apply Forall_app; split; auto.
  constructor; auto. rewrite Forall_forall in Hall. exact (Hall c (nth_error_In _ _ Hc)).
Qed.

(* what one accumulator that nobody copies would hold after the runs of a history *)
Definition merged (evs : list event) : covobj := fold_left agg_obj (logged evs) ([], []).

Lemma merged_files evs : snd (merged evs) = aggregate_all (map snd (logged evs)).
Proof. unfold merged, aggregate_all. rewrite fold_agg_obj_files. reflexivity. Qed.

Lemma run_all_shared evs : forall w T F,
  tests_shared w T -> files_shared w F -> valid (length (w_states w)) evs ->
  exists w', run evs w = Some w' /\ tests_shared w' (fst (fold_left agg_obj (logged evs) (T, F)))
             /\ length (w_states w) <= length (w_states w').
Proof.
  induction evs as [|[src|st cv] evs IH]; intros w T F HshT HshF Hv; cbn [run logged fold_left valid] in *.
  - eauto.
  - destruct Hv as [Hsrc Hv]. destruct (nth_error_lt _ _ Hsrc) as [c Hc].
    destruct (copy_files_shared w F src HshF Hsrc) as (w1 & Hs & HshF1 & Hlen). rewrite Hs.
    assert (HshT1 : tests_shared w1 T).
    { cbn [step] in Hs. rewrite Hc in Hs. inversion Hs; subst w1. apply (copy_tests_shared w T src c); assumption. }
    rewrite <- Hlen in Hv. destruct (IH w1 T F HshT1 HshF1 Hv) as (w' & Hr & Hsh' & Hle).
    exists w'. split; [exact Hr|]. split; [exact Hsh'|lia].
  - destruct Hv as [Hst Hv]. cbn [step].
    destruct (log_all_shared w T F st cv HshT HshF Hst) as (w1 & -> & HshT1 & HshF1 & Hlen).
    rewrite <- Hlen in Hv. destruct (IH w1 _ _ HshT1 HshF1 Hv) as (w' & Hr & Hsh' & Hle).
    exists w'. split; [exact Hr|]. split; [exact Hsh'|lia].
Qed.

Lemma tests_shared_tests_of w T st : tests_shared w T -> st < length (w_states w) -> tests_of st w = T.
Proof.
  intros [HT Hall] Hst. unfold tests_of. destruct (nth_error_lt _ _ Hst) as [c Hc]. rewrite Hc.
  rewrite Forall_forall in Hall. specialize (Hall c (nth_error_In _ _ Hc)). destruct c as [tr fr]; cbn in Hall; subst tr.
  rewrite HT. reflexivity.
Qed.

(* every state also reports the per-test breakdown one uncopied accumulator would hold *)
Theorem copies_share_tests evs w :
  valid 1 evs -> run evs world0 = Some w ->
  forall st, st < length (w_states w) -> tests_of st w = fst (merged evs).
Proof.
  intros Hv Hr st Hst.
  destruct (run_all_shared evs world0 [] [] world0_tests_shared world0_files_shared Hv) as (w1 & Hr1 & Hsh & _).
  rewrite Hr in Hr1; inversion Hr1; subst w1. apply (tests_shared_tests_of w _ st Hsh Hst).
Qed.

(* Regression (fixed in /repo by "fix: per-test coverage of subrepo targets was lost"): a constructor that creates
   Files but not Tests.  A state copied before its source's first Aggregate then makes its own Tests map, and
   the test of a subrepo target never shows in the root's per-test breakdown - while with both maps created
   up front it does.  The harness keeps the scenario (class per-test-breakdown-private-to-state-copy). *)
Lemma constructor_without_tests_map_splits_the_breakdown :
  let cv := ([(s "///sub//p:t", [(s "a.go", [3%N])])], [(s "a.go", [3%N])]) in
  option_map (tests_of 0) (run [ECopy 0; ELog 1 cv] (new_state false true)) = Some []
  /\ option_map (tests_of 0) (run [ECopy 0; ELog 1 cv] (new_state true true)) = Some (fst cv)
  /\ option_map (tests_of 0) (run [ECopy 0; ELog 1 cv] world0) = Some (fst cv)
  (* and without the Files map the line coverage splits the same way *)
  /\ option_map (files_of 0) (run [ECopy 0; ELog 1 cv] (new_state true false)) = Some []
  /\ option_map (files_of 0) (run [ECopy 0; ELog 1 cv] world0) = Some (snd cv).
Proof. cbv zeta. repeat split; vm_compute; reflexivity. Qed.

(* ---- 2. runs finishing at the same time ---- *)
(* the contribution of a list of runs, with the i-th singled out *)
Lemma contribs_split f i y l : nth_error l i = Some y ->
  exists R, contribs f l = merge (contrib f y) R /\ forall x, contribs f (upd i x l) = merge (contrib f x) R.
Proof.
  revert i; induction l as [|z l IH]; intros [|i] H; cbn [nth_error] in H; try discriminate.
  - inversion H; subst z. exists (contribs f l). split; [reflexivity|]. intros x. reflexivity.
  - destruct (IH i H) as (R & HR & Hx). exists (merge (contrib f z) R). cbn [contribs upd]. split.
    + rewrite HR, <- !merge_assoc, (merge_comm (contrib f z)). reflexivity.
    + intros x. rewrite Hx, <- !merge_assoc, (merge_comm (contrib f z)). reflexivity.
Qed.

(* a thread that is neither under way nor holds a loaded value *)
Definition idle (t : thread) : Prop := under_way t = false /\ t_reg t = None.

(* a value a thread has loaded is still what the map holds: nobody wrote in between *)
Definition holder_ok (m : files) (t : thread) : Prop :=
  match t_reg t with
  | Some v => t_started t = true /\ exists g c rest, t_todo t = (g, c) :: rest /\ v = lookup g m
  | None => True
  end.

(* the invariant of a history under ONE lock: what the map holds plus what the threads still have to merge
   is constant, and all threads but one (the holder of the lock) are idle *)
Definition cinv (total : str -> list cov) (m : files) (ths : list thread) : Prop :=
  (forall f, merge (lookup f m) (contribs f (map t_todo ths)) = total f)
  /\ exists h, (forall j tj, nth_error ths j = Some tj -> j <> h -> idle tj)
             /\ (forall th, nth_error ths h = Some th -> holder_ok m th).

Lemma cstep_inv total i m ths m' ths' :
  cinv total m ths -> cstep Shared i m ths = Some (m', ths') -> cinv total m' ths'.
Proof.
  intros [Htot (h & Hidle & Hhold)]. unfold cstep.
  destruct (nth_error ths i) as [t|] eqn:Hi; [|discriminate].
  destruct (negb (t_started t) && blocked Shared t ths) eqn:Hb; [discriminate|].
  destruct (micro m t) as [[m1 t1]|] eqn:Hm; [|discriminate]. intros H; inversion H; subst m' ths'; clear H.
  (* every thread but i is idle, and i's loaded value (if any) is current *)
  assert (Hothers : (forall j tj, nth_error ths j = Some tj -> j <> i -> idle tj) /\ holder_ok m t).
  { destruct (Nat.eq_dec i h) as [->|Hne]; [split; [exact Hidle|exact (Hhold t Hi)]|].
    destruct (Hidle i t Hi Hne) as [Huw Hreg]. split; [|unfold holder_ok; rewrite Hreg; exact I].
    assert (Hns : t_started t = false).
    { unfold micro in Hm. unfold under_way in Huw. destruct (t_todo t); [discriminate|]. destruct (t_started t); [discriminate|reflexivity]. }
    rewrite Hns in Hb. cbn [negb andb] in Hb.
    intros j tj Hj Hji. destruct (Nat.eq_dec j h) as [->|Hjh]; [|exact (Hidle j tj Hj Hjh)].
    assert (Huwj : under_way tj = false).
    { unfold blocked in Hb. destruct (under_way tj) eqn:E; [|reflexivity].
      assert (Hex : existsb (fun u => under_way u && excludes Shared t u) ths = true).
      { apply existsb_exists. exists tj. split; [eapply nth_error_In; exact Hj|]. rewrite E. reflexivity. }
      congruence. }
    split; [exact Huwj|]. specialize (Hhold tj Hj). unfold holder_ok in Hhold. destruct (t_reg tj); [|reflexivity].
    destruct Hhold as (Hs & g & c & rest & Htodo & _). unfold under_way in Huwj. rewrite Hs, Htodo in Huwj. discriminate. }
  destruct Hothers as [Hothers Hcur].
  assert (Hlen : i < length ths) by (apply nth_error_Some; congruence).
  unfold micro in Hm. destruct (t_todo t) as [|[f c] rest] eqn:Htodo; [discriminate|].
  destruct (t_reg t) as [v|] eqn:Hreg; inversion Hm; subst m1 t1; clear Hm.
  - (* store *)
    unfold holder_ok in Hcur. rewrite Hreg in Hcur. destruct Hcur as (_ & g & c' & rest' & Hg & Hv).
    rewrite Htodo in Hg. inversion Hg; subst g c' rest' v. split.
    + intros f0. rewrite <- (Htot f0), map_upd. cbn [t_todo].
      destruct (contribs_split f0 i ((f, c) :: rest) (map t_todo ths)) as (R & HR & Hx).
      { rewrite nth_error_map, Hi. cbn. rewrite Htodo. reflexivity. }
      rewrite Hx, HR. cbn [contrib]. destruct (str_eqb_spec f0 f) as [->|Hne].
      * rewrite lookup_set_same, !merge_assoc. reflexivity.
      * rewrite lookup_set_other by exact Hne. reflexivity.
    + exists i. split.
      * intros j tj Hj Hji. rewrite nth_error_upd_other in Hj by congruence. eauto.
      * intros th Hth. rewrite nth_error_upd_same in Hth by exact Hlen. inversion Hth; subst th. exact I.
  - (* load *)
    split.
    + intros f0. rewrite <- (Htot f0), map_upd. cbn [t_todo]. rewrite <- Htodo, upd_same; [reflexivity|].
      rewrite nth_error_map, Hi. reflexivity.
    + exists i. split.
      * intros j tj Hj Hji. rewrite nth_error_upd_other in Hj by congruence. eauto.
      * intros th Hth. rewrite nth_error_upd_same in Hth by exact Hlen. inversion Hth; subst th.
        unfold holder_ok. cbn [t_reg t_started t_todo]. split; [reflexivity|]. exists f, c, rest. split; reflexivity.
Qed.

Lemma crun_inv total sched : forall m ths m' ths',
  cinv total m ths -> crun Shared sched m ths = Some (m', ths') -> cinv total m' ths'.
Proof.
  induction sched as [|i sched IH]; intros m ths m' ths' Hinv; cbn [crun].
  - intros H; inversion H; subst; exact Hinv.
  - destruct (cstep Shared i m ths) as [[m1 ths1]|] eqn:Hs; [|discriminate]. apply IH. eapply cstep_inv; eauto.
Qed.

Lemma contribs_all_done f ths : all_done ths = true -> contribs f (map t_todo ths) = [].
Proof.
  induction ths as [|t ths IH]; cbn [all_done forallb map contribs]; [reflexivity|]. intros H.
  apply andb_prop in H. destruct H as [Ht H]. destruct (t_todo t); [|discriminate]. cbn [contrib]. rewrite IH by exact H. reflexivity.
Qed.

(* Runs that finish at the same time, on whatever copies, under the one lock: EVERY schedule of their loads
   and stores that the lock admits and that lets all of them finish leaves the monoid fold of the runs in
   the map - the result of merging them one after the other, in any order. *)
Theorem one_lock_serialises jobs sched m0 m' ths' :
  crun Shared sched m0 (map (fun j => fresh_thread (fst j) (snd j)) jobs) = Some (m', ths') ->
  all_done ths' = true ->
  forall f, lookup f m' = merge (lookup f m0) (contribs f (map snd jobs)).
Proof.
  intros Hr Hdone f.
  pose (total := fun f => merge (lookup f m0) (contribs f (map snd jobs))).
  assert (H0 : cinv total m0 (map (fun j => fresh_thread (fst j) (snd j)) jobs)).
  { split.
    - intros f0. unfold total. rewrite map_map. cbn [fresh_thread t_todo]. reflexivity.
    - exists 0. split.
      + intros j tj Hj _. rewrite nth_error_map in Hj. destruct (nth_error jobs j); inversion Hj. split; reflexivity.
      + intros th Hth. rewrite nth_error_map in Hth. destruct (nth_error jobs 0); inversion Hth. exact I. }
  destruct (crun_inv total sched _ _ _ _ H0 Hr) as [Htot _].
  specialize (Htot f). rewrite (contribs_all_done f ths' Hdone), merge_nil_r in Htot. exact Htot.
Qed.

(* the lock the source takes IS one lock for all copies (lock_is_shared), so: *)
Corollary concurrent_completion_is_fold jobs sched m0 m' ths' :
  crun lock_scope sched m0 (map (fun j => fresh_thread (fst j) (snd j)) jobs) = Some (m', ths') ->
  all_done ths' = true ->
  forall f, lookup f m' = merge (lookup f m0) (contribs f (map snd jobs)).
Proof. rewrite lock_is_shared. apply one_lock_serialises. Qed.

(* A lock per copy (a mutex stored by value in the copied struct) or none does not do: two runs on two copies,
   each loads before the other stores, and the first store is lost. *)
Lemma lock_per_copy_loses_lines :
  let jobs := [(0, [(s "a.go", [3; 2]%N)]); (1, [(s "a.go", [2; 3]%N)])] in
  let ths := map (fun j => fresh_thread (fst j) (snd j)) jobs in
  option_map (fun r => (lookup (s "a.go") (fst r), all_done (snd r))) (crun PerCopy [0; 1; 0; 1] [] ths) = Some ([2; 3]%N, true)
  /\ crun Shared [0; 1; 0; 1] [] ths = None
  /\ option_map (fun r => lookup (s "a.go") (fst r)) (crun Shared [0; 0; 1; 1] [] ths) = Some [3; 3]%N
  /\ option_map (fun r => lookup (s "a.go") (fst r)) (crun PerCopy [0; 0; 1; 1] [] ths) = Some [3; 3]%N.
Proof. cbv zeta. repeat split; vm_compute; reflexivity. Qed.

(* ---- 3. flaky retries ---- *)
(* the coverage doFlakeRun returns for the target is the merge of all attempts that ran *)
Theorem flake_run_files n atts f :
  lookup f (snd (flake_run flake_combine n atts)) = contribs f (map snd (executed n atts)).
Proof.
  rewrite flake_combine_is_aggregate. unfold flake_run. cbn [combine_with].
  change (fold_left (fun acc c => agg_obj acc c)) with (fold_left agg_obj).
  rewrite fold_agg_obj_files, lookup_fold_aggregate. reflexivity.
Qed.

Theorem flake_run_best n atts f i :
  nth i (lookup f (snd (flake_run flake_combine n atts))) 0%N = max_over f i (map snd (executed n atts)).
Proof.
  rewrite flake_run_files. induction (map snd (executed n atts)) as [|r rs IH]; cbn [contribs max_over].
  - destruct i; reflexivity.
  - rewrite merge_nth, IH. reflexivity.
Qed.

(* which attempt covered a line does not matter: any two lists of attempts that run the same attempts in a
   different order give the target the same coverage *)
Theorem flake_run_order_free n atts n' atts' f :
  Permutation (executed n atts) (executed n' atts') ->
  lookup f (snd (flake_run flake_combine n atts)) = lookup f (snd (flake_run flake_combine n' atts')).
Proof. intros Hp. rewrite !flake_run_files. apply contribs_perm. apply Permutation_map. exact Hp. Qed.

(* the attempts that run: all of the first `flakiness` ones while they fail, up to and including the first pass *)
Lemma executed_all_fail n atts :
  forallb (fun a => negb (fst a)) (firstn n atts) = true -> executed n atts = map snd (firstn n atts).
Proof.
  revert atts; induction n as [|n IH]; intros [|[ok c] atts] H; cbn [executed firstn map forallb fst snd] in *; try reflexivity.
  apply andb_prop in H. destruct H as [Hok H]. destruct ok; [discriminate|]. cbn [andb]. rewrite IH by exact H. reflexivity.
Qed.

Lemma executed_first_pass n pre c atts :
  flake_break_on_success = true ->
  forallb (fun a => negb (fst a)) pre = true -> length pre < n ->
  executed n (pre ++ (true, c) :: atts) = map snd pre ++ [c].
Proof.
  intros Hb. revert n; induction pre as [|[ok c0] pre IH]; intros n H Hn; cbn [app executed map forallb fst snd length] in *.
  - destruct n; [lia|]. cbn [executed andb]. rewrite Hb. reflexivity.
  - destruct n; [lia|]. apply andb_prop in H. destruct H as [Hok H]. destruct ok; [discriminate|].
    cbn [executed andb]. rewrite IH by (auto; lia). reflexivity.
Qed.

(* end to end: the flaky target's result, logged on whatever copy, reaches every state *)
Lemma in_keys_set x f v m : In x (keys (set f v m)) -> x = f \/ In x (keys m).
Proof.
  unfold keys. induction m as [|[k w] m IH]; cbn [set map fst In].
  - intros [<-|[]]. left; reflexivity.
  - destruct (str_eqb f k); cbn [map fst In]; intuition.
Qed.

Lemma keys_set_nodup f v m : NoDup (keys m) -> NoDup (keys (set f v m)).
Proof.
  unfold keys. induction m as [|[k w] m IH]; cbn [set map fst]; intros Hnd.
  - repeat constructor. intros [].
  - inversion Hnd as [|? ? Hnotin Hnd']; subst. destruct (str_eqb_spec f k) as [->|Hne]; cbn [map fst].
    + constructor; assumption.
    + constructor; [|auto]. intros Hin. apply in_keys_set in Hin. destruct Hin as [->|Hin]; [congruence|auto].
Qed.

Lemma aggregate_keys_nodup run : forall acc, NoDup (keys acc) -> NoDup (keys (aggregate acc run)).
Proof.
  unfold aggregate. induction run as [|kv run IH]; intros acc Hnd; cbn [fold_left]; [exact Hnd|].
  apply IH. apply keys_set_nodup. exact Hnd.
Qed.

Lemma flake_run_keys_nodup n atts : NoDup (keys (snd (flake_run flake_combine n atts))).
Proof.
  rewrite flake_combine_is_aggregate. unfold flake_run. cbn [combine_with].
  change (fold_left (fun acc c => agg_obj acc c)) with (fold_left agg_obj). rewrite fold_agg_obj_files. cbn [snd].
  generalize (map snd (executed n atts)). intros rs.
  assert (H : forall acc, NoDup (keys acc) -> NoDup (keys (fold_left aggregate rs acc))).
  { induction rs as [|r rs IH]; intros acc Hnd; cbn [fold_left]; [exact Hnd|]. apply IH, aggregate_keys_nodup, Hnd. }
  apply H. constructor.
Qed.

Lemma max_over_app f i a b : max_over f i (a ++ b) = N.max (max_over f i a) (max_over f i b).
Proof. induction a as [|r a IH]; cbn [app max_over]; [lia|]. rewrite IH. lia. Qed.

Lemma logged_app a b : logged (a ++ b) = logged a ++ logged b.
Proof. induction a as [|[?|? ?] a IH]; cbn [app logged]; rewrite ?IH; reflexivity. Qed.

Theorem flake_reaches_every_state evs n atts st0 w st f i :
  valid 1 (evs ++ [ELog st0 (flake_run flake_combine n atts)]) ->
  run (evs ++ [ELog st0 (flake_run flake_combine n atts)]) world0 = Some w -> st < length (w_states w) ->
  nth i (lookup f (files_of st w)) 0%N
  = N.max (max_over f i (map snd (logged evs))) (max_over f i (map snd (executed n atts))).
Proof.
  intros Hv Hr Hst. rewrite (copies_best _ w st f i Hv Hr Hst).
  rewrite logged_app, map_app, max_over_app. cbn [logged map max_over]. f_equal.
  rewrite (contrib_lookup f _ (flake_run_keys_nodup n atts)), flake_run_best. lia.
Qed.
