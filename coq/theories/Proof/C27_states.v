(* C27 - proofs about state copies, concurrent completion and flaky retries (Model/C27_states.v). *)
From Coq Require Import String.
From PlzV Require Import Base.Harness Base.StrFacts Model.C27 Proof.C27 Gen.CoverageStates Model.C27_states.
From Coq Require Import Lia Permutation List.

(* ---- ties to the source: proved by computation on the regenerated definitions ---- *)
(* NewBuildState creates the Files map up front (and not the Tests map) *)
Lemma newstate_creates_files : newstate_init_files = true.
Proof. reflexivity. Qed.

(* every field of TestCoverage is a map, i.e. a reference: a struct copy shares all of it and carries no lock *)
Lemma coverage_is_two_maps : coverage_fields = [("Tests", "map"); ("Files", "map")]%string /\ coverage_by_value = true.
Proof. split; reflexivity. Qed.

(* the lock LogTestResult holds around Aggregate is reached through a pointer: one lock for all copies *)
Lemma lock_is_shared : lock_scope = Shared.
Proof. reflexivity. Qed.

(* doFlakeRun aggregates every attempt into the target's coverage *)
Lemma flake_combine_is_aggregate : flake_combine = CombAggregate.
Proof. reflexivity. Qed.

(* ---- lists ---- *)
Lemma upd_length {A} i (x : A) l : length (upd i x l) = length l.
Proof. revert i; induction l as [|y l IH]; intros [|i]; cbn [upd length]; auto. Qed.

Lemma nth_error_upd_same {A} i (x : A) l : i < length l -> nth_error (upd i x l) i = Some x.
Proof. revert i; induction l as [|y l IH]; intros [|i] H; cbn [upd length nth_error] in *; try lia; auto. apply IH; lia. Qed.

Lemma Forall_upd {A} (P : A -> Prop) i x l : Forall P l -> P x -> Forall P (upd i x l).
Proof.
  intros Hl Hx; revert i; induction Hl as [|y l Hy Hl IH]; intros [|i]; cbn [upd]; constructor; auto.
Qed.

Lemma nth_error_lt {A} (l : list A) i : i < length l -> exists x, nth_error l i = Some x.
Proof. intros H. destruct (nth_error l i) eqn:E; [eauto|]. apply nth_error_None in E. lia. Qed.

(* ---- 1. state copies: all copies feed one Files map ---- *)
(* the invariant: one Files map on the heap, and every state refers to it *)
Definition files_shared (w : world) (F : files) : Prop :=
  w_files w = [F] /\ Forall (fun c => c_files c = Some 0) (w_states w).

Lemma files_shared_files_of w F st : files_shared w F -> st < length (w_states w) -> files_of st w = F.
Proof.
  intros [HF Hall] Hst. unfold files_of. destruct (nth_error_lt _ _ Hst) as [c Hc]. rewrite Hc.
  rewrite Forall_forall in Hall. specialize (Hall c (nth_error_In _ _ Hc)). destruct c as [t fr]; cbn in Hall; subst fr.
  rewrite HF. reflexivity.
Qed.

(* the world NewBuildState makes *)
Lemma world0_files_shared : files_shared world0 [].
Proof. split; [reflexivity|]. repeat constructor. Qed.

(* Aggregate, run on any state of such a world, does not panic and merges into the one map *)
Lemma log_files_shared w F st cv :
  files_shared w F -> st < length (w_states w) ->
  exists w', exec st cv aggregate_prog w = Some w' /\ files_shared w' (aggregate F (snd cv))
             /\ length (w_states w') = length (w_states w).
Proof.
  intros [HF Hall] Hst. destruct (nth_error_lt _ _ Hst) as [c Hc].
  assert (Hcf : c_files c = Some 0).
  { rewrite Forall_forall in Hall. exact (Hall c (nth_error_In _ _ Hc)). }
  destruct w as [sts th fh]; cbn [w_states w_tests w_files] in *. subst fh.
  destruct c as [tr fr]; cbn [c_files] in Hcf; subst fr.
  change aggregate_prog with [LazyMake "Tests"; LazyMake "Files"; AssignTests; MergeFiles]%string.
  destruct tr as [ta|].
  - (* Tests exists already: the states are left as they are *)
    set (w0 := mkWorld sts th [F]).
    assert (H0 : nth_error (w_states w0) st = Some (mkCover (Some ta) (Some 0))) by exact Hc.
    assert (E1 : exec_stmt st cv (LazyMake "Tests") w0 = Some w0) by (unfold exec_stmt; rewrite H0; reflexivity).
    assert (E2 : exec_stmt st cv (LazyMake "Files") w0 = Some w0) by (unfold exec_stmt; rewrite H0; reflexivity).
    set (w1 := mkWorld sts (upd ta (tset_all (fst cv) (nth ta th [])) th) [F]).
    assert (E3 : exec_stmt st cv AssignTests w0 = Some w1) by (unfold exec_stmt; rewrite H0; reflexivity).
    assert (H1 : nth_error (w_states w1) st = Some (mkCover (Some ta) (Some 0))) by exact Hc.
    assert (E4 : exec_stmt st cv MergeFiles w1 = Some (mkWorld sts (w_tests w1) [aggregate F (snd cv)]))
      by (unfold exec_stmt; rewrite H1; reflexivity).
    cbn [exec]. rewrite E1, E2, E3, E4. eexists; split; [reflexivity|]. repeat split; auto.
  - (* Tests is nil: made now, for this state only *)
    set (w0 := mkWorld sts th [F]).
    assert (H0 : nth_error (w_states w0) st = Some (mkCover None (Some 0))) by exact Hc.
    set (c1 := mkCover (Some (length th)) (Some 0)).
    set (w1 := mkWorld (upd st c1 sts) (th ++ [[]]) [F]).
    assert (E1 : exec_stmt st cv (LazyMake "Tests") w0 = Some w1) by (unfold exec_stmt; rewrite H0; reflexivity).
    assert (H1 : nth_error (w_states w1) st = Some c1) by (apply nth_error_upd_same; exact Hst).
    assert (E2 : exec_stmt st cv (LazyMake "Files") w1 = Some w1) by (unfold exec_stmt; rewrite H1; reflexivity).
    set (w2 := mkWorld (upd st c1 sts) (upd (length th) (tset_all (fst cv) (nth (length th) (th ++ [[]]) [])) (th ++ [[]])) [F]).
    assert (E3 : exec_stmt st cv AssignTests w1 = Some w2) by (unfold exec_stmt; rewrite H1; reflexivity).
    assert (H2 : nth_error (w_states w2) st = Some c1) by (apply nth_error_upd_same; exact Hst).
    assert (E4 : exec_stmt st cv MergeFiles w2 = Some (mkWorld (upd st c1 sts) (w_tests w2) [aggregate F (snd cv)]))
      by (unfold exec_stmt; rewrite H2; reflexivity).
    cbn [exec]. rewrite E1, E2, E3, E4. eexists; split; [reflexivity|]. repeat split; cbn [w_states w_files].
    + apply Forall_upd; auto.
    + apply upd_length.
Qed.

Lemma copy_files_shared w F src :
  files_shared w F -> src < length (w_states w) ->
  exists w', step w (ECopy src) = Some w' /\ files_shared w' F /\ length (w_states w') = S (length (w_states w)).
Proof.
  intros [HF Hall] Hsrc. destruct (nth_error_lt _ _ Hsrc) as [c Hc]. cbn [step]. rewrite Hc.
  eexists; split; [reflexivity|]. repeat split; cbn [w_files w_states]; auto.
  - apply Forall_app; split; auto. constructor; auto. rewrite Forall_forall in Hall. exact (Hall c (nth_error_In _ _ Hc)).
  - rewrite app_length. cbn. lia.
Qed.

(* a history that only refers to states that exist (n = number of states before it) *)
Fixpoint valid (n : nat) (evs : list event) : Prop :=
  match evs with
  | [] => True
  | ECopy src :: r => src < n /\ valid (S n) r
  | ELog st _ :: r => st < n /\ valid n r
  end.

Lemma run_files_shared evs : forall w F,
  files_shared w F -> valid (length (w_states w)) evs ->
  exists w', run evs w = Some w' /\ files_shared w' (fold_left aggregate (map snd (logged evs)) F)
             /\ length (w_states w) <= length (w_states w').
Proof.
  induction evs as [|[src|st cv] evs IH]; intros w F Hsh Hv; cbn [run logged map fold_left valid] in *.
  - eauto.
  - destruct Hv as [Hsrc Hv]. destruct (copy_files_shared w F src Hsh Hsrc) as (w1 & -> & Hsh1 & Hlen).
    rewrite <- Hlen in Hv. destruct (IH w1 F Hsh1 Hv) as (w' & Hr & Hsh' & Hle). exists w'. split; [exact Hr|]. split; [exact Hsh'|lia].
  - destruct Hv as [Hst Hv]. cbn [step]. destruct (log_files_shared w F st cv Hsh Hst) as (w1 & -> & Hsh1 & Hlen).
    rewrite <- Hlen in Hv. destruct (IH w1 _ Hsh1 Hv) as (w' & Hr & Hsh' & Hle). exists w'. split; [exact Hr|]. split; [exact Hsh'|lia].
Qed.

(* Whatever the history - any number of copies of any states, made at any time, runs logged on any of them in
   any order - no step panics and EVERY state reports the monoid fold of all logged runs. *)
Theorem copies_share_files evs :
  valid 1 evs ->
  exists w, run evs world0 = Some w
            /\ forall st, st < length (w_states w) -> files_of st w = aggregate_all (map snd (logged evs)).
Proof.
  intros Hv. destruct (run_files_shared evs world0 [] world0_files_shared Hv) as (w & Hr & Hsh & _).
  exists w. split; [exact Hr|]. intros st Hst. apply (files_shared_files_of w _ st Hsh Hst).
Qed.

(* order independence and best state, lifted to aliased accumulators: two histories that log the same runs
   (in any order, on any states, with any copies in between) agree on every line at every state *)
Theorem copies_order_free evs evs' w w' :
  valid 1 evs -> valid 1 evs' -> Permutation (logged evs) (logged evs') ->
  run evs world0 = Some w -> run evs' world0 = Some w' ->
  forall st st' f, st < length (w_states w) -> st' < length (w_states w') ->
    lookup f (files_of st w) = lookup f (files_of st' w').
Proof.
  intros Hv Hv' Hp Hr Hr' st st' f Hst Hst'.
  destruct (copies_share_files evs Hv) as (w1 & Hr1 & H1). rewrite Hr in Hr1; inversion Hr1; subst w1.
  destruct (copies_share_files evs' Hv') as (w2 & Hr2 & H2). rewrite Hr' in Hr2; inversion Hr2; subst w2.
  rewrite H1, H2 by assumption. apply aggregate_order_free. right. apply Permutation_map. exact Hp.
Qed.

Theorem copies_best evs w st f i :
  valid 1 evs -> run evs world0 = Some w -> st < length (w_states w) ->
  nth i (lookup f (files_of st w)) 0%N = max_over f i (map snd (logged evs)).
Proof.
  intros Hv Hr Hst. destruct (copies_share_files evs Hv) as (w1 & Hr1 & H1). rewrite Hr in Hr1; inversion Hr1; subst w1.
  rewrite H1 by assumption. apply aggregate_best.
Qed.

(* The per-test breakdown is NOT shared in the same way: NewBuildState does not create the Tests map, so a
   state copied before its source's first Aggregate makes its own.  The witness (reproduced on the real code
   by the harness, class per-test-breakdown-private-to-state-copy): a subrepo state made before any result;
   the subrepo's test never shows in the root's per-test map. *)
Lemma tests_private_to_early_copy :
  let cv := ([(s "///sub//p:t", [(s "a.go", [3%N])])], [(s "a.go", [3%N])]) in
  newstate_init_tests = false
  /\ option_map (tests_of 0) (run [ECopy 0; ELog 1 cv] world0) = Some []
  /\ option_map (tests_of 0) (run [ELog 1 cv] (new_state true true)) = None
  /\ option_map (tests_of 0) (run [ECopy 0; ELog 1 cv] (new_state true true)) = Some (fst cv).
Proof. cbv zeta. repeat split; vm_compute; reflexivity. Qed.

(* ---- 3. flaky retries ---- *)
Lemma fold_agg_obj_files cs : forall acc,
  snd (fold_left agg_obj cs acc) = fold_left aggregate (map snd cs) (snd acc).
Proof. induction cs as [|c cs IH]; intros acc; cbn [fold_left map]; [reflexivity|]. rewrite IH. reflexivity. Qed.

(* the coverage doFlakeRun returns for the target is the merge of all attempts that ran *)
Theorem flake_run_files n atts f :
  lookup f (snd (flake_run flake_combine n atts)) = contribs f (map snd (executed n atts)).
Proof.
  rewrite flake_combine_is_aggregate. unfold flake_run. cbn [combine_with].
  change (fold_left (fun acc c => agg_obj acc c)) with (fold_left agg_obj).
  rewrite fold_agg_obj_files, lookup_fold_aggregate. reflexivity.
Qed.

Theorem flake_run_best n atts f i :
  nth i (lookup f (snd (flake_run flake_combine n atts))) 0%N = max_over f i (map snd (executed n atts)).
Proof.
  rewrite flake_run_files. induction (map snd (executed n atts)) as [|r rs IH]; cbn [contribs max_over].
  - destruct i; reflexivity.
  - rewrite merge_nth, IH. reflexivity.
Qed.

(* which attempt covered a line does not matter: any two lists of attempts that run the same attempts in a
   different order give the target the same coverage *)
Theorem flake_run_order_free n atts n' atts' f :
  Permutation (executed n atts) (executed n' atts') ->
  lookup f (snd (flake_run flake_combine n atts)) = lookup f (snd (flake_run flake_combine n' atts')).
Proof. intros Hp. rewrite !flake_run_files. apply contribs_perm. apply Permutation_map. exact Hp. Qed.

(* the attempts that run: all of the first `flakiness` ones while they fail, up to and including the first pass *)
Lemma executed_all_fail n atts :
  forallb (fun a => negb (fst a)) (firstn n atts) = true -> executed n atts = map snd (firstn n atts).
Proof.
  revert atts; induction n as [|n IH]; intros [|[ok c] atts] H; cbn [executed firstn map forallb fst snd] in *; try reflexivity.
  apply andb_prop in H. destruct H as [Hok H]. destruct ok; [discriminate|]. cbn [andb]. rewrite IH by exact H. reflexivity.
Qed.

Lemma executed_first_pass n pre c atts :
  flake_break_on_success = true ->
  forallb (fun a => negb (fst a)) pre = true -> length pre < n ->
  executed n (pre ++ (true, c) :: atts) = map snd pre ++ [c].
Proof.
  intros Hb. revert n; induction pre as [|[ok c0] pre IH]; intros n H Hn; cbn [app executed map forallb fst snd length] in *.
  - destruct n; [lia|]. cbn [executed andb]. rewrite Hb. reflexivity.
  - destruct n; [lia|]. apply andb_prop in H. destruct H as [Hok H]. destruct ok; [discriminate|].
    cbn [executed andb]. rewrite IH by (auto; lia). reflexivity.
Qed.

(* end to end: the flaky target's result, logged on whatever copy, reaches every state *)
Lemma in_keys_set x f v m : In x (keys (set f v m)) -> x = f \/ In x (keys m).
Proof.
  unfold keys. induction m as [|[k w] m IH]; cbn [set map fst In].
  - intros [<-|[]]. left; reflexivity.
  - destruct (str_eqb f k); cbn [map fst In]; intuition.
Qed.

Lemma keys_set_nodup f v m : NoDup (keys m) -> NoDup (keys (set f v m)).
Proof.
  unfold keys. induction m as [|[k w] m IH]; cbn [set map fst]; intros Hnd.
  - repeat constructor. intros [].
  - inversion Hnd as [|? ? Hnotin Hnd']; subst. destruct (str_eqb_spec f k) as [->|Hne]; cbn [map fst].
    + constructor; assumption.
    + constructor; [|auto]. intros Hin. apply in_keys_set in Hin. destruct Hin as [->|Hin]; [congruence|auto].
Qed.

Lemma aggregate_keys_nodup run : forall acc, NoDup (keys acc) -> NoDup (keys (aggregate acc run)).
Proof.
  unfold aggregate. induction run as [|kv run IH]; intros acc Hnd; cbn [fold_left]; [exact Hnd|].
  apply IH. apply keys_set_nodup. exact Hnd.
Qed.

Lemma flake_run_keys_nodup n atts : NoDup (keys (snd (flake_run flake_combine n atts))).
Proof.
  rewrite flake_combine_is_aggregate. unfold flake_run. cbn [combine_with].
  change (fold_left (fun acc c => agg_obj acc c)) with (fold_left agg_obj). rewrite fold_agg_obj_files. cbn [snd].
  generalize (map snd (executed n atts)). intros rs.
  assert (H : forall acc, NoDup (keys acc) -> NoDup (keys (fold_left aggregate rs acc))).
  { induction rs as [|r rs IH]; intros acc Hnd; cbn [fold_left]; [exact Hnd|]. apply IH, aggregate_keys_nodup, Hnd. }
  apply H. constructor.
Qed.

Lemma max_over_app f i a b : max_over f i (a ++ b) = N.max (max_over f i a) (max_over f i b).
Proof. induction a as [|r a IH]; cbn [app max_over]; [lia|]. rewrite IH. lia. Qed.

Lemma logged_app a b : logged (a ++ b) = logged a ++ logged b.
Proof. induction a as [|[?|? ?] a IH]; cbn [app logged]; rewrite ?IH; reflexivity. Qed.

Theorem flake_reaches_every_state evs n atts st0 w st f i :
  valid 1 (evs ++ [ELog st0 (flake_run flake_combine n atts)]) ->
  run (evs ++ [ELog st0 (flake_run flake_combine n atts)]) world0 = Some w -> st < length (w_states w) ->
  nth i (lookup f (files_of st w)) 0%N
  = N.max (max_over f i (map snd (logged evs))) (max_over f i (map snd (executed n atts))).
Proof.
  intros Hv Hr Hst. rewrite (copies_best _ w st f i Hv Hr Hst).
  rewrite logged_app, map_app, max_over_app. cbn [logged map max_over]. f_equal.
  rewrite (contrib_lookup f _ (flake_run_keys_nodup n atts)), flake_run_best. lia.
Qed.
