(* C37, extension - proofs about require/provide in dependency resolution and about $(worker ...) commands. *)
From Coq Require Import String Lia.
From PlzV Require Import Base.Harness Gen.CmdReplTables Model.C37 Model.C37_Ext Proof.C37.
From PlzV Require Model.C20.
Local Open Scope list_scope.

(* ---- what the translator regenerated ---------------------------------------------------------------------------------- *)

Lemma worker_regex_pin : worker_regex = "^(.*)\$\(worker ([^\)]+)\) *([^&]*)(?: *&& *(.*))?$"%string.
Proof. reflexivity. Qed.

Lemma test_worker_prefix_pin : s test_worker_prefix = firstn 8 wpre.
Proof. reflexivity. Qed.

(* the worker is expanded like $(out_exe ...) of a build command *)
Lemma worker_flags_pin : In (worker_flags) (map snd passes) /\ worker_flags = (true, false, false, true, false) /\ worker_test = false.
Proof. split; [ cbn; tauto | split; reflexivity ]. Qed.

Lemma tool_guard_listed : In GuardTool provide_guards.
Proof. cbn; tauto. Qed.

Lemma data_guard_listed : In GuardData provide_guards.
Proof. cbn; tauto. Qed.

(* ---- require / provide -------------------------------------------------------------------------------------------------- *)

(* the loop over other.Requires only ever yields labels listed under a required language (induction on the requires) *)
Lemma collect_sound pv : forall reqs ls f, collect pv reqs = (ls, f) ->
  forall k, In k ls -> exists r l, In r reqs /\ assoc r pv = Some l /\ In k l.
Proof.
  induction reqs as [|r rest IH]; intros ls f H k Hk; cbn in H.
  - inversion H; subst; contradiction.
  - destruct (collect pv rest) as [ls0 f0] eqn:E.
    destruct (assoc r pv) as [l|] eqn:A; inversion H; subst; clear H.
    + apply in_app_or in Hk. destruct Hk as [Hk|Hk].
      * exists r, l. cbn; auto.
      * destruct (IH _ _ eq_refl k Hk) as (r' & l' & Hr & Ha & Hl). exists r', l'. cbn; auto.
    + destruct (IH _ _ eq_refl k Hk) as (r' & l' & Hr & Ha & Hl). exists r', l'. cbn; auto.
Qed.

(* ... and `found` is exactly "some required language is provided" *)
Lemma collect_found pv : forall reqs ls, collect pv reqs = (ls, false) -> ls = [] /\ forall r, In r reqs -> assoc r pv = None.
Proof.
  induction reqs as [|r rest IH]; intros ls H; cbn in H.
  - inversion H; split; [reflexivity | intros ? []].
  - destruct (collect pv rest) as [ls0 f0] eqn:E.
    destruct (assoc r pv) as [l|] eqn:A; inversion H; subst.
    destruct (IH _ eq_refl) as [-> Hn]. split; [reflexivity|].
    intros r' [<-|Hr]; auto.
Qed.

Lemma provide_for_guarded guards w px d g :
  In g guards -> guard_fires w px d g = true -> provide_for guards w px d = None.
Proof.
  intros Hin Hf. unfold provide_for.
  destruct (assoc_lbl d (px_provides px)); [|reflexivity].
  destruct (is_nil (px_requires px)); [reflexivity|].
  assert (E : existsb (guard_fires w px d) guards = true) by (apply existsb_exists; eauto).
  now rewrite E.
Qed.

(* a label the rule lists as a tool resolves to the tool itself, whatever it provides and whatever the rule requires *)
Theorem resolve_tool w px k : is_tool w k = true -> resolve w px k = [k].
Proof.
  intros H. unfold resolve.
  now rewrite (provide_for_guarded provide_guards w px k GuardTool tool_guard_listed H).
Qed.

Theorem resolve_data w px k : existsb (lbl_eqb k) (px_data px) = true -> resolve w px k = [k].
Proof.
  intros H. unfold resolve.
  now rewrite (provide_for_guarded provide_guards w px k GuardData data_guard_listed H).
Qed.

(* every resolved dependency is the declared one or is listed in its provides under a language the rule requires *)
Theorem resolve_sound w px k k2 : In k2 (resolve w px k) ->
  k2 = k \/ exists pv r l, assoc_lbl k (px_provides px) = Some pv /\ In r (px_requires px) /\ assoc r pv = Some l /\ In k2 l.
Proof.
  unfold resolve, provide_for.
  destruct (assoc_lbl k (px_provides px)) as [pv|] eqn:A; [|cbn; intuition].
  destruct (is_nil (px_requires px)); [cbn; intuition|].
  destruct (existsb (guard_fires w px k) provide_guards); [cbn; intuition|].
  destruct (collect pv (px_requires px)) as [ls f] eqn:C.
  destruct f; [|cbn; intuition].
  intros Hin. right. destruct (collect_sound _ _ _ _ C _ Hin) as (r & l & Hr & Ha & Hl).
  exists pv, r, l. auto.
Qed.

Definition unresolved (w : world) (px : pext) : Prop := forall k, declared w k = true -> resolve w px k = [k].

Lemma no_requires_unresolved w px : is_nil (px_requires px) = true -> unresolved w px.
Proof.
  intros H k _. unfold resolve, provide_for. destruct (assoc_lbl k (px_provides px)); [|reflexivity]. now rewrite H.
Qed.

Lemma replace_label_p_same w px test fl l ep inp all :
  (declared w (label_key l) = true -> resolve w px (label_key l) = [label_key l]) ->
  replace_label_p w px test fl l ep inp all = replace_label w test fl l ep inp all.
Proof.
  intros H. unfold replace_label_p, replace_label.
  destruct (lbl_eqb (label_key l) (t_lbl (w_self w))); [reflexivity|].
  rewrite find_dep_exact. destruct (declared w (label_key l)) eqn:D; [|reflexivity].
  now rewrite (H eq_refl).
Qed.

Lemma replace_sequence_p_same w px test fl inp :
  (forall l, C20.try_parse (fst (split_entry_point inp)) (w_pkg w) [] = C20.Parsed l ->
             declared w (label_key l) = true -> resolve w px (label_key l) = [label_key l]) ->
  replace_sequence_p w px test fl inp = replace_sequence w test fl inp.
Proof.
  intros H. unfold replace_sequence_p, replace_sequence.
  destruct fl as [[[[runnable multiple] dir] outp] hash].
  destruct (looks_like_label inp); [|reflexivity].
  destruct (split_entry_point inp) as [lbl_s ep] eqn:E. cbn [fst] in H.
  destruct (C20.try_parse lbl_s (w_pkg w) []) as [l| |] eqn:P; try reflexivity.
  apply replace_label_p_same. intros D. now apply H.
Qed.

(* a sequence naming a tool (or a data dependency) of the rule expands exactly as if nothing provided anything:
   every clause of C37_partial about replace_sequence carries over to it *)
Theorem tool_sequence_not_substituted w px test fl inp :
  (forall l, C20.try_parse (fst (split_entry_point inp)) (w_pkg w) [] = C20.Parsed l ->
             is_tool w (label_key l) = true \/ existsb (lbl_eqb (label_key l)) (px_data px) = true) ->
  replace_sequence_p w px test fl inp = replace_sequence w test fl inp.
Proof.
  intros H. apply replace_sequence_p_same. intros l P _.
  destruct (H l P) as [T|D]; [now apply resolve_tool | now apply resolve_data].
Qed.

Lemma scan_ext pre off (f g : str -> res (str * list piece)) : (forall a, f a = g a) ->
  forall x skip, scan pre off f x skip = scan pre off g x skip.
Proof.
  intros H. induction x as [|c r IH]; intros skip; [reflexivity|].
  cbn [scan]. destruct skip as [|k]; [|apply IH].
  destruct (match_at pre (c :: r)) as [whole|].
  - rewrite H. destruct (g _); cbn [bind]; try reflexivity. now rewrite IH.
  - now rewrite IH.
Qed.

Lemma run_passes_p_same w px test : unresolved w px ->
  forall ps cmd, run_passes_p w px test ps cmd = run_passes w test ps cmd.
Proof.
  intros U. induction ps as [|[[kw off] fl] r IH]; intros cmd; [reflexivity|].
  cbn [run_passes_p run_passes].
  rewrite (scan_ext _ _ (replace_sequence_p w px test fl) (replace_sequence w test fl)).
  - destruct (scan _ _ _ cmd 0); cbn [bind]; auto.
  - intros a. apply replace_sequence_p_same. intros l _ D. now apply U.
Qed.

(* without requires (or when nothing the rule declares is replaced) the whole expansion is the one of Model/C37.v *)
Theorem expand_cmd_p_same w px test cmd : unresolved w px -> expand_cmd_p w px test cmd = expand_cmd w test cmd.
Proof. intros U. unfold expand_cmd_p, expand_cmd. now rewrite run_passes_p_same. Qed.

(* ---- scan: an accepted command has every matched sequence accepted ---------------------------------------------------- *)

Definition is_ok {A} (r : res A) : bool := match r with ROk _ => true | _ => false end.

(* the arguments a pass hands to replaceSequence: leftmost non-overlapping matches *)
Fixpoint matched_args (pre : str) (off : nat) (x : str) (skip : nat) : list str :=
  match x with
  | [] => []
  | c :: r =>
      match skip with
      | S k => matched_args pre off r k
      | O =>
          match match_at pre x with
          | Some whole => C20.drop_last 1 (skipn off whole) :: matched_args pre off r (length whole - 1)
          | None => matched_args pre off r 0
          end
      end
  end.

Theorem scan_ok_all pre off f : forall x skip o, scan pre off f x skip = ROk o ->
  forall a, In a (matched_args pre off x skip) -> is_ok (f a) = true.
Proof.
  induction x as [|c r IH]; intros skip o H a Hin; [contradiction|].
  cbn [scan] in H. cbn [matched_args] in Hin. destruct skip as [|k]; [|eapply IH; eauto].
  destruct (match_at pre (c :: r)) as [whole|].
  - destruct (f (C20.drop_last 1 (skipn off whole))) as [tp| | |] eqn:F; cbn [bind] in H; try discriminate.
    destruct (scan pre off f r (length whole - 1)) as [o'| | |] eqn:S; cbn [bind] in H; try discriminate.
    destruct Hin as [<-|Hin]; [now rewrite F | eapply IH; eauto].
  - destruct (scan pre off f r 0) as [o'| | |] eqn:S; cbn [bind] in H; try discriminate.
    eapply IH; eauto.
Qed.

(* the first pass works on the command as written: an accepted command has all its $(location ...) accepted *)
Corollary expand_ok_first_pass w px test cmd o kw off fl rest : passes = (kw, off, fl) :: rest ->
  expand_cmd_p w px test cmd = ROk o ->
  forall a, In a (matched_args (pass_prefix kw) off cmd 0) -> is_ok (replace_sequence_p w px test fl a) = true.
Proof.
  intros Hp H a Hin. unfold expand_cmd_p in H. rewrite Hp in H. cbn [run_passes_p] in H.
  destruct (scan (pass_prefix kw) off (replace_sequence_p w px test fl) cmd 0) as [c| | |] eqn:S; cbn [bind] in H; try discriminate.
  eapply scan_ok_all; eauto.
Qed.

(* ---- workerAndArgs ------------------------------------------------------------------------------------------------------ *)

(* a program never loses an error: no expansion is started while an unchecked error is pending, and the return hands
   the error out unless none can be pending *)
Fixpoint safe_prog (pending : bool) (steps : list wstep) : bool :=
  match steps with
  | [] => true
  | WExpand _ _ :: r => negb pending && safe_prog true r
  | WCheck :: r => safe_prog false r
  | WWorker :: r => safe_prog pending r
  | WReturn _ _ we :: _ => we || negb pending
  end.

Fixpoint parts_of (steps : list wstep) : list wpart :=
  match steps with
  | [] => []
  | WExpand _ p :: r => p :: parts_of r
  | WReturn _ _ _ :: _ => []
  | _ :: r => parts_of r
  end.

(* for EVERY program with that discipline (induction on the program, invariant: err = true -> pending = true):
   if the program accepts, no error was pending when it started and every expansion it performed succeeded *)
Theorem run_safe exp wk : forall steps pending sl err worker t a l,
  safe_prog pending steps = true -> (err = true -> pending = true) ->
  run_steps exp wk steps sl err worker = WOk t a l ->
  err = false /\ forall p, In p (parts_of steps) -> is_ok (exp p) = true.
Proof.
  induction steps as [|st r IH]; intros pending sl err worker t a l Hs Hi H; [discriminate|].
  destruct st as [i p| | |ia il we]; cbn [run_steps] in H; cbn [safe_prog] in Hs; cbn [parts_of].
  - apply andb_true_iff in Hs. destruct Hs as [Hp Hs]. apply negb_true_iff in Hp. subst pending.
    assert (err = false) as -> by (destruct err; [specialize (Hi eq_refl); discriminate | reflexivity]).
    split; [reflexivity|].
    destruct (exp p) as [v| | |] eqn:E; try discriminate.
    + destruct (IH true _ false worker t a l Hs (fun _ => eq_refl) H) as [_ Hall].
      intros q [<-|Hq]; [now rewrite E | auto].
    + destruct (IH true _ true worker t a l Hs (fun _ => eq_refl) H) as [Hf _]. discriminate.
  - destruct err; [discriminate|]. split; [reflexivity|].
    destruct (IH false sl false worker t a l Hs (fun e => e) H) as [_ Hall]. exact Hall.
  - destruct wk as [v| | |]; try discriminate. eapply IH; eauto.
  - split; [|intros ? []].
    destruct err; [|reflexivity]. specialize (Hi eq_refl). subst pending.
    rewrite orb_false_r in Hs. subst we. discriminate.
Qed.

(* workerAndArgs as it is in the source has that discipline, and expands the (trimmed) arguments and the local part *)
Lemma worker_steps_safe : safe_prog false worker_steps = true.
Proof. reflexivity. Qed.

Lemma worker_steps_parts : parts_of worker_steps = [PArgsTrim; PLocal].
Proof. reflexivity. Qed.

Lemma worker_steps_value exp wk t a l :
  run_steps exp wk worker_steps (fun _ => None) false None = WOk t a l ->
  exp PArgsTrim = ROk a /\ exp PLocal = ROk l /\ wk = ROk t.
Proof.
  unfold worker_steps. cbn.
  destruct (exp PArgsTrim) as [x| | |]; cbn; try (intros H; discriminate H).
  destruct (exp PLocal) as [y| | |]; cbn; try (intros H; discriminate H);
  destruct wk as [z| | |]; cbn; try (intros H; discriminate H).
  intros H; inversion H; subst; auto.
Qed.

(* it never accepts while handing out a value that comes from a failed expansion *)
Lemma worker_steps_not_bogus exp wk : run_steps exp wk worker_steps (fun _ => None) false None <> WBogus.
Proof.
  unfold worker_steps. cbn.
  destruct (exp PArgsTrim) as [x| | |]; cbn; try (intros H; discriminate H).
  destruct (exp PLocal) as [y| | |]; cbn; try (intros H; discriminate H);
  destruct wk as [z| | |]; cbn; intros H; discriminate H.
Qed.

Lemma lift_ok r t a l : lift r = WOk t a l -> t = [] /\ a = [] /\ r = ROk l.
Proof. destruct r; cbn; try discriminate. intros H; inversion H; auto. Qed.

(* WorkerCommandAndArgs / TestWorkerCommand: an accepted command has both halves expanded - a sequence that is
   rejected before && (or after it) makes the whole command an error *)
Theorem worker_accepts_only_expanded w px cmd t a l : worker_and_args w px cmd = WOk t a l ->
  match find_worker cmd with
  | None => t = [] /\ a = [] /\ expand_cmd_p w px false cmd = ROk l
  | Some (m1, (m2, m3, m4)) =>
      m1 = [] /\ expand_cmd_p w px false (trim_space m3) = ROk a /\ expand_cmd_p w px false m4 = ROk l
      /\ worker_seq w px m2 = ROk t
  end.
Proof.
  unfold worker_and_args. destruct (find_worker cmd) as [[m1 [[m2 m3] m4]]|].
  - destruct m1 as [|c m1]; cbn [is_nil negb]; [|discriminate].
    intros H. destruct (worker_steps_value _ _ _ _ _ H) as (Ha & Hl & Hw). cbn [part_text] in Ha, Hl. auto.
  - apply lift_ok.
Qed.

Theorem worker_never_bogus w px cmd : worker_and_args w px cmd <> WBogus.
Proof.
  unfold worker_and_args. destruct (find_worker cmd) as [[m1 [[m2 m3] m4]]|].
  - destruct (negb (is_nil m1)); [discriminate | apply worker_steps_not_bogus].
  - destruct (expand_cmd_p w px false cmd); discriminate.
Qed.

(* by the general theorem as well (this is the statement that depends on the discipline only) *)
Corollary worker_all_parts_ok w px cmd m2 m3 m4 t a l :
  find_worker cmd = Some ([], (m2, m3, m4)) -> worker_and_args w px cmd = WOk t a l ->
  forall p, In p [PArgsTrim; PLocal] -> is_ok (expand_cmd_p w px false (part_text m3 m4 p)) = true.
Proof.
  intros F H. unfold worker_and_args in H. rewrite F in H. cbn [is_nil negb] in H.
  rewrite <- worker_steps_parts.
  exact (proj2 (run_safe _ _ _ _ _ _ _ _ _ _ worker_steps_safe (fun e => e) H)).
Qed.

(* ReplaceTestSequences on a $(worker command: the same, for the local part it returns *)
Theorem test_worker_accepts_only_expanded w px cmd t a l :
  is_nil cmd = false -> has_prefix (s test_worker_prefix) cmd = true ->
  replace_test_sequences w px cmd = WOk t a l ->
  exists t' a', worker_and_args w px cmd = WOk t' a' l.
Proof.
  intros N P. unfold replace_test_sequences. rewrite N, P.
  destruct (worker_and_args w px cmd) as [t' a' l'| | | | |]; try discriminate.
  intros H; inversion H; subst. eauto.
Qed.

(* ---- witnesses ------------------------------------------------------------------------------------------------------------ *)

(* r2-m1's world: a code generator with provides = {'go': ':gen_lib'} used as a tool by a rule with requires = ['go'] *)
Definition gen_tool : tgt := T (s "tools", s "gen", []) [s "gen.sh"] [] [] true.
Definition gen_lib : tgt := T (s "tools", s "gen_lib", []) [s "gen_lib.a"] [] [] false.
Definition some_dep : tgt := T (s "lib", s "dep", []) [s "dep.txt"] [] [] false.
Definition w_prov : world :=
  mk_world (T (s "path/to", s "target1", []) [s "out.txt"] [] [] false) []
           [ILabel (t_lbl gen_tool)] [t_lbl some_dep] [gen_tool; gen_lib; some_dep] (s "/r").
Definition px_prov : pext :=
  mk_px [s "go"] [(t_lbl gen_tool, [(s "go", [t_lbl gen_lib])]); (t_lbl some_dep, [(s "go", [t_lbl gen_lib])])] [].

Lemma w_prov_tool : expand_cmd_p w_prov px_prov false (s "$(location //tools:gen) $(exe //tools:gen)")
                    = ROk (s "/r/plz-out/bin/tools/gen.sh /r/plz-out/bin/tools/gen.sh").
Proof. vm_compute. reflexivity. Qed.

(* a plain dep IS replaced by what it provides (the model is not the identity on provides) *)
Lemma w_prov_dep : expand_cmd_p w_prov px_prov false (s "$(location //lib:dep)") = ROk (s "tools/gen_lib.a")
                   /\ ~ unresolved w_prov px_prov.
Proof.
  split; [vm_compute; reflexivity|].
  intros U. specialize (U (t_lbl some_dep) eq_refl). vm_compute in U. discriminate.
Qed.

(* r2-m3's command: an invalid sequence before && with a valid local part *)
Lemma w_prov_worker_rejects :
  worker_and_args w_prov px_prov (s "$(worker //tools:gen) --in $(location //lib:not_a_dep) && echo ok") = WErr
  /\ worker_and_args w_prov px_prov (s "$(worker //tools:gen) --in $(location //lib:dep) && echo $(locations //tools:gen)")
     = WOk (s "/r/plz-out/bin/tools/gen.sh") (s "--in tools/gen_lib.a") (s "echo /r/plz-out/bin/tools/gen.sh").
Proof. split; vm_compute; reflexivity. Qed.
