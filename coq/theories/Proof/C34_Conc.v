(* C34 - tree copies running AT THE SAME TIME (a parallel build: one goroutine per target).

   Model/C34.v: a walker is a task stack (callback / getdents INTO the buffer / names OUT OF the
   buffer); `sys_run shared sched` lets the walkers of one world take steps in ANY order.

     private_walkers_independent   with a buffer per walk, after ANY schedule every walker and its
                                   destination are exactly what the walker alone reaches in as many
                                   steps as it was given; nothing but the destinations changes;
     solo_walk                     a walker alone computes run_walk over the pre-order walk, in a
                                   number of steps that depends on its tree only;
     concurrent_result             hence: a finished walker has the destination and the verdict of
                                   the sequential call;
     buffer_private                the code's buffer is per walk (TRANSLATED from walk.go);
     shared_buffer_breaks          with one buffer for all walks there is a schedule after which a
                                   walker reports success and an entry of its source is missing. *)
From PlzV Require Import Base.Harness Base.StrFacts Gen.C34Copy Model.C34 Proof.C34 Proof.C34_Merge.
From Coq Require Import Lia.

Lemma buffer_private : buffer_shared = false.
Proof. reflexivity. Qed.

(* ---------------------------------------------------------------- one step ------------------ *)
Lemma wstep_b rd wk d : w_b (fst (fst (wstep rd wk d))) = w_b wk.
Proof.
  unfold wstep. destruct (w_st wk), (w_todo wk) as [|[p n|p es|p es] r]; try reflexivity.
  - destruct (visit (w_k wk) (p, n) d); reflexivity.
  - destruct (entry_tasks p es rd); reflexivity.
Qed.

Lemma wstep_dest rd wk d :
  snd (fst (wstep rd wk d)) = d \/ exists n, snd (fst (wstep rd wk d)) = Some n.
Proof.
  unfold wstep. destruct (w_st wk), (w_todo wk) as [|[p n|p es|p es] r]; cbn [fst snd]; auto.
  - destruct (visit (w_k wk) (p, n) d); cbn [fst snd]; eauto.
  - destruct (entry_tasks p es rd); cbn [fst snd]; auto.
Qed.

Lemma assoc_put b d w : (d = assoc b w \/ exists n, d = Some n) -> assoc b (put b d w) = d.
Proof.
  intros H. destruct d as [n|]; cbn [put]; [apply assoc_set_same|].
  destruct H as [H|[n H]]; [now symmetry | discriminate].
Qed.

Lemma assoc_put_other x b d w : x <> b -> assoc x (put b d w) = assoc x w.
Proof. intros H. destruct d; cbn [put]; [now apply assoc_set_other | reflexivity]. Qed.

Lemma nth_replace_same : forall l i (x y : walker),
  nth_error l i = Some y -> nth_error (replace_nth i x l) i = Some x.
Proof.
  induction l as [|z l IH]; intros [|i] x y; cbn; try discriminate; [reflexivity | apply IH].
Qed.

Lemma nth_replace_other : forall l i j (x : walker),
  i <> j -> nth_error (replace_nth i x l) j = nth_error l j.
Proof.
  induction l as [|z l IH]; intros [|i] [|j] x H; cbn; try reflexivity; [congruence | apply IH; congruence].
Qed.

Lemma map_replace : forall l i (x y : walker),
  nth_error l i = Some y -> w_b x = w_b y -> map w_b (replace_nth i x l) = map w_b l.
Proof.
  induction l as [|z l IH]; intros [|i] x y; cbn; try discriminate.
  - intros H E. injection H as ->. now rewrite E.
  - intros H E. f_equal. now apply IH with (y := y).
Qed.

Lemma nodup_map_nth (l : list walker) i j a c :
  NoDup (map w_b l) -> nth_error l i = Some a -> nth_error l j = Some c -> w_b a = w_b c -> i = j.
Proof.
  intros Hnd Hi Hj E. apply (proj1 (NoDup_nth_error _) Hnd).
  - rewrite map_length. apply nth_error_Some. congruence.
  - rewrite (map_nth_error w_b _ _ Hi), (map_nth_error w_b _ _ Hj). now rewrite E.
Qed.

(* ---------------------------------------------------------------- any schedule -------------- *)
Definition proj (st : sys) (j : nat) : option (walker * dest) :=
  match nth_error (s_ws st) j with
  | Some wk => Some (wk, assoc (w_b wk) (s_w st))
  | None => None
  end.

Lemma step_names i st : map w_b (s_ws (sys_step false i st)) = map w_b (s_ws st).
Proof.
  unfold sys_step. destruct (nth_error (s_ws st) i) as [wk|] eqn:Ei; [|reflexivity].
  pose proof (wstep_b (w_buf wk) wk (assoc (w_b wk) (s_w st))) as Hb.
  destruct (wstep (w_buf wk) wk (assoc (w_b wk) (s_w st))) as [[wk' d'] bw]. cbn [fst s_ws] in *.
  apply map_replace with (y := wk); [assumption|]. destruct bw; exact Hb.
Qed.

Lemma step_outside i st x :
  ~ In x (map w_b (s_ws st)) -> assoc x (s_w (sys_step false i st)) = assoc x (s_w st).
Proof.
  intros Hx. unfold sys_step. destruct (nth_error (s_ws st) i) as [wk|] eqn:Ei; [|reflexivity].
  destruct (wstep (w_buf wk) wk (assoc (w_b wk) (s_w st))) as [[wk' d'] bw]. cbn [s_w].
  apply assoc_put_other. intros ->. apply Hx. apply in_map. eapply nth_error_In; eassumption.
Qed.

Lemma step_proj i st j :
  NoDup (map w_b (s_ws st)) ->
  proj (sys_step false i st) j = if Nat.eqb j i then option_map solo_step (proj st j) else proj st j.
Proof.
  intros Hnd. unfold sys_step. destruct (nth_error (s_ws st) i) as [wk|] eqn:Ei.
  - pose proof (wstep_b (w_buf wk) wk (assoc (w_b wk) (s_w st))) as Hb.
    pose proof (wstep_dest (w_buf wk) wk (assoc (w_b wk) (s_w st))) as Hd.
    destruct (Nat.eqb_spec j i) as [->|Hne].
    + unfold proj at 2. rewrite Ei. cbn [option_map]. unfold solo_step. cbn [fst snd].
      destruct (wstep (w_buf wk) wk (assoc (w_b wk) (s_w st))) as [[wk' d'] bw]. cbn [fst snd] in *.
      unfold proj. cbn [s_ws s_w]. rewrite (nth_replace_same _ _ _ wk Ei). f_equal.
      assert (w_b (match bw with Some b => with_buf wk' b | None => wk' end) = w_b wk) as Hb' by (destruct bw; exact Hb).
      rewrite Hb'. f_equal. apply assoc_put. destruct Hd as [Hd|Hd]; [left; exact Hd | right; exact Hd].
    + destruct (wstep (w_buf wk) wk (assoc (w_b wk) (s_w st))) as [[wk' d'] bw]. cbn [fst snd] in *.
      unfold proj. cbn [s_ws s_w]. rewrite nth_replace_other by congruence.
      destruct (nth_error (s_ws st) j) as [wj|] eqn:Ej; [|reflexivity]. f_equal. f_equal.
      apply assoc_put_other. intros E. apply Hne. symmetry. exact (nodup_map_nth _ _ _ _ _ Hnd Ei Ej (eq_sym E)).
  - destruct (Nat.eqb_spec j i) as [->|Hne]; [|reflexivity]. unfold proj. now rewrite Ei.
Qed.

(* WITH A BUFFER PER WALK: after ANY schedule, walker j and its destination are what walker j ALONE
   reaches in as many steps as the schedule gave it - whatever the others did in between *)
Theorem private_walkers_independent : forall sched st,
  NoDup (map w_b (s_ws st)) ->
  forall j, proj (sys_run false sched st) j
            = option_map (solo_iter (count_occ Nat.eq_dec sched j)) (proj st j).
Proof.
  induction sched as [|i r IH]; intros st Hnd j.
  - cbn. destruct (proj st j) as [[? ?]|]; reflexivity.
  - cbn [sys_run]. rewrite IH by (now rewrite step_names). rewrite step_proj by assumption.
    cbn [count_occ]. destruct (Nat.eq_dec i j) as [->|Hne].
    + rewrite Nat.eqb_refl. destruct (proj st j) as [sj|]; reflexivity.
    + destruct (Nat.eqb_spec j i) as [->|_]; [congruence | reflexivity].
Qed.

Lemma run_names : forall sc s0, map w_b (s_ws (sys_run false sc s0)) = map w_b (s_ws s0).
Proof. induction sc as [|j r IH]; intros s0; [reflexivity|]. cbn [sys_run]. now rewrite IH, step_names. Qed.

(* ... and nothing but the destinations is touched, at any moment of any schedule: the sources (and
   everything else) are what they were *)
Theorem private_walkers_outside : forall sched st x,
  ~ In x (map w_b (s_ws st)) -> assoc x (s_w (sys_run false sched st)) = assoc x (s_w st).
Proof.
  induction sched as [|i r IH]; intros st x Hx; [reflexivity|]. cbn [sys_run].
  rewrite IH by (now rewrite step_names). now apply step_outside.
Qed.

(* ---------------------------------------------------------------- a walker alone ------------ *)
Lemma solo_iter_add a : forall b s, solo_iter (a + b) s = solo_iter b (solo_iter a s).
Proof. induction a as [|a IH]; intros b s; [reflexivity | cbn [Nat.add solo_iter]; apply IH]. Qed.

Lemma finished_fix s : finished (fst s) = true -> solo_step s = s.
Proof.
  destruct s as [wk d]. unfold finished, solo_step, wstep. cbn [fst snd].
  destruct (w_st wk), (w_todo wk) as [|t r]; try discriminate; reflexivity.
Qed.

Lemma finished_iter n : forall s, finished (fst s) = true -> solo_iter n s = s.
Proof. induction n as [|n IH]; intros s H; [reflexivity|]. cbn [solo_iter]. rewrite finished_fix by exact H. now apply IH. Qed.

Lemma run_walk_app k : forall l1 l2 d,
  run_walk k (l1 ++ l2) d =
  match run_walk k l1 d with
  | WDone d' => run_walk k l2 d'
  | WFailed => WFailed
  | WUnsup => WUnsup
  end.
Proof.
  induction l1 as [|e l1 IH]; intros l2 d; [reflexivity|]. cbn [app]. rewrite !run_walk_cons.
  destruct (visit k e d); [apply IH | reflexivity | reflexivity].
Qed.

Definition pre (p : path) (e : path * node) : path * node := @pair path node (p ++ fst e) (snd e).

Definition child_tasks (p : path) (es : list (str * node)) : list task :=
  map (fun e => TNode (p ++ [fst e]) (snd e)) es.

Fixpoint walk_under (p : path) (es : list (str * node)) : list (path * node) :=
  match es with
  | [] => []
  | (x, c) :: r => map (pre (p ++ [x])) (walk c) ++ walk_under p r
  end.

Lemma map_pre_walk_dir p es : map (pre p) (walk (Dir es)) = (p, Dir es) :: walk_under p es.
Proof.
  rewrite walk_dir. cbn [map]. unfold pre at 1. cbn [fst snd]. rewrite app_nil_r. f_equal.
  induction es as [|[x c] r IH]; [reflexivity|]. cbn [walk_list walk_under]. rewrite map_app, map_map, IH. f_equal.
  apply map_ext. intros [q n]. unfold pre, pfx. cbn [fst snd]. now rewrite <- app_assoc.
Qed.

Lemma map_pre_nil l : map (pre []) l = l.
Proof. rewrite <- (map_id l) at 2. apply map_ext. now intros [q n]. Qed.

(* the names a walker finds in ITS OWN buffer are the entries of the directory it is reading *)
Lemma entry_tasks_sub p es : forall l,
  (forall x c, In (x, c) l -> assoc x es = Some c) ->
  entry_tasks p es (map fst l) = Some (child_tasks p l).
Proof.
  induction l as [|[x c] r IH]; intros H; [reflexivity|]. cbn [map fst entry_tasks child_tasks snd].
  rewrite (H x c (or_introl eq_refl)), IH; [reflexivity|]. intros y cy Hin. apply H. now right.
Qed.

Lemma entry_tasks_own p es :
  nodupb (map fst es) = true -> entry_tasks p es (map fst es) = Some (child_tasks p es).
Proof. intros Hnd. apply entry_tasks_sub. intros x c. now apply in_assoc_nodup. Qed.

Definition done_as (res : wres) (k : cfg) (b : str) (r : list task) (s : walker * dest) : Prop :=
  match res with
  | WDone d' => exists buf, s = (Walker k b r buf Running, d')
  | WFailed => w_st (fst s) = Errd
  | WUnsup => w_st (fst s) = Unsupd
  end.

Definition node_ok (n : node) : Prop :=
  forall k b p r buf d, exists steps,
    done_as (run_walk k (map (pre p) (walk n)) d) k b r
            (solo_iter steps (Walker k b (TNode p n :: r) buf Running, d)).

Lemma solo_leaf n : (forall es, n <> Dir es) -> node_ok n.
Proof.
  intros Hn. unfold node_ok. intros k b p r buf d. exists 1%nat.
  assert (walk n = [([], n)]) as -> by (destruct n as [i pm c|es|t]; [reflexivity | now destruct (Hn es) | reflexivity]).
  cbn [map]. unfold pre at 1. cbn [fst snd]. rewrite app_nil_r. rewrite run_walk_cons.
  cbn [solo_iter]. unfold solo_step, wstep. cbn [fst snd w_st w_todo w_buf w_k].
  destruct (visit k (p, n) d) as [m| |]; cbn [run_walk done_as fst snd w_st stop]; try reflexivity.
  exists buf. destruct n as [i pm c|es|t]; [reflexivity | now destruct (Hn es) | reflexivity].
Qed.

Lemma solo_children k b p : forall l,
  Forall (fun e => node_ok (snd e)) l ->
  forall r buf d, exists steps,
    done_as (run_walk k (walk_under p l) d) k b r
            (solo_iter steps (Walker k b (child_tasks p l ++ r) buf Running, d)).
Proof.
  induction l as [|[x c] l IH]; intros Hall r buf d.
  - exists 0%nat. cbn. now exists buf.
  - inversion Hall as [|e l' Hc Hl]; subst. cbn [snd] in Hc.
    cbn [walk_under child_tasks map fst snd app]. rewrite run_walk_app.
    destruct (Hc k b (p ++ [x]) (child_tasks p l ++ r) buf d) as [s1 H1].
    destruct (run_walk k (map (pre (p ++ [x])) (walk c)) d) as [d'| |]; cbn [done_as] in H1.
    + destruct H1 as [buf' H1]. destruct (IH Hl r buf' d') as [s2 H2].
      exists (s1 + s2)%nat. rewrite solo_iter_add. unfold child_tasks in H1. rewrite H1. exact H2.
    + exists s1. exact H1.
    + exists s1. exact H1.
Qed.

Lemma solo_node : forall n, wfb n = true -> node_ok n.
Proof.
  induction n as [i pm c|t|es IH] using node_ind2; intros Hwf.
  - apply solo_leaf. discriminate.
  - apply solo_leaf. discriminate.
  - apply wfb_dir_parts in Hwf as [Hnd Hwfl].
    assert (Forall (fun e => node_ok (snd e)) es) as Hall.
    { clear Hnd. induction es as [|e r IHr]; constructor; inversion IH; inversion Hwfl; subst; auto. }
    unfold node_ok. intros k b p r buf d. rewrite map_pre_walk_dir, run_walk_cons.
    destruct (visit k (p, Dir es) d) as [m| |] eqn:Ev.
    + destruct (solo_children k b p es Hall r (map fst es) (Some m)) as [s2 H2].
      exists (3 + s2)%nat. rewrite solo_iter_add.
      assert (solo_iter 3 (Walker k b (TNode p (Dir es) :: r) buf Running, d)
              = (Walker k b (child_tasks p es ++ r) (map fst es) Running, Some m)) as ->; [|exact H2].
      cbn [solo_iter]. unfold solo_step at 3. unfold wstep. cbn [fst snd w_st w_todo w_buf w_k]. rewrite Ev.
      cbn [todo w_k w_b w_buf w_st]. unfold solo_step at 2. unfold wstep. cbn [fst snd w_st w_todo w_buf w_k todo with_buf w_b].
      unfold solo_step. unfold wstep. cbn [fst snd w_st w_todo w_buf w_k todo with_buf w_b].
      rewrite (entry_tasks_own p es Hnd). reflexivity.
    + exists 1%nat. cbn [solo_iter]. unfold solo_step, wstep. cbn [fst snd w_st w_todo w_buf w_k]. rewrite Ev. reflexivity.
    + exists 1%nat. cbn [solo_iter]. unfold solo_step, wstep. cbn [fst snd w_st w_todo w_buf w_k]. rewrite Ev. reflexivity.
Qed.

Definition verdict (res : wres) (s : walker * dest) : Prop :=
  match res with
  | WDone d' => w_st (fst s) = Running /\ snd s = d'
  | WFailed => w_st (fst s) = Errd
  | WUnsup => w_st (fst s) = Unsupd
  end.

(* A WALKER ALONE computes the sequential call: after n steps (n depends on its tree, flags and
   destination only) and for ever after it has finished, with run_walk's destination and verdict *)
Theorem solo_walk k b src d :
  wfb src = true ->
  exists n, forall m, n <= m ->
    finished (fst (solo_iter m (start (k, b, src), d))) = true
    /\ verdict (run_walk k (walk src) d) (solo_iter m (start (k, b, src), d)).
Proof.
  intros Hwf. destruct (solo_node src Hwf k b [] [] [] d) as [n Hn]. rewrite map_pre_nil in Hn.
  exists n. intros m Hm. replace m with (n + (m - n))%nat by lia. rewrite solo_iter_add.
  unfold start. set (sn := solo_iter n (Walker k b [TNode [] src] [] Running, d)) in *.
  assert (finished (fst sn) = true /\ verdict (run_walk k (walk src) d) sn) as [Hf Hv].
  { destruct (run_walk k (walk src) d) as [d'| |]; cbn [done_as verdict] in *.
    - destruct Hn as [buf ->]. repeat split.
    - split; [|exact Hn]. unfold finished. now rewrite Hn.
    - split; [|exact Hn]. unfold finished. now rewrite Hn. }
  rewrite finished_iter by exact Hf. now split.
Qed.

(* ---------------------------------------------------------------- the two together ---------- *)
Definition dest_of (sp : cfg * str * node) : str := snd (fst sp).

Lemma map_start_names specs : map w_b (map start specs) = map dest_of specs.
Proof. rewrite map_map. apply map_ext. now intros [[k b] src]. Qed.

(* ANY number of tree copies into different destinations of one world, ANY interleaving of their
   steps: each is the walker alone; once finished it holds the sequential call's destination and
   verdict; nothing else in the world - the sources - is ever touched. *)
Theorem concurrent_result w buf0 specs sched :
  NoDup (map dest_of specs) ->
  Forall (fun sp => wfb (snd sp) = true) specs ->
  let st := sys_run false sched (Sys w buf0 (map start specs)) in
  (forall x, ~ In x (map dest_of specs) -> assoc x (s_w st) = assoc x w)
  /\ forall i k b src, nth_error specs i = Some (k, b, src) ->
     exists wk, nth_error (s_ws st) i = Some wk
       /\ (wk, assoc b (s_w st)) = solo_iter (count_occ Nat.eq_dec sched i) (start (k, b, src), assoc b w)
       /\ (finished wk = true -> verdict (run_walk k (walk src) (assoc b w)) (wk, assoc b (s_w st))).
Proof.
  intros Hnd Hwf st. split.
  - intros x Hx. unfold st. rewrite private_walkers_outside; [reflexivity|]. cbn [s_ws]. now rewrite map_start_names.
  - intros i k b src Hi.
    pose proof (private_walkers_independent sched (Sys w buf0 (map start specs))) as H.
    cbn [s_ws] in H. rewrite map_start_names in H. specialize (H Hnd i). fold st in H.
    unfold proj in H. cbn [s_ws s_w] in H. rewrite (map_nth_error start _ _ Hi) in H. cbn [option_map] in H.
    destruct (nth_error (s_ws st) i) as [wk|] eqn:Ewk; [|discriminate]. injection H as H.
    assert (w_b wk = b) as Hb.
    { clear H.
      assert (map w_b (s_ws st) = map dest_of specs) as Hn.
      { unfold st. rewrite run_names. cbn [s_ws]. apply map_start_names. }
      pose proof (map_nth_error w_b _ _ Ewk) as E1. rewrite Hn in E1.
      rewrite (map_nth_error dest_of _ _ Hi) in E1. now injection E1 as <-. }
    exists wk. split; [reflexivity|]. rewrite Hb in H. change (w_b (start (k, b, src))) with b in H. split; [exact H|].
    intros Hf. destruct (solo_walk k b src (assoc b w) ) as [n Hn].
    { apply (proj1 (Forall_forall _ _) Hwf (k, b, src)). eapply nth_error_In; eassumption. }
    set (c := count_occ Nat.eq_dec sched i) in *.
    destruct (Hn (c + n)%nat ltac:(lia)) as [_ Hv]. rewrite solo_iter_add in Hv.
    pose proof (f_equal (solo_iter n) H) as H'. rewrite finished_iter in H' by exact Hf.
    rewrite H'. exact Hv.
Qed.

(* ---------------------------------------------------------------- one buffer for all walks -- *)
(* What a package-level buffer does: walker 0 copies {a, b}, walker 1 copies {a}.  Walker 1's
   getdents lands between walker 0's getdents and its parse: walker 0 finds only `a` in the buffer,
   finishes without an error, and `b` is missing from its destination. *)
Definition ex_two : world :=
  [ (s "s0", Dir [ (s "a", File 1 420 (s "A")); (s "b", File 2 420 (s "B")) ]);
    (s "s1", Dir [ (s "a", File 3 420 (s "X")) ]) ]%N.

Definition ex_specs : list (cfg * str * node) :=
  [ (recursive_copy 420, s "d0", Dir [ (s "a", File 1 420 (s "A")); (s "b", File 2 420 (s "B")) ]);
    (recursive_copy 420, s "d1", Dir [ (s "a", File 3 420 (s "X")) ]) ]%N.

Definition ex_sched : list nat := [0; 0; 1; 1; 0; 0; 0; 1; 1; 1; 1]%nat.

Theorem shared_buffer_breaks :
  let st := sys_run true ex_sched (Sys ex_two [] (map start ex_specs)) in
  map finished (s_ws st) = [true; true]
  /\ map w_st (s_ws st) = [Running; Running]
  /\ assoc (s "d0") (s_w st) = Some (Dir [ (s "a", File 0 420 (s "A")) ])%N          (* b is missing *)
  /\ copy_top (recursive_copy 420) ex_two (s "s0") (s "d0")
     = Done (Dir [ (s "a", File 0 420 (s "A")); (s "b", File 0 420 (s "B")) ])%N     (* the sequential call *)
  /\ (* the same schedule with a buffer per walk *)
     assoc (s "d0") (s_w (sys_run false ex_sched (Sys ex_two [] (map start ex_specs))))
     = Some (Dir [ (s "a", File 0 420 (s "A")); (s "b", File 0 420 (s "B")) ])%N.
Proof. vm_compute. repeat split. Qed.
