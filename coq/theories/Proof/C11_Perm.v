(* C11 - which content belongs to which runtime file.  RuntimeHash writes only content digests (no names), so
   the ONLY thing that ties a content to its runtime file is the POSITION of its digest in the combining hash.
   This file proves, from how the source combines the digests (Gen.C11RuntimeHash.files_combine, read off
   RuntimeHash by gotrans on every run), that the runtime key records the assignment position -> content, so
   that an edit which PERMUTES the contents among the runtime files (swap the contents of two data files,
   rotate three, swap the outputs of two data dependencies) always changes the key and is never answered from
   a stored result.  All of it fails when the digests are sorted before they are combined. *)
From PlzV Require Import Base.Harness Base.StrFacts Gen.C11RuntimeHash Model.C11 Proof.C11.
From Coq Require Import Lia Permutation.

(* ---------------------------------------------------------------------------------------------- *)
(* the two facts read off the source *)

(* the digests are written in the order IterRuntimeFiles yields the files (the only place that looks at
   Gen.files_combine: with CSorted this is false of every list that is not sorted) *)
Lemma combine_in_order l : combine_files files_combine l = l.
Proof. reflexivity. Qed.

(* the content digest is among what is written per file (Gen.loop_writes) *)
Lemma file_stream_content f g : file_stream f = file_stream g -> path_stream (rf_node f) = path_stream (rf_node g).
Proof. unfold file_stream, loop_writes; cbn [map]. intros H; injection H as H; exact H. Qed.

(* ---------------------------------------------------------------------------------------------- *)
(* the key records the assignment *)

Lemma map_file_stream_assignment l l' :
  map file_stream l = map file_stream l' ->
  map (fun f => path_stream (rf_node f)) l = map (fun f => path_stream (rf_node f)) l'.
Proof.
  revert l'; induction l as [|f l IH]; destruct l' as [|g l']; cbn [map]; try discriminate; [reflexivity|].
  intros H. pose proof (f_equal (@hd (list str) []) H) as H1. pose proof (f_equal (@tl (list str)) H) as H2.
  cbn [hd tl] in H1, H2. f_equal; [exact (file_stream_content f g H1) | exact (IH l' H2)].
Qed.

Theorem key_records_assignment a b : runtime_key a = runtime_key b -> assignment a = assignment b.
Proof.
  unfold runtime_key, assignment; rewrite !combine_in_order.
  intros H; injection H as _ H. exact (map_file_stream_assignment _ _ H).
Qed.

(* ---------------------------------------------------------------------------------------------- *)
(* histories: a reused result was produced with every content at its current position *)

Theorem cached_has_current_assignment c pre x :
  report_at c pre x = CachedPass ->
  exists pre1 y post1, pre = pre1 ++ y :: post1 /\ report_at c pre1 y = RanPass /\ s_args y = []
                       /\ assignment (s_def y) = assignment (s_def x).
Proof.
  intros Hr. destruct (cached_only_from_passing_run c pre x Hr) as [(pre1 & y & post1 & -> & Hy & Hk & Ha) _].
  exists pre1, y, post1; repeat split; auto. exact (key_records_assignment _ _ Hk).
Qed.

Theorem cached_assignment_by_position c h n x :
  nth_error h n = Some x ->
  nth_error (reports c h) n = Some CachedPass ->
  exists i y, i < n /\ nth_error h i = Some y /\ nth_error (reports c h) i = Some RanPass
              /\ s_args y = [] /\ assignment (s_def y) = assignment (s_def x).
Proof.
  intros Hn Hr. destruct (no_failure_cached_by_position c h n x Hn) as [H _].
  destruct (H Hr) as (i & y & Hi & Hy & Hry & _ & Hk & Ha & _).
  exists i, y; repeat split; auto. exact (key_records_assignment _ _ Hk).
Qed.

(* ---------------------------------------------------------------------------------------------- *)
(* permutation edits *)

Lemma with_nodes_streams l : forall ns, length ns = length l ->
  map (fun f => path_stream (rf_node f)) (with_nodes l ns) = map path_stream ns.
Proof.
  induction l as [|f l IH]; intros [|n ns]; cbn [length with_nodes map]; try discriminate; [reflexivity|].
  intros H; injection H as H. cbn [rf_node]. f_equal. exact (IH ns H).
Qed.

Lemma with_nodes_dests l : forall ns, map rf_dest (with_nodes l ns) = map rf_dest l.
Proof.
  induction l as [|f l IH]; intros [|n ns]; cbn [with_nodes map]; try reflexivity.
  cbn [rf_dest]. f_equal. apply IH.
Qed.

(* t' is t after its runtime files got the nodes ns, a permutation of the nodes they had: unless every
   position keeps a content equal to the one it had, the key changes *)
Theorem permuted_contents_change_key t t' ns :
  Permutation ns (map rf_node (runtime_files (t_files t))) ->
  runtime_files (t_files t') = with_nodes (runtime_files (t_files t)) ns ->
  map path_stream ns <> assignment t ->
  runtime_key t' <> runtime_key t.
Proof.
  intros Hp Hf Hne Hk. apply key_records_assignment in Hk. apply Hne. rewrite <- Hk.
  unfold assignment. rewrite Hf. symmetry. apply with_nodes_streams.
  rewrite (Permutation_length Hp), map_length. reflexivity.
Qed.

(* the edit at the level of histories (of any length): when the current test directory is a content
   permutation, not the identity on contents, of the test directory of EVERY earlier step, nothing stored
   answers for it - the test runs *)
Definition permutation_of (y x : tdef) : Prop :=
  exists ns, Permutation ns (map rf_node (runtime_files (t_files y)))
             /\ runtime_files (t_files x) = with_nodes (runtime_files (t_files y)) ns
             /\ map path_stream ns <> assignment y.

Theorem permutation_edit_never_reuses c pre x :
  (forall y, In y pre -> permutation_of (s_def y) (s_def x)) ->
  report_at c pre x <> CachedPass.
Proof.
  intros Hall Hr. destruct (cached_only_from_passing_run c pre x Hr) as [(pre1 & y & post1 & -> & _ & Hk & _) _].
  destruct (Hall y) as (ns & Hp & Hf & Hne); [rewrite in_app_iff; cbn; tauto|].
  exact (permuted_contents_change_key _ _ ns Hp Hf Hne (eq_sym Hk)).
Qed.

(* ---------------------------------------------------------------------------------------------- *)
(* the classifier never has to name the class ContentsPermuted *)

Lemma list_eqb_str_refl (l : list str) : list_eqb str_eqb l l = true.
Proof. destruct (list_eqb_spec str_eqb str_eqb_reflect l l) as [_|H]; [reflexivity | congruence]. Qed.

Lemma no_contents_permuted_pair a b : pair_defect a b <> Some ContentsPermuted.
Proof.
  unfold pair_defect. destruct (key_eqb (runtime_key a) (runtime_key b)) eqn:Hk; cbn [andb]; [|discriminate].
  destruct (negb (same_inputs_b a b)); [|discriminate].
  destruct (negb (tcmd_eqb _ _)); [discriminate|].
  destruct (negb (list_eqb str_eqb (map rf_dest _) _)); [discriminate|].
  apply key_eqb_eq, key_records_assignment in Hk. unfold assignment in Hk. rewrite Hk, list_eqb_str_refl.
  discriminate.
Qed.

Lemma first_some_some {A B} (f : A -> option B) l d : first_some f l = Some d -> exists x, In x l /\ f x = Some d.
Proof.
  induction l as [|a l IH]; cbn; [discriminate|].
  destruct (f a) eqn:Hfa.
  - intros [= <-]. exists a; auto.
  - intros H. destruct (IH H) as (x & Hin & Hx). exists x; auto.
Qed.

Theorem no_contents_permuted h : defect_class h <> Some ContentsPermuted.
Proof.
  unfold defect_class. intros H.
  destruct (first_some_some _ _ _ H) as (x & _ & Hx).
  destruct (first_some_some _ _ _ Hx) as (y & _ & Hy).
  exact (no_contents_permuted_pair _ _ Hy).
Qed.

(* ---------------------------------------------------------------------------------------------- *)
(* the concrete history: data = [a.txt; b.txt], the test passes iff p/a.txt holds "ok"; then the contents of
   the two files are swapped *)

Definition sw_files (a b : str) : list rfile :=
  [ {| rf_role := RData; rf_dest := s "p/a.txt"; rf_node := File a |};
    {| rf_role := RData; rf_dest := s "p/b.txt"; rf_node := File b |} ].

Definition w_swap : list step :=
  [ plain (mk (TFileHas (s "p/a.txt") (s "ok")) (sw_files (s "ok") (s "no")));
    plain (mk (TFileHas (s "p/a.txt") (s "ok")) (sw_files (s "no") (s "ok"))) ].

Lemma w_swap_reruns : forall c, reports c w_swap = [RanPass; RanFail] /\ defect_class w_swap = None.
Proof. intros c; destruct c; vm_compute; split; reflexivity. Qed.

Lemma w_swap_is_permutation :
  permutation_of (s_def (nth 0 w_swap (plain (mk TTrue [])))) (s_def (nth 1 w_swap (plain (mk TTrue [])))).
Proof.
  exists [File (s "bin"); File (s "no"); File (s "ok")]. split; [|split].
  - vm_compute. apply perm_skip, perm_swap.
  - reflexivity.
  - vm_compute. discriminate.
Qed.
