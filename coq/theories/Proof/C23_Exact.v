(* C23 - `plz query deps --level N` is EXACT whenever no target is reachable from the roots at two different
   costs (unique_cost), for every level limit N >= -1, every graph, hidden flag and root list.
   The known finding (deps-level-cutoff-shadowed-by-deeper-first-visit) therefore lives entirely in the
   complement: some target is reachable by two paths of different cost.
   unique_costb (Model/C23.v) is an executable sufficient test for unique_cost (unique_costb_sound). *)
From Coq Require Import Lia.
From PlzV Require Import Base.Harness Model.C23 Proof.C23_Spec Proof.C23.

(* ---- dependency paths seen from their last edge ---- *)
Inductive wpathR (g : graph) (hid : bool) (u : label) : label -> Z -> Prop :=
| wr_one : forall v, edge g [] u v -> wpathR g hid u v (ecost g hid u v)
| wr_snoc : forall v w c, wpathR g hid u v c -> edge g [] v w -> wpathR g hid u w (c + ecost g hid v w)%Z.

Lemma wpathR_cons : forall g hid u v w c, edge g [] u v -> wpathR g hid v w c -> wpathR g hid u w (ecost g hid u v + c)%Z.
Proof.
  intros g hid u v w c Huv H. induction H as [x Hvx | x y c Hvx IH Hxy].
  - apply wr_snoc; [apply wr_one; exact Huv | exact Hvx].
  - rewrite Z.add_assoc. apply wr_snoc; [exact IH | exact Hxy].
Qed.

Lemma wpath_R : forall g hid u w c, wpath g hid u w c -> wpathR g hid u w c.
Proof.
  intros g hid u w c H. induction H as [u v Huv | u v w c Huv Hvw IH].
  - apply wr_one. exact Huv.
  - apply wpathR_cons; assumption.
Qed.

Lemma wpathR_wpath : forall g hid u w c, wpathR g hid u w c -> wpath g hid u w c.
Proof.
  intros g hid u w c H. induction H as [v Huv | v w c Huv IH Hvw].
  - apply wp_one. exact Huv.
  - apply wpath_snoc; assumption.
Qed.

Lemma wpathR_nonneg : forall g hid u w c, wpathR g hid u w c -> (0 <= c)%Z.
Proof.
  intros g hid u w c H. induction H as [v Huv | v w c Huv IH Hvw].
  - apply ecost_nonneg.
  - pose proof (ecost_nonneg g hid v w). lia.
Qed.

(* whatever deps prints is entered by an edge that costs one level *)
Lemma visible_ecost : forall g hid u t, visible g hid t -> edge g [] u t -> ecost g hid u t = 1%Z.
Proof.
  intros g hid u t [iv [Hf Hv]] [iu [Hfu _]]. unfold ecost. destruct hid; [reflexivity|].
  rewrite Hfu, Hf. destruct Hv as [Hv|Hv]; [discriminate|]. rewrite Hv. reflexivity.
Qed.

Section DepsExact.
  Variable g : graph.
  Variable hid : bool.
  Variable lim : Z.
  Variable roots : list label.

  (* t can be reached from a root by a non-empty dependency path of cost c *)
  Definition wcost (t : label) (c : Z) : Prop := exists r, In r roots /\ wpath g hid r t c.

  (* no target is reachable from the roots at two different costs *)
  Definition unique_cost : Prop := forall t c c', wcost t c -> wcost t c' -> c = c'.

  Hypothesis U : unique_cost.

  (* a target met at cost c is expanded *)
  Definition below (c : Z) : Prop := lim = (-1)%Z \/ (c < lim)%Z.

  (* u is fully expanded if it should be *)
  Definition closedL (u : label) (d : list label) : Prop := forall c, wcost u c -> below c -> closedD g u d.

  Definition dl_ok (st st' : dstate) : Prop :=
    incl (fst st) (fst st') /\ incl (snd st) (snd st') /\
    forall u, In u (fst st') -> In u (fst st) \/ (closedL u (fst st') /\ printedV g hid u (snd st')).

  Lemma closedL_mono : forall u d d', incl d d' -> closedL u d -> closedL u d'.
  Proof. intros u d d' Hi Hc c Hw Hb. eapply closedD_mono; [exact Hi | apply (Hc c); assumption]. Qed.

  Lemma dl_refl : forall st, dl_ok st st.
  Proof. intros st. split; [apply incl_refl|]. split; [apply incl_refl|]. intros u Hu. left. exact Hu. Qed.

  Lemma dl_trans : forall a b c, dl_ok a b -> dl_ok b c -> dl_ok a c.
  Proof.
    intros a b c [H1 [H2 H3]] [K1 [K2 K3]]. split; [eapply incl_tran; eauto|]. split; [eapply incl_tran; eauto|].
    intros u Hu. destruct (K3 u Hu) as [Hb|Hg]; [|right; exact Hg].
    destruct (H3 u Hb) as [Ha|[Hc Hp]]; [left; exact Ha|]. right. split.
    - eapply closedL_mono; eauto.
    - eapply printedV_mono; eauto.
  Qed.

  (* the level a call is made with is a cost of its target (0 for a root) *)
  Definition tcost (t : label) (c : Z) : Prop := (In t roots /\ c = 0%Z) \/ wcost t c.

  Lemma tcost_step : forall t it cur l, find g t = Some it -> In l (succs g [] it) -> tcost t cur ->
    wcost l (cur + ecost g hid t l)%Z.
  Proof.
    intros t it cur l Hf Hl [[Hr Hc]|[r [Hr Hw]]].
    - subst cur. exists t. split; [exact Hr|]. rewrite Z.add_0_l. apply wp_one. exists it. auto.
    - exists r. split; [exact Hr|]. apply wpath_snoc; [exact Hw|]. exists it. auto.
  Qed.

  Lemma deps_loop_exact :
    forall (rec : label -> Z -> dstate -> option dstate) t it cur,
      find g t = Some it -> tcost t cur -> (0 <= cur)%Z ->
      (forall l c st st', wcost l c -> (0 <= c)%Z -> rec l c st = Some st' -> dl_ok st st' /\ closedL l (fst st')) ->
      forall ls st st', incl ls (succs g [] it) -> deps_loop rec g hid it cur ls st = Some st' ->
        dl_ok st st' /\ forall l, In l ls -> In l (fst st').
  Proof.
    intros rec t it cur Hf Ht H0 Hrec. induction ls as [|l ls IH]; intros st st' Hsub H; cbn [deps_loop] in H.
    - injection H as <-. split; [apply dl_refl|]. intros l [].
    - assert (Hsub' : incl ls (succs g [] it)) by (intros z Hz; apply Hsub; right; exact Hz).
      destruct (mem l (fst st)) eqn:Em.
      { destruct (IH _ _ Hsub' H) as [Hd Hall]. split; [exact Hd|]. intros z [Hz|Hz]; [|apply Hall; exact Hz].
        subst z. apply Hd. apply mem_In. exact Em. }
      destruct (find g l) as [il|] eqn:Hfl.
      2:{ destruct (IH _ _ Hsub' H) as [Hd Hall]. cbn [fst snd] in *. split.
          - eapply dl_trans; [|exact Hd]. split; [intros z Hz; right; exact Hz|]. split; [apply incl_refl|].
            cbn [fst snd]. intros u [Hu|Hu]; [|left; exact Hu]. subst u. right. split.
            + intros c _ _ v [iu [Hf' _]]. congruence.
            + intros [iv [Hf' _]]. congruence.
          - intros z [Hz|Hz]; [|apply Hall; exact Hz]. subst z. apply Hd. left. reflexivity. }
      match type of H with match ?r with _ => _ end = _ => destruct r as [st1|] eqn:Er; [|discriminate] end.
      destruct (IH _ _ Hsub' H) as [Hd Hall].
      pose proof (tcost_step t it cur l Hf (Hsub l (or_introl eq_refl)) Ht) as Hw.
      assert (Hcost : ecost g hid t l = if hid || negb (has_parent l il) then 1%Z
                                        else if N.eqb (t_parent il) (t_parent it) then 0%Z else 1%Z).
      { unfold ecost. destruct hid; [reflexivity|]. rewrite Hf, Hfl. cbn [orb].
        destruct (has_parent l il); cbn [negb andb]; reflexivity. }
      assert (Hstep : dl_ok st st1 /\ In l (fst st1)).
      { destruct (hid || negb (has_parent l il)) eqn:Ev.
        - rewrite Hcost in Hw. apply Hrec in Er; [|exact Hw|lia]. destruct Er as [[R1 [R2 R3]] Rc]. cbn [fst snd] in *. split.
          + split; [intros z Hz; apply R1; right; exact Hz|]. split; [intros z Hz; apply R2; apply in_or_app; left; exact Hz|].
            intros u Hu. destruct (R3 u Hu) as [[Hu1|Hu1]|Hu1]; [|left; exact Hu1|right; exact Hu1].
            subst u. right. split; [exact Rc|]. intros _. apply in_map_iff. exists (cur, l). split; [reflexivity|].
            apply R2. apply in_or_app. right. left. reflexivity.
          + apply R1. left. reflexivity.
        - assert (Hnv : ~ visible g hid l).
          { intros [iv [Hf' Hv]]. rewrite Hfl in Hf'. injection Hf' as <-. apply orb_false_iff in Ev. destruct Ev as [Eh Ep].
            apply negb_false_iff in Ep. destruct Hv; congruence. }
          assert (Hgen : forall c, wcost l c -> (0 <= c)%Z -> rec l c (l :: fst st, snd st) = Some st1 -> dl_ok st st1 /\ In l (fst st1)).
          { intros c Hwc Hc0 Hr. apply Hrec in Hr; [|exact Hwc|exact Hc0]. destruct Hr as [[R1 [R2 R3]] Rc]. cbn [fst snd] in *. split.
            - split; [intros z Hz; apply R1; right; exact Hz|]. split; [exact R2|].
              intros u Hu. destruct (R3 u Hu) as [[Hu1|Hu1]|Hu1]; [|left; exact Hu1|right; exact Hu1].
              subst u. right. split; [exact Rc|]. intros Hv. contradiction.
            - apply R1. left. reflexivity. }
          rewrite Hcost in Hw. destruct (N.eqb (t_parent il) (t_parent it)).
          + rewrite Z.add_0_r in Hw. eapply Hgen; [exact Hw | lia | exact Er].
          + eapply Hgen; [exact Hw | lia | exact Er]. }
      destruct Hstep as [Hs Hl]. split; [eapply dl_trans; eauto|].
      intros z [Hz|Hz]; [|apply Hall; exact Hz]. subst z. apply Hd. exact Hl.
  Qed.

  Lemma deps_exact_call : forall fuel t cur st st', deps fuel g hid lim t cur st = Some st' ->
    tcost t cur -> (0 <= cur)%Z -> dl_ok st st' /\ (below cur -> closedD g t (fst st')).
  Proof.
    induction fuel as [|f IH]; intros t cur st st' H Ht H0; cbn [deps] in H; [discriminate|].
    destruct (Z.eqb cur lim) eqn:El.
    { injection H as <-. split; [apply dl_refl|]. apply Z.eqb_eq in El. intros [Hb|Hb]; lia. }
    destruct (find g t) as [it|] eqn:Hf.
    - destruct (deps_loop_exact (deps f g hid lim) t it cur Hf Ht H0) with (ls := succs g [] it) (st := st) (st' := st')
        as [Hd Hall]; [|apply incl_refl|exact H|].
      + intros l c s s' Hw Hc Hr. destruct (IH l c s s' Hr (or_intror Hw) Hc) as [Hd Hcl]. split; [exact Hd|].
        intros c' Hw' Hb. rewrite (U l c' c Hw' Hw) in Hb. apply Hcl. exact Hb.
      + split; [exact Hd|]. intros _ v [iu [Hfu Hv]]. rewrite Hf in Hfu. injection Hfu as <-. apply Hall. exact Hv.
    - injection H as <-. split; [apply dl_refl|]. intros _ v [iu [Hfu _]]. congruence.
  Qed.

  Lemma deps_roots_exact : forall rs st st', incl rs roots -> deps_roots g hid lim rs st = Some st' ->
    dl_ok st st' /\ forall r, In r rs -> below 0 -> closedD g r (fst st').
  Proof.
    induction rs as [|r rs IH]; intros st st' Hi H; cbn [deps_roots] in H.
    - injection H as <-. split; [apply dl_refl|]. intros r [].
    - destruct (deps (fuel_of g) g hid lim r 0 st) as [st1|] eqn:E1; [|discriminate].
      destruct (deps_exact_call _ _ _ _ _ E1 (or_introl (conj (Hi r (or_introl eq_refl)) eq_refl)) (Z.le_refl 0)) as [Hd1 Hc1].
      destruct (IH _ _ (fun z Hz => Hi z (or_intror Hz)) H) as [Hd2 Hall].
      split; [eapply dl_trans; eauto|]. intros z [Hz|Hz] Hb; [|apply Hall; assumption]. subst z.
      eapply closedD_mono; [apply Hd2 | apply Hc1; exact Hb].
  Qed.

  Lemma deps_exact_complete : forall st, deps_roots g hid lim roots ([], []) = Some st ->
    forall t, dwithin g hid roots lim t -> In t (map snd (snd st)).
  Proof.
    intros st E t [Hv [r [c [Hr [Hw Hlim]]]]].
    destruct (deps_roots_exact roots _ _ (incl_refl _) E) as [[_ [_ H3]] Hroots]. cbn [fst snd] in H3.
    assert (Hall : forall x, In x (fst st) -> closedL x (fst st) /\ printedV g hid x (snd st)).
    { intros x Hx. destruct (H3 x Hx) as [[]|Hg]. exact Hg. }
    assert (HA : forall r u c, wpathR g hid r u c -> In r roots -> below c -> In u (fst st)).
    { clear r c Hr Hw Hlim. intros r u c Hp Hr. induction Hp as [v Hrv | v w c Hp IH Hvw]; intros Hb.
      - apply (Hroots r Hr); [|exact Hrv]. pose proof (ecost_nonneg g hid r v). destruct Hb as [Hb|Hb]; [left; exact Hb | right; lia].
      - pose proof (ecost_nonneg g hid v w) as He. pose proof (wpathR_nonneg _ _ _ _ _ Hp) as Hc0.
        assert (Hb' : below c) by (destruct Hb as [Hb|Hb]; [left; exact Hb | right; lia]).
        specialize (IH Hb'). destruct (Hall v IH) as [Hcl _].
        apply (Hcl c); [exists r; split; [exact Hr | apply wpathR_wpath; exact Hp] | exact Hb' | exact Hvw]. }
    assert (Ht : In t (fst st)).
    { apply wpath_R in Hw. inversion Hw as [v Hrt Hv1 Hc | v w c' Hp Hvt Hv1 Hc]; subst.
      - rewrite (visible_ecost g hid r t Hv Hrt) in Hlim.
        apply (Hroots r Hr); [|exact Hrt]. destruct Hlim as [Hl|Hl]; [left; exact Hl | right; lia].
      - rewrite (visible_ecost g hid v t Hv Hvt) in Hlim.
        assert (Hb' : below c') by (destruct Hlim as [Hl|Hl]; [left; exact Hl | right; lia]).
        pose proof (HA r v c' Hp Hr Hb') as Hin. destruct (Hall v Hin) as [Hcl _].
        apply (Hcl c'); [exists r; split; [exact Hr | apply wpathR_wpath; exact Hp] | exact Hb' | exact Hvt]. }
    apply (Hall t Ht). exact Hv.
  Qed.
End DepsExact.

(* `plz query deps --level lim` prints EXACTLY the visible targets within lim steps, provided costs are unique *)
Theorem deps_exact_unique_cost :
  forall g roots hid lim, (-1 <= lim)%Z -> unique_cost g hid roots ->
    exists out, deps_query g roots hid lim = Some out /\
      forall t, In t (map snd out) <-> dwithin g hid roots lim t.
Proof.
  intros g roots hid lim Hl U.
  destruct (deps_sound_proof g roots hid lim Hl) as [out [Hq Hs]].
  exists out. split; [exact Hq|]. intros t. split; [apply Hs|].
  unfold deps_query in Hq. destruct (deps_roots g hid lim roots ([], [])) as [st|] eqn:E; [|discriminate].
  injection Hq as <-. eapply deps_exact_complete; eauto.
Qed.

(* ---- the executable test ---- *)
Lemma dcost_ecost : forall g hid u v, dcost g hid u v = ecost g hid u v.
Proof. reflexivity. Qed.

Lemma lab_get_In : forall lab l c, lab_get lab l = Some c -> In (l, c) lab.
Proof.
  induction lab as [|[k c0] lab IH]; intros l c H; cbn [lab_get] in H; [discriminate|].
  destruct (N.eqb l k) eqn:E.
  - apply N.eqb_eq in E. injection H as <-. subst k. left. reflexivity.
  - right. apply IH. exact H.
Qed.

Lemma edges_okb_edge : forall g hid lab u c v, edges_okb g hid lab u c = true -> edge g [] u v ->
  lab_get lab v = Some (c + ecost g hid u v)%Z.
Proof.
  intros g hid lab u c v H [iu [Hf Hv]]. unfold edges_okb, out_edges in H. rewrite Hf in H.
  rewrite forallb_forall in H. specialize (H v Hv). destruct (lab_get lab v) as [cv|]; [|discriminate].
  apply Z.eqb_eq in H. rewrite dcost_ecost in H. subst cv. reflexivity.
Qed.

Theorem unique_costb_sound : forall g hid roots, unique_costb g hid roots = true -> unique_cost g hid roots.
Proof.
  intros g hid roots H. unfold unique_costb in H. set (lab := cost_labels g hid roots) in H.
  apply andb_true_iff in H. destruct H as [Hr Hl]. rewrite forallb_forall in Hr, Hl.
  assert (Hlab : forall r t c, In r roots -> wpathR g hid r t c -> lab_get lab t = Some c).
  { intros r t c Hin Hp. induction Hp as [v Hrv | v w c Hp IH Hvw].
    - rewrite <- (Z.add_0_l (ecost g hid r v)). apply edges_okb_edge; [apply Hr; exact Hin | exact Hrv].
    - apply edges_okb_edge; [|exact Hvw]. apply (Hl (v, c)). apply lab_get_In. exact IH. }
  intros t c c' [r [Hin Hp]] [r' [Hin' Hp']].
  pose proof (Hlab r t c Hin (wpath_R _ _ _ _ _ Hp)) as H1. pose proof (Hlab r' t c' Hin' (wpath_R _ _ _ _ _ Hp')) as H2.
  congruence.
Qed.

Corollary deps_exact_checked :
  forall g roots hid lim, (-1 <= lim)%Z -> unique_costb g hid roots = true ->
    exists out, deps_query g roots hid lim = Some out /\
      forall t, In t (map snd out) <-> dwithin g hid roots lim t.
Proof. intros g roots hid lim Hl H. apply deps_exact_unique_cost; [exact Hl | apply unique_costb_sound; exact H]. Qed.

(* contrapositive: an omitted target certifies two paths of different cost *)
Corollary deps_miss_needs_two_costs :
  forall g roots hid lim out t, (-1 <= lim)%Z -> deps_query g roots hid lim = Some out ->
    dwithin g hid roots lim t -> ~ In t (map snd out) -> ~ unique_cost g hid roots.
Proof.
  intros g roots hid lim out t Hl Hq Hw Hn U. destruct (deps_exact_unique_cost g roots hid lim Hl U) as [out' [Hq' Hiff]].
  rewrite Hq in Hq'. injection Hq' as <-. apply Hn. apply Hiff. exact Hw.
Qed.

(* examples: a tree and a layered DAG (every path into a target has the same length) pass the test, the witness
   of the known finding does not *)
Definition w_tree : graph :=
  [(0, mkT [1; 2] 0 false [] []); (1, mkT [3; 4] 1 false [] []); (2, mkT [5] 2 false [] []);
   (3, mkT [] 3 false [] []); (4, mkT [] 4 false [] []); (5, mkT [] 5 false [] [])]%N.

(* root 0 -> {1,2} -> {3,4} -> 5, all of layer k depending on all of layer k+1; 6 = hidden sub-target of 1 *)
Definition w_layers : graph :=
  [(0, mkT [1; 2] 0 false [] []); (1, mkT [6; 3; 4] 1 false [] []); (2, mkT [3; 4] 2 false [] []);
   (3, mkT [5] 3 false [] []); (4, mkT [5] 4 false [] []); (5, mkT [] 5 false [] []);
   (6, mkT [3] 1 true [] [])]%N.

Lemma unique_costb_examples :
  unique_costb w_tree false [0%N] = true /\ unique_costb w_layers false [0%N] = true
  /\ unique_costb w_layers true [0%N] = false /\ unique_costb w_deps false [3%N] = false.
Proof. repeat split; vm_compute; reflexivity. Qed.
